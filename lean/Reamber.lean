-- Root of the `Reamber` library: models, specs, lemmas, property theorems, driver handlers.
import Reamber.Drv.All
import Reamber.Props.All
