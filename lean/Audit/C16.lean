import Reamber.Props.C16
