import Reamber.Props.C12
