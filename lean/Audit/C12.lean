import Reamber.Props.C12
#print axioms Reamber.Stack.tables_tie
#print axioms Reamber.Stack.stack_coupled
#print axioms Reamber.Stack.assign_write_through
#print axioms Reamber.Stack.assign_keeps_coupled
#print axioms Reamber.Stack.update_renumbers_labels
#print axioms Reamber.Stack.step_sim
#print axioms Reamber.Stack.write_through
#print axioms Reamber.Stack.fresh_of_freshTrace
#print axioms Reamber.Stack.spec_frame
#print axioms Reamber.Stack.spec_other_columns
#print axioms Reamber.Stack.spec_nonmember
#print axioms Reamber.Stack.stale_stacker_counterexample
#print axioms Reamber.Stack.mapset_chart_assign
#print axioms Reamber.Stack.mapset_broadcast
