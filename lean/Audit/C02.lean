import Reamber.Props.C02
