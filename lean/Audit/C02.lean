import Reamber.Props.C02
#print axioms Reamber.C02.tables_tie
#print axioms Reamber.C02.symbols_tie
#print axioms Reamber.C02.row_position
#print axioms Reamber.C02.row_position_counterexample
#print axioms Reamber.C02.reader_events_eq_spec
#print axioms Reamber.C02.sm_times
#print axioms Reamber.C02.tempo_list_keeps_times_partial
#print axioms Reamber.C02.read_charts_each
#print axioms Reamber.C02.chart_own_header
#print axioms Reamber.C02.no_stops_tag_reads
#print axioms Reamber.C02.comment_colon_counterexample
#print axioms Reamber.C02.pairing_spec
#print axioms Reamber.C02.reader_notes_eq_spec
#print axioms Reamber.C02.tempo_list_keeps_times
