import Reamber.Props.C13
