import Reamber.Props.C13
#print axioms Reamber.Rate.schema_tie
#print axioms Reamber.Rate.rateLists_scales
#print axioms Reamber.Rate.rateChart_scales
#print axioms Reamber.Rate.rateSet_scales
#print axioms Reamber.Rate.rateSet_spec
#print axioms Reamber.Rate.rate_one
#print axioms Reamber.Rate.rate_comp
#print axioms Reamber.Rate.rate_inverse
#print axioms Reamber.Rate.rateSet_sm_offset_none
#print axioms Reamber.Rate.Stage.step
#print axioms Reamber.Rate.updateWith_slices
#print axioms Reamber.Rate.reindex_mapAll_reindex
#print axioms Reamber.Rate.frame_spec_sound
#print axioms Reamber.Rate.rate_write_read_partial
#print axioms Reamber.Rate.d04_offset_must_scale
#print axioms Reamber.Rate.rate_write_read_qua
#print axioms Reamber.Rate.rate_write_read_osu_partial
