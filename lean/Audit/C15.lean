import Reamber.Props.C15
