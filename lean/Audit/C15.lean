import Reamber.Props.C15

#print axioms Reamber.PermInv.sameRowsB_iff
#print axioms Reamber.PermInv.tiesEqualB_iff
#print axioms Reamber.PermInv.isort_key_eq_of_perm
#print axioms Reamber.PermInv.sortRow_append_eq_of_perm
#print axioms Reamber.PermInv.groupLast_congr
#print axioms Reamber.PermInv.dominant_bpm_perm
#print axioms Reamber.PermInv.sv_normalize_perm
#print axioms Reamber.PermInv.sv_normalize_perm_override
#print axioms Reamber.PermInv.dominant_bpm_order_counterexample
#print axioms Reamber.PermInv.dominant_bpm_tie_counterexample
#print axioms Reamber.PermInv.scroll_speed_perm
#print axioms Reamber.PermInv.scroll_speed_sv_tie_counterexample
#print axioms Reamber.PermInv.full_ln_perm
#print axioms Reamber.PermInv.full_ln_tie_counterexample
#print axioms Reamber.PermInv.rate_perm
#print axioms Reamber.PermInv.hitsound_copy_perm_partial
#print axioms Reamber.PermInv.n15a_object_dtype_counterexample
#print axioms Reamber.PermInv.write_qua_perm
#print axioms Reamber.PermInv.convert_one_perm
