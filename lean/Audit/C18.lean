import Reamber.Props.C18
