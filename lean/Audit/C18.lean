import Reamber.Props.C18
#print axioms Reamber.Hitsound.consts_tie
#print axioms Reamber.Hitsound.notes_preserved
#print axioms Reamber.Hitsound.counts_le
#print axioms Reamber.Hitsound.all_placed_if_room
#print axioms Reamber.Hitsound.no_invention
#print axioms Reamber.Hitsound.samples_conserved
#print axioms Reamber.Hitsound.file_balance
#print axioms Reamber.Hitsound.semicolon_counterexample
#print axioms Reamber.Hitsound.nan_hold_counterexample
#print axioms Reamber.Hitsound.copyWith_eq
#print axioms Reamber.Hitsound.groupsLoop_eq
#print axioms Reamber.Hitsound.applyWrites_eq_fillRows
#print axioms Reamber.Hitsound.notesPreservedB_iff
#print axioms Reamber.Hitsound.countsLeB_iff
#print axioms Reamber.Hitsound.noInventionB_iff
#print axioms Reamber.Hitsound.samplesConservedB_iff
#print axioms Reamber.Hitsound.allPlacedIfRoomB_iff
