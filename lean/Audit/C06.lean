import Reamber.Props.C06
#print axioms Reamber.Qua.consts_tie
#print axioms Reamber.Qua.qua_read_defaults
#print axioms Reamber.Qua.qua_read_write
#print axioms Reamber.Qua.closeChart_quantize
#print axioms Reamber.Qua.qua_write_keys
#print axioms Reamber.Qua.readNotes_write
#print axioms Reamber.Qua.truncI_close
#print axioms Reamber.Qua.tagsOf_joinTags
#print axioms Reamber.Qua.tagsOf_ok
#print axioms Reamber.Qua.omitted_keysounds_counterexample
#print axioms Reamber.Qua.converted_chart_counterexample
#print axioms Reamber.Qua.string_isv_counterexample
#print axioms Reamber.Qua.default_meta_typed
#print axioms Reamber.Qua.qua_write_keys_default
#print axioms Reamber.Qua.qua_write_denotes
#print axioms Reamber.Qua.qua_write_read
#print axioms Reamber.Qua.readMeta_metaOk
