import Reamber.Props.C06
