import Reamber.Props.C05
