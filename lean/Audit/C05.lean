import Reamber.Props.C05
#print axioms Reamber.BMS.writer_consts_tie
#print axioms Reamber.Timing.findLcm_dvd
#print axioms Reamber.BMS.newDens_dvd
#print axioms Reamber.BMS.slot_exact
#print axioms Reamber.BMS.slot_roundtrip
#print axioms Reamber.BMS.no_merge_no_drop
#print axioms Reamber.BMS.lineKeys_cover
#print axioms Reamber.BMS.lineKeys_unique
#print axioms Reamber.BMS.written_line_denotes
#print axioms Reamber.BMS.written_objects
#print axioms Reamber.BMS.pairLane_atoms
#print axioms Reamber.BMS.classify_rendered
#print axioms Reamber.BMS.write_positions
#print axioms Reamber.BMS.written_slot_time
#print axioms Reamber.BMS.line_valid
#print axioms Reamber.BMS.base36_roundtrip
#print axioms Reamber.BMS.bpm_3f_counterexample
