import Reamber.Props.C11
#print axioms Reamber.Timing.c11_consts_tie
#print axioms Reamber.Timing.reseat_spec
#print axioms Reamber.Timing.reseat_total
#print axioms Reamber.Timing.reseat_seated
#print axioms Reamber.Timing.reseat_length
#print axioms Reamber.Timing.reseat_keeps_times
#print axioms Reamber.Timing.reseat_keeps_bpm
#print axioms Reamber.Timing.reseat_id_of_seated
#print axioms Reamber.Timing.reseat_eq_ref
#print axioms Reamber.Timing.loop_ref
#print axioms Reamber.Timing.seatFromD_spec
#print axioms Reamber.Timing.reseat_beat_extend_counterexample
#print axioms Reamber.Timing.reseat_tiny_gap_counterexample
