import Reamber.Props.C11
