import Reamber.Props.C17
