import Reamber.Props.C04
#print axioms Reamber.BMS.layouts_tie
#print axioms Reamber.BMS.layouts_wellformed
#print axioms Reamber.BMS.channelOf_laneOf
#print axioms Reamber.BMS.slot_position
#print axioms Reamber.BMS.bms_times
#print axioms Reamber.BMS.bms_times_partial
#print axioms Reamber.Timing.lookupOffset_eq_timeAtAux
#print axioms Reamber.Timing.cumOffsets_eq
#print axioms Reamber.BMS.bms_incompatible_tempo_counterexample
#print axioms Reamber.BMS.lnobj_pairing_partial
#print axioms Reamber.BMS.pairing_invariant
#print axioms Reamber.BMS.lanes_independent
#print axioms Reamber.BMS.lnobj_unordered_counterexample
#print axioms Reamber.BMS.hits_order_independent
#print axioms Reamber.BMS.header_retained
