import Reamber.Props.C04
