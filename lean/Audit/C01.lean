import Reamber.Props.C01
