import Reamber.Props.C09
