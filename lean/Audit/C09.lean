import Reamber.Props.C09

#print axioms Reamber.Pipeline.closeTo_sound
#print axioms Reamber.Pipeline.matchUp_zipped
#print axioms Reamber.Pipeline.removeFirst_perm
#print axioms Reamber.Pipeline.closeTime_ms_trunc
#print axioms Reamber.Pipeline.sm_keys_roundtrip
#print axioms Reamber.Pipeline.sm_supported_exactly
#print axioms Reamber.Pipeline.sm_unsupported_refused
#print axioms Reamber.Pipeline.qua_mode_roundtrip
#print axioms Reamber.Pipeline.qua_supported_exactly
#print axioms Reamber.Pipeline.qua_modes_roundtrip
#print axioms Reamber.Pipeline.bms_layout_columns
#print axioms Reamber.Pipeline.sm_offset_rules
#print axioms Reamber.Pipeline.osu_circle_size_rules
#print axioms Reamber.Pipeline.qua_mode_rules
#print axioms Reamber.Pipeline.sm_chart_type_rules
#print axioms Reamber.Pipeline.offset_established_first
#print axioms Reamber.Pipeline.offset_established_zero
#print axioms Reamber.Pipeline.offset_established_min
#print axioms Reamber.Pipeline.minAll_offset_counterexample
#print axioms Reamber.Pipeline.o2j_first_tempo_at_zero
#print axioms Reamber.Pipeline.content_carried
#print axioms Reamber.Pipeline.into_qua_objects_partial
#print axioms Reamber.Pipeline.contentOk_abstract
#print axioms Reamber.Pipeline.convert_write_qua_objects_partial
