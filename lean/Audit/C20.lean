import Reamber.Props.C20
