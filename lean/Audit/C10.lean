import Reamber.Props.C10
#print axioms Reamber.Timing.consts_tie
#print axioms Reamber.Timing.offsetsWith_order
#print axioms Reamber.Timing.sweepOffsets_eq_mapE
#print axioms Reamber.Timing.gather_map_argsort
#print axioms Reamber.Timing.lookupOffset_before_first
