import Reamber.Props.C19
#print axioms Reamber.Analysis.consts_tie
#print axioms Reamber.Analysis.dominantRows_eq
#print axioms Reamber.Analysis.groupSum_dominantRows
#print axioms Reamber.Analysis.dominant_is_max
#print axioms Reamber.Analysis.isDominantB_iff
#print axioms Reamber.Analysis.dominant_empty
#print axioms Reamber.Analysis.refBpm_spec
#print axioms Reamber.Analysis.sv_normalize_spec
#print axioms Reamber.Analysis.sv_normalize_correct
#print axioms Reamber.Analysis.svNormOkB_sound
#print axioms Reamber.Analysis.scroll_speed_ref_partial
#print axioms Reamber.Analysis.ffill_last_valid
#print axioms Reamber.Analysis.ffill_value_source
#print axioms Reamber.Analysis.sort_tie_counterexample
