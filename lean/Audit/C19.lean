import Reamber.Props.C19
