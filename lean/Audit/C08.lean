import Reamber.Props.C08
