import Reamber.Props.C03
