import Reamber.Props.C03
#print axioms Reamber.C03.row_exact
#print axioms Reamber.C03.row_error_lt_one
#print axioms Reamber.C03.row_in_range
#print axioms Reamber.C03.slotOf_num_lt_den
#print axioms Reamber.C03.denMax_le_cap
#print axioms Reamber.C03.den_dvd_denMax
#print axioms Reamber.C03.padding_count
#print axioms Reamber.C03.measure_at_index
#print axioms Reamber.C03.round6_err
#print axioms Reamber.C03.round6_exact
#print axioms Reamber.C03.round6_sixteenth
#print axioms Reamber.C03.round6_grid48
#print axioms Reamber.C03.round6_shift_within_row
#print axioms Reamber.C03.two_decimal_counterexample
#print axioms Reamber.C03.selectable_roundtrip
