import Reamber.Props.C07
#print axioms Reamber.O2J.header_layout_partial
#print axioms Reamber.O2J.channels_tie
#print axioms Reamber.O2J.isNoteChannel_eq
#print axioms Reamber.O2J.slotsOf_eq_spec
#print axioms Reamber.O2J.decodeI32_encode
#print axioms Reamber.O2J.decodeI16_encode
#print axioms Reamber.O2J.decodeF32_parts
#print axioms Reamber.O2J.o2j_times
#print axioms Reamber.O2J.readPkgs_errors
#print axioms Reamber.O2J.hold_pairing
#print axioms Reamber.O2J.decodePkg_notes
#print axioms Reamber.O2J.posTime_eq_timeAt
#print axioms Reamber.O2J.sweep_table
#print axioms Reamber.O2J.sweep_offsets
#print axioms Reamber.O2J.consumeAll_integ
#print axioms Reamber.O2J.old_sweep_counterexample
#print axioms Reamber.O2J.old_length_counterexample
