import Reamber.Props.C07
