import Reamber.Props.C14
