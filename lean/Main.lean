/-
Line-protocol driver: one JSON object per input line `{"op": "<family>.<name>", ...}`, one JSON value per
output line.  `{"bad": msg}` is a protocol error (malformed request), distinct from a modelled Python
exception `{"err": class}`.
-/
import Reamber.Drv.All

open Lean

partial def loop (h : IO.FS.Stream) (out : IO.FS.Stream) : IO Unit := do
  let line ← h.getLine
  if line.isEmpty then return ()
  let resp : Json :=
    match Json.parse line with
    | .error e => Json.mkObj [("bad", Json.str s!"parse: {e}")]
    | .ok j =>
      match j.getObjValAs? String "op" with
      | .error _ => Json.mkObj [("bad", Json.str "no op")]
      | .ok op =>
        match Reamber.dispatch op j with
        | .ok r => r
        | .error e => Json.mkObj [("bad", Json.str e)]
  out.putStrLn resp.compress
  out.flush
  loop h out

def main : IO Unit := do loop (← IO.getStdin) (← IO.getStdout)
