/-
C14 — Query, generate, convert and write operations never modify their inputs.

The statements are about the effect model `Reamber/Model/Effects.lean` (heap of frames, signatures, behaviours,
histories) against the specification `Reamber/Spec/Effects.lean` (`FrameHolds`, `Fresh`).  They hold for EVERY
behaviour that lies within the signatures of a table and for every history; that each real operation lies within
the signature `opTable` assigns to it is what the correspondence check observes on every run (deep snapshots,
`np.shares_memory`, mutate-the-result-then-re-snapshot), and what `source_tie` re-reads from the source.

Property text (full strength), kept here for comparison with what is proved:
  "Every operation that returns a new value … leaves each chart and list it was given identical in values,
   columns, types and row labels.  Results documented as copies share no mutable state with the input: changing
   the result afterwards does not change the input.  For all charts and lists of all games and every listed
   operation, applied once or in any sequence."
Proved below for the model: `call_frame` (one call), `call_fresh` + `copy_result_mutation_frame` (copies), and
`frame_history` (any sequence, any interleaving with the client changing copies it received), instantiated for the
code's table — the full table, no exclusion — in `frame_history_opTable`.
Not a theorem (observed): that the code's operations have the signatures of `opTable`.
-/
import Reamber.Lemmas.Effects
import Reamber.Generated.Effects

namespace Reamber.Effects

variable {α : Type}

/-! ## one call -/

/-- **frame, one call.** An operation whose signature lets it write nothing leaves every cell reachable from its
arguments exactly as it was — values, columns, types, row labels (`Frame.same_components`) — whatever it computes. -/
theorem call_frame {s : Sig} {args : List Obj} (h : Heap α) {b : Beh α}
    (hs : s.writes = []) (hw : b.within s h.length args = true) (hv : validArgs h.length args = true) :
    FrameHolds h (applyBeh h b) (reach args) := by
  intro r hr
  rw [applyBeh_of_pure h hs hw]
  exact List.getElem?_append_left (mem_reach_lt hv r hr)

/-- the same for every cell of the heap, reachable from an argument or not -/
theorem call_frame_all {s : Sig} {args : List Obj} (h : Heap α) {b : Beh α}
    (hs : s.writes = []) (hw : b.within s h.length args = true) :
    ∀ r, r < h.length → (applyBeh h b)[r]? = h[r]? := by
  intro r hr
  rw [applyBeh_of_pure h hs hw]
  exact List.getElem?_append_left hr

/-- **fresh.** The result of an operation whose signature lets it share nothing reaches no cell that existed before
the call, and only cells that exist after it. -/
theorem call_fresh {s : Sig} {args : List Obj} (h : Heap α) {b : Beh α}
    (hs : s.shares = []) (hw : b.within s h.length args = true) :
    Fresh h.length b.ret ∧ ∀ r ∈ b.ret, r < h.length + b.news.length := by
  have := within_ret_fresh hs hw
  exact ⟨fun r hr => (this r hr).1, fun r hr => (this r hr).2⟩

/-- **changing the result afterwards does not change the input.** After a call that writes nothing and shares
nothing, any in-place change `ws` of cells of the result leaves every cell reachable from the arguments as it was
before the call. -/
theorem copy_result_mutation_frame {s : Sig} {args : List Obj} (h : Heap α) {b : Beh α} (ws : List (Ref × α))
    (hpure : s.writes = []) (hfresh : s.shares = [])
    (hw : b.within s h.length args = true) (hv : validArgs h.length args = true)
    (hws : ∀ w ∈ ws, w.1 ∈ b.ret) :
    FrameHolds h (applyWrites (applyBeh h b) ws) (reach args) := by
  intro r hr
  have hlt := mem_reach_lt hv r hr
  rw [applyWrites_getElem?_of_not_written]
  · exact call_frame h hpure hw hv r hr
  · intro w hwm heq
    have := (call_fresh h hfresh hw).1 w.1 (hws w hwm)
    exact Nat.not_le.mpr hlt (heq ▸ this)

/-- the same for every cell that existed before the call — other charts, class-level defaults —, reachable from
an argument or not: this is the form the harness evaluates after its mutation probes -/
theorem copy_result_mutation_frame_all {s : Sig} {args : List Obj} (h : Heap α) {b : Beh α} (ws : List (Ref × α))
    (hpure : s.writes = []) (hfresh : s.shares = [])
    (hw : b.within s h.length args = true) (hws : ∀ w ∈ ws, w.1 ∈ b.ret) :
    FrameHolds h (applyWrites (applyBeh h b) ws) (List.range h.length) := by
  intro r hr
  have hlt : r < h.length := by simpa using hr
  rw [applyWrites_getElem?_of_not_written]
  · exact call_frame_all h hpure hw r hlt
  · intro w hwm heq
    have := (call_fresh h hfresh hw).1 w.1 (hws w hwm)
    exact Nat.not_le.mpr hlt (heq ▸ this)

/-- **model satisfies spec, in the decidable form the harness evaluates on the implementation's observations**
(`c14.check` computes exactly `frameB` / `freshB` on the snapshots taken around each real call). -/
theorem call_spec_holds [DecidableEq α] {s : Sig} {args : List Obj} (h : Heap α) {b : Beh α}
    (hs : s.writes = []) (hw : b.within s h.length args = true) (hv : validArgs h.length args = true) :
    frameB h (applyBeh h b) (reach args) = true ∧ (s.shares = [] → freshB h.length b.ret = true) :=
  ⟨(frameB_iff _ _ _).mpr (call_frame h hs hw hv), fun hf => (freshB_iff _ _).mpr (call_fresh h hf hw).1⟩

/-! ## any sequence -/

/-- invariant of a history that started from heap `base`: the heap only grew, every cell of `base` still holds its
frame, and every result handed out as a copy lies entirely outside `base` -/
def Inv (base : Heap α) (st : State α) : Prop :=
  base.length ≤ st.heap.length ∧
  (∀ r, r < base.length → st.heap[r]? = base[r]?) ∧
  (∀ p ∈ st.results, p.1 = true → ∀ r ∈ p.2, base.length ≤ r)

theorem step_preserves_inv (T : List Sig) (hpure : ∀ s ∈ T, s.writes = [])
    (hcopy : ∀ s ∈ T, s.copy = true → s.shares = [])
    (base : Heap α) (st st' : State α) (e : Event α) (hinv : Inv base st) (hst : step T st e = some st') :
    Inv base st' := by
  obtain ⟨hlen, hget, hres⟩ := hinv
  cases e with
  | call s args b =>
    simp only [step] at hst
    split at hst
    · rename_i hc
      simp only [Bool.and_eq_true] at hc
      obtain ⟨⟨hT, _⟩, hw⟩ := hc
      have hmem : s ∈ T := by simpa using hT
      injection hst with hst
      subst hst
      have happ := applyBeh_of_pure st.heap (hpure s hmem) hw
      refine ⟨?_, ?_, ?_⟩
      · simp only [happ, List.length_append]; omega
      · intro r hr
        simp only [happ]
        rw [List.getElem?_append_left (by omega)]
        exact hget r hr
      · intro p hp hp1 r hr
        simp only [List.mem_append, List.mem_singleton] at hp
        rcases hp with hp | hp
        · exact hres p hp hp1 r hr
        · subst hp
          have := (call_fresh st.heap (hcopy s hmem hp1) hw).1 r hr
          omega
    · simp at hst
  | mutate t ws =>
    simp only [step] at hst
    split at hst
    · rename_i refs hres_t
      split at hst
      · rename_i hall
        injection hst with hst
        subst hst
        have hmem : (true, refs) ∈ st.results := List.mem_of_getElem? hres_t
        have hge : ∀ w ∈ ws, base.length ≤ w.1 := by
          intro w hwm
          have := (List.all_eq_true.mp hall) w hwm
          have hin : w.1 ∈ refs := by simpa using this
          exact hres (true, refs) hmem rfl w.1 hin
        refine ⟨?_, ?_, hres⟩
        · simp only [applyWrites_length]; exact hlen
        · intro r hr
          simp only []
          rw [applyWrites_getElem?_of_not_written]
          · exact hget r hr
          · intro w hwm heq
            have := hge w hwm
            exact Nat.not_le.mpr hr (heq ▸ this)
      · simp at hst
    · simp at hst
  | alloc news =>
    simp only [step] at hst
    injection hst with hst
    subst hst
    refine ⟨?_, ?_, hres⟩
    · simp only [List.length_append]; omega
    · intro r hr
      simp only []
      rw [List.getElem?_append_left (by omega)]
      exact hget r hr

theorem run_preserves_inv (T : List Sig) (hpure : ∀ s ∈ T, s.writes = [])
    (hcopy : ∀ s ∈ T, s.copy = true → s.shares = [])
    (base : Heap α) (es : List (Event α)) (st st' : State α) (hinv : Inv base st) (hrun : run T st es = some st') :
    Inv base st' := by
  induction es generalizing st with
  | nil => simp only [run] at hrun; injection hrun with h; subst h; exact hinv
  | cons e es ih =>
    simp only [run] at hrun
    split at hrun
    · simp at hrun
    · rename_i st1 hst1
      exact ih st1 (step_preserves_inv T hpure hcopy base st st1 e hinv hst1) hrun

/-- **frame, any sequence.** Over a table of signatures that write nothing and whose copies share nothing: after
ANY finite history of calls (any operations of the table, any arguments taken from the heap as it then is — inputs,
earlier results, shared or not —, any behaviour within the signatures) interleaved with the client changing, in
place, results it received as copies, every cell of the initial heap `h₀` still holds the frame it held at the
start.  In particular every chart and list that was there at the start is unchanged in values, columns, types and
row labels, however often and in whatever order it was handed to the operations. -/
theorem frame_history (T : List Sig) (hpure : ∀ s ∈ T, s.writes = [])
    (hcopy : ∀ s ∈ T, s.copy = true → s.shares = [])
    (h₀ : Heap α) (es : List (Event α)) (st' : State α)
    (hrun : run T { heap := h₀, results := [] } es = some st') :
    FrameHolds h₀ st'.heap (List.range h₀.length) := by
  have hinv : Inv h₀ ({ heap := h₀, results := [] } : State α) :=
    ⟨Nat.le_refl _, fun _ _ => rfl, fun p hp => by simp at hp⟩
  have := run_preserves_inv T hpure hcopy h₀ es _ st' hinv hrun
  intro r hr
  exact this.2.1 r (by simpa using hr)

/-- the same from any intermediate state: what is in the heap when a suffix of the history starts, and has not been
handed out as a copy, is unchanged at its end -/
theorem frame_history_from (T : List Sig) (hpure : ∀ s ∈ T, s.writes = [])
    (hcopy : ∀ s ∈ T, s.copy = true → s.shares = [])
    (base : Heap α) (st st' : State α) (es : List (Event α)) (hinv : Inv base st)
    (hrun : run T st es = some st') :
    FrameHolds base st'.heap (List.range base.length) := by
  have := run_preserves_inv T hpure hcopy base es st st' hinv hrun
  intro r hr
  exact this.2.1 r (by simpa using hr)

/-- **fresh, any sequence.** Every result handed out as a copy anywhere in such a history lies outside the
initial heap: it shares no cell with any chart or list that was there at the start. -/
theorem fresh_history (T : List Sig) (hpure : ∀ s ∈ T, s.writes = [])
    (hcopy : ∀ s ∈ T, s.copy = true → s.shares = [])
    (h₀ : Heap α) (es : List (Event α)) (st' : State α)
    (hrun : run T { heap := h₀, results := [] } es = some st') :
    ∀ p ∈ st'.results, p.1 = true → Fresh h₀.length p.2 := by
  have hinv : Inv h₀ ({ heap := h₀, results := [] } : State α) :=
    ⟨Nat.le_refl _, fun _ _ => rfl, fun p hp => by simp at hp⟩
  exact (run_preserves_inv T hpure hcopy h₀ es _ st' hinv hrun).2.2

/-! ## the table of the code as it is -/

/-- no signature of the table lets an operation write into a cell of its arguments -/
theorem opTable_pure : ∀ s ∈ opTable, s.writes = [] := by decide

/-- every operation the property lists has a signature in the table, and names are unique -/
def listedOps : List String :=
  ["list.after", "list.before", "list.between", "list.mask", "list.sorted", "list.append", "list.append_item",
   "list.move_start_to", "list.move_end_to", "list.deepcopy", "map.deepcopy", "mapset.deepcopy", "map.rate",
   "mapset.rate"] ++ converterOps ++
  ["write.osu", "write.quaver", "write.sm", "write.bms", "alg.full_ln", "alg.hitsound_copy", "alg.sv_normalize",
   "alg.scroll_speed", "alg.dominant_bpm", "ptn.from_note_lists", "ptn.group", "ptn.combinations"] ++
  fileWriterOps ++ queryOps.map (·.1)

theorem opTable_covers_listed :
    (∀ n ∈ listedOps, ∃ s, lookup n = some s ∧ s.name = n ∧ s.copy = true) ∧ (opTable.map (·.name)).Nodup := by
  decide

/-- every signature marked `copy` shares nothing -/
theorem opTable_copy_fresh : ∀ s ∈ opTable, s.copy = true → s.shares = [] := by decide

/-- **C14 for the code's table.**  Any history over the listed operations — filter/sort/append/move/copy, rate, the 17
converter entry points, the four writers, full_ln, hitsound_copy, sv_normalize, scroll_speed, dominant_bpm, pattern
extraction — and the two sharing controls, with the client changing copies in between, leaves every cell of the
initial heap as it was, and no copy reaches into the initial heap. -/
theorem frame_history_opTable (h₀ : Heap α) (es : List (Event α)) (st' : State α)
    (hrun : run opTable { heap := h₀, results := [] } es = some st') :
    FrameHolds h₀ st'.heap (List.range h₀.length) ∧ ∀ p ∈ st'.results, p.1 = true → Fresh h₀.length p.2 :=
  ⟨frame_history _ opTable_pure opTable_copy_fresh h₀ es st' hrun,
   fresh_history _ opTable_pure opTable_copy_fresh h₀ es st' hrun⟩

/-- one call of any operation of the table changes no cell of its arguments -/
theorem call_frame_opTable {s : Sig} (hs : s ∈ opTable) {args : List Obj} (h : Heap α) {b : Beh α}
    (hw : b.within s h.length args = true) (hv : validArgs h.length args = true) :
    FrameHolds h (applyBeh h b) (reach args) :=
  call_frame h (opTable_pure s hs) hw hv

/-- `lookup` finds members of the table -/
theorem lookup_mem {n : String} {s : Sig} (h : lookup n = some s) : s ∈ opTable := by
  unfold lookup at h
  exact List.mem_of_find?_eq_some h

/-- **every listed operation, instantiated.**  For each operation the table lists as returning a new value — the
property's own list, the file writers, and the queries / constructors / analyses of the public surface of
TimedList, HoldList, BpmList, Map, MapSet, ConvertBase, Pattern (`queryOps`) — the table has a signature, and for
EVERY heap, arguments and behaviour within that signature: the arguments' cells are unchanged by the call, the
result reaches no cell that existed before, and any later in-place change of the result leaves every cell that
existed before the call as it was. -/
theorem listed_op_frame_fresh :
    ∀ n ∈ listedOps, ∃ s, lookup n = some s ∧
      ∀ (h : Heap α) (args : List Obj) (b : Beh α), b.within s h.length args = true →
        (validArgs h.length args = true → FrameHolds h (applyBeh h b) (reach args)) ∧
        Fresh h.length b.ret ∧
        ∀ ws : List (Ref × α), (∀ w ∈ ws, w.1 ∈ b.ret) →
          FrameHolds h (applyWrites (applyBeh h b) ws) (List.range h.length) := by
  intro n hn
  obtain ⟨s, hl, _, hc⟩ := opTable_covers_listed.1 n hn
  have hm := lookup_mem hl
  have hp := opTable_pure s hm
  have hf := opTable_copy_fresh s hm hc
  refine ⟨s, hl, fun h args b hw => ⟨fun hv => call_frame h hp hw hv, (call_fresh h hf hw).1, fun ws hws => ?_⟩⟩
  exact copy_result_mutation_frame_all h ws hp hf hw hws

/-- **accessors** (`tl.df`, a column, `iloc`/`loc`, `to_numpy`, `from_dict`, `m[Class]` / `m.hits` / `m.notes`,
iteration and indexing of a set, the stacked views, `to_timing_map`) and the two sharing controls: the table has a
signature for each; a call within it changes no cell of its arguments, and its result reaches only cells the call
allocated itself and cells of its arguments — nothing else of the heap. -/
theorem accessor_frame_bounded :
    ∀ n ∈ accessorOps.map (·.1) ++ ["list.wrap", "list.slice", "bpm.to_timing_map"], ∃ s, lookup n = some s ∧ s.copy = false ∧
      ∀ (h : Heap α) (args : List Obj) (b : Beh α), b.within s h.length args = true →
        (validArgs h.length args = true → FrameHolds h (applyBeh h b) (reach args)) ∧
        ∀ r ∈ b.ret, (h.length ≤ r ∧ r < h.length + b.news.length) ∨ r ∈ reach args := by
  have key : ∀ n ∈ accessorOps.map (·.1) ++ ["list.wrap", "list.slice", "bpm.to_timing_map"],
      ∃ s, lookup n = some s ∧ s.copy = false := by decide
  intro n hn
  obtain ⟨s, hl, hc⟩ := key n hn
  have hp := opTable_pure s (lookup_mem hl)
  exact ⟨s, hl, hc, fun h args b hw => ⟨fun hv => call_frame h hp hw hv, within_ret_bounded hw⟩⟩

/-- every signature of the table is either a copy (shares nothing) or an accessor / control of the theorem above:
the two theorems together speak about the whole table -/
theorem opTable_partition :
    ∀ s ∈ opTable, (s.copy = true ∧ s.name ∈ listedOps) ∨
      (s.copy = false ∧ s.name ∈ accessorOps.map (·.1) ++ ["list.wrap", "list.slice", "bpm.to_timing_map"]) := by decide

/-- **the public surface is inside the table.**  Every function, property, class method and static method the
source defines on TimedList, HoldList, BpmList, Map, MapSet, ConvertBase and Pattern (read by the translator on
every run) has an entry in `surfaceOps`; each operation named there has a signature in the table; an entry without
operations is one of `notOperations`.  A method added to one of these classes breaks this theorem until the
table is extended. -/
theorem public_surface_covered :
    ∀ m ∈ Generated.Effects.publicSurface, ∃ e ∈ surfaceOps, e.1 = m ∧
      (e.2 = [] → m ∈ notOperations) ∧ ∀ o ∈ e.2, (lookup o).isSome = true := by decide +kernel

/-! ## why the hypotheses are needed: counterexamples -/

/-- **D17 (repaired in the source, kept as the reason for `writes = []`).** With the signature `sv_normalize` had
as it was written — it assigned the `multiplier` column into the caller's tempo frame — there is a behaviour
within the signature that changes a cell of its argument. -/
theorem sv_normalize_writes_counterexample :
    ∃ (h : Heap Nat) (args : List Obj) (b : Beh Nat),
      b.within svNormalizeAsWritten h.length args = true ∧ validArgs h.length args = true ∧
      ¬ FrameHolds h (applyBeh h b) (reach args) := by
  refine ⟨[10], [[("objs.s:bpms._df", 0)]], { writes := [(0, 11)], news := [12], ret := [1] }, by decide, by decide, ?_⟩
  rw [← frameB_iff]
  decide

/-- **D38 (repaired in the source, kept as the reason for `copy → shares = []`).** With the signature
`OsuToQua.convert` / `QuaToOsu.convert` had as they were written (`result.tags = source.tags`), a legal history —
convert, then the client appends to the result's tags — changes a cell of the initial heap. -/
theorem n14a_counterexample :
    ∃ (h₀ : Heap Nat) (es : List (Event Nat)) (st' : State Nat),
      run [converterSharingTags "conv.OsuToQua.convert"] { heap := h₀, results := [] } es = some st' ∧
      ¬ FrameHolds h₀ st'.heap (List.range h₀.length) := by
  refine ⟨[7, 8],
    [.call (converterSharingTags "conv.OsuToQua.convert") [[("", 0), ("tags", 1)]] { writes := [], news := [70], ret := [2, 1] },
     .mutate 0 [(1, 9)]],
    { heap := [7, 9, 70], results := [(true, [2, 1])] }, by decide, ?_⟩
  rw [← frameB_iff]
  decide

/-! ## tie to the source (re-checked whenever the translator's output changes) -/

/-- * the table's converter operations are exactly the `convert*` entry points of the converter classes in
    `reamber/algorithms/convert`;
  * its writers are exactly the games whose chart class has `write`, its file writers those with `write_file`;
  * every operation the table marks as a deep copy (converters aside) is one whose source body makes a copy
    (`deepcopy`/`.deepcopy()`), and `sv_normalize` copies the tempo frame (D17's repair);
  * `TimedList.__deepcopy__` exists and copies the objects held in object columns (D39's repair: the table's
    `deep` copies share no cell objects);
  * no converter's source assigns `x.tags = y.tags` (D38's repair: the table lets no converter share anything). -/
theorem source_tie :
    (∀ n ∈ converterOps, n ∈ Generated.Effects.converterOps) ∧
    (∀ n ∈ Generated.Effects.converterOps, n ∈ converterOps) ∧
    (opTable.map (·.name)).filter (fun n => writerOps.contains n) = Generated.Effects.writerOps ∧
    writerOps = Generated.Effects.writerOps ∧
    fileWriterOps = Generated.Effects.fileWriterOps ∧
    (∀ s ∈ opTable, s.deep = true → s.name ∈ converterOps ∨ (s.name, true) ∈ Generated.Effects.makesCopy) ∧
    ("alg.sv_normalize", true) ∈ Generated.Effects.makesCopy ∧
    ("list.__deepcopy__.object_columns", true) ∈ Generated.Effects.makesCopy ∧
    Generated.Effects.assignsTags = [] := by decide

/-! ## non-vacuity -/

/-- a legal three-event history over the code's table: filter a list, deep-copy a chart, change the copy -/
example :
    (run opTable ({ heap := [1, 2, 3], results := [] } : State Nat)
      [.call (lookup "list.after").get! [[("", 0), ("_df", 1)]] { writes := [], news := [4, 5], ret := [3, 4] },
       .call (lookup "map.deepcopy").get! [[("", 2)]] { writes := [], news := [6], ret := [5] },
       .mutate 1 [(5, 60)]]).map (·.heap) = some [1, 2, 3, 4, 5, 60] := by decide

/-- a call that writes into its argument is not a legal event over the table -/
example :
    run opTable ({ heap := [1, 2], results := [] } : State Nat)
      [.call (lookup "alg.sv_normalize").get! [[("", 0), ("objs.s:bpms._df", 1)]]
        { writes := [(1, 20)], news := [3], ret := [2] }] = none := by decide

/-- the hypotheses of `listed_op_frame_fresh` / `accessor_frame_bounded` are satisfiable: a query that allocates its
result, an accessor that hands out a cell of its argument next to a new one -/
example : (⟨[], [30], [2]⟩ : Beh Nat).within (lookup "bpm.snap_offsets").get! 2 [[("", 0), ("_df", 1)]] = true := by decide
example : (⟨[], [30], [2, 1]⟩ : Beh Nat).within (lookup "list.to_numpy").get! 2 [[("", 0), ("_df", 1)]] = true := by decide
/-- an accessor's result may not reach a cell that belongs to no argument -/
example : (⟨[], [30], [3, 2]⟩ : Beh Nat).within (lookup "list.df").get! 3 [[("", 0), ("_df", 1)]] = false := by decide

/-- the hypotheses of `copy_result_mutation_frame` are satisfiable -/
example : (⟨[], [30], [1]⟩ : Beh Nat).within (lookup "map.rate").get! 1 [[("", 0)]] = true := by decide

end Reamber.Effects
