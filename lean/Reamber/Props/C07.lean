/-
C07 — O2Jam reading places every note and tempo change at the time its measure implies.
Property theorems (helper lemmas in `Reamber/Lemmas/O2JTime.lean`, `Reamber/Lemmas/O2JPair.lean`).  Statements are about
the executable model `Reamber/Model/O2J.lean`, which the correspondence check ties to reamber/o2jam/*.py on every run,
against the declarative `Reamber/Spec/O2J.lean` — the same definitions the harness evaluates on the implementation's
output.
-/
import Reamber.Lemmas.O2JTime
import Reamber.Lemmas.O2JPair
import Reamber.Spec.Timing

namespace Reamber.O2J

open Reamber.O2J.Spec
open Reamber.Generated

/-! ### tie to the source: generated tables = the format -/

/-- offsets of the generated table entries: running sum of `int(size / count) * count` -/
def tableOffsets : List (Char × Nat × Nat) → Nat → List Nat
  | [], _ => []
  | (_, size, count) :: rest, ix => ix :: tableOffsets rest (ix + size / count * count)

/-- the layout the code implements: each assignment of `read_meta` with the offset, struct code and count of the
`meta_fields` entry it takes -/
def derivedLayout : List (String × Nat × Char × Nat × String) :=
  O2J.metaAssign.map fun a =>
    let t := layoutTable.getD a.2.1 ('?', 0, 1)
    (a.1, (tableOffsets layoutTable 0).getD a.2.1 0, t.1, t.2.2, a.2.2)

/-- **The 300-byte header is laid out as the format says**: the three generated `BYTE_*` tables together with the
generated assignments of `read_meta` give every attribute the format's offset, type, count and shape; the sizes sum to
300; every entry's element width is its struct code's width.  Re-checked whenever the source tables change. -/
theorem header_layout_partial :
    derivedLayout = formatLayout ∧
    O2J.byteSizes.sum = headerSize ∧
    O2J.byteCount.length = 23 ∧ O2J.byteSizes.length = 23 ∧ O2J.byteFormats.length = 23 ∧
    layoutTable.all (fun t => decide (t.2.2 ≠ 0) && decide (fmtSize t.1 = some (t.2.1 / t.2.2))
                              && decide (t.2.1 / t.2.2 = codeSize t.1)) = true := by
  decide +kernel

/- `header_layout` is the `_partial` form of the header claim.  FULL STATEMENT (not proved yet):
     theorem readMeta_eq_specMeta (bs : List Nat) : readMeta bs = specMeta bs
   i.e. the walk over the generated tables with its running `ix_start`, followed by the generated assignments, returns for
   EVERY byte string the attributes read directly at the format's declared offsets (and the same error when the string
   is shorter than 300 bytes).  Proved: the layout the walk implements (offset = running sum of int(size/count)*count,
   code, count, shape per attribute) IS the format's table, entry widths are the struct codes' widths, sizes sum to 300
   (`header_layout`, by evaluation of the generated tables).  Missing: the generic induction "walk tbl ix = map (read at
   offsets tbl ix)" and its fusion with the assignment loop.  Both functions are evaluated by the driver on every
   generated file and compared with the implementation's header (model: correspondence, spec: specification). -/

/-- the channel numbering and note-type bytes the model takes from the source are the format's -/
theorem channels_tie :
    O2J.chMeasureFraction = 0 ∧ O2J.chBpmChange = 1 ∧
    O2J.colRangeStart = 2 ∧ O2J.colRangeStop = 9 ∧ O2J.colRangeStep = 1 ∧
    O2J.colChannels = [("COL_1", 2), ("COL_2", 3), ("COL_3", 4), ("COL_4", 5), ("COL_5", 6), ("COL_6", 7), ("COL_7", 8)] ∧
    O2J.hitByte = 0 ∧ O2J.holdHeadByte = 2 ∧ O2J.holdTailByte = 3 ∧
    Reamber.Timing.minToMsec = 60000 := by
  decide +kernel

theorem isNoteChannel_eq (ch : Int) : isNoteChannel ch = isColChannel ch := by
  simp only [isNoteChannel, isColChannel, O2J.colRangeStart, O2J.colRangeStop]
  by_cases h1 : (2 : Int) ≤ ch <;> by_cases h2 : ch < 9 <;> simp [h1, h2] <;> omega

/-- with those constants the model's event decoders are the specification's (which uses literals) -/
theorem slotsOf_eq_spec (p : RawPkg) (h : isNoteChannel p.channel = true) : slotsOf p = specSlots p := by
  have hc : isColChannel p.channel = true := by rw [← isNoteChannel_eq]; exact h
  have haux : ∀ (m c : Int) (n : Nat) (gs : List (List Nat)) (i : Nat),
      slotsAux m c n i gs = specSlotsAux m c n i gs := by
    intro m c n gs
    induction gs with
    | nil => intro i; rfl
    | cons g rest ih =>
      intro i
      have hs : slotOf m c n i g = specSlot m c n i g := rfl
      unfold slotsAux specSlotsAux
      rw [hs]
      cases specSlot m c n i g <;> simp [ih]
  simp only [slotsOf, specSlots, hc, if_true, haux]

/-! ### decoders -/

/-- little-endian bytes of `v` on `k` bytes (what `struct.pack` writes) -/
def encodeLE : Nat → Nat → List Nat
  | 0, _ => []
  | k + 1, v => v % 256 :: encodeLE k (v / 256)

/-- two's-complement bit pattern of an integer on `bits` bits -/
def toBits (bits : Nat) (n : Int) : Nat := (n % (2 ^ bits : Nat)).toNat

theorem leNat_encodeLE (k : Nat) : ∀ v, v < 256 ^ k → leNat (encodeLE k v) = v := by
  induction k with
  | zero => intro v h; simp at h; subst h; rfl
  | succ k ih =>
    intro v h
    simp only [encodeLE, leNat]
    rw [ih (v / 256) (by rw [Nat.pow_succ] at h; omega)]
    omega

/-- `unpack("<i", pack("<i", n)) = n` for every 32-bit integer -/
theorem decodeI32_encode (n : Int) (h1 : -2 ^ 31 ≤ n) (h2 : n < 2 ^ 31) :
    decodeI32 (encodeLE 4 (toBits 32 n)) = n := by
  unfold decodeI32
  rw [leNat_encodeLE 4 _ (by unfold toBits; omega)]
  unfold toSigned toBits
  split <;> omega

/-- `unpack("<h", pack("<h", n)) = n` for every 16-bit integer -/
theorem decodeI16_encode (n : Int) (h1 : -2 ^ 15 ≤ n) (h2 : n < 2 ^ 15) :
    decodeI16 (encodeLE 2 (toBits 16 n)) = n := by
  unfold decodeI16
  rw [leNat_encodeLE 2 _ (by unfold toBits; omega)]
  unfold toSigned toBits
  split <;> omega

/-- float32 bits → value: the four bytes of sign `s`, biased exponent `e`, mantissa `m` decode to the IEEE-754 value
`(-1)^s · (1 + m/2^23) · 2^(e-127)` (normal), `(-1)^s · m · 2^-149` (subnormal / zero), ±inf, NaN (`f32OfParts`) -/
theorem decodeF32_parts (s e m : Nat) (hs : s < 2) (he : e < 256) (hm : m < 2 ^ 23) :
    decodeF32 (encodeLE 4 (s * 2 ^ 31 + e * 2 ^ 23 + m)) = f32OfParts s e m := by
  unfold decodeF32
  rw [leNat_encodeLE 4 _ (by omega)]
  have h1 : (s * 2 ^ 31 + e * 2 ^ 23 + m) / 2 ^ 31 = s := by omega
  have h2 : (s * 2 ^ 31 + e * 2 ^ 23 + m) / 2 ^ 23 % 256 = e := by omega
  have h3 : (s * 2 ^ 31 + e * 2 ^ 23 + m) % 2 ^ 23 = m := by omega
  simp only [h1, h2, h3]

example : decodeF32 [0, 0, 0xF0, 0x42] = .fin 120 := by decide +kernel
example : decodeF32 [0, 0, 0x80, 0x3F] = .fin 1 := by decide +kernel
example : decodeF32 [0xCD, 0xCC, 0x4C, 0xBE] = .fin (-13421773 / 67108864) := by decide +kernel   -- -0.2f
example : decodeF32 [1, 0, 0, 0] = .fin (1 / 2 ^ 149) := by decide +kernel
example : decodeF32 [0, 0, 0x80, 0xFF] = .inf true := by decide +kernel
example : decodeI32 (encodeLE 4 (toBits 32 (-2))) = -2 := by decide +kernel

/-! ### times -/

/-- **Every note, long-note end and tempo event sits at the integrated time of its measure position.**
For any packages of one difficulty (no measure-fraction package, header tempo ≠ 0) the model's `read_pkgs` returns
exactly: the notes in stable measure order, each with `Spec.noteOut` — offset `posTime` of its position, a long note's
length `posTime tail − posTime head` —, and the tempo list `(0 ms, header tempo)` followed by the tempo events in
stable position order, each at `posTime` of its own position.  This covers tempo events after the last note (or with
no note at all), several events inside one measure, events at position 0, events coinciding with notes, and packages
in any file order. -/
theorem o2j_times (pkgs : List Pkg) (init : Rat) (hmf : pkgs.any (·.mfrac) = false) (h0 : init ≠ 0) :
    readPkgs pkgs false init =
      .ok ⟨(sortNotes (pkgs.flatMap (·.notes))).map (noteOut init (sortBpms (pkgs.flatMap (·.bpms)))),
           ⟨0, init, 0⟩ :: (sortBpms (pkgs.flatMap (·.bpms))).map (bpmOut init (sortBpms (pkgs.flatMap (·.bpms))))⟩ := by
  unfold readPkgs
  simp only [hmf, Bool.false_eq_true, if_false]
  rw [if_neg (by intro h; exact h0 h.1)]
  rw [sweep_table _ _ _ (dedupSort_asc _), sweep_offsets, consumeAll_integ _ _ (sortBpms_sorted _)]
  have hint : ∀ evs p, integS ⟨0, 0, init⟩ evs p = posTime init evs p := fun _ _ => rfl
  simp only [hint]
  rw [mapE_eq_ok_map _ (noteOut init (sortBpms (pkgs.flatMap (·.bpms))))]
  · simp only [bind, Except.bind]
    rw [zipBpms_map]
    rfl
  · intro n hn
    have hpos : n.pos ∈ dedupSort ((sortNotes (pkgs.flatMap (·.notes))).map Note.pos ++
        (sortNotes (pkgs.flatMap (·.notes))).filterMap Note.tailPos) := by
      rw [mem_dedupSort]; simp only [List.mem_append, List.mem_map]; left; exact ⟨n, hn, rfl⟩
    unfold timeNote
    rw [lookupT_map _ _ _ hpos]
    cases n with
    | hit s => rfl
    | hold h t =>
      have htl : t.pos ∈ dedupSort ((sortNotes (pkgs.flatMap (·.notes))).map Note.pos ++
          (sortNotes (pkgs.flatMap (·.notes))).filterMap Note.tailPos) := by
        rw [mem_dedupSort]; simp only [List.mem_append, List.mem_filterMap]; right
        exact ⟨.hold h t, hn, rfl⟩
      simp only []
      rw [lookupT_map _ _ _ htl]
      rfl

/-- the error branches are covered, not totalised: a missing package (`None`) and a measure-fraction package raise
`AttributeError`; a header tempo of 0 raises `ZeroDivisionError` as soon as there is anything to time -/
theorem readPkgs_errors (pkgs : List Pkg) (init : Rat) :
    readPkgs pkgs true init = .error .attr ∧
    (pkgs.any (·.mfrac) = true → readPkgs pkgs false init = .error .attr) ∧
    (pkgs.any (·.mfrac) = false → sortBpms (pkgs.flatMap (·.bpms)) ≠ [] → readPkgs pkgs false 0 = .error .zeroDiv) := by
  refine ⟨by simp [readPkgs], ?_, ?_⟩
  · intro h; unfold readPkgs; simp [h]
  · intro h hb; unfold readPkgs
    simp [h, hb]

/-- non-vacuity of `o2j_times`: two tempo events (one inside a measure), notes after each, a tempo event after the
last note, a long note across two packages; header tempo 120 -/
example :
    (readPkgs
      [⟨0, 2, [], [.hit ⟨0, 0, 4, 8, .hit⟩, .hit ⟨1 / 2, 0, 4, 8, .hit⟩], [], false⟩,
       ⟨1, 1, [], [], [(3 / 2, 60)], false⟩,
       ⟨2, 8, [], [.hit ⟨2, 6, 4, 8, .hit⟩], [], false⟩,
       ⟨3, 1, [], [], [(3, 240)], false⟩,
       ⟨4, 3, [], [.hold ⟨3, 1, 4, 8, .head⟩ ⟨9 / 2, 1, 4, 8, .tail⟩], [], false⟩,
       ⟨6, 1, [], [], [(6, 90)], false⟩] false 120).toOption.map
      (fun o => (o.notes.map (fun n => (n.time, n.len)), o.bpms.map (·.time)))
    = some ([(0, none), (1000, none), (5000, none), (9000, some 1500)], [0, 3000, 9000, 12000]) := by
  decide +kernel

/-! ### pairing -/

/-- **Long notes are paired head to tail, across packages**: folding the note events of a package through the hold
buffer — from the buffer state left by everything read before (earlier packages, measures, difficulties) — yields
exactly the notes of the declarative pairing `Spec.pairFrom` (each tail with the most recent long-note event of its
column, which must be a head; `KeyError` otherwise), and leaves a buffer that again represents the stream read so far.
Starting from the empty buffer this is `pairFrom []` of the difficulty's whole event stream. -/
theorem hold_pairing (slots : List Slot) (buf : Buf) (revPre : List Slot) (h : BufRep buf revPre) :
    match foldBuf buf slots with
    | .ok (ns, b) => pairFrom revPre slots = .ok ns ∧ BufRep b (slots.reverse ++ revPre)
    | .error e => pairFrom revPre slots = .error e :=
  foldBuf_pairFrom slots buf revPre h

/-- what a note package contributes is the pairing of its decoded slots (decoded with the format's constants) -/
theorem decodePkg_notes (p : RawPkg) (buf : Buf) (revPre : List Slot) (h : BufRep buf revPre)
    (hc : isNoteChannel p.channel = true) :
    match decodePkg p buf with
    | .ok (pk, b) => pairFrom revPre (specSlots p) = .ok pk.notes ∧ pk.slots = specSlots p ∧ pk.bpms = [] ∧
        pk.mfrac = false ∧ BufRep b ((specSlots p).reverse ++ revPre)
    | .error e => pairFrom revPre (specSlots p) = .error e := by
  unfold decodePkg
  simp only [hc, if_true]
  have := foldBuf_pairFrom (slotsOf p) buf revPre h
  rw [slotsOf_eq_spec p hc] at this ⊢
  cases hf : foldBuf buf (specSlots p) with
  | error e => rw [hf] at this; simp only [bind, Except.bind]; exact this
  | ok r =>
    obtain ⟨ns, b⟩ := r
    rw [hf] at this
    simp only [bind, Except.bind]
    refine ⟨this.1, ?_, ?_, ?_, this.2⟩ <;> first | rfl | trivial

/-- non-vacuity: a head replaced by a second head, closed in a later package; a hit in between on another column -/
example :
    (foldBuf [] [⟨0, 0, 4, 8, .head⟩, ⟨1 / 2, 0, 4, 8, .head⟩, ⟨1 / 2, 1, 4, 8, .hit⟩, ⟨7 / 4, 0, 4, 8, .tail⟩]).toOption.map (·.1)
      = some [.hit ⟨1 / 2, 1, 4, 8, .hit⟩, .hold ⟨1 / 2, 0, 4, 8, .head⟩ ⟨7 / 4, 0, 4, 8, .tail⟩] := by decide +kernel
example : (match foldBuf [] [⟨0, 0, 4, 8, .tail⟩] with | .error .key => true | _ => false) = true := by decide +kernel


/-! ### the sweep before its repair (finding D10), kept as documentation -/

/-- state of the unrepaired loop: running state, number of tempo events consumed, `next_bpm_measure` (`none` = `None`),
offsets assigned so far (events never reached keep the 0 they were created with) -/
structure OldSt where
  st : St
  ix : Nat
  next : Option Rat
  offs : List Rat
deriving Repr, DecidableEq

/-- `while note_measure > next_bpm_measure:` of the old code; comparing with `None` is a `TypeError` (`none` result) -/
def oldWhile (bpms : List (Rat × Rat)) : Nat → OldSt → Rat → Option OldSt
  | 0, s, _ => some s
  | f + 1, s, nm =>
    match s.next with
    | none => none
    | some nx =>
      if nm > nx then
        match bpms[s.ix]? with
        | none => some s
        | some e =>
          let st' := consume s.st e
          if s.ix + 1 = bpms.length then some ⟨st', s.ix + 1, none, s.offs ++ [st'.offset]⟩       -- `break`
          else oldWhile bpms f ⟨st', s.ix + 1, some e.1, s.offs ++ [st'.offset]⟩ nm               -- lagging `next`
      else some s

/-- the old `for note_measure in note_measures:` with its `if not next_bpm_measure:` (true for `None` and for 0.0) -/
def oldSweep (bpms : List (Rat × Rat)) : OldSt → List Rat → Option (List (Rat × Rat) × OldSt)
  | s, [] => some ([], s)
  | s, nm :: rest =>
    let s1 := if s.next = none ∨ s.next = some 0 then oldWhile bpms (bpms.length + 1) s nm else some s
    match s1 with
    | none => none
    | some s' =>
      match oldSweep bpms s' rest with
      | none => none
      | some (tbl, sf) => some ((nm, segTime s'.st nm) :: tbl, sf)

def oldInit (init : Rat) (bpms : List (Rat × Rat)) : OldSt := ⟨⟨0, 0, init⟩, 0, bpms.head?.map (·.1), []⟩

/-- **D10**: with two tempo events (none at measure 0) the unrepaired loop never consumed a tempo event: the notes at
measures 2 and 4 came out at 4000 and 8000 ms (header tempo throughout) instead of 6000 and 11000 ms, and no tempo
event was given an offset (all tempo points stayed at 0 ms — as observed on the bundled file); with no tempo package
at all it compared a float with `None` (`TypeError`); with a tempo event at measure 0 it consumed *every* tempo event
at the first later note and raised at the next one.  The repaired sweep (`sweep`) is `posTime` (`o2j_times`). -/
theorem old_sweep_counterexample :
    (oldSweep [(1, 60), (3, 240)] (oldInit 120 [(1, 60), (3, 240)]) [0, 2, 4]).map (fun r => (r.1, r.2.offs))
      = some ([(0, 0), (2, 4000), (4, 8000)], []) ∧
    [0, 2, 4].map (posTime 120 [(1, 60), (3, 240)]) = [0, 6000, 11000] ∧
    (sweep ⟨0, 0, 120⟩ [(1, 60), (3, 240)] [0, 2, 4]) = ([(0, 0), (2, 6000), (4, 11000)], [2000, 10000]) ∧
    oldSweep [] (oldInit 120 []) [1] = none ∧
    oldSweep [(0, 60), (3, 240)] (oldInit 120 [(0, 60), (3, 240)]) [1, 2] = none := by
  decide +kernel

/-- **D26** (repaired): the length used to be stored through `astype(int64)` whenever the head's offset was a whole
number of milliseconds.  With header tempo 150, head at measure 5/2 and tail at measure 17/3 the exact length is
15200/3 ms; truncation toward zero gave 5066. -/
theorem old_length_counterexample :
    posTime 150 [] (5 / 2) = 4000 ∧ posTime 150 [] (17 / 3) - posTime 150 [] (5 / 2) = 15200 / 3 ∧
    (((15200 / 3 : Rat).floor : Int) : Rat) = 5066 := by
  decide +kernel

/-! ### the specification's integration is the timing kernel's `timeAt` -/

/-- a tempo event at measure position `m` as a K1 tempo change: 4 beats per measure, beat `4m` of measure 0 -/
def toBc (e : Rat × Rat) : Timing.BcSnap := ⟨e.2, 4, ⟨0, 4 * e.1, none⟩⟩
def snapOfPos (p : Rat) : Timing.Snap := ⟨0, 4 * p, none⟩

theorem integ_eq_timeAtAux (evs : List (Rat × Rat)) : ∀ (T m b p : Rat),
    integ T m b evs p = Timing.timeAtAux T (toBc (m, b)) (evs.map toBc) (snapOfPos p) := by
  induction evs with
  | nil =>
    intro T m b p
    simp only [integ, List.map_nil, Timing.timeAtAux, toBc, snapOfPos, Timing.snapDist, Timing.beatLen, Int.sub_self]
    simp only [Rat.intCast_zero]
    grind
  | cons e rest ih =>
    intro T m b p
    have hle : (toBc e).snap.le (snapOfPos p) = decide (e.1 ≤ p) := by
      simp only [toBc, snapOfPos, Timing.Snap.le, Timing.Snap.lt, Timing.Snap.eqv, Int.lt_irrefl, decide_false, Bool.false_or,
        decide_true, Bool.true_and]
      by_cases h : e.1 ≤ p
      · by_cases h' : e.1 = p
        · subst h'; simp
        · have : 4 * e.1 < 4 * p := by grind
          simp [h, this]
      · have h1 : ¬ (4 * e.1 < 4 * p) := by grind
        have h2 : ¬ (4 * e.1 = 4 * p) := by grind
        simp [h, h1, h2]
    simp only [integ, List.map_cons, Timing.timeAtAux, hle]
    by_cases h : e.1 ≤ p
    · simp only [h, if_true, decide_true]
      rw [ih]
      congr 1
      simp only [toBc, Timing.snapDist, Timing.beatLen, Int.sub_self, Rat.intCast_zero]
      grind
    · simp only [h, if_false, decide_false, Bool.false_eq_true]
      simp only [toBc, snapOfPos, Timing.snapDist, Timing.beatLen, Int.sub_self, Rat.intCast_zero]
      grind

/-- `posTime` is `timeAt` of the timing kernel (K1, property C10) over the header tempo at position 0 followed by the
tempo events, 4 beats per measure: the statement "integrating its measure position over the header tempo and all
tempo-channel events before it" in K1's terms -/
theorem posTime_eq_timeAt (init : Rat) (evs : List (Rat × Rat)) (p : Rat) :
    posTime init evs p = Timing.timeAt 0 (toBc (0, init) :: evs.map toBc) (snapOfPos p) := by
  unfold posTime Timing.timeAt
  exact integ_eq_timeAtAux evs 0 0 init p

example : posTime 120 [(3 / 2, 60), (3, 240)] (9 / 2) = 10500 := by decide +kernel

end Reamber.O2J
