/-
C07 — O2Jam reading places every note and tempo change at the time its measure implies.
Property theorems (helper lemmas in `Reamber/Lemmas/O2JTime.lean`, `Reamber/Lemmas/O2JPair.lean`).  Statements are about
the executable model `Reamber/Model/O2J.lean`, which the correspondence check ties to reamber/o2jam/*.py on every run,
against the declarative `Reamber/Spec/O2J.lean` — the same definitions the harness evaluates on the implementation's
output.
-/
import Reamber.Lemmas.O2JTime
import Reamber.Lemmas.O2JPair
import Reamber.Lemmas.O2JHeader
import Reamber.Lemmas.O2JFrame
import Reamber.Lemmas.O2JRead
import Reamber.Lemmas.O2JX
import Reamber.Lemmas.O2JEncode
import Reamber.Spec.Timing

namespace Reamber.O2J

open Reamber.O2J.Spec
open Reamber.Generated

/-! ### tie to the source: generated tables = the format -/

/-- offsets of the generated table entries: running sum of `int(size / count) * count` -/
def tableOffsets : List (Char × Nat × Nat) → Nat → List Nat
  | [], _ => []
  | (_, size, count) :: rest, ix => ix :: tableOffsets rest (ix + size / count * count)

/-- the layout the code implements: each assignment of `read_meta` with the offset, struct code and count of the
`meta_fields` entry it takes -/
def derivedLayout : List (String × Nat × Char × Nat × String) :=
  O2J.metaAssign.map fun a =>
    let t := layoutTable.getD a.2.1 ('?', 0, 1)
    (a.1, (tableOffsets layoutTable 0).getD a.2.1 0, t.1, t.2.2, a.2.2)

/-- **The 300-byte header is laid out as the format says**: the three generated `BYTE_*` tables together with the
generated assignments of `read_meta` give every attribute the format's offset, type, count and shape; the sizes sum to
300; every entry's element width is its struct code's width.  Re-checked whenever the source tables change. -/
theorem header_table :
    derivedLayout = formatLayout ∧
    O2J.byteSizes.sum = headerSize ∧
    O2J.byteCount.length = 23 ∧ O2J.byteSizes.length = 23 ∧ O2J.byteFormats.length = 23 ∧
    layoutTable.all (fun t => decide (t.2.2 ≠ 0) && decide (fmtSize t.1 = some (t.2.1 / t.2.2))
                              && decide (t.2.1 / t.2.2 = codeSize t.1)) = true := by
  decide +kernel

/-- from a table entry and the assignment that takes it to the format's layout row: (name, offset, code, count, shape) -/
def layoutRow (p : (Char × Nat × Nat) × (String × Nat × String)) : String × Nat × Char × Nat × String :=
  (p.2.1, p.1.2.2, p.1.1, p.1.2.1, p.2.2.2)

/-- what the generic header lemmas need of the generated tables, by evaluation: non-zero counts, element width = the
struct code's width, assignments take `meta_fields[0..22]` in order, and entry-by-entry the rows are the format's -/
theorem header_table_facts :
    layoutTable.all (fun t => decide (t.2.2 ≠ 0) && decide (t.2.1 / t.2.2 = codeSize t.1)) = true ∧
    O2J.metaAssign.length = (entries layoutTable 0).length ∧
    idxFrom 0 O2J.metaAssign = true ∧
    (entries layoutTable 0).all (fun e => decide (e.2.1 ≠ 0)) = true ∧
    formatLayout = ((entries layoutTable 0).zip O2J.metaAssign).map layoutRow := by
  decide +kernel

/-- **The 300-byte header fields are decoded as laid out by the format** — for EVERY byte string: the walk of
`read_meta` over the generated `BYTE_FORMATS / BYTE_SIZES / BYTE_COUNT` tables with its running `ix_start`, followed by
the generated assignments, returns exactly the attributes read directly at the format's declared offsets with the
declared type, count and shape (`Spec.specMeta`) — and the same error when the string is shorter than 300 bytes. -/
theorem header_layout (bs : List Nat) : readMeta bs = specMeta bs := by
  obtain ⟨h1, h2, h3, h4, h5⟩ := header_table_facts
  unfold readMeta specMeta
  rw [walk_eq (bs.take 300) layoutTable 0 (by
    intro t ht
    have := List.all_eq_true.mp h1 t ht
    simpa using this)]
  have hf := fuse (bs.take 300) (entries layoutTable 0) [] O2J.metaAssign h2 h3 (by
    intro e he
    have := List.all_eq_true.mp h4 e he
    simpa using this)
  simp only [List.nil_append] at hf
  rw [hf, h5, mapE_map]
  rfl

/-- the channel numbering and note-type bytes the model takes from the source are the format's -/
theorem channels_tie :
    O2J.chMeasureFraction = 0 ∧ O2J.chBpmChange = 1 ∧
    O2J.colRangeStart = 2 ∧ O2J.colRangeStop = 9 ∧ O2J.colRangeStep = 1 ∧
    O2J.colChannels = [("COL_1", 2), ("COL_2", 3), ("COL_3", 4), ("COL_4", 5), ("COL_5", 6), ("COL_6", 7), ("COL_7", 8)] ∧
    O2J.hitByte = 0 ∧ O2J.holdHeadByte = 2 ∧ O2J.holdTailByte = 3 ∧
    Reamber.Timing.minToMsec = 60000 := by
  decide +kernel

/-! ### decoders -/

/-- float32 bits → value: the four bytes of sign `s`, biased exponent `e`, mantissa `m` decode to the IEEE-754 value
`(-1)^s · (1 + m/2^23) · 2^(e-127)` (normal), `(-1)^s · m · 2^-149` (subnormal / zero), ±inf, NaN (`f32OfParts`) -/
theorem decodeF32_parts (s e m : Nat) (hs : s < 2) (he : e < 256) (hm : m < 2 ^ 23) :
    decodeF32 (encodeLE 4 (s * 2 ^ 31 + e * 2 ^ 23 + m)) = f32OfParts s e m := by
  unfold decodeF32
  rw [leNat_encodeLE 4 _ (by omega)]
  have h1 : (s * 2 ^ 31 + e * 2 ^ 23 + m) / 2 ^ 31 = s := by omega
  have h2 : (s * 2 ^ 31 + e * 2 ^ 23 + m) / 2 ^ 23 % 256 = e := by omega
  have h3 : (s * 2 ^ 31 + e * 2 ^ 23 + m) % 2 ^ 23 = m := by omega
  simp only [h1, h2, h3]

example : decodeF32 [0, 0, 0xF0, 0x42] = .fin 120 := by decide +kernel
example : decodeF32 [0, 0, 0x80, 0x3F] = .fin 1 := by decide +kernel
example : decodeF32 [0xCD, 0xCC, 0x4C, 0xBE] = .fin (-13421773 / 67108864) := by decide +kernel   -- -0.2f
example : decodeF32 [1, 0, 0, 0] = .fin (1 / 2 ^ 149) := by decide +kernel
example : decodeF32 [0, 0, 0x80, 0xFF] = .inf true := by decide +kernel
example : decodeI32 (encodeLE 4 (toBits 32 (-2))) = -2 := by decide +kernel

/-! ### times -/

/-- **Every note, long-note end and tempo event sits at the integrated time of its measure position.**
For any packages of one difficulty (no measure-fraction package, header tempo ≠ 0) the model's `read_pkgs` returns
exactly: the notes in stable measure order, each with `Spec.noteOut` — offset `posTime` of its position, a long note's
length `posTime tail − posTime head` —, and the tempo list `(0 ms, header tempo)` followed by the tempo events in
stable position order, each at `posTime` of its own position.  This covers tempo events after the last note (or with
no note at all), several events inside one measure, events at position 0, events coinciding with notes, and packages
in any file order. -/
theorem o2j_times (pkgs : List Pkg) (init : Rat) (hmf : pkgs.any (·.mfrac) = false) (h0 : init ≠ 0) :
    readPkgs pkgs false init =
      .ok ⟨(sortNotes (pkgs.flatMap (·.notes))).map (noteOut init (sortBpms (pkgs.flatMap (·.bpms)))),
           ⟨0, init, 0⟩ :: (sortBpms (pkgs.flatMap (·.bpms))).map (bpmOut init (sortBpms (pkgs.flatMap (·.bpms))))⟩ :=
  readPkgs_eq pkgs init hmf h0

/-- the error branches are covered, not totalised: a missing package (`None`) and a measure-fraction package raise
`AttributeError`; a header tempo of 0 raises `ZeroDivisionError` as soon as there is anything to time -/
theorem readPkgs_errors (pkgs : List Pkg) (init : Rat) :
    readPkgs pkgs true init = .error .attr ∧
    (pkgs.any (·.mfrac) = true → readPkgs pkgs false init = .error .attr) ∧
    (pkgs.any (·.mfrac) = false → sortBpms (pkgs.flatMap (·.bpms)) ≠ [] → readPkgs pkgs false 0 = .error .zeroDiv) := by
  refine ⟨by simp [readPkgs], ?_, ?_⟩
  · intro h; unfold readPkgs; simp [h]
  · intro h hb; unfold readPkgs
    simp [h, hb]

/-- non-vacuity of `o2j_times`: two tempo events (one inside a measure), notes after each, a tempo event after the
last note, a long note across two packages; header tempo 120 -/
example :
    (readPkgs
      [⟨0, 2, [], [.hit ⟨0, 0, 4, 8, .hit⟩, .hit ⟨1 / 2, 0, 4, 8, .hit⟩], [], false⟩,
       ⟨1, 1, [], [], [(3 / 2, 60)], false⟩,
       ⟨2, 8, [], [.hit ⟨2, 6, 4, 8, .hit⟩], [], false⟩,
       ⟨3, 1, [], [], [(3, 240)], false⟩,
       ⟨4, 3, [], [.hold ⟨3, 1, 4, 8, .head⟩ ⟨9 / 2, 1, 4, 8, .tail⟩], [], false⟩,
       ⟨6, 1, [], [], [(6, 90)], false⟩] false 120).toOption.map
      (fun o => (o.notes.map (fun n => (n.time, n.len)), o.bpms.map (·.time)))
    = some ([(0, none), (1000, none), (5000, none), (9000, some 1500)], [0, 3000, 9000, 12000]) := by
  decide +kernel

/-! ### pairing -/

/-- **Long notes are paired head to tail, across packages**: folding the note events of a package through the hold
buffer — from the buffer state left by everything read before (earlier packages, measures, difficulties) — yields
exactly the notes of the declarative pairing `Spec.pairFrom` (each tail with the most recent long-note event of its
column, which must be a head; `KeyError` otherwise), and leaves a buffer that again represents the stream read so far.
Starting from the empty buffer this is `pairFrom []` of the difficulty's whole event stream. -/
theorem hold_pairing (slots : List Slot) (buf : Buf) (revPre : List Slot) (h : BufRep buf revPre) :
    match foldBuf buf slots with
    | .ok (ns, b) => pairFrom revPre slots = .ok ns ∧ BufRep b (slots.reverse ++ revPre)
    | .error e => pairFrom revPre slots = .error e :=
  foldBuf_pairFrom slots buf revPre h

/-- non-vacuity: a head replaced by a second head, closed in a later package; a hit in between on another column -/
example :
    (foldBuf [] [⟨0, 0, 4, 8, .head⟩, ⟨1 / 2, 0, 4, 8, .head⟩, ⟨1 / 2, 1, 4, 8, .hit⟩, ⟨7 / 4, 0, 4, 8, .tail⟩]).toOption.map (·.1)
      = some [.hit ⟨1 / 2, 1, 4, 8, .hit⟩, .hold ⟨1 / 2, 0, 4, 8, .head⟩ ⟨7 / 4, 0, 4, 8, .tail⟩] := by decide +kernel
example : (match foldBuf [] [⟨0, 0, 4, 8, .tail⟩] with | .error .key => true | _ => false) = true := by decide +kernel



/-! ### the whole reader -/

theorem headerTempo_some (hdr : List (String × MetaVal)) (q : Rat) (h : headerTempo hdr = some q) :
    lookupMeta hdr "bpm" = some (.flt (.fin q)) := by
  unfold headerTempo at h
  split at h
  · rename_i q' heq; cases h; exact heq
  · cases h

/-- **`O2JMapSet.read` meets its specification.**  For every well-formed byte string (≥ 300 bytes; the header's
package counts can be framed; header tempo finite and ≠ 0; per difficulty: no measure-fraction package, finite tempo
floats, every tail paired, no head left open) the model of `O2JMapSet.read` returns exactly `Spec.specSet`: the header
attributes read at the format's declared offsets, and ONE level per package-count entry — also for a count of 0 —
each holding the notes of its own note channels in the right column, long notes paired head to tail across packages,
every note, long-note end and tempo event at `posTime` of its measure position.
Assembled from `header_layout`, `readLevel_spec` (framing + `hold_pairing` + decoders with the generated constants),
`o2j_times`. -/
theorem read_spec (bs : List Nat) (h : wellFormed bs = true) : readFile bs = specSet bs := by
  unfold wellFormed at h
  unfold readFile specSet
  rw [header_layout]
  cases hS : specMeta bs with
  | error e => rw [hS] at h; cases h
  | ok hdr =>
    rw [hS] at h
    simp only [] at h
    simp only [bind, Except.bind]
    cases hF : frameLevels (packageCounts hdr) (List.drop headerSize bs) with
    | none => rw [hF] at h; cases h
    | some lvls =>
      cases hT : headerTempo hdr with
      | none => rw [hF, hT] at h; cases h
      | some q =>
        rw [hF, hT] at h
        simp only [Bool.and_eq_true, decide_eq_true_eq] at h
        have hsp := readLevels_spec q h.1 (packageCounts hdr) (List.drop 300 bs) [] lvls bufRep_nil hF h.2
        rw [headerTempo_some hdr q hT]
        simp only []
        cases hr : readLevels (packageCounts hdr) (List.drop 300 bs) [] with
        | error e =>
          rw [hr] at hsp
          simp only [bind, Except.bind] at hsp
          simp only [← hsp]
        | ok pls =>
          rw [hr] at hsp
          simp only [bind, Except.bind] at hsp
          simp only [hsp]

/-- a complete .ojn byte string (generated by the harness: header tempo 120; difficulty counts [0, 7, 0]; two tempo
events, a tempo event after the last note, a long note across two packages; three trailing bytes) -/
def sampleOjn : List Nat :=
    [7, 0, 0, 0, 111, 106, 110, 0, 154, 153, 57, 64, 3, 0, 0, 0, 0, 0, 240, 66, 1, 0, 2, 0, 3, 0, 0, 0, 1, 0, 0,
    0, 2, 0, 0, 0, 3, 0, 0, 0, 4, 0, 0, 0, 5, 0, 0, 0, 6, 0, 0, 0, 7, 0, 0, 0, 8, 0, 0, 0, 9, 0, 0, 0, 0, 0, 0,
    0, 7, 0, 0, 0, 0, 0, 0, 0, 29, 0, 7, 0, 103, 103, 103, 103, 103, 103, 103, 103, 103, 103, 103, 103, 103,
    103, 103, 103, 103, 103, 103, 103, 5, 0, 0, 0, 6, 0, 0, 0, 84, 0, 105, 116, 108, 101, 255, 0, 0, 0, 0, 0, 0,
    0, 0, 0, 0, 0, 0, 0, 0, 0, 0, 0, 0, 0, 0, 0, 0, 0, 0, 0, 0, 0, 0, 0, 0, 0, 0, 0, 0, 0, 0, 0, 0, 0, 0, 0, 0,
    0, 0, 0, 0, 0, 0, 0, 0, 0, 0, 0, 0, 0, 0, 0, 65, 0, 0, 0, 0, 0, 0, 0, 0, 0, 0, 0, 0, 0, 0, 0, 0, 0, 0, 0, 0,
    0, 0, 0, 0, 0, 0, 0, 0, 0, 0, 0, 67, 0, 0, 0, 0, 0, 0, 0, 0, 0, 0, 0, 0, 0, 0, 0, 0, 0, 0, 0, 0, 0, 0, 0, 0,
    0, 0, 0, 0, 0, 0, 0, 111, 46, 111, 106, 109, 0, 0, 0, 0, 0, 0, 0, 0, 0, 0, 0, 0, 0, 0, 0, 0, 0, 0, 0, 0, 0,
    0, 0, 0, 0, 0, 0, 9, 0, 0, 0, 10, 0, 0, 0, 11, 0, 0, 0, 12, 0, 0, 0, 44, 1, 0, 0, 144, 1, 0, 0, 244, 1, 0,
    0, 88, 2, 0, 0, 0, 0, 0, 0, 2, 0, 4, 0, 1, 0, 72, 0, 0, 0, 0, 0, 1, 0, 72, 0, 0, 0, 0, 0, 1, 0, 0, 0, 1, 0,
    2, 0, 0, 0, 0, 0, 0, 0, 112, 66, 2, 0, 0, 0, 8, 0, 3, 0, 1, 0, 72, 0, 1, 0, 72, 0, 1, 0, 72, 0, 3, 0, 0, 0,
    1, 0, 1, 0, 0, 0, 112, 67, 3, 0, 0, 0, 3, 0, 2, 0, 1, 0, 72, 2, 0, 0, 0, 0, 4, 0, 0, 0, 3, 0, 2, 0, 0, 0, 0,
    0, 1, 0, 72, 3, 6, 0, 0, 0, 1, 0, 1, 0, 0, 0, 180, 66, 1, 2, 3]

/-- non-vacuity of `read_spec` / `read_three_levels`: the sample is well-formed, reads into three levels — the empty
first and third difficulties are kept — with the second difficulty's six notes at their integrated times -/
example : wellFormed sampleOjn = true := by decide +kernel
example : (readFile sampleOjn).toOption.map (fun o => o.levels.map (fun l => (l.notes.map (·.time), l.bpms.map (·.time))))
    = some [([], [0]), ([0, 1000, 5000, 6333 + 1 / 3, 7666 + 2 / 3, 9000], [0, 3000, 9000, 12000]), ([], [0])] := by
  decide +kernel

/-- non-vacuity of `frame_encode`: an abstract package satisfying `WfRaw` -/
example : WfRaw ⟨3, 4, 2, [1, 0, 72, 2, 0, 0, 0, 0]⟩ := by
  refine ⟨by decide, by decide, by decide, by decide, by decide, by decide, by decide⟩

/-- the header always carries exactly three package counts (one per difficulty) -/
theorem three_counts (bs : List Nat) (hdr : List (String × MetaVal)) (h : specMeta bs = .ok hdr) :
    (packageCounts hdr).length = 3 := by
  unfold specMeta at h
  have hnames := specMeta_names _ _ _ h
  have hlook := lookupMeta_idx "package_count" hdr _ hnames 9 (by decide +kernel) (by decide +kernel)
  obtain ⟨v, hv, hf⟩ := mapE_getElem? _ _ _ h 9 ("package_count", 64, 'i', 3, "list") (by decide +kernel)
  unfold specField at hf
  cases hr : readN (bs.take headerSize) 'i' 3 64 with
  | error e => rw [show readN (bs.take headerSize) ("package_count", 64, 'i', 3, "list").2.2.1 _ _ = _ from hr] at hf
               simp [bind, Except.bind] at hf
  | ok f =>
    rw [show readN (bs.take headerSize) ("package_count", 64, 'i', 3, "list").2.2.1 _ _ = _ from hr] at hf
    simp only [bind, Except.bind, shapeVal] at hf
    rw [if_neg (by decide)] at hf
    have hf' : ("package_count", MetaVal.list f) = v := by simpa using hf
    subst hf'
    unfold packageCounts
    rw [hlook, hv]
    simp only [Option.map_some]
    exact readN_ints _ _ _ _ hr

theorem frameLevels_length : ∀ (counts : List Int) (q : List Nat) (lvls : List (List RawPkg)),
    frameLevels counts q = some lvls → lvls.length = counts.length := by
  intro counts
  induction counts with
  | nil => intro q lvls h; simp only [frameLevels, Option.some.injEq] at h; subst h; rfl
  | cons c cs ih =>
    intro q lvls h
    simp only [frameLevels] at h
    cases hf : frame c.toNat q with
    | none => rw [hf] at h; cases h
    | some r =>
      obtain ⟨ps, q1⟩ := r
      rw [hf] at h
      simp only [] at h
      cases hl : frameLevels cs q1 with
      | none => rw [hl] at h; cases h
      | some rl =>
        rw [hl] at h
        simp only [Option.some.injEq] at h
        subst h
        simp [ih q1 rl hl]

/-- **each of the three difficulties**: a well-formed file reads into exactly three levels — one per package-count
entry of the header, whatever the counts are (a count of 0 gives a level with no notes and the header tempo only;
it is not dropped, and later difficulties keep their index) -/
theorem read_three_levels (bs : List Nat) (h : wellFormed bs = true) (out : FileOut) (ho : readFile bs = .ok out) :
    out.levels.length = 3 ∧ out.levels.length = (packageCounts out.header).length := by
  rw [read_spec bs h] at ho
  unfold specSet at ho
  cases hS : specMeta bs with
  | error e => rw [hS] at ho; simp [bind, Except.bind] at ho
  | ok hdr =>
    rw [hS] at ho
    simp only [bind, Except.bind] at ho
    cases hF : frameLevels (packageCounts hdr) (List.drop headerSize bs) with
    | none => rw [hF] at ho; cases ho
    | some lvls =>
      cases hT : headerTempo hdr with
      | none => rw [hF, hT] at ho; cases ho
      | some q =>
        rw [hF, hT] at ho
        simp only [] at ho
        cases hm : mapE (specLevel q) lvls with
        | error e => rw [hm] at ho; cases ho
        | ok outs =>
          rw [hm] at ho
          simp only [Except.ok.injEq] at ho
          subst ho
          have h3 := three_counts bs hdr hS
          have hl := frameLevels_length _ _ _ hF
          have hm' := mapE_length _ _ _ hm
          simp only []
          omega

/-! ### the sweep before its repair (finding D10), kept as documentation -/

/-- state of the unrepaired loop: running state, number of tempo events consumed, `next_bpm_measure` (`none` = `None`),
offsets assigned so far (events never reached keep the 0 they were created with) -/
structure OldSt where
  st : St
  ix : Nat
  next : Option Rat
  offs : List Rat
deriving Repr, DecidableEq

/-- `while note_measure > next_bpm_measure:` of the old code; comparing with `None` is a `TypeError` (`none` result) -/
def oldWhile (bpms : List (Rat × Rat)) : Nat → OldSt → Rat → Option OldSt
  | 0, s, _ => some s
  | f + 1, s, nm =>
    match s.next with
    | none => none
    | some nx =>
      if nm > nx then
        match bpms[s.ix]? with
        | none => some s
        | some e =>
          let st' := consume s.st e
          if s.ix + 1 = bpms.length then some ⟨st', s.ix + 1, none, s.offs ++ [st'.offset]⟩       -- `break`
          else oldWhile bpms f ⟨st', s.ix + 1, some e.1, s.offs ++ [st'.offset]⟩ nm               -- lagging `next`
      else some s

/-- the old `for note_measure in note_measures:` with its `if not next_bpm_measure:` (true for `None` and for 0.0) -/
def oldSweep (bpms : List (Rat × Rat)) : OldSt → List Rat → Option (List (Rat × Rat) × OldSt)
  | s, [] => some ([], s)
  | s, nm :: rest =>
    let s1 := if s.next = none ∨ s.next = some 0 then oldWhile bpms (bpms.length + 1) s nm else some s
    match s1 with
    | none => none
    | some s' =>
      match oldSweep bpms s' rest with
      | none => none
      | some (tbl, sf) => some ((nm, segTime s'.st nm) :: tbl, sf)

def oldInit (init : Rat) (bpms : List (Rat × Rat)) : OldSt := ⟨⟨0, 0, init⟩, 0, bpms.head?.map (·.1), []⟩

/-- **D10**: with two tempo events (none at measure 0) the unrepaired loop never consumed a tempo event: the notes at
measures 2 and 4 came out at 4000 and 8000 ms (header tempo throughout) instead of 6000 and 11000 ms, and no tempo
event was given an offset (all tempo points stayed at 0 ms — as observed on the bundled file); with no tempo package
at all it compared a float with `None` (`TypeError`); with a tempo event at measure 0 it consumed *every* tempo event
at the first later note and raised at the next one.  The repaired sweep (`sweep`) is `posTime` (`o2j_times`). -/
theorem old_sweep_counterexample :
    (oldSweep [(1, 60), (3, 240)] (oldInit 120 [(1, 60), (3, 240)]) [0, 2, 4]).map (fun r => (r.1, r.2.offs))
      = some ([(0, 0), (2, 4000), (4, 8000)], []) ∧
    [0, 2, 4].map (posTime 120 [(1, 60), (3, 240)]) = [0, 6000, 11000] ∧
    (sweep ⟨0, 0, 120⟩ [(1, 60), (3, 240)] [0, 2, 4]) = ([(0, 0), (2, 6000), (4, 11000)], [2000, 10000]) ∧
    oldSweep [] (oldInit 120 []) [1] = none ∧
    oldSweep [(0, 60), (3, 240)] (oldInit 120 [(0, 60), (3, 240)]) [1, 2] = none := by
  decide +kernel

/-- **D26** (repaired): the length used to be stored through `astype(int64)` whenever the head's offset was a whole
number of milliseconds.  With header tempo 150, head at measure 5/2 and tail at measure 17/3 the exact length is
15200/3 ms; truncation toward zero gave 5066. -/
theorem old_length_counterexample :
    posTime 150 [] (5 / 2) = 4000 ∧ posTime 150 [] (17 / 3) - posTime 150 [] (5 / 2) = 15200 / 3 ∧
    (((15200 / 3 : Rat).floor : Int) : Rat) = 5066 := by
  decide +kernel

/-! ### the specification's integration is the timing kernel's `timeAt` -/

/-- a tempo event at measure position `m` as a K1 tempo change: 4 beats per measure, beat `4m` of measure 0 -/
def toBc (e : Rat × Rat) : Timing.BcSnap := ⟨e.2, 4, ⟨0, 4 * e.1, none⟩⟩
def snapOfPos (p : Rat) : Timing.Snap := ⟨0, 4 * p, none⟩

theorem integ_eq_timeAtAux (evs : List (Rat × Rat)) : ∀ (T m b p : Rat),
    integ T m b evs p = Timing.timeAtAux T (toBc (m, b)) (evs.map toBc) (snapOfPos p) := by
  induction evs with
  | nil =>
    intro T m b p
    simp only [integ, List.map_nil, Timing.timeAtAux, toBc, snapOfPos, Timing.snapDist, Timing.beatLen, Int.sub_self]
    simp only [Rat.intCast_zero]
    grind
  | cons e rest ih =>
    intro T m b p
    have hle : (toBc e).snap.le (snapOfPos p) = decide (e.1 ≤ p) := by
      simp only [toBc, snapOfPos, Timing.Snap.le, Timing.Snap.lt, Timing.Snap.eqv, Int.lt_irrefl, decide_false, Bool.false_or,
        decide_true, Bool.true_and]
      by_cases h : e.1 ≤ p
      · by_cases h' : e.1 = p
        · subst h'; simp
        · have : 4 * e.1 < 4 * p := by grind
          simp [h, this]
      · have h1 : ¬ (4 * e.1 < 4 * p) := by grind
        have h2 : ¬ (4 * e.1 = 4 * p) := by grind
        simp [h, h1, h2]
    simp only [integ, List.map_cons, Timing.timeAtAux, hle]
    by_cases h : e.1 ≤ p
    · simp only [h, if_true, decide_true]
      rw [ih]
      congr 1
      simp only [toBc, Timing.snapDist, Timing.beatLen, Int.sub_self, Rat.intCast_zero]
      grind
    · simp only [h, if_false, decide_false, Bool.false_eq_true]
      simp only [toBc, snapOfPos, Timing.snapDist, Timing.beatLen, Int.sub_self, Rat.intCast_zero]
      grind

/-- `posTime` is `timeAt` of the timing kernel (K1, property C10) over the header tempo at position 0 followed by the
tempo events, 4 beats per measure: the statement "integrating its measure position over the header tempo and all
tempo-channel events before it" in K1's terms -/
theorem posTime_eq_timeAt (init : Rat) (evs : List (Rat × Rat)) (p : Rat) :
    posTime init evs p = Timing.timeAt 0 (toBc (0, init) :: evs.map toBc) (snapOfPos p) := by
  unfold posTime Timing.timeAt
  exact integ_eq_timeAtAux evs 0 0 init p

example : posTime 120 [(3 / 2, 60), (3, 240)] (9 / 2) = 10500 := by decide +kernel


/-! ### every float32 as a tempo value: NaN, ±inf, subnormals, −0.0 (`Model/O2JX.lean`, `Lemmas/O2JX.lean`) -/

theorem mapE_ok_of_all {α β} (f : α → Except Err β) : ∀ (l : List α), (∀ a ∈ l, ∃ b, f a = .ok b) → ∃ r, mapE f l = .ok r := by
  intro l
  induction l with
  | nil => intro _; exact ⟨[], rfl⟩
  | cons a rest ih =>
    intro h
    obtain ⟨b, hb⟩ := h a (by simp)
    obtain ⟨r, hr⟩ := ih (fun x hx => h x (by simp [hx]))
    exact ⟨b :: r, by simp [mapE, hb, hr, bind, Except.bind]⟩

theorem specLevel_ok (q : Rat) (pk : List RawPkg) (h : wfLevel pk = true) : ∃ o, specLevel q pk = .ok o := by
  unfold wfLevel at h
  simp only [Bool.and_eq_true] at h
  obtain ⟨_, hp⟩ := h
  unfold specLevel
  cases hpf : pairFrom [] (pk.flatMap specSlots) with
  | error e => rw [hpf] at hp; cases hp
  | ok ns => simp only [bind, Except.bind]; exact ⟨_, rfl⟩

/-- **A well-formed file is read**: on every well-formed byte string the reader returns a result (no exception, and the
rational model does not decline) -/
theorem wellFormed_reads (bs : List Nat) (h : wellFormed bs = true) : ∃ out, readFile bs = .ok out := by
  rw [read_spec bs h]
  unfold wellFormed at h
  unfold specSet
  cases hS : specMeta bs with
  | error e => rw [hS] at h; cases h
  | ok hdr =>
    rw [hS] at h
    simp only [] at h
    simp only [bind, Except.bind]
    cases hF : frameLevels (packageCounts hdr) (List.drop headerSize bs) with
    | none => rw [hF] at h; cases h
    | some lvls =>
      cases hT : headerTempo hdr with
      | none => rw [hF, hT] at h; cases h
      | some q =>
        rw [hF, hT] at h
        simp only [Bool.and_eq_true, decide_eq_true_eq] at h
        obtain ⟨r, hr⟩ := mapE_ok_of_all (specLevel q) lvls (fun l hl => specLevel_ok q l (List.all_eq_true.mp h.2 l hl))
        simp only [hr]
        exact ⟨_, rfl⟩

/-- **`read_spec` for the reader over the whole float32 range**: on a well-formed byte string the extended model — the
one compared with the implementation when a file carries NaN / ±inf tempos — returns the specification's set, every
time and tempo a finite number -/
theorem read_spec_X (bs : List Nat) (h : wellFormed bs = true) : readFileX bs = (specSet bs).map FileOut.toX := by
  obtain ⟨out, ho⟩ := wellFormed_reads bs h
  rw [readFileX_refines bs (by rw [ho]; simp), read_spec bs h]

/-- a NaN tempo poisons: with a NaN tempo in effect, or a NaN time reached, every later time is NaN — no rational
timeline can be demanded of such a file (`Spec.wellFormed` excludes it) -/
theorem nan_tempo_poisons (st : StX) (p : Rat) (h : st.bpm = .nan ∨ st.offset = .nan) : segTimeX st p = .nan := by
  unfold segTimeX
  rcases h with h | h
  · rw [h]; cases st.offset <;> rfl
  · rw [h]; rfl

/-- an infinite tempo (either sign) stops the clock: while it is in effect every position has the time of the event -/
theorem inf_tempo_stands_still (o : Rat) (m : Rat) (s : Bool) (p : Rat) : segTimeX ⟨.fin o, m, .inf s⟩ p = .fin o := by
  simp [segTimeX, advX, XT.add, Rat.add_zero]

/-- −0.0 is 0: as a tempo event it is skipped like +0.0 (`bpm == 0`), as header tempo it raises `ZeroDivisionError`;
subnormals are decoded exactly (`decodeF32_parts` with e = 0) -/
theorem neg_zero_is_zero : decodeF32 [0, 0, 0, 0x80] = .fin 0 ∧ f32OfParts 1 0 0 = .fin 0 ∧ f32OfParts 0 0 0 = .fin 0 ∧
    bpmsAuxX 3 2 0 [[0, 0, 0, 0x80], [0, 0, 0, 0]] = [] ∧
    decodeF32 [1, 0, 0, 0x80] = .fin (-1 / 2 ^ 149) ∧ decodeF32 [0xFF, 0xFF, 0x7F, 0] = .fin ((2 ^ 23 - 1) / 2 ^ 149) := by
  decide +kernel

def sampleNaN : List Nat :=
    [7, 0, 0, 0, 111, 106, 110, 0, 154, 153, 57, 64, 3, 0, 0, 0, 0, 0, 240, 66, 1, 0, 2, 0, 3, 0, 0, 0, 1, 0, 0, 0,
    2, 0, 0, 0, 3, 0, 0, 0, 4, 0, 0, 0, 5, 0, 0, 0, 6, 0, 0, 0, 7, 0, 0, 0, 8, 0, 0, 0, 9, 0, 0, 0, 0, 0, 0, 0, 6,
    0, 0, 0, 0, 0, 0, 0, 29, 0, 7, 0, 0, 0, 0, 0, 0, 0, 0, 0, 0, 0, 0, 0, 0, 0, 0, 0, 0, 0, 0, 0, 5, 0, 0, 0, 6, 0,
    0, 0, 84, 0, 0, 0, 0, 0, 0, 0, 0, 0, 0, 0, 0, 0, 0, 0, 0, 0, 0, 0, 0, 0, 0, 0, 0, 0, 0, 0, 0, 0, 0, 0, 0, 0, 0,
    0, 0, 0, 0, 0, 0, 0, 0, 0, 0, 0, 0, 0, 0, 0, 0, 0, 0, 0, 0, 0, 0, 0, 0, 0, 0, 0, 0, 0, 65, 0, 0, 0, 0, 0, 0, 0,
    0, 0, 0, 0, 0, 0, 0, 0, 0, 0, 0, 0, 0, 0, 0, 0, 0, 0, 0, 0, 0, 0, 0, 0, 67, 0, 0, 0, 0, 0, 0, 0, 0, 0, 0, 0, 0,
    0, 0, 0, 0, 0, 0, 0, 0, 0, 0, 0, 0, 0, 0, 0, 0, 0, 0, 0, 111, 46, 111, 106, 109, 0, 0, 0, 0, 0, 0, 0, 0, 0, 0,
    0, 0, 0, 0, 0, 0, 0, 0, 0, 0, 0, 0, 0, 0, 0, 0, 0, 9, 0, 0, 0, 10, 0, 0, 0, 11, 0, 0, 0, 12, 0, 0, 0, 44, 1, 0,
    0, 144, 1, 0, 0, 244, 1, 0, 0, 88, 2, 0, 0, 0, 0, 0, 0, 2, 0, 4, 0, 1, 0, 72, 0, 0, 0, 0, 0, 1, 0, 72, 0, 0, 0,
    0, 0, 1, 0, 0, 0, 1, 0, 2, 0, 0, 0, 0, 0, 0, 0, 192, 127, 2, 0, 0, 0, 8, 0, 3, 0, 1, 0, 72, 0, 1, 0, 72, 0, 1,
    0, 72, 0, 3, 0, 0, 0, 1, 0, 1, 0, 0, 0, 112, 67, 3, 0, 0, 0, 3, 0, 2, 0, 1, 0, 72, 2, 0, 0, 0, 0, 4, 0, 0, 0, 3,
    0, 2, 0, 0, 0, 0, 0, 1, 0, 72, 3]

def sampleInf : List Nat :=
    [7, 0, 0, 0, 111, 106, 110, 0, 154, 153, 57, 64, 3, 0, 0, 0, 0, 0, 240, 66, 1, 0, 2, 0, 3, 0, 0, 0, 1, 0, 0, 0,
    2, 0, 0, 0, 3, 0, 0, 0, 4, 0, 0, 0, 5, 0, 0, 0, 6, 0, 0, 0, 7, 0, 0, 0, 8, 0, 0, 0, 9, 0, 0, 0, 0, 0, 0, 0, 6,
    0, 0, 0, 0, 0, 0, 0, 29, 0, 7, 0, 0, 0, 0, 0, 0, 0, 0, 0, 0, 0, 0, 0, 0, 0, 0, 0, 0, 0, 0, 0, 5, 0, 0, 0, 6, 0,
    0, 0, 84, 0, 0, 0, 0, 0, 0, 0, 0, 0, 0, 0, 0, 0, 0, 0, 0, 0, 0, 0, 0, 0, 0, 0, 0, 0, 0, 0, 0, 0, 0, 0, 0, 0, 0,
    0, 0, 0, 0, 0, 0, 0, 0, 0, 0, 0, 0, 0, 0, 0, 0, 0, 0, 0, 0, 0, 0, 0, 0, 0, 0, 0, 0, 0, 65, 0, 0, 0, 0, 0, 0, 0,
    0, 0, 0, 0, 0, 0, 0, 0, 0, 0, 0, 0, 0, 0, 0, 0, 0, 0, 0, 0, 0, 0, 0, 0, 67, 0, 0, 0, 0, 0, 0, 0, 0, 0, 0, 0, 0,
    0, 0, 0, 0, 0, 0, 0, 0, 0, 0, 0, 0, 0, 0, 0, 0, 0, 0, 0, 111, 46, 111, 106, 109, 0, 0, 0, 0, 0, 0, 0, 0, 0, 0,
    0, 0, 0, 0, 0, 0, 0, 0, 0, 0, 0, 0, 0, 0, 0, 0, 0, 9, 0, 0, 0, 10, 0, 0, 0, 11, 0, 0, 0, 12, 0, 0, 0, 44, 1, 0,
    0, 144, 1, 0, 0, 244, 1, 0, 0, 88, 2, 0, 0, 0, 0, 0, 0, 2, 0, 4, 0, 1, 0, 72, 0, 0, 0, 0, 0, 1, 0, 72, 0, 0, 0,
    0, 0, 1, 0, 0, 0, 1, 0, 2, 0, 0, 0, 0, 0, 0, 0, 128, 255, 2, 0, 0, 0, 8, 0, 3, 0, 1, 0, 72, 0, 1, 0, 72, 0, 1,
    0, 72, 0, 3, 0, 0, 0, 1, 0, 1, 0, 0, 0, 112, 67, 3, 0, 0, 0, 3, 0, 2, 0, 1, 0, 72, 2, 0, 0, 0, 0, 4, 0, 0, 0, 3,
    0, 2, 0, 0, 0, 0, 0, 1, 0, 72, 3]


/-- per level: note times, long-note lengths, tempo points (value, time) -/
def viewX (o : FileOutX) : List (List XT × List (Option XT) × List (F32 × XT)) :=
  o.levels.map (fun l => (l.notes.map (·.time), l.notes.map (·.len), l.bpms.map (fun b => (b.bpm, b.time))))

/-- **Dialect fact (NaN), with its witness.**  `sampleNaN` is a complete .ojn (header tempo 120; second difficulty: two
hits in measure 0, a tempo package in measure 1 whose second float is NaN, three hits in measure 2, tempo 240 in
measure 3, a long note from measure 3 to 4.5).  It is NOT `wellFormed`; the rational model declines; the reader
(extended model, agreeing with the implementation: corpus of `harness/props/c07.py`) raises nothing, keeps the NaN
event, and gives every position from measure 1.5 on the time NaN — the notes before it keep their times.  No
assignment of rational times satisfies the property on this file: the exclusion of NaN from `wellFormed` is necessary. -/
theorem nan_tempo_counterexample :
    wellFormed sampleNaN = false ∧
    (match readFile sampleNaN with | .error .nonfinite => true | _ => false) = true ∧
    ((readFileX sampleNaN).toOption.map viewX).getD [] =
      [([], [], [(.fin 120, .fin 0)]),
            ([.fin 0, .fin 1000, .nan, .nan, .nan, .nan], [none, none, none, none, none, some .nan],
             [(.fin 120, .fin 0), (.nan, .fin 3000), (.fin 240, .nan)]),
            ([], [], [(.fin 120, .fin 0)])] := by
  refine ⟨by decide +kernel, by decide +kernel, by decide +kernel⟩

/-- **Dialect fact (±inf), with its witness.**  The same file with −inf in place of NaN: not `wellFormed`, the
rational model declines, the reader keeps the event and the clock stands still at 3000 ms until the next tempo event
(measure 3): the three hits of measure 2 and the long-note head all sit at 3000 ms; the long note's length (1.5
measures at 240) is unaffected. -/
theorem inf_tempo_counterexample :
    wellFormed sampleInf = false ∧
    (match readFile sampleInf with | .error .nonfinite => true | _ => false) = true ∧
    ((readFileX sampleInf).toOption.map viewX).getD [] =
      [([], [], [(.fin 120, .fin 0)]),
            ([.fin 0, .fin 1000, .fin 3000, .fin 3000, .fin 3000, .fin 3000], [none, none, none, none, none, some (.fin 1500)],
             [(.fin 120, .fin 0), (.inf true, .fin 3000), (.fin 240, .fin 3000)]),
            ([], [], [(.fin 120, .fin 0)])] := by
  refine ⟨by decide +kernel, by decide +kernel, by decide +kernel⟩

/-- `O2JMapSet.read_file(path)` is `read` of the file's bytes: the file system is a parameter; nothing else enters -/
theorem readFileAt_eq (fs : String → Option (List Nat)) (path : String) (bs : List Nat) (h : fs path = some bs) :
    readFileAt fs path = some (readFileX bs) := by
  simp [readFileAt, h]


/-! ### round trip: the by-the-book encoder, then the reader (`Lemmas/O2JEncode.lean`) -/

/-- **Round trip for all abstract charts.**  For every valid abstract chart — any header values, three difficulties of
any number of note and tempo packages, any slot counts, tempo events anywhere, long notes across packages and
measures, any trailing bytes — the reader applied to the bytes of the by-the-book encoder returns the chart's own
timeline `aTimeline` (header attributes as given, per difficulty the paired notes and tempo points at `posTime` of
their positions `measure + i/n`), which is computed from the abstract chart alone.  So `Spec.wellFormed` contains the
image of the encoder (`wellFormed_encodeChart`) and `read_spec` is non-vacuous at that scale. -/
theorem read_encode (c : AChart) (q : Rat) (hv : c.Valid q) : readFile (encodeChart c) = aTimeline q c := by
  rw [read_spec _ (wellFormed_encodeChart c q hv), specSet_encodeChart c q hv]

/-- … and that timeline exists: the read succeeds, with the abstract header and exactly three levels -/
theorem read_encode_ok (c : AChart) (q : Rat) (hv : c.Valid q) :
    ∃ outs, readFile (encodeChart c) = .ok ⟨headerAttrs c.header c.counts, outs⟩ ∧ outs.length = 3 := by
  obtain ⟨outs, h1, h2⟩ := aTimeline_ok c q hv
  exact ⟨outs, by rw [read_encode c q hv, h1], h2⟩

/-- the same for the reader over the whole float32 range -/
theorem readX_encode (c : AChart) (q : Rat) (hv : c.Valid q) :
    readFileX (encodeChart c) = (aTimeline q c).map FileOut.toX := by
  rw [read_spec_X _ (wellFormed_encodeChart c q hv), specSet_encodeChart c q hv]

/-- **the map-set level metadata comes back**: title / artist / creator (their bytes without NULs and non-ASCII bytes —
`decode("ascii", errors="ignore")`), genre, the four levels, the song id and the header tempo of the abstract header
are the attributes of the result -/
theorem read_encode_metadata (c : AChart) (q : Rat) (hv : c.Valid q) (out : FileOut)
    (ho : readFile (encodeChart c) = .ok out) :
    lookupMeta out.header "title" = some (.text (c.header.title.filter (fun b => b ≠ 0 && b < 128))) ∧
    lookupMeta out.header "artist" = some (.text (c.header.artist.filter (fun b => b ≠ 0 && b < 128))) ∧
    lookupMeta out.header "creator" = some (.text (c.header.creator.filter (fun b => b ≠ 0 && b < 128))) ∧
    lookupMeta out.header "genre" = some (.int c.header.genre) ∧
    lookupMeta out.header "level" = some (.list (c.header.level.map Field.int)) ∧
    lookupMeta out.header "song_id" = some (.int c.header.songId) ∧
    lookupMeta out.header "bpm" = some (.flt (.fin q)) ∧
    packageCounts out.header = c.counts := by
  obtain ⟨outs, h1, _⟩ := read_encode_ok c q hv
  rw [h1] at ho
  cases ho
  refine ⟨lookup_title_headerAttrs _ _, lookup_artist_headerAttrs _ _, lookup_creator_headerAttrs _ _,
    lookup_genre_headerAttrs _ _, lookup_level_headerAttrs _ _, lookup_song_id_headerAttrs _ _, ?_,
    packageCounts_headerAttrs _ _⟩
  rw [lookup_bpm_headerAttrs, hv.tempo]

/-- … with the text codec as a parameter: whatever codec `enc`/`dec` the writer of the file used for the title, if the
encoded title fits the 64-byte field and consists of non-NUL ASCII bytes, the title attribute decodes to the title -/
theorem read_encode_title_codec (enc : String → List Nat) (dec : List Nat → String) (hdec : ∀ s, dec (enc s) = s)
    (t : String) (c : AChart) (q : Rat) (hv : c.Valid q) (ht : c.header.title = enc t)
    (hclean : ∀ b ∈ enc t, b ≠ 0 ∧ b < 128) (out : FileOut) (ho : readFile (encodeChart c) = .ok out) :
    ∃ bs, lookupMeta out.header "title" = some (.text bs) ∧ dec bs = t := by
  refine ⟨enc t, ?_, hdec t⟩
  rw [(read_encode_metadata c q hv out ho).1, ht, text_clean _ hclean]

/-- non-vacuity of `read_encode`: a valid abstract chart (difficulty 2: a long note across two packages, a tempo
event, a hit; empty difficulties 1 and 3; three trailing bytes) and what the reader makes of its bytes -/
def sampleChart : AChart := ⟨sampleHeader, [[], exLevel, []], [1, 2, 3]⟩

theorem sampleChart_valid : sampleChart.Valid 120 where
  header := by decide
  three := rfl
  sizes := by
    intro l hl
    simp only [sampleChart, List.mem_cons, List.mem_nil_iff, or_false] at hl
    rcases hl with rfl | rfl | rfl <;> decide
  pkgs := by
    intro l hl p hp
    simp only [sampleChart, List.mem_cons, List.mem_nil_iff, or_false] at hl
    rcases hl with rfl | rfl | rfl
    · cases hp
    · exact exLevel_valid p hp
    · cases hp
  tempo := by decide +kernel
  tempo_ne := by decide
  paired := by
    intro l hl
    simp only [sampleChart, List.mem_cons, List.mem_nil_iff, or_false] at hl
    rcases hl with rfl | rfl | rfl
    · exact ⟨[], rfl⟩
    · cases h : pairFrom [] (exLevel.flatMap aSlots) with
      | ok ns => exact ⟨ns, rfl⟩
      | error e =>
        have : (pairFrom [] (exLevel.flatMap aSlots)).toOption.isSome = true := by decide +kernel
        rw [h] at this
        cases this
    · exact ⟨[], rfl⟩
  closed := by
    intro l hl
    simp only [sampleChart, List.mem_cons, List.mem_nil_iff, or_false] at hl
    rcases hl with rfl | rfl | rfl <;> decide +kernel

example : ((readFile (encodeChart sampleChart)).toOption.map
    (fun o => o.levels.map (fun l => (l.notes.map (fun n => (n.time, n.len)), l.bpms.map (·.time))))).getD []
    = [([], [0]), ([(1000, some 1500), (2000, none)], [0, 3000]), ([], [0])] := by
  decide +kernel

end Reamber.O2J
