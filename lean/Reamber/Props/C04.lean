/-
C04 — BMS reading places every object at the time its measure position and tempo imply.
Property theorems about the executable reader model `Reamber/Model/BMS.lean` (tied to
reamber/bms/{BMSMap,BMSChannel,BMSMapMeta}.py by the correspondence check and by the generated layout tables)
against the by-the-book denotation `Reamber/Spec/BMS.lean`.  Helper lemmas: `Lemmas/BMS*.lean`.

The full statement is ONE theorem, `read_eq_denote` (and `read_file_eq_denote` for the FILE entry point):

  ∀ layout (LayoutOK: injective, columns < MAX_KEYS — the five generated layouts: `layouts_ok`) lines d,
    denoteText layout lines = some d →                       -- the specification's OWN lexer, header table, header record
    lanes in position order in the file (¬D05) → gridCompatible (grid 96) d.tempo (¬D22) →
    ∃ c, read defaultGrid layout lines = .ok c ∧ c.hits ~ d.hits ∧ c.holds ~ d.holds ∧ c.header = d.header ∧
      (c.tempo = d.tempo ∨ d.tempo = _ :: c.tempo with c.tempo starting at (0,0)) ∧
      interleaveB 0 false (inPts 0 c.tempo) (outPtsOff c.bpms)

All hypotheses are about the file.  Assembled from
* the two lexers: `trimBlank_eq_strip`, `bookLine_classify` (line classifier), `bookTable_eq_fold` (header dict),
  `bookDoc_parseDoc` (line loop), `bookHeader_readHeader` (`_read_file_header`), `denoteText_eq_denote`; where they
  part: `bookLine_none_iff`, `lexer_dialect_facts`; file splitting `pyLines_eq_fileLines`,
  `read_file_splits_at_control_bytes`;
* the semantic core `read_eq_denote_shared`: the level-wide bridge "reader events = by-the-book objects"
  (`events_eq`, `laneEvs_events`, `tempoOf_events_perm`), the pairing invariant (`pairing_invariant`,
  `lanes_independent`, `loop_final`), the reader's tempo list against the by-the-book one (`model_tempo_cases`), the
  times (`bms_times` through C10's `offsets_correct_fromBcSnap`), the flattening of lanes (`flatHits_perm`);
* the final `tm.reseat()`: `bms_tempo_in_reseat_dom` (grid-compatible 4/4 lists lie in C11's `Dom`, through
  `dom_of_gridCompatible`), `finishRead_ok` (C10's `bcsOfBco_rederive` + C11's `fromBcSnap_reseat_keeps_times`).
Also: the layout tables (`layouts_tie`, `layouts_wellformed`), `slot_position`, `hits_order_independent`,
`metadata_retained`, and the two counterexamples that make the hypotheses necessary (D05, D22).
Still shared by model and specification: the number parsers (`parseFloat`, `parseNat`, `parseHex2`) and one layout on
both sides (`layouts_tie` relates generated and by-the-book tables); the shift_jis codec is not modelled.
-/
import Reamber.Lemmas.BMS
import Reamber.Lemmas.BMSTime
import Reamber.Lemmas.BMSAssemble
import Reamber.Lemmas.BMSReseat
import Reamber.Lemmas.BMSLex
import Reamber.Lemmas.BMSHeaderBook
import Reamber.Props.C10

namespace Reamber.BMS

open Reamber.Timing

/-! ### generated tables -/

/-- Tie to the source: the five layouts the translator read from `BMSChannel` are exactly the by-the-book
tables of the specification (same header channels, same set of (channel, column) pairs), the layout names are the five the property names, and the constants of the model
are the ones in `BMSMap.py`. Re-checked whenever the source changes. -/
def Layout.sameAs (a b : Layout) : Bool :=
  a.timeSig = b.timeSig && a.bpmCh = b.bpmCh && a.exbpmCh = b.exbpmCh && a.lanes.length = b.lanes.length &&
  a.lanes.all (fun p => b.lanes.contains p) && b.lanes.all (fun p => a.lanes.contains p)

theorem layouts_tie :
    Generated.BMS.layoutNames = ["BMS", "BME", "PMS", "PMS_BME", "PMS_5B"] ∧
    (∀ n ∈ Generated.BMS.layoutNames,
      (match layoutOf n, bookLayout n with
       | some a, some b => a.sameAs b
       | _, _ => false) = true) ∧
    Generated.BMS.defaultMetronome = 4 ∧ Generated.BMS.maxKeys = 18 ∧
    Generated.BMS.defaultLayoutRead = "BME" ∧ Generated.BMS.encoding = "shift_jis" := by
  decide +kernel

/-- columns of a layout are exactly `0 … n-1`, each used once; channels are distinct, differ from the three
header channels and fit the reader's `MAX_KEYS` stacks -/
def Layout.wellFormed (l : Layout) : Bool :=
  let chans := l.lanes.map (·.1)
  let cols := l.lanes.map (·.2)
  chans.Nodup && cols.Nodup && cols.all (fun c => decide (c < l.lanes.length)) &&
  (List.range l.lanes.length).all (fun c => cols.contains c) &&
  cols.all (fun c => decide (c < maxKeys)) &&
  !(chans.contains l.timeSig) && !(chans.contains l.bpmCh) && !(chans.contains l.exbpmCh) &&
  chans.all (fun c => c.length = 2)

/-- **The five generated layouts are injective and onto `0..n-1`** (so `channel ↦ column` and the writer's
`column ↦ channel` are inverse bijections, and no lane index overflows the reader's stacks). -/
theorem layouts_wellformed :
    ∀ n ∈ Generated.BMS.layoutNames, ∃ l, layoutOf n = some l ∧ l.wellFormed = true := by
  decide +kernel

/-- on a well-formed layout the two lookups are inverse -/
theorem channelOf_laneOf :
    ∀ n ∈ Generated.BMS.layoutNames, ∀ l, layoutOf n = some l →
      (∀ p ∈ l.lanes, channelOf l p.2 = some p.1 ∧ laneOf l p.1 = some p.2) := by
  decide +kernel

/-! ### slot formula -/

/-- **Object `i` of `n` in measure `m` sits at beat `4·i/n` of that measure**: the reader's event for a
non-empty pair on a lane channel is a note (or LNOBJ marker) of the lane's column at exactly the by-the-book
position of `lineObjs`, and the position is inside the measure. -/
theorem slot_position (ctx : Ctx) (m : Nat) (ch pair : Bytes) (n i col : Nat) (hi : i < n)
    (hp : pair ≠ ['0', '0'] ∧ pair ≠ ['0']) (hch : ch ≠ ctx.layout.bpmCh ∧ ch ≠ ctx.layout.exbpmCh)
    (hl : laneOf ctx.layout ch = some col) :
    pairEvent ctx (m : Int) ch n i pair =
      some (.note col (decide (pair = ctx.lnEnd)) (if pair = ctx.lnEnd then [] else (dictGet? ctx.samples pair).getD [])
        ⟨(m : Int), 4 * ((i : Nat) : Rat) / ((n : Nat) : Rat), none⟩) ∧
    0 ≤ 4 * ((i : Nat) : Rat) / ((n : Nat) : Rat) ∧ 4 * ((i : Nat) : Rat) / ((n : Nat) : Rat) < 4 := by
  have hn : n ≠ 0 := by omega
  have hnq : (0 : Rat) < ((n : Nat) : Rat) := by exact_mod_cast Nat.pos_of_ne_zero hn
  have hiq : ((i : Nat) : Rat) < ((n : Nat) : Rat) := by exact_mod_cast hi
  have hi0 : (0 : Rat) ≤ ((i : Nat) : Rat) := by exact_mod_cast Nat.zero_le i
  refine ⟨?_, ?_, ?_⟩
  · have hdm : defMet = 4 := by decide +kernel
    have hbeat : ((i : Nat) : Rat) / ((n : Nat) : Rat) * defMet = 4 * ((i : Nat) : Rat) / ((n : Nat) : Rat) := by
      rw [hdm]; ring
    unfold pairEvent
    simp only [hp.1, hp.2, hn, hch.1, hch.2, hl, hbeat, decide_false, Bool.or_self, Bool.false_eq_true, if_false]
    by_cases hln : pair = ctx.lnEnd
    · simp [hln]
    · simp [hln]
  · apply div_nonneg <;> linarith
  · rw [div_lt_iff₀ hnq]; linarith

/-! ### times -/

/-- **`TimingMap.offsets` = piecewise-linear integration of beat length** for the tempo list of a 4/4 file.

`cs = c0 :: rest` is what the reader hands to `from_bpm_changes_snap`: ascending, first at measure 0 beat 0,
every change normalised with metronome `M`.  If re-deriving the positions from the millisecond offsets gives
them back (`hst`, the hypothesis D22 violates), then the timing map is the list of `timeAt` change times and
every query at a non-negative position — in any order, with duplicates, for any sorting permutation numpy
chooses — is answered by `timeAt 0 cs`.

`_partial`: the full statement has `gridCompatible (grid 96) cs` in place of `hst` (that implication is K1/C10's)
and `stableArgsort` in place of an arbitrary sorting permutation `σ`. -/
theorem bms_times_partial (g : Array Rat) (M : Rat) (hM : 0 < M) (c0 : BcSnap) (rest : List BcSnap)
    (h0 : c0.snap.measure = 0 ∧ c0.snap.beat = 0) (hgood : ∀ c ∈ c0 :: rest, GoodChange M c) (hch : ChainLe c0 rest)
    (hst : bcsOfBco g (⟨c0.bpm, c0.met, 0⟩ :: bmsCumTimes 0 c0 rest) = .ok (⟨c0.bpm, c0.met, 0⟩ :: bmsCumTimes 0 c0 rest, c0 :: rest)) :
    fromBcSnap 0 (c0 :: rest) false = .ok (⟨c0.bpm, c0.met, 0⟩ :: bmsCumTimes 0 c0 rest) ∧
    ∀ (σ : List Nat) (qs : List Snap), SortsAsc σ qs → (∀ q ∈ qs, 0 ≤ q.measure ∧ 0 ≤ q.beat) →
      offsetsWith g σ (⟨c0.bpm, c0.met, 0⟩ :: bmsCumTimes 0 c0 rest) qs = .ok (qs.map (timeAt 0 (c0 :: rest))) := by
  have hc0 : GoodChange M c0 := hgood c0 (by simp)
  have hrest : ∀ c ∈ rest, GoodChange M c := fun c hc => hgood c (by simp [hc])
  constructor
  · have hsort : sortBcSnap (c0 :: rest) = c0 :: rest := sortBcSnap_chain c0 rest hch
    unfold fromBcSnap
    simp only [hsort, h0.1, h0.2, ne_eq, not_true_eq_false, or_self, if_false, Bool.false_eq_true, false_and]
    unfold fromBcSnapNoReseat
    simp only [hsort, h0.1, h0.2, ne_eq, not_true_eq_false, or_self, if_false]
    rw [bms_cumOffsets_eq M hM rest 0 c0 hc0 hrest hch]
    rfl
  · intro σ qs hσ hq
    apply offsetsWith_order g σ _ qs _ _ (timeAt 0 (c0 :: rest)) hst hσ
    intro q hqm
    have hle : c0.snap.le q = true := by
      have := hq q hqm
      simp only [Snap.le, Snap.lt, Snap.eqv, h0.1, h0.2, Bool.or_eq_true, Bool.and_eq_true, decide_eq_true_eq]
      rcases lt_or_eq_of_le this.1 with h | h
      · exact Or.inl (Or.inl h)
      · rcases lt_or_eq_of_le this.2 with h2 | h2
        · exact Or.inl (Or.inr ⟨h, h2⟩)
        · exact Or.inr ⟨h, h2⟩
    exact lookupOffset_eq_timeAtAux M hM q (hq q hqm).2 rest 0 c0 hc0 hrest hch hle

/-- a tempo change as the 4/4 reader builds it: metronome 4, normalised position, positive tempo -/
def bmsChange (c : BcSnap) : Bool :=
  decide (c.met = 4) && decide (c.snap.met = some 4) && decide (0 < c.bpm) && decide (0 ≤ c.snap.measure) &&
  decide (0 ≤ c.snap.beat) && decide (c.snap.beat < 4)

theorem bmsChange_wf {c : BcSnap} (h : bmsChange c = true) : wfChange c = true ∧ c.met = 4 := by
  simp only [bmsChange, Bool.and_eq_true, decide_eq_true_eq] at h
  obtain ⟨⟨⟨⟨⟨h1, h2⟩, h3⟩, h4⟩, h5⟩, h6⟩ := h
  refine ⟨?_, h1⟩
  simp only [wfChange, Bool.and_eq_true, decide_eq_true_eq, h1, h2, h3, h4, h5, h6, and_true, true_and]
  decide

theorem metronomeOk_of_const (cs : List BcSnap) (h : ∀ c ∈ cs, c.met = 4) : metronomeOk cs = true := by
  induction cs with
  | nil => rfl
  | cons a t ih =>
    cases t with
    | nil => rfl
    | cons b r =>
      simp only [metronomeOk, Bool.and_eq_true, Bool.or_eq_true, decide_eq_true_eq]
      exact ⟨Or.inl ((h a (by simp)).trans (h b (by simp)).symm), ih (fun c hc => h c (by simp [hc]))⟩

/-- **`TimingMap.offsets` on a 4/4 BMS tempo list = piecewise-linear integration of beat length.**

For every ascending list `cs` of reader-built tempo changes that starts at measure 0 beat 0 and is
grid-compatible on the shipped grid of 96 (¬D22) — no re-derivation hypothesis — `from_bpm_changes_snap(0, cs,
reseat=False)` succeeds and `TimingMap.offsets`, exactly as the model runs it (its own `stableArgsort`, the
backwards sweep, the un-permutation), answers every list of queries at non-negative positions (any order,
duplicates) with `timeAt 0 cs`.  (`bms_times_partial`'s hypothesis `hst` discharged by C10's `bcsOfBco_rederive`
through `offsets_correct_fromBcSnap`; the sorting permutation by `stableArgsort_sortsAsc`.) -/
theorem bms_times (cs : List BcSnap) (hall : cs.all bmsChange = true) (hs : sortedSnaps cs = true)
    (h0 : firstAtZero cs = true) (hgc : gridCompatible (grid defaultMaxDiv) cs = true)
    (qs : List Snap) (hq : ∀ q ∈ qs, 0 ≤ q.measure ∧ 0 ≤ q.beat) :
    ∃ tm, fromBcSnap 0 cs false = .ok tm ∧ offsets defaultGrid tm qs = .ok (qs.map (timeAt 0 cs)) := by
  have hwf : wfChanges cs = true := by
    simp only [wfChanges, List.all_eq_true] at hall ⊢
    exact fun c hc => (bmsChange_wf (hall c hc)).1
  have hm : metronomeOk cs = true :=
    metronomeOk_of_const cs (fun c hc => (bmsChange_wf (List.all_eq_true.mp hall c hc)).2)
  have hqok : ∀ q ∈ qs, queryOk cs q = true := by
    intro q hqm
    cases cs with
    | nil => simp [firstAtZero] at h0
    | cons c rest =>
      simp only [firstAtZero, Bool.and_eq_true, decide_eq_true_eq] at h0
      have := hq q hqm
      simp only [queryOk, Snap.le, Snap.lt, Snap.eqv, h0.1, h0.2, Bool.and_eq_true, Bool.or_eq_true, decide_eq_true_eq]
      refine ⟨?_, this.2⟩
      rcases lt_or_eq_of_le this.1 with h | h
      · exact Or.inl (Or.inl h)
      · rcases lt_or_eq_of_le this.2 with h2 | h2
        · exact Or.inl (Or.inr ⟨h, h2⟩)
        · exact Or.inr ⟨h, h2⟩
  have hgc' : gridCompatible defaultGrid.toList cs = true := by simpa [defaultGrid] using hgc
  obtain ⟨tm, h1, h2⟩ := offsets_correct_fromBcSnap defaultGrid (gridOK_grid (by decide)) 0 cs hwf hs h0 hgc' hm
    (stableArgsort Snap.lt qs) qs (stableArgsort_sortsAsc qs) hqok
  exact ⟨tm, h1, h2⟩

/-- non-vacuity of `bms_times`: header tempo, a change inside measure 1, a change on measure line 3 -/
example :
    let cs : List BcSnap := [⟨120, 4, ⟨0, 0, some 4⟩⟩, ⟨60, 4, ⟨1, 3 / 2, some 4⟩⟩, ⟨133, 4, ⟨3, 0, some 4⟩⟩]
    cs.all bmsChange = true ∧ sortedSnaps cs = true ∧ firstAtZero cs = true := by
  decide +kernel

/-- non-vacuity of `bms_times_partial`: a two-change tempo list satisfying every hypothesis (grid 4) -/
example :
    let c0 : BcSnap := ⟨120, 4, ⟨0, 0, some 4⟩⟩
    let rest : List BcSnap := [⟨60, 4, ⟨1, 2, some 4⟩⟩]
    (∀ c ∈ c0 :: rest, GoodChange 4 c) ∧ ChainLe c0 rest ∧
    bcsOfBco (grid 4).toArray (⟨c0.bpm, c0.met, 0⟩ :: bmsCumTimes 0 c0 rest) = .ok (⟨c0.bpm, c0.met, 0⟩ :: bmsCumTimes 0 c0 rest, c0 :: rest) := by
  refine ⟨?_, ?_, ?_⟩
  · intro c hc
    simp only [List.mem_cons, List.not_mem_nil, or_false] at hc
    rcases hc with rfl | rfl <;> (unfold GoodChange; decide +kernel)
  · simp only [ChainLe, and_true]; decide +kernel
  · decide +kernel

/-- **D22 (mechanism, on the grid of 4).** A tempo object at slot 1/5 of measure 1 is not on the snap grid: the
timing map re-derives its position as beat 3/4 instead of 4/5, and the note at measure 2 is read 50 ms late
(5650 instead of 5600).  `hst` of `bms_times_partial` is what fails.  The instance on the shipped grid of 96
(slots 1/64 and 1/28) is the committed witness replayed on every run. -/
theorem bms_incompatible_tempo_counterexample :
    let lines := ["#BPM 120".toList, "#00103:003C000000".toList, "#00211:01".toList]
    (match layoutOf "BME", bookLayout "BME" with
     | some l, some b =>
       (match read (grid 4).toArray l lines, denote b lines with
        | .ok c, some d =>
          decide (c.hits.map (·.offset) = [5650] ∧ d.hits.map (·.offset) = [5600]) && !(gridCompatible (grid 4) d.tempo)
        | _, _ => false)
     | _, _ => false) = true := by
  decide +kernel

/-! ### long notes -/

/-- **LNOBJ pairing.** Lane `k` of the reader, fed the objects `os` of that lane in file order (`hev`), when
the file order is the position order (`hord` — what D05 lacks): if the by-the-book pairing of the lane is
defined, the reader's stacks hold exactly its hits and holds, in the same order.

`_partial`: `hev` (the lane's events are the lane's objects) is proved per pair (`slot_position`), not for
whole files. -/
theorem lnobj_pairing_partial (lnobj : Option Bytes) (lnEnd : Bytes) (sampleOf : Bytes → Bytes) (k : Nat)
    (evs : List Ev) (st st' : St) (os : List Obj) (H : List SHit) (L : List SHold)
    (hrun : foldlE applyEv st evs = .ok st') (hinit : st.lanes k = ⟨[], []⟩)
    (hev : laneEvs k evs = os.map (objEv lnEnd sampleOf))
    (hln : ∀ o ∈ os, (some o.id = lnobj ↔ o.id = lnEnd))
    (hord : sortObjs os = os)
    (hspec : pairLane lnobj sampleOf k none (sortObjs os) = some (H, L)) :
    (st'.lanes k).hits.reverse = H.map SHit.toHitS ∧ (st'.lanes k).holds.reverse = L.map SHold.toHoldS := by
  have h1 := lanes_independent k evs st st' hrun
  rw [hord] at hspec
  have h2 := pairing_invariant lnobj lnEnd sampleOf k os hln none [] [] H L hspec
  rw [hinit, hev] at h1
  simp only [Option.toList, List.map_nil, List.append_nil] at h2
  rw [h2] at h1
  injection h1 with h1
  rw [← h1]
  simp

/-- non-vacuity of `lnobj_pairing_partial` / `pairing_invariant`: head, tail, hit in position order -/
example :
    let os : List Obj := [⟨⟨1, 0, some 4⟩, "01".toList⟩, ⟨⟨1, 2, some 4⟩, "ZZ".toList⟩, ⟨⟨2, 0, some 4⟩, "02".toList⟩]
    sortObjs os = os ∧ (∀ o ∈ os, (some o.id = some "ZZ".toList ↔ o.id = "ZZ".toList)) ∧
    pairLane (some "ZZ".toList) (fun _ => []) 3 none (sortObjs os) =
      some ([⟨3, [], ⟨2, 0, some 4⟩⟩], [⟨3, [], ⟨1, 0, some 4⟩, ⟨1, 2, some 4⟩⟩]) := by
  refine ⟨by decide +kernel, ?_, by decide +kernel⟩
  intro o _
  simp

/-- **D05.** With the two lines of a long note in the "wrong" file order the reader raises
"Failed to match LN Tail" although the text has a by-the-book meaning (one hold from measure 1 to measure 2). -/
theorem lnobj_unordered_counterexample :
    let lines := ["#BPM 120".toList, "#LNOBJ ZZ".toList, "#00211:ZZ".toList, "#00111:01".toList]
    (match layoutOf "BME" with
     | some l => (match read (grid 4).toArray l lines with
                  | .error .lnTail => true
                  | _ => false)
     | none => false) = true ∧
    (match bookLayout "BME" with
     | some l => (match denote l lines with
                  | some d => decide (d.hits = [] ∧ d.holds = [⟨1, [], 2000, 2000⟩])
                  | none => false)
     | none => false) = true := by
  decide +kernel

/-! ### order independence -/

/-- **Hits do not depend on the order of the lines.** For two arrangements of the same data lines, when no
event is an `#LNOBJ` marker or a failure, the reader ends with the same hits in every lane up to order. -/
theorem hits_order_independent (ctx : Ctx) (n₁ n₂ : List (Bytes × Bytes × Bytes)) (st st₁ st₂ : St)
    (hperm : n₁.Perm n₂)
    (hnt : ∀ e ∈ events ctx n₁, ∀ c t s p, e = .note c t s p → t = false)
    (h₁ : foldlE applyEv st (events ctx n₁) = .ok st₁) (h₂ : foldlE applyEv st (events ctx n₂) = .ok st₂) :
    ∀ k, ((st₁.lanes k).hits).Perm ((st₂.lanes k).hits) ∧ (st₁.lanes k).holds = (st₂.lanes k).holds := by
  intro k
  have hp := events_perm ctx hperm
  have hnt₂ : ∀ e ∈ events ctx n₂, ∀ c t s p, e = .note c t s p → t = false :=
    fun e he => hnt e (hp.mem_iff.mpr he)
  have key : ∀ (evs : List Ev), (∀ e ∈ evs, ∀ c t s p, e = .note c t s p → t = false) → ∀ e ∈ laneEvs k evs, e.1 = false := by
    intro evs hh e he
    simp only [laneEvs, List.mem_filterMap] at he
    obtain ⟨ev, hev, hval⟩ := he
    cases ev with
    | bad _ => simp at hval
    | tempo _ => simp at hval
    | note c t s p =>
      by_cases hc : c = k
      · simp only [hc, if_true, Option.some.injEq] at hval
        rw [← hval]
        exact hh _ hev c t s p rfl
      · simp [hc] at hval
  have e₁ := lanes_independent k _ st st₁ h₁
  have e₂ := lanes_independent k _ st st₂ h₂
  rw [laneFold_no_tail _ _ (key _ hnt)] at e₁
  rw [laneFold_no_tail _ _ (key _ hnt₂)] at e₂
  injection e₁ with e₁
  injection e₂ with e₂
  rw [← e₁, ← e₂]
  refine ⟨?_, rfl⟩
  apply List.Perm.append_right
  exact (List.reverse_perm _).trans (((laneEvs_perm k hp).map _).trans (List.reverse_perm _).symm)

/-! ### the assembled statement -/

theorem bmsChange_of_tempoOfObj (ex : Dict Rat) (b : Bool) (o : Obj) (c : BcSnap)
    (ho : 0 ≤ o.snap.measure ∧ 0 ≤ o.snap.beat ∧ o.snap.beat < 4) (h : tempoOfObj ex b o = some c) :
    bmsChange c = true ∧ c.snap.measure = o.snap.measure ∧ c.snap.beat = o.snap.beat := by
  unfold tempoOfObj at h
  simp only [Option.bind_eq_some_iff] at h
  obtain ⟨bpm, _, h⟩ := h
  by_cases hb : bpm ≤ 0
  · simp [hb] at h
  · simp only [hb, if_false, Option.some.injEq] at h
    subst h
    have hb' : 0 < bpm := not_le.mp hb
    simp [bmsChange, hb', ho.1, ho.2.1, ho.2.2]

theorem gridCompatible_tail {g : List Rat} {a : BcSnap} {rest : List BcSnap} (h : gridCompatible g (a :: rest) = true) :
    gridCompatible g rest = true := by
  cases rest with
  | nil => rfl
  | cons b r => exact (gridCompatible_cons h).2


/-! ### the final `tm.reseat()` -/

theorem wfB_of_bmsChange (cs : List BcSnap) (hall : cs.all bmsChange = true) :
    wfB cs = true ∧ ∀ c ∈ cs, c.met = 4 := by
  simp only [List.all_eq_true] at hall
  constructor
  · simp only [wfB, List.all_eq_true]
    intro c hc
    have h := hall c hc
    simp only [bmsChange, Bool.and_eq_true, decide_eq_true_eq] at h
    obtain ⟨⟨⟨⟨⟨h1, h2⟩, h3⟩, h4⟩, h5⟩, h6⟩ := h
    simp only [wfOne, Bool.and_eq_true, decide_eq_true_eq, h1, h2, h3, h4, h5, h6, and_true, true_and]
    norm_num
  · intro c hc
    exact (bmsChange_wf (hall c hc)).2

/-- **The reader's tempo list lies in C11's domain.**  Every ascending list of reader-built 4/4 tempo changes that
starts at measure 0 beat 0 and is grid-compatible on the shipped grid of 96 (¬D22) satisfies all of C11's
hypotheses `Dom` for the shipped threshold 1/1000: the fractional part of every beat distance is 0 or at least
1/96, so branch 2 of the reseat loop never fires (¬D16) and no gap is tiny (¬D16b). -/
theorem bms_tempo_in_reseat_dom (cs : List BcSnap) (hall : cs.all bmsChange = true) (hs : sortedSnaps cs = true)
    (h0 : firstAtZero cs = true) (hgc : gridCompatible (grid defaultMaxDiv) cs = true) :
    Dom extendThreshold cs := by
  obtain ⟨hwf, hmet⟩ := wfB_of_bmsChange cs hall
  have h0' : firstZeroB cs = true := by
    cases cs with
    | nil => simp [firstAtZero] at h0
    | cons c r => simpa [firstZeroB, firstAtZero] using h0
  exact dom_of_gridCompatible (N := defaultMaxDiv) (by decide) extendThreshold
    (by unfold extendThreshold defaultMaxDiv; norm_num) (by unfold extendThreshold; norm_num) cs hwf hmet hs h0' hgc

/-- **`_read_notes` after the timed notes: the re-derivation and `tm.reseat()` succeed.**  With the tempo list `cs`
of `bms_times` and the timing map `tm` built from it: `bpm_changes_offset_to_snap` gives `cs` back (C10's
`bcsOfBco_rederive`), `from_bpm_changes_snap(0, cs)` with reseating succeeds (C11's `Dom`, by
`bms_tempo_in_reseat_dom`), and the stored tempo list `tm2` contains every change of `cs` at its own millisecond
position, in order, first on first, last on last, with at most one inserted point per interval. -/
theorem finishRead_ok (st : St) (hits : List HitOut) (holds : List HoldOut) (tm : List BcOff) (cs : List BcSnap)
    (ht : timedNotes defaultGrid st = .ok (hits, holds, tm, cs))
    (hall : cs.all bmsChange = true) (hs : sortedSnaps cs = true)
    (h0 : firstAtZero cs = true) (hgc : gridCompatible (grid defaultMaxDiv) cs = true)
    (htm : fromBcSnap 0 cs false = .ok tm) :
    ∃ tm2, finishRead defaultGrid st = .ok (hits, holds, tm2, cs) ∧
      interleaveB 0 false (inPts 0 cs) (outPtsOff tm2) = true := by
  have hwf : wfChanges cs = true := by
    simp only [wfChanges, List.all_eq_true] at hall ⊢
    exact fun c hc => (bmsChange_wf (hall c hc)).1
  have hm : metronomeOk cs = true :=
    metronomeOk_of_const cs (fun c hc => (bmsChange_wf (List.all_eq_true.mp hall c hc)).2)
  have hgc' : gridCompatible defaultGrid.toList cs = true := by simpa [defaultGrid] using hgc
  have hre := bcsOfBco_rederive (g := defaultGrid) (gridOK_grid (by decide)) 0 cs hwf hs h0 hgc' hm
  have hdom := bms_tempo_in_reseat_dom cs hall hs h0 hgc
  obtain ⟨tm2, h2, hint⟩ := fromBcSnap_reseat_keeps_times 0 cs hdom
  have htmOf : tm = tmOf 0 cs := by
    have h1 := fromBcSnapNoReseat_eq 0 cs hwf hs h0
    unfold fromBcSnap at htm
    rw [sortBcSnap_eq_self hs] at htm
    cases cs with
    | nil => simp [firstAtZero] at h0
    | cons c rest =>
      simp only [firstAtZero, Bool.and_eq_true, decide_eq_true_eq] at h0
      simp [h0.1, h0.2, h1] at htm
      exact htm.symm
  subst htmOf
  refine ⟨tm2, ?_, hint⟩
  have hhead : (((tmOf 0 cs).head?.map (·.offset)).getD 0) = 0 := by
    cases cs with
    | nil => simp [firstAtZero] at h0
    | cons c rest => exact tmOf_head_offset 0 c rest
  unfold finishRead
  simp only [ht, hre, liftT, bind, Except.bind, hhead, h2]

/-- the whole reader in terms of its parts -/
theorem read_of_parts (g : Array Rat) (lay : Layout) (lines : List Bytes) (doc : Doc) (hdr : Header) (st : St)
    (hdoc : parseDoc lines = .ok doc) (hhdr : readHeader doc.header = .ok hdr) (hb : 0 < hdr.bpm0)
    (hst : foldlE applyEv (initSt hdr.bpm0) (events ⟨lay, hdr.lnEnd, hdr.exbpms, hdr.samples⟩ doc.notes) = .ok st)
    (hits : List HitOut) (holds : List HoldOut) (tm : List BcOff) (cs : List BcSnap)
    (ht : timedNotes g st = .ok (hits, holds, tm, cs)) :
    readNotes g lay lines = .ok (hits, holds) ∧
    ∀ c, read g lay lines = .ok c → c.hits = hits ∧ c.holds = holds ∧ c.header = hdr := by
  have hb' : ¬ hdr.bpm0 ≤ 0 := not_le.mpr hb
  constructor
  · simp [readNotes, hdoc, hhdr, hb', hst, ht]
  · intro c hc
    simp only [read, hdoc, hhdr, hb', if_false, hst] at hc
    unfold finishRead at hc
    simp only [ht, bind, Except.bind] at hc
    split at hc
    · cases hc
    · rename_i r hr
      split at hr
      · cases hr
      · split at hr
        · cases hr
        · injection hr with hr
          injection hc with hc
          rw [← hc, ← hr]
          exact ⟨rfl, rfl, rfl⟩

/-- the reader after a successful `finishRead` -/
theorem read_of_finish (g : Array Rat) (lay : Layout) (lines : List Bytes) (doc : Doc) (hdr : Header) (st : St)
    (hdoc : parseDoc lines = .ok doc) (hhdr : readHeader doc.header = .ok hdr) (hb : 0 < hdr.bpm0)
    (hst : foldlE applyEv (initSt hdr.bpm0) (events ⟨lay, hdr.lnEnd, hdr.exbpms, hdr.samples⟩ doc.notes) = .ok st)
    (r : List HitOut × List HoldOut × List BcOff × List BcSnap) (hf : finishRead g st = .ok r) :
    read g lay lines = .ok ⟨hdr, r.1, r.2.1, r.2.2.1, r.2.2.2⟩ := by
  have hb' : ¬ hdr.bpm0 ≤ 0 := not_le.mpr hb
  simp [read, hdoc, hhdr, hb', hst, hf]

/-- **`read` = `denote` on the shared lexer** (the semantic core of `read_eq_denote`; `denote` lexes with the
reader's own classifier).  Same statement as `read_eq_denote`, with `denote` / `parseDoc` in place of
`denoteText` / `bookDoc`. -/
theorem read_eq_denote_shared (lay : Layout) (hlay : LayoutOK lay) (lines : List Bytes) (d : Denotation)
    (hden : denote lay lines = some d)
    (hord : ∀ doc, parseDoc lines = .ok doc → LanesInOrder lay doc.notes)
    (hgc : gridCompatible (grid defaultMaxDiv) d.tempo = true) :
    ∃ c, read defaultGrid lay lines = .ok c ∧
      (c.hits.map HitOut.toD).Perm d.hits ∧ (c.holds.map HoldOut.toD).Perm d.holds ∧ c.header = d.header ∧
      (c.tempo = d.tempo ∨ ((∃ h, d.tempo = h :: c.tempo) ∧ firstAtZero c.tempo = true)) ∧
      interleaveB 0 false (inPts 0 c.tempo) (outPtsOff c.bpms) = true := by
  -- take the denotation apart
  unfold denote at hden
  cases hdoc : parseDoc lines with
  | error e => simp [hdoc] at hden
  | ok doc =>
  cases hhdr : readHeader doc.header with
  | error e => simp [hdoc, hhdr] at hden
  | ok hdr =>
  simp only [hdoc, hhdr] at hden
  cases hbody : denoteBody lay doc hdr with
  | none => simp [hbody] at hden
  | some body =>
  obtain ⟨cs, shits, sholds⟩ := body
  simp only [hbody, Option.some.injEq] at hden
  subst hden
  simp only at hgc ⊢
  unfold denoteBody at hbody
  by_cases hg : guardsOk lay doc hdr = true
  swap
  · simp [hg] at hbody
  simp only [hg, if_true] at hbody
  obtain ⟨cs', perLane, htempo, hlanes, rfl, rfl, rfl⟩ : ∃ cs' perLane,
      denoteTempo lay doc.notes hdr.exbpms hdr.bpm0 = some cs' ∧
      allSome (lay.lanes.map (denoteLane (dictGet? doc.header "LNOBJ".toList)
        (fun id => (dictGet? hdr.samples id).getD []) doc.notes)) = some perLane ∧
      cs = cs' ∧ shits = perLane.flatMap (·.1) ∧ sholds = perLane.flatMap (·.2) := by
    split at hbody
    · cases hbody
    · rename_i cs' htempo
      split at hbody
      · cases hbody
      · rename_i perLane hlanes
        simp only [Option.some.injEq, Prod.mk.injEq] at hbody
        exact ⟨cs', perLane, htempo, hlanes, hbody.1.symm, hbody.2.1.symm, hbody.2.2.symm⟩
  obtain ⟨hok, hbpm⟩ := linesOk_of_guards lay doc hdr hg
  have hinorder := hord doc hdoc
  -- tempo objects
  unfold denoteTempo at htempo
  rw [channelObjs_eq lay.timeSig doc.notes hok, channelObjs_eq lay.timeSig doc.notes hok] at htempo
  simp only at htempo
  cases ht3 : allSome ((laneObjs doc.notes lay.bpmCh).map (tempoOfObj hdr.exbpms false)) with
  | none => simp [ht3] at htempo
  | some t3 =>
  cases ht8 : allSome ((laneObjs doc.notes lay.exbpmCh).map (tempoOfObj hdr.exbpms true)) with
  | none => simp [ht3, ht8] at htempo
  | some t8 =>
  simp only [ht3, ht8] at htempo
  by_cases hstrict : strictAscBc (sortBcSnap (t3 ++ t8)) = true
  swap
  · simp [hstrict] at htempo
  simp only [hstrict, if_true, Option.some.injEq] at htempo
  obtain ⟨h3some, ht3eq⟩ := allSome_eq_some _ _ _ ht3
  obtain ⟨h8some, ht8eq⟩ := allSome_eq_some _ _ _ ht8
  -- lanes
  obtain ⟨hPLsome, hPLeq⟩ := allSome_map_get _ _ _ hlanes
  let PL : Bytes × Nat → List SHit × List SHold := fun lane =>
    (denoteLane (dictGet? doc.header "LNOBJ".toList) (fun id => (dictGet? hdr.samples id).getD []) doc.notes lane).getD default
  have hPL : ∀ lane ∈ lay.lanes, pairLane (dictGet? doc.header "LNOBJ".toList) (fun id => (dictGet? hdr.samples id).getD [])
      lane.2 none (laneObjs doc.notes lane.1) = some (PL lane) := by
    intro lane hl
    have h1 : denoteLane (dictGet? doc.header "LNOBJ".toList) (fun id => (dictGet? hdr.samples id).getD []) doc.notes lane
        = some (PL lane) := hPLsome lane hl
    have h2 : denoteLane (dictGet? doc.header "LNOBJ".toList) (fun id => (dictGet? hdr.samples id).getD []) doc.notes lane =
        (if strictAsc (laneObjs doc.notes lane.1) = true then
          pairLane (dictGet? doc.header "LNOBJ".toList) (fun id => (dictGet? hdr.samples id).getD []) lane.2 none
            (laneObjs doc.notes lane.1) else none) := by
      unfold denoteLane
      rw [channelObjs_eq lay.timeSig doc.notes hok]
      dsimp only
      rw [hinorder lane hl]
    rw [h2] at h1
    by_cases hs : strictAsc (laneObjs doc.notes lane.1) = true
    · rw [if_pos hs] at h1; exact h1
    · rw [if_neg hs] at h1; cases h1
  -- the loop
  obtain ⟨st', hst', hLanes, hNone, hbcs⟩ := loop_final lay hlay doc hdr hhdr hok h3some h8some PL hPL
  -- the reader's tempo list
  set ctx : Ctx := ⟨lay, hdr.lnEnd, hdr.exbpms, hdr.samples⟩ with hctx
  have hperm : (tempoOf (events ctx doc.notes)).Perm (t3 ++ t8) := by
    rw [ht3eq, ht8eq]
    exact tempoOf_events_perm ctx doc.notes hok hlay.tempo_ne
  have hY : ∀ y ∈ t3 ++ t8, bmsChange y = true ∧ 0 ≤ y.snap.measure ∧ 0 ≤ y.snap.beat := by
    intro y hy
    rw [ht3eq, ht8eq] at hy
    rcases List.mem_append.mp hy with h | h
    · obtain ⟨o, ho, hoy⟩ := List.mem_filterMap.mp h
      have hp := laneObjs_pos doc.notes lay.bpmCh o ho
      obtain ⟨a, b, c⟩ := bmsChange_of_tempoOfObj _ _ o y ⟨hp.1, hp.2.1, hp.2.2.1⟩ hoy
      exact ⟨a, by rw [b]; exact hp.1, by rw [c]; exact hp.2.1⟩
    · obtain ⟨o, ho, hoy⟩ := List.mem_filterMap.mp h
      have hp := laneObjs_pos doc.notes lay.exbpmCh o ho
      obtain ⟨a, b, c⟩ := bmsChange_of_tempoOfObj _ _ o y ⟨hp.1, hp.2.1, hp.2.2.1⟩ hoy
      exact ⟨a, by rw [b]; exact hp.1, by rw [c]; exact hp.2.1⟩
  have hhdrC : (⟨hdr.bpm0, defMet, ⟨0, 0, some defMet⟩⟩ : BcSnap) = ⟨hdr.bpm0, 4, ⟨0, 0, some 4⟩⟩ := by rw [defMet_eq]
  rw [hhdrC] at hbcs
  set hdrC : BcSnap := ⟨hdr.bpm0, 4, ⟨0, 0, some 4⟩⟩ with hhC
  have hhdrChange : bmsChange hdrC = true := by simp [bmsChange, hdrC, hbpm]
  set S := sortBcSnap (t3 ++ t8) with hS
  have hSmem : ∀ y ∈ S, bmsChange y = true ∧ 0 ≤ y.snap.measure ∧ 0 ≤ y.snap.beat :=
    fun y hy => hY y (mem_isort.mp hy)
  have hcs : cs = hdrC :: S := htempo.symm
  subst hcs
  have hSsorted : sortedSnaps S = true := sortedSnaps_sortBcSnap _
  have hcsSorted : sortedSnaps (hdrC :: S) = true := by
    apply sortedSnaps_of_pairwise
    refine List.pairwise_cons.mpr ⟨?_, sortedSnaps_pairwise hSsorted⟩
    intro y hy
    exact zero_le_snap (c := hdrC.snap) ⟨rfl, rfl⟩ (hSmem y hy).2
  -- the tempo list handed to the timing engine, and its relation to the by-the-book list
  obtain ⟨csM, hcsM, hMall, hMsorted, hM0, hMgc, hMtime, hMrel⟩ :
      ∃ csM, sortBcSnap (dropOverridden st'.bcsRev.reverse) = csM ∧ csM.all bmsChange = true ∧ sortedSnaps csM = true ∧
        firstAtZero csM = true ∧ gridCompatible (grid defaultMaxDiv) csM = true ∧
        (∀ q : Snap, 0 ≤ q.measure ∧ 0 ≤ q.beat → timeAt 0 csM q = timeAt 0 (hdrC :: S) q) ∧
        (csM = hdrC :: S ∨ (S = csM ∧ firstAtZero csM = true)) := by
    rw [hbcs]
    rcases model_tempo_cases hdrC _ _ hperm hstrict ⟨rfl, rfl⟩ (fun y hy => (hY y hy).2) with h | ⟨h, y0, rest, hrest, hy0⟩
    · refine ⟨_, h, ?_, hcsSorted, by simp [firstAtZero, hdrC], hgc, fun _ _ => rfl, Or.inl rfl⟩
      simp only [List.all_cons, hhdrChange, Bool.true_and, List.all_eq_true]
      exact fun y hy => (hSmem y hy).1
    · have hfz : firstAtZero (sortBcSnap (t3 ++ t8)) = true := by
        rw [hrest]; simp [firstAtZero, hy0.1, hy0.2]
      refine ⟨_, h, ?_, hSsorted, hfz, gridCompatible_tail hgc, ?_, Or.inr ⟨rfl, hfz⟩⟩
      · simp only [List.all_eq_true]
        exact fun y hy => (hSmem y hy).1
      · intro q hq
        have hrest' : S = y0 :: rest := hrest
        rw [hrest', hrest]
        exact (timeAt_drop_zero hdrC y0 rest q ⟨rfl, rfl⟩ hy0 (zero_le_snap hy0 hq)).symm
  -- positions of everything the lanes hold are non-negative
  have hposPL : ∀ lane ∈ lay.lanes, (∀ h ∈ (PL lane).1, h.col = lane.2 ∧ (0 ≤ h.snap.measure ∧ 0 ≤ h.snap.beat)) ∧
      (∀ l ∈ (PL lane).2, l.col = lane.2 ∧ (0 ≤ l.head.measure ∧ 0 ≤ l.head.beat) ∧ (0 ≤ l.tail.measure ∧ 0 ≤ l.tail.beat)) := by
    intro lane hl
    exact pairLane_forall (fun s => 0 ≤ s.measure ∧ 0 ≤ s.beat) _ _ lane.2 _ none _ _
      (fun o ho => let hp := laneObjs_pos doc.notes lane.1 o ho; ⟨hp.1, hp.2.1⟩) (by intro p hp; cases hp) (hPL lane hl)
  have hflatH : ∀ p ∈ flatHits st', 0 ≤ p.2.snap.measure ∧ 0 ≤ p.2.snap.beat := by
    intro p hp
    simp only [flatHits, List.mem_flatMap, List.mem_range, List.mem_map, List.mem_reverse] at hp
    obtain ⟨k, _, h, hh, rfl⟩ := hp
    by_cases hk : ∃ lane ∈ lay.lanes, lane.2 = k
    · obtain ⟨lane, hl, rfl⟩ := hk
      have : h ∈ (st'.lanes lane.2).hits.reverse := List.mem_reverse.mpr hh
      rw [(hLanes lane hl).1] at this
      obtain ⟨sh, hsh, rfl⟩ := List.mem_map.mp this
      exact ((hposPL lane hl).1 sh hsh).2
    · have hk' : ∀ lane ∈ lay.lanes, lane.2 ≠ k := fun lane hl e => hk ⟨lane, hl, e⟩
      rw [hNone k hk'] at hh
      cases hh
  have hflatL : ∀ p ∈ flatHolds st', (0 ≤ p.2.head.snap.measure ∧ 0 ≤ p.2.head.snap.beat) ∧ (0 ≤ p.2.tail.measure ∧ 0 ≤ p.2.tail.beat) := by
    intro p hp
    simp only [flatHolds, List.mem_flatMap, List.mem_range, List.mem_map, List.mem_reverse] at hp
    obtain ⟨k, _, h, hh, rfl⟩ := hp
    by_cases hk : ∃ lane ∈ lay.lanes, lane.2 = k
    · obtain ⟨lane, hl, rfl⟩ := hk
      have : h ∈ (st'.lanes lane.2).holds.reverse := List.mem_reverse.mpr hh
      rw [(hLanes lane hl).2] at this
      obtain ⟨sh, hsh, rfl⟩ := List.mem_map.mp this
      exact ((hposPL lane hl).2 sh hsh).2
    · have hk' : ∀ lane ∈ lay.lanes, lane.2 ≠ k := fun lane hl e => hk ⟨lane, hl, e⟩
      rw [hNone k hk'] at hh
      cases hh
  -- times
  obtain ⟨tm, htm, hoffH⟩ := bms_times csM hMall hMsorted hM0 hMgc ((flatHits st').map (·.2.snap)) (by
    intro q hq
    obtain ⟨p, hp, rfl⟩ := List.mem_map.mp hq
    exact hflatH p hp)
  obtain ⟨tm2, htm2, hoffHead⟩ := bms_times csM hMall hMsorted hM0 hMgc ((flatHolds st').map (·.2.head.snap)) (by
    intro q hq
    obtain ⟨p, hp, rfl⟩ := List.mem_map.mp hq
    exact (hflatL p hp).1)
  obtain ⟨tm3, htm3, hoffTail⟩ := bms_times csM hMall hMsorted hM0 hMgc ((flatHolds st').map (·.2.tail)) (by
    intro q hq
    obtain ⟨p, hp, rfl⟩ := List.mem_map.mp hq
    exact (hflatL p hp).2)
  have e2 : tm2 = tm := by rw [htm] at htm2; injection htm2 with h; exact h.symm
  have e3 : tm3 = tm := by rw [htm] at htm3; injection htm3 with h; exact h.symm
  rw [e2] at hoffHead
  rw [e3] at hoffTail
  set T := timeAt 0 csM with hT
  have htimed : timedNotes defaultGrid st' = .ok
      ((flatHits st').map (fun p => (⟨p.1, p.2.sample, T p.2.snap⟩ : HitOut)),
       (flatHolds st').map (fun p => (⟨p.1, p.2.head.sample, T p.2.head.snap, T p.2.tail - T p.2.head.snap⟩ : HoldOut)), tm, csM) := by
    unfold timedNotes
    simp only [hcsM, htm, liftT, bind, Except.bind]
    have z1 : ∀ (l : List (Nat × HitS)), (l.zip (l.map (fun p => T p.2.snap))).map
        (fun p => (⟨p.1.1, p.1.2.sample, p.2⟩ : HitOut)) = l.map (fun p => (⟨p.1, p.2.sample, T p.2.snap⟩ : HitOut)) :=
      fun l => zip_map_self _ _ l
    have z2 : ∀ (l : List (Nat × HoldS)), (l.zip ((l.map (fun p => T p.2.head.snap)).zip (l.map (fun p => T p.2.tail)))).map
        (fun p => (⟨p.1.1, p.1.2.head.sample, p.2.1, p.2.2 - p.2.1⟩ : HoldOut)) =
        l.map (fun p => (⟨p.1, p.2.head.sample, T p.2.head.snap, T p.2.tail - T p.2.head.snap⟩ : HoldOut)) :=
      fun l => zip_map_self2 _ _ _ l
    by_cases he : (flatHits st').isEmpty = true <;> by_cases hl : (flatHolds st').isEmpty = true
    · have e1 := List.isEmpty_iff.mp he
      have e2 := List.isEmpty_iff.mp hl
      simp [e1, e2, pure, Except.pure]
    · have e1 := List.isEmpty_iff.mp he
      simp only [he, hl, if_true, if_false, Bool.false_eq_true, pure, Except.pure, hoffHead, hoffTail, List.map_map]
      simp only [Function.comp_def]
      rw [z2]
      simp [e1]
    · have e2 := List.isEmpty_iff.mp hl
      simp only [he, hl, if_true, if_false, Bool.false_eq_true, pure, Except.pure, hoffH, List.map_map]
      simp only [Function.comp_def]
      rw [z1]
      simp [e2]
    · simp only [he, hl, if_false, Bool.false_eq_true, hoffH, hoffHead, hoffTail, List.map_map]
      simp only [Function.comp_def]
      rw [z1, z2]
  obtain ⟨tm2, hfin, hint⟩ := finishRead_ok st' _ _ tm csM htimed hMall hMsorted hM0 hMgc htm
  have hread := read_of_finish defaultGrid lay lines doc hdr st' hdoc hhdr hbpm hst' _ hfin
  refine ⟨_, hread, ?_, ?_, rfl, ?_, hint⟩
  rotate_left 2
  · -- the tempo list handed to the timing engine: the by-the-book one, or its tail when the header tempo is overridden
    rcases hMrel with h | ⟨h, hz⟩
    · exact Or.inl h
    · exact Or.inr ⟨⟨hdrC, by rw [h]⟩, hz⟩
  · -- hits
    have hTeq : ∀ p ∈ flatHits st', T p.2.snap = timeAt 0 (hdrC :: S) p.2.snap := fun p hp => hMtime _ (hflatH p hp)
    have h1 := flatHits_perm lay hlay st' PL (timeAt 0 (hdrC :: S)) (fun lane hl => (hLanes lane hl).1)
      (fun lane hl h hh => ((hposPL lane hl).1 h hh).1) hNone
    rw [hPLeq]
    simp only [List.map_map, List.flatMap_map]
    refine List.Perm.trans (List.Perm.of_eq ?_) h1
    apply List.map_congr_left
    intro p hp
    simp [HitOut.toD, hTeq p hp]
  · have hTeq : ∀ p ∈ flatHolds st', T p.2.head.snap = timeAt 0 (hdrC :: S) p.2.head.snap ∧ T p.2.tail = timeAt 0 (hdrC :: S) p.2.tail :=
      fun p hp => ⟨hMtime _ (hflatL p hp).1, hMtime _ (hflatL p hp).2⟩
    have h1 := flatHolds_perm lay hlay st' PL (timeAt 0 (hdrC :: S)) (fun lane hl => (hLanes lane hl).2)
      (fun lane hl h hh => ((hposPL lane hl).2 h hh).1) hNone
    rw [hPLeq]
    simp only [List.map_map, List.flatMap_map]
    refine List.Perm.trans (List.Perm.of_eq ?_) h1
    apply List.map_congr_left
    intro p hp
    simp [HoldOut.toD, (hTeq p hp).1, (hTeq p hp).2]

/-- **`read` = `denoteText`: BMS reading places every object where the book says.**

For every layout that is injective with columns below `MAX_KEYS` (`LayoutOK`; the five generated layouts are:
`layouts_ok`), and every text that has a by-the-book meaning `d` — `denoteText`: the specification's OWN lexer
(`bookLine`, `bookTable`, `bookDoc`, written independently of the reader's classifier) and semantics — whose lanes
are in position order in the file (¬D05) and whose tempo list is grid-compatible on the shipped grid of 96 (¬D22):
`BMSMap.read` — `strip`, the `split`-and-slice line classifier, the insertion-ordered header dict, the header
tables, the per-pair loop with its per-lane stacks, the measure-0 override, the stable sort,
`from_bpm_changes_snap`, `TimingMap.offsets` as the model runs it, the re-derivation of the tempo positions and the
final `tm.reseat()` — SUCCEEDS and returns a chart `c` with
* exactly the hits and holds of `d` up to the order of rows: same columns, same samples, times `timeAt` of the
  by-the-book tempo list, hold lengths tail − head;
* the header record of `d`;
* a stored tempo list `c.bpms` that contains every tempo change of the list handed to the timing engine — which
  is the by-the-book list `d.tempo`, or its tail when a tempo object on measure 0 position 0 replaces the `#BPM`
  header — at its own millisecond position, in order, first on first, last on last, with at most one inserted
  (measure-line) point per interval (C11's `interleaveB 0 false`, exact equality).

All hypotheses are about the FILE.  The success of the final reseat is no longer assumed: the reader's tempo list is
proved to lie in C11's domain (`bms_tempo_in_reseat_dom`: grid-compatible on 96 ⇒ no D16 branch, no tiny gap), and
C11's `fromBcSnap_reseat_keeps_times` is applied.  The header record of `d` is the specification's own
(`bookHeader`: `#TITLE`/`#ARTIST`/`#PLAYLEVEL`/`#LNOBJ`, the `#BPMxx`/`#WAVxx` tables by `bookTable`, `#BPM`, the other
headers), proved equal to `_read_file_header`'s (`bookHeader_readHeader`).  Shared with the specification: the decimal
parser `parseFloat` / `parseNat` / `parseHex2`, and one layout on both sides (`layouts_tie` relates generated and
by-the-book tables). -/
theorem read_eq_denote (lay : Layout) (hlay : LayoutOK lay) (lines : List Bytes) (d : Denotation)
    (hden : denoteText lay lines = some d)
    (hord : ∀ doc, bookDoc lines = some doc → LanesInOrder lay doc.notes)
    (hgc : gridCompatible (grid defaultMaxDiv) d.tempo = true) :
    ∃ c, read defaultGrid lay lines = .ok c ∧
      (c.hits.map HitOut.toD).Perm d.hits ∧ (c.holds.map HoldOut.toD).Perm d.holds ∧ c.header = d.header ∧
      (c.tempo = d.tempo ∨ ((∃ h, d.tempo = h :: c.tempo) ∧ firstAtZero c.tempo = true)) ∧
      interleaveB 0 false (inPts 0 c.tempo) (outPtsOff c.bpms) = true := by
  obtain ⟨hden', doc, hb, hp, _, _⟩ := denoteText_eq_denote lay lines d hden
  apply read_eq_denote_shared lay hlay lines d hden' _ hgc
  intro doc' hdoc'
  rw [hp] at hdoc'
  injection hdoc' with e
  subst e
  exact hord doc hb

/-- **The same through the FILE entry point**: `BMSMap.read_file` on the bytes of a file (`readFile`: Python's
`readlines()` line splitting, then `read`) against the by-the-book meaning of the file — its bytes split at LF, CRLF
or bare CR (`fileLines`), then `denoteText` — for every file that holds none of the control bytes VT, FF, FS, GS, RS
(Python also cuts lines there: dialect, `read_file_splits_at_control_bytes`).  The codec is not modelled. -/
theorem read_file_eq_denote (lay : Layout) (hlay : LayoutOK lay) (bytes : Bytes) (d : Denotation)
    (hx : ∀ c ∈ bytes, pyExoticSep c = false)
    (hden : denoteText lay (fileLines bytes) = some d)
    (hord : ∀ doc, bookDoc (fileLines bytes) = some doc → LanesInOrder lay doc.notes)
    (hgc : gridCompatible (grid defaultMaxDiv) d.tempo = true) :
    ∃ c, readFile defaultGrid lay bytes = .ok c ∧
      (c.hits.map HitOut.toD).Perm d.hits ∧ (c.holds.map HoldOut.toD).Perm d.holds ∧ c.header = d.header ∧
      (c.tempo = d.tempo ∨ ((∃ h, d.tempo = h :: c.tempo) ∧ firstAtZero c.tempo = true)) ∧
      interleaveB 0 false (inPts 0 c.tempo) (outPtsOff c.bpms) = true := by
  unfold readFile
  rw [pyLines_eq_fileLines bytes hx]
  exact read_eq_denote lay hlay (fileLines bytes) d hden hord hgc

/-- dialect fact behind the hypothesis of `read_file_eq_denote`: a form feed inside a header value ends the line for
`read_file` (Python's `splitlines`), not for the format -/
theorem read_file_splits_at_control_bytes :
    pyLines ("#TITLE a".toList ++ [Char.ofNat 12] ++ "b\n#BPM 120".toList) = ["#TITLE a".toList, "b".toList, "#BPM 120".toList] ∧
    fileLines ("#TITLE a".toList ++ [Char.ofNat 12] ++ "b\n#BPM 120".toList) =
      ["#TITLE a".toList ++ [Char.ofNat 12] ++ "b".toList, "#BPM 120".toList] := by
  decide +kernel

/-- the five generated layouts satisfy what `read_eq_denote` asks of a layout -/
theorem layouts_ok : ∀ n ∈ Generated.BMS.layoutNames, ∀ l, layoutOf n = some l → LayoutOK l := by
  have key : ∀ n ∈ Generated.BMS.layoutNames, ∀ l, layoutOf n = some l →
      ((l.lanes.map (·.1)).Nodup ∧ (l.lanes.map (·.2)).Nodup ∧ (∀ lane ∈ l.lanes, lane.2 < maxKeys) ∧
       (∀ lane ∈ l.lanes, lane.1 ≠ l.bpmCh ∧ lane.1 ≠ l.exbpmCh) ∧ l.bpmCh ≠ l.exbpmCh) := by
    decide +kernel
  intro n hn l hl
  obtain ⟨a, b, c, d, e⟩ := key n hn l hl
  exact layoutOK_of l a b c d e

/-- non-vacuity of `read_eq_denote`: a BME text with a long note, two hits, a sample table, a comment line, a
blank line, an ignored command, padded line ends and a header defined twice satisfies every hypothesis (meaning
defined by the specification's own lexer, lanes in position order, tempo list grid-compatible) -/
example :
    let lines := ["#BPM 100".toList, "  #BPM 120\r\n".toList, "*---- MAIN DATA".toList, [], "#ENDIF".toList,
                  "#LNOBJ ZZ".toList, "#WAV01 k.wav".toList, "#00111:0100ZZ00".toList,
                  "#00112:00010002".toList, "#00211:02".toList]
    ∃ l d, layoutOf "BME" = some l ∧ denoteText l lines = some d ∧
      (∀ doc, bookDoc lines = some doc → LanesInOrder l doc.notes) ∧
      gridCompatible (grid defaultMaxDiv) d.tempo = true ∧ d.hits.length = 3 ∧ d.holds.length = 1 := by
  intro lines
  have h1 : (match layoutOf "BME" with
      | some l => (match denoteText l lines with
        | some d => decide (d.hits.length = 3 ∧ d.holds.length = 1 ∧ d.tempo = [⟨120, 4, ⟨0, 0, some 4⟩⟩]) &&
            (match bookDoc lines with
             | some doc => decide (∀ lane ∈ l.lanes, sortObjs (laneObjs doc.notes lane.1) = laneObjs doc.notes lane.1)
             | none => false)
        | none => false)
      | none => false) = true := by decide +kernel
  cases hl : layoutOf "BME" with
  | none => simp [hl] at h1
  | some l =>
    cases hd : denoteText l lines with
    | none => simp [hl, hd] at h1
    | some d =>
      cases hdoc : bookDoc lines with
      | none => simp [hl, hd, hdoc] at h1
      | some doc =>
        simp only [hl, hd, hdoc, Bool.and_eq_true, decide_eq_true_eq] at h1
        refine ⟨l, d, rfl, hd, ?_, ?_, h1.1.1, h1.1.2.1⟩
        · intro doc' hdoc'
          injection hdoc' with e
          subst e
          exact h1.2
        · rw [h1.1.2.2]; rfl

/-! ### the two lexers -/

/-- **Where the reader's lexer and the specification's part** (dialect facts: the reader is more liberal than the
format; the specification is silent there, so nothing is demanded).  A command longer than `#mmmcc` (the reader
slices `[1:4]`, `[4:6]` and ignores the rest), a short one (`#1:01` reads as measure `1`, channel empty), a
channel that is not alphanumeric; and the lines both reject: a lone `#` (`IndexError`), two colons, no colon
(`ValueError`).  Each of these lines is in the harness corpus, so the model side of every clause is replayed on
the real code on every run. -/
theorem lexer_dialect_facts :
    (bookLine "#001111:01".toList = none ∧ classify "#001111:01".toList = .ok (.note "001".toList "11".toList "01".toList)) ∧
    (bookLine "#1:01".toList = none ∧ classify "#1:01".toList = .ok (.note "1".toList [] "01".toList)) ∧
    (bookLine "#0011*:01".toList = none ∧ classify "#0011*:01".toList = .ok (.note "001".toList "1*".toList "01".toList)) ∧
    (bookLine "#".toList = none ∧ classify "#".toList = .error (.timing .index)) ∧
    (bookLine "#001:11:01".toList = none ∧ classify "#001:11:01".toList = .error (.timing .value)) ∧
    (bookLine "#00111".toList = none ∧ classify "#00111".toList = .error (.timing .value)) := by
  decide +kernel

/-- … and nowhere else: a line the specification's lexer is silent on is, after trimming, a lone `#`, or a
space-free word `#d…` (d a digit) that is not `#dddcc:data` with digits `ddd`, alphanumeric `cc` and colon-free
data. -/
theorem bookLine_none_iff (raw : Bytes) :
    bookLine raw = none ↔
      ∃ body, trimBlank raw = '#' :: body ∧ body.contains ' ' = false ∧
        (body = [] ∨ ∃ d rest, body = d :: rest ∧ isDigit d = true ∧
          ¬ ∃ m2 m3 c1 c2 data, rest = m2 :: m3 :: c1 :: c2 :: ':' :: data ∧ isDigit m2 = true ∧ isDigit m3 = true ∧
            isAlnum c1 = true ∧ isAlnum c2 = true ∧ data.contains ':' = false) := by
  unfold bookLine
  generalize trimBlank raw = line
  constructor
  · intro h
    cases line with
    | nil => simp at h
    | cons c body =>
      by_cases hc : c = '#'
      rotate_left
      · exfalso
        split at h
        · rename_i heq
          injection heq with h1 _
          exact hc h1
        · cases h
      · subst hc
        refine ⟨body, rfl, ?_⟩
        simp only at h
        by_cases hsp : body.contains ' ' = true
        · rw [if_pos hsp] at h; cases h
        · have hsp0 : body.contains ' ' = false := (Bool.not_eq_true _).mp hsp
          refine ⟨hsp0, ?_⟩
          simp only [hsp0, Bool.false_eq_true, if_false] at h
          cases body with
          | nil => exact Or.inl rfl
          | cons d rest =>
            right
            simp only at h
            by_cases hd : isDigit d = true
            rotate_left
            · simp [hd] at h
            · refine ⟨d, rest, rfl, hd, ?_⟩
              rintro ⟨m2, m3, c1, c2, data, rfl, g2, g3, g4, g5, g6⟩
              simp only [hd, if_true] at h
              rw [if_pos (by rw [g2, g3, g4, g5, g6]; rfl)] at h
              cases h
  · rintro ⟨body, rfl, hsp, hb⟩
    simp only [hsp, Bool.false_eq_true, if_false]
    rcases hb with rfl | ⟨d, rest, rfl, hd, hno⟩
    · rfl
    · simp only [hd, if_true]
      split
      · rename_i m1 m2 m3 c1 c2 data heq
        simp only [List.cons.injEq] at heq
        obtain ⟨rfl, rfl⟩ := heq
        by_cases hg : (isDigit m2 && isDigit m3 && isAlnum c1 && isAlnum c2 && !(data.contains ':')) = true
        · exfalso
          simp only [Bool.and_eq_true, Bool.not_eq_true'] at hg
          exact hno ⟨m2, m3, c1, c2, data, rfl, hg.1.1.1.1, hg.1.1.1.2, hg.1.1.2, hg.1.2, hg.2⟩
        · rw [if_neg hg]
      · rfl

/-! ### header -/

/-- Tie to the source (D43): a file without `#TITLE` / `#ARTIST` / `#PLAYLEVEL` reads those three headers as
empty *bytes* — what the translator observes on the code is what the header model uses. -/
theorem header_defaults_tie :
    Generated.BMS.missingHeaderDefault = "" ∧ Generated.BMS.missingHeaderIsBytes = true := by
  decide +kernel

/-- a missing `#TITLE` / `#ARTIST` / `#PLAYLEVEL` reads as empty bytes, a present one as its value -/
theorem readHeader_title (data : Dict Bytes) (hdr : Header) (h : readHeader data = .ok hdr) :
    hdr.title = (dictGet? data "TITLE".toList).getD [] ∧ hdr.artist = (dictGet? data "ARTIST".toList).getD [] ∧
    hdr.version = (dictGet? data "PLAYLEVEL".toList).getD [] := by
  have hd : Generated.BMS.missingHeaderDefault.toList = [] := by decide +kernel
  unfold readHeader at h
  cases hf : foldlE exbpmStep [] data with
  | error e => simp [hf, bind, Except.bind] at h
  | ok ex =>
    simp only [hf, bind, Except.bind] at h
    split at h
    · cases h
    · split at h
      · cases h
      · injection h with h
        rw [← h, hd]
        exact ⟨rfl, rfl, rfl⟩

/-- **Header fields are retained**: whatever the reader returns carries the header record computed from the
header lines (title, artist, level, `#LNOBJ`, `#BPMxx` table, `#WAVxx` table, initial tempo, every other
key in file order), and that record is the denotation's.  (Both sides use the same lexer: see Spec/BMS.lean.) -/
theorem header_retained (g : Array Rat) (lay lay' : Layout) (lines : List Bytes) (c : Chart) (d : Denotation)
    (hr : read g lay lines = .ok c) (hd : denote lay' lines = some d) : c.header = d.header := by
  unfold read at hr
  unfold denote at hd
  cases hdoc : parseDoc lines with
  | error e => simp [hdoc, bind, Except.bind] at hr
  | ok doc =>
    cases hh : readHeader doc.header with
    | error e => simp [hdoc, hh, bind, Except.bind] at hr
    | ok hdr =>
      simp only [hdoc, hh, bind, Except.bind] at hr hd
      have hc : c.header = hdr := by
        by_cases hb : hdr.bpm0 ≤ 0
        · simp [hb] at hr
        · simp only [hb, if_false] at hr
          split at hr
          · cases hr
          · split at hr
            · cases hr
            · injection hr with hr; rw [← hr]
      have hdh : d.header = hdr := by
        split at hd
        · cases hd
        · injection hd with hd; rw [← hd]
      rw [hc, hdh]

/-- **The metadata header fields are retained** (by the book, not through `readHeader`): for a text with a meaning,
the chart `read` returns has title / artist / level / `#LNOBJ` id equal to the value of the LAST `#TITLE` /
`#ARTIST` / `#PLAYLEVEL` / `#LNOBJ` line of the file (empty bytes when there is none — D43), initial tempo the
decimal value of the last `#BPM` line, and the extended-tempo and sample tables, and the other headers, of the
by-the-book header record. -/
theorem metadata_retained (lay : Layout) (lines : List Bytes) (d : Denotation) (c : Chart)
    (hden : denoteText lay lines = some d) (hr : read defaultGrid lay lines = .ok c) :
    ∃ ls, allSome (lines.map bookLine) = some ls ∧
      let defs := ls.filterMap Line.headerOf
      c.header = d.header ∧
      c.header.title = (lastValue "TITLE".toList defs).getD [] ∧
      c.header.artist = (lastValue "ARTIST".toList defs).getD [] ∧
      c.header.version = (lastValue "PLAYLEVEL".toList defs).getD [] ∧
      c.header.lnEnd = (lastValue "LNOBJ".toList defs).getD [] ∧
      (lastValue "BPM".toList defs).bind parseFloat = some c.header.bpm0 := by
  obtain ⟨hden', doc, hb, hp, hbh, _⟩ := denoteText_eq_denote lay lines d hden
  have hhd := header_retained defaultGrid lay lay lines c d hr hden'
  unfold bookDoc at hb
  cases hl : allSome (lines.map bookLine) with
  | none => simp [hl] at hb
  | some ls =>
    simp only [hl, Option.map_some, Option.some.injEq] at hb
    subst hb
    refine ⟨ls, rfl, ?_⟩
    simp only at hbh ⊢
    have hget : ∀ k, dictGet? (bookTable (ls.filterMap Line.headerOf)) k = lastValue k (ls.filterMap Line.headerOf) :=
      fun k => dictGet?_bookTable _ k
    unfold bookHeader at hbh
    split at hbh
    · cases hbh
    · split at hbh
      · cases hbh
      · split at hbh
        · cases hbh
        · rename_i bpm0 hb0
          injection hbh with hbh
          rw [hhd, ← hbh]
          simp only [hget] at hb0 ⊢
          exact ⟨trivial, trivial, trivial, trivial, trivial, hb0⟩

end Reamber.BMS
