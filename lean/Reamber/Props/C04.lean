/-
C04 — BMS reading places every object at the time its measure position and tempo imply.
Property theorems about the executable reader model `Reamber/Model/BMS.lean` (tied to
reamber/bms/{BMSMap,BMSChannel,BMSMapMeta}.py by the correspondence check and by the generated layout tables)
against the by-the-book denotation `Reamber/Spec/BMS.lean`.  Helper lemmas: `Lemmas/BMS.lean`, `Lemmas/BMSTime.lean`.

Full statement aimed at (kept visible; the theorems below are its proved parts):

  ∀ layout lines d, denote (bookLayout layout) lines = some d →
    lanes in position order in the file (¬D05) → tempo positions grid-compatible (¬D22) →
    ∃ c, read defaultGrid (layoutOf layout) lines = .ok c ∧ c.hits ~ d.hits ∧ c.holds ~ d.holds ∧ c.header = d.header

Proved: the layout tables (`layouts_tie`, `layouts_wellformed`), the slot formula (`slot_position`), the times
(`bms_times_partial`: TimingMap.offsets = timeAt for every constant-metronome tempo list whose re-derived positions
are the original ones), the pairing (`lnobj_pairing_partial`: stack discipline = by-the-book pairing on a lane
in position order), order independence of hits (`hits_order_independent`), header retention (`header_retained`),
and the two counterexamples that make the hypotheses necessary (D05, D22).
Missing for the full statement: the text-level bridge "events of the reader's line loop = objects of `lineObjs`"
for whole files (proved per pair in `slot_position`), `stableArgsort` is a sorting permutation, and
`gridCompatible → re-derived positions are the original ones` (K1, C10's domain; evaluated directly by the driver
as `resnap_stable` on every case instead).
-/
import Reamber.Lemmas.BMS
import Reamber.Lemmas.BMSTime
import Reamber.Props.C10

namespace Reamber.BMS

open Reamber.Timing

/-! ### generated tables -/

/-- Tie to the source: the five layouts the translator read from `BMSChannel` are exactly the by-the-book
tables of the specification (same header channels, same set of (channel, column) pairs), the layout names are the five the property names, and the constants of the model
are the ones in `BMSMap.py`. Re-checked whenever the source changes. -/
def Layout.sameAs (a b : Layout) : Bool :=
  a.timeSig = b.timeSig && a.bpmCh = b.bpmCh && a.exbpmCh = b.exbpmCh && a.lanes.length = b.lanes.length &&
  a.lanes.all (fun p => b.lanes.contains p) && b.lanes.all (fun p => a.lanes.contains p)

theorem layouts_tie :
    Generated.BMS.layoutNames = ["BMS", "BME", "PMS", "PMS_BME", "PMS_5B"] ∧
    (∀ n ∈ Generated.BMS.layoutNames,
      (match layoutOf n, bookLayout n with
       | some a, some b => a.sameAs b
       | _, _ => false) = true) ∧
    Generated.BMS.defaultMetronome = 4 ∧ Generated.BMS.maxKeys = 18 ∧
    Generated.BMS.defaultLayoutRead = "BME" ∧ Generated.BMS.encoding = "shift_jis" := by
  decide +kernel

/-- columns of a layout are exactly `0 … n-1`, each used once; channels are distinct, differ from the three
header channels and fit the reader's `MAX_KEYS` stacks -/
def Layout.wellFormed (l : Layout) : Bool :=
  let chans := l.lanes.map (·.1)
  let cols := l.lanes.map (·.2)
  chans.Nodup && cols.Nodup && cols.all (fun c => decide (c < l.lanes.length)) &&
  (List.range l.lanes.length).all (fun c => cols.contains c) &&
  cols.all (fun c => decide (c < maxKeys)) &&
  !(chans.contains l.timeSig) && !(chans.contains l.bpmCh) && !(chans.contains l.exbpmCh) &&
  chans.all (fun c => c.length = 2)

/-- **The five generated layouts are injective and onto `0..n-1`** (so `channel ↦ column` and the writer's
`column ↦ channel` are inverse bijections, and no lane index overflows the reader's stacks). -/
theorem layouts_wellformed :
    ∀ n ∈ Generated.BMS.layoutNames, ∃ l, layoutOf n = some l ∧ l.wellFormed = true := by
  decide +kernel

/-- on a well-formed layout the two lookups are inverse -/
theorem channelOf_laneOf :
    ∀ n ∈ Generated.BMS.layoutNames, ∀ l, layoutOf n = some l →
      (∀ p ∈ l.lanes, channelOf l p.2 = some p.1 ∧ laneOf l p.1 = some p.2) := by
  decide +kernel

/-! ### slot formula -/

/-- **Object `i` of `n` in measure `m` sits at beat `4·i/n` of that measure**: the reader's event for a
non-empty pair on a lane channel is a note (or LNOBJ marker) of the lane's column at exactly the by-the-book
position of `lineObjs`, and the position is inside the measure. -/
theorem slot_position (ctx : Ctx) (m : Nat) (ch pair : Bytes) (n i col : Nat) (hi : i < n)
    (hp : pair ≠ ['0', '0'] ∧ pair ≠ ['0']) (hch : ch ≠ ctx.layout.bpmCh ∧ ch ≠ ctx.layout.exbpmCh)
    (hl : laneOf ctx.layout ch = some col) :
    pairEvent ctx (m : Int) ch n i pair =
      some (.note col (decide (pair = ctx.lnEnd)) (if pair = ctx.lnEnd then [] else (dictGet? ctx.samples pair).getD [])
        ⟨(m : Int), 4 * ((i : Nat) : Rat) / ((n : Nat) : Rat), none⟩) ∧
    0 ≤ 4 * ((i : Nat) : Rat) / ((n : Nat) : Rat) ∧ 4 * ((i : Nat) : Rat) / ((n : Nat) : Rat) < 4 := by
  have hn : n ≠ 0 := by omega
  have hnq : (0 : Rat) < ((n : Nat) : Rat) := by exact_mod_cast Nat.pos_of_ne_zero hn
  have hiq : ((i : Nat) : Rat) < ((n : Nat) : Rat) := by exact_mod_cast hi
  have hi0 : (0 : Rat) ≤ ((i : Nat) : Rat) := by exact_mod_cast Nat.zero_le i
  refine ⟨?_, ?_, ?_⟩
  · have hdm : defMet = 4 := by decide +kernel
    have hbeat : ((i : Nat) : Rat) / ((n : Nat) : Rat) * defMet = 4 * ((i : Nat) : Rat) / ((n : Nat) : Rat) := by
      rw [hdm]; ring
    unfold pairEvent
    simp only [hp.1, hp.2, hn, hch.1, hch.2, hl, hbeat, decide_false, Bool.or_self, Bool.false_eq_true, if_false]
    by_cases hln : pair = ctx.lnEnd
    · simp [hln]
    · simp [hln]
  · apply div_nonneg <;> linarith
  · rw [div_lt_iff₀ hnq]; linarith

/-! ### times -/

/-- **`TimingMap.offsets` = piecewise-linear integration of beat length** for the tempo list of a 4/4 file.

`cs = c0 :: rest` is what the reader hands to `from_bpm_changes_snap`: ascending, first at measure 0 beat 0,
every change normalised with metronome `M`.  If re-deriving the positions from the millisecond offsets gives
them back (`hst`, the hypothesis D22 violates), then the timing map is the list of `timeAt` change times and
every query at a non-negative position — in any order, with duplicates, for any sorting permutation numpy
chooses — is answered by `timeAt 0 cs`.

`_partial`: the full statement has `gridCompatible (grid 96) cs` in place of `hst` (that implication is K1/C10's)
and `stableArgsort` in place of an arbitrary sorting permutation `σ`. -/
theorem bms_times_partial (g : Array Rat) (M : Rat) (hM : 0 < M) (c0 : BcSnap) (rest : List BcSnap)
    (h0 : c0.snap.measure = 0 ∧ c0.snap.beat = 0) (hgood : ∀ c ∈ c0 :: rest, GoodChange M c) (hch : ChainLe c0 rest)
    (hst : bcsOfBco g (⟨c0.bpm, c0.met, 0⟩ :: bmsCumTimes 0 c0 rest) = .ok (⟨c0.bpm, c0.met, 0⟩ :: bmsCumTimes 0 c0 rest, c0 :: rest)) :
    fromBcSnap 0 (c0 :: rest) false = .ok (⟨c0.bpm, c0.met, 0⟩ :: bmsCumTimes 0 c0 rest) ∧
    ∀ (σ : List Nat) (qs : List Snap), SortsAsc σ qs → (∀ q ∈ qs, 0 ≤ q.measure ∧ 0 ≤ q.beat) →
      offsetsWith g σ (⟨c0.bpm, c0.met, 0⟩ :: bmsCumTimes 0 c0 rest) qs = .ok (qs.map (timeAt 0 (c0 :: rest))) := by
  have hc0 : GoodChange M c0 := hgood c0 (by simp)
  have hrest : ∀ c ∈ rest, GoodChange M c := fun c hc => hgood c (by simp [hc])
  constructor
  · have hsort : sortBcSnap (c0 :: rest) = c0 :: rest := sortBcSnap_chain c0 rest hch
    unfold fromBcSnap
    simp only [hsort, h0.1, h0.2, ne_eq, not_true_eq_false, or_self, if_false, Bool.false_eq_true, false_and]
    unfold fromBcSnapNoReseat
    simp only [hsort, h0.1, h0.2, ne_eq, not_true_eq_false, or_self, if_false]
    rw [bms_cumOffsets_eq M hM rest 0 c0 hc0 hrest hch]
    rfl
  · intro σ qs hσ hq
    apply offsetsWith_order g σ _ qs _ _ (timeAt 0 (c0 :: rest)) hst hσ
    intro q hqm
    have hle : c0.snap.le q = true := by
      have := hq q hqm
      simp only [Snap.le, Snap.lt, Snap.eqv, h0.1, h0.2, Bool.or_eq_true, Bool.and_eq_true, decide_eq_true_eq]
      rcases lt_or_eq_of_le this.1 with h | h
      · exact Or.inl (Or.inl h)
      · rcases lt_or_eq_of_le this.2 with h2 | h2
        · exact Or.inl (Or.inr ⟨h, h2⟩)
        · exact Or.inr ⟨h, h2⟩
    exact lookupOffset_eq_timeAtAux M hM q (hq q hqm).2 rest 0 c0 hc0 hrest hch hle

/-- a tempo change as the 4/4 reader builds it: metronome 4, normalised position, positive tempo -/
def bmsChange (c : BcSnap) : Bool :=
  decide (c.met = 4) && decide (c.snap.met = some 4) && decide (0 < c.bpm) && decide (0 ≤ c.snap.measure) &&
  decide (0 ≤ c.snap.beat) && decide (c.snap.beat < 4)

theorem bmsChange_wf {c : BcSnap} (h : bmsChange c = true) : wfChange c = true ∧ c.met = 4 := by
  simp only [bmsChange, Bool.and_eq_true, decide_eq_true_eq] at h
  obtain ⟨⟨⟨⟨⟨h1, h2⟩, h3⟩, h4⟩, h5⟩, h6⟩ := h
  refine ⟨?_, h1⟩
  simp only [wfChange, Bool.and_eq_true, decide_eq_true_eq, h1, h2, h3, h4, h5, h6, and_true, true_and]
  decide

theorem metronomeOk_of_const (cs : List BcSnap) (h : ∀ c ∈ cs, c.met = 4) : metronomeOk cs = true := by
  induction cs with
  | nil => rfl
  | cons a t ih =>
    cases t with
    | nil => rfl
    | cons b r =>
      simp only [metronomeOk, Bool.and_eq_true, Bool.or_eq_true, decide_eq_true_eq]
      exact ⟨Or.inl ((h a (by simp)).trans (h b (by simp)).symm), ih (fun c hc => h c (by simp [hc]))⟩

/-- **`TimingMap.offsets` on a 4/4 BMS tempo list = piecewise-linear integration of beat length.**

For every ascending list `cs` of reader-built tempo changes that starts at measure 0 beat 0 and is
grid-compatible on the shipped grid of 96 (¬D22) — no re-derivation hypothesis — `from_bpm_changes_snap(0, cs,
reseat=False)` succeeds and `TimingMap.offsets`, exactly as the model runs it (its own `stableArgsort`, the
backwards sweep, the un-permutation), answers every list of queries at non-negative positions (any order,
duplicates) with `timeAt 0 cs`.  (`bms_times_partial`'s hypothesis `hst` discharged by C10's `bcsOfBco_rederive`
through `offsets_correct_fromBcSnap`; the sorting permutation by `stableArgsort_sortsAsc`.) -/
theorem bms_times (cs : List BcSnap) (hall : cs.all bmsChange = true) (hs : sortedSnaps cs = true)
    (h0 : firstAtZero cs = true) (hgc : gridCompatible (grid defaultMaxDiv) cs = true)
    (qs : List Snap) (hq : ∀ q ∈ qs, 0 ≤ q.measure ∧ 0 ≤ q.beat) :
    ∃ tm, fromBcSnap 0 cs false = .ok tm ∧ offsets defaultGrid tm qs = .ok (qs.map (timeAt 0 cs)) := by
  have hwf : wfChanges cs = true := by
    simp only [wfChanges, List.all_eq_true] at hall ⊢
    exact fun c hc => (bmsChange_wf (hall c hc)).1
  have hm : metronomeOk cs = true :=
    metronomeOk_of_const cs (fun c hc => (bmsChange_wf (List.all_eq_true.mp hall c hc)).2)
  have hqok : ∀ q ∈ qs, queryOk cs q = true := by
    intro q hqm
    cases cs with
    | nil => simp [firstAtZero] at h0
    | cons c rest =>
      simp only [firstAtZero, Bool.and_eq_true, decide_eq_true_eq] at h0
      have := hq q hqm
      simp only [queryOk, Snap.le, Snap.lt, Snap.eqv, h0.1, h0.2, Bool.and_eq_true, Bool.or_eq_true, decide_eq_true_eq]
      refine ⟨?_, this.2⟩
      rcases lt_or_eq_of_le this.1 with h | h
      · exact Or.inl (Or.inl h)
      · rcases lt_or_eq_of_le this.2 with h2 | h2
        · exact Or.inl (Or.inr ⟨h, h2⟩)
        · exact Or.inr ⟨h, h2⟩
  have hgc' : gridCompatible defaultGrid.toList cs = true := by simpa [defaultGrid] using hgc
  obtain ⟨tm, h1, h2⟩ := offsets_correct_fromBcSnap defaultGrid (gridOK_grid (by decide)) 0 cs hwf hs h0 hgc' hm
    (stableArgsort Snap.lt qs) qs (stableArgsort_sortsAsc qs) hqok
  exact ⟨tm, h1, h2⟩

/-- non-vacuity of `bms_times`: header tempo, a change inside measure 1, a change on measure line 3 -/
example :
    let cs : List BcSnap := [⟨120, 4, ⟨0, 0, some 4⟩⟩, ⟨60, 4, ⟨1, 3 / 2, some 4⟩⟩, ⟨133, 4, ⟨3, 0, some 4⟩⟩]
    cs.all bmsChange = true ∧ sortedSnaps cs = true ∧ firstAtZero cs = true := by
  decide +kernel

/-- non-vacuity of `bms_times_partial`: a two-change tempo list satisfying every hypothesis (grid 4) -/
example :
    let c0 : BcSnap := ⟨120, 4, ⟨0, 0, some 4⟩⟩
    let rest : List BcSnap := [⟨60, 4, ⟨1, 2, some 4⟩⟩]
    (∀ c ∈ c0 :: rest, GoodChange 4 c) ∧ ChainLe c0 rest ∧
    bcsOfBco (grid 4).toArray (⟨c0.bpm, c0.met, 0⟩ :: bmsCumTimes 0 c0 rest) = .ok (⟨c0.bpm, c0.met, 0⟩ :: bmsCumTimes 0 c0 rest, c0 :: rest) := by
  refine ⟨?_, ?_, ?_⟩
  · intro c hc
    simp only [List.mem_cons, List.not_mem_nil, or_false] at hc
    rcases hc with rfl | rfl <;> (unfold GoodChange; decide +kernel)
  · simp only [ChainLe, and_true]; decide +kernel
  · decide +kernel

/-- **D22 (mechanism, on the grid of 4).** A tempo object at slot 1/5 of measure 1 is not on the snap grid: the
timing map re-derives its position as beat 3/4 instead of 4/5, and the note at measure 2 is read 50 ms late
(5650 instead of 5600).  `hst` of `bms_times_partial` is what fails.  The instance on the shipped grid of 96
(slots 1/64 and 1/28) is the committed witness replayed on every run. -/
theorem bms_incompatible_tempo_counterexample :
    let lines := ["#BPM 120".toList, "#00103:003C000000".toList, "#00211:01".toList]
    (match layoutOf "BME", bookLayout "BME" with
     | some l, some b =>
       (match read (grid 4).toArray l lines, denote b lines with
        | .ok c, some d =>
          decide (c.hits.map (·.offset) = [5650] ∧ d.hits.map (·.offset) = [5600]) && !(gridCompatible (grid 4) d.tempo)
        | _, _ => false)
     | _, _ => false) = true := by
  decide +kernel

/-! ### long notes -/

/-- **LNOBJ pairing.** Lane `k` of the reader, fed the objects `os` of that lane in file order (`hev`), when
the file order is the position order (`hord` — what D05 lacks): if the by-the-book pairing of the lane is
defined, the reader's stacks hold exactly its hits and holds, in the same order.

`_partial`: `hev` (the lane's events are the lane's objects) is proved per pair (`slot_position`), not for
whole files. -/
theorem lnobj_pairing_partial (lnobj : Option Bytes) (lnEnd : Bytes) (sampleOf : Bytes → Bytes) (k : Nat)
    (evs : List Ev) (st st' : St) (os : List Obj) (H : List SHit) (L : List SHold)
    (hrun : foldlE applyEv st evs = .ok st') (hinit : st.lanes k = ⟨[], []⟩)
    (hev : laneEvs k evs = os.map (objEv lnEnd sampleOf))
    (hln : ∀ o ∈ os, (some o.id = lnobj ↔ o.id = lnEnd))
    (hord : sortObjs os = os)
    (hspec : pairLane lnobj sampleOf k none (sortObjs os) = some (H, L)) :
    (st'.lanes k).hits.reverse = H.map SHit.toHitS ∧ (st'.lanes k).holds.reverse = L.map SHold.toHoldS := by
  have h1 := lanes_independent k evs st st' hrun
  rw [hord] at hspec
  have h2 := pairing_invariant lnobj lnEnd sampleOf k os hln none [] [] H L hspec
  rw [hinit, hev] at h1
  simp only [Option.toList, List.map_nil, List.append_nil] at h2
  rw [h2] at h1
  injection h1 with h1
  rw [← h1]
  simp

/-- non-vacuity of `lnobj_pairing_partial` / `pairing_invariant`: head, tail, hit in position order -/
example :
    let os : List Obj := [⟨⟨1, 0, some 4⟩, "01".toList⟩, ⟨⟨1, 2, some 4⟩, "ZZ".toList⟩, ⟨⟨2, 0, some 4⟩, "02".toList⟩]
    sortObjs os = os ∧ (∀ o ∈ os, (some o.id = some "ZZ".toList ↔ o.id = "ZZ".toList)) ∧
    pairLane (some "ZZ".toList) (fun _ => []) 3 none (sortObjs os) =
      some ([⟨3, [], ⟨2, 0, some 4⟩⟩], [⟨3, [], ⟨1, 0, some 4⟩, ⟨1, 2, some 4⟩⟩]) := by
  refine ⟨by decide +kernel, ?_, by decide +kernel⟩
  intro o _
  simp

/-- **D05.** With the two lines of a long note in the "wrong" file order the reader raises
"Failed to match LN Tail" although the text has a by-the-book meaning (one hold from measure 1 to measure 2). -/
theorem lnobj_unordered_counterexample :
    let lines := ["#BPM 120".toList, "#LNOBJ ZZ".toList, "#00211:ZZ".toList, "#00111:01".toList]
    (match layoutOf "BME" with
     | some l => (match read (grid 4).toArray l lines with
                  | .error .lnTail => true
                  | _ => false)
     | none => false) = true ∧
    (match bookLayout "BME" with
     | some l => (match denote l lines with
                  | some d => decide (d.hits = [] ∧ d.holds = [⟨1, [], 2000, 2000⟩])
                  | none => false)
     | none => false) = true := by
  decide +kernel

/-! ### order independence -/

/-- **Hits do not depend on the order of the lines.** For two arrangements of the same data lines, when no
event is an `#LNOBJ` marker or a failure, the reader ends with the same hits in every lane up to order. -/
theorem hits_order_independent (ctx : Ctx) (n₁ n₂ : List (Bytes × Bytes × Bytes)) (st st₁ st₂ : St)
    (hperm : n₁.Perm n₂)
    (hnt : ∀ e ∈ events ctx n₁, ∀ c t s p, e = .note c t s p → t = false)
    (h₁ : foldlE applyEv st (events ctx n₁) = .ok st₁) (h₂ : foldlE applyEv st (events ctx n₂) = .ok st₂) :
    ∀ k, ((st₁.lanes k).hits).Perm ((st₂.lanes k).hits) ∧ (st₁.lanes k).holds = (st₂.lanes k).holds := by
  intro k
  have hp := events_perm ctx hperm
  have hnt₂ : ∀ e ∈ events ctx n₂, ∀ c t s p, e = .note c t s p → t = false :=
    fun e he => hnt e (hp.mem_iff.mpr he)
  have key : ∀ (evs : List Ev), (∀ e ∈ evs, ∀ c t s p, e = .note c t s p → t = false) → ∀ e ∈ laneEvs k evs, e.1 = false := by
    intro evs hh e he
    simp only [laneEvs, List.mem_filterMap] at he
    obtain ⟨ev, hev, hval⟩ := he
    cases ev with
    | bad _ => simp at hval
    | tempo _ => simp at hval
    | note c t s p =>
      by_cases hc : c = k
      · simp only [hc, if_true, Option.some.injEq] at hval
        rw [← hval]
        exact hh _ hev c t s p rfl
      · simp [hc] at hval
  have e₁ := lanes_independent k _ st st₁ h₁
  have e₂ := lanes_independent k _ st st₂ h₂
  rw [laneFold_no_tail _ _ (key _ hnt)] at e₁
  rw [laneFold_no_tail _ _ (key _ hnt₂)] at e₂
  injection e₁ with e₁
  injection e₂ with e₂
  rw [← e₁, ← e₂]
  refine ⟨?_, rfl⟩
  apply List.Perm.append_right
  exact (List.reverse_perm _).trans (((laneEvs_perm k hp).map _).trans (List.reverse_perm _).symm)

/-! ### header -/

/-- **Header fields are retained**: whatever the reader returns carries the header record computed from the
header lines (title, artist, level, `#LNOBJ`, `#BPMxx` table, `#WAVxx` table, initial tempo, every other
key in file order), and that record is the denotation's.  (Both sides use the same lexer: see Spec/BMS.lean.) -/
theorem header_retained (g : Array Rat) (lay lay' : Layout) (lines : List Bytes) (c : Chart) (d : Denotation)
    (hr : read g lay lines = .ok c) (hd : denote lay' lines = some d) : c.header = d.header := by
  unfold read at hr
  unfold denote at hd
  cases hdoc : parseDoc lines with
  | error e => simp [hdoc, bind, Except.bind] at hr
  | ok doc =>
    cases hh : readHeader doc.header with
    | error e => simp [hdoc, hh, bind, Except.bind] at hr
    | ok hdr =>
      simp only [hdoc, hh, bind, Except.bind] at hr hd
      have hc : c.header = hdr := by
        by_cases hb : hdr.bpm0 ≤ 0
        · simp [hb] at hr
        · simp only [hb, if_false] at hr
          split at hr
          · cases hr
          · split at hr
            · cases hr
            · injection hr with hr; rw [← hr]
      have hdh : d.header = hdr := by
        split at hd
        · cases hd
        · injection hd with hd; rw [← hd]
      rw [hc, hdh]

end Reamber.BMS
