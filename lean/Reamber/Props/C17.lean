/-
C17 — Full-LN generation keeps every note and fills gaps by the stated rule.

Property theorems about the executable model `Reamber/Model/FullLN.lean` (tied to
reamber/algorithms/generate/full_ln.py, Map.stack and TimedList.from_dict by the correspondence check of
`harness/props/c17.py` on every run) against the declarative `Spec` of `Reamber/Spec/FullLN.lean`.

Main statement (`fullLn_spec`): for EVERY sorting function (any sorted permutation — numpy's quicksort is not
stable), every gap and threshold and every chart whose hit list carries no `length` values (a DOMAIN hypothesis — the library never builds
such a list; `stray_length_counterexample` shows why it is needed; `fullLn_spec_stacked` says what the code does for EVERY chart), the hits and holds
of the model's result satisfy `Spec` with respect to the chart's hits and holds (kind = the list a note lives in), and the further note lists (StepMania mines, rolls, …) and all other
parts are untouched.  (Before the repairs of D23 and D24 this needed two hypotheses; the section `PreFix`
keeps the two defects as theorems about the code as it was, which is what `harness/mutants/fixed/D23.patch`
and `D24.patch` re-introduce.)  Everything the property lists follows from `Spec` alone (so it also holds for
every implementation output accepted by `specB`, which is proved equivalent to `Spec`: `specB_iff`):
`Spec.conservation`, `Spec.length_eq`, `ColRule.nonlast` / `ColRule.last` / `expected_hold` / `expected_hit`
(the rule), `Spec.last_kept`, `Spec.no_overlap`.  `fullLnRows_eq_of_same_last`: the tie order matters only
through the last note of a column.
-/
import Reamber.Lemmas.FullLN
import Reamber.Generated.FullLN

namespace Reamber.FullLN

/-- Tie to the source: default arguments of `full_ln`, the lists its stack call picks up per map class (read
from the call as written, `m.stack((type(m.hits), type(m.holds)))`: exactly hits and holds), and that
`from_dict` of every game's hit/hold class builds the lists — as read from the code by
`harness/translators/fullln.py`.  Re-checked whenever they change. -/
theorem consts_tie :
    defaultGap = Generated.FullLN.defaultGap ∧ defaultThres = Generated.FullLN.defaultThres ∧
    games.map (fun g => (g.name, g.stackedLists, g.fromDictFills)) = Generated.FullLN.games := by
  decide +kernel

/-- what is assumed of `sort_values(["offset"])`: *some* permutation in ascending order of time -/
structure SortsByOffset (sortF : List Row → List Row) : Prop where
  perm : ∀ l, (sortF l).Perm l
  sorted : ∀ l, SortedByOffset (sortF l)

/-- the model's own (stable) sort is one -/
theorem sortByOffset_sorts : SortsByOffset sortByOffset := ⟨sortByOffset_perm, sortByOffset_sorted⟩

/-! ### the produced rows satisfy the statement, for every sorted arrangement of the stacked frame -/

theorem fullLnRows_spec (gap thr : Rat) (inp arr : List Row) (hp : arr.Perm inp) (hs : SortedByOffset arr) :
    Spec gap thr inp (fullLnRows gap thr arr) := by
  intro c
  refine ⟨inColumn c arr, hp.filter _, List.Pairwise.filter _ hs, applyRule gap thr (inColumn c arr), ?_,
    colRule_applyRule gap thr _⟩
  rw [inColumn_fullLnRows]

theorem Spec.of_perm_out {gap thr : Rat} {inp out out' : List Row} (h : Spec gap thr inp out)
    (hp : out'.Perm out) : Spec gap thr inp out' := by
  intro c
  obtain ⟨col, h1, h2, o, h3, h4⟩ := h c
  exact ⟨col, h1, h2, o, h3.trans (hp.filter _).symm, h4⟩

/-! ### from `Spec` alone: conservation -/

theorem count_map_key_inColumn (t : Rat) (c : Int) (l : List Row) :
    ((inColumn c l).map key).count (t, c) = (l.map key).count (t, c) := by
  induction l with
  | nil => simp [inColumn]
  | cons r rs ih =>
    simp only [inColumn] at ih ⊢
    by_cases hc : r.column = c
    · have : (r.column == c) = true := by simpa using hc
      simp only [List.filter_cons, this, if_true, List.map_cons, List.count_cons, ih]
    · have hb : (r.column == c) = false := by simpa using hc
      have hk : (key r == (t, c)) = false := by
        simp only [key, beq_eq_false_iff_ne, ne_eq, Prod.mk.injEq, not_and]
        intro _; exact hc
      simp only [List.filter_cons, hb, List.map_cons, List.count_cons, hk]
      simpa using ih

/-- **conservation**: the result has one note per input note at the same time and column -/
theorem Spec.conservation {gap thr : Rat} {inp out : List Row} (h : Spec gap thr inp out) :
    (out.map key).Perm (inp.map key) := by
  rw [List.perm_iff_count]
  rintro ⟨t, c⟩
  obtain ⟨col, h1, _, o, h3, h4⟩ := h c
  rw [← count_map_key_inColumn t c out, ← count_map_key_inColumn t c inp]
  have ho := colRule_unique gap thr col o h4
  have hk : ((inColumn c out).map key).Perm ((inColumn c inp).map key) := by
    have e1 : ((inColumn c out).map key).Perm (o.map key) := (h3.map key).symm
    have e2 : o.map key = col.map key := by rw [ho, applyRule_map_key]
    exact e1.trans (e2 ▸ (h1.map key))
  exact hk.count_eq _

/-- the note count is preserved -/
theorem Spec.length_eq {gap thr : Rat} {inp out : List Row} (h : Spec gap thr inp out) :
    out.length = inp.length := by
  have := h.conservation.length_eq
  simpa using this

/-! ### the rule, position by position (what `ColRule` says, spelled out) -/

/-- every note but the last becomes what `expected` says with respect to the next note of its column -/
theorem ColRule.nonlast {gap thr : Rat} {col o : List Row} (h : ColRule gap thr col o) (i : Nat)
    (hi : i + 1 < col.length) :
    o[i]? = some (expected gap thr (col[i]'(by omega)) (col[i+1]'hi).offset) := by
  rw [h.2 i (by omega)]
  simp [expectedAt, List.getElem?_eq_getElem hi, List.getElem?_eq_getElem (show i < col.length by omega)]

/-- the last note of the column keeps its kind and length -/
theorem ColRule.last {gap thr : Rat} {col o : List Row} (h : ColRule gap thr col o) :
    o.getLast? = col.getLast? := by
  rw [List.getLast?_eq_getElem?, List.getLast?_eq_getElem?, h.1]
  cases hc : col.length with
  | zero =>
    have : o.length = 0 := by rw [h.1, hc]
    simp [List.length_eq_zero_iff.mp this, List.length_eq_zero_iff.mp hc]
  | succ n =>
    have hn : n < col.length := by omega
    rw [show n + 1 - 1 = n by omega, h.2 n hn]
    have hnone : col[n+1]? = none := List.getElem?_eq_none (by omega)
    simp [expectedAt, List.getElem?_eq_getElem hn, hnone]

/-- a generated hold ends exactly `gap` before the next note and is at least `thr` long … -/
theorem expected_hold {gap thr : Rat} {r : Row} {n l : Rat} (h : (expected gap thr r n).length = some l) :
    r.offset + l + gap = n ∧ thr ≤ l := by
  unfold expected at h
  split at h
  · rename_i hle
    have : n - r.offset - gap = l := by simpa using h
    subst this
    refine ⟨?_, hle⟩
    grind
  · simp at h

/-- … and a hit is produced exactly when that would leave less than the threshold -/
theorem expected_hit {gap thr : Rat} {r : Row} {n : Rat} :
    (expected gap thr r n).length = none ↔ n - r.offset - gap < thr := by
  unfold expected
  split
  · rename_i hle
    simp only [reduceCtorEq, false_iff]
    exact Rat.not_lt.mpr hle
  · rename_i hle
    simp only [true_iff]
    exact Rat.not_le.mp hle

/-! ### from `Spec` alone: the last note of every column survives unchanged -/

theorem sorted_le_getLast {col : List Row} (hs : SortedByOffset col) (hne : col ≠ []) :
    ∀ x ∈ col, x.offset ≤ (col.getLast hne).offset := by
  intro x hx
  have hsplit := List.dropLast_concat_getLast hne
  rw [← hsplit] at hx hs
  rcases List.mem_append.mp hx with hx | hx
  · exact (List.pairwise_append.mp hs).2.2 x hx _ (by simp)
  · have : x = col.getLast hne := by simpa using hx
    rw [this]; exact Rat.le_refl

/-- **last_kept**: in every non-empty column some input note of the latest time is in the result unchanged -/
theorem Spec.last_kept {gap thr : Rat} {inp out : List Row} (h : Spec gap thr inp out) (c : Int)
    (hne : inColumn c inp ≠ []) :
    ∃ r ∈ inp, r.column = c ∧ (∀ r' ∈ inp, r'.column = c → r'.offset ≤ r.offset) ∧ r ∈ out := by
  obtain ⟨col, h1, h2, o, h3, h4⟩ := h c
  have hcol : col ≠ [] := by
    intro he; subst he
    exact hne (List.perm_nil.mp h1.symm ▸ rfl)
  have hlast : col.getLast hcol ∈ col := List.getLast_mem hcol
  have hin : col.getLast hcol ∈ inColumn c inp := h1.mem_iff.mp hlast
  have hin' := List.mem_filter.mp hin
  refine ⟨col.getLast hcol, hin'.1, by simpa using hin'.2, ?_, ?_⟩
  · intro r' hr' hc'
    have : r' ∈ inColumn c inp := List.mem_filter.mpr ⟨hr', by simpa using hc'⟩
    exact sorted_le_getLast h2 hcol r' (h1.mem_iff.mpr this)
  · have ho : o.getLast? = some (col.getLast hcol) := by
      rw [h4.last, List.getLast?_eq_some_getLast hcol]
    have : col.getLast hcol ∈ o := List.mem_of_getLast? ho
    exact (List.mem_filter.mp (h3.mem_iff.mp this)).1

/-! ### from `Spec` alone: no hold reaches a later note of its column -/

theorem sorted_index_lt {col : List Row} (hs : SortedByOffset col) {i j : Nat} (hi : i < col.length)
    (hj : j < col.length) (hlt : col[i].offset < col[j].offset) : i < j := by
  by_cases h : i < j
  · exact h
  · exfalso
    have hji : j ≤ i := by omega
    rcases Nat.lt_or_eq_of_le hji with hji | hji
    · have := List.pairwise_iff_getElem.mp hs j i hj hi hji
      exact absurd hlt (Rat.not_lt.mpr this)
    · subst hji
      exact absurd hlt (Rat.lt_irrefl)

theorem applyRule_getElem_offset (gap thr : Rat) (col : List Row) (i : Nat) (hi : i < col.length) :
    ((applyRule gap thr col)[i]'(by rw [applyRule_length]; exact hi)).offset = col[i].offset := by
  have hk := applyRule_map_key gap thr col
  have h1 : ((applyRule gap thr col).map key)[i]? = (col.map key)[i]? := by rw [hk]
  simp only [List.getElem?_map] at h1
  rw [List.getElem?_eq_getElem hi, List.getElem?_eq_getElem (by rw [applyRule_length]; exact hi)] at h1
  simp only [Option.map_some, Option.some.injEq, key, Prod.mk.injEq] at h1
  exact h1.1

/-- **no_overlap**: a hold of the result ends at least `gap` before every later note of its column
(so for `gap ≥ 0` it does not reach it, and for `gap > 0` it stays strictly before it) -/
theorem Spec.no_overlap {gap thr : Rat} {inp out : List Row} (h : Spec gap thr inp out)
    (a b : Row) (ha : a ∈ out) (hb : b ∈ out) (hcol : a.column = b.column) (hlt : a.offset < b.offset)
    (l : Rat) (hl : a.length = some l) : a.offset + l + gap ≤ b.offset := by
  obtain ⟨col, _, h2, o, h3, h4⟩ := h a.column
  have ho := colRule_unique gap thr col o h4
  subst ho
  have ha' : a ∈ applyRule gap thr col := h3.mem_iff.mpr (List.mem_filter.mpr ⟨ha, by simp⟩)
  have hb' : b ∈ applyRule gap thr col := h3.mem_iff.mpr (List.mem_filter.mpr ⟨hb, by simp [hcol]⟩)
  obtain ⟨i, hi, hai⟩ := List.getElem_of_mem ha'
  obtain ⟨j, hj, hbj⟩ := List.getElem_of_mem hb'
  have hi' : i < col.length := by rw [applyRule_length] at hi; exact hi
  have hj' : j < col.length := by rw [applyRule_length] at hj; exact hj
  have hoi := applyRule_getElem_offset gap thr col i hi'
  have hoj := applyRule_getElem_offset gap thr col j hj'
  rw [hai] at hoi
  rw [hbj] at hoj
  have hij : i < j := sorted_index_lt h2 hi' hj' (by rw [← hoi, ← hoj]; exact hlt)
  have hi1 : i + 1 < col.length := by omega
  have hrule := h4.nonlast i hi1
  rw [List.getElem?_eq_getElem hi, hai] at hrule
  have hrule' : a = expected gap thr col[i] (col[i+1]).offset := by simpa using hrule
  have hlen : (expected gap thr col[i] (col[i+1]).offset).length = some l := by rw [← hrule']; exact hl
  have hex := (expected_hold hlen).1
  have hnext : (col[i+1]).offset ≤ col[j].offset := by
    rcases Nat.lt_or_eq_of_le (show i + 1 ≤ j by omega) with hlt' | heq
    · exact List.pairwise_iff_getElem.mp h2 (i+1) j hi1 hj' hlt'
    · subst heq; exact Rat.le_refl
  rw [← hoi] at hex
  rw [hex, hoj]
  exact hnext

/-! ### the executable check is sound for `Spec` -/

theorem sortedB_sound (l : List Row) (h : sortedB l = true) : SortedByOffset l := by
  induction l with
  | nil => simp [SortedByOffset]
  | cons a t ih =>
    cases t with
    | nil => simp [SortedByOffset]
    | cons b t' =>
      simp only [sortedB, Bool.and_eq_true, decide_eq_true_eq] at h
      have ht := ih h.2
      refine List.pairwise_cons.mpr ⟨?_, ht⟩
      intro z hz
      rcases List.mem_cons.mp hz with rfl | hz
      · exact h.1
      · exact Rat.le_trans h.1 ((List.pairwise_cons.mp ht).1 z hz)

theorem colSpecB_sound (gap thr : Rat) (I O : List Row) (h : colSpecB gap thr I O = true) :
    ∃ col, col.Perm I ∧ SortedByOffset col ∧ ∃ o, o.Perm O ∧ ColRule gap thr col o := by
  unfold colSpecB at h
  split at h
  · rename_i hI
    have hI' : I = [] := by simpa using hI
    have hO' : O = [] := by simpa using h
    subst hI' hO'
    exact ⟨[], List.Perm.refl _, by simp [SortedByOffset], [], List.Perm.refl _, colRule_applyRule gap thr []⟩
  · obtain ⟨arr, _, harr⟩ := List.any_eq_true.mp h
    simp only [Bool.and_eq_true, List.isPerm_iff] at harr
    exact ⟨arr, harr.1.2, sortedB_sound arr harr.1.1, applyRule gap thr arr, harr.2, colRule_applyRule gap thr arr⟩

theorem mem_dedupInt (l : List Int) : ∀ c, c ∈ dedupInt l ↔ c ∈ l := by
  induction l with
  | nil => simp [dedupInt]
  | cons d ds ih =>
    intro c
    have hstep : dedupInt (d :: ds) = if (dedupInt ds).contains d then dedupInt ds else d :: dedupInt ds := by
      simp [dedupInt]
    rw [hstep]
    split
    · rename_i hmem
      have hd : d ∈ ds := (ih d).mp (by simpa using hmem)
      rw [ih c]
      constructor
      · intro h; exact List.mem_cons_of_mem _ h
      · intro h
        rcases List.mem_cons.mp h with rfl | h
        · exact hd
        · exact h
    · simp [ih c]

/-- **`specB` is sound**: an output accepted by the executable check satisfies the statement -/
theorem specB_sound (gap thr : Rat) (inp out : List Row) (h : specB gap thr inp out = true) :
    Spec gap thr inp out := by
  intro c
  by_cases hc : c ∈ (inp ++ out).map (·.column)
  · have := List.all_eq_true.mp h c ((mem_dedupInt _ c).mpr hc)
    exact colSpecB_sound gap thr _ _ this
  · have h1 : inColumn c inp = [] := by
      simp only [inColumn, List.filter_eq_nil_iff]
      intro r hr hrc
      exact hc (List.mem_map.mpr ⟨r, List.mem_append_left _ hr, by simpa using hrc⟩)
    have h2 : inColumn c out = [] := by
      simp only [inColumn, List.filter_eq_nil_iff]
      intro r hr hrc
      exact hc (List.mem_map.mpr ⟨r, List.mem_append_right _ hr, by simpa using hrc⟩)
    rw [h1, h2]
    exact ⟨[], List.Perm.refl _, by simp [SortedByOffset], [], List.Perm.refl _, colRule_applyRule gap thr []⟩

/-! ### … and complete -/

theorem sortedB_complete (l : List Row) (h : SortedByOffset l) : sortedB l = true := by
  induction l with
  | nil => rfl
  | cons a t ih =>
    cases t with
    | nil => rfl
    | cons b t' =>
      have hc := List.pairwise_cons.mp h
      simp only [sortedB, Bool.and_eq_true, decide_eq_true_eq]
      exact ⟨hc.1 b (by simp), ih hc.2⟩

theorem expected_congr_key (gap thr : Rat) (a b : Row) (n : Rat) (h : key a = key b) :
    expected gap thr a n = expected gap thr b n := by
  cases a with
  | mk ao ac al =>
    cases b with
    | mk bo bc bl =>
      simp only [key, Prod.mk.injEq] at h
      obtain ⟨h1, h2⟩ := h
      subst h1 h2
      simp [expected]

/-- the rule looks at a note's time and column only, and at the whole note only for the last one -/
theorem applyRule_append_congr (gap thr : Rat) (x : Row) :
    ∀ (A C : List Row), A.map key = C.map key → applyRule gap thr (A ++ [x]) = applyRule gap thr (C ++ [x]) := by
  intro A
  induction A with
  | nil =>
    intro C h
    cases C with
    | nil => rfl
    | cons c C' => simp at h
  | cons a A' ih =>
    intro C h
    cases C with
    | nil => simp at h
    | cons c C' =>
      simp only [List.map_cons, List.cons.injEq] at h
      obtain ⟨hk, ht⟩ := h
      cases A' with
      | nil =>
        cases C' with
        | nil =>
          simp only [List.cons_append, List.nil_append, applyRule]
          rw [expected_congr_key gap thr a c _ hk]
        | cons c2 C'' => simp at ht
      | cons a2 A'' =>
        cases C' with
        | nil => simp at ht
        | cons c2 C'' =>
          have hk2 : key a2 = key c2 := by
            simp only [List.map_cons, List.cons.injEq] at ht
            exact ht.1
          have ho : a2.offset = c2.offset := by
            have := congrArg Prod.fst hk2
            simpa [key] using this
          have := ih (c2 :: C'') ht
          simp only [List.cons_append, applyRule] at this ⊢
          rw [this, ho, expected_congr_key gap thr a c _ hk]

theorem sorted_keys_eq (c : Int) (A C : List Row) (hA : ∀ r ∈ A, r.column = c) (hC : ∀ r ∈ C, r.column = c)
    (sA : SortedByOffset A) (sC : SortedByOffset C) (hp : A.Perm C) : A.map key = C.map key := by
  apply List.Perm.eq_of_pairwise (le := fun (a b : Rat × Int) => a.1 ≤ b.1)
  · intro a b ha hb h1 h2
    obtain ⟨ra, hra, rfl⟩ := List.mem_map.mp ha
    obtain ⟨rb, hrb, rfl⟩ := List.mem_map.mp hb
    simp only [key] at h1 h2 ⊢
    rw [hA ra hra, hC rb hrb, Rat.le_antisymm h1 h2]
  · exact List.pairwise_map.mpr sA
  · exact List.pairwise_map.mpr sC
  · exact hp.map key

/-- completeness of the column check: any processing order allowed by the statement is matched by a candidate -/
theorem colSpecB_complete (gap thr : Rat) (c : Int) (I O : List Row) (hI : ∀ r ∈ I, r.column = c)
    (h : ∃ col, col.Perm I ∧ SortedByOffset col ∧ ∃ o, o.Perm O ∧ ColRule gap thr col o) :
    colSpecB gap thr I O = true := by
  obtain ⟨col, h1, h2, o, h3, h4⟩ := h
  have ho := colRule_unique gap thr col o h4
  subst ho
  unfold colSpecB
  split
  · rename_i hI'
    have : I = [] := by simpa using hI'
    subst this
    have : col = [] := List.perm_nil.mp h1
    subst this
    have : O = [] := by
      have := h3.symm
      simpa [applyRule] using this
    simp [this]
  · rename_i hI'
    have hIne : I ≠ [] := by simpa using hI'
    have hcolne : col ≠ [] := by
      intro he; subst he; exact hIne (List.perm_nil.mp h1.symm)
    -- the last note of the given processing order
    let x := col.getLast hcolne
    have hsplit : col.dropLast ++ [x] = col := List.dropLast_concat_getLast hcolne
    let s := sortByOffset I
    have hsI : s.Perm I := sortByOffset_perm I
    have hscol : s.Perm col := hsI.trans h1.symm
    have hsne : s ≠ [] := by
      intro he
      have : col = [] := List.perm_nil.mp (he ▸ hscol).symm
      exact hcolne this
    have hss : SortedByOffset s := sortByOffset_sorted I
    have hxs : x ∈ s := hscol.mem_iff.mpr (List.getLast_mem hcolne)
    have hlast_mem : s.getLast hsne ∈ col := hscol.mem_iff.mp (List.getLast_mem hsne)
    have hmax : x.offset = (s.getLast hsne).offset :=
      Rat.le_antisymm (sorted_le_getLast hss hsne x hxs) (sorted_le_getLast h2 hcolne _ hlast_mem)
    have hcand : s.erase x ++ [x] ∈ candidates I := by
      unfold candidates
      simp only
      rw [List.getLast?_eq_some_getLast hsne]
      simp only
      refine List.mem_map.mpr ⟨x, List.mem_filter.mpr ⟨hxs, by simpa using hmax⟩, rfl⟩
    have hperm_s : (s.erase x ++ [x]).Perm s :=
      (List.perm_append_comm).trans (List.perm_cons_erase hxs).symm
    have hsorted : SortedByOffset (s.erase x ++ [x]) := by
      refine List.pairwise_append.mpr ⟨List.Pairwise.sublist List.erase_sublist hss, by simp, ?_⟩
      intro a ha b hb
      have hb' : b = x := by simpa using hb
      subst hb'
      rw [hmax]
      exact sorted_le_getLast hss hsne a (List.erase_sublist.subset ha)
    have hAC : (s.erase x).Perm col.dropLast := by
      have : (s.erase x ++ [x]).Perm (col.dropLast ++ [x]) := by rw [hsplit]; exact hperm_s.trans hscol
      exact (List.perm_append_right_iff [x]).mp this
    have hcolc : ∀ r ∈ col, r.column = c := fun r hr => hI r (h1.mem_iff.mp hr)
    have hkeys : (s.erase x).map key = col.dropLast.map key := by
      apply sorted_keys_eq c
      · intro r hr; exact hI r (hsI.mem_iff.mp (List.erase_sublist.subset hr))
      · intro r hr; exact hcolc r (List.dropLast_subset col hr)
      · exact List.Pairwise.sublist List.erase_sublist hss
      · exact List.Pairwise.sublist (List.dropLast_sublist col) h2
      · exact hAC
    have happly : applyRule gap thr (s.erase x ++ [x]) = applyRule gap thr col := by
      rw [← hsplit]
      exact applyRule_append_congr gap thr x _ _ hkeys
    refine List.any_eq_true.mpr ⟨s.erase x ++ [x], hcand, ?_⟩
    simp only [Bool.and_eq_true, List.isPerm_iff]
    exact ⟨⟨sortedB_complete _ hsorted, hperm_s.trans hsI⟩, happly ▸ h3⟩

/-- **`specB` is complete**: every output the statement allows is accepted (no false alarm from the check) -/
theorem specB_complete (gap thr : Rat) (inp out : List Row) (h : Spec gap thr inp out) :
    specB gap thr inp out = true := by
  unfold specB
  rw [List.all_eq_true]
  intro c _
  refine colSpecB_complete gap thr c (inColumn c inp) (inColumn c out) ?_ (h c)
  intro r hr
  simpa [inColumn] using (List.mem_filter.mp hr).2

/-- the executable check evaluated on the implementation's output IS the statement -/
theorem specB_iff (gap thr : Rat) (inp out : List Row) : specB gap thr inp out = true ↔ Spec gap thr inp out :=
  ⟨specB_sound gap thr inp out, specB_complete gap thr inp out⟩

/-! ### how much the order of stacked notes matters -/

theorem columnsOf_perm_eq (l₁ l₂ : List Row) (h : l₁.Perm l₂) : columnsOf l₁ = columnsOf l₂ := by
  apply List.Perm.eq_of_pairwise (le := fun (a b : Int) => a < b)
  · intro a b _ _ h1 h2; omega
  · exact columnsOf_sorted l₁
  · exact columnsOf_sorted l₂
  · rw [List.perm_ext_iff_of_nodup (columnsOf_nodup l₁) (columnsOf_nodup l₂)]
    intro c
    rw [mem_columnsOf, mem_columnsOf]
    constructor
    · rintro ⟨r, hr, hc⟩; exact ⟨r, h.mem_iff.mp hr, hc⟩
    · rintro ⟨r, hr, hc⟩; exact ⟨r, h.mem_iff.mpr hr, hc⟩

/-- two ascending arrangements of the same column that end with the same note give the same output -/
theorem applyRule_eq_of_same_last (gap thr : Rat) (c : Int) (g₁ g₂ : List Row)
    (hc : ∀ r ∈ g₁, r.column = c) (hp : g₁.Perm g₂) (s₁ : SortedByOffset g₁) (s₂ : SortedByOffset g₂)
    (hl : g₁.getLast? = g₂.getLast?) : applyRule gap thr g₁ = applyRule gap thr g₂ := by
  by_cases hne : g₁ = []
  · subst hne
    have : g₂ = [] := List.perm_nil.mp hp.symm
    subst this; rfl
  · have hne2 : g₂ ≠ [] := by
      intro he; subst he; exact hne (List.perm_nil.mp hp)
    have e1 := List.dropLast_concat_getLast hne
    have e2 := List.dropLast_concat_getLast hne2
    have hx : g₁.getLast hne = g₂.getLast hne2 := by
      rw [List.getLast?_eq_some_getLast hne, List.getLast?_eq_some_getLast hne2] at hl
      exact Option.some.inj hl
    rw [← e1, ← e2, hx]
    apply applyRule_append_congr
    have hc2 : ∀ r ∈ g₂, r.column = c := fun r hr => hc r (hp.mem_iff.mpr hr)
    apply sorted_keys_eq c
    · intro r hr; exact hc r (List.dropLast_subset g₁ hr)
    · intro r hr; exact hc2 r (List.dropLast_subset g₂ hr)
    · exact List.Pairwise.sublist (List.dropLast_sublist g₁) s₁
    · exact List.Pairwise.sublist (List.dropLast_sublist g₂) s₂
    · have : (g₁.dropLast ++ [g₂.getLast hne2]).Perm (g₂.dropLast ++ [g₂.getLast hne2]) := by
        rw [e2, ← hx, e1]; exact hp
      exact (List.perm_append_right_iff _).mp this

/-- **tie order**: whatever ascending permutation the sort returns, the produced rows depend on it only
through which of the notes stacked at the end of each column comes last — two sorted arrangements of the
same frame with the same last note in every column give literally the same rows. -/
theorem fullLnRows_eq_of_same_last (gap thr : Rat) (arr₁ arr₂ : List Row) (hp : arr₁.Perm arr₂)
    (s₁ : SortedByOffset arr₁) (s₂ : SortedByOffset arr₂)
    (hl : ∀ c, (inColumn c arr₁).getLast? = (inColumn c arr₂).getLast?) :
    fullLnRows gap thr arr₁ = fullLnRows gap thr arr₂ := by
  unfold fullLnRows groups
  rw [columnsOf_perm_eq arr₁ arr₂ hp]
  congr 1
  rw [List.map_map, List.map_map]
  apply List.map_congr_left
  intro c _
  simp only [Function.comp, processGroup_eq_applyRule, group_eq_inColumn]
  apply applyRule_eq_of_same_last gap thr c
  · intro r hr; simpa [inColumn] using (List.mem_filter.mp hr).2
  · exact hp.filter _
  · exact List.Pairwise.filter _ s₁
  · exact List.Pairwise.filter _ s₂
  · exact hl c

/-- non-vacuity: two orders of a stacked pair that is not at the end of its column -/
example : ([⟨0, 0, none⟩, ⟨0, 0, some 5⟩, ⟨10, 0, none⟩] : List Row).Perm [⟨0, 0, some 5⟩, ⟨0, 0, none⟩, ⟨10, 0, none⟩] ∧
    SortedByOffset [⟨0, 0, none⟩, ⟨0, 0, some 5⟩, ⟨10, 0, none⟩] ∧
    SortedByOffset [⟨0, 0, some 5⟩, ⟨0, 0, none⟩, ⟨10, 0, none⟩] ∧
    ∀ c, (inColumn c [⟨0, 0, none⟩, ⟨0, 0, some 5⟩, ⟨10, 0, none⟩]).getLast? =
      (inColumn c [⟨0, 0, some 5⟩, ⟨0, 0, none⟩, ⟨10, 0, none⟩]).getLast? := by
  refine ⟨List.Perm.swap _ _ _, sortedB_sound _ (by decide +kernel), sortedB_sound _ (by decide +kernel), ?_⟩
  intro c
  by_cases h : (0 : Int) = c
  · subst h; decide +kernel
  · simp [inColumn, h]

/-! ### the chart-level statement -/

theorem fromDict_eq (rows : List Row) : fromDict rows = rows := by
  unfold fromDict
  cases rows <;> simp

theorem asHit_of_isHit (r : Row) (h : isHit r = true) : asHit r = r := by
  cases r with
  | mk o c l =>
    have : l = none := by simpa [isHit] using h
    subst this
    rfl

theorem notes_result_perm (rows : List Row) :
    (((rows.filter isHit).map asHit) ++ rows.filter (fun r => !isHit r)).Perm rows := by
  have h1 : (rows.filter isHit).map asHit = (rows.filter isHit).map id :=
    List.map_congr_left (fun r hr => asHit_of_isHit r (List.mem_filter.mp hr).2)
  rw [h1, List.map_id]
  exact List.filter_append_perm isHit rows

/-- the hits and holds of the result (kind = list) are, up to order, the produced rows -/
theorem ownNotes_fullLnWith {α} (sortF : List Row → List Row) (gap thr : Rat) (m : MapM α) :
    (ownNotes (fullLnWith sortF gap thr m)).Perm (fullLnRows gap thr (sortF (stacked m))) := by
  simp only [fullLnWith, ownNotes, fromDict_eq]
  exact notes_result_perm _

theorem map_asHit_of_none (l : List Row) (h : ∀ r ∈ l, r.length = none) : l.map asHit = l := by
  have : l.map asHit = l.map id := List.map_congr_left (fun r hr => by
    cases r with
    | mk o c len =>
      have : len = none := h _ hr
      subst this; rfl)
  rw [this, List.map_id]

theorem map_key_asHit (l : List Row) : (l.map asHit).map key = l.map key := by
  rw [List.map_map]
  apply List.map_congr_left
  intro r _
  rfl

/-- **What the code does, for every chart**: the result's hits and holds satisfy `Spec` with respect to the
stacked frame *as the loop sees it* — a member of `hits` that carries a non-NaN `length` counts as a hold there. -/
theorem fullLn_spec_stacked {α} (sortF : List Row → List Row) (hs : SortsByOffset sortF) (gap thr : Rat)
    (m : MapM α) :
    Spec gap thr (stacked m) (ownNotes (fullLnWith sortF gap thr m)) ∧
      (fullLnWith sortF gap thr m).others = m.others ∧ (fullLnWith sortF gap thr m).extras = m.extras := by
  refine ⟨?_, rfl, rfl⟩
  exact (fullLnRows_spec gap thr (stacked m) (sortF (stacked m)) (hs.perm _) (hs.sorted _)).of_perm_out
    (ownNotes_fullLnWith sortF gap thr m)

/-- **Main theorem.** For every sorting function `sort_values` may be, every `gap` and threshold and every
chart whose hit list carries no `length` values (`hh`, a DOMAIN hypothesis: a hit list has exactly its declared
fields — constructors, readers and converters of the library guarantee it; `stray_length_counterexample`): the hits and holds of
`full_ln`'s result satisfy the statement `Spec` with respect to the hits and holds of the input (kind of a note
= the list it lives in), and the further note lists, the tempo list and everything else are the input's
(**others_unchanged**). -/
theorem fullLn_spec {α} (sortF : List Row → List Row) (hs : SortsByOffset sortF) (gap thr : Rat) (m : MapM α)
    (hh : ∀ r ∈ m.hits, r.length = none) :
    Spec gap thr (ownNotes m) (ownNotes (fullLnWith sortF gap thr m)) ∧
      (fullLnWith sortF gap thr m).others = m.others ∧ (fullLnWith sortF gap thr m).extras = m.extras := by
  have h := fullLn_spec_stacked sortF hs gap thr m
  have e : ownNotes m = stacked m := by simp only [ownNotes, stacked, map_asHit_of_none m.hits hh]
  rw [e]
  exact h

/-- the same for the model's own stable sort (what the driver runs) -/
theorem fullLn_spec_stable {α} (gap thr : Rat) (m : MapM α) (hh : ∀ r ∈ m.hits, r.length = none) :
    Spec gap thr (ownNotes m) (ownNotes (fullLn gap thr m)) ∧
      (fullLn gap thr m).others = m.others ∧ (fullLn gap thr m).extras = m.extras :=
  fullLn_spec sortByOffset sortByOffset_sorts gap thr m hh

/-- over ALL notes of the chart (further note lists included) and for EVERY chart: one note per input note at
the same time and column — the conservation that D23 broke; it does not depend on stray `length` values -/
theorem fullLn_notes_conservation {α} (sortF : List Row → List Row) (hs : SortsByOffset sortF) (gap thr : Rat)
    (m : MapM α) : ((notes (fullLnWith sortF gap thr m)).map key).Perm ((notes m).map key) := by
  have h := (fullLn_spec_stacked sortF hs gap thr m).1.conservation
  have he : (fullLnWith sortF gap thr m).extras = m.extras := rfl
  have hk : (ownNotes m).map key = (stacked m).map key := by
    simp only [ownNotes, stacked, List.map_append, map_key_asHit]
  simp only [notes, List.map_append, he] at h ⊢
  rw [hk]
  exact List.Perm.append_left _ h

/-- a chart outside the domain: a hit list whose two members carry a stray `length` of 0 -/
def strayChart : MapM Unit := ⟨[], [⟨0, 0, some 0⟩, ⟨500, 0, some 0⟩], [], ()⟩

/-- why the domain hypothesis `hh` is there (documentation, not a finding): with a non-NaN `length` on a member of
`hits` the statement would fail — the last hit of the column comes back as a hold of length 0 -/
theorem stray_length_counterexample :
    (fullLn 150 100 strayChart).holds = [⟨0, 0, some 350⟩, ⟨500, 0, some 0⟩] ∧ (fullLn 150 100 strayChart).hits = [] ∧
      ¬ Spec 150 100 (ownNotes strayChart) (ownNotes (fullLn 150 100 strayChart)) := by
  refine ⟨by decide +kernel, by decide +kernel, ?_⟩
  intro h
  have hb := specB_complete _ _ _ _ h
  revert hb
  decide +kernel

/-! ### the two repaired defects, as theorems about the code as it was (what the reverse patches
`harness/mutants/fixed/D23.patch` / `D24.patch` bring back) -/

namespace PreFix

open Reamber.Timing (Err)

/-- before D23: `m.stack((HitList, HoldList))` — every HitList/HoldList-typed list of the chart is stacked -/
def stacked {α} (m : MapM α) : List Row := m.extras ++ FullLN.ownNotes m

/-- before D24: `df[col] = default` raises `ValueError` when a declared default is a list (Quaver) -/
def fromDict (scalarDefaults : Bool) (rows : List Row) : Except Err (List Row) :=
  if rows.isEmpty then .ok [] else if scalarDefaults then .ok rows else .error .value

def fullLnWith {α} (sortF : List Row → List Row) (scalarDefaults : Bool) (gap thr : Rat) (m : MapM α) :
    Except Err (MapM α) :=
  let rows := fullLnRows gap thr (sortF (stacked m))
  match fromDict scalarDefaults (rows.filter isHit) with
  | .error e => .error e
  | .ok hits =>
    match fromDict scalarDefaults (rows.filter (fun r => !isHit r)) with
    | .error e => .error e
    | .ok holds => .ok { m with hits := hits, holds := holds }

/-- D24 (repaired): with a list-valued declared default (Quaver's `keysounds = []`) the old `full_ln` raised
`ValueError` for EVERY chart that has a note -/
theorem fullLnWith_raises {α} (sortF : List Row → List Row) (hs : SortsByOffset sortF) (gap thr : Rat)
    (m : MapM α) (hne : stacked m ≠ []) : fullLnWith sortF false gap thr m = .error .value := by
  have hspec := fullLnRows_spec gap thr (stacked m) (sortF (stacked m)) (hs.perm _) (hs.sorted _)
  have hlen := hspec.length_eq
  have hperm := List.filter_append_perm isHit (fullLnRows gap thr (sortF (stacked m)))
  have hl2 := hperm.length_eq
  have hpos : 0 < (stacked m).length := List.length_pos_iff.mpr hne
  unfold fullLnWith
  simp only
  cases hh : (fullLnRows gap thr (sortF (stacked m))).filter isHit with
  | cons a t => simp [fromDict]
  | nil =>
    rw [hh] at hl2
    cases hd : (fullLnRows gap thr (sortF (stacked m))).filter (fun r => !isHit r) with
    | cons a t => simp [fromDict]
    | nil =>
      rw [hd] at hl2
      simp at hl2
      omega

/-- the chart of the D23 witness: hits at 0 and 1000 and a mine at 500, all in column 0 -/
def d23Chart : MapM Unit := ⟨[⟨500, 0, none⟩], [⟨0, 0, none⟩, ⟨1000, 0, none⟩], [], ()⟩

/-- D23 (repaired): with a further HitList-typed list (a StepMania mine) the old result had one note too
many — the mine was stacked, became a hold, and stayed a mine -/
theorem extras_counterexample :
    (fullLnWith sortByOffset true 150 100 d23Chart).toOption.map (fun m' => (notes m').length) = some 4 ∧
      (notes d23Chart).length = 3 := by
  decide +kernel

end PreFix

/-! ### non-vacuity: concrete instances of the statements -/

/-- two keys, a chord, a stacked pair at the end of column 0 -/
def exChart : MapM Unit :=
  ⟨[], [⟨0, 0, none⟩, ⟨250, 0, none⟩, ⟨0, 1, none⟩, ⟨600, 0, none⟩], [⟨600, 0, some 40⟩, ⟨249, 1, some 500⟩], ()⟩

/-- column 0: 0 → hold 100 (250-0-150 = 100 ≥ 100), 250 → hold 200, then the stacked pair at 600: the first
of them gets 0-150 < 100 → hit, the last keeps kind and length; column 1: 249-0-150 = 99 < 100 → hit -/
example : ((fullLn 150 100 exChart).hits, (fullLn 150 100 exChart).holds) =
    ([⟨600, 0, none⟩, ⟨0, 1, none⟩], [⟨0, 0, some 100⟩, ⟨250, 0, some 200⟩, ⟨600, 0, some 40⟩, ⟨249, 1, some 500⟩]) := by
  decide +kernel

/-- the D23 witness after the repair: the mine at 500 is not stacked — the hit at 0 becomes a hold that ends
150 before the hit at 1000, and the mine stays where it was, once -/
example : ((fullLn 150 100 PreFix.d23Chart).hits, (fullLn 150 100 PreFix.d23Chart).holds,
    (fullLn 150 100 PreFix.d23Chart).extras) = ([⟨1000, 0, none⟩], [⟨0, 0, some 850⟩], [⟨500, 0, none⟩]) := by
  decide +kernel

/-- the executable specification accepts that output, and the other tie order as well … -/
example : specB 150 100 (stacked exChart)
    [⟨600, 0, none⟩, ⟨0, 1, none⟩, ⟨0, 0, some 100⟩, ⟨250, 0, some 200⟩, ⟨600, 0, some 40⟩, ⟨249, 1, some 500⟩] = true := by
  decide +kernel
example : specB 150 100 (stacked exChart)
    [⟨600, 0, none⟩, ⟨0, 1, none⟩, ⟨0, 0, some 100⟩, ⟨250, 0, some 200⟩, ⟨600, 0, none⟩, ⟨249, 1, some 500⟩] = true := by
  decide +kernel
/-- … but not a wrong length, a lost note, or a changed last note -/
example : specB 150 100 (stacked exChart)
    [⟨600, 0, none⟩, ⟨0, 1, none⟩, ⟨0, 0, some 101⟩, ⟨250, 0, some 200⟩, ⟨600, 0, some 40⟩, ⟨249, 1, some 500⟩] = false := by
  decide +kernel
example : specB 150 100 (stacked exChart)
    [⟨0, 1, none⟩, ⟨0, 0, some 100⟩, ⟨250, 0, some 200⟩, ⟨600, 0, some 40⟩, ⟨249, 1, some 500⟩] = false := by
  decide +kernel
example : specB 150 100 (stacked exChart)
    [⟨600, 0, none⟩, ⟨0, 1, none⟩, ⟨0, 0, some 100⟩, ⟨250, 0, some 200⟩, ⟨600, 0, some 40⟩, ⟨249, 1, some 499⟩] = false := by
  decide +kernel

/-- hypotheses of `Spec.no_overlap` / `Spec.last_kept` are satisfiable: the hold at 250 and the later note at 600 -/
example : ∃ out, Spec 150 100 (stacked exChart) out ∧ (⟨250, 0, some 200⟩ : Row) ∈ out ∧ (⟨600, 0, none⟩ : Row) ∈ out ∧
    inColumn 0 (stacked exChart) ≠ [] :=
  ⟨_, specB_sound 150 100 (stacked exChart)
    [⟨600, 0, none⟩, ⟨0, 1, none⟩, ⟨0, 0, some 100⟩, ⟨250, 0, some 200⟩, ⟨600, 0, some 40⟩, ⟨249, 1, some 500⟩]
    (by decide +kernel), by decide, by decide, by decide +kernel⟩

/-- `PreFix.fullLnWith_raises` is not vacuous: a one-note Quaver chart -/
example : PreFix.stacked (⟨[], [⟨0, 0, none⟩], [], ()⟩ : MapM Unit) ≠ [] := by decide

/-! ### sessions: repeated calls on one lineage of chart objects

`full_ln` is used in sessions: a chart is made full-LN, edited (through list properties, stackers, by replacing a
list or its frame, by append/filter), copied or rated, and made full-LN again, possibly with other parameters.
In the model a call is a function of the chart's content — that the CODE has no other input (a cache, something an
earlier call left on the object) is what the harness observes call by call (seeded change C17-G).  What is proved
here: the domain hypothesis of `fullLn_spec` is an invariant of `full_ln` (`fullLnWith_hits_plain`: the hit list of
every result is plain, whatever the input was), so a whole session stays inside the domain and EVERY call of it
satisfies the statement with respect to the chart it was given (`session_spec`). -/

/-- the chart's hit list carries no `length` values (the domain hypothesis of `fullLn_spec`) -/
def Plain {α} (m : MapM α) : Prop := ∀ r ∈ m.hits, r.length = none

/-- the hit list of a result is plain — for EVERY input chart and every sorting function -/
theorem fullLnWith_hits_plain {α} (sortF : List Row → List Row) (gap thr : Rat) (m : MapM α) :
    Plain (fullLnWith sortF gap thr m) := by
  intro r hr
  simp only [fullLnWith, fromDict_eq] at hr
  have h := (List.mem_filter.mp hr).2
  simpa [isHit] using h

/-- … and every member of the result's hold list has a length -/
theorem fullLnWith_holds_have_length {α} (sortF : List Row → List Row) (gap thr : Rat) (m : MapM α) :
    ∀ r ∈ (fullLnWith sortF gap thr m).holds, r.length ≠ none := by
  intro r hr
  simp only [fullLnWith, fromDict_eq] at hr
  have h := (List.mem_filter.mp hr).2
  intro hn
  simp [isHit, hn] at h

/-- one step of a session: from everything the session has produced so far (the first chart, every chart that was
given to a call, every result — newest first) the user picks / copies / rates / edits a chart in any way (`choose`),
and calls `full_ln` on it with `gap` and `thr` -/
structure Step (α : Type) where
  choose : List (MapM α) → MapM α
  gap : Rat
  thr : Rat

/-- one call of a session: the chart it was given, its parameters, its result -/
structure Call (α : Type) where
  given : MapM α
  gap : Rat
  thr : Rat
  result : MapM α

def session {α} (sortF : List Row → List Row) : List (MapM α) → List (Step α) → List (Call α)
  | _, [] => []
  | hist, s :: rest =>
    let a := s.choose hist
    let r := fullLnWith sortF s.gap s.thr a
    ⟨a, s.gap, s.thr, r⟩ :: session sortF (r :: a :: hist) rest

/-- **Every call of every session** (any number of calls, any parameters, any choice/edit between the calls that
keeps hit lists plain, any sorting function): the result satisfies the statement with respect to the chart the call
was given, and that chart's other lists come back unchanged. -/
theorem session_spec {α} (sortF : List Row → List Row) (hs : SortsByOffset sortF) (steps : List (Step α)) :
    ∀ (hist : List (MapM α)), (∀ x ∈ hist, Plain x) →
      (∀ s ∈ steps, ∀ h : List (MapM α), (∀ x ∈ h, Plain x) → Plain (s.choose h)) →
      ∀ c ∈ session sortF hist steps,
        Spec c.gap c.thr (ownNotes c.given) (ownNotes c.result) ∧
          c.result.others = c.given.others ∧ c.result.extras = c.given.extras := by
  induction steps with
  | nil => intro _ _ _ c hc; simp [session] at hc
  | cons s rest ih =>
    intro hist hh he c hc
    have hp : Plain (s.choose hist) := he s (List.mem_cons_self) hist hh
    simp only [session, List.mem_cons] at hc
    rcases hc with rfl | hc
    · exact fullLn_spec sortF hs s.gap s.thr (s.choose hist) hp
    · refine ih (fullLnWith sortF s.gap s.thr (s.choose hist) :: s.choose hist :: hist) ?_ ?_ c hc
      · intro x hx
        simp only [List.mem_cons] at hx
        rcases hx with rfl | rfl | hx
        · exact fullLnWith_hits_plain sortF s.gap s.thr _
        · exact hp
        · exact hh x hx
      · intro s' hs' h hh'
        exact he s' (List.mem_cons_of_mem _ hs') h hh'

/-- moving every note of a chart by `d` (what `m.stack().offset += d` does to the note lists) -/
def shiftChart {α} (d : Rat) (m : MapM α) : MapM α :=
  { m with hits := m.hits.map (fun r => { r with offset := r.offset + d }),
           holds := m.holds.map (fun r => { r with offset := r.offset + d }) }

theorem shiftChart_plain {α} (d : Rat) (m : MapM α) (h : Plain m) : Plain (shiftChart d m) := by
  intro r hr
  simp only [shiftChart, List.mem_map] at hr
  obtain ⟨a, ha, rfl⟩ := hr
  exact h a ha

/-- non-vacuity of `session_spec`, and the session of seeded change C17-G in the model: full-LN, move the chart
1.5 s later, full-LN again with a smaller gap — the second result sits at the moved times -/
def exSession : List (Step Unit) :=
  [⟨fun h => h.headD exChart, 150, 100⟩, ⟨fun h => shiftChart 1500 (h.headD exChart), 40, 60⟩]

example : ((session sortByOffset [exChart] exSession).map (fun c => (c.result.hits, c.result.holds))) =
    [([⟨600, 0, none⟩, ⟨0, 1, none⟩], [⟨0, 0, some 100⟩, ⟨250, 0, some 200⟩, ⟨600, 0, some 40⟩, ⟨249, 1, some 500⟩]),
     ([⟨2100, 0, none⟩], [⟨1500, 0, some 210⟩, ⟨1750, 0, some 310⟩, ⟨2100, 0, some 40⟩, ⟨1500, 1, some 209⟩,
       ⟨1749, 1, some 500⟩])] := by
  decide +kernel

/-! ### the parameter range: what `gap ≥ 0` and `thr ≥ 0` are needed for

`fullLn_spec` holds for every `gap` and `thr`, negative ones included (the code does not reject them, the model
follows it).  The two clauses of the statement that speak about reaching and about lengths need the signs: -/

/-- **no hold reaches the next note** (the property's wording), for `gap ≥ 0` -/
theorem Spec.no_reach {gap thr : Rat} {inp out : List Row} (h : Spec gap thr inp out) (hg : 0 ≤ gap)
    (a b : Row) (ha : a ∈ out) (hb : b ∈ out) (hcol : a.column = b.column) (hlt : a.offset < b.offset)
    (l : Rat) (hl : a.length = some l) : a.offset + l ≤ b.offset := by
  have := h.no_overlap a b ha hb hcol hlt l hl
  grind

/-- for `gap > 0` it ends strictly before it -/
theorem Spec.no_touch {gap thr : Rat} {inp out : List Row} (h : Spec gap thr inp out) (hg : 0 < gap)
    (a b : Row) (ha : a ∈ out) (hb : b ∈ out) (hcol : a.column = b.column) (hlt : a.offset < b.offset)
    (l : Rat) (hl : a.length = some l) : a.offset + l < b.offset := by
  have := h.no_overlap a b ha hb hcol hlt l hl
  grind

/-- a generated hold has a length `≥ 0` when `thr ≥ 0` -/
theorem expected_hold_nonneg {gap thr : Rat} {r : Row} {n l : Rat} (ht : 0 ≤ thr)
    (h : (expected gap thr r n).length = some l) : 0 ≤ l := by
  have := (expected_hold h).2
  grind

/-- with a negative gap the rule still holds (`fullLn_spec`), but a generated hold reaches past the next note:
the hypothesis `0 ≤ gap` of `Spec.no_reach` cannot be dropped -/
def negGapChart : MapM Unit := ⟨[], [⟨0, 0, none⟩, ⟨100, 0, none⟩], [], ()⟩

theorem neg_gap_reaches :
    (fullLn (-50) 0 negGapChart).holds = [⟨0, 0, some 150⟩] ∧ (fullLn (-50) 0 negGapChart).hits = [⟨100, 0, none⟩] ∧
      specB (-50) 0 (ownNotes negGapChart) (ownNotes (fullLn (-50) 0 negGapChart)) = true ∧
      noOverlapB 0 (ownNotes (fullLn (-50) 0 negGapChart)) = false := by
  decide +kernel

/-- with a negative threshold two notes closer than the gap give a hold of negative length:
the hypothesis `0 ≤ thr` of `expected_hold_nonneg` cannot be dropped -/
theorem neg_thr_negative_length :
    (fullLn 150 (-1000) negGapChart).holds = [⟨0, 0, some (-50)⟩] ∧
      specB 150 (-1000) (ownNotes negGapChart) (ownNotes (fullLn 150 (-1000) negGapChart)) = true := by
  decide +kernel

/-- `gap = 0`, `thr = 0` (inside the property's range): stacked notes become holds of length 0, a hold may end
exactly where the next note starts -/
example : ((fullLn 0 0 ⟨[], [⟨10, 0, none⟩, ⟨10, 0, none⟩, ⟨30, 0, none⟩], [], ()⟩ : MapM Unit).hits,
    (fullLn 0 0 ⟨[], [⟨10, 0, none⟩, ⟨10, 0, none⟩, ⟨30, 0, none⟩], [], ()⟩ : MapM Unit).holds) =
    ([⟨30, 0, none⟩], [⟨10, 0, some 0⟩, ⟨10, 0, some 20⟩]) := by
  decide +kernel

/-! ### the kind of a note and the row that stands for it

The statement speaks about hits and holds; the model's `Spec` reads the kind of a note off its row (`length = none`
= hit).  For the chart that goes in, the kind of a note is the list it lives in, so the reading is faithful exactly
when both lists hold what their classes declare (`WellKinded`): no `length` values in the hit list (`Plain`, the
hypothesis of `fullLn_spec`) and a `length` in every row of the hold list (a hold row with NaN length is a row the
loop cannot tell from a hit: `nan_hold_counterexample`).  For the chart that comes out it holds unconditionally. -/

def WellKinded {α} (m : MapM α) : Prop := Plain m ∧ ∀ r ∈ m.holds, r.length ≠ none

/-- every result is well-kinded, whatever went in -/
theorem fullLnWith_wellKinded {α} (sortF : List Row → List Row) (gap thr : Rat) (m : MapM α) :
    WellKinded (fullLnWith sortF gap thr m) :=
  ⟨fullLnWith_hits_plain sortF gap thr m, fullLnWith_holds_have_length sortF gap thr m⟩

/-- in a well-kinded chart a note is a member of the hit list exactly when its row has no length, and of the hold
list exactly when it has one: `Spec`'s reading of kinds is the list membership -/
theorem wellKinded_kind {α} (m : MapM α) (h : WellKinded m) (r : Row) (hr : r ∈ ownNotes m) :
    (r.length = none ↔ r ∈ m.hits) ∧ (r.length ≠ none ↔ r ∈ m.holds) := by
  have e : ownNotes m = m.hits ++ m.holds := by simp only [ownNotes, map_asHit_of_none m.hits h.1]
  rw [e, List.mem_append] at hr
  refine ⟨⟨fun hn => ?_, fun hm => h.1 r hm⟩, ⟨fun hn => ?_, fun hm => h.2 r hm⟩⟩
  · rcases hr with hr | hr
    · exact hr
    · exact absurd hn (h.2 r hr)
  · rcases hr with hr | hr
    · exact absurd (h.1 r hr) hn
    · exact hr

/-- a hold-list row with NaN length at the end of its column comes back in the HIT list (the loop's `isnan(length)`
test): outside `WellKinded`, the kind of the last note is not kept.  Not a finding — no constructor, reader or
converter of the library produces such a row (`Hold.length` defaults to a number); the harness feeds such rows at
a low rate as correspondence-only cases. -/
def nanHoldChart : MapM Unit := ⟨[], [], [⟨0, 0, some 10⟩, ⟨500, 0, none⟩], ()⟩

theorem nan_hold_counterexample :
    (fullLn 150 100 nanHoldChart).hits = [⟨500, 0, none⟩] ∧ (fullLn 150 100 nanHoldChart).holds = [⟨0, 0, some 350⟩] ∧
      ¬ WellKinded nanHoldChart := by
  refine ⟨by decide +kernel, by decide +kernel, fun h => ?_⟩
  exact h.2 ⟨500, 0, none⟩ (by simp [nanHoldChart]) rfl

end Reamber.FullLN
