/- C17 — property theorems (stub: not built yet). -/
