/-
C10 — Timing engine: beat positions and millisecond offsets convert consistently.
Property theorems (helper lemmas live in `Reamber/Lemmas/*`).  Statements are about the executable model
`Reamber/Model/Timing.lean`, which the correspondence check ties to
reamber/algorithms/timing/{TimingMap.py, utils/*.py} on every run.
-/
import Reamber.Lemmas.Sweep
import Reamber.Lemmas.Snapper
import Reamber.Lemmas.TimingChain
import Reamber.Lemmas.TimingOrder
import Reamber.Lemmas.TimingMono
import Reamber.Lemmas.TimingRoundTrip
import Reamber.Lemmas.TimingRoundTripErr
import Reamber.Lemmas.TimingBeats
import Reamber.Lemmas.Argsort
import Reamber.Lemmas.TimingD22
import Reamber.Lemmas.TimingClosedForm
import Reamber.Lemmas.TimingInverse
import Reamber.Lemmas.TimingReseat
import Reamber.Lemmas.FindLcmMore
import Reamber.Props.C11
import Reamber.Drv.C11
import Reamber.Spec.Timing
import Reamber.Generated.Consts

namespace Reamber.Timing

/-- Tie to the source: the constants the model uses are the ones the translator read from the code
(`max(DEFAULT_DIVISIONS)`, `extend_threshold`, `RAConst.MIN_TO_MSEC`). Re-checked whenever they change. -/
theorem consts_tie :
    defaultMaxDiv = Generated.defaultDivisions.foldl max 0 ∧
    extendThreshold = Generated.extendThreshold ∧
    minToMsec = Generated.minToMsec := by decide +kernel

/-- `σ` arranges the queries in ascending order (what `argsort` returns — for *any* tie order). -/
def SortsAsc (σ : List Nat) (qs : List Snap) : Prop :=
  IsPerm σ ∧ σ.length = qs.length ∧ DescSnaps (gather qs σ).reverse

/-- **Results are returned in the order of the queries** (any multiset of queries, any order, duplicates,
any sorting permutation numpy may choose): if the independent lookup of every query succeeds with value
`F q`, `TimingMap.offsets` returns `F` mapped over the queries in their original order. -/
theorem offsetsWith_order (g : Array Rat) (σ : List Nat) (tm : List BcOff) (qs : List Snap)
    (bco : List BcOff) (bcs : List BcSnap) (F : Snap → Rat)
    (hb : bcsOfBco g tm = .ok (bco, bcs)) (hσ : SortsAsc σ qs)
    (hF : ∀ q ∈ qs, lookupOffset (bcs.zip bco).reverse q = .ok (F q)) :
    offsetsWith g σ tm qs = .ok (qs.map F) := by
  obtain ⟨hperm, hlen, hdesc⟩ := hσ
  unfold offsetsWith
  simp only [hb, bind, Except.bind]
  have hg : gather qs σ.reverse = (gather qs σ).reverse := by simp [gather]
  rw [sweepOffsets_eq_mapE _ _ (by rw [hg]; exact hdesc)]
  have hmem : ∀ q ∈ gather qs σ.reverse, lookupOffset (bcs.zip bco).reverse q = .ok (F q) := by
    intro q hq
    simp only [gather, List.mem_map] at hq
    obtain ⟨i, hi, rfl⟩ := hq
    apply hF
    have hi' : i < qs.length := by
      have := (isPerm_reverse hperm).mem_iff i
      rw [this] at hi
      simpa [hlen] using hi
    simp [List.getD_eq_getElem?_getD, List.getElem?_eq_getElem hi']
  rw [mapE_eq_ok_map _ F _ hmem]
  simp only []
  rw [gather_map_argsort F qs σ.reverse (isPerm_reverse hperm) (by simpa using hlen)]

/-- the error branch is covered explicitly, not totalised: with no tempo change at or before a query the
model raises the `IndexError` class, as the code does -/
theorem lookupOffset_before_first (rb : List (BcSnap × BcOff)) (q : Snap)
    (h : ∀ p ∈ rb, p.1.snap.gt q = true) : lookupOffset rb q = .error .index := by
  unfold lookupOffset
  have : rb.dropWhile (fun p => p.1.snap.gt q) = [] := by
    induction rb with
    | nil => rfl
    | cons a t ih =>
      rw [List.dropWhile_cons, h a (by simp)]
      exact ih (fun p hp => h p (by simp [hp]))
  rw [this]

/-! ### `offsets`: sweep + un-permutation + re-derivation of the positions = piecewise-linear integration -/

/-- **C10 main theorem (positions → milliseconds).**  For every value array `g` that is a valid grid (`GridOK`,
proved for `grid N`, N ≥ 1, below), every initial offset, every well-formed tempo-change list that is sorted,
starts at (0, 0), is grid-compatible (hypothesis forced by the code, finding D22) and changes its metronome only
on measure lines, every list of queries at or after the first change (any order, duplicates allowed), and every
ascending sorting permutation `σ` numpy may choose:
`from_bpm_changes_snap(t0, cs, reseat=False)` succeeds, and `TimingMap.offsets` — which re-derives the change
positions from the stored milliseconds, sweeps the sorted queries backwards and un-permutes — returns exactly
`timeAt t0 cs q` for every query, in the order of the queries. -/
theorem offsets_correct (g : Array Rat) (hg : GridOK g) (t0 : Rat) (cs : List BcSnap)
    (hwf : wfChanges cs = true) (hs : sortedSnaps cs = true) (h0 : firstAtZero cs = true)
    (hgc : gridCompatible g.toList cs = true) (hm : metronomeOk cs = true)
    (σ : List Nat) (qs : List Snap) (hσ : SortsAsc σ qs) (hq : ∀ q ∈ qs, queryOk cs q = true) :
    ∃ tm, fromBcSnapNoReseat t0 cs = .ok tm ∧ offsetsWith g σ tm qs = .ok (qs.map (timeAt t0 cs)) := by
  refine ⟨tmOf t0 cs, fromBcSnapNoReseat_eq t0 cs hwf hs h0, ?_⟩
  exact offsetsWith_order g σ (tmOf t0 cs) qs (tmOf t0 cs) cs (timeAt t0 cs)
    (bcsOfBco_rederive hg t0 cs hwf hs h0 hgc hm) hσ
    (fun q hqm => lookupOffset_eq_timeAt t0 cs q hwf hs (hq q hqm))

/-- the same through the public entry point `from_bpm_changes_snap(…, reseat=False)` -/
theorem offsets_correct_fromBcSnap (g : Array Rat) (hg : GridOK g) (t0 : Rat) (cs : List BcSnap)
    (hwf : wfChanges cs = true) (hs : sortedSnaps cs = true) (h0 : firstAtZero cs = true)
    (hgc : gridCompatible g.toList cs = true) (hm : metronomeOk cs = true)
    (σ : List Nat) (qs : List Snap) (hσ : SortsAsc σ qs) (hq : ∀ q ∈ qs, queryOk cs q = true) :
    ∃ tm, fromBcSnap t0 cs false = .ok tm ∧ offsetsWith g σ tm qs = .ok (qs.map (timeAt t0 cs)) := by
  obtain ⟨tm, h1, h2⟩ := offsets_correct g hg t0 cs hwf hs h0 hgc hm σ qs hσ hq
  refine ⟨tm, ?_, h2⟩
  unfold fromBcSnap
  rw [sortBcSnap_eq_self hs]
  cases cs with
  | nil => simp [firstAtZero] at h0
  | cons c rest =>
    simp only [firstAtZero, Bool.and_eq_true, decide_eq_true_eq] at h0
    simp [h0.1, h0.2, h1]

/-- … and for the grid the code really uses (`Snapper()` with `max(DEFAULT_DIVISIONS) = 96`) -/
theorem offsets_correct_default (t0 : Rat) (cs : List BcSnap)
    (hwf : wfChanges cs = true) (hs : sortedSnaps cs = true) (h0 : firstAtZero cs = true)
    (hgc : gridCompatible (grid defaultMaxDiv) cs = true) (hm : metronomeOk cs = true)
    (σ : List Nat) (qs : List Snap) (hσ : SortsAsc σ qs) (hq : ∀ q ∈ qs, queryOk cs q = true) :
    ∃ tm, fromBcSnapNoReseat t0 cs = .ok tm ∧ offsetsWith defaultGrid σ tm qs = .ok (qs.map (timeAt t0 cs)) :=
  offsets_correct defaultGrid (gridOK_grid (by decide)) t0 cs hwf hs h0 hgc hm σ qs hσ hq

/-- **The stored times are the integration at the change points**: what `from_bpm_changes_snap` stores for
change `i` is `timeAt` of that change's own position (`changeTimes`). -/
theorem stored_times_eq_changeTimes (t0 : Rat) (cs : List BcSnap) (hwf : wfChanges cs = true)
    (hs : sortedSnaps cs = true) : (tmOf t0 cs).map (·.offset) = changeTimes t0 cs :=
  tmOf_offsets_eq_changeTimes t0 cs hwf hs

/-! ### the order of the tempo list does not matter (`from_bpm_changes_offset`, `BpmList.to_timing_map`) -/

/-- **`offsets` / `snaps` / `beats` are invariant under permutation of the tempo list** when no two changes share
an offset: the model takes the list as given, `bpm_changes_offset_to_snap` sorts it (in place — the sorted list
is also what the sweeps index), and sorting is order-independent for an injective key. -/
theorem timing_queries_perm_invariant (g : Array Rat) {tm tm' : List BcOff} (hp : tm.Perm tm')
    (hd : DistinctOffsets tm) :
    (∀ σ qs, offsetsWith g σ tm' qs = offsetsWith g σ tm qs) ∧
    (∀ σ qs, snapsWith g σ tm' qs = snapsWith g σ tm qs) ∧
    (∀ σq σs qs, beatsWith g σq σs tm' qs = beatsWith g σq σs tm qs) ∧
    fromBcOff tm' = fromBcOff tm := by
  have h := (sortBcOff_eq_of_perm hp hd).symm
  exact ⟨fun σ qs => offsetsWith_congr g σ qs h, fun σ qs => snapsWith_congr g σ qs h,
    fun σq σs qs => beatsWith_congr g σq σs qs h, h⟩

/-- **Every entry point, every list order.**  Under the hypotheses of `offsets_correct` with strictly ascending
changes: for EVERY permutation `tm'` of the stored times — the list handed to `TimingMap(bpm_changes_offset=…)`,
to `TimingMap.from_bpm_changes_offset` (`fromBcOff`), or the rows of a `BpmList` given to `to_timing_map()`
(`bpmListToTimingMap`) — `offsets` returns the integration `timeAt`, in query order. -/
theorem offsets_correct_any_order (g : Array Rat) (hg : GridOK g) (t0 : Rat) (cs : List BcSnap)
    (hwf : wfChanges cs = true) (hs : strictSnaps cs = true) (h0 : firstAtZero cs = true)
    (hgc : gridCompatible g.toList cs = true) (hm : metronomeOk cs = true)
    (σ : List Nat) (qs : List Snap) (hσ : SortsAsc σ qs) (hq : ∀ q ∈ qs, queryOk cs q = true)
    (tm' : List BcOff) (hp : tm'.Perm (tmOf t0 cs)) :
    offsetsWith g σ tm' qs = .ok (qs.map (timeAt t0 cs)) ∧
    offsetsWith g σ (fromBcOff tm') qs = .ok (qs.map (timeAt t0 cs)) := by
  have hs' := sortedSnaps_of_strict hs
  obtain ⟨tm, h1, h2⟩ := offsets_correct g hg t0 cs hwf hs' h0 hgc hm σ qs hσ hq
  have htm : tm = tmOf t0 cs := by
    have := fromBcSnapNoReseat_eq t0 cs hwf hs' h0
    rw [h1] at this
    exact Except.ok.inj this
  subst htm
  have hd := tmOf_distinct t0 cs hwf hs
  have hsort : sortBcOff tm' = sortBcOff (tmOf t0 cs) := (sortBcOff_eq_of_perm hp.symm hd).symm
  refine ⟨by rw [offsetsWith_congr g σ qs hsort]; exact h2, ?_⟩
  have hsort2 : sortBcOff (fromBcOff tm') = sortBcOff (tmOf t0 cs) := by
    unfold fromBcOff; rw [sortBcOff_idem, hsort]
  rw [offsetsWith_congr g σ qs hsort2]; exact h2

/-- `BpmList.to_timing_map()` on rows `(offset, bpm, metronome)` in any order: nothing dropped, nothing merged —
if the rows are a permutation of the stored changes, the map answers with `timeAt`. -/
theorem offsets_correct_bpmList (g : Array Rat) (hg : GridOK g) (t0 : Rat) (cs : List BcSnap)
    (hwf : wfChanges cs = true) (hs : strictSnaps cs = true) (h0 : firstAtZero cs = true)
    (hgc : gridCompatible g.toList cs = true) (hm : metronomeOk cs = true)
    (σ : List Nat) (qs : List Snap) (hσ : SortsAsc σ qs) (hq : ∀ q ∈ qs, queryOk cs q = true)
    (rows : List (Rat × Rat × Rat))
    (hp : (rows.map fun r => (⟨r.2.1, r.2.2, r.1⟩ : BcOff)).Perm (tmOf t0 cs)) :
    offsetsWith g σ (bpmListToTimingMap rows) qs = .ok (qs.map (timeAt t0 cs)) :=
  (offsets_correct_any_order g hg t0 cs hwf hs h0 hgc hm σ qs hσ hq _ hp).2

/-- `to_timing_map` keeps every row: a pure time-signature change (same bpm, new metronome) stays in the map -/
theorem bpmListToTimingMap_perm (rows : List (Rat × Rat × Rat)) :
    (bpmListToTimingMap rows).Perm (rows.map fun r => (⟨r.2.1, r.2.2, r.1⟩ : BcOff)) := by
  unfold bpmListToTimingMap fromBcOff sortBcOff
  exact isort_perm _ _

/-! ### milliseconds → positions → milliseconds -/

/-- **Round trip, exact part.**  Under the hypotheses of `offsets_correct`: for every list of times (any order,
duplicates) each at or after the first change and with a beat distance from its active change that is a grid
value (`OnGridAt`), and every sorting permutation numpy may choose in either call, `TimingMap.snaps` succeeds and
`TimingMap.offsets` applied to its result returns exactly the original times, in the original order. -/
theorem snaps_offsets_exact (g : Array Rat) (hg : GridOK g) (t0 : Rat) (cs : List BcSnap)
    (hwf : wfChanges cs = true) (hs : sortedSnaps cs = true) (h0 : firstAtZero cs = true)
    (hgc : gridCompatible g.toList cs = true) (hm : metronomeOk cs = true)
    (σ : List Nat) (ts : List Rat) (hσ : SortsAscR σ ts) (hts : ∀ t ∈ ts, OnGridAt g.toList t0 cs t) :
    ∃ sn, snapsWith g σ (tmOf t0 cs) ts = .ok sn ∧
      ∀ σ', SortsAsc σ' sn → offsetsWith g σ' (tmOf t0 cs) sn = .ok ts := by
  have hb := bcsOfBco_rederive hg t0 cs hwf hs h0 hgc hm
  cases cs with
  | nil => simp [firstAtZero] at h0
  | cons c rest =>
    -- the position each time is sent to
    let F : Rat → Snap := fun t => ((snapAtAux g t0 c rest t).toOption).getD default
    have hF : ∀ t ∈ ts, lookupSnap g ((c :: rest).zip (tmOf t0 (c :: rest))).reverse t = .ok (F t) ∧
        queryOk (c :: rest) (F t) = true ∧ timeAt t0 (c :: rest) (F t) = t := by
      intro t ht
      obtain ⟨hT, hgrid⟩ := hts t ht
      obtain ⟨S, hS, hle, hb0, hback⟩ := timeAtAux_snapAtAux hg t0 c rest t hwf hs hm hT hgrid
      have hFt : F t = S := by simp [F, hS, Except.toOption]
      refine ⟨?_, ?_, ?_⟩
      · simp only [tmOf, List.zip_cons_cons]
        rw [lookupSnap_eq_snapAtAux g t0 c rest t hwf hs hT, hS, hFt]
      · rw [hFt]; simp [queryOk, hle, hb0]
      · rw [hFt]; exact hback
    refine ⟨ts.map F, snapsWith_order g σ _ ts _ _ F hb hσ (fun t ht => (hF t ht).1), ?_⟩
    intro σ' hσ'
    have := offsetsWith_order g σ' (tmOf t0 (c :: rest)) (ts.map F) _ _ (timeAt t0 (c :: rest)) hb hσ'
      (fun q hq => by
        obtain ⟨t, ht, rfl⟩ := List.mem_map.mp hq
        exact lookupOffset_eq_timeAt t0 (c :: rest) (F t) hwf hs (hF t ht).2.1)
    rw [this, List.map_map]
    congr 1
    calc ts.map (timeAt t0 (c :: rest) ∘ F) = ts.map id :=
          List.map_congr_left (fun t ht => (hF t ht).2.2)
      _ = ts := List.map_id ts

/-- **Round trip, general part.**  Under the hypotheses of `offsets_correct`, for `Snapper()`'s grid (`grid N`,
N ≥ 1; the code uses N = 96): EVERY list of times at or after the first change (any order, duplicates, on or off
the grid) goes through `snaps` and back through `offsets` to times within `1/(2N)` beat — 1/192 beat — of the
originals, measured with the beat length of the tempo in force at each time; results stay in query order. -/
theorem snaps_offsets_err (N : Nat) (hN : 0 < N) (t0 : Rat) (cs : List BcSnap)
    (hwf : wfChanges cs = true) (hs : sortedSnaps cs = true) (h0 : firstAtZero cs = true)
    (hgc : gridCompatible (grid N) cs = true) (hm : metronomeOk cs = true)
    (σ : List Nat) (ts : List Rat) (hσ : SortsAscR σ ts) (hts : ∀ t ∈ ts, t0 ≤ t) :
    ∃ (sn : List Snap) (B : Rat → Rat), snapsWith (grid N).toArray σ (tmOf t0 cs) ts = .ok sn ∧
      (∀ σ', SortsAsc σ' sn → offsetsWith (grid N).toArray σ' (tmOf t0 cs) sn = .ok (ts.map B)) ∧
      ∀ t ∈ ts, rabs (B t - t) ≤ 1 / (2 * (N : Rat)) * activeBeatLen t0 cs t := by
  have hg := gridOK_grid hN
  have hb := bcsOfBco_rederive hg t0 cs hwf hs h0 hgc hm
  cases cs with
  | nil => simp [firstAtZero] at h0
  | cons c rest =>
    let g := (grid N).toArray
    let F : Rat → Snap := fun t => ((snapAtAux g t0 c rest t).toOption).getD default
    have hF : ∀ t ∈ ts, lookupSnap g ((c :: rest).zip (tmOf t0 (c :: rest))).reverse t = .ok (F t) ∧
        queryOk (c :: rest) (F t) = true ∧
        rabs (timeAt t0 (c :: rest) (F t) - t) ≤ 1 / (2 * (N : Rat)) * activeBeatLen t0 (c :: rest) t := by
      intro t ht
      obtain ⟨S, hS, hle, hb0, hback⟩ :=
        timeAtAux_snapAtAux_err hg (snapOn_grid_err hN) t0 c rest t hwf hs hgc hm (hts t ht)
      have hFt : F t = S := by simp [F, g, hS, Except.toOption]
      refine ⟨?_, ?_, ?_⟩
      · simp only [tmOf, List.zip_cons_cons]
        rw [lookupSnap_eq_snapAtAux g t0 c rest t hwf hs (hts t ht), hS, hFt]
      · rw [hFt]; simp [queryOk, hle, hb0]
      · rw [hFt]; exact hback
    refine ⟨ts.map F, fun t => timeAt t0 (c :: rest) (F t),
      snapsWith_order g σ _ ts _ _ F hb hσ (fun t ht => (hF t ht).1), ?_, fun t ht => (hF t ht).2.2⟩
    intro σ' hσ'
    have := offsetsWith_order g σ' (tmOf t0 (c :: rest)) (ts.map F) _ _ (timeAt t0 (c :: rest)) hb hσ'
      (fun q hq => by
        obtain ⟨t, ht, rfl⟩ := List.mem_map.mp hq
        exact lookupOffset_eq_timeAt t0 (c :: rest) (F t) hwf hs (hF t ht).2.1)
    rw [this, List.map_map]
    rfl

/-! ### cumulative beats -/

/-- **Cumulative beats (constant metronome).**  Under the hypotheses of `offsets_correct` and one metronome `M`
for all changes: for on-grid times (any order, duplicates) and every sorting permutation numpy may choose in
`snaps` (`σq`) and in `beats` (`σs`), `TimingMap.beats` returns the declarative beat position `beatAt` of every
time, in query order — so the counts of two times differ by exactly their beat distance. -/
theorem beats_exact (g : Array Rat) (hg : GridOK g) (t0 : Rat) (cs : List BcSnap)
    (hwf : wfChanges cs = true) (hs : sortedSnaps cs = true) (h0 : firstAtZero cs = true)
    (hgc : gridCompatible g.toList cs = true) (hm : metronomeOk cs = true)
    (M : Rat) (hM : ∀ c ∈ cs, c.met = M)
    (σq : List Nat) (ts : List Rat) (hσ : SortsAscR σq ts) (hts : ∀ t ∈ ts, OnGridAt g.toList t0 cs t) :
    ∃ sn, snapsWith g σq (tmOf t0 cs) ts = .ok sn ∧
      ∀ σs, SortsAscFwd σs sn → beatsWith g σq σs (tmOf t0 cs) ts = .ok (ts.map (beatAt t0 cs)) := by
  have hb := bcsOfBco_rederive hg t0 cs hwf hs h0 hgc hm
  cases cs with
  | nil => simp [firstAtZero] at h0
  | cons c rest =>
    have wc := wfChanges_mem hwf (List.mem_cons_self)
    have hMpos : 0 < M := by rw [← hM c List.mem_cons_self]; exact wc.met_pos
    simp only [firstAtZero, Bool.and_eq_true, decide_eq_true_eq] at h0
    have hB : (0 : Rat) = snapTotal M c.snap := by unfold snapTotal; rw [h0.1, h0.2]; simp
    let F : Rat → Snap := fun t => ((snapAtAux g t0 c rest t).toOption).getD default
    have hF : ∀ t ∈ ts, lookupSnap g ((c :: rest).zip (tmOf t0 (c :: rest))).reverse t = .ok (F t) ∧
        NormSnap M (F t) ∧ snapTotal M (F t) = beatAt t0 (c :: rest) t := by
      intro t ht
      obtain ⟨hT, hgrid⟩ := hts t ht
      obtain ⟨S, hS, hn, htot⟩ := snapAtAux_total hg t0 0 c rest t hwf hs hM hB hT hgrid
      have hFt : F t = S := by simp [F, hS, Except.toOption]
      refine ⟨?_, by rw [hFt]; exact hn, by rw [hFt]; exact htot⟩
      simp only [tmOf, List.zip_cons_cons]
      rw [lookupSnap_eq_snapAtAux g t0 c rest t hwf hs hT, hS, hFt]
    have hsn := snapsWith_order g σq _ ts _ _ F hb hσ (fun t ht => (hF t ht).1)
    refine ⟨ts.map F, hsn, ?_⟩
    intro σs hσs
    unfold beatsWith
    cases hts' : ts with
    | nil => simp
    | cons t1 tl =>
      rw [← hts']
      have hne : ts.isEmpty = false := by rw [hts']; rfl
      simp only [hne, Bool.false_eq_true, if_false, hsn, bind, Except.bind]
      have hn : ∀ s ∈ ts.map F, NormSnap M s := by
        intro s hs'
        obtain ⟨t, ht, rfl⟩ := List.mem_map.mp hs'
        exact (hF t ht).2.1
      have := beats_of_snaps hMpos (ts.map F) σs hσs hn
      simp only [bind, Except.bind] at this
      refine this.trans ?_
      rw [List.map_map]
      congr 1
      exact List.map_congr_left (fun t ht => (hF t ht).2.2)

/-! ### the executable `offsets` / `snaps` / `beats` (what the correspondence check runs) -/

/-- the sorting permutation the model itself uses satisfies `SortsAsc` -/
theorem stableArgsort_sortsAsc (qs : List Snap) : SortsAsc (stableArgsort Snap.lt qs) qs :=
  stableArgsort_sortsAsc' qs

/-- **`offsets`, as executed by the driver**, returns the integration for every tempo list in the domain, every
list order / entry point, every query list. -/
theorem offsets_run_correct (g : Array Rat) (hg : GridOK g) (t0 : Rat) (cs : List BcSnap)
    (hwf : wfChanges cs = true) (hs : strictSnaps cs = true) (h0 : firstAtZero cs = true)
    (hgc : gridCompatible g.toList cs = true) (hm : metronomeOk cs = true)
    (qs : List Snap) (hq : ∀ q ∈ qs, queryOk cs q = true) (tm' : List BcOff) (hp : tm'.Perm (tmOf t0 cs)) :
    offsets g tm' qs = .ok (qs.map (timeAt t0 cs)) ∧ offsets g (fromBcOff tm') qs = .ok (qs.map (timeAt t0 cs)) :=
  offsets_correct_any_order g hg t0 cs hwf hs h0 hgc hm _ qs (stableArgsort_sortsAsc qs) hq tm' hp

/-- **`snaps` then `offsets`, as executed**: on-grid times come back exactly. -/
theorem roundtrip_run_exact (g : Array Rat) (hg : GridOK g) (t0 : Rat) (cs : List BcSnap)
    (hwf : wfChanges cs = true) (hs : sortedSnaps cs = true) (h0 : firstAtZero cs = true)
    (hgc : gridCompatible g.toList cs = true) (hm : metronomeOk cs = true)
    (ts : List Rat) (hts : ∀ t ∈ ts, OnGridAt g.toList t0 cs t) :
    ∃ sn, snaps g (tmOf t0 cs) ts = .ok sn ∧ offsets g (tmOf t0 cs) sn = .ok ts := by
  obtain ⟨sn, h1, h2⟩ := snaps_offsets_exact g hg t0 cs hwf hs h0 hgc hm _ ts (stableArgsort_sortsAscR ts) hts
  exact ⟨sn, h1, h2 _ (stableArgsort_sortsAsc sn)⟩

/-- **`snaps` then `offsets`, as executed, any times**: within 1/(2N) beat at the active tempo. -/
theorem roundtrip_run_err (N : Nat) (hN : 0 < N) (t0 : Rat) (cs : List BcSnap)
    (hwf : wfChanges cs = true) (hs : sortedSnaps cs = true) (h0 : firstAtZero cs = true)
    (hgc : gridCompatible (grid N) cs = true) (hm : metronomeOk cs = true)
    (ts : List Rat) (hts : ∀ t ∈ ts, t0 ≤ t) :
    ∃ (sn : List Snap) (B : Rat → Rat), snaps (grid N).toArray (tmOf t0 cs) ts = .ok sn ∧
      offsets (grid N).toArray (tmOf t0 cs) sn = .ok (ts.map B) ∧
      ∀ t ∈ ts, rabs (B t - t) ≤ 1 / (2 * (N : Rat)) * activeBeatLen t0 cs t := by
  obtain ⟨sn, B, h1, h2, h3⟩ :=
    snaps_offsets_err N hN t0 cs hwf hs h0 hgc hm _ ts (stableArgsort_sortsAscR ts) hts
  exact ⟨sn, B, h1, h2 _ (stableArgsort_sortsAsc sn), h3⟩

/-- **`beats`, as executed** (constant metronome, on-grid times): the declarative beat positions. -/
theorem beats_run_exact (g : Array Rat) (hg : GridOK g) (t0 : Rat) (cs : List BcSnap)
    (hwf : wfChanges cs = true) (hs : sortedSnaps cs = true) (h0 : firstAtZero cs = true)
    (hgc : gridCompatible g.toList cs = true) (hm : metronomeOk cs = true)
    (M : Rat) (hM : ∀ c ∈ cs, c.met = M) (ts : List Rat) (hts : ∀ t ∈ ts, OnGridAt g.toList t0 cs t) :
    beats g (tmOf t0 cs) ts = .ok (ts.map (beatAt t0 cs)) := by
  unfold beats
  by_cases he : ts.isEmpty = true
  · have : ts = [] := List.isEmpty_iff.mp he
    simp [this]
  · obtain ⟨sn, h1, h2⟩ := beats_exact g hg t0 cs hwf hs h0 hgc hm M hM
      (stableArgsort (fun a b => decide (a < b)) ts) ts (stableArgsort_sortsAscR ts) hts
    simp only [he, Bool.false_eq_true, if_false, h1, bind, Except.bind]
    exact h2 _ (stableArgsort_sortsAscFwd sn)

/-! ### `TimingMap.reseat()` followed by `offsets` (composition with C11) -/

theorem c10_distsOf_snd_mem : ∀ (rest : List BcSnap) (a : BcSnap) (p : Rat × BcSnap), p ∈ distsOf a rest → p.2 ∈ rest := by
  intro rest
  induction rest with
  | nil => intro a p hp; simp [distsOf] at hp
  | cons b t ih =>
    intro a p hp
    simp only [distsOf, List.mem_cons] at hp
    rcases hp with rfl | hp
    · exact List.mem_cons_self
    · exact List.mem_cons_of_mem _ (ih b p hp)

/-- **The reseated list is again in C10's domain, and `offsets` on it is the integration of the reseated list.**
For every list in C11's `Dom` (branch 2 never fires, no tiny gap: findings D16/D16b) whose changes are well-formed
in C10's sense (whole metronomes), every threshold ≥ 0, every valid grid `g` — with NO grid-compatibility
hypothesis on the result: a seated list with whole metronomes is always compatible —
`reseat` succeeds with a list `out` that is seated, well-formed, ascending, starts at (0, 0);
`from_bpm_changes_snap(t0, out, reseat=False)` stores `tmOf t0 out`; `offsets` on that map returns `timeAt t0 out`
in query order; and (C11 `reseat_spec`) every original change sits in `out` at its own millisecond position with
its own bpm wherever a whole number of measures follows. -/
theorem offsets_after_reseat (thr : Rat) (hthr : 0 ≤ thr) (g : Array Rat) (hg : GridOK g) (t0 : Rat)
    (cs : List BcSnap) (hd : Dom thr cs) (hwf : wfChanges cs = true) (σ : List Nat) (qs : List Snap)
    (hσ : SortsAsc σ qs) :
    ∃ out, reseat cs thr = .ok out ∧ seatedB out = true ∧ wfChanges out = true ∧ sortedSnaps out = true ∧
      firstAtZero out = true ∧ fromBcSnapNoReseat t0 out = .ok (tmOf t0 out) ∧
      ((∀ q ∈ qs, queryOk out q = true) → offsetsWith g σ (tmOf t0 out) qs = .ok (qs.map (timeAt t0 out))) ∧
      interleaveB 0 true (inPts t0 cs) (outPts t0 out) = true := by
  obtain ⟨out, hout, hseat, hsortfix, _, hint⟩ := reseat_spec thr hthr cs hd t0 0 (le_refl _) true
  obtain ⟨hs, hw, hf, h2, ht, hm⟩ := hd
  cases cs with
  | nil => simp [firstZeroB] at hf
  | cons b0 rest =>
    simp only [firstZeroB, Bool.and_eq_true, decide_eq_true_eq] at hf
    obtain ⟨hA, hH, _⟩ := dom_unfold thr rest b0 hs hw h2 ht hm
    have href := reseat_eq_ref thr hthr b0 rest hs hA hH
    rw [hout] at href
    have hout_eq : out = seatFromD thr 0 b0 (distsOf b0 rest) := Except.ok.inj href
    obtain ⟨h, t, hseq, hhm, hhb, _, hsorted, _, _, _⟩ :=
      seatFromD_spec thr hthr 0 (le_refl _) true (distsOf b0 rest) 0 b0 t0 hH hf.1 hf.2
    have hwb0 : wfChange b0 = true := by
      simp only [wfChanges, List.all_cons, Bool.and_eq_true] at hwf; exact hwf.1
    have hallwf := seatFromD_wf thr hthr (distsOf b0 rest) 0 b0 hH hwb0 hf.1 hf.2
      (fun p hp => by
        have := c10_distsOf_snd_mem rest b0 p hp
        simp only [wfChanges, List.all_cons, Bool.and_eq_true, List.all_eq_true] at hwf
        exact hwf.2 p.2 this)
    rw [← hout_eq] at hallwf hseq
    have hwfo : wfChanges out = true := by
      simp only [wfChanges, List.all_eq_true]; exact fun x hx => (hallwf x hx).1
    have hso : sortedSnaps out = true := by rw [hseq]; exact hsorted
    have h0o : firstAtZero out = true := by rw [hseq]; simp [firstAtZero, hhm, hhb]
    have hgco : gridCompatible g.toList out = true := seated_gridCompatible hg.zero_mem out hallwf
    have hmo : metronomeOk out = true := seated_metronomeOk out (fun x hx => (hallwf x hx).2)
    refine ⟨out, hout, hseat, hwfo, hso, h0o, fromBcSnapNoReseat_eq t0 out hwfo hso h0o, ?_, ?_⟩
    · intro hq
      obtain ⟨tm, h1, h2'⟩ := offsets_correct g hg t0 out hwfo hso h0o hgco hmo σ qs hσ hq
      rw [fromBcSnapNoReseat_eq t0 out hwfo hso h0o] at h1
      rw [← Except.ok.inj h1] at h2'
      exact h2'
    · rw [rs_isort_sorted _ hs, hsortfix] at hint; exact hint

/-- **`TimingMap.reseat()` as the driver runs it** (`C11.tmReseat`): on the stored form of a list that is in C10's
domain (so the positions are re-derived exactly) and in C11's `Dom`, it returns the re-derived positions `cs` and
the stored form of the reseated list, on which `offsets` is the integration of the reseated list. -/
theorem tmReseat_offsets (thr : Rat) (hthr : 0 ≤ thr) (t0 : Rat) (cs : List BcSnap) (hd : Dom thr cs)
    (hwf : wfChanges cs = true) (hgc : gridCompatible (grid defaultMaxDiv) cs = true) (hm : metronomeOk cs = true)
    (σ : List Nat) (qs : List Snap) (hσ : SortsAsc σ qs) :
    ∃ out, reseat cs thr = .ok out ∧ C11.tmReseat thr (tmOf t0 cs) = .ok (cs, tmOf t0 out) ∧
      ((∀ q ∈ qs, queryOk out q = true) →
        offsetsWith defaultGrid σ (tmOf t0 out) qs = .ok (qs.map (timeAt t0 out))) := by
  have hgd : GridOK defaultGrid := gridOK_grid (by decide)
  obtain ⟨out, hout, hseat, hwfo, hso, h0o, hfrom, hoff, _⟩ :=
    offsets_after_reseat thr hthr defaultGrid hgd t0 cs hd hwf σ qs hσ
  refine ⟨out, hout, ?_, hoff⟩
  have hs := hd.1
  have hf := hd.2.2.1
  cases cs with
  | nil => simp [firstZeroB] at hf
  | cons b0 rest =>
    have h0 : firstAtZero (b0 :: rest) = true := by simpa [firstAtZero, firstZeroB] using hf
    have hb := bcsOfBco_rederive hgd t0 (b0 :: rest) hwf hs h0 (by simpa [defaultGrid] using hgc) hm
    simp only [firstZeroB, Bool.and_eq_true, decide_eq_true_eq] at hf
    have hnz : ¬ (b0.snap.measure ≠ 0 ∨ b0.snap.beat ≠ 0) := by simp [hf.1, hf.2]
    have hhead : ((tmOf t0 (b0 :: rest)).headD default).offset = t0 := rfl
    unfold C11.tmReseat
    rw [hb]
    simp only [bind, Except.bind, hhead]
    unfold C11.fromBcSnapThr
    rw [rs_isort_sorted _ hs]
    simp only [hnz, if_false]
    by_cases hany : (b0 :: rest).any (fun b => b.snap.beat ≠ 0) = true
    · simp only [hany, if_true, hout, bind, Except.bind, hfrom]
    · have hseated : seatedB (b0 :: rest) = true := by
        simp only [seatedB, List.all_eq_true, decide_eq_true_eq]
        intro x hx
        by_contra hne
        exact hany (List.any_eq_true.mpr ⟨x, hx, by simpa using hne⟩)
      have hid := reseat_id_of_seated thr hthr (b0 :: rest) hd hseated
      rw [hout] at hid
      have : out = b0 :: rest := Except.ok.inj hid
      subst this
      simp only [hany, Bool.false_eq_true, if_false, hfrom]

/-- non-vacuity of `offsets_after_reseat` / `tmReseat_offsets`: a list in both domains that really is reseated
(branch 1 stretch + insert, branch 3), and what the model computes on it -/
example :
    let cs : List BcSnap := [⟨60, 4, ⟨0, 0, some 4⟩⟩, ⟨120, 4, ⟨4, 4 / 10000, some 4⟩⟩, ⟨90, 3, ⟨5, 5 / 2, some 3⟩⟩]
    let qs : List Snap := [⟨7, 1, some 3⟩, ⟨0, 0, none⟩, ⟨4, 0, some 4⟩]
    Dom (1 / 1000) cs ∧ wfChanges cs = true ∧ seatedB cs = false ∧
      ((reseat cs (1 / 1000)).toOption.map fun out =>
        (qs.all (queryOk out), (offsets (grid 4).toArray (tmOf 0 out) qs).toOption == some (qs.map (timeAt 0 out))))
        = some (true, true) := by
  refine ⟨by unfold Dom; decide +kernel, by decide +kernel, by decide +kernel, by decide +kernel⟩

/-! ### the snapper, for the grid the code builds (`grid N`, every N ≥ 1) -/

/-- **Snapping returns a nearest allowed fraction** (for every N ≥ 1 and every beat `x`). -/
theorem snap_nearest (N : Nat) (hN : 0 < N) (x : Rat) :
    IsNearest (grid N) (frac x) (snapOn (grid N).toArray x - (ffloor x : Rat)) := by
  have hg := gridOK_grid hN
  exact snapOn_nearest hg.asc x ⟨1, hg.one_mem, le_of_lt (frac_lt_one x)⟩

/-- **Snapping is idempotent.** -/
theorem snap_idem (N : Nat) (hN : 0 < N) (x : Rat) :
    snapOn (grid N).toArray (snapOn (grid N).toArray x) = snapOn (grid N).toArray x :=
  snapOn_idem (gridOK_grid hN) x

/-- **Snapping moves a beat by at most 1/(2N)** — 1/192 beat for the code's N = 96. -/
theorem snap_err (N : Nat) (hN : 0 < N) (x : Rat) : rabs (snapOn (grid N).toArray x - x) ≤ 1 / (2 * (N : Rat)) :=
  snapOn_grid_err hN x

/-- a beat is left alone exactly when its fractional part is an allowed fraction -/
theorem snap_fixes_iff_on_grid (N : Nat) (hN : 0 < N) (x : Rat) :
    snapOn (grid N).toArray x = x ↔ frac x ∈ grid N :=
  snapOn_eq_self_iff (gridOK_grid hN) x

/-- the code's constants: `Snapper()` snaps within 1/192 beat -/
theorem snap_err_default (x : Rat) : rabs (snapOn defaultGrid x - x) ≤ 1 / 192 := by
  have := snap_err defaultMaxDiv (by decide) x
  have e : (1 : Rat) / (2 * ((defaultMaxDiv : Nat) : Rat)) = 1 / 192 := by decide +kernel
  rw [e] at this
  exact this

/-! ### error branches and the known finding -/

/-- `TimingMap.snaps`: with no tempo change at or before a time the model raises the `IndexError` class -/
theorem lookupSnap_before_first (g : Array Rat) (rb : List (BcSnap × BcOff)) (t : Rat)
    (h : ∀ p ∈ rb, p.2.offset > t) : lookupSnap g rb t = .error .index := by
  unfold lookupSnap
  have : rb.dropWhile (fun p => decide (p.2.offset > t)) = [] := by
    induction rb with
    | nil => rfl
    | cons a tl ih =>
      rw [List.dropWhile_cons, decide_eq_true (h a (by simp))]
      exact ih (fun p hp => h p (by simp [hp]))
  rw [this]

/-- **D22 on the model**: without `gridCompatible` the statement of `offsets_correct` is false — a well-formed,
strictly ascending list that starts at (0, 0) and keeps one metronome, whose second and third changes are a
distance apart that is not a grid value, gives an `offsets` answer different from the integration (here for the
grid `N = 4`, kernel-evaluated; the same happens on the real code with N = 96, witness in known_findings). -/
theorem grid_incompatible_counterexample :
    ∃ (N : Nat) (cs : List BcSnap) (q : Snap), 0 < N ∧ wfChanges cs = true ∧ strictSnaps cs = true ∧
      firstAtZero cs = true ∧ metronomeOk cs = true ∧ queryOk cs q = true ∧ gridCompatible (grid N) cs = false ∧
      (fromBcSnapNoReseat 0 cs).toOption.map (fun tm => (offsets (grid N).toArray tm [q]).toOption)
        ≠ some (some [timeAt 0 cs q]) :=
  ⟨4, [⟨120, 4, ⟨0, 0, some 4⟩⟩, ⟨60, 4, ⟨0, 1/8, some 4⟩⟩, ⟨240, 4, ⟨1, 1/3, some 4⟩⟩], ⟨3, 0, none⟩,
    by decide +kernel⟩

/-! non-vacuity: concrete instances of the hypotheses -/

/-- `offsets_correct_bpmList` / `offsets_correct_any_order`: rows in shuffled order with a pure time-signature
change (120 bpm 4/4 → 120 bpm 3/4) satisfy the hypotheses, and the model answers with `timeAt` -/
example :
    let cs : List BcSnap := [⟨120, 4, ⟨0, 0, some 4⟩⟩, ⟨120, 3, ⟨1, 0, some 3⟩⟩, ⟨200, 3, ⟨3, 0, some 3⟩⟩]
    let qs : List Snap := [⟨2, 0, some 3⟩, ⟨0, 1, none⟩, ⟨4, 1/2, some 3⟩]
    let rows : List (Rat × Rat × Rat) := [(5000, 200, 3), (0, 120, 4), (2000, 120, 3)]
    wfChanges cs = true ∧ strictSnaps cs = true ∧ firstAtZero cs = true ∧ metronomeOk cs = true ∧
      gridCompatible (grid 4) cs = true ∧ (∀ q ∈ qs, queryOk cs q = true) ∧
      (rows.map fun r => (⟨r.2.1, r.2.2, r.1⟩ : BcOff)).Perm (tmOf 0 cs) ∧
      offsets (grid 4).toArray (bpmListToTimingMap rows) qs = .ok (qs.map (timeAt 0 cs)) := by
  refine ⟨by decide +kernel, by decide +kernel, by decide +kernel, by decide +kernel, by decide +kernel,
    by decide +kernel, by decide +kernel, by decide +kernel⟩

/-- `snaps_offsets_exact` / `beats_exact`: on-grid times in a two-tempo map (hypothesis `OnGridAt` through its
evaluated form `timeInfo2`), and what the model computes there -/
example :
    let cs : List BcSnap := [⟨120, 4, ⟨0, 0, some 4⟩⟩, ⟨60, 4, ⟨1, 2, some 4⟩⟩]
    let ts : List Rat := [4000, -250, 2750, 1000]
    (∀ t ∈ ts, (timeInfo2 (grid 4) (-250) cs t).beforeFirst = false ∧ (timeInfo2 (grid 4) (-250) cs t).onGrid = true) ∧
      ((fromBcSnapNoReseat (-250) cs).toOption.map fun tm =>
        ((snaps (grid 4).toArray tm ts).toOption.map fun sn => (offsets (grid 4).toArray tm sn).toOption))
        = some (some (some ts)) ∧
      ((fromBcSnapNoReseat (-250) cs).toOption.map fun tm => (beats (grid 4).toArray tm ts).toOption)
        = some (some (ts.map (beatAt (-250) cs))) := by
  refine ⟨by decide +kernel, by decide +kernel, by decide +kernel⟩

example : SortsAsc [1, 2, 0] [⟨2, 0, none⟩, ⟨0, 1/2, none⟩, ⟨1, 3, none⟩] := by
  refine ⟨by unfold IsPerm; decide, by decide, ?_⟩
  simp [gather, DescSnaps, Snap.le, Snap.lt, Snap.eqv]

/-- the hypotheses of `offsets_correct` are jointly satisfiable on a non-trivial map (three changes, a metronome
change on a measure line, a change inside a measure), and the conclusion is what the model computes there -/
example :
    let cs : List BcSnap := [⟨120, 4, ⟨0, 0, some 4⟩⟩, ⟨60, 3, ⟨1, 0, some 3⟩⟩, ⟨90, 3, ⟨2, 3/2, some 3⟩⟩]
    let qs : List Snap := [⟨3, 0, none⟩, ⟨0, 7/2, some 4⟩, ⟨2, 3/2, none⟩, ⟨0, 7/2, some 4⟩]
    wfChanges cs = true ∧ sortedSnaps cs = true ∧ firstAtZero cs = true ∧ gridCompatible (grid 4) cs = true ∧
      metronomeOk cs = true ∧ (∀ q ∈ qs, queryOk cs q = true) ∧
      (fromBcSnapNoReseat (-1000) cs).toOption.map (fun tm => (offsets (grid 4).toArray tm qs).toOption)
        = some (some (qs.map (timeAt (-1000) cs))) := by decide +kernel

example : (offsets (grid 4).toArray [⟨120, 4, 0⟩, ⟨60, 4, 3000⟩] [⟨2, 0, some 4⟩, ⟨0, 1/2, some 4⟩, ⟨1, 3, some 4⟩]).toOption
    = some [5000, 250, 4000] := by decide +kernel

end Reamber.Timing
