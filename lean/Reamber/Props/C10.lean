/-
C10 — Timing engine: beat positions and millisecond offsets convert consistently.
Property theorems (helper lemmas live in `Reamber/Lemmas/*`).  Statements are about the executable model
`Reamber/Model/Timing.lean`, which the correspondence check ties to
reamber/algorithms/timing/{TimingMap.py, utils/*.py} on every run.
-/
import Reamber.Lemmas.Sweep
import Reamber.Spec.Timing
import Reamber.Generated.Consts

namespace Reamber.Timing

/-- Tie to the source: the constants the model uses are the ones the translator read from the code
(`max(DEFAULT_DIVISIONS)`, `extend_threshold`, `RAConst.MIN_TO_MSEC`). Re-checked whenever they change. -/
theorem consts_tie :
    defaultMaxDiv = Generated.defaultDivisions.foldl max 0 ∧
    extendThreshold = Generated.extendThreshold ∧
    minToMsec = Generated.minToMsec := by decide +kernel

/-- `σ` arranges the queries in ascending order (what `argsort` returns — for *any* tie order). -/
def SortsAsc (σ : List Nat) (qs : List Snap) : Prop :=
  IsPerm σ ∧ σ.length = qs.length ∧ DescSnaps (gather qs σ).reverse

/-- **Results are returned in the order of the queries** (any multiset of queries, any order, duplicates,
any sorting permutation numpy may choose): if the independent lookup of every query succeeds with value
`F q`, `TimingMap.offsets` returns `F` mapped over the queries in their original order. -/
theorem offsetsWith_order (g : Array Rat) (σ : List Nat) (tm : List BcOff) (qs : List Snap)
    (bco : List BcOff) (bcs : List BcSnap) (F : Snap → Rat)
    (hb : bcsOfBco g tm = .ok (bco, bcs)) (hσ : SortsAsc σ qs)
    (hF : ∀ q ∈ qs, lookupOffset (bcs.zip bco).reverse q = .ok (F q)) :
    offsetsWith g σ tm qs = .ok (qs.map F) := by
  obtain ⟨hperm, hlen, hdesc⟩ := hσ
  unfold offsetsWith
  simp only [hb, bind, Except.bind]
  have hg : gather qs σ.reverse = (gather qs σ).reverse := by simp [gather]
  rw [sweepOffsets_eq_mapE _ _ (by rw [hg]; exact hdesc)]
  have hmem : ∀ q ∈ gather qs σ.reverse, lookupOffset (bcs.zip bco).reverse q = .ok (F q) := by
    intro q hq
    simp only [gather, List.mem_map] at hq
    obtain ⟨i, hi, rfl⟩ := hq
    apply hF
    have hi' : i < qs.length := by
      have := (isPerm_reverse hperm).mem_iff i
      rw [this] at hi
      simpa [hlen] using hi
    simp [List.getD_eq_getElem?_getD, List.getElem?_eq_getElem hi']
  rw [mapE_eq_ok_map _ F _ hmem]
  simp only []
  rw [gather_map_argsort F qs σ.reverse (isPerm_reverse hperm) (by simpa using hlen)]

/-- the error branch is covered explicitly, not totalised: with no tempo change at or before a query the
model raises the `IndexError` class, as the code does -/
theorem lookupOffset_before_first (rb : List (BcSnap × BcOff)) (q : Snap)
    (h : ∀ p ∈ rb, p.1.snap.gt q = true) : lookupOffset rb q = .error .index := by
  unfold lookupOffset
  have : rb.dropWhile (fun p => p.1.snap.gt q) = [] := by
    induction rb with
    | nil => rfl
    | cons a t ih =>
      rw [List.dropWhile_cons, h a (by simp)]
      exact ih (fun p hp => h p (by simp [hp]))
  rw [this]

/-! non-vacuity: concrete instances of the hypotheses -/

example : SortsAsc [1, 2, 0] [⟨2, 0, none⟩, ⟨0, 1/2, none⟩, ⟨1, 3, none⟩] := by
  refine ⟨by unfold IsPerm; decide, by decide, ?_⟩
  simp [gather, DescSnaps, Snap.le, Snap.lt, Snap.eqv]

example : (offsets (grid 4).toArray [⟨120, 4, 0⟩, ⟨60, 4, 3000⟩] [⟨2, 0, some 4⟩, ⟨0, 1/2, some 4⟩, ⟨1, 3, some 4⟩]).toOption
    = some [5000, 250, 4000] := by decide +kernel

end Reamber.Timing
