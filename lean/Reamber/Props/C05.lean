/-
C05 — BMS writing produces a file that denotes the in-memory chart.

Main theorem: `bms_write_read` (end of this file) —

  ∀ tempo list cs (well-formed 4/4 points, strictly ascending, first at measure 0 beat 0, grid-compatible on the
    grid of 96), layout (LayoutOK, time-signature channel apart: `layouts_ok`, `layouts_timeSig` for the five
    generated ones), chart c whose tempo rows are ANY arrangement of `tmOf 0 cs` (first tempo point at time 0: ¬D35),
    tempos with ≤ 3 decimals (¬D06), rows in measures 000–999 (¬D36) with no two objects on one (channel, slot),
    every lane's hits and holds following one another in time (¬D37), header domain `HeaderOK`:
    ∃ lines d, write defaultGrid layout dflt c = .ok lines ∧ denote layout lines = some d ∧
      d.tempo = header tempo :: cs ∧ d.shits / d.sholds = per lane, one hit per hit and one hold per hold, at
      positions whose by-the-book times are the in-memory times exactly on the snap grid and within 1/192 beat
      (at the tempo in force) otherwise.

`bms_write_read_nonvacuous` instantiates every hypothesis on a concrete chart.  Pieces (this file): the file's lines
as a permutation of the cells' objects (`written_objects_perm`, `written_file_objects`, header lines contribute no data
lines: `foldlE_docStep_header`), pairwise different positions from monotone snapping (`posFn_mono`,
`positions_strict`; K1: `Lemmas/SnapMono.lean`), the writer's cells (`cells_ok`, C15's `writeCells_eq`,
`cells_objects`), lanes (`lane_rows_perm`, `written_lane_denotes`), tempo objects (`written_tempo_denotes`), header
(`Lemmas/BMSHeader.lean`: `written_header_read`), `rows_normalised`.

The earlier property theorems live in `Reamber/Lemmas/BMSWrite.lean` (same namespace and names as before:
`findLcm_dvd`, `newDens_dvd`, `slot_exact`, `slot_roundtrip`, `no_merge_no_drop`, `line_valid`, `lineKeys_cover`,
`written_line_denotes`, `written_objects`, `pairLane_atoms`, `write_positions`, `written_tempo_list`,
`exbpm_table_readback`, `parseFloat_showFixed`, `bms_write_read_partial`, … — see its header for the full list and for
what each says); they were moved there so that C15's `Lemmas/PermInvBMS.lean` (`posFn`, `snaps_pointwise`,
`cells_objects`), which builds on them, can be used here.

Samples and the header's text fields: `bms_write_read_header` (end of this file; lemmas in
`Lemmas/BMSHeaderMore.lean`) — under `MiscOK` (no other-key entry named `TITLE` / `ARTIST` / `PLAYLEVEL` or of the
`WAV…` form) and `SamplesOK` (a dict of two-character ids, file names that survive the reader's `strip`) the header record
of the denotation carries the chart's sample table exactly, title / artist / version (without trailing white space) and
the `#LNOBJ` id; the `#WAV` entry of the id a KNOWN sample is written under is that sample (`sample_readback`), an
unknown sample goes under the default id.  Without `MiscOK` the statement is false for the code as it is: finding D46,
`title_shadowed_by_misc` (a chart obtained through `BMSMap.read` keeps `TITLE`… in `misc`; the writer prints them after
its own lines; the last line of a key wins).

Still outside (stated, not hidden): metronome ≠ 4 (channel-02 lines); the byte lexer is shared by `write`'s reader side
and `denote`.
-/
import Reamber.Lemmas.BMSWrite
import Reamber.Lemmas.PermInvBMS
import Reamber.Lemmas.SnapMono
import Reamber.Lemmas.BMSHeader
import Reamber.Lemmas.BMSHeaderMore
import Reamber.Props.C04

namespace Reamber.BMS

open Reamber.Timing Reamber.PermInv

/-! ### (1) the file's lines give every channel an ARRANGEMENT of its cells' objects -/

/-- the by-the-book object of a written cell -/
def objOfCell (c : WCell) : Obj :=
  ⟨⟨(c.measure.toNat : Int), 4 * ((c.idx : Nat) : Rat) / ((c.den : Nat) : Rat), none⟩, c.value⟩

def cellShown (ch : Bytes) (c : WCell) : Bool := decide (c.channel = ch) && decide (c.value ≠ ['0', '0'])

/-- keys that name pairwise different lines and cover the cells split the cells into their lines -/
theorem partition_perm (ks : List WCell) (hpw : ks.Pairwise (fun a b => sameLine a b = false)) :
    ∀ (l : List WCell), (∀ c ∈ l, ∃ k ∈ ks, sameLine k c = true) →
      l.Perm (ks.flatMap (fun k => l.filter (sameLine k))) := by
  intro l
  induction l with
  | nil => intro _; simp
  | cons c t ih =>
    intro hcov
    have ih' := ih (fun x hx => hcov x (by simp [hx]))
    obtain ⟨k0, hk0, hs0⟩ := hcov c (by simp)
    -- exactly the line of `k0` receives `c`
    have huniq : ∀ k ∈ ks, k ≠ k0 → sameLine k c = false := by
      intro k hk hne
      cases hsk : sameLine k c with
      | false => rfl
      | true =>
        exfalso
        have hkk : sameLine k k0 = true := sameLine_trans hsk (sameLine_symm hs0)
        have key : ∀ (l : List WCell), l.Pairwise (fun a b => sameLine a b = false) → k ∈ l → k0 ∈ l → False := by
          intro l
          induction l with
          | nil => intro _ h1; cases h1
          | cons x r ihr =>
            intro hp h1 h2
            have hp' := List.pairwise_cons.mp hp
            rcases List.mem_cons.mp h1 with e1 | h1'
            · rcases List.mem_cons.mp h2 with e2 | h2'
              · exact hne (e1.trans e2.symm)
              · have := hp'.1 k0 h2'; rw [← e1, hkk] at this; cases this
            · rcases List.mem_cons.mp h2 with e2 | h2'
              · have := hp'.1 k h1'; rw [← e2, sameLine_symm hkk] at this; cases this
              · exact ihr hp'.2 h1' h2'
        exact key ks hpw hk hk0
    obtain ⟨A, B, hAB⟩ := List.append_of_mem hk0
    have hA : ∀ k ∈ A, sameLine k c = false := by
      intro k hk
      apply huniq k (by rw [hAB]; simp [hk])
      intro e
      rw [hAB] at hpw
      have := (List.pairwise_append.mp hpw).2.2 k hk k0 (by simp)
      rw [e, sameLine_refl] at this; cases this
    have hB : ∀ k ∈ B, sameLine k c = false := by
      intro k hk
      apply huniq k (by rw [hAB]; simp [hk])
      intro e
      rw [hAB] at hpw
      have := (List.pairwise_cons.mp (List.pairwise_append.mp hpw).2.1).1 k hk
      rw [e, sameLine_refl] at this; cases this
    have eA : A.flatMap (fun k => (c :: t).filter (sameLine k)) = A.flatMap (fun k => t.filter (sameLine k)) := by
      apply flatMap_congr'
      intro k hk; simp [List.filter_cons, hA k hk]
    have eB : B.flatMap (fun k => (c :: t).filter (sameLine k)) = B.flatMap (fun k => t.filter (sameLine k)) := by
      apply flatMap_congr'
      intro k hk; simp [List.filter_cons, hB k hk]
    rw [hAB] at ih' ⊢
    simp only [List.flatMap_append, List.flatMap_cons, eA, eB] at ih' ⊢
    simp only [List.filter_cons, hs0, if_true]
    refine (List.Perm.cons c ih').trans ?_
    exact List.perm_middle.symm

theorem objsOfPairs_sorted (m n : Nat) (hn : 0 < n) : ∀ (l : List Bytes) (k : Nat),
    ((zipIdxFrom k l).filterMap (fun p =>
      if p.2 = ['0', '0'] then none
      else some (⟨⟨(m : Int), 4 * ((p.1 : Nat) : Rat) / ((n : Nat) : Rat), none⟩, p.2⟩ : Obj))).Pairwise
      (fun a b => a.snap.beat < b.snap.beat) ∧
    ∀ o ∈ (zipIdxFrom k l).filterMap (fun p =>
      if p.2 = ['0', '0'] then none
      else some (⟨⟨(m : Int), 4 * ((p.1 : Nat) : Rat) / ((n : Nat) : Rat), none⟩, p.2⟩ : Obj)),
      4 * ((k : Nat) : Rat) / ((n : Nat) : Rat) ≤ o.snap.beat := by
  intro l
  have hnq : (0 : Rat) < ((n : Nat) : Rat) := by exact_mod_cast hn
  induction l with
  | nil => intro k; simp [zipIdxFrom]
  | cons a t ih =>
    intro k
    obtain ⟨ih1, ih2⟩ := ih (k + 1)
    have hstep : 4 * ((k : Nat) : Rat) / ((n : Nat) : Rat) < 4 * (((k + 1 : Nat)) : Rat) / ((n : Nat) : Rat) := by
      rw [div_lt_div_iff_of_pos_right hnq]; push_cast; linarith
    simp only [zipIdxFrom, List.filterMap_cons]
    by_cases h00 : a = ['0', '0']
    · simp only [h00, if_true]
      exact ⟨ih1, fun o ho => le_trans (le_of_lt hstep) (ih2 o ho)⟩
    · simp only [h00, if_false]
      refine ⟨List.pairwise_cons.mpr ⟨fun o ho => lt_of_lt_of_le hstep (ih2 o ho), ih1⟩, ?_⟩
      intro o ho
      rcases List.mem_cons.mp ho with rfl | ho
      · exact le_refl _
      · exact le_trans (le_of_lt hstep) (ih2 o ho)

theorem nodup_of_pairwise_lt {α} (f : α → Rat) (l : List α) (h : l.Pairwise (fun a b => f a < f b)) : l.Nodup :=
  h.imp (fun {a b} hab e => by rw [e] at hab; exact lt_irrefl _ hab)

/-- **The written data lines give every channel an arrangement of exactly its cells' objects.**  The lift of
`written_objects` from a membership equivalence to a permutation: for renderable cells with the cells of every
output line on pairwise different slots inside the line, the by-the-book objects of channel `ch` over all lines of
`linesOfCells cells` are — up to order, with multiplicities — the objects of the non-`00` cells of that channel. -/
theorem written_objects_perm (cells : List WCell) (hcell : ∀ c ∈ cells, CellOK c)
    (hslots : ∀ k ∈ lineKeys cells, (cells.filter (sameLine k)).Pairwise (fun a b => a.idx ≠ b.idx) ∧
      ∀ c ∈ cells.filter (sameLine k), c.idx < k.den) (doc0 : Doc) :
    ∃ notes, foldlE docStep doc0 (linesOfCells cells) = .ok ⟨doc0.header, doc0.notes ++ notes⟩ ∧
      (∀ d ∈ notes, (∃ m, parseNat d.1 = some m) ∧ (∃ ps, evenPairs d.2.2 = some ps) ∧ ∃ k ∈ lineKeys cells, d.2.1 = k.channel) ∧
      ∀ ch, (laneObjs notes ch).Perm ((cells.filter (cellShown ch)).map objOfCell) := by
  obtain ⟨hsub, hcov, hpw⟩ := lineKeys_cover cells
  -- line by line: the line is a data line whose objects are an arrangement of its cells' objects
  have hline : ∀ k ∈ lineKeys cells, ∃ d : Bytes × Bytes × Bytes, classify (lineOf cells k) = .ok (.note d.1 d.2.1 d.2.2) ∧
      d.2.1 = k.channel ∧ (∃ m, parseNat d.1 = some m) ∧ (∃ ps, evenPairs d.2.2 = some ps) ∧
      (objsOfLine d).Perm (((cells.filter (sameLine k)).filter (fun c => decide (c.value ≠ ['0', '0']))).map objOfCell) := by
    intro k hk
    obtain ⟨hm, hden, hch, _⟩ := hcell k (hsub k hk)
    obtain ⟨mt, data, objs, hcl, hpn, hlo, hiff⟩ := written_line_denotes cells k hm hden hch
      (fun c hc => (hcell c hc).2.2.2) (hslots k hk).1 (hslots k hk).2
    have hobj : objsOfLine (mt, k.channel, data) = objs := objsOfLine_of (mt, k.channel, data) _ objs hpn hlo
    -- the structure of `objs`
    unfold lineObjs at hlo
    cases hps : evenPairs data with
    | none => simp [hps] at hlo
    | some ps =>
      simp only [hps, Option.map_some, Option.some.injEq] at hlo
      refine ⟨(mt, k.channel, data), hcl, rfl, ⟨_, hpn⟩, ⟨ps, hps⟩, ?_⟩
      rw [hobj]
      have hnd1 : objs.Nodup := by
        rw [← hlo]
        by_cases hn : 0 < ps.length
        · exact nodup_of_pairwise_lt (fun o : Obj => o.snap.beat) _ (objsOfPairs_sorted k.measure.toNat ps.length hn ps 0).1
        · have : ps = [] := List.eq_nil_of_length_eq_zero (by omega)
          subst this; simp [zipIdxFrom]
      have hnd2 : (((cells.filter (sameLine k)).filter (fun c => decide (c.value ≠ ['0', '0']))).map objOfCell).Nodup := by
        have hden' : (0 : Rat) < ((k.den : Nat) : Rat) := by exact_mod_cast hden
        have hp := ((hslots k hk).1.filter (fun c => decide (c.value ≠ ['0', '0'])))
        apply List.Nodup.map_on _ (hp.imp (fun {a b} hab e => hab (by rw [e])))
        intro a ha b hb hab
        have ha' := (List.mem_filter.mp (List.mem_filter.mp ha).1).2
        have hb' := (List.mem_filter.mp (List.mem_filter.mp hb).1).2
        obtain ⟨a1, a2, a3⟩ := (sameLine_iff k a).mp ha'
        obtain ⟨b1, b2, b3⟩ := (sameLine_iff k b).mp hb'
        simp only [objOfCell, Obj.mk.injEq, Snap.mk.injEq] at hab
        obtain ⟨⟨_, hbeat, _⟩, hval⟩ := hab
        rw [← a3, ← b3] at hbeat
        have hidx : a.idx = b.idx := by
          rw [div_left_inj' (ne_of_gt hden')] at hbeat
          have : ((a.idx : Nat) : Rat) = ((b.idx : Nat) : Rat) := by linarith
          exact_mod_cast this
        -- same line, same slot, same value: the same cell
        obtain ⟨am, ach, aden, aidx, aval⟩ := a
        obtain ⟨bm, bch, bden, bidx, bval⟩ := b
        simp only at a1 a2 a3 b1 b2 b3 hidx hval
        subst hidx hval
        rw [← a1, ← a2, ← a3, ← b1, ← b2, ← b3]
      apply (List.perm_ext_iff_of_nodup hnd1 hnd2).mpr
      intro o
      rw [hiff o]
      simp only [List.mem_map, List.mem_filter, decide_eq_true_eq, objOfCell]
      constructor
      · rintro ⟨c, hc, hv, rfl⟩
        obtain ⟨e1, _, e3⟩ := (sameLine_iff k c).mp hc.2
        exact ⟨c, ⟨hc, hv⟩, by rw [e1, e3]⟩
      · rintro ⟨c, ⟨hc, hv⟩, rfl⟩
        obtain ⟨e1, _, e3⟩ := (sameLine_iff k c).mp hc.2
        exact ⟨c, hc, hv, by rw [e1, e3]⟩
  -- all lines
  have hgen : ∀ ks : List WCell, (∀ k ∈ ks, k ∈ lineKeys cells) →
      ∃ notes, List.Forall₂ (fun l d => classify l = .ok (.note d.1 d.2.1 d.2.2)) (ks.map (lineOf cells)) notes ∧
        (∀ d ∈ notes, (∃ m, parseNat d.1 = some m) ∧ (∃ ps, evenPairs d.2.2 = some ps) ∧ ∃ k ∈ lineKeys cells, d.2.1 = k.channel) ∧
        ∀ ch, (laneObjs notes ch).Perm
          (ks.flatMap (fun k => ((cells.filter (sameLine k)).filter (cellShown ch)).map objOfCell)) := by
    intro ks
    induction ks with
    | nil => intro _; exact ⟨[], List.Forall₂.nil, (by intro d hd; cases hd), (by intro ch; simp [laneObjs])⟩
    | cons k t ih =>
      intro hks
      obtain ⟨notes, hf, hwfN, hperm⟩ := ih (fun x hx => hks x (by simp [hx]))
      obtain ⟨d, hcl, hdch, hpn, hps, hdo⟩ := hline k (hks k (by simp))
      refine ⟨d :: notes, List.Forall₂.cons hcl hf, ?_, ?_⟩
      · intro x hx
        rcases List.mem_cons.mp hx with rfl | hx
        · exact ⟨hpn, hps, k, hks k (by simp), hdch⟩
        · exact hwfN x hx
      · intro ch
        rw [laneObjs_cons, List.flatMap_cons]
        refine List.Perm.append ?_ (hperm ch)
        by_cases hc : d.2.1 = ch
        · simp only [hc, if_true]
          refine hdo.trans (List.Perm.of_eq ?_)
          congr 1
          apply List.filter_congr
          intro c hcm
          have := (sameLine_iff k c).mp (List.mem_filter.mp hcm).2
          simp [cellShown, ← this.2.1, ← hdch, hc]
        · simp only [hc, if_false]
          apply List.Perm.of_eq
          symm
          rw [List.map_eq_nil_iff, List.filter_eq_nil_iff]
          intro c hcm
          have := (sameLine_iff k c).mp (List.mem_filter.mp hcm).2
          simp only [cellShown, Bool.and_eq_true, decide_eq_true_eq, not_and]
          intro e
          exact absurd (hdch.trans (this.2.1.trans e)) hc
  obtain ⟨notes, hf, hwfN, hperm⟩ := hgen (lineKeys cells) (fun k hk => hk)
  refine ⟨notes, foldlE_docStep_notes _ doc0 notes hf, hwfN, ?_⟩
  intro ch
  refine (hperm ch).trans ?_
  have hpart := partition_perm (lineKeys cells) hpw cells hcov
  have h1 : ((cells.filter (cellShown ch)).map objOfCell).Perm
      ((((lineKeys cells).flatMap (fun k => cells.filter (sameLine k))).filter (cellShown ch)).map objOfCell) :=
    ((hpart.filter _).map _)
  refine List.Perm.trans (List.Perm.of_eq ?_) h1.symm
  rw [List.filter_flatMap, List.map_flatMap]

/-! ### the header lines contribute no data lines -/

/-- a line the header writer emits: empty, or `#` followed by a character that is neither a digit nor white space -/
def HeaderLike (l : Bytes) : Prop := l = [] ∨ ∃ c rest, l = '#' :: c :: rest ∧ isDigit c = false ∧ isWs c = false

theorem lstrip_append_keep (A B : Bytes) : ∃ A', lstrip (A ++ B) = A' ++ B ∨ (lstrip (A ++ B) = lstrip B) := by
  induction A with
  | nil => exact ⟨[], Or.inr rfl⟩
  | cons a t ih =>
    by_cases ha : isWs a = true
    · obtain ⟨A', h⟩ := ih
      refine ⟨A', ?_⟩
      simp only [List.cons_append, lstrip, ha, if_true]
      exact h
    · exact ⟨a :: t, Or.inl (by simp [lstrip, ha])⟩

theorem strip_headerLike (c : Char) (rest : Bytes) (hc : isWs c = false) :
    ∃ rest', strip ('#' :: c :: rest) = '#' :: c :: rest' := by
  unfold strip
  have hsharp : isWs '#' = false := by decide
  have h1 : lstrip ('#' :: c :: rest) = '#' :: c :: rest := by simp [lstrip, hsharp]
  rw [h1]
  have hrev : ('#' :: c :: rest).reverse = rest.reverse ++ [c, '#'] := by simp
  rw [hrev]
  obtain ⟨A', h⟩ := lstrip_append_keep rest.reverse [c, '#']
  rcases h with h | h
  · rw [h]; exact ⟨A'.reverse, by simp⟩
  · rw [h]
    have : lstrip [c, '#'] = [c, '#'] := by simp [lstrip, hc]
    rw [this]; exact ⟨[], by simp⟩

/-- a header-like line is classified as a header entry or skipped: never a data line, never an error -/
theorem classify_headerLike (l : Bytes) (h : HeaderLike l) :
    (∃ k v, classify l = .ok (.header k v)) ∨ classify l = .ok .skip := by
  rcases h with rfl | ⟨c, rest, rfl, hd, hw⟩
  · right; rfl
  · obtain ⟨rest', hs⟩ := strip_headerLike c rest hw
    unfold classify
    rw [hs]
    simp only []
    cases hsp : splitSpace1 ('#' :: c :: rest') with
    | mk k v =>
      cases v with
      | some v => left; exact ⟨k.drop 1, v, rfl⟩
      | none =>
        right
        -- no space: the command is the line itself
        have hk : k = '#' :: c :: rest' := by
          have : ∀ (s : Bytes) (a : Bytes), splitSpace1 s = (a, none) → a = s := by
            intro s
            induction s with
            | nil => intro a h; simp [splitSpace1] at h; exact h
            | cons x t ih =>
              intro a h
              simp only [splitSpace1] at h
              by_cases hx : x = ' '
              · simp [hx] at h
              · simp only [hx, if_false] at h
                cases ht : splitSpace1 t with
                | mk a' b' =>
                  simp only [ht, Prod.mk.injEq] at h
                  obtain ⟨rfl, rfl⟩ := h
                  rw [ih a' ht]
          exact this _ _ hsp
        subst hk
        simp [hd]

/-- **The header lines contribute no data lines**: folding the lexer over header-like lines leaves the data lines
collected so far untouched. -/
theorem foldlE_docStep_header (ls : List Bytes) (h : ∀ l ∈ ls, HeaderLike l) :
    ∀ doc0 : Doc, ∃ H, foldlE docStep doc0 ls = .ok ⟨H, doc0.notes⟩ := by
  induction ls with
  | nil => intro doc0; exact ⟨doc0.header, rfl⟩
  | cons l t ih =>
    intro doc0
    rw [foldlE_cons]
    rcases classify_headerLike l (h l (by simp)) with ⟨k, v, hc⟩ | hc
    · simp only [docStep, hc]
      exact ih (fun x hx => h x (by simp [hx])) _
    · simp only [docStep, hc]
      exact ih (fun x hx => h x (by simp [hx])) _

theorem foldlE_append {σ α} (f : σ → α → Except Err σ) (a b : List α) (s s' : σ) (h : foldlE f s a = .ok s') :
    foldlE f s (a ++ b) = foldlE f s' b := by
  induction a generalizing s with
  | nil => simp only [foldlE] at h; cases h; rfl
  | cons x t ih =>
    rw [List.cons_append, foldlE_cons]
    rw [foldlE_cons] at h
    cases hx : f s x with
    | error e => simp [hx] at h
    | ok s1 => simp only [hx] at h ⊢; exact ih s1 h

/-- the lines the header writer emits are header-like when the `misc` keys start with a letter-like character -/
theorem writeHeader_headerLike (c : WChart) (hl : List Bytes) (h : writeHeader c = .ok hl)
    (hmisc : ∀ kv ∈ c.misc, ∃ a r, kv.1 = a :: r ∧ isDigit a = false ∧ isWs a = false) : ∀ l ∈ hl, HeaderLike l := by
  unfold writeHeader at h
  cases hb : c.bpms with
  | nil => simp [hb] at h
  | cons b0 rest =>
    simp only [hb] at h
    split at h
    · cases h
    · cases hs : showExact b0.bpm with
      | none => simp [hs] at h
      | some txt =>
        simp only [hs, Except.ok.injEq] at h
        subst h
        intro l hl'
        simp only [List.mem_append, List.mem_cons, List.mem_map, List.not_mem_nil, or_false] at hl'
        rcases hl' with ((((rfl | rfl | rfl | rfl) | ⟨kv, hkv, rfl⟩) | rfl) | ⟨p, _, rfl⟩) | ⟨kv, _, rfl⟩
        · exact Or.inr ⟨'T', _, rfl, by decide, by decide⟩
        · exact Or.inr ⟨'A', _, rfl, by decide, by decide⟩
        · exact Or.inr ⟨'B', _, rfl, by decide, by decide⟩
        · exact Or.inr ⟨'P', _, rfl, by decide, by decide⟩
        · obtain ⟨a, r, hk, hd, hw⟩ := hmisc kv hkv
          exact Or.inr ⟨a, r ++ [' '] ++ kv.2, by simp [hk], hd, hw⟩
        · by_cases he : c.lnEnd.isEmpty = true
          · simp [he]; exact Or.inl rfl
          · simp only [he, Bool.false_eq_true, if_false]
            exact Or.inr ⟨'L', _, rfl, by decide, by decide⟩
        · exact Or.inr ⟨'B', _, rfl, by decide, by decide⟩
        · exact Or.inr ⟨'W', _, rfl, by decide, by decide⟩

/-! ### (2) pairwise different positions in time order, from monotone snapping -/

/-- `posFn` is monotone in the time (4/4 tempo list): a later time is never written at an earlier position -/
theorem posFn_mono (cs : List BcSnap) (hwf : wfChanges cs = true) (hs : sortedSnaps cs = true)
    (hgc : gridCompatible (grid defaultMaxDiv) cs = true) (hm4 : ∀ c ∈ cs, c.met = 4) (t1 t2 : Rat) (h0 : 0 ≤ t1) (h12 : t1 ≤ t2) :
    (posFn cs t1).le (posFn cs t2) = true := by
  have hg : GridOK defaultGrid := gridOK_grid (by decide)
  have hgc' : gridCompatible defaultGrid.toList cs = true := by simpa [defaultGrid] using hgc
  cases cs with
  | nil => simp [posFn, Snap.le, Snap.eqv]
  | cons c rest =>
    obtain ⟨S1, S2, e1, e2, hle⟩ := snapAtAux_mono hg 4 rest 0 c t1 t2 hwf hs hgc' hm4 h0 h12
    simp only [posFn, e1, e2, Except.toOption, Option.getD_some]
    exact hle

theorem snap_lt_of_le_ne {a b : Snap} (h : a.le b = true) (hne : ¬ (a.measure = b.measure ∧ a.beat = b.beat)) : a.lt b = true := by
  simp only [Snap.le, Snap.lt, Snap.eqv, Bool.or_eq_true, Bool.and_eq_true, decide_eq_true_eq] at h ⊢
  rcases h with h | h
  · exact h
  · exact absurd h hne

theorem strictAsc_of_pairwise : ∀ (l : List Obj), l.Pairwise (fun a b => a.snap.lt b.snap = true) → strictAsc l = true
  | [], _ => rfl
  | [_], _ => rfl
  | a :: b :: t, h => by
    have h' := List.pairwise_cons.mp h
    simp only [strictAsc, Bool.and_eq_true]
    exact ⟨h'.1 b (by simp), strictAsc_of_pairwise (b :: t) h'.2⟩

/-- **`hstrict` from the chart**: objects written for times listed in time order (`ts` ascending), no two of them on
one slot (pairwise different positions), are in strictly ascending position order — snapping is monotone. -/
theorem positions_strict (cs : List BcSnap) (hwf : wfChanges cs = true) (hs : sortedSnaps cs = true)
    (hgc : gridCompatible (grid defaultMaxDiv) cs = true) (hm4 : ∀ c ∈ cs, c.met = 4)
    (tv : List (Rat × Bytes)) (h0 : ∀ p ∈ tv, 0 ≤ p.1) (hasc : tv.Pairwise (fun a b => a.1 ≤ b.1))
    (hdist : tv.Pairwise (fun a b => ¬ ((posFn cs a.1).measure = (posFn cs b.1).measure ∧ (posFn cs a.1).beat = (posFn cs b.1).beat))) :
    strictAsc (tv.map (fun p => (⟨posOf (posFn cs p.1), p.2⟩ : Obj))) = true := by
  apply strictAsc_of_pairwise
  rw [List.pairwise_map]
  have hboth := hasc.and hdist
  have hall : tv.Pairwise (fun a b => 0 ≤ a.1) := by
    induction tv with
    | nil => exact List.Pairwise.nil
    | cons x t ih =>
      refine List.pairwise_cons.mpr ⟨fun y _ => h0 x (by simp), ?_⟩
      exact ih (fun p hp => h0 p (by simp [hp])) (List.pairwise_cons.mp hasc).2 (List.pairwise_cons.mp hdist).2
        ((List.pairwise_cons.mp hboth).2)
  refine (hboth.and hall).imp ?_
  intro a b hab
  obtain ⟨⟨hle, hne⟩, ha0⟩ := hab
  have := posFn_mono cs hwf hs hgc hm4 a.1 b.1 ha0 hle
  have hlt := snap_lt_of_le_ne this hne
  simp only [posOf, Snap.lt] at hlt ⊢
  exact hlt

/-! ### the cells of a chart's rows are renderable, one per slot -/

/-- what the chart must grant for the rows the writer builds: measures 000–999 (¬D36), normalised 4/4 positions,
two-character base-36 channels and ids, and no two objects on one (channel, slot) -/
structure RowsOK (rows : List WRow) : Prop where
  meas : ∀ r ∈ rows, 0 ≤ r.snap.measure ∧ r.snap.measure < 1000
  norm : ∀ r ∈ rows, r.snap.met = some 4 ∧ 0 ≤ r.snap.beat ∧ r.snap.beat < 4
  chan : ∀ r ∈ rows, ∃ a b, r.channel = [a, b] ∧ isB36 a = true ∧ isB36 b = true
  value : ∀ r ∈ rows, r.value.length = 2 ∧ r.value.all isB36 = true
  nocoll : rows.Pairwise (fun a b => ¬ (a.channel = b.channel ∧ a.snap.measure = b.snap.measure ∧ a.snap.beat = b.snap.beat))

theorem slotOfRow_facts (r : WRow) (hmet : r.snap.met = some 4) (hb0 : 0 ≤ r.snap.beat) (hb4 : r.snap.beat < 4) :
    (slotOfRow r).den = r.snap.beat.den * 4 ∧ 0 < (slotOfRow r).den ∧ (slotOfRow r).num < (slotOfRow r).den := by
  have hden : (slotOfRow r).den = r.snap.beat.den * 4 := by
    simp only [slotOfRow, hmet, Option.getD_some]
    have : ((4 : Rat).floor).toNat = 4 := by decide +kernel
    rw [this]
  refine ⟨hden, by rw [hden]; exact Nat.mul_pos r.snap.beat.den_pos (by decide), ?_⟩
  rw [hden]
  have hn0 : 0 ≤ r.snap.beat.num := Rat.num_nonneg.mpr hb0
  have hq : r.snap.beat = (r.snap.beat.num : Rat) / ((r.snap.beat.den : Nat) : Rat) := (Rat.num_div_den r.snap.beat).symm
  have hdpos : (0 : Rat) < ((r.snap.beat.den : Nat) : Rat) := by exact_mod_cast r.snap.beat.den_pos
  have hlt : (r.snap.beat.num : Rat) < 4 * ((r.snap.beat.den : Nat) : Rat) := by
    rw [hq, div_lt_iff₀ hdpos] at hb4; exact hb4
  have hnum : (((slotOfRow r).num : Nat) : Int) = r.snap.beat.num := by
    simp only [slotOfRow]; exact Int.toNat_of_nonneg hn0
  have : (((slotOfRow r).num : Nat) : Rat) < ((r.snap.beat.den * 4 : Nat) : Rat) := by
    have e : (((slotOfRow r).num : Nat) : Rat) = (r.snap.beat.num : Rat) := by
      rw [← Int.cast_natCast, hnum]
    rw [e]; push_cast; linarith
  exact_mod_cast this

/-- **The cells of renderable rows are renderable, one per slot, and stand for the rows' objects.** -/
theorem cells_ok (rows : List WRow) (hR : RowsOK rows) :
    (∀ c ∈ cellsOfRows rows, CellOK c) ∧
    (∀ k ∈ lineKeys (cellsOfRows rows), ((cellsOfRows rows).filter (sameLine k)).Pairwise (fun a b => a.idx ≠ b.idx) ∧
      ∀ c ∈ (cellsOfRows rows).filter (sameLine k), c.idx < k.den) ∧
    (cellsOfRows rows).map cellObj = rows.map rowObj := by
  have hrow : ∀ r ∈ rows, r.snap.met = some 4 ∧ 0 ≤ r.snap.beat := fun r hr => ⟨(hR.norm r hr).1, (hR.norm r hr).2.1⟩
  have hobj : (cellsOfRows rows).map cellObj = rows.map rowObj := cells_objects Generated.BMS.lcmThreshold rows hrow
  have hpos : ∀ s ∈ rows.map slotOfRow, 0 < s.den := by
    intro s hs
    obtain ⟨r, hr, rfl⟩ := List.mem_map.mp hs
    exact (slotOfRow_facts r (hR.norm r hr).1 (hR.norm r hr).2.1 (hR.norm r hr).2.2).2.1
  obtain ⟨hlen, hdvd⟩ := newDens_dvd Generated.BMS.lcmThreshold (rows.map slotOfRow) hpos
  -- every cell: its row, its denominator
  have hcell : ∀ c ∈ cellsOfRows rows, ∃ r ∈ rows, ∃ nd, (slotOfRow r).den ∣ nd ∧ 0 < nd ∧ c = cellOf (slotOfRow r) nd := by
    intro c hc
    simp only [cellsOfRows, List.mem_map] at hc
    obtain ⟨⟨sl, nd⟩, hp, rfl⟩ := hc
    rw [zip_zipIdxFrom (rows.map slotOfRow) 0] at hp
    obtain ⟨q, hq, hqe⟩ := List.mem_map.mp hp
    have := hdvd q hq
    simp only [Prod.mk.injEq] at hqe
    obtain ⟨e1, e2⟩ := hqe
    have hsl : sl ∈ rows.map slotOfRow := by
      rw [← e1]
      have := (zipIdxFrom_mem (rows.map slotOfRow) 0 q.1 (List.of_mem_zip hq).1).2.2
      exact this
    obtain ⟨r, hr, hrs⟩ := List.mem_map.mp hsl
    refine ⟨r, hr, nd, ?_, ?_, by rw [hrs]⟩
    · rw [hrs, ← e1, ← e2]; exact this.1
    · rw [← e2]; exact this.2
  have hck : ∀ c ∈ cellsOfRows rows, CellOK c ∧ c.idx < c.den := by
    intro c hc
    obtain ⟨r, hr, nd, hd, hnd, rfl⟩ := hcell c hc
    obtain ⟨_, hdp, hnum⟩ := slotOfRow_facts r (hR.norm r hr).1 (hR.norm r hr).2.1 (hR.norm r hr).2.2
    have hidx := (slot_exact (slotOfRow r) nd hdp hd).2 hnum hnd
    refine ⟨⟨?_, ?_, ?_, ?_⟩, ?_⟩
    · simpa [cellOf, slotOfRow] using hR.meas r hr
    · simpa [cellOf] using hnd
    · simpa [cellOf, slotOfRow] using hR.chan r hr
    · simpa [cellOf, slotOfRow] using hR.value r hr
    · simpa [cellOf] using hidx
  refine ⟨fun c hc => (hck c hc).1, ?_, hobj⟩
  intro k _
  constructor
  · -- same line + same slot would be two rows on one (channel, slot)
    have hpwObj : ((cellsOfRows rows).map cellObj).Pairwise
        (fun a b => ¬ (a.1 = b.1 ∧ a.2.1 = b.2.1 ∧ a.2.2.1 = b.2.2.1)) := by
      rw [hobj, List.pairwise_map]
      exact hR.nocoll.imp (fun {a b} h => by simpa [rowObj] using h)
    rw [List.pairwise_map] at hpwObj
    refine (hpwObj.filter (sameLine k)).imp_of_mem ?_
    intro a b ha hb hab hidx
    obtain ⟨a1, a2, a3⟩ := (sameLine_iff k a).mp (List.mem_filter.mp ha).2
    obtain ⟨b1, b2, b3⟩ := (sameLine_iff k b).mp (List.mem_filter.mp hb).2
    apply hab
    simp only [cellObj]
    exact ⟨a2.symm.trans b2, a1.symm.trans b1, by rw [hidx, ← a3, ← b3]⟩
  · intro c hc
    obtain ⟨hcm, hs⟩ := List.mem_filter.mp hc
    obtain ⟨_, _, e3⟩ := (sameLine_iff k c).mp hs
    rw [e3]; exact (hck c hcm).2

/-! ### the whole file, read back by the book: every channel is an arrangement of the rows' objects -/

/-- the row is visible in the file (a `00` id is the format's "nothing here") and lies on channel `ch` -/
def rowShown (ch : Bytes) (r : WRow) : Bool := decide (r.channel = ch) && decide (r.value ≠ ['0', '0'])

/-- the by-the-book object of a row: its id at its bare position -/
def objOfRow (r : WRow) : Obj := ⟨posOf r.snap, r.value⟩

theorem filter_map_through {α β γ δ} (f : α → γ) (g : β → γ) (P : γ → Bool) (G : γ → δ) (as : List α) (bs : List β)
    (h : as.map f = bs.map g) :
    (as.filter (fun a => P (f a))).map (fun a => G (f a)) = (bs.filter (fun b => P (g b))).map (fun b => G (g b)) := by
  have e1 : (as.filter (fun a => P (f a))).map (fun a => G (f a)) = ((as.map f).filter P).map G := by
    rw [List.filter_map, List.map_map]; rfl
  have e2 : (bs.filter (fun b => P (g b))).map (fun b => G (g b)) = ((bs.map g).filter P).map G := by
    rw [List.filter_map, List.map_map]; rfl
  rw [e1, e2, h]

/-- **The written file gives every channel an arrangement of exactly the rows' objects** — header lines included.
For renderable rows (`RowsOK`) and header-like header lines: the whole file `header ++ [""] ++ data lines` parses;
its header dict is the one of the header lines alone; every data line is well-formed and lies on the channel of a
row; and for every channel `ch` the by-the-book objects of the file's lines are — up to order, with multiplicities —
the rows of that channel (id ≠ `00`) at their positions. -/
theorem written_file_objects (rows : List WRow) (hR : RowsOK rows) (hl : List Bytes) (hh : ∀ l ∈ hl, HeaderLike l) :
    ∃ H notes, parseDoc (hl ++ [[]] ++ linesOfCells (cellsOfRows rows)) = .ok ⟨H, notes⟩ ∧
      foldlE docStep ⟨[], []⟩ (hl ++ [[]]) = .ok ⟨H, []⟩ ∧
      (∀ d ∈ notes, (∃ m, parseNat d.1 = some m) ∧ (∃ ps, evenPairs d.2.2 = some ps) ∧ ∃ r ∈ rows, d.2.1 = r.channel) ∧
      ∀ ch, (laneObjs notes ch).Perm ((rows.filter (rowShown ch)).map objOfRow) := by
  obtain ⟨hcell, hslots, hobj⟩ := cells_ok rows hR
  have hh' : ∀ l ∈ hl ++ [[]], HeaderLike l := by
    intro l hlm
    rcases List.mem_append.mp hlm with h | h
    · exact hh l h
    · simp only [List.mem_singleton] at h; exact Or.inl h
  obtain ⟨H, hH⟩ := foldlE_docStep_header (hl ++ [[]]) hh' ⟨[], []⟩
  obtain ⟨notes, hN, hwfN, hperm⟩ := written_objects_perm (cellsOfRows rows) hcell hslots ⟨H, []⟩
  refine ⟨H, notes, ?_, hH, ?_, ?_⟩
  · unfold parseDoc
    rw [foldlE_append docStep _ _ _ _ hH, hN]
    simp
  · intro d hd
    obtain ⟨h1, h2, k, hk, hkc⟩ := hwfN d hd
    refine ⟨h1, h2, ?_⟩
    have hkm := (lineKeys_cover (cellsOfRows rows)).1 k hk
    have : cellObj k ∈ (cellsOfRows rows).map cellObj := List.mem_map_of_mem hkm
    rw [hobj] at this
    obtain ⟨r, hr, hre⟩ := List.mem_map.mp this
    refine ⟨r, hr, ?_⟩
    rw [hkc]
    have := congrArg (·.1) hre
    simpa [rowObj, cellObj] using this.symm
  · intro ch
    refine (hperm ch).trans ?_
    have := filter_map_through cellObj rowObj
      (fun o => decide (o.1 = ch) && decide (o.2.2.2 ≠ ['0', '0']))
      (fun o => (⟨⟨((o.2.1.toNat : Nat) : Int), o.2.2.1, none⟩, o.2.2.2⟩ : Obj)) (cellsOfRows rows) rows hobj
    have e : ((cellsOfRows rows).filter (cellShown ch)).map objOfCell =
        (rows.filter (rowShown ch)).map (fun b => (⟨⟨(((rowObj b).2.1.toNat : Nat) : Int), (rowObj b).2.2.1, none⟩, (rowObj b).2.2.2⟩ : Obj)) := this
    rw [e]
    apply List.Perm.of_eq
    apply List.map_congr_left
    intro r hr
    have hm := (hR.meas r (List.mem_filter.mp hr).1).1
    simp only [rowObj, objOfRow, posOf, Int.toNat_of_nonneg hm]

/-! ### one lane of the written file, read back by the book -/

theorem channelOf_mem (lay : Layout) (col : Nat) (ch : Bytes) (h : channelOf lay col = some ch) : (ch, col) ∈ lay.lanes := by
  simp only [channelOf, Option.map_eq_some_iff] at h
  obtain ⟨p, hp, rfl⟩ := h
  have hm := List.mem_of_find?_eq_some hp
  have he := List.find?_some hp
  simp only [decide_eq_true_eq] at he
  rw [← he]
  exact List.mem_reverse.mp hm

/-- on a well-formed layout, a lane's channel is the channel of exactly its own column -/
theorem channelOf_iff (lay : Layout) (hlay : LayoutOK lay) (lane : Bytes × Nat) (hl : lane ∈ lay.lanes) (col : Nat) :
    channelOf lay col = some lane.1 ↔ col = lane.2 := by
  constructor
  · intro h
    have hm := channelOf_mem lay col lane.1 h
    have h1 := hlay.mem (lane.1, col) hm
    have h2 := hlay.mem lane hl
    simp only at h1
    rw [h1] at h2
    injection h2
  · intro e
    subst e
    cases hc : channelOf lay lane.2 with
    | none =>
      simp only [channelOf, Option.map_eq_none_iff, List.find?_eq_none] at hc
      have := hc lane (List.mem_reverse.mpr hl)
      simp at this
    | some ch =>
      have hm := channelOf_mem lay lane.2 ch hc
      have h1 := hlay.mem (ch, lane.2) hm
      have h2 := hlay.mem lane hl
      rw [hlay.inj ch lane.1 lane.2 h1 h2]

/-- the (time, id) pairs an item puts on its lane -/
def TAtom.tv (ln : Bytes) : TAtom → List (Rat × Bytes)
  | .hit t id => [(t, id)]
  | .hold t1 t2 id => [(t1, id), (t2, ln)]

theorem atoms_tv (F : Rat → Snap) (ln : Bytes) (items : List TAtom) :
    (items.map (TAtom.toAtom F ln)).flatMap Atom.objs =
      (items.flatMap (TAtom.tv ln)).map (fun p => (⟨posOf (F p.1), p.2⟩ : Obj)) := by
  induction items with
  | nil => rfl
  | cons a t ih =>
    simp only [List.map_cons, List.flatMap_cons, List.map_append, ih]
    cases a <;> rfl

theorem tv_times (ln : Bytes) (items : List TAtom) :
    (items.flatMap (TAtom.tv ln)).map (·.1) = items.flatMap TAtom.times := by
  induction items with
  | nil => rfl
  | cons a t ih =>
    simp only [List.flatMap_cons, List.map_append, ih]
    cases a <;> rfl

/-- the items of the chart on one column: its hits, then its holds -/
def laneItems (c : WChart) (dflt : Bytes) (col : Nat) : List TAtom :=
  (c.hits.filter (fun h => h.col = col)).map (fun h => TAtom.hit h.offset (sampleId c.samples dflt h.sample)) ++
  (c.holds.filter (fun h => h.col = col)).map (fun h => TAtom.hold h.offset h.tail (sampleId c.samples dflt h.sample))

theorem flatMap_pair_perm {α β} (f g : α → β) (l : List α) : (l.flatMap (fun x => [f x, g x])).Perm (l.map f ++ l.map g) := by
  induction l with
  | nil => simp
  | cons a t ih =>
    simp only [List.flatMap_cons, List.map_cons, List.cons_append, List.nil_append]
    refine List.Perm.cons _ ?_
    exact (List.Perm.cons _ ih).trans (List.perm_middle.symm)

/-- the rows of a lane's channel are the lane's items: hits and hold heads under their sample ids, hold tails
under the `#LNOBJ` id, all at the positions `posFn` of their times; no tempo row lies on a lane's channel -/
theorem lane_rows_perm (cs : List BcSnap) (lay : Layout) (hlay : LayoutOK lay) (dflt : Bytes) (c : WChart)
    (hok : BmsOk cs lay c) (hv : ∀ r ∈ bmsNoteRows cs lay dflt c, r.value ≠ ['0', '0'])
    (lane : Bytes × Nat) (hl : lane ∈ lay.lanes) :
    (((bmsNoteRows cs lay dflt c ++ bmsTempoRows cs lay c).filter (rowShown lane.1)).map objOfRow).Perm
      (((laneItems c dflt lane.2).map (TAtom.toAtom (posFn cs) c.lnEnd)).flatMap Atom.objs) := by
  have hnt := hlay.not_tempo lane hl
  simp only [Bool.or_eq_false_iff, decide_eq_false_iff_not] at hnt
  have htempo : (bmsTempoRows cs lay c).filter (rowShown lane.1) = [] := by
    rw [List.filter_eq_nil_iff]
    intro r hr
    simp only [bmsTempoRows, List.mem_map] at hr
    obtain ⟨p, _, rfl⟩ := hr
    simp only [rowShown, Bool.and_eq_true, decide_eq_true_eq, not_and]
    intro e; exact absurd e.symm hnt.2
  have hchan : ∀ col, (channelOf lay col).isSome = true → ((channelOf lay col).getD [] = lane.1 ↔ col = lane.2) := by
    intro col hsome
    obtain ⟨ch, hch⟩ := Option.isSome_iff_exists.mp hsome
    rw [← channelOf_iff lay hlay lane hl col, hch]
    simp
  have hmemN : ∀ r, r ∈ bmsNoteRows cs lay dflt c → r.value ≠ ['0', '0'] := hv
  -- the three blocks of note rows
  have f1 : (c.hits.map (fun h => (⟨posFn cs h.offset, (channelOf lay h.col).getD [], sampleId c.samples dflt h.sample⟩ : WRow))).filter (rowShown lane.1)
      = (c.hits.filter (fun h => h.col = lane.2)).map (fun h => (⟨posFn cs h.offset, (channelOf lay h.col).getD [], sampleId c.samples dflt h.sample⟩ : WRow)) := by
    rw [List.filter_map]
    congr 1
    apply List.filter_congr
    intro h hh
    have hval := hmemN ⟨posFn cs h.offset, (channelOf lay h.col).getD [], sampleId c.samples dflt h.sample⟩
      (by simp only [bmsNoteRows, List.mem_append, List.mem_map]; exact Or.inl (Or.inl ⟨h, hh, rfl⟩))
    have := hchan h.col (hok.cols.1 h hh)
    simp only [Function.comp, rowShown, hval, ne_eq, not_false_eq_true, decide_true, Bool.and_true]
    exact decide_eq_decide.mpr this
  have f2 : (c.holds.map (fun h => (⟨posFn cs h.offset, (channelOf lay h.col).getD [], sampleId c.samples dflt h.sample⟩ : WRow))).filter (rowShown lane.1)
      = (c.holds.filter (fun h => h.col = lane.2)).map (fun h => (⟨posFn cs h.offset, (channelOf lay h.col).getD [], sampleId c.samples dflt h.sample⟩ : WRow)) := by
    rw [List.filter_map]
    congr 1
    apply List.filter_congr
    intro h hh
    have hval := hmemN ⟨posFn cs h.offset, (channelOf lay h.col).getD [], sampleId c.samples dflt h.sample⟩
      (by simp only [bmsNoteRows, List.mem_append, List.mem_map]; exact Or.inl (Or.inr ⟨h, hh, rfl⟩))
    have := hchan h.col (hok.cols.2 h hh)
    simp only [Function.comp, rowShown, hval, ne_eq, not_false_eq_true, decide_true, Bool.and_true]
    exact decide_eq_decide.mpr this
  have f3 : (c.holds.map (fun h => (⟨posFn cs h.tail, (channelOf lay h.col).getD [], c.lnEnd⟩ : WRow))).filter (rowShown lane.1)
      = (c.holds.filter (fun h => h.col = lane.2)).map (fun h => (⟨posFn cs h.tail, (channelOf lay h.col).getD [], c.lnEnd⟩ : WRow)) := by
    rw [List.filter_map]
    congr 1
    apply List.filter_congr
    intro h hh
    have hval := hmemN ⟨posFn cs h.tail, (channelOf lay h.col).getD [], c.lnEnd⟩
      (by simp only [bmsNoteRows, List.mem_append, List.mem_map]; exact Or.inr ⟨h, hh, rfl⟩)
    have := hchan h.col (hok.cols.2 h hh)
    simp only [Function.comp, rowShown, hval, ne_eq, not_false_eq_true, decide_true, Bool.and_true]
    exact decide_eq_decide.mpr this
  rw [List.filter_append, htempo, List.append_nil]
  unfold bmsNoteRows
  rw [List.filter_append, List.filter_append, f1, f2, f3]
  simp only [laneItems, List.map_append, List.map_map, List.flatMap_append]
  have e1 : ∀ l : List HitOut, (l.map (TAtom.toAtom (posFn cs) c.lnEnd ∘ fun h => TAtom.hit h.offset (sampleId c.samples dflt h.sample))).flatMap Atom.objs
      = l.map (objOfRow ∘ fun h => (⟨posFn cs h.offset, (channelOf lay h.col).getD [], sampleId c.samples dflt h.sample⟩ : WRow)) := by
    intro l
    induction l with
    | nil => rfl
    | cons a t ih => simp only [List.map_cons, List.flatMap_cons, ih]; rfl
  have e2 : ∀ l : List WHold, (l.map (TAtom.toAtom (posFn cs) c.lnEnd ∘ fun h => TAtom.hold h.offset h.tail (sampleId c.samples dflt h.sample))).flatMap Atom.objs
      = l.flatMap (fun h => [objOfRow (⟨posFn cs h.offset, (channelOf lay h.col).getD [], sampleId c.samples dflt h.sample⟩ : WRow),
                             objOfRow (⟨posFn cs h.tail, (channelOf lay h.col).getD [], c.lnEnd⟩ : WRow)]) := by
    intro l
    induction l with
    | nil => rfl
    | cons a t ih => simp only [List.map_cons, List.flatMap_cons, ih]; rfl
  rw [e1, e2, List.append_assoc]
  refine List.Perm.append_left _ ?_
  exact (flatMap_pair_perm _ _ _).symm

/-- the position `posFn` assigns to a time denotes that time: exactly on the snap grid, within 1/192 beat (at the
tempo in force) off it (`write_positions` for the pointwise position function) -/
theorem posFn_time (cs : List BcSnap) (hwf : wfChanges cs = true) (hs : sortedSnaps cs = true)
    (h0 : firstAtZero cs = true) (hgc : gridCompatible (grid defaultMaxDiv) cs = true) (hm : metronomeOk cs = true)
    (t : Rat) (ht : 0 ≤ t) :
    rabs (timeAt 0 cs (posOf (posFn cs t)) - t) ≤ 1 / 192 * activeBeatLen 0 cs t ∧
    (OnGridAt (grid defaultMaxDiv) 0 cs t → timeAt 0 cs (posOf (posFn cs t)) = t) := by
  obtain ⟨F, hF, hFt⟩ := write_positions cs hwf hs h0 hgc hm [t] (by simpa using ht)
  have hp := (snaps_pointwise cs hwf hs h0 hgc hm [t] (by simpa using ht)).1
  rw [hF] at hp
  have e : F t = posFn cs t := by simpa using hp
  rw [timeAt_posOf, ← e]
  exact (hFt t (by simp)).2

/-- **One lane of the written file, by the book.**  `rows` = the rows the writer builds for the chart
(`writeCells_eq`), renderable and collision-free (`RowsOK`: ¬D36; no two objects on one slot — the property's own precondition), note ids different from `00`; `items` = the
lane's hits and holds in time order, one after the other (`hasc`: nothing of the lane starts inside a hold — ¬D37),
sample ids different from the `#LNOBJ` id.  Whenever the file's lines give the lane's channel an arrangement `os` of
the rows of that channel (`written_file_objects`), the by-the-book reading of the lane — sort by position, check
that positions are pairwise different, pair `#LNOBJ` — is defined and returns exactly one hit per in-memory hit and
one hold per in-memory hold, in the lane's column, at positions whose by-the-book times are the in-memory times
exactly on the snap grid and within 1/192 beat (at the tempo in force) otherwise.
Both named hypotheses of `bms_write_read_partial` are discharged here: `hch` by `written_file_objects` +
`lane_rows_perm`, `hstrict` by `positions_strict` (monotone snapping) from the rows' `nocoll`. -/
theorem written_lane_denotes (cs : List BcSnap) (hwf : wfChanges cs = true) (hs : strictSnaps cs = true)
    (h0 : firstAtZero cs = true) (hgc : gridCompatible (grid defaultMaxDiv) cs = true) (hm : metronomeOk cs = true)
    (lay : Layout) (hlay : LayoutOK lay) (dflt : Bytes) (c : WChart) (hok : BmsOk cs lay c)
    (hR : RowsOK (bmsNoteRows cs lay dflt c ++ bmsTempoRows cs lay c))
    (hv : ∀ r ∈ bmsNoteRows cs lay dflt c, r.value ≠ ['0', '0'])
    (lane : Bytes × Nat) (hl : lane ∈ lay.lanes)
    (items : List TAtom) (hitems : items.Perm (laneItems c dflt lane.2)) (hid : ∀ a ∈ items, a.idOk c.lnEnd)
    (hasc : (items.flatMap TAtom.times).Pairwise (fun a b => a ≤ b))
    (so : Bytes → Bytes) (notes : List (Bytes × Bytes × Bytes)) (os : List Obj)
    (hos : channelObjs notes lane.1 = some os)
    (hperm : os.Perm (((bmsNoteRows cs lay dflt c ++ bmsTempoRows cs lay c).filter (rowShown lane.1)).map objOfRow)) :
    denoteLane (some c.lnEnd) so notes lane =
      some ((items.map (TAtom.toAtom (posFn cs) c.lnEnd)).flatMap (Atom.hits so lane.2),
            (items.map (TAtom.toAtom (posFn cs) c.lnEnd)).flatMap (Atom.holds so lane.2)) ∧
    ∀ a ∈ items, ∀ t ∈ a.times,
      rabs (timeAt 0 cs (posOf (posFn cs t)) - t) ≤ 1 / 192 * activeBeatLen 0 cs t ∧
      (OnGridAt (grid defaultMaxDiv) 0 cs t → timeAt 0 cs (posOf (posFn cs t)) = t) := by
  have hsorted := sortedSnaps_of_strict hs
  -- the items' times are in the tempo list's range
  have hts : ∀ a ∈ items, ∀ t ∈ a.times, 0 ≤ t := by
    intro a ha t ht
    have ha' := hitems.mem_iff.mp ha
    simp only [laneItems, List.mem_append, List.mem_map, List.mem_filter] at ha'
    rcases ha' with ⟨h, ⟨hh, _⟩, rfl⟩ | ⟨h, ⟨hh, _⟩, rfl⟩
    · simp only [TAtom.times, List.mem_singleton] at ht
      rw [ht]; exact hok.times.1 h hh
    · simp only [TAtom.times, List.mem_cons, List.not_mem_nil, or_false] at ht
      rcases ht with e | e
      · rw [e]; exact (hok.times.2.1 h hh).1
      · rw [e]; exact (hok.times.2.1 h hh).2
  -- the target sequence and the arrangement
  have hrows := lane_rows_perm cs lay hlay dflt c hok hv lane hl
  have htarget : os.Perm ((items.map (TAtom.toAtom (posFn cs) c.lnEnd)).flatMap Atom.objs) :=
    (hperm.trans hrows).trans ((hitems.map _).flatMap_right _).symm
  -- pairwise different positions, from the rows
  have hpwRows : (((bmsNoteRows cs lay dflt c ++ bmsTempoRows cs lay c).filter (rowShown lane.1)).map objOfRow).Pairwise
      (fun a b => ¬ (a.snap.measure = b.snap.measure ∧ a.snap.beat = b.snap.beat)) := by
    rw [List.pairwise_map]
    refine (hR.nocoll.filter (rowShown lane.1)).imp_of_mem ?_
    intro a b ha hb hab h
    have ca := (List.mem_filter.mp ha).2
    have cb := (List.mem_filter.mp hb).2
    simp only [rowShown, Bool.and_eq_true, decide_eq_true_eq] at ca cb
    exact hab ⟨ca.1.trans cb.1.symm, by simpa [objOfRow, posOf] using h⟩
  have hpwT : ((items.map (TAtom.toAtom (posFn cs) c.lnEnd)).flatMap Atom.objs).Pairwise
      (fun a b => ¬ (a.snap.measure = b.snap.measure ∧ a.snap.beat = b.snap.beat)) := by
    refine ((hrows.trans ((hitems.map _).flatMap_right _).symm).pairwise_iff ?_).mp hpwRows
    intro a b h h'
    exact h ⟨h'.1.symm, h'.2.symm⟩
  have hstrict : strictAsc ((items.map (TAtom.toAtom (posFn cs) c.lnEnd)).flatMap Atom.objs) = true := by
    rw [atoms_tv] at hpwT ⊢
    apply positions_strict cs hwf hsorted hgc hok.met4
    · intro p hp
      have : p.1 ∈ items.flatMap TAtom.times := by
        rw [← tv_times c.lnEnd]; exact List.mem_map_of_mem hp
      obtain ⟨a, ha, hta⟩ := List.mem_flatMap.mp this
      exact hts a ha _ hta
    · have := hasc
      rw [← tv_times c.lnEnd, List.pairwise_map] at this
      exact this
    · rw [List.pairwise_map] at hpwT
      exact hpwT.imp (fun {a b} h => by simpa [posOf] using h)
  constructor
  · obtain ⟨hso, _⟩ := written_lane_sorted os _ htarget hstrict
    have hwfA : ∀ a ∈ items.map (TAtom.toAtom (posFn cs) c.lnEnd), a.wf c.lnEnd := by
      intro a ha
      obtain ⟨x, hx, rfl⟩ := List.mem_map.mp ha
      have := hid x hx
      cases x with
      | hit t id => exact this
      | hold t1 t2 id => exact ⟨this, rfl⟩
    unfold denoteLane
    simp only [hos, hso, hstrict, if_true]
    exact pairLane_atoms c.lnEnd so lane.2 _ hwfA
  · intro a ha t ht
    exact posFn_time cs hwf hsorted h0 hgc hm t (hts a ha t ht)

/-! ### the tempo objects of the written file, read back by the book -/

/-- a tempo point's own stored time is sent to the tempo point's own position -/
theorem posFn_own (cs : List BcSnap) (hwf : wfChanges cs = true) (hs : strictSnaps cs = true) :
    ∀ p ∈ cs.zip (tmOf 0 cs), posFn cs p.2.offset = p.1.snap := by
  have hg : GridOK defaultGrid := gridOK_grid (by decide)
  cases cs with
  | nil => intro p hp; cases hp
  | cons c rest =>
    obtain ⟨ha, hb⟩ := snapAtAux_at_change hg rest 0 c hwf hs
    intro p hp
    simp only [tmOf, List.zip_cons_cons, List.mem_cons] at hp
    rcases hp with rfl | hp
    · simp [posFn, ha, Except.toOption]
    · simp [posFn, hb p hp, Except.toOption]

theorem zipIdxFrom_map' {α β} (f : α → β) (l : List α) : ∀ k, zipIdxFrom k (l.map f) = (zipIdxFrom k l).map (fun p => (p.1, f p.2)) := by
  induction l with
  | nil => intro k; rfl
  | cons a t ih => intro k; simp only [List.map_cons, zipIdxFrom, ih]

theorem zipIdxFrom_succ {α} (l : List α) : ∀ k, (zipIdxFrom k l).map (fun p => (p.1 + 1, p.2)) = zipIdxFrom (k + 1) l := by
  induction l with
  | nil => intro k; rfl
  | cons a t ih => intro k; simp only [zipIdxFrom, List.map_cons, ih]

/-- the tempo rows' objects: row `i` (counted from 1) is the object `base36 i` at the position of its own offset -/
theorem tempoRows_objs (cs : List BcSnap) (lay : Layout) (c : WChart) :
    (bmsTempoRows cs lay c).map objOfRow =
      (zipIdxFrom 1 c.bpms).map (fun p => (⟨posOf (posFn cs p.2.offset), base36 p.1⟩ : Obj)) := by
  unfold bmsTempoRows
  rw [zipIdxFrom_map', List.map_map, List.map_map, ← zipIdxFrom_succ c.bpms 0, List.map_map]
  rfl

theorem noteRows_channel (cs : List BcSnap) (lay : Layout) (dflt : Bytes) (c : WChart) (hok : BmsOk cs lay c) :
    ∀ r ∈ bmsNoteRows cs lay dflt c, ∃ col, (r.channel, col) ∈ lay.lanes := by
  intro r hr
  have key : ∀ col, (channelOf lay col).isSome = true → ((channelOf lay col).getD [], col) ∈ lay.lanes := by
    intro col hsome
    obtain ⟨ch, hch⟩ := Option.isSome_iff_exists.mp hsome
    rw [hch]; exact channelOf_mem lay col ch hch
  simp only [bmsNoteRows, List.mem_append, List.mem_map] at hr
  rcases hr with (⟨h, hh, rfl⟩ | ⟨h, hh, rfl⟩) | ⟨h, hh, rfl⟩
  · exact ⟨h.col, key _ (hok.cols.1 h hh)⟩
  · exact ⟨h.col, key _ (hok.cols.2 h hh)⟩
  · exact ⟨h.col, key _ (hok.cols.2 h hh)⟩

/-- **The tempo list of the written file, by the book.**  Tempo rows of the chart in ANY order (`hp`), every tempo a
three-decimal number (¬D06), fewer than 1295 of them; `exbpms` a tempo table that looks every id `base36 i` up as
the (three-decimal) tempo of row `i` — what `_read_file_header` builds from the written `#BPMxx` lines
(`exbpm_table_readback`).  Whenever the file's lines give channel 03 and channel 08 arrangements of the rows on
those channels (`written_file_objects`), the by-the-book tempo list is defined and is the `#BPM` header tempo at
measure 0 followed by exactly the in-memory tempo list `cs`. -/
theorem written_tempo_denotes (cs : List BcSnap) (hwf : wfChanges cs = true) (hs : strictSnaps cs = true)
    (h0 : firstAtZero cs = true) (hgc : gridCompatible (grid defaultMaxDiv) cs = true) (hm : metronomeOk cs = true)
    (lay : Layout) (hlay : LayoutOK lay) (dflt : Bytes) (c : WChart) (hp : c.bpms.Perm (tmOf 0 cs)) (hok : BmsOk cs lay c)
    (hdec : ∀ b ∈ c.bpms, roundDec 3 b.bpm = b.bpm) (hn : c.bpms.length < 1295)
    (exbpms : Dict Rat) (hex : ∀ p ∈ zipIdxFrom 1 c.bpms, dictGet? exbpms (base36 p.1) = some (roundDec 3 p.2.bpm))
    (bpm0 : Rat) (notes : List (Bytes × Bytes × Bytes)) (o3 o8 : List Obj)
    (h3 : channelObjs notes lay.bpmCh = some o3)
    (hp3 : o3.Perm (((bmsNoteRows cs lay dflt c ++ bmsTempoRows cs lay c).filter (rowShown lay.bpmCh)).map objOfRow))
    (h8 : channelObjs notes lay.exbpmCh = some o8)
    (hp8 : o8.Perm (((bmsNoteRows cs lay dflt c ++ bmsTempoRows cs lay c).filter (rowShown lay.exbpmCh)).map objOfRow)) :
    denoteTempo lay notes exbpms bpm0 = some (⟨bpm0, 4, ⟨0, 0, some 4⟩⟩ :: cs) := by
  have hsorted := sortedSnaps_of_strict hs
  have hne : cs ≠ [] := by intro e; subst e; simp [firstAtZero] at h0
  have hnote := noteRows_channel cs lay dflt c hok
  -- nothing on channel 03
  have e3 : (bmsNoteRows cs lay dflt c ++ bmsTempoRows cs lay c).filter (rowShown lay.bpmCh) = [] := by
    rw [List.filter_eq_nil_iff]
    intro r hr
    simp only [rowShown, Bool.and_eq_true, decide_eq_true_eq, not_and]
    intro e
    rcases List.mem_append.mp hr with hr | hr
    · obtain ⟨col, hmem⟩ := hnote r hr
      have := hlay.not_tempo _ hmem
      simp [e] at this
    · simp only [bmsTempoRows, List.mem_map] at hr
      obtain ⟨p, _, rfl⟩ := hr
      exact absurd e.symm hlay.tempo_ne
  -- channel 08 = the tempo rows
  have e8 : (bmsNoteRows cs lay dflt c ++ bmsTempoRows cs lay c).filter (rowShown lay.exbpmCh) = bmsTempoRows cs lay c := by
    rw [List.filter_append]
    have a1 : (bmsNoteRows cs lay dflt c).filter (rowShown lay.exbpmCh) = [] := by
      rw [List.filter_eq_nil_iff]
      intro r hr
      simp only [rowShown, Bool.and_eq_true, decide_eq_true_eq, not_and]
      intro e
      obtain ⟨col, hmem⟩ := hnote r hr
      have := hlay.not_tempo _ hmem
      simp [e] at this
    have a2 : (bmsTempoRows cs lay c).filter (rowShown lay.exbpmCh) = bmsTempoRows cs lay c := by
      rw [List.filter_eq_self]
      intro r hr
      simp only [bmsTempoRows, List.mem_map] at hr
      obtain ⟨p, hpm, rfl⟩ := hr
      have hlt := (zipIdxFrom_mem _ 0 p hpm).2.1
      simp only [List.length_map] at hlt
      have := (base36_roundtrip (p.1 + 1) (by omega)).2.2.2 (by omega)
      simp [rowShown, this]
    rw [a1, a2, List.nil_append]
  rw [e3] at hp3
  have ho3 : o3 = [] := List.Perm.eq_nil hp3
  rw [e8, tempoRows_objs] at hp8
  -- every channel-08 object is a tempo of the table
  let g' : Obj → BcSnap := fun o => ⟨(dictGet? exbpms o.id).getD 0, 4, { o.snap with met := some 4 }⟩
  have hpos : ∀ b ∈ c.bpms, 0 < b.bpm := by
    intro b hb
    have hb' := hp.mem_iff.mp hb
    have hz2 : (cs.zip (tmOf 0 cs)).map (·.2) = tmOf 0 cs := List.map_snd_zip (by rw [tmOf_length])
    rw [← hz2] at hb'
    obtain ⟨q, hq, rfl⟩ := List.mem_map.mp hb'
    rw [(zip_tmOf_fields 0 cs q hq).1]
    exact (wfChanges_mem hwf (List.of_mem_zip hq).1).bpm_pos
  have hf : ∀ o ∈ o8, tempoOfObj exbpms true o = some (g' o) := by
    intro o ho
    have ho' := hp8.mem_iff.mp ho
    obtain ⟨p, hpm, rfl⟩ := List.mem_map.mp ho'
    have hb := (zipIdxFrom_mem _ 1 p hpm).2.2
    have hlook := hex p hpm
    rw [hdec p.2 hb] at hlook
    have hbp := hpos p.2 hb
    have hnle : ¬ p.2.bpm ≤ 0 := not_le.mpr hbp
    simp only [tempoOfObj, if_true, hlook, Option.bind_some, hnle, if_false, g', Option.getD_some]
  have ht8 : (o8.map g').Perm cs := by
    refine (hp8.map g').trans ?_
    rw [List.map_map]
    have hG := posFn_own cs hwf hs
    have hrc := rows_changes_perm 0 cs hwf c.bpms hp (posFn cs) hG
    refine (List.Perm.of_eq ?_).trans hrc
    have : c.bpms.map (fun b => (⟨b.bpm, b.met, { posFn cs b.offset with met := some b.met }⟩ : BcSnap)) =
        ((zipIdxFrom 1 c.bpms).map (·.2)).map (fun b => (⟨b.bpm, b.met, { posFn cs b.offset with met := some b.met }⟩ : BcSnap)) := by
      rw [zipIdxFrom_map_snd]
    rw [this, List.map_map]
    apply List.map_congr_left
    intro p hpm
    have hb := (zipIdxFrom_mem _ 1 p hpm).2.2
    have hlook := hex p hpm
    rw [hdec p.2 hb] at hlook
    have hmet : p.2.met = 4 := by rw [hok.met p.2 hb]; decide +kernel
    simp only [Function.comp, g', hlook, Option.getD_some, hmet, posOf]
  have hstrict : strictSnaps (sortBcSnap cs) = true := by rw [sortBcSnap_eq_self hsorted]; exact hs
  have hsort : sortBcSnap (o8.map g') = cs := by
    rw [sortBcSnap_eq_of_perm ht8 hstrict, sortBcSnap_eq_self hsorted]
  unfold denoteTempo
  simp only [h3, h8, ho3, List.map_nil, allSome, allSome_congr _ g' o8 hf, List.nil_append, strictAscBc, hsort, hs, if_true]

/-! ### the assembled statement -/

theorem bpms_pos (cs : List BcSnap) (hwf : wfChanges cs = true) (rows : List BcOff) (hp : rows.Perm (tmOf 0 cs)) :
    ∀ b ∈ rows, 0 < b.bpm := by
  intro b hb
  have hb' := hp.mem_iff.mp hb
  have hz2 : (cs.zip (tmOf 0 cs)).map (·.2) = tmOf 0 cs := List.map_snd_zip (by rw [tmOf_length])
  rw [← hz2] at hb'
  obtain ⟨q, hq, rfl⟩ := List.mem_map.mp hb'
  rw [(zip_tmOf_fields 0 cs q hq).1]
  exact (wfChanges_mem hwf (List.of_mem_zip hq).1).bpm_pos

/-- **`bms_write_read`: the written file denotes the in-memory chart.**

`cs` — a tempo list in C05's domain: well-formed 4/4 tempo points, pairwise different positions in ascending order,
the first at measure 0 beat 0, grid-compatible on the shipped grid of 96 (tempo points on measure lines always are);
`c` — a chart whose tempo rows are, in ANY order, what is stored for `cs` with the first tempo point at time 0
(`hp : c.bpms.Perm (tmOf 0 cs)` — ¬D35), with columns of the layout and times at or after the first tempo point (`hok`); `lay` a well-formed layout (`LayoutOK`; the time-signature channel is
none of its lanes and not the tempo channel: `hts`).  Under the named hypotheses
* `hdec` — every tempo is a three-decimal number (¬D06),
* `hR` — the rows the writer builds are renderable and collision-free: measures 000–999 (¬D36), no two objects on one
  (channel, slot) (the property's own precondition), two-character base-36 channels and ids (normalised positions and
  measure ≥ 0 are not assumptions: `rows_normalised`),
* `hitems`/`hasc` — on every lane the hits and holds, taken in time order, follow one another: nothing of the lane
  starts inside a hold (¬D37), and sample ids differ from the `#LNOBJ` id and from `00` (`hv`),
* `hH` — header domain (`HeaderOK`),
the writer succeeds (`write … = ok lines`), the file has a by-the-book meaning `d` (`denote lay lines = some d`), and
* `d.tempo` is the header tempo of the first tempo ROW (in force for no time at all) followed by exactly `cs`;
* on every lane, in the layout's lane order, `d` has exactly one hit per in-memory hit and one hold per in-memory hold
  (head, tail), with the sample the file's `#WAV` table gives the written id, at the positions `posFn cs` of their
  times (`d.shits`, `d.sholds`; `d.hits`/`d.holds` are these at the times `timeAt 0 d.tempo`);
* the by-the-book time of every such position is the in-memory time — exactly when that time lies on the snap grid of
  its tempo segment, and within 1/192 beat (at the tempo in force) otherwise.

Assembled from `writeCells_eq`/`cells_ok` (the writer's cells), `written_file_objects` (lexer + `#mmmcc:` lines +
header lines, per channel, as a permutation), `written_header_read` (`_read_file_header` on the written header),
`written_tempo_denotes` (tempo objects, any row order), `written_lane_denotes` (lanes: `positions_strict` from
monotone snapping, `written_lane_sorted`, `pairLane_atoms`), `posFn_time` (K1 as run: `write_positions`). -/
theorem bms_write_read (cs : List BcSnap) (hwf : wfChanges cs = true) (hs : strictSnaps cs = true)
    (h0 : firstAtZero cs = true) (hgc : gridCompatible (grid defaultMaxDiv) cs = true) (hm : metronomeOk cs = true)
    (lay : Layout) (hlay : LayoutOK lay)
    (hts : lay.exbpmCh ≠ lay.timeSig ∧ ∀ lane ∈ lay.lanes, lane.1 ≠ lay.timeSig)
    (dflt : Bytes) (c : WChart) (hp : c.bpms.Perm (tmOf 0 cs)) (hok : BmsOk cs lay c)
    (hR : RowsOK (bmsNoteRows cs lay dflt c ++ bmsTempoRows cs lay c))
    (hv : ∀ r ∈ bmsNoteRows cs lay dflt c, r.value ≠ ['0', '0'])
    (hH : HeaderOK c) (hdec : ∀ b ∈ c.bpms, roundDec 3 b.bpm = b.bpm)
    (hl : List Bytes) (hhdr : writeHeader c = .ok hl)
    (items : Bytes × Nat → List TAtom)
    (hitems : ∀ lane ∈ lay.lanes, (items lane).Perm (laneItems c dflt lane.2) ∧ (∀ a ∈ items lane, a.idOk c.lnEnd))
    (hasc : ∀ lane ∈ lay.lanes, ((items lane).flatMap TAtom.times).Pairwise (fun a b => a ≤ b)) :
    ∃ lines d b0, write defaultGrid lay dflt c = .ok lines ∧ denote lay lines = some d ∧
      c.bpms.head? = some b0 ∧ d.tempo = ⟨b0.bpm, 4, ⟨0, 0, some 4⟩⟩ :: cs ∧
      d.shits = lay.lanes.flatMap (fun lane => ((items lane).map (TAtom.toAtom (posFn cs) c.lnEnd)).flatMap
        (Atom.hits (fun id => (dictGet? d.header.samples id).getD []) lane.2)) ∧
      d.sholds = lay.lanes.flatMap (fun lane => ((items lane).map (TAtom.toAtom (posFn cs) c.lnEnd)).flatMap
        (Atom.holds (fun id => (dictGet? d.header.samples id).getD []) lane.2)) ∧
      d.hits = d.shits.map (fun h => ⟨h.col, h.sample, timeAt 0 d.tempo h.snap⟩) ∧
      d.holds = d.sholds.map (fun h => ⟨h.col, h.sample, timeAt 0 d.tempo h.head,
        timeAt 0 d.tempo h.tail - timeAt 0 d.tempo h.head⟩) ∧
      ∀ lane ∈ lay.lanes, ∀ a ∈ items lane, ∀ t ∈ a.times,
        rabs (timeAt 0 d.tempo (posOf (posFn cs t)) - t) ≤ 1 / 192 * activeBeatLen 0 cs t ∧
        (OnGridAt (grid defaultMaxDiv) 0 cs t → timeAt 0 d.tempo (posOf (posFn cs t)) = t) := by
  have hsorted := sortedSnaps_of_strict hs
  obtain ⟨hcells, _⟩ := writeCells_eq cs hwf hs h0 hgc hm lay dflt c hp hok
  -- the file
  have hwrite : write defaultGrid lay dflt c =
      .ok (hl ++ [[]] ++ linesOfCells (cellsOfRows (bmsNoteRows cs lay dflt c ++ bmsTempoRows cs lay c))) := by
    simp only [write, writeNotes, hhdr, hcells, bind, Except.bind]
  have hmisc : ∀ kv ∈ c.misc, ∃ a r, kv.1 = a :: r ∧ isDigit a = false ∧ isWs a = false := by
    intro kv hkv
    obtain ⟨a, r, e, hd, hw⟩ := (hH.misc kv hkv).1
    exact ⟨a, r, e, hd, hw a (by simp)⟩
  obtain ⟨H, notes, hparse, hHfold, hwfN, hperm⟩ :=
    written_file_objects _ hR hl (writeHeader_headerLike c hl hhdr hmisc)
  obtain ⟨hLN, b0, hdr, hhead, hread, hbpm0, hexb⟩ := written_header_read c hH hl hhdr H hHfold
  -- well-formed data lines, none on the time-signature channel
  have hnote := noteRows_channel cs lay dflt c hok
  have hlines : linesOk lay.timeSig notes := by
    intro d hd
    obtain ⟨h1, h2, r, hr, hrc⟩ := hwfN d hd
    refine ⟨h1, h2, ?_⟩
    rw [hrc]
    rcases List.mem_append.mp hr with hr | hr
    · obtain ⟨col, hmem⟩ := hnote r hr
      exact hts.2 _ hmem
    · simp only [bmsTempoRows, List.mem_map] at hr
      obtain ⟨p, _, rfl⟩ := hr
      exact hts.1
  have hco := channelObjs_eq lay.timeSig notes hlines
  -- guards
  have hb0mem : b0 ∈ c.bpms := by
    cases hb : c.bpms with
    | nil => rw [hb] at hhead; cases hhead
    | cons x t => rw [hb] at hhead; simp only [List.head?_cons, Option.some.injEq] at hhead; rw [← hhead]; simp
  have hb0pos : 0 < hdr.bpm0 := by rw [hbpm0]; exact bpms_pos cs hwf c.bpms hp b0 hb0mem
  have hguards : guardsOk lay ⟨H, notes⟩ hdr = true := by
    simp only [guardsOk, Bool.and_eq_true, Bool.not_eq_true', decide_eq_false_iff_not, not_le, List.any_eq_false,
      decide_eq_true_eq, Bool.or_eq_true, Option.isNone_iff_eq_none, not_or]
    refine ⟨⟨hb0pos, ?_⟩, ?_⟩
    · intro d hd; exact (hlines d hd).2.2
    · intro d hd
      obtain ⟨⟨m, hm'⟩, ⟨ps, hps⟩, _⟩ := hlines d hd
      simp [hm', hps]
  -- tempo
  have hex : ∀ p ∈ zipIdxFrom 1 c.bpms, dictGet? hdr.exbpms (base36 p.1) = some (roundDec 3 p.2.bpm) := by
    rw [hexb]; exact (exbpm_table_readback c.bpms hH.nbpm hH.bpmpos).2
  have htempo := written_tempo_denotes cs hwf hs h0 hgc hm lay hlay dflt c hp hok hdec hH.nbpm hdr.exbpms hex hdr.bpm0
    notes _ _ (hco lay.bpmCh) (hperm lay.bpmCh) (hco lay.exbpmCh) (hperm lay.exbpmCh)
  -- lanes
  obtain ⟨so, hso⟩ : ∃ so : Bytes → Bytes, so = fun id => (dictGet? hdr.samples id).getD [] := ⟨_, rfl⟩
  have hlane : ∀ lane ∈ lay.lanes, denoteLane (some c.lnEnd) so notes lane =
      some (((items lane).map (TAtom.toAtom (posFn cs) c.lnEnd)).flatMap (Atom.hits so lane.2),
            ((items lane).map (TAtom.toAtom (posFn cs) c.lnEnd)).flatMap (Atom.holds so lane.2)) := by
    intro lane hlm
    exact (written_lane_denotes cs hwf hs h0 hgc hm lay hlay dflt c hok hR hv lane hlm (items lane)
      (hitems lane hlm).1 (hitems lane hlm).2 (hasc lane hlm) so notes _ (hco lane.1) (hperm lane.1)).1
  have hall := allSome_congr (denoteLane (some c.lnEnd) so notes)
    (fun lane => (((items lane).map (TAtom.toAtom (posFn cs) c.lnEnd)).flatMap (Atom.hits so lane.2),
                  ((items lane).map (TAtom.toAtom (posFn cs) c.lnEnd)).flatMap (Atom.holds so lane.2))) lay.lanes hlane
  have hbody : denoteBody lay ⟨H, notes⟩ hdr = some (⟨hdr.bpm0, 4, ⟨0, 0, some 4⟩⟩ :: cs,
      (lay.lanes.map (fun lane => (((items lane).map (TAtom.toAtom (posFn cs) c.lnEnd)).flatMap (Atom.hits so lane.2),
        ((items lane).map (TAtom.toAtom (posFn cs) c.lnEnd)).flatMap (Atom.holds so lane.2)))).flatMap (·.1),
      (lay.lanes.map (fun lane => (((items lane).map (TAtom.toAtom (posFn cs) c.lnEnd)).flatMap (Atom.hits so lane.2),
        ((items lane).map (TAtom.toAtom (posFn cs) c.lnEnd)).flatMap (Atom.holds so lane.2)))).flatMap (·.2)) := by
    unfold denoteBody
    simp only [hguards, if_true, htempo, hLN, ← hso, hall]
  obtain ⟨S, hS⟩ : ∃ S, S = (lay.lanes.map (fun lane => (((items lane).map (TAtom.toAtom (posFn cs) c.lnEnd)).flatMap (Atom.hits so lane.2),
        ((items lane).map (TAtom.toAtom (posFn cs) c.lnEnd)).flatMap (Atom.holds so lane.2)))).flatMap (·.1) := ⟨_, rfl⟩
  obtain ⟨L, hL⟩ : ∃ L, L = (lay.lanes.map (fun lane => (((items lane).map (TAtom.toAtom (posFn cs) c.lnEnd)).flatMap (Atom.hits so lane.2),
        ((items lane).map (TAtom.toAtom (posFn cs) c.lnEnd)).flatMap (Atom.holds so lane.2)))).flatMap (·.2) := ⟨_, rfl⟩
  rw [← hS, ← hL] at hbody
  have hden : denote lay (hl ++ [[]] ++ linesOfCells (cellsOfRows (bmsNoteRows cs lay dflt c ++ bmsTempoRows cs lay c))) =
      some { header := hdr, tempo := ⟨hdr.bpm0, 4, ⟨0, 0, some 4⟩⟩ :: cs, shits := S, sholds := L,
             hits := S.map (fun h => ⟨h.col, h.sample, timeAt 0 (⟨hdr.bpm0, 4, ⟨0, 0, some 4⟩⟩ :: cs) h.snap⟩),
             holds := L.map (fun h => ⟨h.col, h.sample, timeAt 0 (⟨hdr.bpm0, 4, ⟨0, 0, some 4⟩⟩ :: cs) h.head,
               timeAt 0 (⟨hdr.bpm0, 4, ⟨0, 0, some 4⟩⟩ :: cs) h.tail - timeAt 0 (⟨hdr.bpm0, 4, ⟨0, 0, some 4⟩⟩ :: cs) h.head⟩) } := by
    unfold denote
    simp only [hparse, hread, hbody]
  refine ⟨_, _, b0, hwrite, hden, hhead, ?_⟩
  · simp only []
    refine ⟨by rw [hbpm0], ?_, ?_, trivial, trivial, ?_⟩
    · rw [hS, List.flatMap_map, ← hso]
    · rw [hL, List.flatMap_map, ← hso]
    · intro lane hlm a ha t ht
      have hts' : 0 ≤ t := by
        have ha' := (hitems lane hlm).1.mem_iff.mp ha
        simp only [laneItems, List.mem_append, List.mem_map, List.mem_filter] at ha'
        rcases ha' with ⟨h, ⟨hh, _⟩, rfl⟩ | ⟨h, ⟨hh, _⟩, rfl⟩
        · simp only [TAtom.times, List.mem_singleton] at ht
          rw [ht]; exact hok.times.1 h hh
        · simp only [TAtom.times, List.mem_cons, List.not_mem_nil, or_false] at ht
          rcases ht with e | e
          · rw [e]; exact (hok.times.2.1 h hh).1
          · rw [e]; exact (hok.times.2.1 h hh).2
      have hq := posFn_time cs hwf hsorted h0 hgc hm t hts'
      obtain ⟨F, hF, hFt⟩ := write_positions cs hwf hsorted h0 hgc hm [t] (by simpa using hts')
      have hpw := (snaps_pointwise cs hwf hsorted h0 hgc hm [t] (by simpa using hts')).1
      rw [hF] at hpw
      have eF : F t = posFn cs t := by simpa using hpw
      have hqok := (hFt t (by simp)).1
      rw [eF] at hqok
      cases hcs : cs with
      | nil => rw [hcs] at h0; simp [firstAtZero] at h0
      | cons c1 rest =>
        rw [hcs] at hqok h0
        simp only [queryOk, Bool.and_eq_true, decide_eq_true_eq] at hqok
        simp only [firstAtZero, Bool.and_eq_true, decide_eq_true_eq] at h0
        have hle : c1.snap.le (posOf (posFn (c1 :: rest) t)) = true := by
          have e : c1.snap.le (posOf (posFn (c1 :: rest) t)) = c1.snap.le (posFn (c1 :: rest) t) := rfl
          rw [e]; exact hqok.1
        have hdrop := timeAt_drop_zero ⟨hdr.bpm0, 4, ⟨0, 0, some 4⟩⟩ c1 rest (posOf (posFn (c1 :: rest) t))
          ⟨rfl, rfl⟩ h0 hle
        rw [hcs] at hq
        rw [hdrop]
        exact hq

/-! ### the hypotheses are satisfiable; the generated layouts -/

/-- on the five generated layouts the time-signature channel is neither a lane nor the tempo channel -/
theorem layouts_timeSig : ∀ n ∈ Generated.BMS.layoutNames, ∀ l, layoutOf n = some l →
    l.exbpmCh ≠ l.timeSig ∧ ∀ lane ∈ l.lanes, lane.1 ≠ l.timeSig := by
  decide +kernel

def wrExCs : List BcSnap := [⟨120,4,⟨0,0,some 4⟩⟩, ⟨60,4,⟨1,0,some 4⟩⟩]
def wrExLay : Layout := (layoutOf "PMS_5B").getD ⟨[], [], [], []⟩
def wrExChart : WChart :=
  { title := "t".toList, artist := "a".toList, version := "1".toList, lnEnd := "ZZ".toList, samples := [], misc := [],
    bpms := [⟨60, 4, 2000⟩, ⟨120, 4, 0⟩], hits := [⟨0, [], 0⟩], holds := [⟨1, [], 0, 2000⟩] }

theorem wrExLay_eq : layoutOf "PMS_5B" = some wrExLay := by decide +kernel
theorem wrExCs_ok : wfChanges wrExCs = true ∧ strictSnaps wrExCs = true ∧ firstAtZero wrExCs = true ∧ metronomeOk wrExCs = true := by decide +kernel
theorem wrExCs_tm : tmOf 0 wrExCs = [⟨120, 4, 0⟩, ⟨60, 4, 2000⟩] := by decide +kernel
theorem wrExCs_gc : gridCompatible (grid defaultMaxDiv) wrExCs = true := by
  have hg : GridOK defaultGrid := gridOK_grid (by decide)
  have h0 : frac (snapDist (⟨0,0,some 4⟩ : Snap) ⟨1,0,some 4⟩ 4) = 0 := by decide +kernel
  have hz : (0 : Rat) ∈ grid defaultMaxDiv := by
    have := hg.zero_mem
    simpa [defaultGrid] using this
  simp only [wrExCs, gridCompatible, h0, Bool.and_true, List.contains_iff_mem]
  exact hz
theorem wrExPos : posFn wrExCs 0 = ⟨0,0,some 4⟩ ∧ posFn wrExCs 2000 = ⟨1,0,some 4⟩ := by
  have h := posFn_own wrExCs wrExCs_ok.1 wrExCs_ok.2.1
  rw [wrExCs_tm] at h
  exact ⟨h (⟨120,4,⟨0,0,some 4⟩⟩, ⟨120,4,0⟩) (by simp [wrExCs]), h (⟨60,4,⟨1,0,some 4⟩⟩, ⟨60,4,2000⟩) (by simp [wrExCs])⟩

def wrExRows : List WRow :=
  [⟨⟨0,0,some 4⟩, "13".toList, "01".toList⟩, ⟨⟨0,0,some 4⟩, "14".toList, "01".toList⟩, ⟨⟨1,0,some 4⟩, "14".toList, "ZZ".toList⟩,
   ⟨⟨1,0,some 4⟩, "08".toList, "01".toList⟩, ⟨⟨0,0,some 4⟩, "08".toList, "02".toList⟩]

theorem wrExRows_eq : bmsNoteRows wrExCs wrExLay "01".toList wrExChart ++ bmsTempoRows wrExCs wrExLay wrExChart = wrExRows := by
  simp only [bmsNoteRows, bmsTempoRows, wrExChart, List.map, zipIdxFrom, wrExPos.1, wrExPos.2]
  decide +kernel

theorem wrExRowsOK : RowsOK wrExRows where
  meas := by decide +kernel
  norm := by decide +kernel
  chan := by
    intro r hr
    simp only [wrExRows, List.mem_cons, List.not_mem_nil, or_false] at hr
    rcases hr with rfl | rfl | rfl | rfl | rfl <;> exact ⟨_, _, rfl, by decide, by decide⟩
  value := by decide +kernel
  nocoll := by decide +kernel

/-- **The hypotheses of `bms_write_read` are satisfiable**: a chart with two tempo rows in reverse order, a hit and a
hold, on the `PMS_5B` layout — the theorem applies and gives a written file with its by-the-book meaning. -/
theorem bms_write_read_nonvacuous :
    ∃ lines d, write defaultGrid wrExLay "01".toList wrExChart = .ok lines ∧ denote wrExLay lines = some d ∧
      d.tempo = ⟨60, 4, ⟨0, 0, some 4⟩⟩ :: wrExCs := by
  have hlay := layouts_ok "PMS_5B" (by decide) wrExLay wrExLay_eq
  have hts := layouts_timeSig "PMS_5B" (by decide) wrExLay wrExLay_eq
  have hp : wrExChart.bpms.Perm (tmOf 0 wrExCs) := by rw [wrExCs_tm]; exact List.Perm.swap _ _ _
  have hok : BmsOk wrExCs wrExLay wrExChart := by
    refine ⟨by decide +kernel, by decide +kernel, by decide +kernel, by decide +kernel⟩
  have hR : RowsOK (bmsNoteRows wrExCs wrExLay "01".toList wrExChart ++ bmsTempoRows wrExCs wrExLay wrExChart) := by
    rw [wrExRows_eq]; exact wrExRowsOK
  have hv : ∀ r ∈ bmsNoteRows wrExCs wrExLay "01".toList wrExChart, r.value ≠ ['0', '0'] := by
    intro r hr
    have : r ∈ wrExRows := by rw [← wrExRows_eq]; exact List.mem_append_left _ hr
    have hall : ∀ r ∈ wrExRows, r.value ≠ ['0', '0'] := by decide +kernel
    exact hall r this
  have hH : HeaderOK wrExChart :=
    ⟨by intro kv hkv; simp [wrExChart] at hkv, by intro kv hkv; simp [wrExChart] at hkv, by decide +kernel, by decide +kernel, by decide +kernel⟩
  have hdec : ∀ b ∈ wrExChart.bpms, roundDec 3 b.bpm = b.bpm := by decide +kernel
  obtain ⟨hl, hhdr⟩ : ∃ hl, writeHeader wrExChart = .ok hl := by
    have h : (writeHeader wrExChart).toOption.isSome = true := by decide +kernel
    cases hw : writeHeader wrExChart with
    | ok hl => exact ⟨hl, rfl⟩
    | error e => rw [hw] at h; cases h
  have hitems : ∀ lane ∈ wrExLay.lanes, (laneItems wrExChart "01".toList lane.2).Perm (laneItems wrExChart "01".toList lane.2) ∧
      (∀ a ∈ laneItems wrExChart "01".toList lane.2, a.idOk wrExChart.lnEnd) := by
    intro lane _
    refine ⟨List.Perm.refl _, ?_⟩
    intro a ha
    simp only [laneItems, List.mem_append, List.mem_map] at ha
    rcases ha with ⟨h, _, rfl⟩ | ⟨h, _, rfl⟩
    · simp only [TAtom.idOk, wrExChart, sampleId, List.reverse_nil, List.find?_nil, Option.map_none, Option.getD_none]; decide
    · simp only [TAtom.idOk, wrExChart, sampleId, List.reverse_nil, List.find?_nil, Option.map_none, Option.getD_none]; decide
  have hasc : ∀ lane ∈ wrExLay.lanes,
      ((laneItems wrExChart "01".toList lane.2).flatMap TAtom.times).Pairwise (fun a b => a ≤ b) := by decide +kernel
  obtain ⟨lines, d, b0, hw, hd, hhead, htempo, _⟩ :=
    bms_write_read wrExCs wrExCs_ok.1 wrExCs_ok.2.1 wrExCs_ok.2.2.1 wrExCs_gc wrExCs_ok.2.2.2 wrExLay hlay hts "01".toList wrExChart hp hok
      hR hv hH hdec hl hhdr (fun lane => laneItems wrExChart "01".toList lane.2) hitems hasc
  refine ⟨lines, d, hw, hd, ?_⟩
  have : b0 = ⟨60, 4, 2000⟩ := by
    simp only [wrExChart, List.head?_cons, Option.some.injEq] at hhead
    exact hhead.symm
  rw [htempo, this]

/-! ### what `RowsOK` asks that is not an assumption about the chart -/

/-- every position the writer computes is normalised: 4/4, beat in [0, 4), measure ≥ 0 -/
theorem posFn_normal (cs : List BcSnap) (hwf : wfChanges cs = true) (hs : sortedSnaps cs = true)
    (h0 : firstAtZero cs = true) (hgc : gridCompatible (grid defaultMaxDiv) cs = true) (hm : metronomeOk cs = true)
    (hm4 : ∀ c ∈ cs, c.met = 4) (t : Rat) (ht : 0 ≤ t) :
    (posFn cs t).met = some 4 ∧ 0 ≤ (posFn cs t).beat ∧ (posFn cs t).beat < 4 ∧ 0 ≤ (posFn cs t).measure := by
  have hg : GridOK defaultGrid := gridOK_grid (by decide)
  have hne : cs ≠ [] := by intro e; subst e; simp [firstAtZero] at h0
  have hmet := posFn_met cs hwf hs hgc hm hm4 t ht hne
  cases cs with
  | nil => exact absurd rfl hne
  | cons c rest =>
    obtain ⟨S, hS, hb0, hb4, htot⟩ := snapAtAux_total_ge hg 4 rest 0 c t hwf hs hm4 ht
    have hFt : posFn (c :: rest) t = S := by simp [posFn, hS, Except.toOption]
    rw [hFt] at hmet ⊢
    refine ⟨hmet, hb0, hb4, ?_⟩
    simp only [firstAtZero, Bool.and_eq_true, decide_eq_true_eq] at h0
    simp only [snapTotal, h0.1, h0.2] at htot
    have : (-1 : Rat) < ((S.measure : Int) : Rat) := by
      have : (0 : Rat) ≤ (S.measure : Rat) * 4 + S.beat := by simpa using htot
      linarith
    have : (-1 : Int) < S.measure := by exact_mod_cast this
    omega

/-- **`RowsOK.norm` and the lower bound in `RowsOK.meas` hold for every chart in the domain**: they are not
assumptions of `bms_write_read`; what `RowsOK` really asks of the chart is `measure < 1000` (¬D36), the
two-character channels and ids, and `nocoll` (no two objects on one slot: the property's precondition). -/
theorem rows_normalised (cs : List BcSnap) (hwf : wfChanges cs = true) (hs : sortedSnaps cs = true)
    (h0 : firstAtZero cs = true) (hgc : gridCompatible (grid defaultMaxDiv) cs = true) (hm : metronomeOk cs = true)
    (lay : Layout) (dflt : Bytes) (c : WChart) (hok : BmsOk cs lay c) :
    ∀ r ∈ bmsNoteRows cs lay dflt c ++ bmsTempoRows cs lay c,
      (r.snap.met = some 4 ∧ 0 ≤ r.snap.beat ∧ r.snap.beat < 4) ∧ 0 ≤ r.snap.measure := by
  have N := fun t ht => posFn_normal cs hwf hs h0 hgc hm hok.met4 t ht
  intro r hr
  simp only [bmsNoteRows, bmsTempoRows, List.mem_append, List.mem_map] at hr
  rcases hr with ((⟨h, hh, rfl⟩ | ⟨h, hh, rfl⟩) | ⟨h, hh, rfl⟩) | ⟨p, hpm, rfl⟩
  · have := N _ (hok.times.1 h hh); exact ⟨⟨this.1, this.2.1, this.2.2.1⟩, this.2.2.2⟩
  · have := N _ (hok.times.2.1 h hh).1; exact ⟨⟨this.1, this.2.1, this.2.2.1⟩, this.2.2.2⟩
  · have := N _ (hok.times.2.1 h hh).2; exact ⟨⟨this.1, this.2.1, this.2.2.1⟩, this.2.2.2⟩
  · have hp2 : p.2 ∈ c.bpms.map (fun b => posFn cs b.offset) := by
      have := List.mem_map_of_mem (f := (·.2)) hpm
      rwa [zipIdxFrom_map_snd] at this
    obtain ⟨b, hb, e⟩ := List.mem_map.mp hp2
    simp only [← e]
    have := N _ (hok.times.2.2 b hb); exact ⟨⟨this.1, this.2.1, this.2.2.1⟩, this.2.2.2⟩

/-! ### samples and the text fields of the header (the part `bms_write_read` left open) -/

/-- the header record of a denotation is `_read_file_header` of the file's header dict -/
theorem denote_header (lay : Layout) (lines : List Bytes) (d : Denotation) (h : denote lay lines = some d) :
    ∃ doc, parseDoc lines = .ok doc ∧ readHeader doc.header = .ok d.header := by
  unfold denote at h
  split at h
  · cases h
  · rename_i doc hdoc
    split at h
    · cases h
    · rename_i hdr hhdr
      split at h
      · cases h
      · injection h with h
        refine ⟨doc, hdoc, ?_⟩
        rw [← h]
        exact hhdr

/-- **`bms_write_read`, header part: samples, title, artist, version.**  Under the hypotheses of `bms_write_read` and

* `MiscOK c` — no other-key entry (`misc`) is named `TITLE` / `ARTIST` / `PLAYLEVEL` or has the `WAV…` form (finding
  D46: a chart obtained through `BMSMap.read` keeps exactly these keys in `misc`; see `title_shadowed_by_misc`),
* `SamplesOK c` — the sample table is a dict (pairwise different ids) of two-character ids whose file names survive
  the reader's `strip`,

the written file (`write … = ok lines`, the same `lines` as in `bms_write_read`: `write` is a function) has the
by-the-book meaning `d` (the same `d`: `denote` is a function) whose header record carries the chart's sample table
exactly, its title / artist / version without trailing white space and its `#LNOBJ` id; hence **a hit or hold whose
in-memory sample is a file of the table is denoted with exactly that sample** (`bms_write_read` gives the denoted
sample as the `#WAV` entry of the written id `sampleId c.samples dflt s`), and an unknown sample is written under the
default id. -/
theorem bms_write_read_header (cs : List BcSnap) (hwf : wfChanges cs = true) (hs : strictSnaps cs = true)
    (h0 : firstAtZero cs = true) (hgc : gridCompatible (grid defaultMaxDiv) cs = true) (hm : metronomeOk cs = true)
    (lay : Layout) (hlay : LayoutOK lay)
    (hts : lay.exbpmCh ≠ lay.timeSig ∧ ∀ lane ∈ lay.lanes, lane.1 ≠ lay.timeSig)
    (dflt : Bytes) (c : WChart) (hp : c.bpms.Perm (tmOf 0 cs)) (hok : BmsOk cs lay c)
    (hR : RowsOK (bmsNoteRows cs lay dflt c ++ bmsTempoRows cs lay c))
    (hv : ∀ r ∈ bmsNoteRows cs lay dflt c, r.value ≠ ['0', '0'])
    (hH : HeaderOK c) (hM : MiscOK c) (hS : SamplesOK c) (hdec : ∀ b ∈ c.bpms, roundDec 3 b.bpm = b.bpm)
    (hl : List Bytes) (hhdr : writeHeader c = .ok hl)
    (items : Bytes × Nat → List TAtom)
    (hitems : ∀ lane ∈ lay.lanes, (items lane).Perm (laneItems c dflt lane.2) ∧ (∀ a ∈ items lane, a.idOk c.lnEnd))
    (hasc : ∀ lane ∈ lay.lanes, ((items lane).flatMap TAtom.times).Pairwise (fun a b => a ≤ b)) :
    ∃ lines d, write defaultGrid lay dflt c = .ok lines ∧ denote lay lines = some d ∧
      d.header.samples = c.samples ∧ d.header.title = rstrip c.title ∧ d.header.artist = rstrip c.artist ∧
      d.header.version = rstrip c.version ∧ d.header.lnEnd = c.lnEnd ∧
      (∀ s, (∃ k, (k, s) ∈ c.samples) →
        (dictGet? d.header.samples (sampleId c.samples dflt s)).getD [] = s) ∧
      (∀ s, (¬ ∃ k, (k, s) ∈ c.samples) → sampleId c.samples dflt s = dflt) := by
  obtain ⟨lines, d, b0, hw, hd, _⟩ := bms_write_read cs hwf hs h0 hgc hm lay hlay hts dflt c hp hok hR hv hH hdec hl hhdr
    items hitems hasc
  obtain ⟨hcells, _⟩ := writeCells_eq cs hwf hs h0 hgc hm lay dflt c hp hok
  have hwrite : write defaultGrid lay dflt c =
      .ok (hl ++ [[]] ++ linesOfCells (cellsOfRows (bmsNoteRows cs lay dflt c ++ bmsTempoRows cs lay c))) := by
    simp only [write, writeNotes, hhdr, hcells, bind, Except.bind]
  have hlines : lines = hl ++ [[]] ++ linesOfCells (cellsOfRows (bmsNoteRows cs lay dflt c ++ bmsTempoRows cs lay c)) := by
    rw [hwrite] at hw
    injection hw with hw
    exact hw.symm
  have hmisc : ∀ kv ∈ c.misc, ∃ a r, kv.1 = a :: r ∧ isDigit a = false ∧ isWs a = false := by
    intro kv hkv
    obtain ⟨a, r, e, hd, hw⟩ := (hH.misc kv hkv).1
    exact ⟨a, r, e, hd, hw a (by simp)⟩
  obtain ⟨H, notes, hparse, hHfold, _, _⟩ :=
    written_file_objects _ hR hl (writeHeader_headerLike c hl hhdr hmisc)
  obtain ⟨doc, hdoc, hread⟩ := denote_header lay lines d hd
  rw [hlines, hparse] at hdoc
  injection hdoc with hdoc
  have hH' : doc.header = H := by rw [← hdoc]
  rw [hH'] at hread
  obtain ⟨fS, fT, fA, fV⟩ := written_header_fields c hH hM hS hl hhdr H hHfold d.header hread
  have fL : d.header.lnEnd = c.lnEnd := by
    rw [readHeader_fields H d.header hread, (written_header_read c hH hl hhdr H hHfold).1]
    rfl
  refine ⟨lines, d, hw, hd, fS, fT, fA, fV, fL, ?_, ?_⟩
  · intro s hk
    rw [fS]
    exact (sample_readback c.samples hS.nodup dflt s).1 hk
  · intro s hk
    exact (sample_readback c.samples hS.nodup dflt s).2 hk

/-! ### finding D46: other keys that shadow the writer's own header lines -/

/-- the chart of `bms_write_read_nonvacuous` as `BMSMap.read` leaves it after the caller renamed it: `misc` still holds
the file's `TITLE` -/
def shadowChart : WChart := { wrExChart with title := "new".toList, misc := [("TITLE".toList, "old".toList)] }

/-- **D46 (counterexample to `bms_write_read_header` without `MiscOK`).**  `BMSMap.read` leaves `TITLE`, `ARTIST`,
`PLAYLEVEL`, `LNOBJ` among the chart's other keys; `_write_file_header` prints them after its own `#TITLE` line; the
last line of a key wins: the written header of the chart renamed to `new` (the header dict of the written file is the
fold of `docStep` over the header lines: `written_file_objects`), read by `_read_file_header`, still says `old`. -/
theorem title_shadowed_by_misc :
    ((writeHeader shadowChart).toOption.bind (fun hl => (foldlE docStep ⟨[], []⟩ (hl ++ [[]])).toOption.bind
      (fun doc => (readHeader doc.header).toOption))).map (·.title) = some "old".toList ∧
    shadowChart.title = "new".toList ∧ rstrip shadowChart.title = shadowChart.title := by
  decide +kernel

/-- the header hypotheses of `bms_write_read_header` are satisfiable together: a chart with a sample table -/
def hdrExChart : WChart := { wrExChart with samples := [("0A".toList, "k.wav".toList), ("0B".toList, "snare 01.ogg".toList)],
                                            hits := [⟨0, "k.wav".toList, 0⟩] }

theorem header_hyps_nonvacuous : HeaderOK hdrExChart ∧ MiscOK hdrExChart ∧ SamplesOK hdrExChart ∧
    (dictGet? hdrExChart.samples (sampleId hdrExChart.samples "01".toList "k.wav".toList)).getD [] = "k.wav".toList := by
  refine ⟨⟨by intro kv hkv; simp [hdrExChart, wrExChart] at hkv, by decide +kernel, by decide +kernel, by decide +kernel,
    by decide +kernel⟩, ⟨by intro kv hkv; simp [hdrExChart, wrExChart] at hkv⟩, ⟨by decide +kernel, by decide +kernel, by decide +kernel⟩,
    by decide +kernel⟩

end Reamber.BMS
