/-
C05 — BMS writing produces a file that denotes the in-memory chart.

The property theorems proved so far live in `Reamber/Lemmas/BMSWrite.lean` (same namespace and names as before:
`findLcm_dvd`, `newDens_dvd`, `slot_exact`, `slot_roundtrip`, `no_merge_no_drop`, `line_valid`, `lineKeys_cover`,
`written_line_denotes`, `written_objects`, `pairLane_atoms`, `write_positions`, `written_tempo_list`,
`exbpm_table_readback`, `parseFloat_showFixed`, `bms_write_read_partial`, … — see its header for the full list and for
what each says); they were moved there so that C15's `Lemmas/PermInvBMS.lean` (`posFn`, `snaps_pointwise`,
`cells_objects`), which builds on them, can be used here.  This file holds the assembly on top of both.
-/
import Reamber.Lemmas.BMSWrite
import Reamber.Lemmas.PermInvBMS
import Reamber.Lemmas.SnapMono

namespace Reamber.BMS

open Reamber.Timing Reamber.PermInv

end Reamber.BMS
