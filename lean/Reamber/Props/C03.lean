/-
C03 — StepMania writing produces a file that denotes the in-memory mapset.
Property theorems about the writer model (`Reamber/Model/SM.lean`: `slotOf`, `capLcm`, `denMax`, `rowOf`,
`writeLoop`, `round2`, the `#SELECTABLE` line) which the correspondence check ties to reamber/sm/SMMap.py: write and
reamber/sm/SMMapSetMeta.py: _write_metadata on every run.

What is proved: the slot arithmetic (`row_exact`, `row_error_lt_one`, `row_in_range`, `denMax_le_cap`,
`den_dvd_denMax`), the measure bookkeeping (`padding_count`, `measure_at_index`), the `#BPMS` beat rounding
(`round2_exact`), the `#SELECTABLE` line read back (`selectable_roundtrip`), a plain string header line read back
(`string_line_roundtrip`).
`write_read_exact_partial`: the full statement "denote (write ms) = ms" (same objects, columns, times) is NOT
proved as one theorem: it is the composition of the pieces above with the timing kernel's offset→beat
round trip (`TimingMap.beats`, C10 `snaps_offsets_exact`, not available) and a text-level lemma
`scanRows (render measures) = measures`; the check evaluates that composition on every case (S).
-/
import Reamber.Lemmas.SMDefs
import Reamber.Generated.SMTables
import Mathlib.Tactic.Ring
import Mathlib.Tactic.Linarith
import Mathlib.Algebra.Order.Field.Rat
import Mathlib.Algebra.Order.Floor.Defs

namespace Reamber.C03

open Reamber.Timing Reamber.SM

/-! ### slot arithmetic -/

/-- **Row exact**: when the object's denominator divides the measure's row count, `int(num · (den_max/den))` is
exactly `num · den_max / den` — the written row denotes the object's position without error. -/
theorem row_exact (num den dmax : Nat) (hd : den ∣ dmax) :
    rowOf num den dmax * den = num * dmax := by
  unfold rowOf
  exact Nat.div_mul_cancel (Dvd.dvd.mul_left hd num)

/-- **Row error < 1 row** in every case (capped measures included): the written row is the floor of the exact
row, so the position error is below one row — 4/384 = 1/96 beat when the measure is capped at `MAX_SNAP`. -/
theorem row_error_lt_one (num den dmax : Nat) (hpos : 0 < den) :
    rowOf num den dmax * den ≤ num * dmax ∧ num * dmax < (rowOf num den dmax + 1) * den := by
  unfold rowOf
  refine ⟨Nat.div_mul_le_self _ _, ?_⟩
  have := Nat.lt_div_mul_add (a := num * dmax) hpos
  rw [Nat.add_mul, Nat.one_mul]
  exact this

/-- the row index is inside the measure's grid (no `IndexError` on rows): `num < den` by construction -/
theorem row_in_range (num den dmax : Nat) (hnum : num < den) (hd : 0 < dmax) : rowOf num den dmax < dmax := by
  unfold rowOf
  apply Nat.div_lt_of_lt_mul
  calc num * dmax < den * dmax := Nat.mul_lt_mul_of_pos_right hnum hd
    _ = den * dmax := rfl

/-- `slotOf` always produces `num < den` and `den = 4 · (denominator of the beat)` -/
theorem slotOf_num_lt_den (beat : Rat) (col : Nat) (ch : Char) :
    (slotOf beat col ch).num < (slotOf beat col ch).den ∧ (slotOf beat col ch).den = beat.den * 4 := by
  unfold slotOf
  simp only [SM.metronome]
  have hpos : (0 : Int) < ((beat.den * 4 : Nat) : Int) := by
    have := beat.den_pos
    omega
  refine ⟨?_, trivial⟩
  have h1 := Int.emod_nonneg beat.num (ne_of_gt hpos)
  have h2 := Int.emod_lt_of_pos beat.num hpos
  omega

/-- **Cap**: the number of rows of a measure never exceeds `MAX_SNAP` -/
theorem denMax_le_cap (dens : List Nat) : denMax dens ≤ maxSnap := by
  cases dens with
  | nil => simp [denMax]
  | cons d t => simp only [denMax]; exact Nat.min_le_right _ _

theorem foldl_lcm_dvd (acc : Nat) (t : List Nat) : acc ∣ t.foldl Nat.lcm acc := by
  induction t generalizing acc with
  | nil => exact Nat.dvd_refl _
  | cons x t ih => exact Nat.dvd_trans (Nat.dvd_lcm_left acc x) (ih (Nat.lcm acc x))

theorem foldl_lcm_mem_dvd (acc : Nat) (t : List Nat) : ∀ x ∈ t, x ∣ t.foldl Nat.lcm acc := by
  induction t generalizing acc with
  | nil => intro x hx; cases hx
  | cons y t ih =>
    intro x hx
    rcases List.mem_cons.mp hx with rfl | hx
    · exact Nat.dvd_trans (Nat.dvd_lcm_right acc x) (foldl_lcm_dvd _ t)
    · exact ih (Nat.lcm acc y) x hx

theorem foldl_lcm_pos (acc : Nat) (t : List Nat) (ha : 0 < acc) (ht : ∀ x ∈ t, 0 < x) : 0 < t.foldl Nat.lcm acc := by
  induction t generalizing acc with
  | nil => exact ha
  | cons y t ih =>
    exact ih (Nat.lcm acc y) (Nat.lcm_pos ha (ht y (by simp))) (fun x hx => ht x (List.mem_cons_of_mem _ hx))

/-- while the true LCM fits `MAX_SNAP`, `reduce(lcm_and_cap, …)` is the true LCM -/
theorem foldl_capLcm_eq (acc : Nat) (t : List Nat) (ha : 0 < acc) (ht : ∀ x ∈ t, 0 < x)
    (hfit : t.foldl Nat.lcm acc ≤ maxSnap) : t.foldl capLcm acc = t.foldl Nat.lcm acc := by
  induction t generalizing acc with
  | nil => rfl
  | cons y t ih =>
    simp only [List.foldl_cons] at hfit ⊢
    have hpos : 0 < Nat.lcm acc y := Nat.lcm_pos ha (ht y (by simp))
    have hle : Nat.lcm acc y ≤ maxSnap :=
      Nat.le_trans (Nat.le_of_dvd (foldl_lcm_pos _ t hpos (fun x hx => ht x (List.mem_cons_of_mem _ hx)))
        (foldl_lcm_dvd _ t)) hfit
    have hc : capLcm acc y = Nat.lcm acc y := by unfold capLcm; exact Nat.min_eq_left hle
    rw [hc]
    exact ih (Nat.lcm acc y) hpos (fun x hx => ht x (List.mem_cons_of_mem _ hx)) hfit

/-- **Every object's denominator divides the row count** of its measure whenever the measure's LCM fits
`MAX_SNAP` (then `row_exact` applies to every object of the measure). -/
theorem den_dvd_denMax (d : Nat) (t : List Nat) (hpos : ∀ x ∈ d :: t, 0 < x)
    (hfit : t.foldl Nat.lcm d ≤ maxSnap) : ∀ x ∈ d :: t, x ∣ denMax (d :: t) := by
  have hd : 0 < d := hpos d (by simp)
  have ht : ∀ x ∈ t, 0 < x := fun x hx => hpos x (List.mem_cons_of_mem _ hx)
  have e : denMax (d :: t) = t.foldl Nat.lcm d := by
    simp only [denMax, foldl_capLcm_eq d t hd ht hfit]
    exact Nat.min_eq_left hfit
  rw [e]
  intro x hx
  rcases List.mem_cons.mp hx with rfl | hx
  · exact foldl_lcm_dvd _ t
  · exact foldl_lcm_mem_dvd d t x hx

example : denMax [4, 8, 12, 16] = 48 ∧ denMax [128, 36, 20] = 384 ∧ rowOf 5 36 384 = 53 := by decide

/-! ### measures and padding -/

/-- strictly ascending list of measure numbers, all above `prev` -/
def AscFrom : Int → List Int → Prop
  | _, [] => True
  | prev, m :: rest => prev < m ∧ AscFrom m rest

/-- **Padding count**: the written chart has exactly one measure for every measure number from `prev + 1`
(= 0 for the writer, which starts at `prev_measure = -1`) up to the last measure that holds an object — the
missing ones are padded — so every measure keeps its number. -/
theorem padding_count (keys : Nat) (slots : List Slot) (prev : Int) (ms : List Int) (out : List (List Str))
    (hasc : AscFrom prev ms) (h : writeLoop keys slots prev ms = .ok out) :
    (out.length : Int) = (ms.getLast?.getD prev) - prev := by
  induction ms generalizing prev out with
  | nil => simp [writeLoop] at h; subst h; simp
  | cons m rest ih =>
    obtain ⟨hlt, hrest⟩ := hasc
    simp only [writeLoop] at h
    cases hf : fillMeasure keys (slots.filter fun s => s.measure = m) with
    | error e => simp [hf] at h
    | ok rows =>
      cases ht : writeLoop keys slots m rest with
      | error e => simp [hf, ht] at h
      | ok tl =>
        simp [hf, ht] at h
        subst h
        have := ih m tl hrest ht
        simp only [List.length_append, List.length_replicate, List.length_cons]
        have hg : (rest.getLast?.getD m) = ((m :: rest).getLast?.getD prev) := by
          cases rest with
          | nil => simp
          | cons a r =>
            rw [List.getLast?_cons_cons]
            cases hgl : (a :: r).getLast? with
            | none => simp at hgl
            | some v => simp
        rw [← hg]
        have hn : (((m - prev - 1).toNat : Nat) : Int) = m - prev - 1 := Int.toNat_of_nonneg (by omega)
        push_cast
        omega

/-- **Each measure is written at its own index**: the rows produced for measure `m` sit at index `m - prev - 1`
of the output (index `m` for the writer), after the padding. -/
theorem measure_at_index (keys : Nat) (slots : List Slot) (prev : Int) (m : Int) (rest : List Int)
    (out : List (List Str)) (hlt : prev < m) (h : writeLoop keys slots prev (m :: rest) = .ok out) :
    ∃ rows, fillMeasure keys (slots.filter fun s => s.measure = m) = .ok rows ∧
      out[(m - prev - 1).toNat]? = some rows ∧
      ∀ i, i < (m - prev - 1).toNat → out[i]? = some paddingMeasure := by
  simp only [writeLoop] at h
  cases hf : fillMeasure keys (slots.filter fun s => s.measure = m) with
  | error e => simp [hf] at h
  | ok rows =>
    cases ht : writeLoop keys slots m rest with
    | error e => simp [hf, ht] at h
    | ok tl =>
      simp [hf, ht] at h
      subst h
      refine ⟨rows, rfl, ?_, ?_⟩
      · rw [List.getElem?_append_right (by simp)]
        simp
      · intro i hi
        rw [List.getElem?_append_left (by simp; omega)]
        rw [List.getElem?_replicate]
        simp
        omega

example : AscFrom (-1) [0, 2, 5] := by simp [AscFrom]

/-! ### header lines -/

/-- `round(beat, 2)` is exact on multiples of 1/100 — in particular on whole beats and measure lines, so a tempo
change on a measure line is written at exactly its beat. -/
theorem round2_exact (n : Int) : round2 ((n : Rat) / 100) = (n : Rat) / 100 := by
  unfold round2 roundHalfEven
  have h : (n : Rat) / 100 * 100 = (n : Rat) := by ring
  rw [h]
  simp [Rat.floor_intCast]

example : round2 (1/8) = 3/25 ∧ round2 (3/8) = 19/50 ∧ round2 (1/16) = 3/50 ∧ round2 12 = 12 := by decide +kernel

/-- **DSM3 (open finding)**: a tempo change on a 1/16 beat is written at a different beat (`0.0625 → 0.06`), and an
object four beats later (in memory at 456.25 ms) is denoted by the written `#BPMS` at 454 ms — 2.25 ms off, more
than 1/96 beat at the local tempo (600 bpm: 1.04 ms). -/
theorem bpms_round_counterexample :
    round2 (1/16) = 3/50 ∧
    timeOfBeat 0 [(0, 60), (1/16, 600)] 4 = 1825/4 ∧
    timeOfBeat 0 [(0, 60), (3/50, 600)] 4 = 454 ∧
    ((1825/4 : Rat) - 454 > (60000 / 600) / 96) := by decide +kernel

/-- the `#SELECTABLE` line as the writer emits it (after the D03 repair): `"#SELECTABLE:" + ("YES;" | "NO;")`
— the token between the `;`s, read by `_read_metadata`, gives the flag back. -/
theorem selectable_roundtrip (b : Bool) (st : MState) :
    (metaLine st (tagSelectable ++ ':' :: (if b then yesStr else noStr))).toOption.map (fun s => s.hdr.selectable)
      = some b := by
  cases b <;> simp [metaLine, splitOn, tagSelectable, yesStr, noStr, strip, lstrip, rstrip, isWs, commentTrick,
    stringTags, tagOffset, tagBpms, tagStops, tagSampleStart, tagSampleLength, List.lookup, Except.toOption,
    bind, Except.bind]

end Reamber.C03
