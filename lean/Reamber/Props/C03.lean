/-
C03 — StepMania writing produces a file that denotes the in-memory mapset.
Property theorems about the writer model (`Reamber/Model/SM.lean`: `slotOf`, `capLcm`, `denMax`, `rowOf`,
`writeLoop`, `round2`, the `#SELECTABLE` line) which the correspondence check ties to reamber/sm/SMMap.py: write and
reamber/sm/SMMapSetMeta.py: _write_metadata on every run.

What is proved: the slot arithmetic (`row_exact`, `row_error_lt_one`, `row_in_range`, `denMax_le_cap`,
`den_dvd_denMax`), the measure bookkeeping (`padding_count`, `measure_at_index`), the `#BPMS` beat rounding
(`round6_err`, `round6_exact`, `round6_grid48`, `round6_shift_within_row`), the `#SELECTABLE` line read back (`selectable_roundtrip`), a plain string header line read back
(`string_line_roundtrip`).
`write_read_exact_partial` (see the end of the file): the full statement "denote (write ms) = ms" is NOT
proved as one theorem; proved pieces: `last_write_wins`, `cells_no_collision`, `slot_beat_exact`,
`scanRows_renderRows`, `written_beats_exact`. Originally: it is the composition of the pieces above with the timing kernel's offset→beat
round trip (`TimingMap.beats`, C10 `snaps_offsets_exact`, not available) and a text-level lemma
`scanRows (render measures) = measures`; the check evaluates that composition on every case (S).
-/
import Reamber.Lemmas.SMDefs
import Reamber.Lemmas.SMFill
import Reamber.Lemmas.SMSlot
import Reamber.Lemmas.SMScan
import Reamber.Props.C10
import Reamber.Lemmas.TimingInverse
import Reamber.Lemmas.SMText
import Reamber.Lemmas.SMPairInv
import Reamber.Lemmas.SMWriteEvents
import Reamber.Lemmas.SMWriteChart
import Reamber.Lemmas.SMDenoteFile
import Reamber.Lemmas.SMRenderFile
import Reamber.Lemmas.SMWriteText
import Reamber.Lemmas.Snapper
import Reamber.Lemmas.SMTies
import Reamber.Lemmas.SMTol
import Reamber.Lemmas.SMChanges
import Reamber.Lemmas.SMGridCompat
import Reamber.Lemmas.SMLip
import Reamber.Lemmas.SMNoCR
import Mathlib.Tactic.NormNum
import Reamber.Generated.SMTables
import Mathlib.Tactic.Ring
import Mathlib.Tactic.Linarith
import Mathlib.Algebra.Order.Field.Rat
import Mathlib.Algebra.Order.Floor.Defs

namespace Reamber.C03

open Reamber.Timing Reamber.SM

/-! ### slot arithmetic -/

/-- **Row exact**: when the object's denominator divides the measure's row count, `int(num · (den_max/den))` is
exactly `num · den_max / den` — the written row denotes the object's position without error. -/
theorem row_exact (num den dmax : Nat) (hd : den ∣ dmax) :
    rowOf num den dmax * den = num * dmax := by
  unfold rowOf
  exact Nat.div_mul_cancel (Dvd.dvd.mul_left hd num)

/-- **Row error < 1 row** in every case (capped measures included): the written row is the floor of the exact
row, so the position error is below one row — 4/384 = 1/96 beat when the measure is capped at `MAX_SNAP`. -/
theorem row_error_lt_one (num den dmax : Nat) (hpos : 0 < den) :
    rowOf num den dmax * den ≤ num * dmax ∧ num * dmax < (rowOf num den dmax + 1) * den := by
  unfold rowOf
  refine ⟨Nat.div_mul_le_self _ _, ?_⟩
  have := Nat.lt_div_mul_add (a := num * dmax) hpos
  rw [Nat.add_mul, Nat.one_mul]
  exact this

/-- the row index is inside the measure's grid (no `IndexError` on rows): `num < den` by construction -/
theorem row_in_range (num den dmax : Nat) (hnum : num < den) (hd : 0 < dmax) : rowOf num den dmax < dmax := by
  unfold rowOf
  apply Nat.div_lt_of_lt_mul
  calc num * dmax < den * dmax := Nat.mul_lt_mul_of_pos_right hnum hd
    _ = den * dmax := rfl

/-- `slotOf` always produces `num < den` and `den = 4 · (denominator of the beat)` -/
theorem slotOf_num_lt_den (beat : Rat) (col : Nat) (ch : Char) :
    (slotOf beat col ch).num < (slotOf beat col ch).den ∧ (slotOf beat col ch).den = beat.den * 4 := by
  unfold slotOf
  simp only [SM.metronome]
  have hpos : (0 : Int) < ((beat.den * 4 : Nat) : Int) := by
    have := beat.den_pos
    omega
  refine ⟨?_, trivial⟩
  have h1 := Int.emod_nonneg beat.num (ne_of_gt hpos)
  have h2 := Int.emod_lt_of_pos beat.num hpos
  omega

/-- **Cap**: the number of rows of a measure never exceeds `MAX_SNAP` -/
theorem denMax_le_cap (dens : List Nat) : denMax dens ≤ maxSnap := by
  cases dens with
  | nil => simp [denMax]
  | cons d t => simp only [denMax]; exact Nat.min_le_right _ _

theorem foldl_lcm_dvd (acc : Nat) (t : List Nat) : acc ∣ t.foldl Nat.lcm acc := by
  induction t generalizing acc with
  | nil => exact Nat.dvd_refl _
  | cons x t ih => exact Nat.dvd_trans (Nat.dvd_lcm_left acc x) (ih (Nat.lcm acc x))

theorem foldl_lcm_mem_dvd (acc : Nat) (t : List Nat) : ∀ x ∈ t, x ∣ t.foldl Nat.lcm acc := by
  induction t generalizing acc with
  | nil => intro x hx; cases hx
  | cons y t ih =>
    intro x hx
    rcases List.mem_cons.mp hx with rfl | hx
    · exact Nat.dvd_trans (Nat.dvd_lcm_right acc x) (foldl_lcm_dvd _ t)
    · exact ih (Nat.lcm acc y) x hx

theorem foldl_lcm_pos (acc : Nat) (t : List Nat) (ha : 0 < acc) (ht : ∀ x ∈ t, 0 < x) : 0 < t.foldl Nat.lcm acc := by
  induction t generalizing acc with
  | nil => exact ha
  | cons y t ih =>
    exact ih (Nat.lcm acc y) (Nat.lcm_pos ha (ht y (by simp))) (fun x hx => ht x (List.mem_cons_of_mem _ hx))

/-- while the true LCM fits `MAX_SNAP`, `reduce(lcm_and_cap, …)` is the true LCM -/
theorem foldl_capLcm_eq (acc : Nat) (t : List Nat) (ha : 0 < acc) (ht : ∀ x ∈ t, 0 < x)
    (hfit : t.foldl Nat.lcm acc ≤ maxSnap) : t.foldl capLcm acc = t.foldl Nat.lcm acc := by
  induction t generalizing acc with
  | nil => rfl
  | cons y t ih =>
    simp only [List.foldl_cons] at hfit ⊢
    have hpos : 0 < Nat.lcm acc y := Nat.lcm_pos ha (ht y (by simp))
    have hle : Nat.lcm acc y ≤ maxSnap :=
      Nat.le_trans (Nat.le_of_dvd (foldl_lcm_pos _ t hpos (fun x hx => ht x (List.mem_cons_of_mem _ hx)))
        (foldl_lcm_dvd _ t)) hfit
    have hc : capLcm acc y = Nat.lcm acc y := by unfold capLcm; exact Nat.min_eq_left hle
    rw [hc]
    exact ih (Nat.lcm acc y) hpos (fun x hx => ht x (List.mem_cons_of_mem _ hx)) hfit

/-- **Every object's denominator divides the row count** of its measure whenever the measure's LCM fits
`MAX_SNAP` (then `row_exact` applies to every object of the measure). -/
theorem den_dvd_denMax (d : Nat) (t : List Nat) (hpos : ∀ x ∈ d :: t, 0 < x)
    (hfit : t.foldl Nat.lcm d ≤ maxSnap) : ∀ x ∈ d :: t, x ∣ denMax (d :: t) := by
  have hd : 0 < d := hpos d (by simp)
  have ht : ∀ x ∈ t, 0 < x := fun x hx => hpos x (List.mem_cons_of_mem _ hx)
  have e : denMax (d :: t) = t.foldl Nat.lcm d := by
    simp only [denMax, foldl_capLcm_eq d t hd ht hfit]
    exact Nat.min_eq_left hfit
  rw [e]
  intro x hx
  rcases List.mem_cons.mp hx with rfl | hx
  · exact foldl_lcm_dvd _ t
  · exact foldl_lcm_mem_dvd d t x hx

example : denMax [4, 8, 12, 16] = 48 ∧ denMax [128, 36, 20] = 384 ∧ rowOf 5 36 384 = 53 := by decide

/-! ### measures and padding -/

/-- strictly ascending list of measure numbers, all above `prev` -/
def AscFrom : Int → List Int → Prop
  | _, [] => True
  | prev, m :: rest => prev < m ∧ AscFrom m rest

/-- **Padding count**: the written chart has exactly one measure for every measure number from `prev + 1`
(= 0 for the writer, which starts at `prev_measure = -1`) up to the last measure that holds an object — the
missing ones are padded — so every measure keeps its number. -/
theorem padding_count (keys : Nat) (slots : List Slot) (prev : Int) (ms : List Int) (out : List (List Str))
    (hasc : AscFrom prev ms) (h : writeLoop keys slots prev ms = .ok out) :
    (out.length : Int) = (ms.getLast?.getD prev) - prev := by
  induction ms generalizing prev out with
  | nil => simp [writeLoop] at h; subst h; simp
  | cons m rest ih =>
    obtain ⟨hlt, hrest⟩ := hasc
    simp only [writeLoop] at h
    cases hf : fillMeasure keys (slots.filter fun s => s.measure = m) with
    | error e => simp [hf] at h
    | ok rows =>
      cases ht : writeLoop keys slots m rest with
      | error e => simp [hf, ht] at h
      | ok tl =>
        simp [hf, ht] at h
        subst h
        have := ih m tl hrest ht
        simp only [List.length_append, List.length_replicate, List.length_cons]
        have hg : (rest.getLast?.getD m) = ((m :: rest).getLast?.getD prev) := by
          cases rest with
          | nil => simp
          | cons a r =>
            rw [List.getLast?_cons_cons]
            cases hgl : (a :: r).getLast? with
            | none => simp at hgl
            | some v => simp
        rw [← hg]
        have hn : (((m - prev - 1).toNat : Nat) : Int) = m - prev - 1 := Int.toNat_of_nonneg (by omega)
        push_cast
        omega

/-- **Each measure is written at its own index**: the rows produced for measure `m` sit at index `m - prev - 1`
of the output (index `m` for the writer), after the padding. -/
theorem measure_at_index (keys : Nat) (slots : List Slot) (prev : Int) (m : Int) (rest : List Int)
    (out : List (List Str)) (hlt : prev < m) (h : writeLoop keys slots prev (m :: rest) = .ok out) :
    ∃ rows, fillMeasure keys (slots.filter fun s => s.measure = m) = .ok rows ∧
      out[(m - prev - 1).toNat]? = some rows ∧
      ∀ i, i < (m - prev - 1).toNat → out[i]? = some paddingMeasure := by
  simp only [writeLoop] at h
  cases hf : fillMeasure keys (slots.filter fun s => s.measure = m) with
  | error e => simp [hf] at h
  | ok rows =>
    cases ht : writeLoop keys slots m rest with
    | error e => simp [hf, ht] at h
    | ok tl =>
      simp [hf, ht] at h
      subst h
      refine ⟨rows, rfl, ?_, ?_⟩
      · rw [List.getElem?_append_right (by simp)]
        simp
      · intro i hi
        rw [List.getElem?_append_left (by simp; omega)]
        rw [List.getElem?_replicate]
        simp
        omega

example : AscFrom (-1) [0, 2, 5] := by simp [AscFrom]

/-! ### header lines -/

/-- the core of Python's `round`: the result is within 1/2 of the argument -/
theorem roundHalfEven_err (x : Rat) : |((roundHalfEven x : Int) : Rat) - x| ≤ 1 / 2 := by
  have h1 : ((x.floor : Int) : Rat) ≤ x := Rat.floor_le x
  have h2 : x < ((x.floor : Int) : Rat) + 1 := by
    have := Rat.lt_floor_add_one x
    push_cast at this
    exact this
  unfold roundHalfEven
  simp only
  split
  · rename_i h
    rw [abs_le]; constructor <;> linarith
  · split
    · rename_i h h'
      rw [abs_le]; push_cast; constructor <;> linarith
    · rename_i h h'
      have hr : x - ((x.floor : Int) : Rat) = 1 / 2 := le_antisymm (not_lt.mp h') (not_lt.mp h)
      split
      · rw [abs_le]; constructor <;> linarith
      · rw [abs_le]; push_cast; constructor <;> linarith

/-- **`#BPMS` beat rounding (after D33)**: the written beat differs from the writer's beat by at most
5·10⁻⁷ beat … -/
theorem round6_err (q : Rat) : |round6 q - q| ≤ 1 / 2000000 := by
  unfold round6 roundDec
  have h := roundHalfEven_err (q * ((10 ^ 6 : Nat) : Rat))
  have hp : (((10 ^ 6 : Nat) : Rat)) = 1000000 := by norm_num
  rw [hp] at h ⊢
  rw [abs_le] at h ⊢
  constructor <;> linarith [h.1, h.2]

/-- … is exact on multiples of 10⁻⁶ — in particular on whole beats, measure lines and every multiple of 1/16
(`0.0625`), so those tempo changes are written at exactly their beat … -/
theorem round6_exact (n : Int) : round6 ((n : Rat) / 1000000) = (n : Rat) / 1000000 := by
  unfold round6 roundDec roundHalfEven
  have hp : (((10 ^ 6 : Nat) : Rat)) = 1000000 := by norm_num
  have h : (n : Rat) / 1000000 * 1000000 = (n : Rat) := by ring
  rw [hp, h]
  simp [Rat.floor_intCast]

theorem round6_sixteenth (k : Int) : round6 ((k : Rat) / 16) = (k : Rat) / 16 := by
  have : (k : Rat) / 16 = ((62500 * k : Int) : Rat) / 1000000 := by push_cast; ring
  rw [this]; exact round6_exact _

/-- … and on the thirds of the 1/48-beat grid (`k/48`, 3 ∤ k) the error is at most (and then exactly) 1/3·10⁻⁶ beat. -/
theorem round6_grid48 (k : Int) : |round6 ((k : Rat) / 48) - (k : Rat) / 48| ≤ 1 / 3000000 := by
  obtain ⟨q, j, hj0, hj3, hm⟩ : ∃ q j : Int, 0 ≤ j ∧ j < 3 ∧ 62500 * k = 3 * q + j :=
    ⟨62500 * k / 3, 62500 * k % 3, by omega, by omega, by omega⟩
  have hj : j = 0 ∨ j = 1 ∨ j = 2 := by clear hm; omega
  have hx : (k : Rat) / 48 * 1000000 = (q : Rat) + (j : Rat) / 3 := by
    have : ((62500 * k : Int) : Rat) = ((3 * q + j : Int) : Rat) := by rw [hm]
    push_cast at this
    linarith
  have hk : (k : Rat) / 48 = ((q : Rat) + (j : Rat) / 3) / 1000000 := by rw [← hx]; ring
  have hfl : ((q : Rat) + (j : Rat) / 3).floor = q := by
    apply floor_eq_of
    · have : (0 : Rat) ≤ (j : Rat) := by exact_mod_cast hj0
      linarith
    · have : (j : Rat) < 3 := by exact_mod_cast hj3
      linarith
  have hR : round6 ((k : Rat) / 48) = ((roundHalfEven ((q : Rat) + (j : Rat) / 3) : Int) : Rat) / 1000000 := by
    unfold round6 roundDec
    have hp : (((10 ^ 6 : Nat) : Rat)) = 1000000 := by norm_num
    rw [hp, hx]
  have hval : roundHalfEven ((q : Rat) + (j : Rat) / 3) = if j = 2 then q + 1 else q := by
    unfold roundHalfEven
    simp only [hfl]
    rcases hj with rfl | rfl | rfl <;> norm_num
  rw [hR, hval, hk, abs_le]
  rcases hj with rfl | rfl | rfl
  · norm_num
  · constructor <;> (push_cast; norm_num; linarith)
  · constructor <;> (push_cast; norm_num; linarith)

/-- **Does the rounding stay inside the 1/96-beat bound?**  A tempo change displaced by `δ` beats shifts every later
object by `δ · (difference of the two beat lengths)` ms.  With `|δ| ≤ 1/3·10⁻⁶` (the 1/48 grid) this is at most 1/96
beat at a local beat length `bl` exactly when the beat lengths differ by at most `31250 · bl` — i.e. for every tempo
ratio below 1 : 31251; 2-decimal rounding (`|δ| ≤ 1/200`) only reached 1 : 3.08. -/
theorem round6_shift_within_row (δ bla blb bl : Rat) (hδ : |δ| ≤ 1 / 3000000) (hr : |bla - blb| ≤ 31250 * bl) :
    |δ * (bla - blb)| ≤ bl / 96 := by
  rw [abs_mul]
  have h1 : |δ| * |bla - blb| ≤ (1 / 3000000) * (31250 * bl) :=
    mul_le_mul hδ hr (abs_nonneg _) (by norm_num)
  have : (1 / 3000000 : Rat) * (31250 * bl) = bl / 96 := by ring
  linarith

example : round6 (1/48) = 20833/1000000 ∧ round6 (1/16) = 1/16 ∧ round6 (1/128) = 3906/500000 ∧ round6 12 = 12 := by
  decide +kernel

/-- **D33 (repaired): the 2-decimal variant.**  Had the beats been written with `round(beat, 2)` (as before the
repair), a tempo change on a 1/16 beat would be written at `0.06`, and an object four beats later (in memory at
456.25 ms) would be denoted at 454 ms — 2.25 ms off, more than 1/96 beat at the local tempo (600 bpm: 1.04 ms);
with 6 decimals the same change is written exactly. -/
theorem two_decimal_counterexample :
    round2 (1/16) = 3/50 ∧ round6 (1/16) = 1/16 ∧
    timeOfBeat 0 [(0, 60), (1/16, 600)] 4 = 1825/4 ∧
    timeOfBeat 0 [(0, 60), (3/50, 600)] 4 = 454 ∧
    ((1825/4 : Rat) - 454 > (60000 / 600) / 96) := by decide +kernel

/-- the `#SELECTABLE` line as the writer emits it (after the D03 repair): `"#SELECTABLE:" + ("YES;" | "NO;")`
— the token between the `;`s, read by `_read_metadata`, gives the flag back. -/
theorem selectable_roundtrip (b : Bool) (st : MState) :
    (metaLine st (tagSelectable ++ ':' :: (if b then yesStr else noStr))).toOption.map (fun s => s.hdr.selectable)
      = some b := by
  cases b <;> simp [metaLine, splitOn, tagSelectable, yesStr, noStr, strip, lstrip, rstrip, isWs, commentTrick,
    stringTags, tagOffset, tagBpms, tagStops, tagSampleStart, tagSampleLength, List.lookup, Except.toOption,
    bind, Except.bind]

/-! ### pieces of `write_read_exact` -/

/-- **Last write wins per cell** (`lines[note.num][note.column] = note.char` over the blank grid): for objects whose
rows and columns are inside the `den_max × keys` grid, the measure is written, has `den_max` rows of `keys` characters,
and cell (r, c) holds the character of the last object with that row and column — '0' where there is none. -/
theorem last_write_wins (keys : Nat) (g : List Slot)
    (hin : ∀ s ∈ g, rowOf s.num s.den (denMax (g.map (·.den))) < denMax (g.map (·.den)) ∧ s.col < keys) :
    ∃ G, fillMeasure keys g = .ok G ∧ Rect G (denMax (g.map (·.den))) keys ∧
      ∀ r c, cellAt G r c = (lastAt (g.map (cellOf (denMax (g.map (·.den))))) r c).getD '0' :=
  fillMeasure_spec keys g hin

/-- no two objects in one (row, column) ⇒ every object's character is in its own cell and every other cell is '0' -/
theorem cells_no_collision (keys : Nat) (g : List Slot)
    (hin : ∀ s ∈ g, rowOf s.num s.den (denMax (g.map (·.den))) < denMax (g.map (·.den)) ∧ s.col < keys)
    (hnc : (g.map (fun s => ((cellOf (denMax (g.map (·.den))) s).1, (cellOf (denMax (g.map (·.den))) s).2.1))).Nodup) :
    ∃ G, fillMeasure keys g = .ok G ∧ Rect G (denMax (g.map (·.den))) keys ∧
      (∀ s ∈ g, cellAt G (rowOf s.num s.den (denMax (g.map (·.den)))) s.col = s.ch) ∧
      (∀ r c, (∀ s ∈ g, ¬ (rowOf s.num s.den (denMax (g.map (·.den))) = r ∧ s.col = c)) → cellAt G r c = '0') :=
  fillMeasure_no_collision keys g hin hnc

/-- **The written row denotes the object's beat exactly**: with `measure = beat // 4`, `den = 4·denominator`,
`num = numerator % den`, in a measure whose row count is divisible by `den` (always when the LCM fits 384,
`den_dvd_denMax`), row `num·den_max/den` of measure `measure` sits — by the StepMania rule `4m + 4r/R` — at `beat`. -/
theorem slot_beat_exact (beat : Rat) (col : Nat) (ch : Char) (dmax : Nat) (hpos : 0 < dmax)
    (hd : (slotOf beat col ch).den ∣ dmax) :
    4 * ((slotOf beat col ch).measure : Rat) +
      4 * ((rowOf (slotOf beat col ch).num (slotOf beat col ch).den dmax : Nat) : Rat) / (dmax : Rat) = beat :=
  SM.slot_beat_exact beat col ch dmax hpos hd

/-- **The note data scans back**: `"\n,\n".join("\n".join(rows))` read by the specification's scanner gives
exactly the written measures and rows (rows over the note symbols: non-empty, no ',' / line break / surrounding
whitespace). -/
theorem scanRows_renderRows (ms : List (List Str)) (hne : ms ≠ []) (hc : ∀ rows ∈ ms, ∀ p ∈ rows, CleanRow p) :
    scanRows (renderRows ms) = ms :=
  SM.scanRows_renderRows ms hne hc

/-- **The beats the writer slots are the true beats** (C10 `beats_run_exact`): when the chart's tempo list is the
stored form of a tempo-change list `cs` in C10's domain with the 4-beat metronome, and every object time is on the
snap grid (`OnGridAt`), `tm.beats(...)` returns the declarative beat position of every object. -/
theorem written_beats_exact (t0 : Rat) (cs : List BcSnap)
    (hwf : wfChanges cs = true) (hs : sortedSnaps cs = true) (h0 : firstAtZero cs = true)
    (hgc : gridCompatible (grid defaultMaxDiv) cs = true) (hm : metronomeOk cs = true)
    (hM : ∀ c ∈ cs, c.met = 4) (c : WChart) (hb : toTimingMap c.bpms = tmOf t0 cs)
    (hts : ∀ t ∈ (writeOrder c.notes).map (·.1), OnGridAt (grid defaultMaxDiv) t0 cs t) :
    beats defaultGrid (toTimingMap c.bpms) ((writeOrder c.notes).map (·.1)) =
      .ok (((writeOrder c.notes).map (·.1)).map (beatAt t0 cs)) := by
  rw [hb]
  have hg : defaultGrid.toList = grid defaultMaxDiv := by simp [defaultGrid]
  exact beats_run_exact defaultGrid (gridOK_grid (by decide)) t0 cs hwf hs h0 (by rw [hg]; exact hgc) hm 4 hM _
    (by rw [hg]; exact hts)

/-- **The millisecond step**: if the written `#OFFSET` / `#BPMS` denote the start time `t0` and the tempo-change list
`cs` (4-beat metronome, C10's well-formedness), then the StepMania time of the beat `beatAt t0 cs t` — the beat the
writer slots for an object at time `t ≥ t0` — is exactly `t` (C10 `timeAt_snapOfBeat_beatAt`). -/
theorem written_time_exact (t0 : Rat) (cs : List BcSnap) (hwf : wfChanges cs = true) (hs : sortedSnaps cs = true)
    (h0 : firstAtZero cs = true) (hM : ∀ c ∈ cs, c.met = 4)
    (offsetSec : Rat) (bpms : List (Rat × Rat)) (ho : -(1000 * offsetSec) = t0) (hb : changesOf bpms = cs)
    (t : Rat) (ht : t0 ≤ t) : timeOfBeat offsetSec bpms (beatAt t0 cs t) = t := by
  unfold timeOfBeat
  rw [ho, hb]
  exact timeAt_snapOfBeat_beatAt t0 cs t hwf hs h0 hM ht

theorem snapOfBeat_measure_line (m : Int) : snapOfBeat (4 * (m : Rat)) = ⟨m, 0, some 4⟩ := by
  unfold snapOfBeat
  have h : 4 * (m : Rat) / 4 = (m : Rat) := by ring
  simp only [h, Rat.floor_intCast]
  congr 1
  ring

/-- **`#BPMS` of measure-line tempos denote the tempo list**: for a tempo-change list whose changes all sit on
measure lines (beat 0 of measure `m`, 4-beat metronome) in ascending order, the pairs `round(4m, 6) = bpm` the writer
emits (beat of change = 4m, `round6_exact`) denote, by `changesOf`, exactly that list. -/
theorem changesOf_written_measure_lines (cs : List BcSnap) (hs : sortedSnaps cs = true)
    (hl : ∀ c ∈ cs, c.snap.beat = 0 ∧ c.met = 4 ∧ c.snap.met = some 4) :
    changesOf (cs.map (fun c => (round6 (4 * (c.snap.measure : Rat)), c.bpm))) = cs := by
  have hr : ∀ m : Int, round6 (4 * (m : Rat)) = 4 * (m : Rat) := by
    intro m
    have := round6_exact (4000000 * m)
    have e : ((4000000 * m : Int) : Rat) / 1000000 = 4 * (m : Rat) := by push_cast; ring
    rw [e] at this; exact this
  unfold changesOf
  have hsorted : (cs.map (fun c => (round6 (4 * (c.snap.measure : Rat)), c.bpm))).Pairwise
      (fun a b => decide (a.1 ≤ b.1) = true) := by
    rw [List.pairwise_map]
    refine (sortedSnaps_pairwise hs).imp_of_mem ?_
    intro a b ha hb hab
    simp only [hr, decide_eq_true_eq]
    have hba := (hl b hb).1
    have haa := (hl a ha).1
    simp only [Snap.le, Snap.lt, Snap.eqv, haa, hba, Bool.or_eq_true, Bool.and_eq_true, decide_eq_true_eq] at hab
    have : a.snap.measure ≤ b.snap.measure := by
      rcases hab with (h | h) | h
      · exact le_of_lt h
      · exact le_of_eq h.1
      · exact le_of_eq h.1
    have : (a.snap.measure : Rat) ≤ (b.snap.measure : Rat) := by exact_mod_cast this
    linarith
  rw [isort_eq_self _ hsorted, List.map_map]
  conv => rhs; rw [← List.map_id cs]
  apply List.map_congr_left
  intro c hc
  obtain ⟨hb, hm, hsm⟩ := hl c hc
  simp only [Function.comp, hr, snapOfBeat_measure_line, id]
  cases c with
  | mk bpm met snap =>
    cases snap with
    | mk me be mt =>
      simp only at hb hm hsm
      subst hb hm hsm
      rfl

theorem stringTags_facts : ∀ ta ∈ stringTags,
    ':' ∉ ta.1 ∧ strip ta.1 = ta.1 ∧ ta.1.head? = some '#' ∧ ta.1.isEmpty = false ∧ stringTags.lookup ta.1 = some ta.2 := by
  decide +kernel

/-- **A plain string header line reads back** (all 16 tags of `_write_metadata` whose line is `#TAG:{value};`): the
token `#TAG:value` — for a value without ':' and without surrounding whitespace — read by `_read_metadata` stores
exactly `value` under the attribute the writer took it from. -/
theorem string_line_roundtrip (ta : Str × Str) (hta : ta ∈ stringTags) (v : Str) (hv : ':' ∉ v) (hs : strip v = v)
    (st : MState) :
    metaLine st (ta.1 ++ ':' :: v) = .ok { st with hdr := { st.hdr with strs := (ta.2, v) :: st.hdr.strs } } := by
  obtain ⟨h1, h2, h3, h4, h5⟩ := stringTags_facts ta hta
  have hline : (ta.1 ++ ':' :: v).isEmpty = false := by
    cases hh : ta.1 with
    | nil => simp [hh] at h4
    | cons a b => rfl
  have hsplit : splitOn ':' (ta.1 ++ ':' :: v) = [ta.1, v] := by
    rw [splitOn_append_sep ':' _ _ h1, splitOn_no_sep ':' v hv]
  unfold metaLine
  simp only [hline, Bool.false_eq_true, if_false, hsplit, List.map_cons, List.map_nil, h2, hs, List.headD_cons, h4,
    List.tail_cons]
  have hct : commentTrick ta.1 = ta.1 := by simp [commentTrick, h3]
  simp only [hct, h5, bind, Except.bind, hs]

/-- **`pairing_inverse`.**  For any notes whose holds/rolls have `beat < endBeat` and do not overlap (nor touch) within
a column: their events (a tap symbol per tap, a head and a tail symbol per hold/roll) in strictly ascending
(beat, column) order — the order in which a written chart is read — are paired by the StepMania rule into exactly
those notes: no unmatched tail, no head over an open head, none left open. -/
theorem pairing_inverse (evs : List SEv) (N : List DNote) (hsort : evs.Pairwise ltEv)
    (hperm : evs.Perm (N.flatMap evOf)) (hlen : ∀ n ∈ N, ∀ e, n.endBeat = some e → n.beat < e)
    (hno : N.Pairwise NoOverlap) :
    (pairAll evs).ok = true ∧ (pairAll evs).opened = [] ∧ (pairAll evs).notes.Perm N :=
  SM.pairing_inverse evs N hsort hperm hlen hno

example :
    let N : List DNote := [⟨.hold, 0, 0, some 2⟩, ⟨.mine, 0, 1, none⟩, ⟨.roll, 0, 3, some 4⟩, ⟨.hit, 1, 0, none⟩]
    let evs : List SEv := [(0, 0, .head .hold), (1, 0, .tap .hit), (0, 1, .tap .mine), (0, 2, .tail), (0, 3, .head .roll), (0, 4, .tail)]
    (pairAll evs).ok = true ∧ (pairAll evs).opened = [] ∧ (pairAll evs).notes.length = 4 := by decide +kernel

/-- **Reading order**: the events of any chart text (`4m + 4r/R`, symbols with columns) are in strictly ascending
(beat, column) order. -/
theorem events_sorted (ms : List (List Str)) : (events ms).Pairwise ltEv := SM.events_sorted ms

/-- **The written measures, by index** (`prev_measure` padding): entry `i` of the output is the filled grid of measure
`prev + 1 + i` when that measure holds an object, the padding measure otherwise; nothing else is emitted. -/
theorem writeLoop_index (keys : Nat) (S : List Slot) (ms : List Int) (prev : Int) (out : List (List Str))
    (hasc : AscAbove prev ms) (hw : writeLoop keys S prev ms = .ok out) :
    (out.length : Int) = (ms.getLast?.getD prev) - prev ∧
    ∀ (i : Nat) (hi : i < out.length),
      (prev + 1 + (i : Int) ∈ ms →
        fillMeasure keys (S.filter (fun s => s.measure = prev + 1 + (i : Int))) = .ok out[i]) ∧
      (prev + 1 + (i : Int) ∉ ms → out[i] = paddingMeasure) :=
  SM.writeLoop_index keys S ms prev out hasc hw

/-- **The written chart holds exactly the events of its objects** (`EventsOK`: valid symbols, non-negative beats,
columns below the key count, no two object events in one (column, beat), every denominator divides its measure's
row count): reading the emitted measures by the StepMania rules gives `(c, b, s)` iff it is one of the object events. -/
theorem written_events (keys : Nat) (E : List SEv) (hE : EventsOK keys E) (ms : List Int) (out : List (List Str))
    (hasc : AscAbove (-1) ms) (hmem : ∀ m, m ∈ ms ↔ ∃ s ∈ E.map slotOfEv, s.measure = m)
    (hw : writeLoop keys (E.map slotOfEv) (-1) ms = .ok out) :
    ∀ c b sym, (c, b, sym) ∈ events out ↔ (c, b, sym) ∈ E :=
  SM.written_events keys E hE ms out hasc hmem hw

/-- **`write_read_chart` — one chart, rows level.**  Let `N` be the chart's notes in beats (taps; holds/rolls with
`beat < endBeat` that do not overlap within a column) and `E` their events in the order the writer lists them (any
permutation of `N.flatMap evOf`), satisfying `EventsOK` (in particular exact rows: per-measure LCM within 384, and no
two events in one (column, beat)).  Then the measures `SMMap.write`'s loop emits for the slots of `E`, read by the
StepMania rules (`events`, `pairAll`), are well-bracketed and denote exactly the notes `N` — same kinds, columns, beats
and end beats, as a multiset. -/
theorem write_read_chart (keys : Nat) (N : List DNote) (E : List SEv) (hEN : E.Perm (N.flatMap evOf))
    (hE : EventsOK keys E) (ms : List Int) (out : List (List Str))
    (hasc : AscAbove (-1) ms) (hmem : ∀ m, m ∈ ms ↔ ∃ s ∈ E.map slotOfEv, s.measure = m)
    (hw : writeLoop keys (E.map slotOfEv) (-1) ms = .ok out)
    (hlen : ∀ n ∈ N, ∀ e, n.endBeat = some e → n.beat < e) (hno : N.Pairwise NoOverlap) :
    (pairAll (events out)).ok = true ∧ (pairAll (events out)).opened = [] ∧ (pairAll (events out)).notes.Perm N := by
  have hsorted := SM.events_sorted out
  have hnd1 : (events out).Nodup := by
    refine hsorted.imp ?_
    intro a b hab heq
    subst heq
    simp only [ltEv] at hab
    rcases hab with h | ⟨_, h⟩
    · exact absurd h (lt_irrefl _)
    · exact absurd h (lt_irrefl _)
  have hnd2 : E.Nodup := List.Nodup.of_map _ hE.no_collision
  have hperm : (events out).Perm E := by
    rw [List.perm_ext_iff_of_nodup hnd1 hnd2]
    intro e
    obtain ⟨c, b, sym⟩ := e
    exact SM.written_events keys E hE ms out hasc hmem hw c b sym
  exact SM.pairing_inverse (events out) N hsorted (hperm.trans hEN) hlen hno

/-- **`write_read_exact_partial` — one object, end to end in time.**  Let the written `#OFFSET`/`#BPMS` denote `t0` and
a tempo list `cs` in C10's domain with the 4-beat metronome (`changesOf_written_measure_lines` for measure-line
tempos).  For an object at time `t ≥ t0` whose slotted beat is `beatAt t0 cs t` (`written_beats_exact`), in a
measure whose row count is divisible by the object's denominator (`den_dvd_denMax`): the row the writer chooses,
interpreted by the StepMania rules (`4m + 4r/R`, then integration over the written `#BPMS` from `−1000·#OFFSET`),
is at exactly `t`. -/
theorem write_read_exact_partial (t0 : Rat) (cs : List BcSnap) (hwf : wfChanges cs = true) (hs : sortedSnaps cs = true)
    (h0 : firstAtZero cs = true) (hM : ∀ c ∈ cs, c.met = 4)
    (offsetSec : Rat) (bpms : List (Rat × Rat)) (ho : -(1000 * offsetSec) = t0) (hb : changesOf bpms = cs)
    (t : Rat) (ht : t0 ≤ t) (col : Nat) (ch : Char) (dmax : Nat) (hpos : 0 < dmax)
    (hd : (slotOf (beatAt t0 cs t) col ch).den ∣ dmax) :
    timeOfBeat offsetSec bpms
      (4 * ((slotOf (beatAt t0 cs t) col ch).measure : Rat) +
        4 * ((rowOf (slotOf (beatAt t0 cs t) col ch).num (slotOf (beatAt t0 cs t) col ch).den dmax : Nat) : Rat) /
          (dmax : Rat)) = t := by
  rw [slot_beat_exact (beatAt t0 cs t) col ch dmax hpos hd]
  exact written_time_exact t0 cs hwf hs h0 hM offsetSec bpms ho hb t ht

/-- **`measuresSorted_spec`**: the measure numbers the writer's loop runs over are strictly ascending and are exactly
the measures that hold an object (above −1 when no object has a negative measure). -/
theorem measuresSorted_spec (S : List Slot) :
    (measuresSorted S).Pairwise (fun a b => a < b) ∧
    (∀ m, m ∈ measuresSorted S ↔ ∃ s ∈ S, s.measure = m) ∧
    ((∀ s ∈ S, 0 ≤ s.measure) → AscAbove (-1) (measuresSorted S)) :=
  SM.measuresSorted_spec S

/-- **`writeOrder_events`**: the writer's nine concatenated lists, each object with its beat, are a permutation of
the notes' events. -/
theorem writeOrder_events (β : Rat → Rat) (notes : List Note) :
    ((writeOrder notes).map (objEvent β)).Perm ((notes.map (noteOfW β)).flatMap evOf) :=
  SM.writeOrder_events β notes

/-- **The emitted rows are clean rows** (so `scanRows_renderRows` applies to the emitted note data). -/
theorem written_rows_clean (keys : Nat) (hk : 0 < keys) (E : List SEv) (hE : EventsOK keys E) (ms : List Int)
    (out : List (List Str)) (hasc : AscAbove (-1) ms) (hmem : ∀ m, m ∈ ms ↔ ∃ s ∈ E.map slotOfEv, s.measure = m)
    (hw : writeLoop keys (E.map slotOfEv) (-1) ms = .ok out) :
    ∀ rows ∈ out, ∀ p ∈ rows, CleanRow p :=
  SM.written_rows_clean keys hk E hE ms out hasc hmem hw

/-- **`write_read_exact_chart` — the main result for one chart.**  Let the chart's tempo list be the stored form of a
tempo-change list `cs` in C10's domain with the 4-beat metronome, every object time on the snap grid, and the
chart's notes — seen in beats through `beatAt t0 cs` — satisfy `EventsOK` (columns below the key count, no two events
in one (column, beat), every denominator divides its measure's row count), with holds/rolls of positive length that
do not overlap within a column.  Then the measures `SMMap.write` emits (`writeChartRows`), rendered as note data
(`renderRows`: rows joined by line breaks, measures by "\n,\n") and read by the StepMania rules (`denoteChart`:
row scanner, `4m + 4r/R`, latest-unclosed-head pairing), are well-bracketed and denote exactly the chart's notes:
the same kinds, columns, beats and end beats, and — integrating over any written `#BPMS`/`#OFFSET` that denote `cs` and
`t0` (`changesOf_written_measure_lines`) — the same millisecond positions and hold lengths, as multisets.
The five header parameters are arbitrary here; the MSD layer of the whole file and the numeric header lines are the
remaining `_partial` (see the end of this file). -/
theorem write_read_exact_chart (t0 : Rat) (cs : List BcSnap)
    (hwf : wfChanges cs = true) (hs : sortedSnaps cs = true) (h0 : firstAtZero cs = true)
    (hgc : gridCompatible (grid defaultMaxDiv) cs = true) (hm : metronomeOk cs = true) (hM : ∀ c ∈ cs, c.met = 4)
    (c : WChart) (keys : Nat) (hkeys : getKeys c.chartType = some keys) (hk0 : 0 < keys) (hne : c.notes ≠ [])
    (hb : toTimingMap c.bpms = tmOf t0 cs)
    (hts : ∀ t ∈ (writeOrder c.notes).map (·.1), OnGridAt (grid defaultMaxDiv) t0 cs t)
    (hT : ∀ n ∈ c.notes, t0 ≤ n.time ∧ 0 ≤ n.length)
    (hE : EventsOK keys ((writeOrder c.notes).map (objEvent (beatAt t0 cs))))
    (hlen : ∀ n ∈ c.notes.map (noteOfW (beatAt t0 cs)), ∀ e, n.endBeat = some e → n.beat < e)
    (hno : (c.notes.map (noteOfW (beatAt t0 cs))).Pairwise NoOverlap)
    (out : List (List Str)) (hw : writeChartRows c = .ok out)
    (p0 p1 p2 p3 p4 : Str) (offsetSec : Rat) (bpms : List (Rat × Rat))
    (ho : -(1000 * offsetSec) = t0) (hbp : changesOf bpms = cs) :
    (denoteChart [p0, p1, p2, p3, p4, renderRows out]).wellBracketed = true ∧
    (denoteChart [p0, p1, p2, p3, p4, renderRows out]).notes.Perm (c.notes.map (noteOfW (beatAt t0 cs))) ∧
    (timedNotes offsetSec bpms (denoteChart [p0, p1, p2, p3, p4, renderRows out])).Perm (c.notes.map timedOfW) := by
  -- the writer's loop on the slots of the object events
  have hbeats := written_beats_exact t0 cs hwf hs h0 hgc hm hM c hb hts
  unfold writeChartRows at hw
  simp only [hbeats, bind, Except.bind, hkeys] at hw
  rw [show ((writeOrder c.notes).map (·.1)).map (beatAt t0 cs) = (writeOrder c.notes).map (fun o => beatAt t0 cs o.1) by
    rw [List.map_map]; rfl, writer_slots] at hw
  have hnn : ∀ s ∈ ((writeOrder c.notes).map (objEvent (beatAt t0 cs))).map slotOfEv, 0 ≤ s.measure := by
    intro s hs'
    obtain ⟨e, he, rfl⟩ := List.mem_map.mp hs'
    exact slotOf_measure_nonneg _ _ _ (hE.beat_nonneg e he)
  obtain ⟨_, hmem, hasc⟩ := measuresSorted_spec (((writeOrder c.notes).map (objEvent (beatAt t0 cs))).map slotOfEv)
  have hasc' := hasc hnn
  -- rows level
  obtain ⟨hok, hop, hperm⟩ := write_read_chart keys (c.notes.map (noteOfW (beatAt t0 cs)))
    ((writeOrder c.notes).map (objEvent (beatAt t0 cs))) (writeOrder_events _ _) hE _ out hasc' hmem hw hlen hno
  -- the text scans back to the rows
  have hclean := written_rows_clean keys hk0 _ hE _ out hasc' hmem hw
  have houtne : out ≠ [] := by
    intro h
    subst h
    have : (pairAll (events ([] : List (List Str)))).notes = [] := rfl
    rw [this] at hperm
    have := hperm.symm.eq_nil
    simp at this
    exact hne this
  have hscan : scanRows (renderRows out) = out := scanRows_renderRows out houtne hclean
  have hd : (denoteChart [p0, p1, p2, p3, p4, renderRows out]).notes = (pairAll (events out)).notes.reverse := by
    simp [denoteChart, hscan]
  have hwb : (denoteChart [p0, p1, p2, p3, p4, renderRows out]).wellBracketed = true := by
    simp [denoteChart, hscan, hok, hop]
  have hnotes : (denoteChart [p0, p1, p2, p3, p4, renderRows out]).notes.Perm (c.notes.map (noteOfW (beatAt t0 cs))) := by
    rw [hd]; exact (List.reverse_perm _).trans hperm
  refine ⟨hwb, hnotes, ?_⟩
  -- beats → milliseconds
  unfold timedNotes
  refine (hnotes.map _).trans ?_
  rw [List.map_map]
  apply List.Perm.of_eq
  apply List.map_congr_left
  intro n hn
  obtain ⟨hnt, hnl⟩ := hT n hn
  have h1 : timeOfBeat offsetSec bpms (beatAt t0 cs n.time) = n.time := by
    unfold timeOfBeat; rw [ho, hbp]; exact timeAt_snapOfBeat_beatAt t0 cs n.time hwf hs h0 hM hnt
  have h2 : timeOfBeat offsetSec bpms (beatAt t0 cs (n.time + n.length)) = n.time + n.length := by
    unfold timeOfBeat; rw [ho, hbp]
    exact timeAt_snapOfBeat_beatAt t0 cs _ hwf hs h0 hM (by linarith)
  simp only [Function.comp, noteOfW, timedOfW]
  by_cases hk : n.kind = .hold ∨ n.kind = .roll
  · have h3 : n.time + n.length - n.time = n.length := by ring
    simp only [hk, if_true, h1, h2, h3]
  · simp only [hk, if_false, h1]

/-- **The MSD layer of a written file**: a text made of values `#p0:p1:…:pk;` (parameters without `# : ; \` and without `//`),
comment lines `//…` and line breaks is parsed into exactly those values, parameters trimmed, in file order. -/
theorem msd_renderItems (items : List Item) (hok : ∀ it ∈ items, ItemOk it) :
    msd (renderItems items) = some (valuesOf items) :=
  SM.msd_renderItems' items hok

/-- everything `write_read_exact_chart` asks of one chart and the measures written for it -/
def ChartWritten (t0 : Rat) (cs : List BcSnap) (c : WChart) (out : List (List Str)) : Prop :=
  ∃ keys, getKeys c.chartType = some keys ∧ 0 < keys ∧ c.notes ≠ [] ∧ toTimingMap c.bpms = tmOf t0 cs ∧
    (∀ t ∈ (writeOrder c.notes).map (·.1), OnGridAt (grid defaultMaxDiv) t0 cs t) ∧
    (∀ n ∈ c.notes, t0 ≤ n.time ∧ 0 ≤ n.length) ∧
    EventsOK keys ((writeOrder c.notes).map (objEvent (beatAt t0 cs))) ∧
    (∀ n ∈ c.notes.map (noteOfW (beatAt t0 cs)), ∀ e, n.endBeat = some e → n.beat < e) ∧
    (c.notes.map (noteOfW (beatAt t0 cs))).Pairwise NoOverlap ∧
    writeChartRows c = .ok out

/-- the measures emitted for such a chart: at least one, none empty, every row non-empty and made of note characters -/
theorem chartWritten_rowsOK (t0 : Rat) (cs : List BcSnap)
    (hwf : wfChanges cs = true) (hs : sortedSnaps cs = true) (h0 : firstAtZero cs = true)
    (hgc : gridCompatible (grid defaultMaxDiv) cs = true) (hm : metronomeOk cs = true) (hM : ∀ c ∈ cs, c.met = 4)
    (c : WChart) (out : List (List Str)) (h : ChartWritten t0 cs c out) : RowsOK out := by
  obtain ⟨keys, hkeys, hk0, hne, hb, hts, hT, hE, hlen, hno, hw⟩ := h
  have hbeats := written_beats_exact t0 cs hwf hs h0 hgc hm hM c hb hts
  unfold writeChartRows at hw
  simp only [hbeats, bind, Except.bind, hkeys] at hw
  rw [show ((writeOrder c.notes).map (·.1)).map (beatAt t0 cs) = (writeOrder c.notes).map (fun o => beatAt t0 cs o.1) by
    rw [List.map_map]; rfl, writer_slots] at hw
  have hnn : ∀ s ∈ ((writeOrder c.notes).map (objEvent (beatAt t0 cs))).map slotOfEv, 0 ≤ s.measure := by
    intro s hs'
    obtain ⟨e, he, rfl⟩ := List.mem_map.mp hs'
    exact slotOf_measure_nonneg _ _ _ (hE.beat_nonneg e he)
  obtain ⟨_, hmem, hasc⟩ := measuresSorted_spec (((writeOrder c.notes).map (objEvent (beatAt t0 cs))).map slotOfEv)
  have hasc' := hasc hnn
  obtain ⟨_, _, hperm⟩ := write_read_chart keys (c.notes.map (noteOfW (beatAt t0 cs)))
    ((writeOrder c.notes).map (objEvent (beatAt t0 cs))) (writeOrder_events _ _) hE _ out hasc' hmem hw hlen hno
  refine ⟨?_, SM.written_rows_chars keys hk0 _ hE _ out hasc' hmem hw⟩
  intro h
  subst h
  have : (pairAll (events ([] : List (List Str)))).notes = [] := rfl
  rw [this] at hperm
  have := hperm.symm.eq_nil
  simp at this
  exact hne this

/-- the `#NOTES` value of a chart: tag, five header parameters, the emitted note data -/
def notesValue (x : WChart × List (List Str) × (Str × Str × Str × Str × Str)) : List Str :=
  [tagNotes, x.2.2.1, x.2.2.2.1, x.2.2.2.2.1, x.2.2.2.2.2.1, x.2.2.2.2.2.2, renderRows x.2.1]

/-- **`write_read_exact` — the whole file, any number of charts.**  Let `items` be the file (values, comment lines, line
breaks; parameters without `# : ; \` and without `//`) whose `#NOTES` values are, in order, the charts `L` — each with its five header
parameters and the note data `renderRows out` of the measures `SMMap.write` emits for it (`ChartWritten`: C10's domain
for the shared tempo list `cs`, objects on the snap grid, `EventsOK`, non-overlapping holds/rolls).  The numeric
header lines enter through the renderer assumption in applied form: the `#OFFSET` parameter parses to `offsetSec`
(`parseFloat (show q) = .ok q`) and the `#BPMS` parameter parses to pairs that denote `cs`
(`changesOf_written_measure_lines`), with `−1000·offsetSec = t0`.
Then the StepMania denotation of the file exists, has that offset and those tempo pairs, is well-formed, has exactly
one chart per element of `L`, and chart `i` — read by row scanner, `4m + 4r/R`, latest-unclosed-head pairing and
integration over the written `#BPMS` from `−1000·#OFFSET` — is well-bracketed and has exactly the in-memory chart's
objects: same kinds, columns, millisecond positions and hold lengths (as a multiset). -/
theorem write_read_exact (t0 : Rat) (cs : List BcSnap)
    (hwf : wfChanges cs = true) (hs : sortedSnaps cs = true) (h0 : firstAtZero cs = true)
    (hgc : gridCompatible (grid defaultMaxDiv) cs = true) (hm : metronomeOk cs = true) (hM : ∀ c ∈ cs, c.met = 4)
    (items : List Item) (hok : ∀ it ∈ items, ItemOk it)
    (L : List (WChart × List (List Str) × (Str × Str × Str × Str × Str)))
    (hL : ∀ x ∈ L, ChartWritten t0 cs x.1 x.2.1)
    (hnotes : (valuesOf items).filter (tagIs tagNotes) = L.map notesValue)
    (offT bpmT : Str) (offsetSec : Rat) (bpms : List (Rat × Rat))
    (hoffv : firstParam (valuesOf items) tagOffsetS = some offT) (hoff : parseFloat offT = .ok offsetSec)
    (hbpmv : firstParam (valuesOf items) tagBpmsS = some bpmT) (hbpm : parsePairs bpmT = some bpms)
    (ho : -(1000 * offsetSec) = t0) (hbp : changesOf bpms = cs) :
    ∃ d, denote (renderItems items) = some d ∧ d.offsetSec = some offsetSec ∧ d.bpms = some bpms ∧
      d.chartsWellFormed = true ∧ d.charts.length = L.length ∧
      ∀ (i : Nat) (hi : i < L.length) (hd : i < d.charts.length),
        d.charts[i] = denoteChart (notesValue L[i]).tail ∧
        (d.charts[i]).wellBracketed = true ∧
        (timedNotes offsetSec bpms d.charts[i]).Perm ((L[i]).1.notes.map timedOfW) := by
  obtain ⟨d, hd, hf⟩ := denote_renderItems items hok
  have hcharts : d.charts = L.map (fun x => denoteChart (notesValue x).tail) := by
    rw [hf.charts, hnotes, List.map_map]; rfl
  refine ⟨d, hd, ?_, ?_, ?_, ?_, ?_⟩
  · rw [hf.offset, hoffv]; simp [hoff, Except.toOption]
  · rw [hf.bpms, hbpmv]; simp [hbpm]
  · rw [hf.wellFormed, hnotes]
    simp [List.all_map, notesValue]
  · rw [hcharts]; simp
  · intro i hi hdi
    have hci : d.charts[i] = denoteChart (notesValue L[i]).tail := by
      simp [hcharts]
    obtain ⟨keys, hk, hk0, hne, hb, hts, hT, hE, hlen, hno, hw⟩ := hL L[i] (List.getElem_mem hi)
    have := write_read_exact_chart t0 cs hwf hs h0 hgc hm hM (L[i]).1 keys hk hk0 hne hb hts hT hE hlen hno (L[i]).2.1 hw
      (L[i]).2.2.1 (L[i]).2.2.2.1 (L[i]).2.2.2.2.1 (L[i]).2.2.2.2.2.1 (L[i]).2.2.2.2.2.2 offsetSec bpms ho hbp
    refine ⟨hci, ?_, ?_⟩
    · rw [hci]; exact this.1
    · rw [hci]; exact this.2.2

/-- **`render_items`** (was `render_items_partial`): the text `SMMapSet.write` returns — `Model/SM.lean: renderWritten`,
the 22 lines of `_write_metadata` and the nine strings of every `SMMap.write` joined by line breaks, Python's number
rendering being the parameter `sh`; compared character for character with the implementation's text on every case —
is literally `renderItems` of `fileItems`: the 22 header values separated by line breaks, then per chart a line break,
the banner comment line, the `#NOTES` value (tag, five indented header parameters each on its own line, the note data
wrapped in line breaks) and two line breaks. -/
theorem render_items (sh : Shows) (w : Written) (hs : ∀ tv ∈ w.strs, tv.1 = '#' :: tv.1.drop 1) :
    renderWritten sh w = renderItems (fileItems sh w) :=
  SM.render_items sh w hs

/-- **`write_read_exact_text` — `write_read_exact` about `SM.write` itself.**  Let `w` be what `SM.write` returns for the
header `h` and the charts (`Model/SM.lean`), every chart in the domain of `write_read_exact_chart` (`ChartWritten`: C10's
domain for the shared tempo list, objects on the snap grid, `EventsOK`, non-overlapping holds/rolls), the header strings
and the charts' type, description and difficulty free of `# : ; \` and `//` (a single `/` is fine; type and difficulty
on one line).  The text the writer returns is `renderWritten sh w` (`render_items`; compared character for character
with the implementation on every case), `sh` being Python's number rendering, of which only this is assumed: its
outputs contain none of `# : ; \ /` (and `str(int)` no line break) — `ShowsOK` — and the `#OFFSET` and `#BPMS`
parameters it produces parse back to the values written (`parseFloat (show q) = .ok q` in applied form), these values
denoting the tempo list `cs` from `t0`.
Then the StepMania denotation of that text exists, has the written offset and tempo pairs, is well-formed, has one
chart per chart, and chart `i` is well-bracketed and has exactly the objects of `charts[i]`: kinds, columns, millisecond
positions and hold lengths, as a multiset. -/
theorem write_read_exact_text (sh : Shows) (hsh : ShowsOK sh) (t0 : Rat) (cs : List BcSnap)
    (hwf : wfChanges cs = true) (hs : sortedSnaps cs = true) (h0 : firstAtZero cs = true)
    (hgc : gridCompatible (grid defaultMaxDiv) cs = true) (hm : metronomeOk cs = true) (hM : ∀ c ∈ cs, c.met = 4)
    (h : WHeader) (charts : List WChart) (w : Written) (hw : SM.write h charts = .ok w)
    (hL : ∀ c ∈ charts, ∃ out, ChartWritten t0 cs c out)
    (hstr : ∀ ta ∈ stringTags, CleanParam ((h.strs.lookup ta.2).getD []))
    (hch : ∀ c ∈ charts, CleanParam c.chartType ∧ CleanParam c.description ∧ CleanParam c.difficulty ∧
      '\n' ∉ c.chartType ∧ '\n' ∉ c.difficulty)
    (hoff : parseFloat (trim (sh.rat w.offsetSec)) = .ok w.offsetSec)
    (hbpm : parsePairs (trim (bpmsParam sh w.bpms)) = some w.bpms)
    (ho : -(1000 * w.offsetSec) = t0) (hbp : changesOf w.bpms = cs) :
    ∃ d, denote (renderWritten sh w) = some d ∧ d.offsetSec = some w.offsetSec ∧ d.bpms = some w.bpms ∧
      d.chartsWellFormed = true ∧ d.charts.length = charts.length ∧
      ∀ (i : Nat) (hi : i < charts.length) (hd : i < d.charts.length),
        (d.charts[i]).wellBracketed = true ∧
        (timedNotes w.offsetSec w.bpms d.charts[i]).Perm ((charts[i]).notes.map timedOfW) := by
  obtain ⟨htags, hvals, hsel, hlen, hpairs⟩ := write_ok h charts w hw
  -- every chart with the measures written for it
  have hcw : ∀ p ∈ charts.zip w.charts, ChartWritten t0 cs p.1 p.2.measures := by
    intro p hp
    obtain ⟨out, keys, a1, a2, a3, a4, a5, a6, a7, a8, a9, a10⟩ := hL p.1 (List.of_mem_zip hp).1
    have e : out = p.2.measures := Except.ok.inj (a10.symm.trans (hpairs p hp).1)
    subst e
    exact ⟨keys, a1, a2, a3, a4, a5, a6, a7, a8, a9, a10⟩
  have hpair_of : ∀ wc ∈ w.charts, ∃ c, (c, wc) ∈ charts.zip w.charts := by
    intro wc hwc
    obtain ⟨i, hi, rfl⟩ := List.getElem_of_mem hwc
    have hi' : i < (charts.zip w.charts).length := by rw [List.length_zip, hlen]; omega
    refine ⟨charts[i]'(by omega), ?_⟩
    have := List.getElem_mem hi'
    rwa [List.getElem_zip] at this
  have hrows : ∀ wc ∈ w.charts, RowsOK wc.measures := by
    intro wc hwc
    obtain ⟨c, hc⟩ := hpair_of wc hwc
    exact chartWritten_rowsOK t0 cs hwf hs h0 hgc hm hM c wc.measures (hcw (c, wc) hc)
  have hSO : StringsOK w := by
    refine ⟨htags, ?_, hsel, ?_⟩
    · intro tv htv
      obtain ⟨ta, hta, e⟩ := hvals tv htv
      rw [e]; exact hstr ta hta
    · intro wc hwc
      obtain ⟨c, hc⟩ := hpair_of wc hwc
      obtain ⟨_, e1, e2, e3⟩ := hpairs (c, wc) hc
      have := hch c (List.of_mem_zip hc).1
      simp only at e1 e2 e3
      rw [e1, e2, e3]
      exact this
  have hhash : ∀ tv ∈ w.strs, tv.1 = '#' :: tv.1.drop 1 :=
    fun tv htv => (stringTags_text_facts tv.1 (strs_tag_mem w hSO tv htv)).1
  -- the charts as `write_read_exact` wants them
  let L : List (WChart × List (List Str) × (Str × Str × Str × Str × Str)) :=
    (charts.zip w.charts).map (fun p => (p.1, p.2.measures, (trim p.2.chartType, trim p.2.description, trim p.2.difficulty,
      trim (sh.int p.2.difficultyVal), trim (joinWith [','] (p.2.groove.map sh.rat)))))
  have hLL : ∀ x ∈ L, ChartWritten t0 cs x.1 x.2.1 := by
    intro x hx
    obtain ⟨p, hp, rfl⟩ := List.mem_map.mp hx
    exact hcw p hp
  have hz : (charts.zip w.charts).map Prod.snd = w.charts := List.map_snd_zip (by omega)
  have hnotes : (valuesOf (fileItems sh w)).filter (tagIs tagNotes) = L.map notesValue := by
    rw [file_notes sh w hSO]
    conv => lhs; rw [← hz]
    rw [List.map_map, List.map_map]
    apply List.map_congr_left
    intro p hp
    simp [notesValue, notesParams_trim sh p.2 (hrows p.2 (List.of_mem_zip hp).2)]
  obtain ⟨d, hd, ho', hb', hwf', hlen', hall⟩ := write_read_exact t0 cs hwf hs h0 hgc hm hM (fileItems sh w)
    (fileItems_ok sh hsh w hSO hrows) L hLL hnotes (trim (sh.rat w.offsetSec)) (trim (bpmsParam sh w.bpms))
    w.offsetSec w.bpms (file_offset sh w hSO) hoff (file_bpms sh w hSO) hbpm ho hbp
  have hLlen : L.length = charts.length := by simp [L, List.length_zip, hlen]
  refine ⟨d, by rw [SM.render_items sh w hhash]; exact hd, ho', hb', hwf', by rw [hlen', hLlen], ?_⟩
  intro i hi hdi
  obtain ⟨_, hwb, hperm⟩ := hall i (by rw [hLlen]; exact hi) hdi
  refine ⟨hwb, ?_⟩
  have e : (L[i]'(by rw [hLlen]; exact hi)).1 = charts[i] := by simp [L, List.getElem_map, List.getElem_zip]
  rw [e] at hperm
  exact hperm

/-- **The `#BPMS` parameter reads back**: `",\n".join(f"{beat}={bpm}")` over number texts (non-empty, no whitespace,
no ',' and '=') that parse back to their values is parsed by the specification into exactly the written pairs. -/
theorem parsePairs_bpmsParam (sh : Shows) (h : ShowsParse sh) (bpms : List (Rat × Rat)) :
    parsePairs (bpmsParam sh bpms) = some bpms :=
  SM.parsePairs_bpmsParam sh h bpms

/-- **`write_read_exact_show`**: `write_read_exact_text` with the renderer assumption per number — every text
`sh.rat q` is a number text (non-empty, no whitespace, none of `# : ; \ / , =`) with `parseFloat (sh.rat q) = .ok q`,
`sh.int i` has none of `# : ; \ /` and no line break — instead of the two applied-form hypotheses. -/
theorem write_read_exact_show (sh : Shows) (hsh : ShowsOK sh) (hsp : ShowsParse sh) (t0 : Rat) (cs : List BcSnap)
    (hwf : wfChanges cs = true) (hs : sortedSnaps cs = true) (h0 : firstAtZero cs = true)
    (hgc : gridCompatible (grid defaultMaxDiv) cs = true) (hm : metronomeOk cs = true) (hM : ∀ c ∈ cs, c.met = 4)
    (h : WHeader) (charts : List WChart) (w : Written) (hw : SM.write h charts = .ok w)
    (hL : ∀ c ∈ charts, ∃ out, ChartWritten t0 cs c out)
    (hstr : ∀ ta ∈ stringTags, CleanParam ((h.strs.lookup ta.2).getD []))
    (hch : ∀ c ∈ charts, CleanParam c.chartType ∧ CleanParam c.description ∧ CleanParam c.difficulty ∧
      '\n' ∉ c.chartType ∧ '\n' ∉ c.difficulty)
    (ho : -(1000 * w.offsetSec) = t0) (hbp : changesOf w.bpms = cs) :
    ∃ d, denote (renderWritten sh w) = some d ∧ d.offsetSec = some w.offsetSec ∧ d.bpms = some w.bpms ∧
      d.chartsWellFormed = true ∧ d.charts.length = charts.length ∧
      ∀ (i : Nat) (hi : i < charts.length) (hd : i < d.charts.length),
        (d.charts[i]).wellBracketed = true ∧
        (timedNotes w.offsetSec w.bpms d.charts[i]).Perm ((charts[i]).notes.map timedOfW) := by
  apply write_read_exact_text sh hsh t0 cs hwf hs h0 hgc hm hM h charts w hw hL hstr hch ?_ ?_ ho hbp
  · rw [trim_noWs _ (fun c hc => ((hsp.text w.offsetSec).2 c hc).1)]
    exact hsp.parse _
  · rw [trim_bpmsParam sh hsp]
    exact SM.parsePairs_bpmsParam sh hsp _

/-! ### the tempo hypotheses of `write_read_exact`, discharged from the written header -/

/-- **The tempo-change list a `#BPMS` value denotes is in C10's domain as soon as the pairs are `tempoOk`** (a first entry
on beat 0, positive tempos, distinct beats — a decidable condition on the written header, evaluated by (S) on every
case): the changes are well formed with the 4-beat metronome, ascending, the first one at measure 0 beat 0.  Of the six
tempo hypotheses of `write_read_exact` only `gridCompatible` (the fractional beat distances lie on the snap grid) is a
condition of its own. -/
theorem changesOf_domain (bpms : List (Rat × Rat)) (h : tempoOk bpms = true) :
    wfChanges (changesOf bpms) = true ∧ sortedSnaps (changesOf bpms) = true ∧ firstAtZero (changesOf bpms) = true ∧
    metronomeOk (changesOf bpms) = true ∧ ∀ c ∈ changesOf bpms, c.met = 4 :=
  SM.changesOf_domain bpms h

/-- **`write_read_exact_written` — `write_read_exact_show` with the tempo list read off the written header.**  The tempo
list `cs` and the start time `t0` are no longer parameters tied to the file by hypotheses (`hbp`, `ho`): they *are*
what the written `#BPMS` / `#OFFSET` denote, and five of the six C10-domain hypotheses follow from `tempoOk w.bpms`
(`changesOf_domain`).  What remains: `tempoOk` and `gridCompatible` of the written header (both decidable), the
per-chart domain `ChartWritten` (the chart's timing map is the stored form of that list, objects on the snap grid,
`EventsOK`, non-overlapping holds), clean strings, and the renderer assumptions. -/
theorem write_read_exact_written (sh : Shows) (hsh : ShowsOK sh) (hsp : ShowsParse sh)
    (h : WHeader) (charts : List WChart) (w : Written) (hw : SM.write h charts = .ok w)
    (htempo : tempoOk w.bpms = true)
    (hgc : gridCompatible (grid defaultMaxDiv) (changesOf w.bpms) = true)
    (hL : ∀ c ∈ charts, ∃ out, ChartWritten (-(1000 * w.offsetSec)) (changesOf w.bpms) c out)
    (hstr : ∀ ta ∈ stringTags, CleanParam ((h.strs.lookup ta.2).getD []))
    (hch : ∀ c ∈ charts, CleanParam c.chartType ∧ CleanParam c.description ∧ CleanParam c.difficulty ∧
      '\n' ∉ c.chartType ∧ '\n' ∉ c.difficulty) :
    ∃ d, denote (renderWritten sh w) = some d ∧ d.offsetSec = some w.offsetSec ∧ d.bpms = some w.bpms ∧
      d.chartsWellFormed = true ∧ d.charts.length = charts.length ∧
      ∀ (i : Nat) (hi : i < charts.length) (hd : i < d.charts.length),
        (d.charts[i]).wellBracketed = true ∧
        (timedNotes w.offsetSec w.bpms d.charts[i]).Perm ((charts[i]).notes.map timedOfW) := by
  obtain ⟨hwf, hs, h0, hm, hM⟩ := SM.changesOf_domain w.bpms htempo
  exact write_read_exact_show sh hsh hsp _ _ hwf hs h0 hgc hm hM h charts w hw hL hstr hch rfl rfl

example : tempoOk [(0, 120), (8, 60), (12, 240)] = true ∧
    (changesOf [(12, 240), (0, 120), (8, 60)]).map (·.snap.measure) = [0, 2, 3] := by decide +kernel

/-- **`gridCompatible` from the written numbers**: when every written `#BPMS` beat is a multiple of 1/96 beat (measure
lines, 1/16- and 1/32-beat positions — what the writer emits exactly, `round6_exact` / `round6_sixteenth`), the
fractional beat distance of consecutive changes is `k/96`, a point of the writer's snap grid. -/
theorem gridCompatible_of_96ths (bpms : List (Rat × Rat)) (h : ∀ p ∈ bpms, (p.1 * 96).den = 1) :
    gridCompatible (grid defaultMaxDiv) (changesOf bpms) = true :=
  SM.gridCompatible_changesOf bpms h

/-- **`write_read_exact_grid96`**: `write_read_exact_written` with no tempo hypothesis left that is not a decidable
condition on the written header: `tempoOk w.bpms` and every written beat a multiple of 1/96. -/
theorem write_read_exact_grid96 (sh : Shows) (hsh : ShowsOK sh) (hsp : ShowsParse sh)
    (h : WHeader) (charts : List WChart) (w : Written) (hw : SM.write h charts = .ok w)
    (htempo : tempoOk w.bpms = true) (h96 : ∀ p ∈ w.bpms, (p.1 * 96).den = 1)
    (hL : ∀ c ∈ charts, ∃ out, ChartWritten (-(1000 * w.offsetSec)) (changesOf w.bpms) c out)
    (hstr : ∀ ta ∈ stringTags, CleanParam ((h.strs.lookup ta.2).getD []))
    (hch : ∀ c ∈ charts, CleanParam c.chartType ∧ CleanParam c.description ∧ CleanParam c.difficulty ∧
      '\n' ∉ c.chartType ∧ '\n' ∉ c.difficulty) :
    ∃ d, denote (renderWritten sh w) = some d ∧ d.offsetSec = some w.offsetSec ∧ d.bpms = some w.bpms ∧
      d.chartsWellFormed = true ∧ d.charts.length = charts.length ∧
      ∀ (i : Nat) (hi : i < charts.length) (hd : i < d.charts.length),
        (d.charts[i]).wellBracketed = true ∧
        (timedNotes w.offsetSec w.bpms d.charts[i]).Perm ((charts[i]).notes.map timedOfW) :=
  write_read_exact_written sh hsh hsp h charts w hw htempo (SM.gridCompatible_changesOf w.bpms h96) hL hstr hch

/-! ### `#BPMS` entries on one beat (tempo rows at one offset) -/

theorem snapOfBeat_zero_le (beat : Rat) (hb : 0 ≤ beat) : (snapOfBeat 0).le (snapOfBeat beat) = true := by
  have hm : (0 : Int) ≤ (beat / 4).floor :=
    Rat.le_floor_iff.mpr (by simpa using div_nonneg hb (by norm_num : (0 : Rat) ≤ 4))
  have hfl := Rat.floor_le (beat / 4)
  have h0 : snapOfBeat 0 = ⟨0, 0, some 4⟩ := by
    have := snapOfBeat_measure_line 0
    simpa using this
  rw [h0]
  simp only [snapOfBeat, Snap.le, Snap.lt, Snap.eqv, Bool.or_eq_true, Bool.and_eq_true, decide_eq_true_eq]
  rcases lt_or_eq_of_le hm with h | h
  · exact Or.inl (Or.inl (decide_eq_true h))
  · have hnn : (0 : Rat) ≤ beat - 4 * (((beat / 4).floor : Int) : Rat) := by
      have : (((beat / 4).floor : Int) : Rat) ≤ beat / 4 := hfl
      linarith
    rcases lt_or_eq_of_le hnn with h' | h'
    · exact Or.inl (Or.inr ⟨decide_eq_true h, decide_eq_true h'⟩)
    · exact Or.inr ⟨decide_eq_true h, decide_eq_true h'⟩

/-- **`tie_later_wins` — of several `#BPMS` entries on one beat the last one in file order is in force.**  For a
`#BPMS` list with a first entry on beat 0 and positive tempos, entries on equal beats allowed (`tempoOkWeak`): the
millisecond position of every beat ≥ 0 is the one obtained from the list without the overridden entries
(`effectivePairs`: ascending by beat, of the entries of one beat only the last one of the file), and that list is in
the domain of `write_read_exact` / C02 (`tempoOk`: distinct beats).  So a tempo list with rows at one offset, written
row by row, denotes what the list of the rows in force denotes — and a writer that emits tied rows in another order
(an unstable sort) denotes another tempo list. -/
theorem tie_later_wins (offsetSec : Rat) (bpms : List (Rat × Rat)) (h : tempoOkWeak bpms = true) :
    tempoOk (effectivePairs bpms) = true ∧
    ∀ beat : Rat, 0 ≤ beat → timeOfBeat offsetSec bpms beat = timeOfBeat offsetSec (effectivePairs bpms) beat := by
  have hsorted := isort_pairs_sorted bpms
  have hstrict : (effectivePairs bpms).Pairwise (fun a b => a.1 < b.1) := dropOverridden_strict _ hsorted
  have hself : isort (fun a b : Rat × Rat => decide (a.1 ≤ b.1)) (effectivePairs bpms) = effectivePairs bpms := by
    apply isort_eq_self
    refine hstrict.imp ?_
    intro a b hab
    simpa using le_of_lt hab
  unfold tempoOkWeak at h
  simp only [Bool.and_eq_true] at h
  obtain ⟨hhead, hpos⟩ := h
  -- the sorted list is `p :: l` with `p` on beat 0
  cases hl : isort (fun a b : Rat × Rat => decide (a.1 ≤ b.1)) bpms with
  | nil => rw [hl] at hhead; simp at hhead
  | cons p l =>
    rw [hl] at hhead hpos
    have hp0 : p.1 = 0 := by simpa using hhead
    refine ⟨?_, ?_⟩
    · -- `tempoOk` of the entries in force
      obtain ⟨q, l', e, hq⟩ := dropOverridden_head p l
      have heff : effectivePairs bpms = q :: l' := by unfold effectivePairs; rw [hl]; exact e
      unfold tempoOk
      simp only [hself]
      rw [heff] at hstrict ⊢
      simp only [Bool.and_eq_true]
      refine ⟨⟨by simp [hq, hp0], ?_⟩, ?_⟩
      · rw [List.all_eq_true]
        intro z hz
        have hmem : ∀ (l : List (Rat × Rat)) z, z ∈ dropOverridden l → z ∈ l := by
          intro l
          induction l with
          | nil => intro z hz; simp [dropOverridden] at hz
          | cons a t iht =>
            intro z hz
            cases t with
            | nil => simpa [dropOverridden] using hz
            | cons b u =>
              by_cases e' : a.1 = b.1
              · simp only [dropOverridden, e', if_true] at hz
                exact List.mem_cons_of_mem _ (iht z hz)
              · simp only [dropOverridden, e', if_false] at hz
                rcases List.mem_cons.mp hz with rfl | hz'
                · simp
                · exact List.mem_cons_of_mem _ (iht z hz')
        have : z ∈ p :: l := hmem _ z (by rw [e]; exact hz)
        exact (List.all_eq_true.mp hpos) z this
      · rw [List.all_eq_true]
        intro pq hpq
        simp only [decide_eq_true_eq]
        -- consecutive elements of a strictly ascending list
        have key : ∀ (L : List (Rat × Rat)), L.Pairwise (fun a b => a.1 < b.1) → ∀ pq ∈ L.zip L.tail, pq.1.1 < pq.2.1 := by
          intro L
          induction L with
          | nil => intro _ pq hpq; simp at hpq
          | cons a t iht =>
            intro hP pq hpq
            cases t with
            | nil => simp at hpq
            | cons b u =>
              have hP' := List.pairwise_cons.mp hP
              simp only [List.tail_cons, List.zip_cons_cons, List.mem_cons] at hpq
              rcases hpq with rfl | hpq
              · exact hP'.1 b (by simp)
              · exact iht hP'.2 pq (by simpa using hpq)
        exact key _ hstrict pq hpq
    · intro beat hb
      have hle : (snapOfBeat p.1).le (snapOfBeat beat) = true := by rw [hp0]; exact snapOfBeat_zero_le beat hb
      obtain ⟨q, l', e, _, ht⟩ := timeAtAux_dropOverridden l p (-(1000 * offsetSec)) (snapOfBeat beat) hle
      have heff : effectivePairs bpms = q :: l' := by unfold effectivePairs; rw [hl]; exact e
      unfold timeOfBeat
      rw [changesOf_eq, changesOf_eq, hself, hl, heff]
      simpa [timeAt] using ht

/-- non-vacuity and the effect of the order of tied entries: `8=60, 8=240` is 240 bpm from beat 8 on, `8=240, 8=60`
is 60 bpm — beat 12 lies at 5000 ms in the first file and at 8000 ms in the second -/
example :
    tempoOkWeak [(0, 120), (8, 60), (8, 240)] = true ∧ tempoOk [(0, 120), (8, 60), (8, 240)] = false ∧
    effectivePairs [(8, 60), (0, 120), (8, 240)] = [(0, 120), (8, 240)] ∧
    timeOfBeat 0 [(0, 120), (8, 60), (8, 240)] 12 = 5000 ∧ timeOfBeat 0 [(0, 120), (8, 240), (8, 60)] 12 = 8000 := by
  decide +kernel

/-- the order of tied entries matters: `8=60, 8=240` is 240 bpm from beat 8 on, `8=240, 8=60` is 60 bpm — beat 12
lies at 5000 ms in the first file and at 8000 ms in the second (what a writer that sorts the rows unstably produces
for the same in-memory list; replayed on the implementation by the corpus cases with tied rows) -/
theorem tie_order_counterexample :
    effectivePairs [(0, 120), (8, 60), (8, 240)] = [(0, 120), (8, 240)] ∧
    effectivePairs [(0, 120), (8, 240), (8, 60)] = [(0, 120), (8, 60)] ∧
    timeOfBeat 0 [(0, 120), (8, 60), (8, 240)] 12 = 5000 ∧ timeOfBeat 0 [(0, 120), (8, 240), (8, 60)] 12 = 8000 := by
  decide +kernel

/-! ### the tolerance regime ("within the written grid: 1/96 beat at the local tempo") -/

/-- **The row count of a measure is the LCM of its objects' denominators capped at `MAX_SNAP`** —
`min(reduce(lcm_and_cap, dens), 384) = min(lcm(dens), 384)`: either the LCM itself (`den_dvd_denMax`: every row exact)
or exactly 384. -/
theorem denMax_eq_min_lcm (d : Nat) (t : List Nat) (hpos : ∀ x ∈ d :: t, 0 < x) :
    denMax (d :: t) = min (t.foldl Nat.lcm d) maxSnap :=
  SM.denMax_eq_min_lcm d t hpos

/-- **`written_beat_tolerance` — positions.**  For an object at (snapped) beat `beat` in a measure whose objects have the
denominators `d :: t` (its own among them): the row the writer chooses, read by `4m + 4r/R`, lies at or before `beat`
and less than 1/96 beat before it — and exactly at `beat` whenever the measure's LCM fits 384 rows. -/
theorem written_beat_tolerance (beat : Rat) (col : Nat) (ch : Char) (d : Nat) (t : List Nat)
    (hpos : ∀ x ∈ d :: t, 0 < x) (hmem : (slotOf beat col ch).den ∈ d :: t) :
    4 * ((slotOf beat col ch).measure : Rat) +
        4 * ((rowOf (slotOf beat col ch).num (slotOf beat col ch).den (denMax (d :: t)) : Nat) : Rat) /
          (denMax (d :: t) : Rat) ≤ beat ∧
    beat - (4 * ((slotOf beat col ch).measure : Rat) +
        4 * ((rowOf (slotOf beat col ch).num (slotOf beat col ch).den (denMax (d :: t)) : Nat) : Rat) /
          (denMax (d :: t) : Rat)) < 1 / 96 ∧
    (t.foldl Nat.lcm d ≤ maxSnap →
      4 * ((slotOf beat col ch).measure : Rat) +
        4 * ((rowOf (slotOf beat col ch).num (slotOf beat col ch).den (denMax (d :: t)) : Nat) : Rat) /
          (denMax (d :: t) : Rat) = beat) := by
  have hd : 0 < d := hpos d (by simp)
  have ht : ∀ x ∈ t, 0 < x := fun x hx => hpos x (List.mem_cons_of_mem _ hx)
  have hL : 0 < t.foldl Nat.lcm d := foldl_lcm_pos d t hd ht
  have hdm := SM.denMax_eq_min_lcm d t hpos
  have hexact : t.foldl Nat.lcm d ≤ maxSnap →
      4 * ((slotOf beat col ch).measure : Rat) +
        4 * ((rowOf (slotOf beat col ch).num (slotOf beat col ch).den (denMax (d :: t)) : Nat) : Rat) /
          (denMax (d :: t) : Rat) = beat := by
    intro hfit
    have hdvd := den_dvd_denMax d t hpos hfit _ hmem
    have hp : 0 < denMax (d :: t) := by rw [hdm, Nat.min_eq_left hfit]; exact hL
    exact SM.slot_beat_exact beat col ch _ hp hdvd
  by_cases hfit : t.foldl Nat.lcm d ≤ maxSnap
  · have e := hexact hfit
    refine ⟨le_of_eq e, ?_, hexact⟩
    rw [e]; norm_num
  · have h384 : denMax (d :: t) = 384 := by
      rw [hdm]; exact Nat.min_eq_right (Nat.le_of_lt (Nat.lt_of_not_le hfit))
    rw [h384]
    obtain ⟨h1, h2⟩ := SM.written_beat_within_row beat col ch 384 (by decide)
    refine ⟨h1, ?_, fun h => absurd h hfit⟩
    have : (4 : Rat) / ((384 : Nat) : Rat) = 1 / 96 := by norm_num
    rw [this] at h2
    linarith

/-- **`written_time_tolerance` — times.**  Two beats `w ≤ b` less than 1/96 beat apart that lie in one tempo segment of
the written `#BPMS` (every entry is at or before both or after both) are less than 1/96 of that segment's beat length
apart in time: with `written_beat_tolerance`, the StepMania time of the written row is at most "1/96 beat at the local
tempo" before the time of the object's beat. -/
theorem written_time_tolerance (offsetSec : Rat) (bpms : List (Rat × Rat)) (w b : Rat) (hw : w ≤ b) (hlt : b - w < 1 / 96)
    (hpos : ∀ p ∈ bpms, 0 < p.2)
    (hseg : ∀ c ∈ changesOf bpms, c.snap.le (snapOfBeat w) = c.snap.le (snapOfBeat b)) :
    0 ≤ timeOfBeat offsetSec bpms b - timeOfBeat offsetSec bpms w ∧
    (bpms ≠ [] → timeOfBeat offsetSec bpms b - timeOfBeat offsetSec bpms w <
      beatLen (activeChange (changesOf bpms) (snapOfBeat w)).bpm / 96) := by
  unfold timeOfBeat
  cases hcs : changesOf bpms with
  | nil =>
    refine ⟨by simp [timeAt], fun hne => ?_⟩
    exfalso
    rw [changesOf_eq] at hcs
    have h1 : isort (fun a b : Rat × Rat => decide (a.1 ≤ b.1)) bpms = [] := List.map_eq_nil_iff.mp hcs
    have h2 := (Reamber.Analysis.isort_perm (fun a b : Rat × Rat => decide (a.1 ≤ b.1)) bpms)
    rw [h1] at h2
    exact hne h2.symm.eq_nil
  | cons c rest =>
    rw [hcs] at hseg
    have hd := timeAtAux_same_segment (-(1000 * offsetSec)) c rest (snapOfBeat w) (snapOfBeat b)
      (fun x hx => hseg x (List.mem_cons_of_mem _ hx))
    -- the change in force is one of the written pairs: metronome 4, positive tempo
    have hmem : activeAux c rest (snapOfBeat w) ∈ changesOf bpms := by rw [hcs]; exact activeAux_mem c rest _
    rw [changesOf_eq] at hmem
    obtain ⟨p, hp, hpe⟩ := List.mem_map.mp hmem
    have hp' : p ∈ bpms := (Reamber.Analysis.isort_perm _ bpms).mem_iff.mp hp
    have hmet : (activeAux c rest (snapOfBeat w)).met = 4 := by rw [← hpe]; rfl
    have hbpm : 0 < (activeAux c rest (snapOfBeat w)).bpm := by rw [← hpe]; exact hpos p hp'
    have hbl : 0 < beatLen (activeAux c rest (snapOfBeat w)).bpm := by
      unfold beatLen minToMsec; positivity
    rw [hmet, snapDist_snapOfBeat] at hd
    simp only [timeAt, activeChange]
    rw [hd]
    refine ⟨mul_nonneg (by linarith) (le_of_lt hbl), fun _ => ?_⟩
    have : (b - w) * beatLen (activeAux c rest (snapOfBeat w)).bpm <
        1 / 96 * beatLen (activeAux c rest (snapOfBeat w)).bpm := mul_lt_mul_of_pos_right hlt hbl
    linarith

/-- **`written_time_lipschitz` — times, across tempo changes.**  For a `#BPMS` list with a first entry on beat 0 and
positive tempos (entries on one beat allowed) and any bound `M` of the beat lengths of its entries: time is a monotone
function of the beat and grows by at most `M` per beat — for beats `0 ≤ w ≤ b`, whatever tempo changes lie between
them, `0 ≤ time b − time w ≤ (b − w)·M`; in particular a row less than 1/96 beat before its object
(`written_beat_tolerance`) is less than `M/96` ms before it.  (`written_time_tolerance` is the sharper statement with the
beat length in force when no change separates the two; the check uses the longest beat length *between* row and
object, which lies between the two statements and is not a theorem.) -/
theorem written_time_lipschitz (offsetSec : Rat) (bpms : List (Rat × Rat)) (M w b : Rat)
    (hok : tempoOkWeak bpms = true) (hM : ∀ p ∈ bpms, beatLen p.2 ≤ M) (hw : 0 ≤ w) (hwb : w ≤ b) :
    0 ≤ timeOfBeat offsetSec bpms b - timeOfBeat offsetSec bpms w ∧
    timeOfBeat offsetSec bpms b - timeOfBeat offsetSec bpms w ≤ (b - w) * M ∧
    (b - w < 1 / 96 → timeOfBeat offsetSec bpms b - timeOfBeat offsetSec bpms w < M / 96) := by
  have hsorted := isort_pairs_sorted bpms
  have hperm := Reamber.Analysis.isort_perm (fun a b : Rat × Rat => decide (a.1 ≤ b.1)) bpms
  unfold tempoOkWeak at hok
  simp only [Bool.and_eq_true] at hok
  obtain ⟨hhead, hpos⟩ := hok
  unfold timeOfBeat
  rw [changesOf_eq]
  generalize isort (fun a b : Rat × Rat => decide (a.1 ≤ b.1)) bpms = s at hsorted hperm hhead hpos
  cases s with
  | nil => simp at hhead
  | cons p l =>
    have hp0 : p.1 = 0 := by simpa using hhead
    have hpos' : ∀ q ∈ p :: l, 0 < q.2 := by
      intro q hq
      have := (List.all_eq_true.mp hpos) q hq
      simpa using this
    have hM' : ∀ q ∈ p :: l, beatLen q.2 ≤ M := fun q hq => hM q (hperm.mem_iff.mp hq)
    obtain ⟨h1, h2⟩ := timeAtAux_lipschitz M (-(1000 * offsetSec)) p l w b hsorted hpos' hM' (by rw [hp0]; exact hw) hwb
    simp only [List.map_cons, timeAt]
    refine ⟨h1, h2, fun hlt => ?_⟩
    have hMpos : 0 < M := lt_of_lt_of_le (SM.beatLen_pos (hpos' p (by simp))) (hM' p (by simp))
    have : (b - w) * M < 1 / 96 * M := mul_lt_mul_of_pos_right hlt hMpos
    linarith

/-- non-vacuity: an object at beat 5/9 in a measure with denominators 128, 36, 20 is written in row 53 of 384 (beat
53/96), 1/288 beat early; at 120 bpm that is 125/72 ms, the bound being 500/96 = 125/24 ms -/
example : (slotOf (5 / 9) 0 '1').den ∈ [128, 36, 20] ∧
    timeOfBeat 0 [(0, 120)] (5 / 9) - timeOfBeat 0 [(0, 120)] (53 / 96) = 125 / 72 ∧
    beatLen (activeChange (changesOf [(0, 120)]) (snapOfBeat (53 / 96))).bpm / 96 = 125 / 24 := by
  decide +kernel

/-! ### hypotheses of `write_read_exact` that cannot be dropped (each replayed on the implementation: the corpus of
`harness/props/c03.py` holds the same inputs, and (C) compares the implementation's text with the model's) -/

/-- "every denominator divides its measure's row count" (`EventsOK`): with denominators 128, 36, 20 in one measure the
row count is capped at 384, 36 ∤ 384, and the object at beat 5/9 is written at beat 53/96 — 1/288 beat early (inside
the 1/96-beat regime of `written_beat_tolerance`, but not exact). -/
theorem cap_counterexample :
    denMax [128, 36, 20] = 384 ∧ ¬ (36 ∣ 384) ∧ (slotOf (5 / 9) 0 '1').den = 36 ∧ (slotOf (5 / 9) 0 '1').num = 5 ∧
    4 * ((rowOf 5 36 384 : Nat) : Rat) / 384 ≠ 5 / 9 ∧ (5 / 9 : Rat) - 4 * ((rowOf 5 36 384 : Nat) : Rat) / 384 = 1 / 288 := by
  decide +kernel

/-- "no two events in one (column, beat)" (`EventsOK`): a tap and a mine in one cell — only the later one of the
writer's order is in the text, the file denotes one object fewer. -/
theorem collision_counterexample :
    (fillMeasure 4 [⟨0, 0, 4, 1, '1'⟩, ⟨0, 0, 4, 1, 'M'⟩, ⟨0, 1, 4, 2, '1'⟩]).toOption =
      some [['0', 'M', '0', '0'], ['0', '0', '1', '0'], ['0', '0', '0', '0'], ['0', '0', '0', '0']] := by
  decide +kernel

/-- "holds/rolls of one column do not overlap" (`NoOverlap`): head, head, tail, tail in one column is not
well-bracketed — the pairing fails on the second head and one object is left. -/
theorem overlap_counterexample :
    let evs : List SEv := [(0, 0, .head .hold), (0, 1, .head .hold), (0, 2, .tail), (0, 3, .tail)]
    (pairAll evs).ok = false ∧ (pairAll evs).notes.length = 1 := by
  decide +kernel

/-- "`−1000·#OFFSET` = the first tempo point" (the property's domain; hypothesis `ho`): with another offset every time
of the file is displaced by the difference. -/
theorem offset_counterexample :
    timeOfBeat 0 [(0, 120)] 4 = 2000 ∧ timeOfBeat (-1) [(0, 120)] 4 = 3000 := by
  decide +kernel

/-! ### the file entry point (`SMMapSet.write_file` / `SMMapSet.read_file`) -/

/-- universal newlines leave a text without carriage returns as it is -/
theorem univNl_noCR : ∀ (t : Str), '\r' ∉ t → univNl t = t
  | [], _ => rfl
  | c :: t, h => by
    have hc : c ≠ '\r' := fun e => h (by simp [e])
    have ht : '\r' ∉ t := fun e => h (List.mem_cons_of_mem _ e)
    have e : univNl (c :: t) = c :: univNl t := by
      conv_lhs => unfold univNl
      split
      · rename_i h1; simp at h1
      · rename_i h1; simp at h1; exact absurd h1.1 hc
      · rename_i h1; simp at h1; exact absurd h1.1 hc
      · rename_i h1; simp at h1; obtain ⟨rfl, rfl⟩ := h1; rfl
    rw [e, univNl_noCR t ht]

/-- **The file entry point.**  `SMMapSet.write_file` stores the text of `write()` (utf-8, text mode: on this platform
line breaks are written as they are; (C) compares the content of the file with `renderWritten` on every `write_file`
case), `SMMapSet.read_file` decodes it with universal newlines and hands it to `read`.  For a text without carriage
returns — every text of the writer whose header strings have none — reading the file is reading the text, and the
denotation of the file's content is the denotation of the text, so `write_read_exact_show` speaks about the file. -/
theorem write_file_read_file (text : Str) (h : '\r' ∉ text) :
    SM.readFile text = SM.read text ∧ denote (univNl text) = denote text := by
  unfold SM.readFile
  rw [univNl_noCR text h]
  exact ⟨rfl, rfl⟩

/-- … and with a carriage return inside a header string it is not: the value read back from the file has a line break
in its place (`'\r'` in header strings is outside the domain of the file entry point) -/
theorem file_cr_counterexample :
    univNl ['#','T','I','T','L','E',':','a','\r','b',';'] = ['#','T','I','T','L','E',':','a','\n','b',';'] := by decide

/-- **The writer's text has no carriage return when its inputs have none** (header strings, chart type, description,
difficulty, the number renderer's outputs; the note rows never have one): with `write_file_read_file`, the file
written by `write_file` is read by `read_file` as the text is read by `read`. -/
theorem renderWritten_noCR (sh : Shows) (w : Written) (hstr : ∀ tv ∈ w.strs, '\r' ∉ tv.1 ∧ '\r' ∉ tv.2)
    (hsel : '\r' ∉ w.selectable) (hrat : ∀ q, '\r' ∉ sh.rat q) (hint : ∀ i, '\r' ∉ sh.int i)
    (hch : ∀ c ∈ w.charts, '\r' ∉ c.chartType ∧ '\r' ∉ c.description ∧ '\r' ∉ c.difficulty ∧
      ∀ rows ∈ c.measures, ∀ r ∈ rows, '\r' ∉ r) : '\r' ∉ renderWritten sh w := by
  unfold renderWritten
  apply noCR_joinWith
  · simp [cr_ne.1]
  · intro line hl
    rcases List.mem_append.mp hl with hl | hl
    · exact headerLines_noCR sh w hstr hsel hrat line hl
    · obtain ⟨ls, hls, hline⟩ := List.mem_flatten.mp hl
      obtain ⟨c, hc, rfl⟩ := List.mem_map.mp hls
      obtain ⟨a, b, d, e⟩ := hch c hc
      exact chartLines_noCR sh c hrat hint a b d e line hline

/-- **`write_file` → `read_file` on the writer's own text**: with inputs free of carriage returns, `read_file` of the
file `write_file` stores is `read` of the text, and the file's content denotes what the text denotes. -/
theorem write_file_read_file_written (sh : Shows) (w : Written) (hstr : ∀ tv ∈ w.strs, '\r' ∉ tv.1 ∧ '\r' ∉ tv.2)
    (hsel : '\r' ∉ w.selectable) (hrat : ∀ q, '\r' ∉ sh.rat q) (hint : ∀ i, '\r' ∉ sh.int i)
    (hch : ∀ c ∈ w.charts, '\r' ∉ c.chartType ∧ '\r' ∉ c.description ∧ '\r' ∉ c.difficulty ∧
      ∀ rows ∈ c.measures, ∀ r ∈ rows, '\r' ∉ r) :
    SM.readFile (renderWritten sh w) = SM.read (renderWritten sh w) ∧
    denote (univNl (renderWritten sh w)) = denote (renderWritten sh w) :=
  write_file_read_file _ (renderWritten_noCR sh w hstr hsel hrat hint hch)

/-! ### the chart header parameters (meter, radar values) -/

theorem mapE_parse (sh : Shows) (h : ShowsParse sh) : ∀ (g : List Rat), mapE parseFloat (g.map sh.rat) = .ok g
  | [] => rfl
  | q :: t => by
    simp only [List.map_cons, mapE, h.parse q, mapE_parse sh h t, bind, Except.bind]

/-- **The groove-radar parameter reads back**: `",".join(map(str, groove_radar))` over number texts is split and parsed by
the specification into exactly the written values (the chart header parameter `radar` of the denoted chart). -/
theorem radar_roundtrip (sh : Shows) (h : ShowsParse sh) (groove : List Rat) (hne : groove ≠ [])
    (p0 p1 p2 p3 data : Str) :
    (denoteChart [p0, p1, p2, p3, trim (joinWith [','] (groove.map sh.rat)), data]).radar = some groove := by
  have hws : ∀ c ∈ joinWith [','] (groove.map sh.rat), isWs c = false := by
    intro c hc
    rcases mem_joinWith _ _ c hc with h1 | ⟨p, hp, hcp⟩
    · simp only [List.mem_singleton] at h1; subst h1; decide
    · obtain ⟨q, _, rfl⟩ := List.mem_map.mp hp
      exact ((h.text q).2 c hcp).1
  have hsplit : splitOn ',' (joinWith [','] (groove.map sh.rat)) = groove.map sh.rat := by
    apply splitOn_joinWith ',' _ (by simpa using hne)
    intro p hp hm
    obtain ⟨q, _, rfl⟩ := List.mem_map.mp hp
    exact ((h.text q).2 _ hm).2.1 rfl
  have htrim : (groove.map sh.rat).map trim = groove.map sh.rat := by
    rw [List.map_map]
    apply List.map_congr_left
    intro q _
    exact trim_noWs _ (fun c hc => ((h.text q).2 c hc).1)
  simp only [denoteChart, List.getD_cons_succ, List.getD_cons_zero, trim_noWs _ hws, hsplit, htrim, mapE_parse sh h groove]
  rfl

/-- **The five header parameters of a written chart read back**: the `#NOTES` value the writer lays out for a chart
(`write_read_exact_text` builds exactly these parameters) denotes the chart type, description and difficulty as written
(MSD-trimmed), the meter (`str(int)` parsing back being the renderer assumption in applied form) and the radar values. -/
theorem chart_header_roundtrip (sh : Shows) (h : ShowsParse sh) (c : WrittenChart) (hne : c.groove ≠ [])
    (hint : parseInt (trim (sh.int c.difficultyVal)) = .ok c.difficultyVal) (data : Str) :
    (denoteChart [trim c.chartType, trim c.description, trim c.difficulty, trim (sh.int c.difficultyVal),
      trim (joinWith [','] (c.groove.map sh.rat)), data]).chartType = trim c.chartType ∧
    (denoteChart [trim c.chartType, trim c.description, trim c.difficulty, trim (sh.int c.difficultyVal),
      trim (joinWith [','] (c.groove.map sh.rat)), data]).description = trim c.description ∧
    (denoteChart [trim c.chartType, trim c.description, trim c.difficulty, trim (sh.int c.difficultyVal),
      trim (joinWith [','] (c.groove.map sh.rat)), data]).difficulty = trim c.difficulty ∧
    (denoteChart [trim c.chartType, trim c.description, trim c.difficulty, trim (sh.int c.difficultyVal),
      trim (joinWith [','] (c.groove.map sh.rat)), data]).meter = some c.difficultyVal ∧
    (denoteChart [trim c.chartType, trim c.description, trim c.difficulty, trim (sh.int c.difficultyVal),
      trim (joinWith [','] (c.groove.map sh.rat)), data]).radar = some c.groove := by
  refine ⟨rfl, rfl, rfl, ?_, radar_roundtrip sh h c.groove hne _ _ _ _ _⟩
  simp [denoteChart, hint, Except.toOption]

/-! ### charts without objects -/

/-- **The hypothesis `c.notes ≠ []` of `ChartWritten` is not a restriction of the writer**: for a chart without objects
(a keyed chart type) `SMMap.write` emits no measure at all … -/
theorem empty_chart_rows (c : WChart) (h : c.notes = []) (keys : Nat) (hk : getKeys c.chartType = some keys) :
    writeChartRows c = .ok [] := by
  unfold writeChartRows
  have : writeOrder c.notes = [] := by rw [h]; rfl
  simp [this, beats, bind, Except.bind, hk]
  rfl

/-- … and the `#NOTES` value written for it (empty note data between two line breaks) denotes no object and is
well-bracketed.  The whole-file theorem still carries `c.notes ≠ []` inside `ChartWritten` (its note data goes through
`scanRows_renderRows`, stated for at least one measure): for an empty chart the statement holds by these two facts, but
the assembly for files that mix empty and non-empty charts is not done. -/
theorem empty_chart_denote (p0 p1 p2 p3 p4 : Str) :
    (denoteChart [p0, p1, p2, p3, p4, trim ('\n' :: (renderRows [] ++ ['\n']))]).notes = [] ∧
    (denoteChart [p0, p1, p2, p3, p4, trim ('\n' :: (renderRows [] ++ ['\n']))]).wellBracketed = true := by
  constructor <;> rfl

/-!
what is still missing for the full `write_read_exact` for the single statement "denote (write ms) = ms":
Proved chain: `written_beats_exact` (slotted beat = `beatAt t`) → `slot_beat_exact` (row denotes that beat) →
`cells_no_collision` / `last_write_wins` (the symbol is in that cell) → `scanRows_renderRows` (the text scans back to the
rows) → `changesOf_written_measure_lines` (the written `#BPMS` denote the tempo list) → `written_time_exact` (the
StepMania time of that beat is `t`); `string_line_roundtrip`, `selectable_roundtrip` for the header.
Main assembled result: `write_read_exact_chart` (one chart: the emitted note data denotes exactly the chart's notes,
in beats and in milliseconds), built on `write_read_chart` (rows level) and `write_read_exact_partial`.
NOT proved (`write_read_exact` for the whole file stays `_partial`):
* (proved since: `measuresSorted_spec`, `writeOrder_events`, `written_rows_clean`, and the one-chart assembly
  `write_read_exact_chart`)
* (proved since: the MSD layer `msd_renderItems` and the whole-file theorem `write_read_exact` for any number of charts);
* (proved since: `render_items` and `write_read_exact_text` — the theorem now speaks about the text of `SM.write`
  itself; header strings with single `/` are covered);
* (proved since: `parsePairs_bpmsParam` and `write_read_exact_show` — the renderer assumption is now per number:
  `parseFloat (sh.rat q) = .ok q` on number texts);
* the numeric header lines (`#OFFSET`, `#SAMPLESTART`, `#SAMPLELENGTH`, bpm values): they depend on Python's float
  `repr`; the assumption to be carried is `parseFloat (show q) = .ok q` for the renderer `show` (a parameter, as in C01).
* (proved since, round 5: `changesOf_domain`, `gridCompatible_of_96ths`, `write_read_exact_written`, `write_read_exact_grid96` — the
  tempo hypotheses are decidable conditions on the written header; `tie_later_wins` for `#BPMS` entries on one beat;
  the tolerance regime `written_beat_tolerance` / `written_time_tolerance`; the file entry point `write_file_read_file`;
  counterexamples for the hypotheses that cannot be dropped);
* not proved: that tempo rows at one offset in memory are written so that the later row is in force (the link from
  `toTimingMap` with tied rows to `effectivePairs` of the written pairs — compared on every tied case by (S)); the time
  bound with the longest beat length *between* a row and its object (`written_time_lipschitz` has the longest of the
  whole list).
The check evaluates the whole composition on every case (S).
-/

end Reamber.C03
