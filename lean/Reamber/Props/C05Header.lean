import Reamber.Props.C05
import Reamber.Lemmas.BMSHeaderMore

namespace Reamber.BMS

open Reamber.Timing Reamber.PermInv

/-! ### samples and the text fields of the header (the part `bms_write_read` left open) -/

/-- the header record of a denotation is `_read_file_header` of the file's header dict -/
theorem denote_header (lay : Layout) (lines : List Bytes) (d : Denotation) (h : denote lay lines = some d) :
    ∃ doc, parseDoc lines = .ok doc ∧ readHeader doc.header = .ok d.header := by
  unfold denote at h
  split at h
  · cases h
  · rename_i doc hdoc
    split at h
    · cases h
    · rename_i hdr hhdr
      split at h
      · cases h
      · injection h with h
        refine ⟨doc, hdoc, ?_⟩
        rw [← h]
        exact hhdr

/-- **`bms_write_read`, header part: samples, title, artist, version.**  Under the hypotheses of `bms_write_read` and

* `MiscOK c` — no other-key entry (`misc`) is named `TITLE` / `ARTIST` / `PLAYLEVEL` or has the `WAV…` form (finding
  D46: a chart obtained through `BMSMap.read` keeps exactly these keys in `misc`; see `title_shadowed_by_misc`),
* `SamplesOK c` — the sample table is a dict (pairwise different ids) of two-character ids whose file names survive
  the reader's `strip`,

the written file (`write … = ok lines`, the same `lines` as in `bms_write_read`: `write` is a function) has the
by-the-book meaning `d` (the same `d`: `denote` is a function) whose header record carries the chart's sample table
exactly, its title / artist / version without trailing white space and its `#LNOBJ` id; hence **a hit or hold whose
in-memory sample is a file of the table is denoted with exactly that sample** (`bms_write_read` gives the denoted
sample as the `#WAV` entry of the written id `sampleId c.samples dflt s`), and an unknown sample is written under the
default id. -/
theorem bms_write_read_header (cs : List BcSnap) (hwf : wfChanges cs = true) (hs : strictSnaps cs = true)
    (h0 : firstAtZero cs = true) (hgc : gridCompatible (grid defaultMaxDiv) cs = true) (hm : metronomeOk cs = true)
    (lay : Layout) (hlay : LayoutOK lay)
    (hts : lay.exbpmCh ≠ lay.timeSig ∧ ∀ lane ∈ lay.lanes, lane.1 ≠ lay.timeSig)
    (dflt : Bytes) (c : WChart) (hp : c.bpms.Perm (tmOf 0 cs)) (hok : BmsOk cs lay c)
    (hR : RowsOK (bmsNoteRows cs lay dflt c ++ bmsTempoRows cs lay c))
    (hv : ∀ r ∈ bmsNoteRows cs lay dflt c, r.value ≠ ['0', '0'])
    (hH : HeaderOK c) (hM : MiscOK c) (hS : SamplesOK c) (hdec : ∀ b ∈ c.bpms, roundDec 3 b.bpm = b.bpm)
    (hl : List Bytes) (hhdr : writeHeader c = .ok hl)
    (items : Bytes × Nat → List TAtom)
    (hitems : ∀ lane ∈ lay.lanes, (items lane).Perm (laneItems c dflt lane.2) ∧ (∀ a ∈ items lane, a.idOk c.lnEnd))
    (hasc : ∀ lane ∈ lay.lanes, ((items lane).flatMap TAtom.times).Pairwise (fun a b => a ≤ b)) :
    ∃ lines d, write defaultGrid lay dflt c = .ok lines ∧ denote lay lines = some d ∧
      d.header.samples = c.samples ∧ d.header.title = rstrip c.title ∧ d.header.artist = rstrip c.artist ∧
      d.header.version = rstrip c.version ∧ d.header.lnEnd = c.lnEnd ∧
      (∀ s, (∃ k, (k, s) ∈ c.samples) →
        (dictGet? d.header.samples (sampleId c.samples dflt s)).getD [] = s) ∧
      (∀ s, (¬ ∃ k, (k, s) ∈ c.samples) → sampleId c.samples dflt s = dflt) := by
  obtain ⟨lines, d, b0, hw, hd, _⟩ := bms_write_read cs hwf hs h0 hgc hm lay hlay hts dflt c hp hok hR hv hH hdec hl hhdr
    items hitems hasc
  obtain ⟨hcells, _⟩ := writeCells_eq cs hwf hs h0 hgc hm lay dflt c hp hok
  have hwrite : write defaultGrid lay dflt c =
      .ok (hl ++ [[]] ++ linesOfCells (cellsOfRows (bmsNoteRows cs lay dflt c ++ bmsTempoRows cs lay c))) := by
    simp only [write, writeNotes, hhdr, hcells, bind, Except.bind]
  have hlines : lines = hl ++ [[]] ++ linesOfCells (cellsOfRows (bmsNoteRows cs lay dflt c ++ bmsTempoRows cs lay c)) := by
    rw [hwrite] at hw
    injection hw with hw
    exact hw.symm
  have hmisc : ∀ kv ∈ c.misc, ∃ a r, kv.1 = a :: r ∧ isDigit a = false ∧ isWs a = false := by
    intro kv hkv
    obtain ⟨a, r, e, hd, hw⟩ := (hH.misc kv hkv).1
    exact ⟨a, r, e, hd, hw a (by simp)⟩
  obtain ⟨H, notes, hparse, hHfold, _, _⟩ :=
    written_file_objects _ hR hl (writeHeader_headerLike c hl hhdr hmisc)
  obtain ⟨doc, hdoc, hread⟩ := denote_header lay lines d hd
  rw [hlines, hparse] at hdoc
  injection hdoc with hdoc
  have hH' : doc.header = H := by rw [← hdoc]
  rw [hH'] at hread
  obtain ⟨fS, fT, fA, fV⟩ := written_header_fields c hH hM hS hl hhdr H hHfold d.header hread
  have fL : d.header.lnEnd = c.lnEnd := by
    rw [readHeader_fields H d.header hread, (written_header_read c hH hl hhdr H hHfold).1]
    rfl
  refine ⟨lines, d, hw, hd, fS, fT, fA, fV, fL, ?_, ?_⟩
  · intro s hk
    rw [fS]
    exact (sample_readback c.samples hS.nodup dflt s).1 hk
  · intro s hk
    exact (sample_readback c.samples hS.nodup dflt s).2 hk

/-! ### finding D46: other keys that shadow the writer's own header lines -/

/-- the chart of `bms_write_read_nonvacuous` as `BMSMap.read` leaves it after the caller renamed it: `misc` still holds
the file's `TITLE` -/
def shadowChart : WChart := { wrExChart with title := "new".toList, misc := [("TITLE".toList, "old".toList)] }

/-- **D46 (counterexample to `bms_write_read_header` without `MiscOK`).**  `BMSMap.read` leaves `TITLE`, `ARTIST`,
`PLAYLEVEL`, `LNOBJ` among the chart's other keys; `_write_file_header` prints them after its own `#TITLE` line; the
last line of a key wins: the written header of the chart renamed to `new` (the header dict of the written file is the
fold of `docStep` over the header lines: `written_file_objects`), read by `_read_file_header`, still says `old`. -/
theorem title_shadowed_by_misc :
    ((writeHeader shadowChart).toOption.bind (fun hl => (foldlE docStep ⟨[], []⟩ (hl ++ [[]])).toOption.bind
      (fun doc => (readHeader doc.header).toOption))).map (·.title) = some "old".toList ∧
    shadowChart.title = "new".toList ∧ rstrip shadowChart.title = shadowChart.title := by
  decide +kernel

/-- the header hypotheses of `bms_write_read_header` are satisfiable together: a chart with a sample table -/
def hdrExChart : WChart := { wrExChart with samples := [("0A".toList, "k.wav".toList), ("0B".toList, "snare 01.ogg".toList)],
                                            hits := [⟨0, "k.wav".toList, 0⟩] }

theorem header_hyps_nonvacuous : HeaderOK hdrExChart ∧ MiscOK hdrExChart ∧ SamplesOK hdrExChart ∧
    (dictGet? hdrExChart.samples (sampleId hdrExChart.samples "01".toList "k.wav".toList)).getD [] = "k.wav".toList := by
  refine ⟨⟨by intro kv hkv; simp [hdrExChart, wrExChart] at hkv, by decide +kernel, by decide +kernel, by decide +kernel,
    by decide +kernel⟩, ⟨by intro kv hkv; simp [hdrExChart, wrExChart] at hkv⟩, ⟨by decide +kernel, by decide +kernel, by decide +kernel⟩,
    by decide +kernel⟩

end Reamber.BMS
