/-
C15 — A chart is a set of timed objects: results do not depend on row order.

For each operation model f (imported from the property that owns it, tied to the source by that property's
correspondence check and, on permuted charts, by `harness/props/c15.py`):

    every list of the chart permuted (`List.Perm`)  →  f chart ≈ f chart'

with ≈ as `Spec/Perm.lean` says.  Proved here:

  dominant_bpm_perm        equality of the value                   hyp: tempo points of one time are equal
  sv_normalize_perm        same multiset of (time, multiplier)     hyp: the same (none with an override)
  scroll_speed_perm        equality of the whole result list       hyp: + coinciding SVs carry equal multipliers
  full_ln_perm             equal hit and hold lists, for ANY two sorting functions
                                                                   hyp: notes of one (time, column) are equal
  rate_perm                same multiset of rows in every list     hyp: well-formed frames (`chartOk`)
  hitsound_copy_perm       same notes; per (time, bit, volume) the same number of notes; per (time, name, volume) the
                           same number of notes + event samples — i.e. the same multiset of (time, sound, volume),
                           for ANY sorting permutations on both sides    hyp: C18's two + source volumes >= 0
  hitsound_copy_perm_partial   the volume-free part, without the hypothesis on volumes
  counterexamples          each tie hypothesis is necessary (`*_tie_counterexample`), the code before the repair
                           of D18 (`dominant_bpm_order_counterexample`), the object-dtype bit test of N15a

  write_osu_perm           the osu writer: both written texts read back (C01's whole-text reader model) as the same
                           chart up to row order                   hyp: those of C01's `read_writeText`
  write_sm_perm            the StepMania writer: same measures cell by cell, same header, same multiset of `#BPMS` pairs
                           (`fillMeasure_perm`: a measure's grid is a function of the SET of its cells)
                                                                   hyp: C10's domain as C03's `written_beats_exact`, `MeasureOk`
  write_bms_perm           the BMS writer: the by-the-book objects of the written cells on the note channels are the same
                           multiset, the tempo objects sort to the same tempo list (lines may differ: `find_lcm`)
                                                                   hyp: C05's domain, `BmsOk`
  write_qua_perm           the Quaver writer: both written documents denote (by the book) the same chart up to
                           row order                               hyp: those of C06's `qua_write_denotes`

  convert_one_perm         the 17 converter entry points, one pass of the body: sources with the same hits / holds /
                           tempo points up to row order (stated over the rows projected on the carried columns, any
                           labels) give charts with the same hits / holds / tempo points up to row order

  convert_one_rowperm      the same with the relation stated as a row permutation of every (column-oriented) source
                           list under any labels (`projRows_rowPerm`, the projection lemma)

Not proved here (see manifest.d/C15.json): the SV list, the non-carried columns and the loop shapes of the converters, the osu / StepMania / BMS writers (their
models are not yet composed with `Perm`).
-/
import Reamber.Lemmas.PermInv
import Reamber.Lemmas.PermInvConvert
import Reamber.Lemmas.PermInvHitsound
import Reamber.Props.C13
import Reamber.Props.C17
import Reamber.Props.C18
import Reamber.Props.C06
import Reamber.Props.C01
import Reamber.Lemmas.PermInvSM
import Reamber.Lemmas.PermInvBMS
import Reamber.Model.BpmList
import Reamber.Props.C20

namespace Reamber.PermInv

open Reamber.Analysis hiding Chart

/-! ## dominant bpm, SV normalisation -/

/-- **dominant_bpm**: permuting the tempo rows does not change the dominant bpm (`L` = last stacked offset, a
maximum and therefore itself independent of row order). -/
theorem dominant_bpm_perm {bpms bpms' : List Tp} (L : Rat) (ht : TiesEqual (fun p : Tp => p.time) bpms)
    (hp : bpms.Perm bpms') : dominantBpm bpms L = dominantBpm bpms' L := by
  simp only [dominantBpm, dominantRows, sortTp_eq_of_perm ht hp]

example : TiesEqual (fun p : Tp => p.time) [⟨1000, 200⟩, ⟨0, 100⟩, ⟨0, 100⟩] := by
  rw [← tiesEqualB_iff]; decide +kernel

theorem refBpm_perm {bpms bpms' : List Tp} (L : Rat) (ov : Option Rat) (ht : TiesEqual (fun p : Tp => p.time) bpms)
    (hp : bpms.Perm bpms') : refBpm bpms L ov = refBpm bpms' L ov := by
  simp only [refBpm, dominant_bpm_perm L ht hp]

/-- **sv_normalize**: the same multiset of (time, multiplier) rows; both raise together -/
theorem sv_normalize_perm {bpms bpms' : List Tp} (L : Rat) (ov : Option Rat)
    (ht : TiesEqual (fun p : Tp => p.time) bpms) (hp : bpms.Perm bpms') :
    OptSameRows (svNormalize bpms L ov) (svNormalize bpms' L ov) := by
  simp only [svNormalize, refBpm_perm L ov ht hp]
  cases refBpm bpms' L ov with
  | none => trivial
  | some ref => exact hp.map _

/-- with a (non-zero) override no hypothesis on ties is needed -/
theorem sv_normalize_perm_override {bpms bpms' : List Tp} (L b : Rat) (hb : b ≠ 0) (hp : bpms.Perm bpms') :
    OptSameRows (svNormalize bpms L (some b)) (svNormalize bpms' L (some b)) := by
  simp only [svNormalize, refBpm, hb, if_false, Option.map_some]
  exact hp.map _

/-- the code as it was before the repair of D18: the bpm column is taken in ROW order and paired by position
with the intervals of the SORTED offsets -/
def dominantBpmUnsortedPairing (bpms : List Tp) (last : Rat) : Option Rat :=
  idxmax (groupSum ((bpms.map (·.bpm)).zip (diffs (sortRat (bpms.map (·.time) ++ [last])))))

/-- D18, witness: the same two tempo points in two row orders — 100 bpm for 1000 ms then 200 bpm for 500 ms -/
theorem dominant_bpm_order_counterexample :
    dominantBpmUnsortedPairing [⟨0, 100⟩, ⟨1000, 200⟩] 1500 = some 100 ∧
    dominantBpmUnsortedPairing [⟨1000, 200⟩, ⟨0, 100⟩] 1500 = some 200 ∧
    dominantBpm [⟨0, 100⟩, ⟨1000, 200⟩] 1500 = some 100 ∧
    dominantBpm [⟨1000, 200⟩, ⟨0, 100⟩] 1500 = some 100 := by decide +kernel

/-- the tie hypothesis is necessary: two different tempo points at time 0, in two row orders -/
theorem dominant_bpm_tie_counterexample :
    ([⟨0, 100⟩, ⟨0, 200⟩] : List Tp).Perm [⟨0, 200⟩, ⟨0, 100⟩] ∧
    dominantBpm [⟨0, 100⟩, ⟨0, 200⟩] 1000 ≠ dominantBpm [⟨0, 200⟩, ⟨0, 100⟩] 1000 := by
  refine ⟨List.Perm.swap _ _ _, ?_⟩
  decide +kernel

/-! ## scroll speed -/

theorem bpmFrame_perm {bpms bpms' : List Tp} (omin omax : Rat) (ht : TiesEqual (fun p : Tp => p.time) bpms)
    (hp : bpms.Perm bpms') : bpmFrame bpms omin omax = bpmFrame bpms' omin omax := by
  unfold bpmFrame bpmRows
  congr 1
  apply sortRow_append_eq_of_perm _ _ _ (hp.map _)
  · intro r hr
    obtain ⟨p, _, rfl⟩ := List.mem_map.mp hr
    simp
  · intro r hr
    simp only [headTailBpm, List.zip_cons_cons, List.zip_nil_right, List.mem_cons, List.not_mem_nil, or_false] at hr
    rcases hr with rfl | rfl <;> rfl
  · intro a ha b hb hab
    obtain ⟨p, hpm, rfl⟩ := List.mem_map.mp ha
    obtain ⟨q, hqm, rfl⟩ := List.mem_map.mp hb
    rw [ht p hpm q hqm hab]

theorem svFrame_perm {bpms bpms' : List Tp} {svs svs' : List Sv} (omin omax : Rat)
    (hs : TiesEqual (fun s : Sv => s.time) svs) (hp : bpms.Perm bpms') (hq : svs.Perm svs') :
    svFrame bpms svs omin omax = svFrame bpms' svs' omin omax := by
  unfold svFrame svRows
  congr 1
  apply groupLast_congr _ _ _ _ _ (hp.map _) (hq.map _)
  · intro a ha b hb _
    obtain ⟨p, _, rfl⟩ := List.mem_map.mp ha
    obtain ⟨q, _, rfl⟩ := List.mem_map.mp hb
    rfl
  · intro a ha b hb hab
    obtain ⟨p, hpm, rfl⟩ := List.mem_map.mp ha
    obtain ⟨q, hqm, rfl⟩ := List.mem_map.mp hb
    rw [hs p hpm q hqm hab]

/-- **scroll_speed**: the whole result (offsets and speeds, row by row) is the same for every order of the tempo
rows and of the SV rows.  `omin`/`omax` are the minimum / maximum stacked offset (independent of row order). -/
theorem scroll_speed_perm (hasSv : Bool) {bpms bpms' : List Tp} {svs svs' : List Sv} (omin omax : Rat) (ov : Option Rat)
    (ht : TiesEqual (fun p : Tp => p.time) bpms) (hs : TiesEqual (fun s : Sv => s.time) svs)
    (hp : bpms.Perm bpms') (hq : svs.Perm svs') :
    scrollSpeed hasSv bpms svs omin omax ov = scrollSpeed hasSv bpms' svs' omin omax ov := by
  simp only [scrollSpeed, speedFrame, refBpm_perm omax ov ht hp, bpmFrame_perm omin omax ht hp,
    svFrame_perm omin omax hs hp hq]

example : TiesEqual (fun s : Sv => s.time) [⟨1500, 2⟩, ⟨1000, 1/2⟩, ⟨1500, 2⟩] := by
  rw [← tiesEqualB_iff]; decide +kernel

/-- the SV hypothesis is necessary: two SVs with different multipliers at one time (`groupby.last` keeps the one
that comes last in row order) -/
theorem scroll_speed_sv_tie_counterexample :
    ([⟨500, 2⟩, ⟨500, 3⟩] : List Sv).Perm [⟨500, 3⟩, ⟨500, 2⟩] ∧
    scrollSpeed true [⟨0, 100⟩] [⟨500, 2⟩, ⟨500, 3⟩] 0 1000 none ≠
      scrollSpeed true [⟨0, 100⟩] [⟨500, 3⟩, ⟨500, 2⟩] 0 1000 none := by
  refine ⟨List.Perm.swap _ _ _, ?_⟩
  decide +kernel

/-! ## full_ln -/

section FullLN
open Reamber.FullLN

theorem stacked_perm {α} {m m' : MapM α} (hh : m.hits.Perm m'.hits) (hl : m.holds.Perm m'.holds) :
    (stacked m).Perm (stacked m') := by
  unfold stacked
  exact hh.append hl

/-- a column of a sorted arrangement is determined by the multiset of rows when tied notes are equal -/
theorem inColumn_sorted_eq (c : Int) {arr₁ arr₂ : List FullLN.Row} (hp : arr₁.Perm arr₂) (s₁ : SortedByOffset arr₁)
    (s₂ : SortedByOffset arr₂) (ht : TiesEqual key arr₁) : inColumn c arr₁ = inColumn c arr₂ := by
  apply sorted_perm_eq_on (le := fun a b : FullLN.Row => decide (a.offset ≤ b.offset))
  · intro a ha b hb h1 h2
    simp only [decide_eq_true_eq] at h1 h2
    have ha' := List.mem_filter.mp ha
    have hb' := List.mem_filter.mp hb
    have hca : a.column = c := by simpa using ha'.2
    have hcb : b.column = c := by simpa using hb'.2
    apply ht a ha'.1 b hb'.1
    simp [key, le_antisymm h1 h2, hca, hcb]
  · exact hp.filter _
  · exact List.Pairwise.imp (fun h => by simpa using h) (List.Pairwise.filter _ s₁)
  · exact List.Pairwise.imp (fun h => by simpa using h) (List.Pairwise.filter _ s₂)

/-- **full_ln**: for ANY two functions `sort_values` may be (numpy's sort is not stable) and any two row orders
of the hit and hold lists, the result has literally the same hit list and the same hold list; the further note
lists and every other part are the inputs' own. -/
theorem full_ln_perm {α} (sortF sortF' : List FullLN.Row → List FullLN.Row) (hs : SortsByOffset sortF) (hs' : SortsByOffset sortF')
    (gap thr : Rat) (m m' : MapM α) (hh : m.hits.Perm m'.hits) (hl : m.holds.Perm m'.holds)
    (ht : TiesEqual key (stacked m)) :
    (fullLnWith sortF gap thr m).hits = (fullLnWith sortF' gap thr m').hits ∧
    (fullLnWith sortF gap thr m).holds = (fullLnWith sortF' gap thr m').holds ∧
    (fullLnWith sortF gap thr m).extras = m.extras ∧ (fullLnWith sortF' gap thr m').extras = m'.extras ∧
    (fullLnWith sortF gap thr m).others = m.others ∧ (fullLnWith sortF' gap thr m').others = m'.others := by
  have hp : (sortF (stacked m)).Perm (sortF' (stacked m')) :=
    ((hs.perm _).trans (stacked_perm hh hl)).trans (hs'.perm _).symm
  have ht' : TiesEqual key (sortF (stacked m)) := ht.perm (hs.perm _).symm
  have hrows : fullLnRows gap thr (sortF (stacked m)) = fullLnRows gap thr (sortF' (stacked m')) := by
    apply fullLnRows_eq_of_same_last gap thr _ _ hp (hs.sorted _) (hs'.sorted _)
    intro c
    rw [inColumn_sorted_eq c hp (hs.sorted _) (hs'.sorted _) ht']
  refine ⟨?_, ?_, rfl, rfl, rfl, rfl⟩
  · simp only [fullLnWith, hrows]
  · simp only [fullLnWith, hrows]

example : TiesEqual key ([⟨0, 0, none⟩, ⟨0, 1, none⟩, ⟨500, 0, some 100⟩, ⟨0, 0, none⟩] : List FullLN.Row) := by
  rw [← tiesEqualB_iff]; decide +kernel

/-- the tie hypothesis is necessary: a hit and a hold on one (time, column), last in their column — the model's
own stable sort keeps whichever comes last in row order -/
theorem full_ln_tie_counterexample :
    (fullLn 150 100 (⟨[], [⟨0, 0, none⟩], [⟨0, 0, some 500⟩], ()⟩ : MapM Unit)).holds = [⟨0, 0, some 500⟩] ∧
    (fullLn 150 100 (⟨[], [⟨0, 0, none⟩, ⟨1000, 0, none⟩], [⟨1000, 0, some 500⟩], ()⟩ : MapM Unit)).holds
      = [⟨0, 0, some 850⟩, ⟨1000, 0, some 500⟩] ∧
    fullLnRows 150 100 [⟨0, 0, none⟩, ⟨1000, 0, some 500⟩, ⟨1000, 0, none⟩] ≠
      fullLnRows 150 100 [⟨0, 0, none⟩, ⟨1000, 0, none⟩, ⟨1000, 0, some 500⟩] := by
  decide +kernel

end FullLN

/-! ## rate -/

section Rate
open Reamber.Rate

/-- the same list up to row order: same columns, same multiset of rows -/
def FramePerm (f f' : Frame) : Prop := f.cols = f'.cols ∧ f.rows.Perm f'.rows

def ListsPerm (ls ls' : List (String × Frame)) : Prop := List.Forall₂ (fun p q => p.1 = q.1 ∧ FramePerm p.2 q.2) ls ls'

def OptFramePerm : Option Frame → Option Frame → Prop
  | none, none => True
  | some f, some f' => FramePerm f f'
  | _, _ => False

/-- the same chart up to the row order of every list (osu: of the sample events too) -/
def ChartPerm (c c' : Chart) : Prop :=
  ListsPerm c.lists c'.lists ∧ OptFramePerm c.samples c'.samples ∧ c.preview = c'.preview ∧ c.extra = c'.extra

theorem scaleFrame_perm (r : Rat) {f f' : Frame} (h : FramePerm f f') : FramePerm (scaleFrame r f) (scaleFrame r f') := by
  obtain ⟨hc, hr⟩ := h
  refine ⟨hc, ?_⟩
  simp only [scaleFrame, hc]
  exact hr.map _

theorem scaleLists_perm (r : Rat) {ls ls' : List (String × Frame)} (h : ListsPerm ls ls') :
    ListsPerm (ls.map (fun p => (p.1, scaleFrame r p.2))) (ls'.map (fun p => (p.1, scaleFrame r p.2))) := by
  unfold ListsPerm at *
  induction h with
  | nil => exact List.Forall₂.nil
  | cons hab _ ih => exact List.Forall₂.cons ⟨hab.1, scaleFrame_perm r hab.2⟩ ih

theorem scaleChart_perm (g : Game) (r : Rat) {c c' : Chart} (h : ChartPerm c c') :
    ChartPerm (scaleChart g r c) (scaleChart g r c') := by
  obtain ⟨hl, hs, hp, he⟩ := h
  refine ⟨?_, ?_, ?_, he⟩
  · simp only [scaleChart]
    exact scaleLists_perm r hl
  · simp only [scaleChart]
    split
    · cases hcs : c.samples <;> cases hcs' : c'.samples <;> simp_all [OptFramePerm]
      exact scaleFrame_perm r hs
    · exact hs
  · simp only [scaleChart, hp]

/-- **rate**: `m.rate(r)` of the same chart in two row orders gives the same chart up to row order: every list
holds the same multiset of rows (all columns), the scalars are equal.  `chartOk` is the well-formedness domain of
C13's `rateChart_scales` (frames with distinct column names and full rows, the three stacked columns numeric). -/
theorem rate_perm (g : Game) (r : Rat) (c c' : Chart) (hok : chartOk g c = true) (hok' : chartOk g c' = true) (hr : r ≠ 0)
    (h : ChartPerm c c') :
    ∃ o o', rateChart g r c = .ok o ∧ rateChart g r c' = .ok o' ∧ ChartPerm o o' :=
  ⟨_, _, rateChart_scales g r c hok hr, rateChart_scales g r c' hok' hr, scaleChart_perm g r h⟩

end Rate

/-! ## hitsound_copy (partial) -/

section Hitsound
open Reamber.Hitsound

/-- the same osu chart up to the row order of its hit and hold lists -/
def HsChartPerm (c c' : Chart) : Prop := c.hits.Perm c'.hits ∧ c.holds.Perm c'.holds

theorem noteKeys_perm {c c' : Chart} (h : HsChartPerm c c') : (noteKeys c).Perm (noteKeys c') := by
  unfold noteKeys
  exact (h.1.map _).append (h.2.map _)

theorem notesOf_perm {c c' : Chart} (h : HsChartPerm c c') : (notesOf c).Perm (notesOf c') := by
  unfold notesOf
  exact h.1.append h.2

theorem fileCntNotes_perm {c c' : Chart} (h : HsChartPerm c c') (t : Rat) (f : File) :
    fileCntNotes c t f = fileCntNotes c' t f := by
  unfold fileCntNotes
  exact (notesOf_perm h).countP_eq _

theorem cnt_perm {c c' : Chart} (h : HsChartPerm c c') (p : Note → Bool) (t : Rat) : cnt p t c = cnt p t c' := by
  unfold cnt
  exact (notesOf_perm h).countP_eq _

theorem holdsHaveLength_perm {c c' : Chart} (h : HsChartPerm c c') (hl : holdsHaveLength c = true) :
    holdsHaveLength c' = true := by
  simp only [holdsHaveLength, List.all_eq_true] at *
  exact fun n hn => hl n (h.2.mem_iff.mpr hn)

theorem noSep_perm {c c' : Chart} (h : HsChartPerm c c') (hl : noSep c = true) : noSep c' = true := by
  simp only [noSep, List.all_eq_true] at *
  exact fun n hn => hl n ((notesOf_perm h).mem_iff.mpr hn)

/-- **hitsound_copy, the part that is proved.**  Source and target in two row orders, ANY sorting permutations on
both sides (`sort_values` is not stable):
* the results have the same notes (time, column, length, kind) as multisets;
* for every time `t` and sample name `f`, the number of result notes at `t` carrying `f` plus the number of event
  samples (t, f) is the same on both sides (which of several named samples overflows to the event list may differ);
* on both sides the claps / finishes / whistles at each time are bounded by the same source counts.

The full statement (with volumes, and equality instead of the common bound for the three bits) is
`hitsound_copy_perm` below; this one needs no hypothesis on the volumes. -/
theorem hitsound_copy_perm_partial (σs σt σs' σt' : List Nat) (src tgt src' tgt' : Chart)
    (h : PermsOk σs σt src tgt) (h' : PermsOk σs' σt' src' tgt')
    (hsrc : HsChartPerm src src') (htgt : HsChartPerm tgt tgt')
    (hl : holdsHaveLength tgt = true) (hsep : noSep src = true) :
    (noteKeys (copyWith σs σt src tgt)).Perm (noteKeys (copyWith σs' σt' src' tgt')) ∧
    (∀ (t : Rat) (f : File), f ≠ [] →
      fileCntNotes (copyWith σs σt src tgt) t f + fileCntEvs (copyWith σs σt src tgt) t f
        = fileCntNotes (copyWith σs' σt' src' tgt') t f + fileCntEvs (copyWith σs' σt' src' tgt') t f) ∧
    (∀ t : Rat, countsLeAt src (copyWith σs σt src tgt) t = true ∧ countsLeAt src (copyWith σs' σt' src' tgt') t = true) := by
  refine ⟨?_, ?_, ?_⟩
  · exact ((notes_preserved σs σt src tgt h hl).trans (noteKeys_perm htgt)).trans
      (notes_preserved σs' σt' src' tgt' h' (holdsHaveLength_perm htgt hl)).symm
  · intro t f hf
    rw [← file_balance σs σt src tgt h t f hf,
        ← file_balance σs' σt' src' tgt' h' t f hf]
    exact fileCntNotes_perm hsrc t f
  · intro t
    refine ⟨counts_le σs σt src tgt h t, ?_⟩
    have := counts_le σs' σt' src' tgt' h' t
    simpa only [countsLeAt, cnt_perm hsrc] using this

/-! ### hitsound_copy in full -/

theorem concatNotes_perm {c c' : Chart} (h : HsChartPerm c c') : (concatNotes c).Perm (concatNotes c') := by
  unfold concatNotes
  exact (h.1.map _).append h.2

theorem srcSorted_perm {σs σt σs' σt' : List Nat} {src tgt src' tgt' : Chart} (h : PermsOk σs σt src tgt)
    (h' : PermsOk σs' σt' src' tgt') (hsrc : HsChartPerm src src') : (srcSorted σs src).Perm (srcSorted σs' src') := by
  unfold srcSorted
  exact ((Hitsound.gather_perm _ _ h.hs h.ls).trans ((concatNotes_perm hsrc).filter _)).trans
    (Hitsound.gather_perm _ _ h'.hs h'.ls).symm

theorem df0_perm {σs σt σs' σt' : List Nat} {src tgt src' tgt' : Chart} (h : PermsOk σs σt src tgt)
    (h' : PermsOk σs' σt' src' tgt') (htgt : HsChartPerm tgt tgt') : (df0 σt tgt).Perm (df0 σt' tgt') := by
  have hl : σt.length = (concatNotes (resetSamples tgt)).length := by
    rw [h.lt]; simp [concatNotes, resetSamples]
  have hl' : σt'.length = (concatNotes (resetSamples tgt')).length := by
    rw [h'.lt]; simp [concatNotes, resetSamples]
  have hr : HsChartPerm (resetSamples tgt) (resetSamples tgt') := ⟨htgt.1.map _, htgt.2.map _⟩
  unfold df0
  exact ((Hitsound.gather_perm _ _ h.ht hl).trans (concatNotes_perm hr)).trans (Hitsound.gather_perm _ _ h'.ht hl').symm

/-- event samples `(u, f, w)` of a chart -/
def evCnt (c : Chart) (u : Rat) (f : File) (w : Int) : Nat :=
  c.samples.countP (fun e => e.offset == u && (e.file == f && e.volume == w))

theorem evCnt_out (σs σt : List Nat) (src tgt : Chart) (u : Rat) (f : File) (w : Int) :
    evCnt (copyWith σs σt src tgt) u f w
      = ((queue (srcSorted σs src) u).drop ((df0 σt tgt).filter (fun n => n.offset == u)).length).countP (peFile f w) := by
  unfold evCnt
  rw [copyWith_eq]
  have : ∀ (l : List Ev), l.countP (fun e => e.offset == u && (e.file == f && e.volume == w))
      = (l.filter (fun e => e.offset == u)).countP (fun e => e.file == f && e.volume == w) := by
    intro l
    rw [List.countP_filter]
    apply List.countP_congr
    intro e _
    simp [Bool.and_comm]
  rw [this]
  simp only [finalEvs_at, evsOf_countP_vol]

theorem clampVol_nonneg {v : Int} (h : 0 ≤ v) : clampVol v = v := by
  unfold clampVol
  split <;> omega

/-- **hitsound_copy, in full.**  Source and target in two row orders, ANY sorting permutations on both sides.  Then
* the results have the same notes (time, column, length, kind) as multisets;
* for every time `u`, every sound bit `m` (clap, finish, whistle) and every volume `w`: the same number of result notes
  at `u` carry bit `m` at volume `w`;
* for every time `u`, sample name `f` and volume `w`: the number of result notes at `u` carrying `f` at volume `w` plus
  the number of event samples `(u, f, w)` is the same.
That is: the multisets of (time, clap|finish|whistle|name, volume) over result notes and event samples together are equal
(which of several named samples overflows to the event list may differ — it follows the row order by design of the loop).
Hypotheses: those of C18 (target holds have a length; no source name contains `;`) and source volumes are not negative
(a negative volume is clamped to 0 on a note but kept on an event sample, so the split would show). -/
theorem hitsound_copy_perm (σs σt σs' σt' : List Nat) (src tgt src' tgt' : Chart)
    (h : PermsOk σs σt src tgt) (h' : PermsOk σs' σt' src' tgt')
    (hsrc : HsChartPerm src src') (htgt : HsChartPerm tgt tgt')
    (hl : holdsHaveLength tgt = true) (hsep : noSep src = true) (hv : ∀ n ∈ notesOf src, 0 ≤ n.volume) :
    (noteKeys (copyWith σs σt src tgt)).Perm (noteKeys (copyWith σs' σt' src' tgt')) ∧
    (∀ (u : Rat) (m : Nat) (w : Int), hasBit 0 m = false →
      cnt (fun n => hasBit n.hs m && n.volume == w) u (copyWith σs σt src tgt)
        = cnt (fun n => hasBit n.hs m && n.volume == w) u (copyWith σs' σt' src' tgt')) ∧
    (∀ (u : Rat) (f : File) (w : Int), f ≠ [] →
      cnt (fun n => n.file == f && n.volume == w) u (copyWith σs σt src tgt) + evCnt (copyWith σs σt src tgt) u f w
        = cnt (fun n => n.file == f && n.volume == w) u (copyWith σs' σt' src' tgt')
          + evCnt (copyWith σs' σt' src' tgt') u f w) := by
  have hS := srcSorted_perm h h' hsrc
  have hns : NoSepL (srcSorted σs src) := noSepL_srcSorted σs σt src tgt h hsep
  have hns' : NoSepL (srcSorted σs' src') := noSepL_srcSorted σs' σt' src' tgt' h' (noSep_perm hsrc hsep)
  have hk : ∀ u : Rat, ((df0 σt tgt).filter (fun n => n.offset == u)).length
      = ((df0 σt' tgt').filter (fun n => n.offset == u)).length :=
    fun u => ((df0_perm h h' htgt).filter _).length_eq
  -- source volumes, seen from the sorted rows
  have hvS : ∀ (σ : List Nat) (τ : List Nat) (s t : Chart), PermsOk σ τ s t → (∀ n ∈ notesOf s, 0 ≤ n.volume) →
      ∀ n ∈ srcSorted σ s, 0 ≤ n.volume := by
    intro σ τ s t hp hvs n hn
    rw [srcSorted, (Hitsound.gather_perm _ _ hp.hs hp.ls).mem_iff, List.mem_filter] at hn
    have hn := hn.1
    simp only [concatNotes, List.mem_append, List.mem_map] at hn
    rcases hn with ⟨x, hx, rfl⟩ | hn
    · exact hvs x (by simp [notesOf, hx])
    · exact hvs n (by simp [notesOf, hn])
  have hv' : ∀ n ∈ notesOf src', 0 ≤ n.volume := fun n hn => hv n ((notesOf_perm hsrc).mem_iff.mpr hn)
  refine ⟨(hitsound_copy_perm_partial σs σt σs' σt' src tgt src' tgt' h h' hsrc htgt hl hsep).1, ?_, ?_⟩
  · intro u m w hm
    have key : ∀ (σ τ : List Nat) (s t : Chart), PermsOk σ τ s t →
        cnt (fun n => hasBit n.hs m && n.volume == w) u (copyWith σ τ s t)
          = ((queue (srcSorted σ s) u).take ((df0 τ t).filter (fun n => n.offset == u)).length).countP (ppBit m w) := by
      intro σ τ s t hp
      rw [cnt_out]
      apply zipApply_countP _ _ _ _ _ _ (df0_at_reset σ τ s t hp u)
      · intro r hr; simp [hr.1, hm]
      · intro r p hr
        cases p with
        | dflt v vol => rfl
        | file g vol => simp [applyP, ppBit, hr.1, hm]
    rw [key σs σt src tgt h, key σs' σt' src' tgt' h', hk u]
    apply queue_take_countP_dflt hS hns u
    intro p hp
    cases p with
    | dflt _ _ => rfl
    | file _ _ => simp [ppBit] at hp
  · intro u f w hf
    have key : ∀ (σ τ : List Nat) (s t : Chart), PermsOk σ τ s t → NoSepL (srcSorted σ s) →
        (∀ n ∈ srcSorted σ s, 0 ≤ n.volume) →
        cnt (fun n => n.file == f && n.volume == w) u (copyWith σ τ s t) + evCnt (copyWith σ τ s t) u f w
          = ((srcSorted σ s).filter (fun n => n.offset == u)).countP (fun n => n.file == f && n.volume == w) := by
      intro σ τ s t hp hnsep hvol
      have e1 : cnt (fun n => n.file == f && n.volume == w) u (copyWith σ τ s t)
          = ((queue (srcSorted σ s) u).take ((df0 τ t).filter (fun n => n.offset == u)).length).countP (ppFile f w) := by
        rw [cnt_out]
        apply zipApply_countP _ _ _ _ _ _ (df0_at_reset σ τ s t hp u)
        · intro r hr; simp [hr.2.1, hf]
        · intro r p hr
          cases p with
          | dflt v vol => simp [applyP, ppFile, hr.2.1, hf]
          | file g vol => rfl
      have e2 : ((queue (srcSorted σ s) u).take ((df0 τ t).filter (fun n => n.offset == u)).length).countP (ppFile f w)
          = ((queue (srcSorted σ s) u).take ((df0 τ t).filter (fun n => n.offset == u)).length).countP (peFile f w) := by
        apply List.countP_congr
        intro p hp
        have hpq := List.mem_of_mem_take hp
        obtain ⟨n, hn, hnv⟩ := queue_vol _ u p hpq
        cases p with
        | dflt _ _ => simp [ppFile, peFile]
        | file g vol =>
          have hvol : 0 ≤ vol := by
            have := hvol n hn
            simp only [pVol] at hnv
            omega
          simp [ppFile, peFile, clampVol_nonneg hvol]
      rw [e1, e2, evCnt_out, ← List.countP_append, List.take_append_drop, queue_peFile _ hnsep u f hf w]
    rw [key σs σt src tgt h hns (hvS σs σt src tgt h hv), key σs' σt' src' tgt' h' hns' (hvS σs' σt' src' tgt' h' hv')]
    exact (hS.filter _).countP_eq _

/-- non-vacuity: two claps and a named sample at time 0 in two row orders, one target note -/
def exSrcA : Chart := ⟨[⟨0, 0, none, 2, 0, 0, 0, 20, []⟩, ⟨0, 1, none, 0, 0, 0, 0, 20, [97]⟩, ⟨0, 2, none, 2, 0, 0, 0, 30, []⟩], [], []⟩
def exSrcB : Chart := ⟨[⟨0, 2, none, 2, 0, 0, 0, 30, []⟩, ⟨0, 1, none, 0, 0, 0, 0, 20, [97]⟩, ⟨0, 0, none, 2, 0, 0, 0, 20, []⟩], [], []⟩
def exTgt1 : Chart := ⟨[⟨0, 0, none, 0, 0, 0, 0, 0, []⟩], [], []⟩

example : PermsOk [0, 1, 2] [0] exSrcA exTgt1 ∧ PermsOk [2, 0, 1] [0] exSrcB exTgt1 ∧ HsChartPerm exSrcA exSrcB ∧
    HsChartPerm exTgt1 exTgt1 ∧ holdsHaveLength exTgt1 = true ∧ noSep exSrcA = true ∧
    (∀ n ∈ notesOf exSrcA, 0 ≤ n.volume) := by
  refine ⟨⟨List.Perm.refl _, by decide, List.Perm.refl _, by decide⟩,
    ⟨by unfold Timing.IsPerm; decide, by decide, List.Perm.refl _, by decide⟩, ⟨by decide, List.Perm.refl _⟩,
    ⟨List.Perm.refl _, List.Perm.refl _⟩, by decide, by decide, by decide⟩

/-- D40 (found as N15a, since repaired), the mechanism: on an object-dtype column pandas evaluates `hitsound_set & HS_CLAP` as a
logical and of truth values, and `True == 2` / `False == 2` are both false — no bit is ever found -/
def hasBitObject (hs m : Nat) : Bool := (if (hs ≠ 0 ∧ m ≠ 0) then 1 else 0) == m

theorem n15a_object_dtype_counterexample :
    (∀ hs : Nat, hasBitObject hs hsClap = false ∧ hasBitObject hs hsFinish = false ∧ hasBitObject hs hsWhistle = false) ∧
    hasBit 3 hsClap = true := by
  refine ⟨fun hs => ?_, by decide⟩
  unfold hasBitObject hsClap hsFinish hsWhistle
  by_cases h : hs = 0 <;> simp [h]

end Hitsound

/-! ## converters -/

section Converters
open Reamber.Convert

/-- **converters (one pass of the body), all 17 shipped entry points**: two source maps that hold the same hits, holds
and tempo points up to row order (any row labels) are converted to charts that hold the same hits, holds and tempo
points up to row order — over the columns the converters carry (time, column, length, bpm; column shifted alike). -/
theorem convert_one_perm : ∀ c ∈ Generated.converters, ∀ (src src' : Src) (cur cur' : SrcMap) (k : Int) (t t' : TChart),
    srcMapOk cur = true → srcMapOk cur' = true →
    convOne tables c src cur k = .ok t → convOne tables c src' cur' k = .ok t' → SrcKeyPerm cur cur' →
    (∀ rt rt', projRows t.hits keysHits = some rt → projRows t'.hits keysHits = some rt' → rt.Perm rt') ∧
    (∀ rt rt', projRows t.holds keysHolds = some rt → projRows t'.holds keysHolds = some rt' → rt.Perm rt') ∧
    (∀ rt rt', projRows t.bpms keysBpms = some rt → projRows t'.bpms keysBpms = some rt' → rt.Perm rt') := by
  intro c hc src src' cur cur' k t t' hok hok' h h' hrel
  exact contentOk_perm (convOne_content tables c src cur k t (table_static_ok c hc) hok h)
    (convOne_content tables c src' cur' k t' (table_static_ok c hc) hok' h') hrel

/-- **converters, stated on row permutations**: `cur'` is `cur` with the rows of every list re-ordered (each list by
its own permutation, any row labels, `SrcRowPerm`).  Then every shipped converter gives charts with the same hits,
holds and tempo points up to row order. -/
theorem convert_one_rowperm : ∀ c ∈ Generated.converters, ∀ (src src' : Src) (cur cur' : SrcMap) (k : Int) (t t' : TChart),
    srcMapOk cur = true → srcMapOk cur' = true →
    convOne tables c src cur k = .ok t → convOne tables c src' cur' k = .ok t' → SrcRowPerm cur cur' →
    (∀ rt rt', projRows t.hits keysHits = some rt → projRows t'.hits keysHits = some rt' → rt.Perm rt') ∧
    (∀ rt rt', projRows t.holds keysHolds = some rt → projRows t'.holds keysHolds = some rt' → rt.Perm rt') ∧
    (∀ rt rt', projRows t.bpms keysBpms = some rt → projRows t'.bpms keysBpms = some rt' → rt.Perm rt') :=
  fun c hc src src' cur cur' k t t' hok hok' h h' hrel =>
    convert_one_perm c hc src src' cur cur' k t t' hok hok' h h' (srcKeyPerm_of_rowPerm hrel)

/-- non-vacuity: a two-row hit list and the same list reversed under other labels -/
example : RowPermOf [1, 0]
    ⟨[0, 1], [("offset", [.num 10, .num 20]), ("column", [.num 0, .num 3])]⟩
    ⟨[7, 5], [("offset", [.num 20, .num 10]), ("column", [.num 3, .num 0])]⟩ :=
  ⟨List.Perm.swap _ _ _, rfl, rfl, rfl⟩

end Converters

/-! ## the osu writer -/

section OsuWriter

/-- the same osu chart up to the row order of its four lists (the sample events live in the metadata, in order) -/
def OsuChartPerm (c c' : Osu.Chart) : Prop :=
  c.md = c'.md ∧ c.bpms.Perm c'.bpms ∧ c.svs.Perm c'.svs ∧ c.hits.Perm c'.hits ∧ c.holds.Perm c'.holds

theorem osu_insertBy_perm {α} (le : α → α → Bool) (x : α) (l : List α) : (Osu.insertBy le x l).Perm (x :: l) := by
  induction l with
  | nil => simp [Osu.insertBy]
  | cons y ys ih =>
    simp only [Osu.insertBy]
    split
    · exact List.Perm.refl _
    · exact (List.Perm.cons y ih).trans (List.Perm.swap x y ys)

theorem osu_isort_perm {α} (le : α → α → Bool) (l : List α) : (Osu.isort le l).Perm l := by
  induction l with
  | nil => simp [Osu.isort]
  | cons x xs ih =>
    have : Osu.isort le (x :: xs) = Osu.insertBy le x (Osu.isort le xs) := rfl
    rw [this]
    exact (osu_insertBy_perm le x _).trans (List.Perm.cons x ih)

theorem osu_sortedObjs_perm {c c' : Osu.Chart} (h : OsuChartPerm c c') : (Osu.sortedObjs c).Perm (Osu.sortedObjs c') := by
  unfold Osu.sortedObjs
  exact ((osu_isort_perm _ _).trans ((h.2.2.2.2.map _).append (h.2.2.2.1.map _))).trans (osu_isort_perm _ _).symm

theorem osu_quantize_perm (uni : Osu.Str → Osu.Str) {c c' : Osu.Chart} (h : OsuChartPerm c c') :
    OsuChartPerm (Osu.quantize uni c) (Osu.quantize uni c') := by
  have hs := osu_sortedObjs_perm h
  refine ⟨?_, ?_, ?_, ?_, ?_⟩
  · simp only [Osu.quantize, h.1]
  · exact h.2.1.map _
  · exact h.2.2.1
  · exact (hs.filterMap _).map _
  · exact (hs.filterMap _).map _

/-- **OsuMap.write**: the texts written for two row orders of one chart both read back (the reader model of C01,
whole text: split at line breaks, sections, metadata loop, classifiers, `read_string`s), and what they read back as is
the same chart up to row order: same metadata and sample events, same multisets of hits, holds, tempo points and SVs
(times truncated to whole ms by the format).  Hypotheses: those of C01's `read_writeText`, on the first chart (they
are properties of the rows and of the metadata, so they hold for the second). -/
theorem write_osu_perm (R : Osu.Render) (c c' : Osu.Chart) (h : OsuChartPerm c c')
    (hk : 0 < Osu.pyTrunc c.md.circleSize) (hk' : Osu.pyTrunc c.md.circleSize ≤ 256)
    (hhits : ∀ x ∈ c.hits, Osu.ObjOk2 (Osu.pyTrunc c.md.circleSize) (.hit x))
    (hholds : ∀ x ∈ c.holds, Osu.ObjOk2 (Osu.pyTrunc c.md.circleSize) (.hold x))
    (hb : ∀ b ∈ c.bpms, Osu.BpmOk2 R b) (hs : ∀ b ∈ c.svs, Osu.SvOk2 R b)
    (hm : Osu.MetaOk R c.md) (hnl : ∀ tl ∈ Osu.writeMeta c.md, ∀ t ∈ tl, '\n' ∉ R.tok t) :
    ∃ q q', Osu.readText (Osu.writeText R c) = .ok q ∧ Osu.readText (Osu.writeText R c') = .ok q' ∧ OsuChartPerm q q' := by
  obtain ⟨hmd, hpb, hps, hph, hpl⟩ := h
  refine ⟨_, _, Osu.read_writeText R c hk hk' hhits hholds hb hs hm hnl,
    Osu.read_writeText R c' (hmd ▸ hk) (hmd ▸ hk') ?_ ?_ ?_ ?_ (hmd ▸ hm) (hmd ▸ hnl),
    osu_quantize_perm R.uni ⟨hmd, hpb, hps, hph, hpl⟩⟩
  · intro x hx; rw [← hmd]; exact hhits x (hph.mem_iff.mpr hx)
  · intro x hx; rw [← hmd]; exact hholds x (hpl.mem_iff.mpr hx)
  · intro b hb'; exact hb b (hpb.mem_iff.mpr hb')
  · intro b hb'; exact hs b (hps.mem_iff.mpr hb')

end OsuWriter

/-! ## the StepMania writer (partial) -/

section SMWriter
open Reamber.Timing Reamber.SM

/-- the objects of a chart as `SMMap.write` slots them (measure, numerator, denominator, column, symbol), before the
rows of each measure are rendered -/
def smSlots (c : WChart) : Except Timing.Err (List Slot) :=
  (beats defaultGrid (toTimingMap c.bpms) ((writeOrder c.notes).map (·.1))).map fun bs =>
    ((writeOrder c.notes).zip bs).map fun ob => slotOf ob.2 ob.1.2.1 ob.1.2.2

theorem writeChartRows_of_slots (c : WChart) (s : List Slot) (h : smSlots c = .ok s) :
    writeChartRows c = (match getKeys c.chartType with
      | none => if s.isEmpty then .ok [] else .error .other
      | some keys => writeLoop keys s (-1) (measuresSorted s)) := by
  unfold smSlots at h
  cases hb : beats defaultGrid (toTimingMap c.bpms) ((writeOrder c.notes).map (·.1)) with
  | error e => simp [hb, Except.map] at h
  | ok bs =>
    simp only [hb, Except.map, Except.ok.injEq] at h
    subst h
    unfold writeChartRows
    simp only [hb, bind, Except.bind]
    cases getKeys c.chartType <;> rfl

/-- **SMMapSet.write, the part that is proved.**  The tempo rows of the chart are, in ANY row order, the stored form of a
tempo-change list in C10's domain (4-beat metronome, distinct times), every object and tempo time is on the snap grid.
For a second chart with the same notes and the same tempo rows in other row orders:
* the slots of the objects (measure, position in the measure, column, symbol) are the same multiset — and
  `writeChartRows` is a function of the slots (`writeChartRows_of_slots`);
* the written `#BPMS` pairs (beat rounded to 6 decimals = bpm) are the same multiset — the positional pairing
  `zip(bpm_beats, bpms)` that the property names pairs every tempo row with its own beat in both orders.

FULL STATEMENT (not proved): the two written texts have the same by-the-book denotation.  Missing: that the rendering
of a measure (`fillMeasure`: capped running lcm of the denominators, cell writes where the last write wins) does not
depend on the order of the slots — true without the cap and without two objects in one cell (C03: `foldl_capLcm_eq`,
`cells_no_collision`), not composed here; the header's other lines do not depend on the lists at all. -/
theorem write_sm_perm_partial (t0 : Rat) (cs : List BcSnap)
    (hwf : wfChanges cs = true) (hs : sortedSnaps cs = true) (h0 : firstAtZero cs = true)
    (hgc : gridCompatible (grid defaultMaxDiv) cs = true) (hm : metronomeOk cs = true)
    (hM : ∀ c ∈ cs, c.met = 4) (hd : DistinctOffsets (tmOf t0 cs)) (c c' : WChart)
    (hb : (tmOf t0 cs).Perm (toTimingMap c.bpms)) (hbp : c.bpms.Perm c'.bpms) (hn : c.notes.Perm c'.notes)
    (hts : ∀ t ∈ (writeOrder c.notes).map (·.1), OnGridAt (grid defaultMaxDiv) t0 cs t)
    (htb : ∀ t ∈ c.bpms.map (·.1), OnGridAt (grid defaultMaxDiv) t0 cs t) :
    (∃ s s', smSlots c = .ok s ∧ smSlots c' = .ok s' ∧ s.Perm s') ∧
    (∀ (h h' : WHeader) (rest rest' : List WChart) (w w' : Written),
      SM.write h (c :: rest) = .ok w → SM.write h' (c' :: rest') = .ok w' → w.bpms.Perm w'.bpms) := by
  have hg : defaultGrid.toList = grid defaultMaxDiv := by simp [defaultGrid]
  have hb' : (tmOf t0 cs).Perm (toTimingMap c'.bpms) := hb.trans (hbp.map _)
  have hwo := writeOrder_perm hn
  have B : ∀ (tm' : List BcOff), (tmOf t0 cs).Perm tm' → ∀ ts : List Rat,
      (∀ t ∈ ts, OnGridAt (grid defaultMaxDiv) t0 cs t) → beats defaultGrid tm' ts = .ok (ts.map (beatAt t0 cs)) :=
    fun tm' hp ts ht => beats_any_order defaultGrid (gridOK_grid (by decide)) t0 cs hwf hs h0 (by rw [hg]; exact hgc) hm 4 hM
      tm' hp hd ts (by rw [hg]; exact ht)
  have hts' : ∀ t ∈ (writeOrder c'.notes).map (·.1), OnGridAt (grid defaultMaxDiv) t0 cs t :=
    fun t ht => hts t ((hwo.map _).mem_iff.mpr ht)
  have htb' : ∀ t ∈ c'.bpms.map (·.1), OnGridAt (grid defaultMaxDiv) t0 cs t :=
    fun t ht => htb t ((hbp.map _).mem_iff.mpr ht)
  constructor
  · have S : ∀ (cc : WChart), (tmOf t0 cs).Perm (toTimingMap cc.bpms) →
        (∀ t ∈ (writeOrder cc.notes).map (·.1), OnGridAt (grid defaultMaxDiv) t0 cs t) →
        smSlots cc = .ok ((writeOrder cc.notes).map fun o => slotOf (beatAt t0 cs o.1) o.2.1 o.2.2) := by
      intro cc hcb hct
      simp only [smSlots, B _ hcb _ hct, Except.map, List.map_map, zip_self_map]
      rfl
    exact ⟨_, _, S c hb hts, S c' hb' hts', hwo.map _⟩
  · intro h h' rest rest' w w' hw hw'
    have e : ∀ (hh : WHeader) (cc : WChart) (rr : List WChart) (ww : Written),
        beats defaultGrid (toTimingMap cc.bpms) (cc.bpms.map (·.1)) = .ok ((cc.bpms.map (·.1)).map (beatAt t0 cs)) →
        SM.write hh (cc :: rr) = .ok ww → ww.bpms = cc.bpms.map (fun p => (round6 (beatAt t0 cs p.1), p.2)) := by
      intro hh cc rr ww hbb hww
      unfold SM.write at hww
      simp only [hbb, bind, Except.bind] at hww
      split at hww
      · cases hww
      · cases hww
        simp only [List.map_map, zip_map_self]
        rfl
    rw [e h c rest w (B _ hb _ htb) hw, e h' c' rest' w' (B _ hb' _ htb') hw']
    exact hbp.map _

/-- **SMMap.write (the rows of the chart) does not depend on the row order** of the tempo list and of the note lists:
hypotheses of `write_sm_perm_partial`, plus what the property's quantifier grants per measure (`MeasureOk`: the lcm of the
denominators fits the 384 cap, objects inside the grid, no two objects in one cell — then `cells_no_collision` makes the
grid a function of the SET of cells). -/
theorem write_sm_rows_perm (t0 : Rat) (cs : List BcSnap)
    (hwf : wfChanges cs = true) (hs : sortedSnaps cs = true) (h0 : firstAtZero cs = true)
    (hgc : gridCompatible (grid defaultMaxDiv) cs = true) (hm : metronomeOk cs = true)
    (hM : ∀ c ∈ cs, c.met = 4) (hd : DistinctOffsets (tmOf t0 cs)) (c c' : WChart)
    (hct : c'.chartType = c.chartType)
    (hb : (tmOf t0 cs).Perm (toTimingMap c.bpms)) (hbp : c.bpms.Perm c'.bpms) (hn : c.notes.Perm c'.notes)
    (hts : ∀ t ∈ (writeOrder c.notes).map (·.1), OnGridAt (grid defaultMaxDiv) t0 cs t)
    (htb : ∀ t ∈ c.bpms.map (·.1), OnGridAt (grid defaultMaxDiv) t0 cs t)
    (hok : ∀ keys s, getKeys c.chartType = some keys → smSlots c = .ok s →
      ∀ m : Int, MeasureOk keys (s.filter (fun x => x.measure = m))) :
    writeChartRows c = writeChartRows c' := by
  obtain ⟨⟨s, s', e, e', hp⟩, _⟩ :=
    write_sm_perm_partial t0 cs hwf hs h0 hgc hm hM hd c c' hb hbp hn hts htb
  rw [writeChartRows_of_slots c s e, writeChartRows_of_slots c' s' e', hct]
  cases hk : getKeys c.chartType with
  | none =>
    have : s.isEmpty = s'.isEmpty := by
      cases s <;> cases s' <;> simp_all
    simp only [this]
  | some keys =>
    simp only []
    rw [measuresSorted_perm hp]
    exact writeLoop_perm keys hp (hok keys s hk e) _ _

/-- non-vacuity of `MeasureOk`: three objects of one 4-key measure on quarter and eighth positions, distinct cells -/
example : MeasureOk 4 [⟨0, 0, 4, 0, '1'⟩, ⟨0, 1, 4, 2, '1'⟩, ⟨0, 1, 8, 1, '2'⟩] :=
  ⟨by decide, by decide, by decide, by decide⟩

/-- **SMMapSet.write**: the set written for a chart and for the same chart with its tempo rows and its notes in other
row orders: the same measures (the rows of the chart, cell by cell), the same header lines, and the same multiset of
`#BPMS` pairs — hence the same by-the-book denotation (the denotation sorts `#BPMS` by beat, `Spec/SM.changesOf`). -/
theorem write_sm_perm (t0 : Rat) (cs : List BcSnap)
    (hwf : wfChanges cs = true) (hs : sortedSnaps cs = true) (h0 : firstAtZero cs = true)
    (hgc : gridCompatible (grid defaultMaxDiv) cs = true) (hm : metronomeOk cs = true)
    (hM : ∀ c ∈ cs, c.met = 4) (hd : DistinctOffsets (tmOf t0 cs)) (c : WChart) (bpms' : List (Rat × Rat)) (notes' : List Note)
    (hb : (tmOf t0 cs).Perm (toTimingMap c.bpms)) (hbp : c.bpms.Perm bpms') (hn : c.notes.Perm notes')
    (hts : ∀ t ∈ (writeOrder c.notes).map (·.1), OnGridAt (grid defaultMaxDiv) t0 cs t)
    (htb : ∀ t ∈ c.bpms.map (·.1), OnGridAt (grid defaultMaxDiv) t0 cs t)
    (hok : ∀ keys s, getKeys c.chartType = some keys → smSlots c = .ok s →
      ∀ m : Int, MeasureOk keys (s.filter (fun x => x.measure = m)))
    (h : WHeader) (w : Written) (hw : SM.write h [c] = .ok w) :
    ∃ w', SM.write h [{ c with bpms := bpms', notes := notes' }] = .ok w' ∧ w'.charts = w.charts ∧ w'.bpms.Perm w.bpms ∧
      w'.strs = w.strs ∧ w'.offsetSec = w.offsetSec ∧ w'.sampleStartSec = w.sampleStartSec ∧
      w'.sampleLengthSec = w.sampleLengthSec ∧ w'.selectable = w.selectable := by
  have hrows := write_sm_rows_perm t0 cs hwf hs h0 hgc hm hM hd c { c with bpms := bpms', notes := notes' } rfl hb hbp hn
    hts htb hok
  have hg : defaultGrid.toList = grid defaultMaxDiv := by simp [defaultGrid]
  have B : ∀ (tm' : List BcOff), (tmOf t0 cs).Perm tm' → ∀ ts : List Rat,
      (∀ t ∈ ts, OnGridAt (grid defaultMaxDiv) t0 cs t) → beats defaultGrid tm' ts = .ok (ts.map (beatAt t0 cs)) :=
    fun tm' hp ts ht => beats_any_order defaultGrid (gridOK_grid (by decide)) t0 cs hwf hs h0 (by rw [hg]; exact hgc) hm 4 hM
      tm' hp hd ts (by rw [hg]; exact ht)
  have htb' : ∀ t ∈ bpms'.map (·.1), OnGridAt (grid defaultMaxDiv) t0 cs t :=
    fun t ht => htb t ((hbp.map _).mem_iff.mpr ht)
  have b1 := B (toTimingMap c.bpms) hb _ htb
  have b2 : beats defaultGrid (toTimingMap bpms') (bpms'.map (·.1)) = .ok ((bpms'.map (·.1)).map (beatAt t0 cs)) :=
    B (toTimingMap bpms') (hb.trans (hbp.map _)) _ htb'
  unfold SM.write at hw ⊢
  simp only [b1, b2, bind, Except.bind, mapE] at hw ⊢
  rw [← hrows]
  cases hr : writeChartRows c with
  | error e => simp [hr] at hw
  | ok rows =>
    simp only [hr, Except.ok.injEq] at hw ⊢
    subst hw
    refine ⟨_, rfl, rfl, ?_, rfl, rfl, rfl, rfl, rfl⟩
    simp only [List.map_map, zip_map_self]
    exact (hbp.map _).symm

end SMWriter

/-! ## the BMS writer -/

section BMSWriter
open Reamber.Timing Reamber.BMS

-- `bmsNoteRows`, `bmsTempoRows`, `BmsOk` and `writeCells_objects` live in `Lemmas/PermInvBMS.lean` (C05's `bms_write_read`
-- assembly uses them too)

/-- non-vacuity of `BmsOk` and of the tempo hypothesis: two tempo rows stored out of order, two hits, one hold, layout BME -/
def exBmsCs : List BcSnap := [⟨120, 4, ⟨0, 0, some 4⟩⟩, ⟨240, 4, ⟨1, 0, some 4⟩⟩]
def exBmsChart : BMS.WChart :=
  { title := [], artist := [], version := [], lnEnd := ['Z', 'Z'], samples := [], misc := [],
    bpms := [⟨240, 4, 2000⟩, ⟨120, 4, 0⟩], hits := [⟨0, [], 500⟩, ⟨1, [], 2250⟩], holds := [⟨2, [], 1000, 1500⟩] }

example : ∃ lay, bookLayout "BME" = some lay ∧ BmsOk exBmsCs lay exBmsChart ∧ exBmsChart.bpms.Perm (tmOf 0 exBmsCs) := by
  refine ⟨_, rfl, ⟨by decide +kernel, by decide +kernel, by decide +kernel, by decide +kernel⟩, by decide +kernel⟩

/-- **BMSMap.write, two row orders of one chart.**  `c'` is `c` with its tempo rows, hits and holds in other row
orders.  Both `_write_notes` succeed; the objects of the two files on the note channels (hits, hold heads, LNOBJ tails:
channel, measure, beat, key-sound id) are the same multiset; and the tempo objects, read back through the `#BPMxx` table
that is numbered in row order, sort to the same tempo list `cs` in both files (C05 `written_tempo_list`).  The LINES may
differ (`find_lcm` picks line denominators in row order); the denoted objects do not. -/
theorem write_bms_perm (cs : List BcSnap) (hwf : wfChanges cs = true) (hs : strictSnaps cs = true)
    (h0 : firstAtZero cs = true) (hgc : gridCompatible (grid defaultMaxDiv) cs = true) (hm : metronomeOk cs = true)
    (lay : Layout) (dflt : Bytes) (c : BMS.WChart) (bpms' : List BcOff) (hits' : List HitOut) (holds' : List WHold)
    (hp : c.bpms.Perm (tmOf 0 cs)) (hb : c.bpms.Perm bpms') (hh : c.hits.Perm hits') (hl : c.holds.Perm holds')
    (hok : BmsOk cs lay c) (hdec : ∀ b ∈ c.bpms, roundDec 3 b.bpm = b.bpm) :
    ∃ cells cells' N N' T T',
      writeCells defaultGrid lay dflt c = .ok cells ∧
      writeCells defaultGrid lay dflt { c with bpms := bpms', hits := hits', holds := holds' } = .ok cells' ∧
      cells.map cellObj = N ++ T ∧ cells'.map cellObj = N' ++ T' ∧ N.Perm N' ∧
      T.length = c.bpms.length ∧ T'.length = c.bpms.length ∧
      (∃ sn, snaps defaultGrid (sortBcOff c.bpms) (c.bpms.map (·.offset)) = .ok sn ∧
        sortBcSnap ((c.bpms.zip sn).map (fun p => (⟨roundDec 3 p.1.bpm, p.1.met, { p.2 with met := some p.1.met }⟩ : BcSnap))) = cs) ∧
      (∃ sn', snaps defaultGrid (sortBcOff bpms') (bpms'.map (·.offset)) = .ok sn' ∧
        sortBcSnap ((bpms'.zip sn').map (fun p => (⟨roundDec 3 p.1.bpm, p.1.met, { p.2 with met := some p.1.met }⟩ : BcSnap))) = cs) := by
  have hok' : BmsOk cs lay { c with bpms := bpms', hits := hits', holds := holds' } :=
    ⟨fun b hb' => hok.met b (hb.mem_iff.mpr hb'),
     ⟨fun h hh' => hok.cols.1 h (hh.mem_iff.mpr hh'), fun h hh' => hok.cols.2 h (hl.mem_iff.mpr hh')⟩,
     ⟨fun h hh' => hok.times.1 h (hh.mem_iff.mpr hh'), fun h hh' => hok.times.2.1 h (hl.mem_iff.mpr hh'),
      fun b hb' => hok.times.2.2 b (hb.mem_iff.mpr hb')⟩,
     hok.met4⟩
  obtain ⟨cells, e, o⟩ := writeCells_objects cs hwf hs h0 hgc hm lay dflt c hp hok
  obtain ⟨cells', e', o'⟩ := writeCells_objects cs hwf hs h0 hgc hm lay dflt
    { c with bpms := bpms', hits := hits', holds := holds' } (hb.symm.trans hp) hok'
  obtain ⟨_, sn, t1, _, t2⟩ := written_tempo_list cs hwf hs h0 hgc hm c.bpms hp hdec
  obtain ⟨_, sn', t1', _, t2'⟩ := written_tempo_list cs hwf hs h0 hgc hm bpms' (hb.symm.trans hp)
    (fun b hb' => hdec b (hb.mem_iff.mpr hb'))
  refine ⟨cells, cells', _, _, _, _, e, e', o, o', ?_, ?_, ?_, ⟨sn, t1, t2⟩, ⟨sn', t1', t2'⟩⟩
  · simp only [bmsNoteRows, List.map_append]
    exact (((hh.map _).map _).append ((hl.map _).map _)).append ((hl.map _).map _)
  · have := congrArg List.length (zipIdxFrom_map_snd (c.bpms.map (fun b => posFn cs b.offset)) 0)
    simp only [List.length_map] at this
    simp only [bmsTempoRows, List.length_map, this]
  · have := congrArg List.length (zipIdxFrom_map_snd (bpms'.map (fun b => posFn cs b.offset)) 0)
    simp only [List.length_map] at this
    simp only [bmsTempoRows, List.length_map, this, hb.length_eq]

end BMSWriter

/-! ## the Quaver writer -/

section QuaWriter
open Reamber.Qua

/-- the same Quaver chart up to the row order of its four lists -/
def QuaChartPerm (c c' : Qua.Chart) : Prop :=
  c.info = c'.info ∧ c.hits.Perm c'.hits ∧ c.holds.Perm c'.holds ∧ c.bpms.Perm c'.bpms ∧ c.svs.Perm c'.svs

theorem ksLists_perm {c c' : Qua.Chart} (h : QuaChartPerm c c') (hk : Qua.Spec.ksLists c = true) :
    Qua.Spec.ksLists c' = true := by
  simp only [Qua.Spec.ksLists, Bool.and_eq_true, List.all_eq_true] at *
  exact ⟨fun x hx => hk.1 x (h.2.1.mem_iff.mpr hx), fun x hx => hk.2 x (h.2.2.1.mem_iff.mpr hx)⟩

/-- **QuaMap.write**: the documents written for two row orders of one chart both have a by-the-book denotation,
and the two denotations are the same chart up to row order (same metadata, same multisets of hits, holds, tempo
points and SVs — each quantised to whole milliseconds by the format).  Hypotheses as in C06's `qua_write_denotes`:
writable metadata, key-sound cells that are lists (D08 is the failure of the latter). -/
theorem write_qua_perm (c c' : Qua.Chart) (h : QuaChartPerm c c') (hm : Qua.MetaOk c.info)
    (hk : Qua.Spec.ksLists c = true) :
    ∃ d d' q q', Qua.write c = .ok d ∧ Qua.write c' = .ok d' ∧
      Qua.Spec.denote d = .ok q ∧ Qua.Spec.denote d' = .ok q' ∧ QuaChartPerm q q' := by
  have hm' : Qua.MetaOk c'.info := h.1 ▸ hm
  have hk' := ksLists_perm h hk
  have hw : ∃ d, Qua.write c = .ok d := by
    unfold Qua.write; rw [Qua.writeMeta_ok _ hm]; exact ⟨_, rfl⟩
  have hw' : ∃ d, Qua.write c' = .ok d := by
    unfold Qua.write; rw [Qua.writeMeta_ok _ hm']; exact ⟨_, rfl⟩
  obtain ⟨d, hd⟩ := hw
  obtain ⟨d', hd'⟩ := hw'
  refine ⟨d, d', _, _, hd, hd', (Qua.qua_write_denotes c d hm hk hd).1, (Qua.qua_write_denotes c' d' hm' hk' hd').1, ?_⟩
  obtain ⟨hi, hh, hl, hb, hs⟩ := h
  exact ⟨hi, hh.map _, hl.map _, hb.map _, hs.map _⟩

end QuaWriter


/-! ## rate: the well-formedness domain is itself invariant; map sets -/

section RateMore
open Reamber.Rate

theorem frame_wf_perm {f f' : Frame} (h : FramePerm f f') : f.wf = f'.wf := by
  obtain ⟨hc, hr⟩ := h
  simp only [Frame.wf, hc, hr.all_eq]

theorem frame_col_perm {f f' : Frame} (h : FramePerm f f') (c : String) : (f.col c).Perm (f'.col c) := by
  obtain ⟨hc, hr⟩ := h
  simp only [Frame.col, hc]
  exact hr.map _

theorem frame_numericCols_perm {f f' : Frame} (h : FramePerm f f') : f.numericCols = f'.numericCols := by
  simp only [Frame.numericCols]
  congr 1
  funext c
  exact (frame_col_perm h c).all_eq

theorem lists_all_perm {ls ls' : List (String × Frame)} (h : ListsPerm ls ls') (p : Frame → Bool)
    (hp : ∀ f f', FramePerm f f' → p f = p f') : (ls.map (·.2)).all p = (ls'.map (·.2)).all p := by
  unfold ListsPerm at h
  induction h with
  | nil => rfl
  | cons hab _ ih => simp only [List.map_cons, List.all_cons, hp _ _ hab.2, ih]

theorem lists_hasCol_perm {ls ls' : List (String × Frame)} (h : ListsPerm ls ls') (c : String) :
    hasCol (ls.map (·.2)) c = hasCol (ls'.map (·.2)) c := by
  unfold ListsPerm at h
  unfold hasCol
  induction h with
  | nil => rfl
  | cons hab _ ih => simp only [List.map_cons, List.any_cons, hab.2.1, ih]

theorem listsOk_perm {ls ls' : List (String × Frame)} (h : ListsPerm ls ls') :
    listsOk (ls.map (·.2)) = listsOk (ls'.map (·.2)) := by
  simp only [listsOk, lists_all_perm h _ (fun _ _ => frame_wf_perm), lists_all_perm h _ (fun _ _ => frame_numericCols_perm),
    lists_hasCol_perm h]

theorem samplesOk_perm {f f' : Frame} (h : FramePerm f f') : samplesOk f = samplesOk f' := by
  simp only [samplesOk, frame_wf_perm h, (frame_col_perm h "offset").all_eq, h.1]

/-- C13's well-formedness domain does not depend on the row order of any list -/
theorem chartOk_perm (g : Game) {c c' : Chart} (h : ChartPerm c c') : chartOk g c = chartOk g c' := by
  obtain ⟨hl, hs, hp, _⟩ := h
  simp only [chartOk, listsOk_perm hl, hp]
  congr 1
  split
  · cases hcs : c.samples <;> cases hcs' : c'.samples <;> simp_all [OptFramePerm]
    rename_i a b
    cases c'.preview <;> simp [samplesOk_perm hs]
  · rfl

/-- **rate**, with the well-formedness of ONE of the two charts only -/
theorem rate_perm_of_left (g : Game) (r : Rat) (c c' : Chart) (hok : chartOk g c = true) (hr : r ≠ 0)
    (h : ChartPerm c c') :
    ∃ o o', rateChart g r c = .ok o ∧ rateChart g r c' = .ok o' ∧ ChartPerm o o' :=
  rate_perm g r c c' hok (chartOk_perm g h ▸ hok) hr h

/-- the same map set up to the row order of every list of every chart -/
def SetPerm (s s' : MapSet) : Prop :=
  List.Forall₂ ChartPerm s.maps s'.maps ∧ s.offset = s'.offset ∧ s.sampleStart = s'.sampleStart ∧
  s.sampleLength = s'.sampleLength ∧ s.extra = s'.extra

theorem maps_all_chartOk_perm (g : Game) {ms ms' : List Chart} (h : List.Forall₂ ChartPerm ms ms') :
    ms.all (chartOk g) = ms'.all (chartOk g) := by
  induction h with
  | nil => rfl
  | cons hab _ ih => simp only [List.all_cons, chartOk_perm g hab, ih]

theorem setOk_perm (k : SetKind) (g : Game) {s s' : MapSet} (h : SetPerm s s') : setOk k g s = setOk k g s' := by
  obtain ⟨hm, _, hs, hl, _⟩ := h
  simp only [setOk, maps_all_chartOk_perm g hm, hs, hl]

theorem maps_scale_perm (g : Game) (r : Rat) {ms ms' : List Chart} (h : List.Forall₂ ChartPerm ms ms') :
    List.Forall₂ ChartPerm (ms.map (scaleChart g r)) (ms'.map (scaleChart g r)) := by
  induction h with
  | nil => exact List.Forall₂.nil
  | cons hab _ ih => exact List.Forall₂.cons (scaleChart_perm g r hab) ih

theorem scaleSet_perm (k : SetKind) (g : Game) (r : Rat) {s s' : MapSet} (h : SetPerm s s') :
    SetPerm (scaleSet k g r s) (scaleSet k g r s') := by
  obtain ⟨hm, ho, hs, hl, he⟩ := h
  refine ⟨?_, ?_, ?_, ?_, he⟩
  · simp only [scaleSet]
    exact maps_scale_perm g r hm
  · simp only [scaleSet, ho]
  · simp only [scaleSet, hs]
  · simp only [scaleSet, hl]

/-- **MapSet.rate**: the same map set in two row orders (every list of every chart) gives the same map set up to
row order; the scalars (`offset`, `sample_start`, `sample_length`) are equal.  Well-formedness of one side only. -/
theorem rate_set_perm (k : SetKind) (g : Game) (r : Rat) (s s' : MapSet) (hok : setOk k g s = true) (hr : r ≠ 0)
    (h : SetPerm s s') :
    ∃ o o', rateSet k g r s = .ok o ∧ rateSet k g r s' = .ok o' ∧ SetPerm o o' :=
  ⟨_, _, rateSet_scales k g r s hok hr, rateSet_scales k g r s' (setOk_perm k g h ▸ hok) hr, scaleSet_perm k g r h⟩


end RateMore

/-! ## list-level queries: current_bpm, time_diff, ave_bpm, describe -/

section ListOps
open Reamber.Analysis Reamber.BpmListOps
open Reamber.Timing (isort insertBy)

theorem map_insertBy_key {α : Type} (key : α → Rat) (a : α) (s : List α) :
    (insertBy (fun x y => decide (key x ≤ key y)) a s).map key = insertBy (fun x y => decide (x ≤ y)) (key a) (s.map key) := by
  induction s with
  | nil => rfl
  | cons b t ih =>
    simp only [insertBy, List.map_cons]
    by_cases h : key a ≤ key b
    · simp [h]
    · simp [h, ih]

theorem map_isort_key {α : Type} (key : α → Rat) (l : List α) :
    (isort (fun x y => decide (key x ≤ key y)) l).map key = isort (fun x y => decide (x ≤ y)) (l.map key) := by
  induction l with
  | nil => rfl
  | cons a t ih =>
    simp only [isort, List.foldr_cons, List.map_cons] at ih ⊢
    rw [map_insertBy_key, ih]

/-- the sorted offset column is a function of the multiset of offsets — no hypothesis on ties -/
theorem sortedTimes_perm {bpms bpms' : List Tp} (hp : bpms.Perm bpms') :
    (sortTp bpms).map (·.time) = (sortTp bpms').map (·.time) := by
  have h1 := map_isort_key (fun p : Tp => p.time) bpms
  have h2 := map_isort_key (fun p : Tp => p.time) bpms'
  simp only [sortTp]
  rw [h1, h2]
  exact isort_key_eq_of_perm (fun x : Rat => x) (fun a _ b _ h => h) (hp.map _)

/-- **TimedList.time_diff**: any two row orders of the same list give the same gaps; tied rows need not be equal -/
theorem time_diff_perm {bpms bpms' : List Tp} (last : Rat) (hp : bpms.Perm bpms') :
    timeDiff bpms last = timeDiff bpms' last := by
  simp only [timeDiff, sortedTimes_perm hp]

/-- **BpmList.current_bpm** (`sort=True`, the default): the same tempo point for every row order -/
theorem current_bpm_perm {bpms bpms' : List Tp} (t δ : Rat) (ht : TiesEqual (fun p : Tp => p.time) bpms)
    (hp : bpms.Perm bpms') : currentBpm bpms true t δ = currentBpm bpms' true t δ := by
  simp only [currentBpm, if_true, sortTp_eq_of_perm ht hp]

/-- the tie hypothesis is necessary for `current_bpm` … -/
theorem current_bpm_tie_counterexample :
    ([⟨0, 100⟩, ⟨0, 200⟩] : List Tp).Perm [⟨0, 200⟩, ⟨0, 100⟩] ∧
    currentBpm [⟨0, 100⟩, ⟨0, 200⟩] true 500 (1/10) ≠ currentBpm [⟨0, 200⟩, ⟨0, 100⟩] true 500 (1/10) := by
  refine ⟨List.Perm.swap _ _ _, ?_⟩
  decide +kernel

/-- … and `sort=False` ("IT MUST BE SORTED!" in the docstring) takes the row order as it is -/
theorem current_bpm_nosort_counterexample :
    currentBpm [⟨0, 100⟩, ⟨1000, 200⟩] false 500 (1/10) = some ⟨0, 100⟩ ∧
    currentBpm [⟨1000, 200⟩, ⟨0, 100⟩] false 500 (1/10) = some ⟨1000, 200⟩ ∧
    currentBpm [⟨1000, 200⟩, ⟨0, 100⟩] true 500 (1/10) = some ⟨0, 100⟩ := by decide +kernel

/-- **BpmList.ave_bpm depends on the row order** (observation; the routine is not named in the property's statement):
`np.diff(self.offset, append=last)` and `self.bpm` are both taken in row order without a sort.  100 bpm for 1000 ms
then 200 bpm for 1000 ms is 150 on average; the same two rows reversed give 0. -/
theorem ave_bpm_order_counterexample :
    aveBpm [⟨0, 100⟩, ⟨1000, 200⟩] 2000 = 150 ∧ aveBpm [⟨1000, 200⟩, ⟨0, 100⟩] 2000 = 0 := by decide +kernel

/-- `ave_bpm` of a list that was sorted first is a function of the multiset of rows -/
theorem ave_bpm_sorted_perm {bpms bpms' : List Tp} (last : Rat) (ht : TiesEqual (fun p : Tp => p.time) bpms)
    (hp : bpms.Perm bpms') : aveBpm (sortTp bpms) last = aveBpm (sortTp bpms') last := by
  rw [sortTp_eq_of_perm ht hp]


theorem sumRat_perm {l l' : List Rat} (hp : l.Perm l') : sumRat l = sumRat l' := by
  induction hp with
  | nil => rfl
  | cons a _ ih => simp only [sumRat, ih]
  | swap a b l => simp only [sumRat]; exact Rat.add_left_comm _ _ _
  | trans _ _ ih1 ih2 => exact ih1.trans ih2

theorem reduceOpt_perm (pick : Rat → Rat → Rat) (hc : ∀ a b, pick a b = pick b a)
    (ha : ∀ a b c, pick (pick a b) c = pick (pick a c) b) {l l' : List Rat} (hp : l.Perm l') :
    reduceOpt pick l = reduceOpt pick l' := by
  unfold reduceOpt
  apply List.Perm.foldl_eq' hp
  intro x _ y _ z
  cases z with
  | none => simp only [hc x y]
  | some w => simp only [ha w x y]

theorem minPick_comm (a b : Rat) : minPick a b = minPick b a := by
  unfold minPick; split <;> split <;> grind

theorem minPick_rcomm (a b c : Rat) : minPick (minPick a b) c = minPick (minPick a c) b := by
  unfold minPick; repeat' split <;> grind

theorem maxPick_comm (a b : Rat) : maxPick a b = maxPick b a := by
  unfold maxPick; split <;> split <;> grind

theorem maxPick_rcomm (a b c : Rat) : maxPick (maxPick a b) c = maxPick (maxPick a c) b := by
  unfold maxPick; repeat' split <;> grind

/-- **describe()** of a numeric column: every statistic is the same for every row order (no hypothesis) -/
theorem describe_perm {col col' : List Rat} (hp : col.Perm col') : describeCol col = describeCol col' := by
  have hs : sortRat col = sortRat col' := isort_key_eq_of_perm (fun x : Rat => x) (fun a _ b _ h => h) hp
  simp only [describeCol, hp.length_eq, sumRat_perm hp, sumRat_perm (hp.map _), hs,
    reduceOpt_perm minPick minPick_comm minPick_rcomm hp, reduceOpt_perm maxPick maxPick_comm maxPick_rcomm hp]

example : describeCol [0, 1000, 500, 1500] = ⟨4, 750, 1250000 / 3, 0, 375, 750, 1125, 1500⟩ := by decide +kernel


end ListOps

/-! ## Pattern / Pattern.from_note_lists / group on permuted note lists -/

section PatternPerm
open Reamber.Pattern

/-- the same note lists (same classes, in the same order) with the rows of every list permuted -/
def NoteListsPerm (nls nls' : List NoteList) : Prop :=
  List.Forall₂ (fun a b : NoteList => a.ty = b.ty ∧ a.items.Perm b.items) nls nls'

theorem flatMap_heads_perm {nls nls' : List NoteList} (h : NoteListsPerm nls nls') :
    (nls.flatMap (fun nl => nl.items.map (fun it => (⟨it.1, it.2.1, nl.ty⟩ : Pattern.Row)))).Perm
      (nls'.flatMap (fun nl => nl.items.map (fun it => (⟨it.1, it.2.1, nl.ty⟩ : Pattern.Row)))) := by
  unfold NoteListsPerm at h
  induction h with
  | nil => exact List.Perm.refl _
  | cons hab _ ih =>
    simp only [List.flatMap_cons, hab.1]
    exact List.Perm.append (hab.2.map _) ih

theorem flatMap_tails_perm {nls nls' : List NoteList} (h : NoteListsPerm nls nls') :
    ((nls.filter (fun nl => isSub nl.ty .hold)).flatMap
        (fun nl => nl.items.map (fun it => (⟨it.1, it.2.1 + it.2.2, .holdTail⟩ : Pattern.Row)))).Perm
      ((nls'.filter (fun nl => isSub nl.ty .hold)).flatMap
        (fun nl => nl.items.map (fun it => (⟨it.1, it.2.1 + it.2.2, .holdTail⟩ : Pattern.Row)))) := by
  unfold NoteListsPerm at h
  induction h with
  | nil => exact List.Perm.refl _
  | @cons a b _ _ hab _ ih =>
    simp only [List.filter_cons, hab.1]
    by_cases hs : isSub b.ty .hold = true
    · simp only [hs, if_true, List.flatMap_cons]
      exact List.Perm.append (hab.2.map _) ih
    · simp only [hs]
      exact ih

theorem expectedRows_perm {nls nls' : List NoteList} (h : NoteListsPerm nls nls') (t : Bool) :
    (expectedRows nls t).Perm (expectedRows nls' t) := by
  unfold expectedRows
  refine List.Perm.append (flatMap_heads_perm h) ?_
  cases t
  · exact List.Perm.refl _
  · exact flatMap_tails_perm h

/-- **Pattern(...)** on a permuted note frame: the frame built from ANY row order of the notes satisfies the
specification stated for the original order — exactly these notes, ordered by offset.  (C20's grouping theorems
quantify over every frame that satisfies it, so they hold for both.) -/
theorem pattern_perm {rows rows' : List Pattern.Row} (hp : rows.Perm rows') : patternSpec rows (mkPattern rows') = true := by
  have h := pattern_sorted_perm rows'
  simp only [patternSpec, Bool.and_eq_true, List.isPerm_iff] at h ⊢
  exact ⟨h.1.trans hp.symm, h.2⟩

/-- **Pattern.from_note_lists** on note lists whose rows were permuted: the frame is the one specified for the
original lists (every note, every requested hold tail, nothing else, sorted by offset) -/
theorem from_note_lists_perm {nls nls' : List NoteList} (h : NoteListsPerm nls nls') (t : Bool) :
    patternSpec (expectedRows nls t) (fromNoteLists nls' t) = true := by
  have h' := from_note_lists_spec nls' t
  simp only [patternSpec, Bool.and_eq_true, List.isPerm_iff] at h' ⊢
  exact ⟨h'.1.trans (expectedRows_perm h t).symm, h'.2⟩

/-- grouping the pattern of a permuted note frame partitions the ORIGINAL notes -/
theorem group_partition_perm {rows rows' : List Pattern.Row} (hp : rows.Perm rows') (v : Rat) (h : Option Int) (aj : Bool)
    (gs : List (List Pattern.Row)) (hg : group (mkPattern rows') v h aj = .ok gs) : gs.flatten.Perm rows := by
  have h1 := group_partition (mkPattern rows') v h aj gs hg
  simp only [partitionOk, List.isPerm_iff] at h1
  have h2 := pattern_perm hp
  simp only [patternSpec, Bool.and_eq_true, List.isPerm_iff] at h2
  exact h1.trans h2.1


end PatternPerm

/-! ## list histories: every row order the library's list operations produce is a permutation -/

section Histories
open Reamber.Analysis
open Reamber.Timing (isort insertBy)

/-- **list histories**: the ways client code (and the library itself) arrives at a list with some row order -
the shapes the correspondence check generates (`build_list` / `build_history` in harness/props/c15.py) -/
inductive Hist (α : Type) where
  /-- `Cls(items)` -/
  | construct (rows : List α)
  /-- `lst.append(item)` (sort=False) -/
  | appendItem (h : Hist α) (x : α)
  /-- `a.append(b)` (sort=False): concatenation -/
  | concat (a b : Hist α)
  /-- `lst.sorted(reverse)` -/
  | sorted (h : Hist α) (reverse : Bool)
  /-- `lst[::-1]` -/
  | reverseSlice (h : Hist α)
  /-- `lst[k:].append(lst[:k])` -/
  | rotate (h : Hist α) (k : Nat)
  /-- `lst[mask].append(lst[~mask])`; with `mask = offset > t`: `lst.after(t).append(lst.before(t, include_end=True))` -/
  | maskReappend (h : Hist α) (mask : α → Bool)
  /-- `deepcopy`, `m.x = lst; m.x`, `Cls(lst)`, `lst[:]`: the same rows in the same order -/
  | handOn (h : Hist α)

/-- the rows that were put into the list, in the order of a plain left-to-right construction -/
def Hist.items {α} : Hist α → List α
  | .construct rows => rows
  | .appendItem h x => h.items ++ [x]
  | .concat a b => a.items ++ b.items
  | .sorted h _ => h.items
  | .reverseSlice h => h.items
  | .rotate h _ => h.items
  | .maskReappend h _ => h.items
  | .handOn h => h.items

/-- the row order the history ends with (`key` = the offset column; `sorted` is the stable insertion sort, its
reverse for `reverse=True`) -/
def Hist.run {α} (key : α → Rat) : Hist α → List α
  | .construct rows => rows
  | .appendItem h x => h.run key ++ [x]
  | .concat a b => a.run key ++ b.run key
  | .sorted h rev =>
      let s := isort (fun a b => decide (key a ≤ key b)) (h.run key)
      if rev then s.reverse else s
  | .reverseSlice h => (h.run key).reverse
  | .rotate h k => (h.run key).drop k ++ (h.run key).take k
  | .maskReappend h m => (h.run key).filter m ++ (h.run key).filter (fun a => !m a)
  | .handOn h => h.run key

theorem isortT_perm {α} (le : α → α → Bool) (l : List α) : (isort le l).Perm l := by
  induction l with
  | nil => exact List.Perm.refl _
  | cons a t ih =>
    have hins : ∀ (s : List α), (insertBy le a s).Perm (a :: s) := by
      intro s
      induction s with
      | nil => exact List.Perm.refl _
      | cons b u ihu =>
        simp only [insertBy]
        split
        · exact List.Perm.refl _
        · exact ((List.Perm.cons b ihu).trans (List.Perm.swap a b u))
    simp only [isort, List.foldr_cons]
    exact (hins _).trans (List.Perm.cons a ih)

/-- **every history ends with a permutation of the rows that were put in** -/
theorem hist_perm {α} (key : α → Rat) (h : Hist α) : (h.run key).Perm h.items := by
  induction h with
  | construct rows => exact List.Perm.refl _
  | appendItem h x ih => exact List.Perm.append ih (List.Perm.refl _)
  | concat a b iha ihb => exact List.Perm.append iha ihb
  | sorted h rev ih =>
    simp only [Hist.run, Hist.items]
    split
    · exact (List.reverse_perm _).trans ((isortT_perm _ _).trans ih)
    · exact (isortT_perm _ _).trans ih
  | reverseSlice h ih => exact (List.reverse_perm _).trans ih
  | rotate h k ih =>
    simp only [Hist.run, Hist.items]
    exact (List.perm_append_comm.trans (List.take_append_drop k _ ▸ List.Perm.refl _)).trans ih
  | maskReappend h m ih =>
    simp only [Hist.run, Hist.items]
    exact (List.filter_append_perm m _).trans ih
  | handOn h ih => exact ih

/-- dominant bpm over histories: whatever history the tempo list went through, the dominant bpm is that of the
plainly constructed list of the same tempo points -/
theorem dominant_bpm_hist (h : Hist Tp) (L : Rat) (ht : TiesEqual (fun p : Tp => p.time) h.items) :
    dominantBpm (h.run (fun p => p.time)) L = dominantBpm h.items L :=
  (dominant_bpm_perm L ht (hist_perm _ h).symm).symm


/-- scroll speed over histories of the tempo list and of the SV list -/
theorem scroll_speed_hist (hasSv : Bool) (hb : Hist Tp) (hv : Hist Sv) (omin omax : Rat) (ov : Option Rat)
    (ht : TiesEqual (fun p : Tp => p.time) hb.items) (hs : TiesEqual (fun s : Sv => s.time) hv.items) :
    scrollSpeed hasSv (hb.run (fun p => p.time)) (hv.run (fun s => s.time)) omin omax ov =
      scrollSpeed hasSv hb.items hv.items omin omax ov :=
  (scroll_speed_perm hasSv omin omax ov ht hs (hist_perm _ hb).symm (hist_perm _ hv).symm).symm

/-- SV normalisation over histories of the tempo list -/
theorem sv_normalize_hist (h : Hist Tp) (L : Rat) (ov : Option Rat) (ht : TiesEqual (fun p : Tp => p.time) h.items) :
    OptSameRows (svNormalize h.items L ov) (svNormalize (h.run (fun p => p.time)) L ov) :=
  sv_normalize_perm L ov ht (hist_perm _ h).symm

/-- full-LN generation over histories of the hit list and of the hold list -/
theorem full_ln_hist {α} (sortF sortF' : List FullLN.Row → List FullLN.Row) (hs : FullLN.SortsByOffset sortF)
    (hs' : FullLN.SortsByOffset sortF') (gap thr : Rat) (hh hl : Hist FullLN.Row) (extras : List FullLN.Row) (others : α)
    (ht : TiesEqual FullLN.key (FullLN.stacked (⟨extras, hh.items, hl.items, others⟩ : FullLN.MapM α))) :
    (FullLN.fullLnWith sortF gap thr (⟨extras, hh.items, hl.items, others⟩ : FullLN.MapM α)).hits =
      (FullLN.fullLnWith sortF' gap thr ⟨extras, hh.run (·.offset), hl.run (·.offset), others⟩).hits ∧
    (FullLN.fullLnWith sortF gap thr (⟨extras, hh.items, hl.items, others⟩ : FullLN.MapM α)).holds =
      (FullLN.fullLnWith sortF' gap thr ⟨extras, hh.run (·.offset), hl.run (·.offset), others⟩).holds := by
  have h := full_ln_perm sortF sortF' hs hs' gap thr (⟨extras, hh.items, hl.items, others⟩ : FullLN.MapM α)
    ⟨extras, hh.run (·.offset), hl.run (·.offset), others⟩ (hist_perm _ hh).symm (hist_perm _ hl).symm ht
  exact ⟨h.1, h.2.1⟩

/-- `TimedList.time_diff` over histories: no hypothesis at all -/
theorem time_diff_hist (h : Hist Tp) (last : Rat) :
    BpmListOps.timeDiff (h.run (fun p => p.time)) last = BpmListOps.timeDiff h.items last :=
  time_diff_perm last (hist_perm _ h)

/-- `BpmList.current_bpm` (sort=True) over histories -/
theorem current_bpm_hist (h : Hist Tp) (t δ : Rat) (ht : TiesEqual (fun p : Tp => p.time) h.items) :
    BpmListOps.currentBpm (h.run (fun p => p.time)) true t δ = BpmListOps.currentBpm h.items true t δ :=
  (current_bpm_perm t δ ht (hist_perm _ h).symm).symm

/-- `describe()` of a column over histories of the list -/
theorem describe_hist {α} (key col : α → Rat) (h : Hist α) :
    BpmListOps.describeCol ((h.run key).map col) = BpmListOps.describeCol (h.items.map col) :=
  describe_perm ((hist_perm key h).map col)

/-- the history of the seeded change C15-F: two sections, each sorted, then concatenated - interleaved rows -/
example : (Hist.concat (.sorted (.construct [(⟨0, 120⟩ : Tp), ⟨20000, 150⟩]) false)
                       (.sorted (.construct [⟨12000, 90⟩, ⟨5000, 200⟩]) false)).run (fun p => p.time)
    = [⟨0, 120⟩, ⟨20000, 150⟩, ⟨5000, 200⟩, ⟨12000, 90⟩] := by decide +kernel

end Histories

/-! ## full_ln: the tie hypothesis weakened to the end of each column -/

section FullLNEnd
open Reamber.FullLN

/-- notes stacked at the END of a column - same column, same time, nothing later in that column - are equal rows.
(Every other note has its length rewritten from the gap to the next note of its column, so ties elsewhere do not
matter; the last note of a column keeps its own length.) -/
def EndTiesEqual (l : List FullLN.Row) : Prop :=
  ∀ a ∈ l, ∀ b ∈ l, a.column = b.column → a.offset = b.offset →
    (∀ r ∈ l, r.column = a.column → r.offset ≤ a.offset) → a = b

theorem TiesEqual.endTies {l : List FullLN.Row} (h : TiesEqual key l) : EndTiesEqual l :=
  fun a ha b hb hc ho _ => h a ha b hb (by simp [key, hc, ho])

theorem EndTiesEqual.perm {l l' : List FullLN.Row} (h : EndTiesEqual l) (hp : l.Perm l') : EndTiesEqual l' :=
  fun a ha b hb hc ho hm => h a (hp.mem_iff.mpr ha) b (hp.mem_iff.mpr hb) hc ho
    (fun r hr => hm r (hp.mem_iff.mp hr))

theorem le_getLast_of_sorted : ∀ (l : List FullLN.Row), SortedByOffset l → ∀ x ∈ l, ∀ y, l.getLast? = some y →
    x.offset ≤ y.offset := by
  intro l
  induction l with
  | nil => intro _ x hx; cases hx
  | cons a t ih =>
    intro hs x hx y hy
    cases t with
    | nil =>
      simp only [List.getLast?_singleton, Option.some.injEq] at hy
      simp only [List.mem_singleton] at hx
      subst hy; subst hx; exact le_refl _
    | cons b u =>
      have hs' := List.pairwise_cons.mp hs
      rw [List.getLast?_cons_cons] at hy
      have hymem : y ∈ b :: u := List.mem_of_getLast? hy
      rcases List.mem_cons.mp hx with rfl | hx'
      · exact hs'.1 y hymem
      · exact ih hs'.2 x hx' y hy

/-- the last note of every column of a sorted arrangement is determined by the multiset of rows when the notes
stacked at the end of a column are equal -/
theorem inColumn_getLast_eq (c : Int) {arr₁ arr₂ : List FullLN.Row} (hp : arr₁.Perm arr₂) (s₁ : SortedByOffset arr₁)
    (s₂ : SortedByOffset arr₂) (ht : EndTiesEqual arr₁) : (inColumn c arr₁).getLast? = (inColumn c arr₂).getLast? := by
  have hpc : (inColumn c arr₁).Perm (inColumn c arr₂) := hp.filter _
  have sc₁ : SortedByOffset (inColumn c arr₁) := List.Pairwise.filter _ s₁
  have sc₂ : SortedByOffset (inColumn c arr₂) := List.Pairwise.filter _ s₂
  cases h1 : (inColumn c arr₁).getLast? with
  | none =>
    have : inColumn c arr₁ = [] := List.getLast?_eq_none_iff.mp h1
    have h2 : inColumn c arr₂ = [] := by rw [this] at hpc; exact hpc.symm.eq_nil
    rw [h2]; rfl
  | some a =>
    cases h2 : (inColumn c arr₂).getLast? with
    | none =>
      have : inColumn c arr₂ = [] := List.getLast?_eq_none_iff.mp h2
      rw [this] at hpc
      rw [hpc.eq_nil] at h1
      cases h1
    | some b =>
      have ha : a ∈ inColumn c arr₁ := List.mem_of_getLast? h1
      have hb : b ∈ inColumn c arr₂ := List.mem_of_getLast? h2
      have hb1 : b ∈ inColumn c arr₁ := hpc.mem_iff.mpr hb
      have ha2 : a ∈ inColumn c arr₂ := hpc.mem_iff.mp ha
      have hab : b.offset ≤ a.offset := le_getLast_of_sorted _ sc₁ b hb1 a h1
      have hba : a.offset ≤ b.offset := le_getLast_of_sorted _ sc₂ a ha2 b h2
      have hma := List.mem_filter.mp ha
      have hmb := List.mem_filter.mp hb1
      have hca : a.column = c := by simpa using hma.2
      have hcb : b.column = c := by simpa using hmb.2
      have : a = b := by
        apply ht a hma.1 b hmb.1 (hca.trans hcb.symm) (le_antisymm hba hab)
        intro r hr hrc
        have hrm : r ∈ inColumn c arr₁ := List.mem_filter.mpr ⟨hr, by simp [hrc, hca]⟩
        exact le_getLast_of_sorted _ sc₁ r hrm a h1
      rw [this]

/-- **full_ln**, with the tie hypothesis weakened to what the code needs: only notes stacked at the END of a column
(whose own length survives) have to be equal rows; notes that share (time, column) anywhere else may differ
(`full_ln_end_tie_example`).  Necessity at the end of a column: `full_ln_tie_counterexample`. -/
theorem full_ln_perm_endties {α} (sortF sortF' : List FullLN.Row → List FullLN.Row) (hs : SortsByOffset sortF)
    (hs' : SortsByOffset sortF') (gap thr : Rat) (m m' : MapM α) (hh : m.hits.Perm m'.hits) (hl : m.holds.Perm m'.holds)
    (ht : EndTiesEqual (stacked m)) :
    (fullLnWith sortF gap thr m).hits = (fullLnWith sortF' gap thr m').hits ∧
    (fullLnWith sortF gap thr m).holds = (fullLnWith sortF' gap thr m').holds := by
  have hp : (sortF (stacked m)).Perm (sortF' (stacked m')) :=
    ((hs.perm _).trans (stacked_perm hh hl)).trans (hs'.perm _).symm
  have ht' : EndTiesEqual (sortF (stacked m)) := ht.perm (hs.perm _).symm
  have hrows : fullLnRows gap thr (sortF (stacked m)) = fullLnRows gap thr (sortF' (stacked m')) :=
    fullLnRows_eq_of_same_last gap thr _ _ hp (hs.sorted _) (hs'.sorted _)
      (fun c => inColumn_getLast_eq c hp (hs.sorted _) (hs'.sorted _) ht')
  exact ⟨by simp only [fullLnWith, hrows], by simp only [fullLnWith, hrows]⟩

/-- non-vacuity and strictness: a hit and a hold on one (time, column) that is NOT the end of the column - outside
`TiesEqual`, inside `EndTiesEqual` - and the two row orders give the same result -/
theorem full_ln_end_tie_example :
    ¬ TiesEqual key ([⟨0, 0, none⟩, ⟨0, 0, some 500⟩, ⟨1000, 0, none⟩] : List FullLN.Row) ∧
    EndTiesEqual ([⟨0, 0, none⟩, ⟨0, 0, some 500⟩, ⟨1000, 0, none⟩] : List FullLN.Row) ∧
    fullLnRows 150 100 [⟨0, 0, none⟩, ⟨0, 0, some 500⟩, ⟨1000, 0, none⟩] =
      fullLnRows 150 100 [⟨0, 0, some 500⟩, ⟨0, 0, none⟩, ⟨1000, 0, none⟩] := by
  refine ⟨?_, ?_, by decide +kernel⟩
  · rw [← tiesEqualB_iff]; decide +kernel
  · intro a ha b hb hc ho hm
    have h3 := hm ⟨1000, 0, none⟩ (by simp)
    simp only [List.mem_cons, List.not_mem_nil, or_false] at ha hb
    rcases ha with rfl | rfl | rfl <;> rcases hb with rfl | rfl | rfl <;> simp_all
    all_goals (first | rfl | (exfalso; revert h3; decide +kernel))

end FullLNEnd

section SpeedNoSv
open Reamber.Analysis

/-- **scroll_speed** of a chart without an SV list (StepMania, BMS, O2Jam): no hypothesis on SVs at all - the
SV arguments are not looked at -/
theorem scroll_speed_perm_nosv {bpms bpms' : List Tp} (svs svs' : List Sv) (omin omax : Rat) (ov : Option Rat)
    (ht : TiesEqual (fun p : Tp => p.time) bpms) (hp : bpms.Perm bpms') :
    scrollSpeed false bpms svs omin omax ov = scrollSpeed false bpms' svs' omin omax ov := by
  simp only [scrollSpeed, speedFrame, refBpm_perm omax ov ht hp, bpmFrame_perm omin omax ht hp, Bool.false_eq_true, if_false]

end SpeedNoSv

section HistoriesAnySort
open Reamber.Analysis

/-- the row order a history ends with when `sorted()` is ANY function that returns a permutation of its input
(`DataFrame.sort_values` with pandas' default, unstable, sort is one: which of several tied rows comes first is
not determined) -/
def Hist.runWith {α} (sortF : List α → List α) : Hist α → List α
  | .construct rows => rows
  | .appendItem h x => h.runWith sortF ++ [x]
  | .concat a b => a.runWith sortF ++ b.runWith sortF
  | .sorted h rev => if rev then (sortF (h.runWith sortF)).reverse else sortF (h.runWith sortF)
  | .reverseSlice h => (h.runWith sortF).reverse
  | .rotate h k => (h.runWith sortF).drop k ++ (h.runWith sortF).take k
  | .maskReappend h m => (h.runWith sortF).filter m ++ (h.runWith sortF).filter (fun a => !m a)
  | .handOn h => h.runWith sortF

/-- every history ends with a permutation of the rows put in, whatever (permuting) function `sorted()` is -/
theorem hist_perm_with {α} (sortF : List α → List α) (hs : ∀ l, (sortF l).Perm l) (h : Hist α) :
    (h.runWith sortF).Perm h.items := by
  induction h with
  | construct rows => exact List.Perm.refl _
  | appendItem h x ih => exact List.Perm.append ih (List.Perm.refl _)
  | concat a b iha ihb => exact List.Perm.append iha ihb
  | sorted h rev ih =>
    simp only [Hist.runWith, Hist.items]
    split
    · exact (List.reverse_perm _).trans ((hs _).trans ih)
    · exact (hs _).trans ih
  | reverseSlice h ih => exact (List.reverse_perm _).trans ih
  | rotate h k ih =>
    simp only [Hist.runWith, Hist.items]
    exact (List.perm_append_comm.trans (List.take_append_drop k _ ▸ List.Perm.refl _)).trans ih
  | maskReappend h m ih =>
    simp only [Hist.runWith, Hist.items]
    exact (List.filter_append_perm m _).trans ih
  | handOn h ih => exact ih

/-- dominant bpm over histories with any `sorted()` -/
theorem dominant_bpm_hist_with (sortF : List Tp → List Tp) (hs : ∀ l, (sortF l).Perm l) (h : Hist Tp) (L : Rat)
    (ht : TiesEqual (fun p : Tp => p.time) h.items) :
    dominantBpm (h.runWith sortF) L = dominantBpm h.items L :=
  (dominant_bpm_perm L ht (hist_perm_with sortF hs h).symm).symm

end HistoriesAnySort

end Reamber.PermInv
