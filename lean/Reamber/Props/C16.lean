/-
C16 — timed lists behave like ordered collections of their rows.

Model: `Model/TList.lean` (rows with pandas row labels; the operations of TimedList / HoldList / BpmList as
written). Specification: `Spec/TList.lean` (the same operations on a plain `List` of rows, no labels).
The schemas of all list classes come from the source (`Generated/Schemas.lean`).
-/
import Reamber.Lemmas.TList
import Reamber.Generated.Schemas

namespace Reamber.TList

open Reamber.Generated

section sim
variable {α : Type} (off len : α → Rat)

/-! ## 1. Simulation: labels never reach an observable -/

/-- One operation: dropping the labels after the step = the operation on the plain sequence of rows.
Covers every operation, every content, every labelling (duplicated, permuted, gapped labels included),
and the exception (slice step 0). -/
theorem step_rows (op : Op α) (t : Tbl α) :
    (step off len op t).map rows = stepRows off len op (rows t) := by
  cases op with
  | slice a b c =>
    simp only [step, sliceT, stepRows, rows]
    exact (pySlice_map Prod.snd t a b c).symm
  | after x incl => simp only [step, afterT, stepRows]; exact maskOn_rows off true incl x t
  | before x incl => simp only [step, beforeT, stepRows]; exact maskOn_rows off false incl x t
  | between lo hi il ih =>
    simp only [step, betweenT, afterT, beforeT, stepRows]
    exact twoStage_rows off off true il lo false ih hi t
  | hAfter x incl tail =>
    have hk : (fun a => keep true incl x (off a + if tail then len a else 0))
        = fun a => keep true incl x (tailKey off len tail a) := by
      funext a; cases tail <;> simp [tailKey]
    simp only [step, hAfterT, stepRows]
    rw [maskOn_rows, hk]
  | hBefore x incl head =>
    have hk : (fun a => keep false incl x (off a + if !head then len a else 0))
        = fun a => keep false incl x (tailKey off len (!head) a) := by
      funext a; cases head <;> simp [tailKey]
    simp only [step, hBeforeT, stepRows]
    rw [maskOn_rows, hk]
  | hBetween lo hi il ih head tail =>
    have hk : (fun a => keep true il lo (off a + if tail then len a else 0)
          && keep false ih hi (off a + if !head then len a else 0))
        = fun a => keep true il lo (tailKey off len tail a) && keep false ih hi (tailKey off len (!head) a) := by
      funext a; cases head <;> cases tail <;> simp [tailKey]
    simp only [step, hBetweenT, hAfterT, hBeforeT, stepRows]
    refine (twoStage_rows (fun a => off a + if tail then len a else 0) (fun a => off a + if !head then len a else 0)
      true il lo false ih hi t).trans ?_
    rw [hk]
  | sorted rev => simp [step, stepRows, Except.map, rows_sortedT]
  | append ys sort =>
    cases sort <;> simp [step, stepRows, appendT, Except.map, rows_sortedT, rows_relabel]

/-- **Simulation** (DESIGN §6 C16): for every finite sequence of operations, every content and every
labelling, the rows of the model's result are the result of the same operations on the plain sequence
of rows; an exception on one side is the same exception on the other. -/
theorem run_rows (ops : List (Op α)) (t : Tbl α) :
    (run off len ops t).map rows = runRows off len ops (rows t) := by
  induction ops generalizing t with
  | nil => rfl
  | cons op ops ih =>
    have h := step_rows off len op t
    simp only [run, runRows]
    cases hs : step off len op t with
    | error e => rw [hs] at h; simp only [Except.map] at h; rw [← h]; rfl
    | ok t' => rw [hs] at h; simp only [Except.map] at h; rw [← h]; exact ih t'

/-- Two tables with the same rows and *any* two labellings are indistinguishable through any history. -/
theorem labels_irrelevant (ops : List (Op α)) (t t' : Tbl α) (h : rows t = rows t') :
    (run off len ops t).map rows = (run off len ops t').map rows := by
  rw [run_rows, run_rows, h]

/-! ## 1b. Pools of live lists: the receiver and every other live list stay what they were -/

theorem poolStep_ok (i : Nat) (op : Op α) (pool pool' : List (Tbl α)) (h : poolStep off len i op pool = .ok pool') :
    ∃ t t', pool[i]? = some t ∧ step off len op t = .ok t' ∧ pool' = pool ++ [t'] := by
  unfold poolStep at h
  split at h
  · cases h
  · rename_i t ht
    split at h
    · cases h
    · rename_i t' hs
      cases h
      exact ⟨t, t', ht, hs, rfl⟩

/-- a history over a pool only ever **adds** lists -/
theorem runPool_extends (ops : List (Nat × Op α)) (pool pool' : List (Tbl α))
    (h : runPool off len ops pool = .ok pool') : ∃ added, pool' = pool ++ added := by
  induction ops generalizing pool with
  | nil => simp only [runPool] at h; cases h; exact ⟨[], by simp⟩
  | cons iop ops ih =>
    simp only [runPool] at h
    split at h
    · cases h
    · rename_i p1 hp
      obtain ⟨t, t', _, _, rfl⟩ := poolStep_ok off len _ _ _ _ hp
      obtain ⟨added, rfl⟩ := ih _ h
      exact ⟨t' :: added, by simp⟩

/-- **Receivers are left alone.** No operation of the property is assigning: after any history over a pool of
live lists, every list that was live before — the receivers of `sorted`, of the filters, of `append`, of
slicing, and every bystander — is still exactly what it was (rows and labels). Trivial in the functional model;
on the implementation it is *observed*: every live list is re-read after every step. -/
theorem runPool_live_unchanged (ops : List (Nat × Op α)) (pool pool' : List (Tbl α))
    (h : runPool off len ops pool = .ok pool') (k : Nat) (hk : k < pool.length) : pool'[k]? = pool[k]? := by
  obtain ⟨added, rfl⟩ := runPool_extends off len ops pool pool' h
  exact List.getElem?_append_left hk

theorem poolStep_rows (i : Nat) (op : Op α) (pool : List (Tbl α)) :
    (poolStep off len i op pool).map (List.map rows) = poolStepRows off len i op (pool.map rows) := by
  unfold poolStep poolStepRows
  rw [List.getElem?_map]
  cases h : pool[i]? with
  | none => rfl
  | some t =>
    simp only [Option.map_some]
    have hs := step_rows off len op t
    cases hst : step off len op t with
    | error e => rw [hst] at hs; simp only [Except.map] at hs; rw [← hs]; rfl
    | ok t' => rw [hst] at hs; simp only [Except.map] at hs; rw [← hs]; simp [Except.map]

/-- **Simulation over pools**: any history in which every operation takes any live list as its receiver and
adds its result to the pool is, row for row, the same history over plain sequences. -/
theorem runPool_rows (ops : List (Nat × Op α)) (pool : List (Tbl α)) :
    (runPool off len ops pool).map (List.map rows) = runPoolRows off len ops (pool.map rows) := by
  induction ops generalizing pool with
  | nil => rfl
  | cons iop ops ih =>
    have h := poolStep_rows off len iop.1 iop.2 pool
    simp only [runPool, runPoolRows]
    cases hs : poolStep off len iop.1 iop.2 pool with
    | error e => rw [hs] at h; simp only [Except.map] at h; rw [← h]; rfl
    | ok p' => rw [hs] at h; simp only [Except.map] at h; rw [← h]; exact ih p'

/-! ## 2. The plain-sequence function meets the relational specification; any tie order -/

theorem stepRows_spec (op : Op α) (xs : List α) : SpecStep off len op xs (stepRows off len op xs) := by
  cases op with
  | sorted rev => exact ⟨_, rfl, isort_perm _ _, isort_ordered off rev xs⟩
  | append zs sort =>
    cases sort
    · simp [SpecStep, stepRows]
    · simp only [SpecStep, stepRows, if_true]
      exact ⟨_, rfl, isort_perm _ _, isort_ordered off false _⟩
  | _ => simp [SpecStep, stepRows]

/-- the executable model is one of the behaviours `StepRel` allows -/
theorem step_StepRel (op : Op α) (t : Tbl α) : StepRel off len op t (step off len op t) := by
  cases op with
  | sorted rev =>
    refine ⟨sortedT off t rev, rfl, isort_perm _ _, ?_⟩
    rw [rows_sortedT]; exact isort_ordered off rev _
  | append zs sort =>
    cases sort
    · simp [StepRel]
    · refine ⟨sortedT off (relabel (rows t ++ zs)) false, by simp [step, appendT], isort_perm _ _, ?_⟩
      rw [rows_sortedT]; exact isort_ordered off false _
  | _ => simp [StepRel]

/-- Whatever order numpy gives to rows of equal offset, a step on the labelled table is the operation on the
plain sequence of rows. -/
theorem StepRel_spec (op : Op α) (t : Tbl α) (r : Except Err (Tbl α)) (h : StepRel off len op t r) :
    SpecStep off len op (rows t) (r.map rows) := by
  cases op with
  | sorted rev =>
    obtain ⟨t', rfl, hp, ho⟩ := h
    exact ⟨rows t', rfl, hp.map _, ho⟩
  | append zs sort =>
    cases sort
    · have h' : r = step off len (.append zs false) t := by simpa [StepRel] using h
      rw [h', step_rows]; exact stepRows_spec off len _ _
    · obtain ⟨t', rfl, hp, ho⟩ := h
      simp only [SpecStep, if_true]
      refine ⟨rows t', rfl, ?_, ho⟩
      have := hp.map Prod.snd
      rw [show List.map Prod.snd (relabel (rows t ++ zs)) = rows t ++ zs from rows_relabel _] at this
      exact this
  | slice a b c => have h' : r = _ := h; rw [h', step_rows]; exact stepRows_spec off len _ _
  | after x incl => have h' : r = _ := h; rw [h', step_rows]; exact stepRows_spec off len _ _
  | before x incl => have h' : r = _ := h; rw [h', step_rows]; exact stepRows_spec off len _ _
  | between lo hi il ih => have h' : r = _ := h; rw [h', step_rows]; exact stepRows_spec off len _ _
  | hAfter x incl tail => have h' : r = _ := h; rw [h', step_rows]; exact stepRows_spec off len _ _
  | hBefore x incl head => have h' : r = _ := h; rw [h', step_rows]; exact stepRows_spec off len _ _
  | hBetween lo hi il ih head tail => have h' : r = _ := h; rw [h', step_rows]; exact stepRows_spec off len _ _

/-- **Simulation for any tie order**: every history of the labelled table — with an arbitrary order among
rows of equal offset at every sort — is a history of the plain sequence of its rows. -/
theorem RunRel_spec (ops : List (Op α)) (t : Tbl α) (r : Except Err (Tbl α)) (h : RunRel off len ops t r) :
    RunSpec off len ops (rows t) (r.map rows) := by
  induction h with
  | nil t => exact RunSpec.nil _
  | err hs => exact RunSpec.err (StepRel_spec off len _ _ _ hs)
  | cons hs _ ih => exact RunSpec.cons (StepRel_spec off len _ _ _ hs) ih

/-- the executable run is one such history -/
theorem run_RunRel (ops : List (Op α)) (t : Tbl α) : RunRel off len ops t (run off len ops t) := by
  induction ops generalizing t with
  | nil => exact RunRel.nil t
  | cons op ops ih =>
    have hs := step_StepRel off len op t
    simp only [run]
    cases h : step off len op t with
    | error e => rw [h] at hs; exact RunRel.err hs
    | ok t' => rw [h] at hs; exact RunRel.cons hs (ih t')

theorem run_spec (ops : List (Op α)) (t : Tbl α) :
    RunSpec off len ops (rows t) ((run off len ops t).map rows) :=
  RunRel_spec off len ops t _ (run_RunRel off len ops t)

/-! ## 3. Observables -/

theorem lenT_rows (t : Tbl α) : lenT t = (rows t).length := by simp [lenT, rows]

/-- `tl.df.iloc[i]` is Python indexing of the plain sequence (negative indices, IndexError) -/
theorem getRow_rows (t : Tbl α) (i : Int) : getRow t i = pyGet (rows t) i := by
  unfold getRow rows
  rw [pyGet_map]
  cases pyGet t i <;> rfl

theorem firstOffset_spec (t : Tbl α) : SpecFirst off (rows t) (firstOffset off t) := by
  unfold firstOffset
  have hm : t.map (fun r => off r.2) = (rows t).map off := by simp [rows, List.map_map, Function.comp_def]
  rw [hm]
  cases h : (rows t).map off with
  | nil => simpa [SpecFirst] using h
  | cons x xs =>
    simp only [SpecFirst, IsMin]
    rw [h]; exact minL_spec x xs

theorem lastOffset_spec (t : Tbl α) : SpecLast off (rows t) (lastOffset off t) := by
  unfold lastOffset
  have hm : t.map (fun r => off r.2) = (rows t).map off := by simp [rows, List.map_map, Function.comp_def]
  rw [hm]
  cases h : (rows t).map off with
  | nil => simpa [SpecLast] using h
  | cons x xs =>
    simp only [SpecLast, IsMax]
    rw [h]; exact maxL_spec x xs

/-- `HoldList.last_offset`: raises exactly on the empty list, else the greatest tail -/
theorem hLastOffset_spec (t : Tbl α) :
    match hLastOffset off len t with
    | .error _ => rows t = []
    | .ok m => IsMax m ((rows t).map fun a => off a + len a) := by
  unfold hLastOffset
  have hm : t.map (fun r => off r.2 + len r.2) = (rows t).map (fun a => off a + len a) := by
    simp [rows, List.map_map, Function.comp_def]
  rw [hm]
  cases h : (rows t).map (fun a => off a + len a) with
  | nil => simpa using h
  | cons x xs => simp only [IsMax]; exact maxL_spec x xs

end sim

/-! ## 4. Inclusive flags at equal offsets; head / tail variants -/

section flags
variable {α : Type} (off len : α → Rat)

/-- a row whose offset **equals** the bound survives `after` exactly when `include_end` is set -/
theorem after_boundary (t t' : Tbl α) (x : Rat) (incl : Bool) (a : α) (h : afterT off t x incl = .ok t')
    (hx : off a = x) : a ∈ rows t' ↔ a ∈ rows t ∧ incl = true := by
  rw [afterT, maskOn_eq] at h
  cases h
  rw [rows_filter (fun a => keep true incl x (off a)) t, List.mem_filter]
  cases incl <;> simp [keep, hx]

theorem before_boundary (t t' : Tbl α) (x : Rat) (incl : Bool) (a : α) (h : beforeT off t x incl = .ok t')
    (hx : off a = x) : a ∈ rows t' ↔ a ∈ rows t ∧ incl = true := by
  rw [beforeT, maskOn_eq] at h
  cases h
  rw [rows_filter (fun a => keep false incl x (off a)) t, List.mem_filter]
  cases incl <;> simp [keep, hx]

/-- membership after `after`: strictly later rows always, rows on the bound iff inclusive -/
theorem mem_after_iff (t t' : Tbl α) (x : Rat) (incl : Bool) (a : α) (h : afterT off t x incl = .ok t') :
    a ∈ rows t' ↔ a ∈ rows t ∧ (x < off a ∨ (incl = true ∧ off a = x)) := by
  rw [afterT, maskOn_eq] at h
  cases h
  rw [rows_filter (fun a => keep true incl x (off a)) t, List.mem_filter, keep_gt_iff]

theorem mem_before_iff (t t' : Tbl α) (x : Rat) (incl : Bool) (a : α) (h : beforeT off t x incl = .ok t') :
    a ∈ rows t' ↔ a ∈ rows t ∧ (off a < x ∨ (incl = true ∧ off a = x)) := by
  rw [beforeT, maskOn_eq] at h
  cases h
  rw [rows_filter (fun a => keep false incl x (off a)) t, List.mem_filter, keep_lt_iff]

/-- holds: with `include_tail` the **tail** (offset + length) is what is compared with the bound, else the head -/
theorem mem_hAfter_iff (t t' : Tbl α) (x : Rat) (incl tail : Bool) (a : α)
    (h : hAfterT off len t x incl tail = .ok t') :
    a ∈ rows t' ↔ a ∈ rows t ∧ (x < tailKey off len tail a ∨ (incl = true ∧ tailKey off len tail a = x)) := by
  have hk : (off a + if tail then len a else 0) = tailKey off len tail a := by cases tail <;> simp [tailKey]
  rw [hAfterT, maskOn_eq] at h
  cases h
  rw [rows_filter (fun a => keep true incl x (off a + if tail then len a else 0)) t, List.mem_filter, keep_gt_iff, hk]

/-- holds: with `include_head` (the default) the **head** is compared, without it the tail -/
theorem mem_hBefore_iff (t t' : Tbl α) (x : Rat) (incl head : Bool) (a : α)
    (h : hBeforeT off len t x incl head = .ok t') :
    a ∈ rows t' ↔ a ∈ rows t ∧ (tailKey off len (!head) a < x ∨ (incl = true ∧ tailKey off len (!head) a = x)) := by
  have hk : (off a + if !head then len a else 0) = tailKey off len (!head) a := by cases head <;> simp [tailKey]
  rw [hBeforeT, maskOn_eq] at h
  cases h
  rw [rows_filter (fun a => keep false incl x (off a + if !head then len a else 0)) t, List.mem_filter, keep_lt_iff, hk]

/-- the defaults of `HoldList.after` / `before` are `TimedList`'s filters -/
theorem hAfter_default (t : Tbl α) (x : Rat) (incl : Bool) : hAfterT off len t x incl false = afterT off t x incl := by
  simp [hAfterT, afterT]

theorem hBefore_default (t : Tbl α) (x : Rat) (incl : Bool) : hBeforeT off len t x incl true = beforeT off t x incl := by
  simp [hBeforeT, beforeT]

end flags

/-! ## 5. The decidable specification the harness evaluates is the declarative one -/

section dec
variable {α : Type} [DecidableEq α] (off len : α → Rat)

theorem sortedPermB_iff (rev : Bool) (xs : List α) (r : Except Err (List α)) :
    sortedPermB off rev xs r = true ↔ ∃ ys, r = .ok ys ∧ ys.Perm xs ∧ OrderedBy off rev ys := by
  cases r with
  | error e => simp [sortedPermB]
  | ok ys => simp [sortedPermB, List.isPerm_iff]

theorem specStepB_iff (op : Op α) (xs : List α) (r : Except Err (List α)) :
    specStepB off len op xs r = true ↔ SpecStep off len op xs r := by
  cases op with
  | sorted rev => simp only [specStepB, SpecStep]; exact sortedPermB_iff off rev xs r
  | append zs sort =>
    cases sort
    · simp [specStepB, SpecStep, exceptEq_iff, stepRows]
    · simp only [specStepB, SpecStep, if_true]; exact sortedPermB_iff off false _ r
  | _ => simp [specStepB, SpecStep, exceptEq_iff, stepRows]

omit [DecidableEq α] in
theorem specFirstB_iff (xs : List α) (r : Option Rat) : specFirstB off xs r = true ↔ SpecFirst off xs r := by
  cases r with
  | none => simp [specFirstB, SpecFirst]
  | some m => simp [specFirstB, SpecFirst, IsMin]

omit [DecidableEq α] in
theorem specLastB_iff (key : α → Rat) (xs : List α) (r : Option Rat) : specLastB key xs r = true ↔ SpecLast key xs r := by
  cases r with
  | none => simp [specLastB, SpecLast]
  | some m => simp [specLastB, SpecLast, IsMax]

end dec

/-! ## 6. Declared fields (schemas generated from the source) -/

/-- **Tie to the source.** For every list class of every game: `cls._default()` has the declared columns, an
item built by the constructor carries exactly the constructor's named parameters (what `mkItem` assumes),
`offset` is declared (and `length` for every hold list), the allowed names of `from_series` are the declared
names, and no name is declared twice. A source change that breaks one of these breaks this proof. -/
theorem schemas_tie : ∀ s ∈ schemas,
    s.defaultCols = s.declaredNames ∧ s.paramNames = s.itemFields ∧ s.declaredNames.contains "offset" = true ∧
    (s.kind = .hold → s.declaredNames.contains "length" = true) ∧
    s.allowed.all (fun k => s.declaredNames.contains k) = true ∧
    s.declaredNames.all (fun k => s.allowed.contains k) = true ∧ s.declaredNames.Nodup := by
  decide

theorem emptyF_cols (s : Schema) (n : Nat) : (emptyF s n).cols = s.declaredNames := rfl

theorem emptyF_rows (s : Schema) (n : Nat) :
    (emptyF s n).rows.length = n ∧ ∀ r ∈ rows (emptyF s n).rows, r = s.defaultRow := by
  constructor
  · simp [emptyF, relabel, length_relabelFrom]
  · intro r hr
    simp only [emptyF, rows_relabel] at hr
    exact List.eq_of_mem_replicate hr

/-- `cls.empty(n)` has exactly the declared fields and `n` rows — every list class, every `n` (post-D09) -/
theorem empty_declared : ∀ s ∈ schemas, ∀ n : Nat,
    hasDeclaredFields s (emptyF s n).cols = true ∧ (emptyF s n).rows.length = n := by
  have key : ∀ s ∈ schemas, hasDeclaredFields s s.declaredNames = true := by decide
  intro s hs n
  exact ⟨key s hs, (emptyF_rows s n).1⟩

/-- `cls.empty(n)`: every row has every declared field, and no value is missing (no NaN) — every list class,
the Quaver note lists included (post-D08) -/
theorem empty_no_missing : ∀ s ∈ schemas, ∀ n : Nat,
    noMissing (rows (emptyF s n).rows) = true ∧ rowsHaveFields s.declaredNames (rows (emptyF s n).rows) = true := by
  have key : ∀ s ∈ schemas, (s.defaultRow.all fun kv => kv.2 != Cell.nan) = true ∧
      sameFields (s.defaultRow.map (·.1)) s.declaredNames = true := by decide
  intro s hs n
  have hr := (emptyF_rows s n).2
  constructor
  · unfold noMissing; rw [List.all_eq_true]; intro r hrm; rw [hr r hrm]; exact (key s hs).1
  · unfold rowsHaveFields; rw [List.all_eq_true]; intro r hrm; rw [hr r hrm]; exact (key s hs).2

/-- before the repair of D08 the rows of `QuaHitList.empty(n)` had NaN for `keysounds` -/
theorem empty_nan_counterexample :
    ∃ s ∈ schemas, s.name = "QuaHitList" ∧ (s.defaultRowOld.all fun kv => kv.2 != Cell.nan) = false := by
  decide

/-- the same for `cls([])` -/
theorem nil_declared : ∀ s ∈ schemas, hasDeclaredFields s (emptyFrame s).cols = true := by decide

/-- before the repair of D09 (`reset_index()` without `drop=True`) no list class had the declared fields -/
theorem empty_index_counterexample : ∀ s ∈ schemas, ∀ n : Nat, hasDeclaredFields s (emptyOldF s n).cols = false := by
  have key : ∀ s ∈ schemas, hasDeclaredFields s ("index" :: s.declaredNames) = false := by decide
  intro s hs n
  exact key s hs

/-- an item built by the constructor from keywords that are all named parameters has the named parameters as
its fields, in order -/
theorem mkItem_keys (ps : List (String × Option Cell)) (kw it : Rec) (h : mkItem ps kw = .ok it)
    (hk : ∀ kv ∈ kw, (ps.map (·.1)).contains kv.1 = true) : it.map (·.1) = ps.map (·.1) := by
  unfold mkItem at h
  split at h
  · cases h
  · rename_i named hn
    cases h
    have hfil : kw.filter (fun kv => !(ps.map (·.1)).contains kv.1) = [] := by
      rw [List.filter_eq_nil_iff]; intro kv hkv h
      rw [hk kv hkv] at h; exact absurd h (by decide)
    rw [hfil, List.append_nil]
    clear hfil hk
    induction ps generalizing named with
    | nil => simp [mapE] at hn; subst hn; rfl
    | cons p ps ih =>
      simp only [mapE] at hn
      split at hn
      · cases hn
      · rename_i b hb
        split at hn
        · cases hn
        · rename_i bs hbs
          cases hn
          simp only [List.map_cons]
          rw [ih bs hbs]
          congr 1
          revert hb
          cases kw.lookup p.1 <;> cases p.2 <;> intro hb <;> simp at hb <;> (try cases hb) <;> rfl

theorem unionKeys_const (ks : List String) (rs : List Rec) (hne : rs ≠ []) (h : ∀ r ∈ rs, r.map (·.1) = ks) :
    unionKeys rs = ks := by
  induction rs with
  | nil => exact absurd rfl hne
  | cons r rs ih =>
    have hr : r.map (·.1) = ks := h r (List.mem_cons_self)
    simp only [unionKeys, hr]
    cases rs with
    | nil => simp [unionKeys]
    | cons r' rs' =>
      rw [ih (by simp) (fun q hq => h q (List.mem_cons_of_mem _ hq))]
      have : ks.filter (fun k => !ks.contains k) = [] := by
        rw [List.filter_eq_nil_iff]; intro k hk; simp [hk]
      rw [this, List.append_nil]

/-- every list class but `OsuSvList` declares exactly its constructor's named parameters -/
theorem params_declared : ∀ s ∈ schemas, s.name ≠ "OsuSvList" → sameFields s.paramNames s.declaredNames = true := by
  decide

/-- **A list built from items has exactly the declared fields** — every list class except `OsuSvList`
(finding D34), any non-empty list of items built by the constructor from its named parameters. -/
theorem fromItems_declared (s : Schema) (hs : s ∈ schemas) (hname : s.name ≠ "OsuSvList")
    (kws items : List Rec) (hne : kws ≠ [])
    (hk : ∀ kw ∈ kws, ∀ kv ∈ kw, s.paramNames.contains kv.1 = true)
    (h : mapE (mkItem s.params) kws = .ok items) :
    hasDeclaredFields s (fromItemsF s items).cols = true ∧ (fromItemsF s items).rows.length = kws.length := by
  have hall : ∀ kws items, mapE (mkItem s.params) kws = .ok items →
      (∀ kw ∈ kws, ∀ kv ∈ kw, s.paramNames.contains kv.1 = true) →
      items.length = kws.length ∧ ∀ r ∈ items, r.map (·.1) = s.paramNames := by
    intro kws
    induction kws with
    | nil => intro items h _; simp [mapE] at h; subst h; simp
    | cons kw kws ih =>
      intro items h hk
      simp only [mapE] at h
      split at h
      · cases h
      · rename_i it hit
        split at h
        · cases h
        · rename_i its hits
          cases h
          obtain ⟨hl, hr⟩ := ih its hits (fun q hq => hk q (List.mem_cons_of_mem _ hq))
          refine ⟨by simp [hl], ?_⟩
          intro r hr'
          rcases List.mem_cons.mp hr' with rfl | hr'
          · exact mkItem_keys s.params kw _ hit (hk kw (List.mem_cons_self))
          · exact hr r hr'
  obtain ⟨hl, hr⟩ := hall kws items h hk
  have hine : items ≠ [] := by
    intro h0; rw [h0] at hl; cases kws with
    | nil => exact hne rfl
    | cons _ _ => simp at hl
  have hcols : (fromItemsF s items).cols = s.paramNames := by
    cases items with
    | nil => exact absurd rfl hine
    | cons i is => exact unionKeys_const _ _ (by simp) hr
  have hrows : (fromItemsF s items).rows.length = kws.length := by
    cases items with
    | nil => exact absurd rfl hine
    | cons i is => simp [fromItemsF, relabel, length_relabelFrom, ← hl]
  exact ⟨by rw [hasDeclaredFields, hcols]; exact params_declared s hs hname, hrows⟩

/-- D34: an `OsuSvList` built from one `OsuSv(offset=1)` has a `metronome` column that is not declared -/
theorem osuSv_items_counterexample :
    ∃ s ∈ schemas, s.name = "OsuSvList" ∧ s.declaredNames.contains "metronome" = false ∧
      (match mkItem s.params [("offset", .num 1)] with
        | .ok item => (fromItemsF s [item]).cols.contains "metronome" && !hasDeclaredFields s (fromItemsF s [item]).cols
        | .error _ => false) = true := by
  decide

/-- `from_dict` refuses a dict with an undeclared key -/
theorem fromDict_undeclared (s : Schema) (d : List (String × List Cell)) (k : String)
    (hk : k ∈ d.map (·.1)) (hn : s.declaredNames.contains k = false) : fromDictF s d = .error .value := by
  cases d with
  | nil => simp at hk
  | cons kv d' =>
    simp only [fromDictF]
    rw [if_neg]
    intro hall
    rw [List.all_eq_true] at hall
    have := hall k hk
    rw [hn] at this
    cases this

/-- **A list built from a dict has exactly the declared fields**: every non-empty dict whose keys are declared,
every schema (list-valued defaults included, post-D24). -/
theorem fromDict_declared (s : Schema) (hnd : s.declaredNames.Nodup) (d : List (String × List Cell))
    (hne : d ≠ []) (hkeys : (d.map (·.1)).Nodup) (hdecl : ∀ k ∈ d.map (·.1), k ∈ s.declaredNames) :
    ∃ f, fromDictF s d = .ok f ∧ hasDeclaredFields s f.cols = true := by
  cases d with
  | nil => exact absurd rfl hne
  | cons kv d' =>
    simp only [fromDictF]
    have hall : ((kv :: d').map (·.1)).all (fun k => s.declaredNames.contains k) = true := by
      rw [List.all_eq_true]; intro k hk; simpa using hdecl k hk
    rw [if_pos hall]
    refine ⟨_, rfl, ?_⟩
    simp only [hasDeclaredFields, sameFields, Bool.and_eq_true, List.all_eq_true, decide_eq_true_eq]
    refine ⟨⟨?_, ?_⟩, ?_⟩
    · intro k hk
      rcases List.mem_append.mp hk with hk | hk
      · simpa using hdecl k hk
      · rw [List.mem_map] at hk
        obtain ⟨p, hp, rfl⟩ := hk
        have := (List.mem_filter.mp hp).1
        simp only [List.contains_iff_mem, Schema.declaredNames]
        exact List.mem_map_of_mem this
    · intro k hk
      simp only [List.contains_iff_mem]
      by_cases hkd : k ∈ (kv :: d').map (·.1)
      · exact List.mem_append_left _ hkd
      · apply List.mem_append_right
        simp only [Schema.declaredNames, List.mem_map] at hk
        obtain ⟨p, hp, rfl⟩ := hk
        exact List.mem_map_of_mem (List.mem_filter.mpr ⟨hp, by simpa using hkd⟩)
    · rw [List.nodup_append]
      refine ⟨hkeys, ?_, ?_⟩
      · have : List.Sublist ((s.declared.filter (fun p => !((kv :: d').map (·.1)).contains p.1)).map (·.1)) s.declaredNames :=
          (List.filter_sublist).map _
        exact this.nodup hnd
      · intro a ha b hb hab
        subst hab
        rw [List.mem_map] at hb
        obtain ⟨p, hp, rfl⟩ := hb
        have h3 := (List.mem_filter.mp hp).2
        have h2 : ((kv :: d').map (·.1)).contains p.1 = true := by simpa using ha
        rw [h2] at h3
        exact absurd h3 (by decide)

/-- D24 (repaired): before the fix `QuaHitList.from_dict({"offset": [1], "column": [1]})` raised instead of
filling `keysounds`; now it has the declared fields and one row -/
theorem fromDict_list_default_counterexample :
    ∃ s ∈ schemas, s.name = "QuaHitList" ∧
      (match fromDictOldF s [("offset", [.num 1]), ("column", [.num 1])] with
        | .error .value => true
        | _ => false) = true ∧
      (match fromDictF s [("offset", [.num 1]), ("column", [.num 1])] with
        | .ok f => hasDeclaredFields s f.cols && f.rows.length == 1
        | .error _ => false) = true := by
  decide

/-! ## 7. An item built from a row carries the row's values -/

theorem lookup_mapE_named (ps : List (String × Option Cell)) (kw named : Rec) (k : String) (v : Cell)
    (hn : mapE (fun (p : String × Option Cell) =>
      match kw.lookup p.1, p.2 with
      | some v, _ => Except.ok (p.1, v)
      | none, some d => .ok (p.1, d)
      | none, none => .error Err.type) ps = .ok named)
    (hv : kw.lookup k = some v) (hk : k ∈ ps.map (·.1)) : named.lookup k = some v := by
  induction ps generalizing named with
  | nil => simp at hk
  | cons p ps ih =>
    simp only [mapE] at hn
    split at hn
    · cases hn
    · rename_i b hb
      split at hn
      · cases hn
      · rename_i bs hbs
        cases hn
        by_cases hpk : p.1 = k
        · have : b = (k, v) := by
            rw [hpk, hv] at hb
            simp at hb; exact hb.symm
          rw [this]; simp [List.lookup]
        · have hb1 : b.1 = p.1 := by
            revert hb
            cases kw.lookup p.1 <;> cases p.2 <;> intro hb <;> simp at hb <;> (try cases hb) <;> rfl
          have hne : (k == b.1) = false := by
            rw [hb1]; simp; exact fun h => hpk h.symm
          rw [List.lookup_cons, hne]
          apply ih bs hbs
          simp only [List.map_cons, List.mem_cons] at hk
          rcases hk with h | h
          · exact absurd h.symm hpk
          · exact h

theorem lookup_append_of_not_mem (a b : Rec) (k : String) (h : k ∉ a.map (·.1)) : (a ++ b).lookup k = b.lookup k := by
  induction a with
  | nil => rfl
  | cons p a ih =>
    simp only [List.map_cons, List.mem_cons, not_or] at h
    have : (k == p.1) = false := by simp; exact h.1
    rw [List.cons_append, List.lookup_cons, this]
    exact ih h.2

theorem lookup_filter_key (kw : Rec) (q : String → Bool) (k : String) (hq : q k = true) :
    (kw.filter fun kv => q kv.1).lookup k = kw.lookup k := by
  induction kw with
  | nil => rfl
  | cons p kw ih =>
    obtain ⟨pk, pv⟩ := p
    by_cases hqp : q pk = true
    · have e : List.filter (fun kv => q kv.1) ((pk, pv) :: kw) = (pk, pv) :: List.filter (fun kv => q kv.1) kw := by
        simp [hqp]
      rw [e, List.lookup_cons, List.lookup_cons, ih]
    · have e : List.filter (fun kv => q kv.1) ((pk, pv) :: kw) = List.filter (fun kv => q kv.1) kw := by
        simp [hqp]
      have hne : (k == pk) = false := by
        rw [beq_eq_false_iff_ne]; intro h; rw [← h] at hqp; exact hqp hq
      rw [e, List.lookup_cons, hne]; exact ih

theorem mkItem_named_keys (ps : List (String × Option Cell)) (kw named : Rec)
    (hn : mapE (fun (p : String × Option Cell) =>
      match kw.lookup p.1, p.2 with
      | some v, _ => Except.ok (p.1, v)
      | none, some d => .ok (p.1, d)
      | none, none => .error Err.type) ps = .ok named) : named.map (·.1) = ps.map (·.1) := by
  induction ps generalizing named with
  | nil => simp [mapE] at hn; subst hn; rfl
  | cons p ps ih =>
    simp only [mapE] at hn
    split at hn
    · cases hn
    · rename_i b hb
      split at hn
      · cases hn
      · rename_i bs hbs
        cases hn
        simp only [List.map_cons]
        rw [ih bs hbs]
        congr 1
        revert hb
        cases kw.lookup p.1 <;> cases p.2 <;> intro hb <;> simp at hb <;> (try cases hb) <;> rfl

/-- **Item of a row** (`tl[i]`, no name filter): whenever the constructor accepts the row, every field of the
row is a field of the item with the same value — for any constructor signature. -/
theorem item_of_row (ps : List (String × Option Cell)) (row it : Rec) (h : mkItem ps row = .ok it)
    (k : String) (v : Cell) (hv : row.lookup k = some v) : it.lookup k = some v := by
  unfold mkItem at h
  split at h
  · cases h
  · rename_i named hn
    cases h
    by_cases hk : k ∈ ps.map (·.1)
    · have := lookup_mapE_named ps row named k v hn hv hk
      rw [List.lookup_append, this]; rfl
    · rw [lookup_append_of_not_mem _ _ _ (by rw [mkItem_named_keys ps row named hn]; exact hk)]
      rw [lookup_filter_key row (fun n => !(ps.map (·.1)).contains n) k (by simpa using hk)]
      exact hv

/-- iteration (`from_series`): the allowed fields of the row are carried -/
theorem item_of_series (s : Schema) (row it : Rec) (h : fromSeries s row = .ok it)
    (k : String) (v : Cell) (hv : row.lookup k = some v) (hk : s.allowed.contains k = true) : it.lookup k = some v := by
  unfold fromSeries at h
  apply item_of_row s.params _ it h k v
  rw [lookup_filter_key row (fun n => s.allowed.contains n) k hk]
  exact hv

theorem lookup_of_mem_nodup (row : Rec) (h : (row.map (·.1)).Nodup) (kv : String × Cell) (hkv : kv ∈ row) :
    row.lookup kv.1 = some kv.2 := by
  induction row with
  | nil => cases hkv
  | cons p row ih =>
    obtain ⟨pk, pv⟩ := p
    simp only [List.map_cons, List.nodup_cons] at h
    rcases List.mem_cons.mp hkv with rfl | hm
    · simp
    · have hne : (kv.1 == pk) = false := by
        rw [beq_eq_false_iff_ne]; intro e; apply h.1; rw [← e]; exact List.mem_map_of_mem hm
      rw [List.lookup_cons, hne]; exact ih h.2 hm

/-- the decidable check the harness runs on `tl[i]` (`itemCarries` over all fields of the row) holds for the model -/
theorem getItem_carries (ps : List (String × Option Cell)) (row it : Rec) (h : mkItem ps row = .ok it)
    (hnd : (row.map (·.1)).Nodup) : itemCarries (row.map (·.1)) row it = true := by
  unfold itemCarries
  rw [List.all_eq_true]
  intro kv hkv
  have := item_of_row ps row it h kv.1 kv.2 (lookup_of_mem_nodup row hnd kv hkv)
  simp [this]

/-- the decidable check the harness runs on iterated items (`itemCarries` over the declared fields) holds for
the model, for every schema whose declared names are allowed names (`schemas_tie`) -/
theorem iter_carries (s : Schema) (hs : s.declaredNames.all (fun k => s.allowed.contains k) = true) (row it : Rec)
    (h : fromSeries s row = .ok it) (hnd : (row.map (·.1)).Nodup) : itemCarries s.declaredNames row it = true := by
  unfold itemCarries
  rw [List.all_eq_true]
  intro kv hkv
  by_cases hk : s.declaredNames.contains kv.1 = true
  · rw [List.all_eq_true] at hs
    have hal := hs kv.1 (by simpa using hk)
    have := item_of_series s row it h kv.1 kv.2 (lookup_of_mem_nodup row hnd kv hkv) hal
    simp [this]
  · have hk' : kv.1 ∉ s.declaredNames := by simpa using hk
    simp [hk']

/-! ## 8. Non-vacuity and regression examples (kernel-evaluated) -/

section examples

def exRows : Tbl Rec :=
  [(7, [("offset", .num 3), ("length", .num 2)]), (3, [("offset", .num 1), ("length", .num 5)]),
   (3, [("offset", .num 2), ("length", .num (1/2))]), (-1, [("offset", .num 1), ("length", .num 1)])]

-- a history: sort, slice, tail filter on the bound
example : (run recOff recLen [.sorted false, .slice (some 1) (some 3) none, .hAfter 2 true true] exRows).map rows
    = .ok [[("offset", .num 1), ("length", .num 1)], [("offset", .num 2), ("length", .num (1/2))]] := by decide +kernel
-- the hypothesis of `after_boundary` is satisfiable, and the flag decides
example : afterT recOff exRows 2 true = .ok [exRows[0], exRows[2]] := by decide +kernel
example : (afterT recOff exRows 2 false).map rows = .ok [exRows[0].2] := by decide +kernel
-- Python slices
-- a pool: sorting list 0 adds list 1 and leaves list 0 in its order; reversing list 0 again does not touch list 1
example : (runPool recOff recLen [(0, .sorted false), (0, .sorted true), (1, .slice none (some 1) none)] [exRows]).map
      (List.map (List.map (fun r => recOff r.2)))
    = .ok [[3, 1, 2, 1], [1, 1, 2, 3], [3, 2, 1, 1], [1]] := by decide +kernel
example : pySlice [0, 1, 2, 3, 4] (some (-2)) none none = .ok [3, 4] := by decide +kernel
example : pySlice [0, 1, 2, 3, 4] none none (some (-2)) = .ok [4, 2, 0] := by decide +kernel
example : pySlice [0, 1, 2, 3, 4] (some 1) (some 100) (some 2) = .ok [1, 3] := by decide +kernel
example : pySlice [0, 1, 2, 3, 4] (some 4) (some 0) (some (-1)) = .ok [4, 3, 2, 1] := by decide +kernel
example : pySlice [0, 1, 2] none none (some 0) = .error .value := by decide +kernel
example : pyGet [10, 20, 30] (-1) = .ok 30 ∧ pyGet [10, 20, 30] 3 = .error .index ∧ pyGet [10, 20, 30] (-4) = .error .index := by
  decide +kernel
-- `hLastOffset` raises on the empty list, `lastOffset` has no value
example : hLastOffset recOff recLen ([] : Tbl Rec) = .error .value ∧ lastOffset recOff ([] : Tbl Rec) = none := by decide +kernel
example : hLastOffset recOff recLen exRows = .ok 6 ∧ firstOffset recOff exRows = some 1 := by decide +kernel
-- `fromItems_declared`, `fromDict_declared`: hypotheses satisfiable
example : ∃ s ∈ schemas, s.name = "OsuHoldList" ∧
    (match mapE (mkItem s.params) [[("offset", .num 1), ("column", .num 2), ("length", .num 3)]] with
      | .ok items => hasDeclaredFields s (fromItemsF s items).cols
      | .error _ => false) = true := by decide +kernel
example : ∃ s ∈ schemas, s.name = "OsuBpmList" ∧
    (match fromDictF s [("offset", [.num 1, .num 2])] with
      | .ok f => hasDeclaredFields s f.cols && f.rows.length == 2
      | .error _ => false) = true := by decide +kernel
-- `item_of_row`
example : ∃ s ∈ schemas, s.name = "HoldList" ∧
    getItem s [(5, [("length", .num 1), ("column", .num 2), ("offset", .num 1)])] (-1)
      = .ok [("offset", .num 1), ("column", .num 2), ("length", .num 1)] ∧
    getItem s exRows 0 = .error .type := by decide +kernel

end examples

end Reamber.TList
