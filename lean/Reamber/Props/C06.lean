/-
C06 — Quaver file and in-memory chart denote the same chart, both directions.
Property theorems (helper lemmas: `Reamber/Lemmas/Qua.lean`).  Statements are about the executable model
`Reamber/Model/Qua.lean`, which the correspondence check ties to reamber/quaver/* on every run, and are
stated against `Reamber/Spec/Qua.lean` (`denote`, `quantize`, `closeChart`, `docAllowed`) — the same
definitions the harness evaluates on the implementation's output.
-/
import Reamber.Lemmas.Qua
import Reamber.Generated.QuaTables

namespace Reamber.Qua

open Spec

/-! ## tie to the source -/

def tyOfAnnot : String → Option Ty
  | "str" => some .str
  | "int" => some .int
  | "bool" => some .bool
  | "float" => some .num
  | "List[str]" => some .list
  | _ => none

/-- Every constant / table the model and the specification depend on is the one the translator read from
the source (`harness/translators/qua_tables.py`): metadata keys, attribute order and dataclass defaults,
the keys `_read_metadata` and `_write_meta` use, the annotated type of every attribute, the `.get` defaults of
`_read_bpms` / `_read_svs`, `Bpm.__init__`'s metronome default, the rename / fillna / astype tables and the lane
shift of the four `from_yaml` / `to_yaml`, the order of the section pops. -/
theorem consts_tie :
    metaTable = Generated.Qua.metaTable ∧
    Generated.Qua.metaReadKeys = Generated.Qua.metaWriteKeys ∧
    Generated.Qua.metaWriteKeys.map Prod.fst = metaKeys ∧
    Generated.Qua.tagsRead = (tagsKey, "", " ") ∧ Generated.Qua.tagsJoin = " " ∧
    metaKeyTypes.map (fun kt => (kt.1, some kt.2)) =
      Generated.Qua.metaAnnotations.map (fun ka => (ka.1, if ka.1 = tagsKey then some Ty.str else tyOfAnnot ka.2)) ∧
    Generated.Qua.readBpmDefaults = [("StartTime", dfltStart), ("Bpm", dfltBpm)] ∧
    Generated.Qua.readSvDefaults = [("StartTime", dfltStart), ("Multiplier", dfltMultiplier)] ∧
    Generated.Qua.bpmMetronomeDefault = dfltMetronome ∧
    Generated.Qua.hitRename = [("StartTime", "offset"), ("Lane", "column"), ("KeySounds", "keysounds")] ∧
    Generated.Qua.holdRename =
      [("StartTime", "offset"), ("Lane", "column"), ("KeySounds", "keysounds"), ("EndTime", "length")] ∧
    Generated.Qua.hitFill = [("offset", fillOffset), ("column", fillColumn)] ∧
    Generated.Qua.holdFill =
      [("StartTime", fillOffset), ("offset", fillOffset), ("column", fillColumn), ("length", fillLength)] ∧
    Generated.Qua.hitShift = [("column", "Sub", laneShift), ("column", "Add", laneShift)] ∧
    Generated.Qua.holdShift = [("EndTime", "Sub", 0), ("column", "Sub", laneShift), ("column", "Add", laneShift)] ∧
    Generated.Qua.hitAstype = [("offset", "int"), ("column", "int")] ∧
    Generated.Qua.holdAstype = [("offset", "int"), ("column", "int"), ("EndTime", "int")] ∧
    Generated.Qua.bpmAstype = [("offset", "int"), ("bpm", "float")] ∧
    Generated.Qua.svAstype = [("offset", "int"), ("multiplier", "float")] ∧
    Generated.Qua.hitToYaml = [("offset", "StartTime"), ("column", "Lane"), ("keysounds", "KeySounds")] ∧
    Generated.Qua.holdToYaml = [("offset", "StartTime"), ("column", "Lane"), ("keysounds", "KeySounds")] ∧
    Generated.Qua.bpmToYaml = [("offset", "StartTime"), ("bpm", "Bpm")] ∧
    Generated.Qua.svToYaml = [("offset", "StartTime"), ("multiplier", "Multiplier")] ∧
    Generated.Qua.bpmDrop = ["metronome"] ∧ Generated.Qua.holdDrop = ["length"] ∧
    Generated.Qua.sectionPops = ["HitObjects", "TimingPoints", "SliderVelocities"] ∧
    Generated.Qua.writeSections = ["TimingPoints", "SliderVelocities", "HitObjects"] := by
  repeat' apply And.intro
  all_goals decide +kernel

/-! ## "times moved by less than 1 ms" -/

theorem closeT_trunc (q : Rat) : closeT q (truncI q : Rat) = true := by
  have h := truncI_close q
  simp [closeT, h.1, h.2]

theorem closeList_map {α} (f : α → α → Bool) (g : α → α) (h : ∀ a, f a (g a) = true) :
    ∀ l : List α, closeList f l (l.map g) = true
  | [] => rfl
  | a :: t => by simp [closeList, h a, closeList_map f g h t]

/-- **What a file can carry is within 1 ms of the chart**: every head, tail, tempo point and scroll velocity
of `quantize c` lies less than 1 ms from its original; lanes, key sounds, tempi, multipliers are unchanged. -/
theorem closeChart_quantize (c : Chart) : closeChart c (quantize c) = true := by
  unfold closeChart quantize
  simp only [Bool.and_eq_true]
  refine ⟨⟨⟨closeList_map _ _ ?_ _, closeList_map _ _ ?_ _⟩, closeList_map _ _ ?_ _⟩, closeList_map _ _ ?_ _⟩
  · intro h; simp [closeHit, qHit, closeT_trunc]
  · intro h
    simp only [closeHold, qHold, Bool.and_eq_true]
    rw [add_sub_self]
    simp [closeT_trunc]
  · intro b; simp [closeBpm, qBpm, closeT_trunc]
  · intro s; simp [closeSv, qSv, closeT_trunc]

/-! ## write, then read -/

theorem hasEnd_writeHit (h : Hit) : hasEnd (writeHit h) = false := by
  simp [hasEnd, writeHit, Rec.get, List.lookup]

theorem hasEnd_writeHold (h : Hold) : hasEnd (writeHold h) = true := by
  simp [hasEnd, writeHold, Rec.get, List.lookup]

theorem intOfRat_lane (c : Int) : intOfRat (((c + laneShift : Int) : Rat) - (laneShift : Rat)) = .ok c := by
  have : ((c + laneShift : Int) : Rat) - (laneShift : Rat) = (c : Rat) := by push_cast; linarith
  rw [this]
  simp [intOfRat]

theorem intOfRat_int (c : Int) : intOfRat (c : Rat) = .ok c := by simp [intOfRat]

theorem ksCell_write (k : KsCell) (r : Rec) (a b : String × YV) :
    ksCell (a :: b :: ("KeySounds", ksYV k) :: r) = .ok k ∨ a.1 = "KeySounds" ∨ b.1 = "KeySounds" := by
  by_cases ha : a.1 = "KeySounds"
  · exact Or.inr (Or.inl ha)
  by_cases hb : b.1 = "KeySounds"
  · exact Or.inr (Or.inr hb)
  left
  have ha' : ("KeySounds" == a.1) = false := by simpa using fun e => ha e.symm
  have hb' : ("KeySounds" == b.1) = false := by simpa using fun e => hb e.symm
  cases k <;> simp [ksCell, Rec.get, List.lookup, ha', hb', ksYV]

theorem noteRowOf_writeHit (h : Hit) :
    noteRowOf (writeHit h) = .ok (⟨some (truncI h.offset : Rat), none, some ((h.column + laneShift : Int) : Rat), h.keysounds⟩ : NoteRow) := by
  have hk : ksCell (writeHit h) = .ok h.keysounds := by
    rcases ksCell_write h.keysounds [] ("StartTime", .int (truncI h.offset)) ("Lane", .int (h.column + laneShift)) with e | e | e
    · exact e
    · simp at e
    · simp at e
  simp only [noteRowOf, hk]
  simp [writeHit, numCell, Rec.get, List.lookup, numOf, bind, Except.bind, Except.map]

theorem noteRowOf_writeHold (h : Hold) :
    noteRowOf (writeHold h) = .ok (⟨some (truncI h.offset : Rat), some (truncI (h.offset + h.length) : Rat),
      some ((h.column + laneShift : Int) : Rat), h.keysounds⟩ : NoteRow) := by
  have hk : ksCell (writeHold h) = .ok h.keysounds := by
    rcases ksCell_write h.keysounds [("EndTime", .int (truncI (h.offset + h.length)))]
      ("StartTime", .int (truncI h.offset)) ("Lane", .int (h.column + laneShift)) with e | e | e
    · exact e
    · simp at e
    · simp at e
  simp only [noteRowOf, hk]
  simp [writeHold, numCell, Rec.get, List.lookup, numOf, bind, Except.bind, Except.map]

/-- the frame rows `pd.DataFrame(dicts)` builds from written records -/
def rowH (h : Hit) : NoteRow := ⟨some (truncI h.offset : Rat), none, some ((h.column + laneShift : Int) : Rat), h.keysounds⟩
def rowL (h : Hold) : NoteRow :=
  ⟨some (truncI h.offset : Rat), some (truncI (h.offset + h.length) : Rat), some ((h.column + laneShift : Int) : Rat), h.keysounds⟩

theorem hitsFromYaml_write (hs : List Hit) (hne : hs ≠ []) :
    hitsFromYaml (hs.map writeHit) = .ok (hs.map qHit) := by
  unfold hitsFromYaml
  rw [mapE_map_ok noteRowOf writeHit rowH noteRowOf_writeHit hs]
  simp only [bind, Except.bind]
  have hall : (hs.map rowH).all (fun r => r.lane.isNone) = false := by
    cases hs with
    | nil => exact absurd rfl hne
    | cons a t => simp [rowH]
  rw [hall]
  simp only [Bool.false_eq_true, if_false, List.map_map]
  apply mapE_map_ok
  intro h
  simp [rowH, intOfRat_int, qHit, fillOffset]

theorem holdsFromYaml_write (hs : List Hold) (hne : hs ≠ []) :
    holdsFromYaml (hs.map writeHold) = .ok (hs.map qHold) := by
  unfold holdsFromYaml
  rw [mapE_map_ok noteRowOf writeHold rowL noteRowOf_writeHold hs]
  simp only [bind, Except.bind, List.map_map]
  have hall : (List.map ((fun r : NoteRow => { r with endT := nanSub r.endT r.start }) ∘
      (fun r : NoteRow => { r with start := some (r.start.getD fillOffset) }) ∘ rowL) hs).all
      (fun r => r.lane.isNone) = false := by
    cases hs with
    | nil => exact absurd rfl hne
    | cons a t => simp [rowL]
  rw [hall]
  simp only [Bool.false_eq_true, if_false]
  apply mapE_map_ok
  intro h
  simp [rowL, intOfRat_int, qHold, fillOffset, fillLength, nanSub]

theorem filter_hits (hs : List Hit) (ls : List Hold) :
    (hs.map writeHit ++ ls.map writeHold).filter (fun r => !hasEnd r) = hs.map writeHit := by
  rw [List.filter_append]
  have h1 : (hs.map writeHit).filter (fun r => !hasEnd r) = hs.map writeHit := by
    apply List.filter_eq_self.mpr
    intro r hr
    obtain ⟨h, _, rfl⟩ := List.mem_map.mp hr
    simp [hasEnd_writeHit]
  have h2 : (ls.map writeHold).filter (fun r => !hasEnd r) = [] := by
    apply List.filter_eq_nil_iff.mpr
    intro r hr
    obtain ⟨h, _, rfl⟩ := List.mem_map.mp hr
    simp [hasEnd_writeHold]
  rw [h1, h2, List.append_nil]

theorem filter_holds (hs : List Hit) (ls : List Hold) :
    (hs.map writeHit ++ ls.map writeHold).filter hasEnd = ls.map writeHold := by
  rw [List.filter_append]
  have h1 : (hs.map writeHit).filter hasEnd = [] := by
    apply List.filter_eq_nil_iff.mpr
    intro r hr
    obtain ⟨h, _, rfl⟩ := List.mem_map.mp hr
    simp [hasEnd_writeHit]
  have h2 : (ls.map writeHold).filter hasEnd = ls.map writeHold := by
    apply List.filter_eq_self.mpr
    intro r hr
    obtain ⟨h, _, rfl⟩ := List.mem_map.mp hr
    simp [hasEnd_writeHold]
  rw [h1, h2, List.nil_append]

/-- hits only, holds only, no objects at all are the cases `hs = []` / `ls = []` of this statement -/
theorem readNotes_write (hs : List Hit) (ls : List Hold) :
    readNotes (hs.map writeHit ++ ls.map writeHold) = .ok (hs.map qHit, ls.map qHold) := by
  unfold readNotes
  simp only [filter_hits, filter_holds]
  cases hs with
  | nil =>
    cases ls with
    | nil => rfl
    | cons a t =>
      have e2 := holdsFromYaml_write (a :: t) (by simp)
      simp only [List.map_cons] at e2
      simp [e2, bind, Except.bind]
  | cons b u =>
    have e1 := hitsFromYaml_write (b :: u) (by simp)
    simp only [List.map_cons] at e1
    cases ls with
    | nil => simp [e1, bind, Except.bind]
    | cons a t =>
      have e2 := holdsFromYaml_write (a :: t) (by simp)
      simp only [List.map_cons] at e2
      simp [e1, e2, bind, Except.bind]

theorem readBpm_write (b : Bpm) : readBpm (writeBpm b) = .ok (qBpm b) := by
  simp [readBpm, writeBpm, numCell, Rec.get, List.lookup, numOf, bind, Except.bind, Except.map, qBpm, dfltMetronome]

theorem readSv_write (s : Sv) : readSv (writeSv s) = .ok (qSv s) := by
  simp [readSv, writeSv, numCell, Rec.get, List.lookup, numOf, bind, Except.bind, Except.map, qSv]

/-! metadata -/

/-- `_write_meta` on one entry, as a function -/
def wvP (kv : String × YV) : String × YV :=
  if kv.1 = tagsKey then
    match kv.2 with
    | .strs l => (kv.1, .str (joinTags l))
    | _ => kv
  else kv

theorem wvP_fst (kv : String × YV) : (wvP kv).1 = kv.1 := by
  unfold wvP; split
  · split <;> rfl
  · rfl

/-- the hypotheses on the metadata of a chart: its entries are the 21 attributes in order, and every tag can
survive `" ".join` / `split(" ")` (non-empty, no space) -/
def MetaOk (m : Rec) : Prop := metaKeysOk m = true ∧ tagsOk m = true

theorem metaKeys_nodup : metaKeys.Nodup := by decide

theorem tags_of_metaOk (m : Rec) (h : MetaOk m) (kv : String × YV) (hkv : kv ∈ m) (hk : kv.1 = tagsKey) :
    ∃ l, kv.2 = .strs l ∧ l.all tagOk = true := by
  obtain ⟨hkeys, htags⟩ := h
  have hk' : m.map Prod.fst = metaKeys := by simpa [metaKeysOk] using hkeys
  have hl : m.lookup tagsKey = some kv.2 := by
    apply lookup_of_mem_nodup m tagsKey kv.2 (by rw [hk']; exact metaKeys_nodup)
    rw [← hk]; exact hkv
  unfold tagsOk Rec.get at htags
  rw [hl] at htags
  cases hv : kv.2 with
  | strs l => exact ⟨l, rfl, by simpa [hv] using htags⟩
  | _ => simp [hv] at htags

theorem writeMeta_ok (m : Rec) (h : MetaOk m) : writeMeta m = .ok (m.map wvP) := by
  unfold writeMeta
  apply mapE_ok
  intro kv hkv
  unfold writeMetaVal wvP
  by_cases hk : kv.1 = tagsKey
  · obtain ⟨l, hl, _⟩ := tags_of_metaOk m h kv hkv hk
    simp [hk, hl]
  · simp [hk]

theorem readMetaVal_written (m : Rec) (h : MetaOk m) (kv : String × YV) (hkv : kv ∈ m) (d : YV) :
    readMetaVal (m.map wvP) kv.1 d = .ok kv.2 := by
  have hk' : m.map Prod.fst = metaKeys := by simpa [metaKeysOk] using h.1
  have hnd : ((m.map wvP).map Prod.fst).Nodup := by
    rw [List.map_map]
    have : (Prod.fst ∘ wvP) = (Prod.fst : String × YV → String) := by funext x; simp [wvP_fst]
    rw [this, hk']; exact metaKeys_nodup
  have hl : (m.map wvP).lookup kv.1 = some (wvP kv).2 := by
    apply lookup_of_mem_nodup _ _ _ hnd
    have : (kv.1, (wvP kv).2) = wvP kv := by rw [← wvP_fst kv]
    rw [this]
    exact List.mem_map.mpr ⟨kv, hkv, rfl⟩
  unfold readMetaVal Rec.get
  rw [hl]
  by_cases hk : kv.1 = tagsKey
  · obtain ⟨l, hl', hok⟩ := tags_of_metaOk m h kv hkv hk
    simp [hk, wvP, hl', tagsOf_joinTags l hok]
  · simp [hk, wvP]

theorem mapE_table (G : String → YV → Except Err YV) :
    ∀ (tbl s : Rec), tbl.map Prod.fst = s.map Prod.fst → (∀ kv ∈ s, ∀ d, G kv.1 d = .ok kv.2) →
      mapE (fun kd => (G kd.1 kd.2).map (fun v => (kd.1, v))) tbl = .ok s
  | [], [], _, _ => rfl
  | [], _ :: _, h, _ => by simp at h
  | _ :: _, [], h, _ => by simp at h
  | (k, d) :: t, (k', v) :: s, h, hG => by
    simp only [List.map_cons, List.cons.injEq] at h
    obtain ⟨rfl, ht⟩ := h
    have h1 := hG (k, v) (by simp) d
    have h2 := mapE_table G t s ht (fun kv hkv d => hG kv (by simp [hkv]) d)
    simp only [mapE, bind, Except.bind]
    simp only at h1
    rw [h1, h2]
    rfl

theorem readMeta_written (m : Rec) (h : MetaOk m) : readMeta (m.map wvP) = .ok m := by
  unfold readMeta
  apply mapE_table (fun k d => readMetaVal (m.map wvP) k d) metaTable m
  · have hk' : m.map Prod.fst = metaKeys := by simpa [metaKeysOk] using h.1
    rw [hk']; rfl
  · intro kv hkv d
    exact readMetaVal_written m h kv hkv d

/-- **Read after write** (`qua_read_write`): for every chart whose rows have exactly the declared fields —
any lanes, any (also NaN) key sounds, any rational times of either sign, hits only, holds only, empty
sections — and whose metadata has the 21 attributes with tags that can survive a file, reading the written
document yields exactly `quantize c`: the same objects, in the same order, times truncated to whole
milliseconds (`closeChart_quantize`: each moved by less than 1 ms), tempo points with the default metronome. -/
theorem qua_read_write (c : Chart) (hm : MetaOk c.info) : (write c >>= read) = .ok (quantize c) := by
  unfold write
  rw [writeMeta_ok c.info hm]
  simp only [bind, Except.bind, read, sectionOf]
  rw [readNotes_write]
  simp only []
  rw [mapE_map_ok readBpm writeBpm qBpm readBpm_write, mapE_map_ok readSv writeSv qSv readSv_write]
  simp only []
  rw [readMeta_written c.info hm]
  rfl

end Reamber.Qua
