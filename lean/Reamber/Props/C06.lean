/-
C06 — Quaver file and in-memory chart denote the same chart, both directions.
Property theorems (helper lemmas: `Reamber/Lemmas/Qua.lean`).  Statements are about the executable model
`Reamber/Model/Qua.lean`, which the correspondence check ties to reamber/quaver/* on every run, and are
stated against `Reamber/Spec/Qua.lean` (`denote`, `quantize`, `closeChart`, `docAllowed`) — the same
definitions the harness evaluates on the implementation's output.
-/
import Reamber.Lemmas.Qua
import Reamber.Lemmas.QuaTextLex
import Reamber.Lemmas.QuaTextFloat
import Reamber.Lemmas.QuaTextStruct
import Reamber.Generated.QuaTables

namespace Reamber.Qua

open Spec

/-! ## tie to the source -/

def tyOfAnnot : String → Option Ty
  | "str" => some .str
  | "int" => some .int
  | "bool" => some .bool
  | "float" => some .num
  | "List[str]" => some .list
  | _ => none

/-- Every constant / table the model and the specification depend on is the one the translator read from
the source (`harness/translators/qua_tables.py`): metadata keys, attribute order and dataclass defaults,
the keys `_read_metadata` and `_write_meta` use, the annotated type of every attribute, the `.get` defaults of
`_read_bpms` / `_read_svs`, `Bpm.__init__`'s metronome default, the rename / fillna / astype tables and the lane
shift of the four `from_yaml` / `to_yaml`, the order of the section pops. -/
theorem consts_tie :
    metaTable = Generated.Qua.metaTable ∧
    Generated.Qua.metaReadKeys = Generated.Qua.metaWriteKeys ∧
    Generated.Qua.metaWriteKeys.map Prod.fst = metaKeys ∧
    Generated.Qua.tagsRead = (tagsKey, "", " ") ∧ Generated.Qua.tagsJoin = " " ∧
    metaKeyTypes.map (fun kt => (kt.1, some kt.2)) =
      Generated.Qua.metaAnnotations.map (fun ka => (ka.1, if ka.1 = tagsKey then some Ty.str else tyOfAnnot ka.2)) ∧
    Generated.Qua.readBpmDefaults = [("StartTime", dfltStart), ("Bpm", dfltBpm)] ∧
    Generated.Qua.readSvDefaults = [("StartTime", dfltStart), ("Multiplier", dfltMultiplier)] ∧
    Generated.Qua.bpmMetronomeDefault = dfltMetronome ∧
    Generated.Qua.hitRename = [("StartTime", "offset"), ("Lane", "column"), ("KeySounds", "keysounds")] ∧
    Generated.Qua.holdRename =
      [("StartTime", "offset"), ("Lane", "column"), ("KeySounds", "keysounds"), ("EndTime", "length")] ∧
    Generated.Qua.hitFill = [("offset", fillOffset), ("column", fillColumn)] ∧
    Generated.Qua.holdFill =
      [("StartTime", fillOffset), ("offset", fillOffset), ("column", fillColumn), ("length", fillLength)] ∧
    Generated.Qua.hitShift = [("column", "Sub", laneShift), ("column", "Add", laneShift)] ∧
    Generated.Qua.holdShift = [("EndTime", "Sub", 0), ("column", "Sub", laneShift), ("column", "Add", laneShift)] ∧
    Generated.Qua.hitAstype = [("offset", "int"), ("column", "int")] ∧
    Generated.Qua.holdAstype = [("offset", "int"), ("column", "int"), ("EndTime", "int")] ∧
    Generated.Qua.bpmAstype = [("offset", "int"), ("bpm", "float")] ∧
    Generated.Qua.svAstype = [("offset", "int"), ("multiplier", "float")] ∧
    Generated.Qua.hitToYaml = [("offset", "StartTime"), ("column", "Lane"), ("keysounds", "KeySounds")] ∧
    Generated.Qua.holdToYaml = [("offset", "StartTime"), ("column", "Lane"), ("keysounds", "KeySounds")] ∧
    Generated.Qua.bpmToYaml = [("offset", "StartTime"), ("bpm", "Bpm")] ∧
    Generated.Qua.svToYaml = [("offset", "StartTime"), ("multiplier", "Multiplier")] ∧
    Generated.Qua.bpmDrop = ["metronome"] ∧ Generated.Qua.holdDrop = ["length"] ∧
    Generated.Qua.sectionPops = ["HitObjects", "TimingPoints", "SliderVelocities"] ∧
    Generated.Qua.writeSections = ["TimingPoints", "SliderVelocities", "HitObjects"] := by
  repeat' apply And.intro
  all_goals decide +kernel

/-! ## "times moved by less than 1 ms" -/

theorem closeT_trunc (q : Rat) : closeT q (truncI q : Rat) = true := by
  have h := truncI_close q
  simp [closeT, h.1, h.2]

theorem closeList_map {α} (f : α → α → Bool) (g : α → α) :
    ∀ l : List α, (∀ a ∈ l, f a (g a) = true) → closeList f l (l.map g) = true
  | [], _ => rfl
  | a :: t, h => by
    simp [closeList, h a (by simp), closeList_map f g t (fun b hb => h b (by simp [hb]))]

theorem ksFill_of_ne (k : KsCell) (h : (k != .nan) = true) : ksFill k = k := by
  cases k with
  | nan => simp at h
  | list l => rfl

/-- **What a file can carry is within 1 ms of the chart**: every head, tail, tempo point and scroll velocity
of `quantize c` lies less than 1 ms from its original; lanes, key sounds, tempi, multipliers are unchanged
(`ksLists`: a hand-made NaN key-sound cell is not a list and reads back as `[]`; the code no longer produces one). -/
theorem closeChart_quantize (c : Chart) (hk : ksLists c = true) : closeChart c (quantize c) = true := by
  simp only [ksLists, Bool.and_eq_true, List.all_eq_true] at hk
  unfold closeChart quantize
  simp only [Bool.and_eq_true]
  refine ⟨⟨⟨closeList_map _ _ _ ?_, closeList_map _ _ _ ?_⟩, closeList_map _ _ _ ?_⟩, closeList_map _ _ _ ?_⟩
  · intro h hh; simp [closeHit, qHit, closeT_trunc, ksFill_of_ne _ (hk.1 h hh)]
  · intro h hh
    simp only [closeHold, qHold, Bool.and_eq_true]
    rw [add_sub_self]
    simp [closeT_trunc, ksFill_of_ne _ (hk.2 h hh)]
  · intro b _; simp [closeBpm, qBpm, closeT_trunc]
  · intro s _; simp [closeSv, qSv, closeT_trunc]

/-! ## write, then read -/

theorem hasEnd_writeHit (h : Hit) : hasEnd (writeHit h) = false := by
  simp [hasEnd, writeHit, Rec.get, List.lookup]

theorem hasEnd_writeHold (h : Hold) : hasEnd (writeHold h) = true := by
  simp [hasEnd, writeHold, Rec.get, List.lookup]

theorem intOfRat_lane (c : Int) : intOfRat (((c + laneShift : Int) : Rat) - (laneShift : Rat)) = .ok c := by
  have : ((c + laneShift : Int) : Rat) - (laneShift : Rat) = (c : Rat) := by push_cast; linarith
  rw [this]
  simp [intOfRat]

theorem intOfRat_int (c : Int) : intOfRat (c : Rat) = .ok c := by simp [intOfRat]

theorem ksCell_write (k : KsCell) (r : Rec) (a b : String × YV) :
    ksCell (a :: b :: ("KeySounds", ksYV k) :: r) = .ok k ∨ a.1 = "KeySounds" ∨ b.1 = "KeySounds" := by
  by_cases ha : a.1 = "KeySounds"
  · exact Or.inr (Or.inl ha)
  by_cases hb : b.1 = "KeySounds"
  · exact Or.inr (Or.inr hb)
  left
  have ha' : ("KeySounds" == a.1) = false := by simpa using fun e => ha e.symm
  have hb' : ("KeySounds" == b.1) = false := by simpa using fun e => hb e.symm
  cases k <;> simp [ksCell, Rec.get, List.lookup, ha', hb', ksYV]

theorem noteRowOf_writeHit (h : Hit) :
    noteRowOf (writeHit h) = .ok (⟨some (truncI h.offset : Rat), none, some ((h.column + laneShift : Int) : Rat), h.keysounds⟩ : NoteRow) := by
  have hk : ksCell (writeHit h) = .ok h.keysounds := by
    rcases ksCell_write h.keysounds [] ("StartTime", .int (truncI h.offset)) ("Lane", .int (h.column + laneShift)) with e | e | e
    · exact e
    · simp at e
    · simp at e
  simp only [noteRowOf, hk]
  simp [writeHit, numCell, Rec.get, List.lookup, numOf, bind, Except.bind, Except.map]

theorem noteRowOf_writeHold (h : Hold) :
    noteRowOf (writeHold h) = .ok (⟨some (truncI h.offset : Rat), some (truncI (h.offset + h.length) : Rat),
      some ((h.column + laneShift : Int) : Rat), h.keysounds⟩ : NoteRow) := by
  have hk : ksCell (writeHold h) = .ok h.keysounds := by
    rcases ksCell_write h.keysounds [("EndTime", .int (truncI (h.offset + h.length)))]
      ("StartTime", .int (truncI h.offset)) ("Lane", .int (h.column + laneShift)) with e | e | e
    · exact e
    · simp at e
    · simp at e
  simp only [noteRowOf, hk]
  simp [writeHold, numCell, Rec.get, List.lookup, numOf, bind, Except.bind, Except.map]

/-- the frame rows `pd.DataFrame(dicts)` builds from written records -/
def rowH (h : Hit) : NoteRow := ⟨some (truncI h.offset : Rat), none, some ((h.column + laneShift : Int) : Rat), h.keysounds⟩
def rowL (h : Hold) : NoteRow :=
  ⟨some (truncI h.offset : Rat), some (truncI (h.offset + h.length) : Rat), some ((h.column + laneShift : Int) : Rat), h.keysounds⟩

theorem hitsFromYaml_write (hs : List Hit) (hne : hs ≠ []) :
    hitsFromYaml (hs.map writeHit) = .ok (hs.map qHit) := by
  unfold hitsFromYaml
  rw [mapE_map_ok noteRowOf writeHit rowH noteRowOf_writeHit hs]
  simp only [bind, Except.bind]
  have hall : (hs.map rowH).all (fun r => r.lane.isNone) = false := by
    cases hs with
    | nil => exact absurd rfl hne
    | cons a t => simp [rowH]
  rw [hall]
  simp only [Bool.false_eq_true, if_false, List.map_map]
  apply mapE_map_ok
  intro h
  simp [rowH, intOfRat_int, qHit, fillOffset]

theorem holdsFromYaml_write (hs : List Hold) (hne : hs ≠ []) :
    holdsFromYaml (hs.map writeHold) = .ok (hs.map qHold) := by
  unfold holdsFromYaml
  rw [mapE_map_ok noteRowOf writeHold rowL noteRowOf_writeHold hs]
  simp only [bind, Except.bind, List.map_map]
  have hall : (List.map ((fun r : NoteRow => { r with endT := nanSub r.endT r.start }) ∘
      (fun r : NoteRow => { r with start := some (r.start.getD fillOffset) }) ∘ rowL) hs).all
      (fun r => r.lane.isNone) = false := by
    cases hs with
    | nil => exact absurd rfl hne
    | cons a t => simp [rowL]
  rw [hall]
  simp only [Bool.false_eq_true, if_false]
  apply mapE_map_ok
  intro h
  simp [rowL, intOfRat_int, qHold, fillOffset, fillLength, nanSub]

theorem filter_hits (hs : List Hit) (ls : List Hold) :
    (hs.map writeHit ++ ls.map writeHold).filter (fun r => !hasEnd r) = hs.map writeHit := by
  rw [List.filter_append]
  have h1 : (hs.map writeHit).filter (fun r => !hasEnd r) = hs.map writeHit := by
    apply List.filter_eq_self.mpr
    intro r hr
    obtain ⟨h, _, rfl⟩ := List.mem_map.mp hr
    simp [hasEnd_writeHit]
  have h2 : (ls.map writeHold).filter (fun r => !hasEnd r) = [] := by
    apply List.filter_eq_nil_iff.mpr
    intro r hr
    obtain ⟨h, _, rfl⟩ := List.mem_map.mp hr
    simp [hasEnd_writeHold]
  rw [h1, h2, List.append_nil]

theorem filter_holds (hs : List Hit) (ls : List Hold) :
    (hs.map writeHit ++ ls.map writeHold).filter hasEnd = ls.map writeHold := by
  rw [List.filter_append]
  have h1 : (hs.map writeHit).filter hasEnd = [] := by
    apply List.filter_eq_nil_iff.mpr
    intro r hr
    obtain ⟨h, _, rfl⟩ := List.mem_map.mp hr
    simp [hasEnd_writeHit]
  have h2 : (ls.map writeHold).filter hasEnd = ls.map writeHold := by
    apply List.filter_eq_self.mpr
    intro r hr
    obtain ⟨h, _, rfl⟩ := List.mem_map.mp hr
    simp [hasEnd_writeHold]
  rw [h1, h2, List.nil_append]

/-- hits only, holds only, no objects at all are the cases `hs = []` / `ls = []` of this statement -/
theorem readNotes_write (hs : List Hit) (ls : List Hold) :
    readNotes (hs.map writeHit ++ ls.map writeHold) = .ok (hs.map qHit, ls.map qHold) := by
  unfold readNotes
  simp only [filter_hits, filter_holds]
  cases hs with
  | nil =>
    cases ls with
    | nil => rfl
    | cons a t =>
      have e2 := holdsFromYaml_write (a :: t) (by simp)
      simp only [List.map_cons] at e2
      simp [e2, bind, Except.bind]
  | cons b u =>
    have e1 := hitsFromYaml_write (b :: u) (by simp)
    simp only [List.map_cons] at e1
    cases ls with
    | nil => simp [e1, bind, Except.bind]
    | cons a t =>
      have e2 := holdsFromYaml_write (a :: t) (by simp)
      simp only [List.map_cons] at e2
      simp [e1, e2, bind, Except.bind]

theorem readBpm_write (b : Bpm) : readBpm (writeBpm b) = .ok (qBpm b) := by
  simp [readBpm, writeBpm, numCell, Rec.get, List.lookup, numOf, bind, Except.bind, Except.map, qBpm, dfltMetronome]

theorem readSv_write (s : Sv) : readSv (writeSv s) = .ok (qSv s) := by
  simp [readSv, writeSv, numCell, Rec.get, List.lookup, numOf, bind, Except.bind, Except.map, qSv]

/-! metadata -/

/-- `_write_meta` on one entry, as a function -/
def wvP (kv : String × YV) : String × YV :=
  if kv.1 = tagsKey then
    match kv.2 with
    | .strs l => (kv.1, .str (joinTags l))
    | _ => kv
  else kv

theorem wvP_fst (kv : String × YV) : (wvP kv).1 = kv.1 := by
  unfold wvP; split
  · split <;> rfl
  · rfl

/-- the hypotheses on the metadata of a chart: its entries are the 21 attributes in order, and every tag can
survive `" ".join` / `split(" ")` (non-empty, no space) -/
def MetaOk (m : Rec) : Prop := metaKeysOk m = true ∧ tagsOk m = true

theorem metaKeys_nodup : metaKeys.Nodup := by decide

theorem tags_of_metaOk (m : Rec) (h : MetaOk m) (kv : String × YV) (hkv : kv ∈ m) (hk : kv.1 = tagsKey) :
    ∃ l, kv.2 = .strs l ∧ l.all tagOk = true := by
  obtain ⟨hkeys, htags⟩ := h
  have hk' : m.map Prod.fst = metaKeys := by simpa [metaKeysOk] using hkeys
  have hl : m.lookup tagsKey = some kv.2 := by
    apply lookup_of_mem_nodup m tagsKey kv.2 (by rw [hk']; exact metaKeys_nodup)
    rw [← hk]; exact hkv
  unfold tagsOk Rec.get at htags
  rw [hl] at htags
  cases hv : kv.2 with
  | strs l => exact ⟨l, rfl, by simpa [hv] using htags⟩
  | _ => simp [hv] at htags

theorem writeMeta_ok (m : Rec) (h : MetaOk m) : writeMeta m = .ok (m.map wvP) := by
  unfold writeMeta
  apply mapE_ok
  intro kv hkv
  unfold writeMetaVal wvP
  by_cases hk : kv.1 = tagsKey
  · obtain ⟨l, hl, _⟩ := tags_of_metaOk m h kv hkv hk
    simp [hk, hl]
  · simp [hk]

theorem readMetaVal_written (m : Rec) (h : MetaOk m) (kv : String × YV) (hkv : kv ∈ m) (d : YV) :
    readMetaVal (m.map wvP) kv.1 d = .ok kv.2 := by
  have hk' : m.map Prod.fst = metaKeys := by simpa [metaKeysOk] using h.1
  have hnd : ((m.map wvP).map Prod.fst).Nodup := by
    rw [List.map_map]
    have : (Prod.fst ∘ wvP) = (Prod.fst : String × YV → String) := by funext x; simp [wvP_fst]
    rw [this, hk']; exact metaKeys_nodup
  have hl : (m.map wvP).lookup kv.1 = some (wvP kv).2 := by
    apply lookup_of_mem_nodup _ _ _ hnd
    have : (kv.1, (wvP kv).2) = wvP kv := by rw [← wvP_fst kv]
    rw [this]
    exact List.mem_map.mpr ⟨kv, hkv, rfl⟩
  unfold readMetaVal Rec.get
  rw [hl]
  by_cases hk : kv.1 = tagsKey
  · obtain ⟨l, hl', hok⟩ := tags_of_metaOk m h kv hkv hk
    simp [hk, wvP, hl', tagsOf_joinTags l hok]
  · simp [hk, wvP]

theorem mapE_table (G : String → YV → Except Err YV) :
    ∀ (tbl s : Rec), tbl.map Prod.fst = s.map Prod.fst → (∀ kv ∈ s, ∀ d, G kv.1 d = .ok kv.2) →
      mapE (fun kd => (G kd.1 kd.2).map (fun v => (kd.1, v))) tbl = .ok s
  | [], [], _, _ => rfl
  | [], _ :: _, h, _ => by simp at h
  | _ :: _, [], h, _ => by simp at h
  | (k, d) :: t, (k', v) :: s, h, hG => by
    simp only [List.map_cons, List.cons.injEq] at h
    obtain ⟨rfl, ht⟩ := h
    have h1 := hG (k, v) (by simp) d
    have h2 := mapE_table G t s ht (fun kv hkv d => hG kv (by simp [hkv]) d)
    simp only [mapE, bind, Except.bind]
    simp only at h1
    rw [h1, h2]
    rfl

theorem readMeta_written (m : Rec) (h : MetaOk m) : readMeta (m.map wvP) = .ok m := by
  unfold readMeta
  apply mapE_table (fun k d => readMetaVal (m.map wvP) k d) metaTable m
  · have hk' : m.map Prod.fst = metaKeys := by simpa [metaKeysOk] using h.1
    rw [hk']; rfl
  · intro kv hkv d
    exact readMetaVal_written m h kv hkv d

/-- **Read after write** (`qua_read_write`): for every chart whose rows have exactly the declared fields —
any lanes, any key sounds (a hand-made NaN cell reads back as `[]`, see `quantize`), any rational times of either sign, hits only, holds only, empty
sections — and whose metadata has the 21 attributes with tags that can survive a file, reading the written
document yields exactly `quantize c`: the same objects, in the same order, times truncated to whole
milliseconds (`closeChart_quantize`: each moved by less than 1 ms), tempo points with the default metronome. -/
theorem qua_read_write (c : Chart) (hm : MetaOk c.info) : (write c >>= read) = .ok (quantize c) := by
  unfold write
  rw [writeMeta_ok c.info hm]
  simp only [bind, Except.bind, read, sectionOf]
  rw [readNotes_write]
  simp only []
  rw [mapE_map_ok readBpm writeBpm qBpm readBpm_write, mapE_map_ok readSv writeSv qSv readSv_write]
  simp only []
  rw [readMeta_written c.info hm]
  rfl

/-! ## only the keys and value types the format defines -/

theorem recAllowed_writeHit (h : Hit) (hk : (h.keysounds != .nan) = true) : recAllowed hitObjectKeys (writeHit h) = true := by
  cases hks : h.keysounds with
  | nan => simp [hks] at hk
  | list l => simp [writeHit, recAllowed, entryAllowed, hitObjectKeys, List.lookup, hasTy, ksYV, hks]

theorem recAllowed_writeHold (h : Hold) (hk : (h.keysounds != .nan) = true) : recAllowed hitObjectKeys (writeHold h) = true := by
  cases hks : h.keysounds with
  | nan => simp [hks] at hk
  | list l => simp [writeHold, recAllowed, entryAllowed, hitObjectKeys, List.lookup, hasTy, ksYV, hks]

theorem recAllowed_writeBpm (b : Bpm) : recAllowed timingPointKeys (writeBpm b) = true := by
  simp [writeBpm, recAllowed, entryAllowed, timingPointKeys, List.lookup, hasTy]

theorem recAllowed_writeSv (s : Sv) : recAllowed sliderVelocityKeys (writeSv s) = true := by
  simp [writeSv, recAllowed, entryAllowed, sliderVelocityKeys, List.lookup, hasTy]

theorem entryAllowed_written (a b : String × YV) (ha : entryAllowed memKeyTypes a = true)
    (hw : writeMetaVal a = .ok b) : entryAllowed metaKeyTypes b = true := by
  unfold writeMetaVal at hw
  by_cases hk : a.1 = tagsKey
  · rw [if_pos hk] at hw
    cases hv : a.2 with
    | strs l =>
      rw [hv] at hw
      simp only [Except.ok.injEq] at hw
      subst hw
      rw [hk]
      simp [entryAllowed, metaKeyTypes, List.lookup, hasTy, tagsKey]
    | _ => rw [hv] at hw; simp at hw
  · rw [if_neg hk] at hw
    simp only [Except.ok.injEq] at hw
    subst hw
    unfold entryAllowed at ha ⊢
    have := lookup_map_other Ty.list tagsKey metaKeyTypes a.1 hk
    unfold memKeyTypes at ha
    rw [this] at ha
    exact ha

/-- **Allowed keys and types** (`qua_write_keys`): the document written for a chart whose key-sound cells are
lists (`converted_chart_counterexample`: a hand-made NaN cell, as converters produced before the repair of D08, breaks it) and whose metadata attributes have
their declared types (`string_isv_counterexample`: a string under `InitialScrollVelocity`, as the dataclass default was
before the repair of D29, breaks it; `default_meta_typed`: default-constructed metadata satisfies it) uses only the keys the
format defines, each with a value of the defined type — for every number of rows, lanes, times. -/
theorem qua_write_keys (c : Chart) (d : Doc) (hk : ksLists c = true) (hm : metaTyped c.info = true)
    (hw : write c = .ok d) : docAllowed d = true := by
  unfold write at hw
  cases hwm : writeMeta c.info with
  | error e => rw [hwm] at hw; simp [bind, Except.bind] at hw
  | ok m' =>
    rw [hwm] at hw
    simp only [bind, Except.bind, Except.ok.injEq] at hw
    subst hw
    have h1 : recAllowed metaKeyTypes m' = true :=
      mapE_all writeMetaVal (entryAllowed memKeyTypes) (entryAllowed metaKeyTypes)
        (fun a b ha hb => entryAllowed_written a b ha hb) c.info m' hwm hm
    simp only [ksLists, Bool.and_eq_true, List.all_eq_true] at hk
    simp only [docAllowed, secAllowed, Bool.and_eq_true, h1, true_and, List.all_append, List.all_map, List.all_eq_true]
    refine ⟨⟨⟨fun h hh => ?_, fun h hh => ?_⟩, fun b _ => ?_⟩, fun s _ => ?_⟩
    · exact recAllowed_writeHit h (hk.1 h hh)
    · exact recAllowed_writeHold h (hk.2 h hh)
    · exact recAllowed_writeBpm b
    · exact recAllowed_writeSv s

/-- D08 (fixed, commit 721c5aa): a hand-written chart with a NaN key-sound cell — what `cast` → `TimedList.empty`
produced before the repair — is written with `KeySounds: .nan`; the hypothesis `ksLists` of `qua_write_keys` cannot be
dropped for hand-made charts (the code itself no longer produces such a cell: correspondence check). -/
theorem converted_chart_counterexample :
    ksLists ⟨metaTable, [⟨100, 1, .nan⟩], [], [], []⟩ = false ∧
    (write ⟨metaTable, [⟨100, 1, .nan⟩], [], [], []⟩).toOption.map
      (fun d => secAllowed hitObjectKeys d.hitObjects) = some false := by
  decide +kernel

/-- the metadata record `QuaMapMeta` had before the repair of D29 (`initial_scroll_velocity: float = ""`) -/
def stringIsvMeta : Rec :=
  metaTable.map (fun kv => if kv.1 = "InitialScrollVelocity" then (kv.1, YV.str "") else kv)

/-- D29 (fixed): a metadata record with a *string* under `InitialScrollVelocity` is written with a string where the
format defines a number — the hypothesis `metaTyped` of `qua_write_keys` cannot be dropped. (Hand-written record:
this is what the dataclass default was before commit 0d2a2c1; the reverse patch brings it back.) -/
theorem string_isv_counterexample :
    metaTyped stringIsvMeta = false ∧
    (write ⟨stringIsvMeta, [], [], [], []⟩).toOption.map docAllowed = some false := by
  decide +kernel

/-- since D29's repair the dataclass defaults (`metaTable`, tied to the source by `consts_tie`) have their
declared types … -/
theorem default_meta_typed : metaTyped metaTable = true ∧ MetaOk metaTable := by
  refine ⟨by decide +kernel, by decide +kernel, by decide +kernel⟩

/-- … so `qua_write_keys` holds for every chart with default-constructed metadata whose key sounds are lists. -/
theorem qua_write_keys_default (hits : List Hit) (holds : List Hold) (bpms : List Bpm) (svs : List Sv) (d : Doc)
    (hk : ksLists ⟨metaTable, hits, holds, bpms, svs⟩ = true)
    (hw : write ⟨metaTable, hits, holds, bpms, svs⟩ = .ok d) : docAllowed d = true :=
  qua_write_keys _ d hk default_meta_typed.1 hw

/-! non-vacuity of `qua_read_write` / `qua_write_keys`: a chart with a hit, a hold, two tempo points, a scroll
velocity, fractional and negative times, two tags -/

def sampleMeta : Rec :=
  metaTable.map (fun kv => if kv.1 = "InitialScrollVelocity" then (kv.1, YV.flt 1)
    else if kv.1 = tagsKey then (kv.1, YV.strs ["a", "b:c"]) else kv)

def sampleChart : Chart :=
  ⟨sampleMeta, [⟨201 / 2, 2, .list []⟩, ⟨-1 / 2, 0, .list [⟨1, 50⟩]⟩], [⟨7 / 10, 1, 3 / 10, .list []⟩],
   [⟨0, 120, 3⟩, ⟨10009 / 10, 100 / 3, 4⟩], [⟨11 / 2, 2⟩]⟩

example : MetaOk sampleChart.info := by
  constructor <;> decide +kernel

example : ksLists sampleChart = true ∧ metaTyped sampleChart.info = true := by decide +kernel

example : ((write sampleChart >>= read).toOption.map (fun c => (c.hits, c.holds, c.bpms))) =
    some ([⟨100, 2, .list []⟩, ⟨0, 0, .list [⟨1, 50⟩]⟩], [⟨0, 1, 1, .list []⟩], [⟨0, 120, 4⟩, ⟨1000, 100 / 3, 4⟩]) := by
  decide +kernel


/-! ## reading = the declared chart, with the format's defaults -/

theorem readBpm_eq (r : Rec) : readBpm r = denoteTp r := by
  unfold readBpm denoteTp numCell
  cases r.get "StartTime" with
  | none => cases r.get "Bpm" with
    | none => rfl
    | some b => cases b <;> rfl
  | some a => cases a <;> (cases r.get "Bpm" with
    | none => rfl
    | some b => cases b <;> rfl)

theorem readSv_eq (r : Rec) : readSv r = denoteSv r := by
  unfold readSv denoteSv numCell
  cases r.get "StartTime" with
  | none => cases r.get "Multiplier" with
    | none => rfl
    | some b => cases b <;> rfl
  | some a => cases a <;> (cases r.get "Multiplier" with
    | none => rfl
    | some b => cases b <;> rfl)

def cellP : Option YV → Option Rat
  | some (.int i) => some (i : Rat)
  | some (.flt q) => some q
  | _ => none
def laneI (r : Rec) : Int := match r.get "Lane" with | some (.int i) => i | _ => 0
def ksP (r : Rec) : KsCell := match r.get "KeySounds" with | some (.ks l) => .list l | _ => .nan
def startP (r : Rec) : Rat := (cellP (r.get "StartTime")).getD 0
def rowP (r : Rec) : NoteRow := ⟨cellP (r.get "StartTime"), cellP (r.get "EndTime"), some (laneI r : Rat), ksP r⟩
def hitP (r : Rec) : Hit := ⟨startP r, laneI r - 1, ksFill (ksP r)⟩
def holdP (r : Rec) : Hold :=
  ⟨startP r, laneI r - 1, (nanSub (cellP (r.get "EndTime")) (some (startP r))).getD 0, ksFill (ksP r)⟩
def objP (r : Rec) : Obj := if hasEnd r then .hold (holdP r) else .hit (hitP r)

theorem numCell_ok (r : Rec) (k : String) (h : numLike (r.get k) = true) : numCell r k = .ok (cellP (r.get k)) := by
  unfold numCell
  cases hv : r.get k with
  | none => rfl
  | some v => rw [hv] at h; cases v <;> first | rfl | simp [numLike] at h

theorem objOk_parts (r : Rec) (h : objOk r = true) :
    numLike (r.get "StartTime") = true ∧ numLike (r.get "EndTime") = true ∧
    (∃ i, r.get "Lane" = some (.int i)) ∧ (r.get "KeySounds" = none ∨ ∃ l, r.get "KeySounds" = some (.ks l)) := by
  simp only [objOk, Bool.and_eq_true] at h
  obtain ⟨⟨⟨h1, h2⟩, h3⟩, h4⟩ := h
  refine ⟨h1, h2, ?_, ?_⟩
  · cases hv : r.get "Lane" with
    | none => simp [hv] at h3
    | some v => cases v <;> simp_all
  · cases hv : r.get "KeySounds" with
    | none => exact Or.inl rfl
    | some v => cases v <;> simp_all

theorem noteRowOf_ok (r : Rec) (h : objOk r = true) : noteRowOf r = .ok (rowP r) := by
  obtain ⟨h1, h2, ⟨i, h3⟩, h4⟩ := objOk_parts r h
  have hl : numCell r "Lane" = .ok (some (i : Rat)) := by simp [numCell, h3, numOf, Except.map]
  have hk : ksCell r = .ok (ksP r) := by
    rcases h4 with h4 | ⟨l, h4⟩ <;> simp [ksCell, ksP, h4]
  simp [noteRowOf, numCell_ok r _ h1, numCell_ok r _ h2, hl, hk, bind, Except.bind, rowP, laneI, h3]

theorem intOfRat_sub_one (i : Int) : intOfRat ((i : Rat) - 1) = .ok (i - 1) := by
  have : ((i : Rat) - 1) = ((i - 1 : Int) : Rat) := by push_cast; rfl
  rw [this]; exact intOfRat_int _

theorem denoteObj_ok (r : Rec) (h : objOk r = true) : denoteObj r = .ok (objP r) := by
  obtain ⟨h1, h2, ⟨i, h3⟩, h4⟩ := objOk_parts r h
  have hs : startOf r = .ok (startP r) := by
    unfold startOf startP
    cases hv : r.get "StartTime" with
    | none => rfl
    | some v => rw [hv] at h1; cases v <;> first | rfl | simp [numLike] at h1
  have hl : laneOf r = .ok i := by simp [laneOf, h3, numOf, bind, Except.bind, intOfRat_int]
  have hk : keySoundsOf r = .ok (ksFill (ksP r)) := by
    rcases h4 with h4 | ⟨l, h4⟩ <;> simp [keySoundsOf, ksP, ksFill, h4]
  unfold denoteObj
  simp only [hs, hl, hk, bind, Except.bind]
  cases hv : r.get "EndTime" with
  | none => simp [objP, hasEnd, hv, hitP, laneI, h3]
  | some v =>
    rw [hv] at h2
    cases v with
    | int e => simp [objP, hasEnd, hv, holdP, laneI, h3, numOf, cellP, nanSub]
    | flt e => simp [objP, hasEnd, hv, holdP, laneI, h3, numOf, cellP, nanSub]
    | _ => simp [numLike] at h2

theorem all_lane_false (rs : List Rec) (hne : rs ≠ []) (F : Rec → NoteRow) (hF : ∀ r, (F r).lane.isNone = false) :
    (rs.map F).all (fun r => r.lane.isNone) = false := by
  cases rs with
  | nil => exact absurd rfl hne
  | cons a t => simp [hF]

theorem hitsFromYaml_ok (rs : List Rec) (hne : rs ≠ []) (h : ∀ r ∈ rs, objOk r = true) :
    hitsFromYaml rs = .ok (rs.map hitP) := by
  unfold hitsFromYaml
  rw [mapE_ok noteRowOf rowP rs (fun r hr => noteRowOf_ok r (h r hr))]
  simp only [bind, Except.bind, List.map_map]
  rw [if_neg]
  · apply mapE_map_ok
    intro r
    simp [rowP, hitP, startP, fillOffset, laneShift, intOfRat_sub_one]
  · rw [all_lane_false rs hne _ (fun r => rfl)]; simp

theorem holdsFromYaml_ok (rs : List Rec) (hne : rs ≠ []) (h : ∀ r ∈ rs, objOk r = true) :
    holdsFromYaml rs = .ok (rs.map holdP) := by
  unfold holdsFromYaml
  rw [mapE_ok noteRowOf rowP rs (fun r hr => noteRowOf_ok r (h r hr))]
  simp only [bind, Except.bind, List.map_map]
  rw [if_neg]
  · apply mapE_map_ok
    intro r
    simp [rowP, holdP, startP, fillOffset, fillLength, laneShift, intOfRat_sub_one]
  · rw [all_lane_false rs hne _ (fun r => rfl)]; simp

theorem objHits_map (ns : List Rec) : objHits (ns.map objP) = (ns.filter (fun r => !hasEnd r)).map hitP := by
  induction ns with
  | nil => rfl
  | cons a t ih =>
    by_cases ha : hasEnd a = true
    · simp [objP, ha, objHits, ih]
    · simp [objP, ha, objHits, ih]

theorem objHolds_map (ns : List Rec) : objHolds (ns.map objP) = (ns.filter hasEnd).map holdP := by
  induction ns with
  | nil => rfl
  | cons a t ih =>
    by_cases ha : hasEnd a = true
    · simp [objP, ha, objHolds, ih]
    · simp [objP, ha, objHolds, ih]

theorem readNotes_ok (ns : List Rec) (h : ∀ r ∈ ns, objOk r = true) :
    readNotes ns = .ok (objHits (ns.map objP), objHolds (ns.map objP)) := by
  unfold readNotes
  rw [objHits_map, objHolds_map]
  have h1 : ∀ r ∈ ns.filter (fun r => !hasEnd r), objOk r = true := fun r hr => h r (List.mem_filter.mp hr).1
  have h2 : ∀ r ∈ ns.filter hasEnd, objOk r = true := fun r hr => h r (List.mem_filter.mp hr).1
  cases e1 : ns.filter (fun r => !hasEnd r) with
  | nil =>
    cases e2 : ns.filter hasEnd with
    | nil => rfl
    | cons a t =>
      have := holdsFromYaml_ok (a :: t) (by simp) (by rw [← e2]; exact h2)
      simp [this, bind, Except.bind]
  | cons b u =>
    have hb := hitsFromYaml_ok (b :: u) (by simp) (by rw [← e1]; exact h1)
    cases e2 : ns.filter hasEnd with
    | nil => simp [hb, bind, Except.bind]
    | cons a t =>
      have := holdsFromYaml_ok (a :: t) (by simp) (by rw [← e2]; exact h2)
      simp [hb, this, bind, Except.bind]

/-- **Reading yields what the document declares** (`qua_read_defaults`): for every document whose hit objects
have numeric times, an integer `Lane` and `KeySounds` omitted or a list — any lanes, omitted `StartTime`, `KeySounds`, omitted
`Bpm` / `Multiplier` / tempo `StartTime`, empty sections, hits only, holds only, a missing section (both sides
raise the `KeyError` class), any metadata — the reader's result is the by-the-book denotation: an object with an
end time is a hold of duration `EndTime − StartTime`, omitted keys take the format's defaults.
(`omitted_keysounds_counterexample` records what the reader did before the repair of D21.) -/
theorem qua_read_defaults (d : Doc) (h : objsDeclared d = true) : read d = denote d := by
  unfold read denote
  cases hho : d.hitObjects with
  | none => rfl
  | some ho =>
    have hall : ∀ r ∈ ho, objOk r = true := by
      simpa [objsDeclared, hho, List.all_eq_true] using h
    simp only [sectionOf, bind, Except.bind]
    rw [readNotes_ok ho hall, mapE_ok denoteObj objP ho (fun r hr => denoteObj_ok r (hall r hr))]
    simp only []
    have hb : readBpm = denoteTp := funext readBpm_eq
    have hsv : readSv = denoteSv := funext readSv_eq
    rw [hb, hsv]

/-- D21 (fixed, commit 23be740): for a hit object that omits `KeySounds` the frame `pd.DataFrame(dicts)` builds
holds a NaN cell — which is what the reader returned before the repair (hand-written pre-fix variant: the row
without the last `from_yaml` step) — whereas the denotation has `[]`; the repaired reader (`ksFill`) returns `[]`. -/
theorem omitted_keysounds_counterexample :
    (noteRowOf [("StartTime", .int 100), ("Lane", .int 2)]).toOption.map (·.ks) = some KsCell.nan ∧
    (denote ⟨[], some [[("StartTime", .int 100), ("Lane", .int 2)]], some [], some []⟩).toOption.map (·.hits)
      = some [⟨100, 1, .list []⟩] ∧
    (read ⟨[], some [[("StartTime", .int 100), ("Lane", .int 2)]], some [], some []⟩).toOption.map (·.hits)
      = some [⟨100, 1, .list []⟩] := by
  decide +kernel

/-- D07 (fixed) stays fixed in the model: a hold that omits `StartTime` starts at 0 and keeps its length, also
next to a hold that declares it. -/
example : (read ⟨[], some [[("EndTime", .int 500), ("Lane", .int 3), ("KeySounds", .ks [])],
                          [("StartTime", .int 10), ("EndTime", .int 300), ("Lane", .int 1), ("KeySounds", .ks [])]],
                 some [[("Bpm", .flt (201 / 2))], []], some [[("StartTime", .int 5)]]⟩).toOption.map
            (fun c => (c.holds, c.bpms, c.svs))
    = some ([⟨0, 2, 500, .list []⟩, ⟨10, 0, 290, .list []⟩], [⟨0, 201 / 2, 4⟩, ⟨0, 120, 4⟩], [⟨5, 1⟩]) := by
  decide +kernel

example : objsDeclared ⟨[], some [[("EndTime", .int 500), ("Lane", .int 3), ("KeySounds", .ks [])]], some [], some []⟩ = true := by
  decide +kernel


/-! ## composites: the written document denotes the quantized chart; write after read -/

theorem objOk_writeHit (h : Hit) (hk : (h.keysounds != .nan) = true) : objOk (writeHit h) = true := by
  cases hks : h.keysounds with
  | nan => simp [hks] at hk
  | list l => simp [objOk, writeHit, Rec.get, List.lookup, numLike, ksYV, hks]

theorem objOk_writeHold (h : Hold) (hk : (h.keysounds != .nan) = true) : objOk (writeHold h) = true := by
  cases hks : h.keysounds with
  | nan => simp [hks] at hk
  | list l => simp [objOk, writeHold, Rec.get, List.lookup, numLike, ksYV, hks]

/-- every object of a written document declares its times, lane and key sounds (when no key-sound cell is NaN) -/
theorem objsDeclared_write (c : Chart) (d : Doc) (hk : ksLists c = true) (hw : write c = .ok d) :
    objsDeclared d = true := by
  unfold write at hw
  cases hwm : writeMeta c.info with
  | error e => rw [hwm] at hw; simp [bind, Except.bind] at hw
  | ok m' =>
    rw [hwm] at hw
    simp only [bind, Except.bind, Except.ok.injEq] at hw
    subst hw
    simp only [ksLists, Bool.and_eq_true, List.all_eq_true] at hk
    simp only [objsDeclared, Option.getD_some, List.all_append, List.all_map, Bool.and_eq_true, List.all_eq_true]
    exact ⟨fun h hh => objOk_writeHit h (hk.1 h hh), fun h hh => objOk_writeHold h (hk.2 h hh)⟩

/-- **The written document denotes the chart, times moved by less than 1 ms** (`qua_write_denotes`): for every
chart with well-formed metadata and list-valued key sounds, the by-the-book denotation of the written document is
exactly `quantize c` (and `closeChart c (quantize c)` by `closeChart_quantize`). -/
theorem qua_write_denotes (c : Chart) (d : Doc) (hm : MetaOk c.info) (hk : ksLists c = true)
    (hw : write c = .ok d) : denote d = .ok (quantize c) ∧ closeChart c (quantize c) = true := by
  have h1 := qua_read_write c hm
  rw [hw] at h1
  simp only [bind, Except.bind] at h1
  rw [← qua_read_defaults d (objsDeclared_write c d hk hw)]
  exact ⟨h1, closeChart_quantize c hk⟩

theorem mapE_mem {α β} (f : α → Except Err β) :
    ∀ (l : List α) (l' : List β), mapE f l = .ok l' → ∀ b ∈ l', ∃ a ∈ l, f a = .ok b
  | [], l', h, b, hb => by simp [mapE] at h; subst h; simp at hb
  | a :: t, l', h, b, hb => by
    simp only [mapE, bind, Except.bind] at h
    cases hfa : f a with
    | error e => rw [hfa] at h; simp at h
    | ok x =>
      rw [hfa] at h
      cases hft : mapE f t with
      | error e => rw [hft] at h; simp at h
      | ok r =>
        rw [hft] at h
        simp at h
        subst h
        simp only [List.mem_cons] at hb
        rcases hb with rfl | hb
        · exact ⟨a, by simp, hfa⟩
        · obtain ⟨a', ha', hfa'⟩ := mapE_mem f t r hft b hb
          exact ⟨a', by simp [ha'], hfa'⟩

theorem mapE_keys (G : String × YV → Except Err YV) :
    ∀ (tbl m : Rec), mapE (fun kd => (G kd).map (fun v => (kd.1, v))) tbl = .ok m → m.map Prod.fst = tbl.map Prod.fst
  | [], m, h => by simp [mapE] at h; subst h; rfl
  | kd :: t, m, h => by
    simp only [mapE, bind, Except.bind] at h
    cases hft : mapE (fun kd => (G kd).map (fun v => (kd.1, v))) t with
    | error e =>
      rw [hft] at h
      cases hg : G kd <;> simp [hg, Except.map] at h
    | ok r =>
      rw [hft] at h
      cases hg : G kd with
      | error e => simp [hg, Except.map] at h
      | ok v =>
        simp [hg, Except.map] at h
        subst h
        simp [mapE_keys G t r hft]

/-- the metadata the reader produces is well formed: the 21 attributes in order, tags non-empty and space-free -/
theorem readMeta_metaOk (d m : Rec) (h : readMeta d = .ok m) : MetaOk m := by
  unfold readMeta at h
  have hkeys : m.map Prod.fst = metaKeys := mapE_keys (fun kd => readMetaVal d kd.1 kd.2) metaTable m h
  refine ⟨by simp [metaKeysOk, hkeys], ?_⟩
  have hin : tagsKey ∈ m.map Prod.fst := by rw [hkeys]; decide
  obtain ⟨kv, hkv, hk⟩ := List.mem_map.mp hin
  obtain ⟨kd, _, hkd⟩ := mapE_mem _ metaTable m h kv hkv
  have hl : m.lookup tagsKey = some kv.2 := by
    apply lookup_of_mem_nodup m tagsKey kv.2 (by rw [hkeys]; exact metaKeys_nodup)
    rw [← hk]; exact hkv
  unfold tagsOk Rec.get
  rw [hl]
  cases hr : readMetaVal d kd.1 kd.2 with
  | error e => rw [hr] at hkd; simp [Except.map] at hkd
  | ok v =>
    rw [hr] at hkd
    simp only [Except.map, Except.ok.injEq] at hkd
    have h1 : kd.1 = tagsKey := by rw [← hk, ← hkd]
    have h2 : kv.2 = v := by rw [← hkd]
    rw [h2]
    unfold readMetaVal at hr
    rw [if_pos h1] at hr
    cases hg : d.get kd.1 with
    | none => rw [hg] at hr; simp at hr; subst hr; exact tagsOf_ok ""
    | some w =>
      rw [hg] at hr
      cases w with
      | str s => simp at hr; subst hr; exact tagsOf_ok s
      | _ => simp at hr

theorem read_info (d : Doc) (c : Chart) (h : read d = .ok c) : readMeta d.info = .ok c.info := by
  unfold read at h
  simp only [bind, Except.bind] at h
  repeat' split at h
  all_goals first
    | (simp only [Except.ok.injEq] at h; subst h; assumption)
    | (exact absurd h (by simp))

/-- **Write after read** (`qua_write_read`): whatever document the reader accepts, writing the chart it produced
and reading again yields that chart quantized — no hypothesis on tags or metadata is needed, the reader's output
always satisfies `MetaOk`. -/
theorem qua_write_read (d : Doc) (c : Chart) (h : read d = .ok c) : (write c >>= read) = .ok (quantize c) :=
  qua_read_write c (readMeta_metaOk d.info c.info (read_info d c h))


end Reamber.Qua

/-! ## the YAML text layer (Model/QuaText.lean)

`emitQua t = some s` says: `t` is a tree of the block dialect whose every key is a plain identifier and whose every
scalar is in the modelled class — null, bool, int, a float lexeme of the resolver's sub-language, or a string that
libyaml writes plain or single-quoted on one line (all characters printable, no fold at column 80, resolution decided
by the modelled part of the resolver) — and `s` is the text written for it.  Outside the class (`none`): strings that
need double quotes (tab, line break, non-BMP, control characters), strings folded over several lines, plain strings
that look numeric without being canonical.  The harness compares `emitQua` with `QuaMap.write()` character for
character on every written case of the class, and `parseQua` with `yaml.safe_load` on every text it accepts. -/

namespace Reamber.QuaText

open Reamber.Osu (Str splitOn joinWith)
open Reamber.Qua (Doc Chart MetaOk)

/-- well-formed tree: every list of records is non-empty and has no empty record; no mapping repeats a key -/
def WFTree (t : Tree) : Prop := WF0 t ∧ treeNodup t = true

theorem joinWith_concat_nil (c : Char) : ∀ (ls : List Str), ls ≠ [] → joinWith c (ls ++ [[]]) = joinWith c ls ++ [c]
  | [], h => absurd rfl h
  | [p], _ => by simp [joinWith]
  | p :: q :: ps, _ => by
    have ih := joinWith_concat_nil c (q :: ps) (by simp)
    simp only [List.cons_append] at ih ⊢
    simp [joinWith, ih]

theorem textLines_join (ls : List Str) (hne : ls ≠ []) (h : ∀ l ∈ ls, '\n' ∉ l) :
    textLines (joinWith '\n' ls ++ ['\n']) = ls := by
  unfold textLines
  rw [← joinWith_concat_nil '\n' ls hne, Reamber.Osu.splitOn_joinWith '\n' (ls ++ [[]]) (by simp)]
  · simp
  · intro p hp
    simp only [List.mem_append, List.mem_singleton] at hp
    rcases hp with hp | rfl
    · exact h p hp
    · simp

theorem parseChars_emitChars (t : Tree) (s : Str) (hwf : WFTree t) (h : emitChars t = some s) :
    parseChars s = some t := by
  unfold emitChars at h
  by_cases hte : t.isEmpty = true
  · simp [hte] at h
  · simp only [hte] at h
    have htne : t ≠ [] := by intro e; subst e; simp at hte
    cases hm : mapO renderLine (emitTree t) with
    | none => simp [hm] at h
    | some ls =>
      simp [hm] at h
      subst h
      have hlne : ls ≠ [] := mapO_ne_nil renderLine _ ls hm (emitTree_ne_nil t hwf.1 htne)
      have hnl : ∀ l ∈ ls, '\n' ∉ l := by
        intro l hl
        obtain ⟨L, _, hL⟩ := mapO_mem renderLine _ ls hm l hl
        exact renderLine_noNewline L l hL
      have hlex : mapO lexLine ls = some (emitTree t) :=
        mapO_inverse renderLine lexLine (fun L x hx => lexLine_renderLine L x hx) _ ls hm
      unfold parseChars
      rw [textLines_join ls hlne hnl, hlex]
      simp only [parseTree_emitTree t hwf.1, hwf.2]
      simp [hte]

/-- **Text round trip** (`_partial`: for the class of scalars `emitQua` accepts, stated above; the full statement
quantifies over every tree `QuaMap.write` can build, including strings libyaml double-quotes or folds):
reading back the text written for a well-formed tree of the class gives the tree. -/
theorem parse_emit_partial (t : Tree) (s : String) (hwf : WFTree t) (h : emitQua t = some s) : parseQua s = some t := by
  unfold emitQua at h
  cases he : emitChars t with
  | none => simp [he] at h
  | some cs =>
    simp [he] at h
    subst h
    unfold parseQua
    rw [String.toList_ofList]
    exact parseChars_emitChars t cs hwf he

/-- the document `yaml.safe_load` hands to `QuaMap.read` for an emitted text is the document the tree denotes -/
theorem parse_emit_doc (t : Tree) (s : String) (d : Doc) (hwf : WFTree t) (he : emitQua t = some s)
    (hd : treeDoc t = some d) : (parseQua s).bind treeDoc = some d := by
  rw [parse_emit_partial t s hwf he]; exact hd

/-- `QuaMap.read(text)` on an emitted text is the tree-level `read` of the document -/
theorem readText_emit (t : Tree) (s : String) (d : Doc) (hwf : WFTree t) (he : emitQua t = some s)
    (hd : treeDoc t = some d) : readText s = some (Reamber.Qua.read d) := by
  unfold readText
  rw [parse_emit_partial t s hwf he]
  simp [hd]

/-- **write → text → read.**  `t` is any lexical rendering of the document `write c` builds (`treeDoc t = some d`: its
float lexemes denote the document's numbers) inside the class; reading the written text gives the chart with every
time truncated to whole milliseconds. -/
theorem qua_read_write_text (c : Chart) (d : Doc) (t : Tree) (s : String) (hm : MetaOk c.info)
    (hw : Reamber.Qua.write c = .ok d) (hwf : WFTree t) (hd : treeDoc t = some d) (he : emitQua t = some s) :
    readText s = some (.ok (Reamber.Qua.Spec.quantize c)) := by
  rw [readText_emit t s d hwf he hd]
  have h1 := Reamber.Qua.qua_read_write c hm
  rw [hw] at h1
  simp only [bind, Except.bind] at h1
  rw [h1]

/-- the written text denotes the chart with every time moved by < 1 ms -/
theorem qua_write_denotes_text (c : Chart) (d : Doc) (t : Tree) (s : String) (hm : MetaOk c.info)
    (hk : Reamber.Qua.Spec.ksLists c = true) (hw : Reamber.Qua.write c = .ok d) (hwf : WFTree t)
    (hd : treeDoc t = some d) (he : emitQua t = some s) :
    ((parseQua s).bind treeDoc).map Reamber.Qua.Spec.denote = some (.ok (Reamber.Qua.Spec.quantize c)) ∧
    Reamber.Qua.Spec.closeChart c (Reamber.Qua.Spec.quantize c) = true := by
  rw [parse_emit_doc t s d hwf he hd]
  have := Reamber.Qua.qua_write_denotes c d hm hk hw
  exact ⟨by simp [this.1], this.2⟩

/-- **text → read → write → text → read.**  No hypothesis on the chart beyond having been read from a text of the
subset. -/
theorem qua_write_read_text (s : String) (c : Chart) (d' : Doc) (t' : Tree) (s' : String)
    (hr : readText s = some (.ok c)) (hw : Reamber.Qua.write c = .ok d') (hwf : WFTree t')
    (hd : treeDoc t' = some d') (he : emitQua t' = some s') :
    readText s' = some (.ok (Reamber.Qua.Spec.quantize c)) := by
  rw [readText_emit t' s' d' hwf he hd]
  unfold readText at hr
  cases hp : parseQua s with
  | none => simp [hp] at hr
  | some t0 =>
    cases hd0 : treeDoc t0 with
    | none => simp [hp, hd0] at hr
    | some d0 =>
      simp [hp, hd0] at hr
      have h1 := Reamber.Qua.qua_write_read d0 c hr
      rw [hw] at h1
      simp only [bind, Except.bind] at h1
      rw [h1]

/-- the float lexemes of the class are exactly the sub-language `floatLex` of the resolver's float pattern (what
`represent_float` writes): `scText_flt : floatLex l = true → scText (.flt l) = some l` (Lemmas/QuaTextFloat.lean);
every int is in the class: `scText (.int i) = some (showInt i)` by definition, read back by `lexVal_showInt`. -/
theorem flt_class (l : Str) : scText (.flt l) = some l ↔ floatLex l = true := by
  constructor
  · intro h
    by_cases hl : lexVal l = some (.sc (.flt l))
    · -- the lexer only answers `flt` from the `floatLex` branch of the resolver
      by_contra hf
      have hf' : floatLex l = false := by simpa using hf
      have hp := lexVal_flt_plain hl
      rw [lexVal_plain l hp] at hl
      unfold resolve at hl
      simp only [hf'] at hl
      split at hl <;> try (simp at hl)
      split at hl <;> try (simp at hl)
      split at hl <;> try (simp at hl)
      split at hl <;> try (simp at hl)
    · simp [scText, hl] at h
  · exact scText_flt l

/-! ### non-vacuity: a document with a quoted number-like string, a string with `:` `#` `'`, an empty list, a float,
a hold-less hit object with a nested key sound -/

def exTree : Tree :=
  [("Title".toList, .sc (.str "a b".toList)), ("Mode".toList, .sc (.str "123".toList)),
   ("Artist".toList, .sc (.str "it's: #1".toList)), ("SliderVelocities".toList, .empty),
   ("TimingPoints".toList, .recs [[("StartTime".toList, .sc (.int 0)), ("Bpm".toList, .sc (.flt "120.5".toList))]]),
   ("HitObjects".toList, .recs [[("StartTime".toList, .sc (.int 5)), ("Lane".toList, .sc (.int 1)),
      ("KeySounds".toList, .recs [[("Sample".toList, .int 1), ("Volume".toList, .int 100)]])]])]

theorem exTree_wf : WFTree exTree := by
  refine ⟨?_, by decide +kernel⟩
  simp [WF0, WFV, WF1, WF2, exTree]
  refine ⟨?_, ?_⟩
  · intro a b h; rcases h with ⟨-, rfl⟩ | ⟨-, rfl⟩ <;> simp
  · intro a b h; rcases h with ⟨-, rfl⟩ | ⟨-, rfl⟩ | ⟨-, rfl⟩ <;> simp

theorem exTree_text : emitQua exTree =
    some "Title: a b\nMode: '123'\nArtist: 'it''s: #1'\nSliderVelocities: []\nTimingPoints:\n- StartTime: 0\n  Bpm: 120.5\nHitObjects:\n- StartTime: 5\n  Lane: 1\n  KeySounds:\n  - Sample: 1\n    Volume: 100\n" := by
  decide +kernel

theorem exTree_doc : (treeDoc exTree).isSome = true := by decide +kernel

/-- non-vacuity of `parse_emit_partial` and of the hypotheses `WFTree` / `emitQua … = some …` / `treeDoc … = some …` -/
example : parseQua "Title: a b\nMode: '123'\nArtist: 'it''s: #1'\nSliderVelocities: []\nTimingPoints:\n- StartTime: 0\n  Bpm: 120.5\nHitObjects:\n- StartTime: 5\n  Lane: 1\n  KeySounds:\n  - Sample: 1\n    Volume: 100\n" = some exTree :=
  parse_emit_partial exTree _ exTree_wf exTree_text


/-- a text `parseQua` accepts has no repeated key in any mapping and is not empty (PyYAML would silently keep the last
of two equal keys; the subset excludes such texts) -/
theorem parseQua_nodup (s : String) (t : Tree) (h : parseQua s = some t) : treeNodup t = true ∧ t ≠ [] := by
  unfold parseQua parseChars at h
  split at h
  · simp at h
  · split at h
    · simp at h
    · split at h
      · rename_i hc
        simp at h
        subst h
        simp only [Bool.and_eq_true, Bool.not_eq_true', List.isEmpty_eq_false_iff] at hc
        exact hc
      · simp at h

/-- different well-formed trees of the class have different texts -/
theorem emitQua_injective (t1 t2 : Tree) (s : String) (h1 : WFTree t1) (h2 : WFTree t2) (e1 : emitQua t1 = some s)
    (e2 : emitQua t2 = some s) : t1 = t2 := by
  have a := parse_emit_partial t1 s h1 e1
  have b := parse_emit_partial t2 s h2 e2
  rw [a] at b
  exact Option.some.inj b

/-! ### non-vacuity of the composed theorems on a whole chart -/

section
open Reamber.Qua (sampleMeta write)
open Reamber.Qua.Spec (quantize)
/-- a chart whose numbers have finite decimals: two hits (one with a key sound, one at a negative fractional time), a
hold, two tempo points, a scroll velocity, two tags -/
def textChart : Chart :=
  ⟨sampleMeta, [⟨201 / 2, 2, .list []⟩, ⟨-1 / 2, 0, .list [⟨1, 50⟩]⟩], [⟨7 / 10, 1, 3 / 10, .list []⟩],
   [⟨0, 120, 3⟩, ⟨10009 / 10, 175 / 2, 4⟩], [⟨11 / 2, 17 / 20⟩]⟩

def e (k : String) (s : String) : List Char × V (V Sc) := (k.toList, .sc (.str s.toList))

/-- the document `write textChart` builds, with `represent_float`'s lexemes, in the order `QuaMap.write` uses -/
def textTree : Tree :=
  [e "AudioFile" "", ("SongPreviewTime".toList, .sc (.int 0)), e "BackgroundFile" "", e "BannerFile" "", e "Genre" "",
   ("BPMDoesNotAffectScrollVelocity".toList, .sc (.bool true)), ("InitialScrollVelocity".toList, .sc (.flt "1.0".toList)),
   ("HasScratchKey".toList, .sc (.bool true)), ("MapId".toList, .sc (.int (-1))), ("MapSetId".toList, .sc (.int (-1))),
   e "Mode" "Keys4", e "Title" "", e "Artist" "", e "Source" "", e "Tags" "a b:c", e "Creator" "", e "DifficultyName" "",
   e "Description" "", ("EditorLayers".toList, .empty), ("CustomAudioSamples".toList, .empty), ("SoundEffects".toList, .empty),
   ("TimingPoints".toList, .recs [[("StartTime".toList, .sc (.int 0)), ("Bpm".toList, .sc (.flt "120.0".toList))],
                                   [("StartTime".toList, .sc (.int 1000)), ("Bpm".toList, .sc (.flt "87.5".toList))]]),
   ("SliderVelocities".toList, .recs [[("StartTime".toList, .sc (.int 5)), ("Multiplier".toList, .sc (.flt "0.85".toList))]]),
   ("HitObjects".toList, .recs
     [[("StartTime".toList, .sc (.int 100)), ("Lane".toList, .sc (.int 3)), ("KeySounds".toList, .empty)],
      [("StartTime".toList, .sc (.int 0)), ("Lane".toList, .sc (.int 1)),
       ("KeySounds".toList, .recs [[("Sample".toList, .int 1), ("Volume".toList, .int 50)]])],
      [("StartTime".toList, .sc (.int 0)), ("Lane".toList, .sc (.int 2)), ("KeySounds".toList, .empty),
       ("EndTime".toList, .sc (.int 1))]])]

theorem textTree_doc : treeDoc textTree = (write textChart).toOption ∧ (write textChart).toOption.isSome = true := by
  decide +kernel

/-! Bool versions of the structural well-formedness (for `decide` on concrete trees) -/
def wf2B (r : R2) : Bool := !r.isEmpty
def wfvB {α} (p : List (List Char × α) → Bool) : V α → Bool
  | .recs l => !l.isEmpty && l.all p
  | _ => true
def wf1B (r : R1) : Bool := !r.isEmpty && r.all (fun kv => wfvB wf2B kv.2)
def wf0B (t : Tree) : Bool := t.all (fun kv => wfvB wf1B kv.2)

theorem wfv_of_B {α} (p : List (List Char × α) → Bool) (P : List (List Char × α) → Prop) (hp : ∀ r, p r = true → P r)
    (v : V α) (h : wfvB p v = true) : WFV P v := by
  cases v with
  | sc s => trivial
  | empty => trivial
  | recs l =>
    simp only [wfvB, Bool.and_eq_true, List.all_eq_true] at h
    refine ⟨?_, fun r hr => hp r (h.2 r hr)⟩
    intro e; subst e; simp at h

theorem wf2_of_B (r : R2) (h : wf2B r = true) : WF2 r := by
  intro e; subst e; simp [wf2B] at h

theorem wf1_of_B (r : R1) (h : wf1B r = true) : WF1 r := by
  simp only [wf1B, Bool.and_eq_true, List.all_eq_true] at h
  refine ⟨?_, fun kv hkv => wfv_of_B wf2B WF2 wf2_of_B kv.2 (h.2 kv hkv)⟩
  intro e; subst e; simp at h

theorem wf0_of_B (t : Tree) (h : wf0B t = true) : WF0 t := by
  simp only [wf0B, List.all_eq_true] at h
  exact fun kv hkv => wfv_of_B wf1B WF1 wf1_of_B kv.2 (h kv hkv)

theorem textTree_wf : WFTree textTree := ⟨wf0_of_B _ (by decide +kernel), by decide +kernel⟩

theorem textTree_text : (emitQua textTree).isSome = true := by decide +kernel

/-- **Non-vacuity of the composed theorem**: the hypotheses of `qua_read_write_text` hold together for a whole chart, so
reading the text written for it gives the chart with whole-millisecond times. -/
theorem textChart_round_trip : ∃ s, emitQua textTree = some s ∧ readText s = some (.ok (quantize textChart)) := by
  cases hs : emitQua textTree with
  | none => have := textTree_text; simp [hs] at this
  | some s =>
    refine ⟨s, rfl, ?_⟩
    cases hw : write textChart with
    | error e => have := textTree_doc.2; simp [hw, Except.toOption] at this
    | ok d =>
      have hd : treeDoc textTree = some d := by rw [textTree_doc.1, hw]; rfl
      exact qua_read_write_text textChart d textTree s (by constructor <;> decide +kernel) hw textTree_wf hd hs
end

end Reamber.QuaText
