/-
C11 — Reseating tempo changes onto measure lines keeps every change at its time.
Property theorems (helper lemmas live in `Reamber/Lemmas/Reseat*.lean`).  Statements are about the executable
model `reseat` / `reseatLoop` / `reseatStep` of `Reamber/Model/Timing.lean`, which the correspondence check ties to
reamber/algorithms/timing/utils/reseat_bpm_changes_snap.py (+ from_bpm_changes_snap.py, TimingMap.py) on every
run, and against the specification `Reamber/Spec/Reseat.lean` — the same Bool functions the harness evaluates on
the implementation's output.

Hypotheses (`Dom thr l`, = the harness's `dom`): the list is ascending, built through the constructors
(positive bpm / metronome, position inside its measure), first change at measure 0 beat 0, the metronome is not
"whole + tiny", **branch 2 never fires** (`noBeatExtendB`, open finding D16) and **no gap is shorter than the
threshold** (`noTinyGapB`, open finding D16b).  `thr` is any threshold ≥ 0 (the code's is the double 0.001).
-/
import Reamber.Lemmas.ReseatProps
import Reamber.Generated.Consts

namespace Reamber.Timing

/-- Tie to the source: the default `extend_threshold` and `MIN_TO_MSEC` the model uses are the ones the translator
read from the code. -/
theorem c11_consts_tie :
    extendThreshold = Generated.extendThreshold ∧ minToMsec = Generated.minToMsec := by decide +kernel

/-- the hypotheses of the theorems below, as the executable predicates of `Spec/Reseat.lean` -/
def Dom (thr : Rat) (l : List BcSnap) : Prop :=
  sortedSnaps l = true ∧ wfB l = true ∧ firstZeroB l = true ∧
  noBeatExtendB thr l = true ∧ noTinyGapB thr l = true ∧ metOkB thr l = true

/-- `Dom` without the first-change clause, unfolded into the shape the lemmas use -/
theorem dom_unfold (thr : Rat) : ∀ (rest : List BcSnap) (a : BcSnap),
    sortedSnaps (a :: rest) = true → wfB (a :: rest) = true → noBeatExtendB thr (a :: rest) = true →
    noTinyGapB thr (a :: rest) = true → metOkB thr (a :: rest) = true →
    AscWf a rest ∧ HypsL thr a.bpm a.met (distsOf a rest) ∧ (∀ b ∈ rest, 0 < b.met) := by
  intro rest
  induction rest with
  | nil => intro a _ _ _ _ _; exact ⟨trivial, trivial, by simp⟩
  | cons b t ih =>
    intro a hs hw h2 ht hm
    simp only [sortedSnaps, Bool.and_eq_true] at hs
    simp only [wfB, List.all_cons, Bool.and_eq_true] at hw
    simp only [noBeatExtendB, anyAdj, Bool.not_eq_true', Bool.or_eq_false_iff] at h2
    simp only [noTinyGapB, anyAdj, Bool.not_eq_true', Bool.or_eq_false_iff] at ht
    simp only [metOkB, List.all_cons, Bool.and_eq_true] at hm
    obtain ⟨hwa, hwb, hwt⟩ := hw
    have hwa' := hwa
    have hwb' := hwb
    simp only [wfOne, Bool.and_eq_true, decide_eq_true_eq] at hwa' hwb'
    obtain ⟨⟨⟨⟨⟨habpm, hamet⟩, hasm⟩, _⟩, hab0⟩, habm⟩ := hwa'
    obtain ⟨⟨⟨⟨⟨_, hbmet⟩, _⟩, _⟩, hbb0⟩, _⟩ := hwb'
    obtain ⟨ihA, ihH, ihM⟩ := ih b hs.2 (by simp only [wfB, List.all_cons, Bool.and_eq_true]; exact ⟨hwb, hwt⟩)
      (by simp only [noBeatExtendB, Bool.not_eq_true']; exact h2.2)
      (by simp only [noTinyGapB, Bool.not_eq_true']; exact ht.2)
      (by simp only [metOkB, List.all_cons, Bool.and_eq_true]; exact hm.2)
    refine ⟨⟨⟨hamet, hasm, hs.1, hab0, habm, hbb0⟩, ihA⟩, ⟨?_, ihH⟩, ?_⟩
    · have hle := hs.1
      simp only [Snap.le, Snap.lt, Snap.eqv, Bool.or_eq_true, Bool.and_eq_true, decide_eq_true_eq] at hle
      refine ⟨habpm, hamet, ?_, ?_, ?_, ?_⟩
      · have := hm.1
        simpa only [Bool.not_eq_true', Bool.and_eq_false_iff, decide_eq_false_iff_not, not_and_or] using this
      · show 0 ≤ snapDist a.snap b.snap a.met
        unfold snapDist
        rcases hle with (h | ⟨h1, h2'⟩) | ⟨h1, h2'⟩
        · have h1 : (1 : Rat) ≤ ((b.snap.measure - a.snap.measure : Int) : Rat) := by exact_mod_cast (by omega : (1 : Int) ≤ b.snap.measure - a.snap.measure)
          nlinarith
        · rw [h1]; simp; linarith
        · rw [h1, h2']; simp
      · have := h2.1
        simp only [beatExtendAt, measDist, Bool.and_eq_false_iff, Bool.not_eq_false', Bool.and_eq_true,
          ] at this
        rintro ⟨hn, hp1, hp2⟩
        rcases this with (h | h) | h
        · exact hn ⟨of_decide_eq_true h.1, of_decide_eq_true h.2⟩
        · exact (of_decide_eq_false h) hp1
        · exact (of_decide_eq_false h) hp2
      · have := ht.1
        simp only [tinyGapAt, measDist, Bool.and_eq_false_iff] at this
        rintro ⟨hp1, hp2⟩
        rcases this with h | h
        · exact (of_decide_eq_false h) hp1
        · exact (of_decide_eq_false h) hp2
    · intro x hx
      rcases List.mem_cons.mp hx with rfl | hx
      · exact hbmet
      · exact ihM x hx

/-- **Main theorem (all clauses of the property at once).**  For every list in `Dom`, every threshold ≥ 0, every
initial offset `t0`: `reseat` does not raise, and its result `out`
* has every tempo point on a measure line (`seatedB`),
* is ascending (so `from_bpm_changes_snap`'s sort leaves it alone),
* has between `|l|` and `2·|l| − 1` points,
* contains the original changes in order — first on first, last on last, at most one extra point per original
  interval — each at its own millisecond position *as obtained by integrating `out` itself*, and with its own bpm
  wherever a whole number of measures follows (`interleaveB … true`; `tol = 0` is exact equality). -/
theorem reseat_spec (thr : Rat) (hthr : 0 ≤ thr) (l : List BcSnap) (hd : Dom thr l) (t0 tol : Rat) (htol : 0 ≤ tol)
    (bb : Bool) :
    ∃ out, reseat l thr = .ok out ∧ seatedB out = true ∧ sortBcSnap out = out ∧
      lengthOkB l.length out.length = true ∧
      interleaveB tol bb (inPts t0 (sortBcSnap l)) (outPts t0 (sortBcSnap out)) = true := by
  obtain ⟨hs, hw, hf, h2, ht, hm⟩ := hd
  cases l with
  | nil => simp [firstZeroB] at hf
  | cons b0 rest =>
    simp only [firstZeroB, Bool.and_eq_true, decide_eq_true_eq] at hf
    obtain ⟨hA, hH, _⟩ := dom_unfold thr rest b0 hs hw h2 ht hm
    obtain ⟨h, t, hseq, _, _, hseat, hsort, hl1, hl2, hint⟩ :=
      seatFromD_spec thr hthr tol htol bb (distsOf b0 rest) 0 b0 t0 hH hf.1 hf.2
    have hlenp : (distsOf b0 rest).length = rest.length := by
      clear * -
      induction rest generalizing b0 with
      | nil => rfl
      | cons b t ih => simp [distsOf, ih b]
    refine ⟨h :: t, ?_, hseat, rs_isort_sorted _ hsort, ?_, ?_⟩
    · rw [reseat_eq_ref thr hthr b0 rest hs hA hH, hseq]
    · rw [hlenp] at hl1 hl2
      simp only [lengthOkB, List.length_cons, Bool.and_eq_true, decide_eq_true_eq] at hl1 hl2 ⊢
      omega
    · rw [rs_isort_sorted _ hs, rs_isort_sorted _ hsort, inPts_eq]; exact hint

/-- every tempo point of the result lies on a measure line -/
theorem reseat_seated (thr : Rat) (hthr : 0 ≤ thr) (l out : List BcSnap) (hd : Dom thr l) (h : reseat l thr = .ok out) :
    seatedB out = true := by
  obtain ⟨o, ho, hs, _⟩ := reseat_spec thr hthr l hd 0 0 (le_refl _) true
  rw [ho] at h; cases h; exact hs

/-- at most one extra point per original interval: `|l| ≤ |out| ≤ 2·|l| − 1` -/
theorem reseat_length (thr : Rat) (hthr : 0 ≤ thr) (l out : List BcSnap) (hd : Dom thr l) (h : reseat l thr = .ok out) :
    l.length ≤ out.length ∧ out.length + 1 ≤ 2 * l.length := by
  obtain ⟨o, ho, _, _, hl, _⟩ := reseat_spec thr hthr l hd 0 0 (le_refl _) true
  rw [ho] at h; cases h
  simpa only [lengthOkB, Bool.and_eq_true, decide_eq_true_eq] using hl

/-- every original change's millisecond position is a tempo point of the result (exact equality, `tol = 0`;
the structure — in order, at most one extra point in between — is part of `interleaveB`) -/
theorem reseat_keeps_times (thr : Rat) (hthr : 0 ≤ thr) (l out : List BcSnap) (hd : Dom thr l) (t0 : Rat)
    (h : reseat l thr = .ok out) :
    interleaveB 0 false (inPts t0 (sortBcSnap l)) (outPts t0 (sortBcSnap out)) = true := by
  obtain ⟨o, ho, _, _, _, hi⟩ := reseat_spec thr hthr l hd t0 0 (le_refl _) false
  rw [ho] at h; cases h; exact hi

/-- … and it keeps the original bpm wherever a whole number of measures follows -/
theorem reseat_keeps_bpm (thr : Rat) (hthr : 0 ≤ thr) (l out : List BcSnap) (hd : Dom thr l) (t0 : Rat)
    (h : reseat l thr = .ok out) :
    interleaveB 0 true (inPts t0 (sortBcSnap l)) (outPts t0 (sortBcSnap out)) = true := by
  obtain ⟨o, ho, _, _, _, hi⟩ := reseat_spec thr hthr l hd t0 0 (le_refl _) true
  rw [ho] at h; cases h; exact hi

/-- the reseated list is what `from_bpm_changes_snap(…, reseat=False)` accepts unchanged, and no branch raises -/
theorem reseat_total (thr : Rat) (hthr : 0 ≤ thr) (l : List BcSnap) (hd : Dom thr l) :
    ∃ out, reseat l thr = .ok out ∧ sortBcSnap out = out := by
  obtain ⟨o, ho, _, hs, _⟩ := reseat_spec thr hthr l hd 0 0 (le_refl _) true
  exact ⟨o, ho, hs⟩

/-- **Reseating an already seated list changes nothing** (hence the tempo timeline is unchanged). -/
theorem reseat_id_of_seated (thr : Rat) (hthr : 0 ≤ thr) (l : List BcSnap) (hd : Dom thr l) (hseat : seatedB l = true) :
    reseat l thr = .ok l := by
  obtain ⟨hs, hw, hf, h2, ht, hm⟩ := hd
  cases l with
  | nil => simp [firstZeroB] at hf
  | cons b0 rest =>
    simp only [firstZeroB, Bool.and_eq_true, decide_eq_true_eq] at hf
    obtain ⟨hA, hH, hM⟩ := dom_unfold thr rest b0 hs hw h2 ht hm
    rw [reseat_eq_ref thr hthr b0 rest hs hA hH]
    simp only [wfB, List.all_cons, Bool.and_eq_true] at hw
    have hw0 := hw.1
    simp only [wfOne, Bool.and_eq_true, decide_eq_true_eq] at hw0
    simp only [seatedB, List.all_cons, Bool.and_eq_true, decide_eq_true_eq, List.all_eq_true] at hseat
    rw [seatFromD_seated thr hthr rest 0 b0 hf.1 hf.2 hw0.1.1.1.1.2 (fun b hb => ⟨hseat.2 b hb, hM b hb⟩)]

/-! ### the hypotheses are needed: counterexamples on the model (= the open findings, on the real code) -/

/-- **D16.** Changes at beats 0 and 6.0002 (60 bpm, 4/4): branch 2 fires; the result is seated but the original
change at 6000.2 ms is no tempo point of it (it integrates to 6000 ms). -/
theorem reseat_beat_extend_counterexample :
    let l : List BcSnap := [⟨60, 4, ⟨0, 0, some 4⟩⟩, ⟨120, 4, ⟨1, 20002 / 10000, some 4⟩⟩]
    noBeatExtendB (1 / 1000) l = false ∧ cumTimes 0 l = [0, 30001 / 5] ∧
    (reseat l (1 / 1000)).toOption.map (fun out =>
        (seatedB out, interleaveB 0 false (inPts 0 l) (outPts 0 (sortBcSnap out)), cumTimes 0 (sortBcSnap out)))
      = some (true, false, [0, 4000, 6000]) := by
  decide +kernel

/-- **D16b.** Two changes 1/500 beat apart (gap ≤ 0.001 measure): at the start of the list the model raises the
`ValueError` class ("Failed to yield positive Snap"); later in the list the stretched point lands one measure
*before* the current one and the change that was at 8000 ms ends up at 6001 ms. -/
theorem reseat_tiny_gap_counterexample :
    let l1 : List BcSnap := [⟨60, 4, ⟨0, 0, some 4⟩⟩, ⟨120, 4, ⟨0, 1 / 500, some 4⟩⟩]
    let l2 : List BcSnap := [⟨60, 4, ⟨0, 0, some 4⟩⟩, ⟨120, 4, ⟨2, 0, some 4⟩⟩, ⟨90, 4, ⟨2, 1 / 500, some 4⟩⟩]
    noTinyGapB (1 / 1000) l1 = false ∧ noTinyGapB (1 / 1000) l2 = false ∧
    reseat l1 (1 / 1000) = .error .value ∧ cumTimes 0 l2 = [0, 8000, 8001] ∧
    (reseat l2 (1 / 1000)).toOption.map (fun out => (sortedSnaps out, cumTimes 0 (sortBcSnap out)))
      = some (false, [0, 4000, 6001, 6001]) := by
  decide +kernel

/-! ### non-vacuity: concrete members of `Dom`, exercising branch 1 (stretch + insert), branch 3 (both variants),
a metronome change and a fractional metronome -/

example : Dom (1 / 1000) [⟨60, 4, ⟨0, 0, some 4⟩⟩, ⟨120, 4, ⟨4, 4 / 10000, some 4⟩⟩, ⟨90, 3, ⟨5, 5 / 2, some 3⟩⟩,
    ⟨200, 9 / 2, ⟨5, 11 / 4, some (9 / 2)⟩⟩, ⟨75, 4, ⟨9, 0, some 4⟩⟩] := by
  unfold Dom; decide +kernel

example : (reseat [⟨60, 4, ⟨0, 0, some 4⟩⟩, ⟨120, 4, ⟨4, 4 / 10000, some 4⟩⟩, ⟨90, 3, ⟨5, 5 / 2, some 3⟩⟩] (1 / 1000)).toOption
    = some [⟨60, 4, ⟨0, 0, some 4⟩⟩, ⟨600000 / 10001, 4, ⟨3, 0, some 4⟩⟩, ⟨120, 4, ⟨4, 0, some 4⟩⟩,
            ⟨1200000 / 6249, 4, ⟨5, 0, some 4⟩⟩, ⟨90, 3, ⟨6, 0, some 3⟩⟩] := by decide +kernel

example : Dom (1 / 1000) [⟨120, 4, ⟨0, 0, some 4⟩⟩, ⟨60, 3, ⟨2, 0, some 3⟩⟩, ⟨240, 7, ⟨9, 0, some 7⟩⟩] ∧
    seatedB [⟨120, 4, ⟨0, 0, some 4⟩⟩, ⟨60, 3, ⟨2, 0, some 3⟩⟩, ⟨240, 7, ⟨9, 0, some 7⟩⟩] = true := by
  unfold Dom; decide +kernel

end Reamber.Timing
