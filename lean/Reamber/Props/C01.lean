/-
C01 — osu!mania file ↔ chart.  Property theorems about the executable model `Reamber/Model/Osu.lean`
(+ `Model/OsuLex.lean`), stated against `Reamber/Spec/Osu.lean`.  The correspondence check
(`harness/props/c01.py`) ties the model to reamber/osu/*.py on every run; `Generated/OsuTables.lean` ties the
constants, defaults, key table and header template to the source.

Parameters, not proved (DESIGN §5 K3): float rendering (`repr`) and `unidecode` — the writer emits tokens;
hit / hold / sample lines contain integers only and are proved down to the characters.
-/
import Reamber.Lemmas.OsuHeader
import Reamber.Lemmas.OsuDenote
import Reamber.Lemmas.OsuDialect
import Reamber.Lemmas.OsuWritten
import Reamber.Lemmas.OsuReadFacts
import Reamber.Lemmas.OsuPerm
import Reamber.Lemmas.OsuWide
import Reamber.Generated.OsuTables

namespace Reamber.Osu

/-! ## tie to the source -/

def tokFlag : Tok → String
  | .num _ => "num" | .uni _ => "uni" | _ => ""

/-- (literal prefix, "num" | "uni" | "", literal suffix) of one header line -/
def lineShape : TLine → String × String × String
  | [] => ("", "", "")
  | [.lit s] => (String.ofList s, "", "")
  | [.lit s, t] => (String.ofList s, tokFlag t, "")
  | [.lit s, t, .lit u] => (String.ofList s, tokFlag t, String.ofList u)
  | _ => ("?", "?", "?")

def d0 : Meta := {}

/-- Tie to the source.  The constants of the column mapping and of value↔code, the dataclass defaults of
`OsuMapMeta`, the item constructors' defaults, the key table of `_read_meta_string_list` and the line templates
of `write_meta_string_list` are the ones the translator read from the code.  Re-checked whenever they change. -/
theorem consts_tie :
    Generated.Osu.xToColConsts = [512, 1, 0] ∧ Generated.Osu.colToXConsts = [0, 512, 256] ∧
    Generated.Osu.bpmCodeConsts = [60000, 60000] ∧ Generated.Osu.svCodeConsts = [-100, -100] ∧
    Generated.Osu.metaNumDefaults =
      [("hp_drain_rate", d0.hpDrainRate), ("circle_size", d0.circleSize), ("overall_difficulty", d0.overallDifficulty),
       ("approach_rate", d0.approachRate), ("slider_multiplier", d0.sliderMultiplier),
       ("slider_tick_rate", d0.sliderTickRate), ("beatmap_id", (d0.beatmapId : Rat)),
       ("beatmap_set_id", (d0.beatmapSetId : Rat)), ("distance_spacing", d0.distanceSpacing),
       ("beat_divisor", d0.beatDivisor), ("grid_size", d0.gridSize), ("timeline_zoom", d0.timelineZoom),
       ("audio_lead_in", d0.audioLeadIn), ("preview_time", d0.previewTime), ("sample_set", (d0.sampleSet : Rat)),
       ("stack_leniency", d0.stackLeniency), ("mode", (d0.mode : Rat))] ∧
    Generated.Osu.metaBoolDefaults =
      [("countdown", d0.countdown), ("letterbox_in_breaks", d0.letterboxInBreaks), ("special_style", d0.specialStyle),
       ("widescreen_storyboard", d0.widescreenStoryboard)] ∧
    Generated.Osu.metaStrDefaults.map (fun p => p.2.toList) = List.replicate 10 [] ∧
    Generated.Osu.itemDefaults =
      [("OsuHit.hitsound_set", 0), ("OsuHit.sample_set", 0), ("OsuHit.addition_set", 0), ("OsuHit.custom_set", 0),
       ("OsuHit.volume", 0), ("OsuHold.hitsound_set", 0), ("OsuHold.sample_set", 0), ("OsuHold.addition_set", 0),
       ("OsuHold.custom_set", 0), ("OsuHold.volume", 0), ("OsuBpm.metronome", 4), ("OsuBpm.sample_set", 0),
       ("OsuBpm.sample_set_index", 0), ("OsuBpm.volume", 50), ("OsuBpm.kiai", 0), ("OsuSv.multiplier", 1),
       ("OsuSv.metronome", 4), ("OsuSv.sample_set", 0), ("OsuSv.sample_set_index", 0), ("OsuSv.volume", 50),
       ("OsuSv.kiai", 0), ("OsuSample.volume", 70)] ∧
    Generated.Osu.metaKeyTable = modelKeyTable ∧
    Generated.Osu.numHelperBody = "f = float(v); return str(int(f)) if f.is_integer() else repr(f)" ∧
    (writeMeta d0).map lineShape ++ [("*", "*", "")] = Generated.Osu.metaWriteShape := by
  decide +kernel

/-! ## column ↔ x (every key count) -/

/-- **x → column is the format's column, for every key count and every x of the playfield** (1 ≤ K, 0 ≤ x < 512):
`512·col ≤ x·K < 512·(col+1)`; and it is the only such column. -/
theorem xToCol_range (x k : Int) (hk : 1 ≤ k) (hx0 : 0 ≤ x) (hx : x < 512) :
    512 * xToCol x k ≤ x * k ∧ x * k < 512 * (xToCol x k + 1) ∧
    ∀ c, IsColumn x k c → c = xToCol x k :=
  have h := xToCol_isColumn x k hk hx0 hx
  ⟨h.1.1, h.1.2, fun _ hc => isColumn_unique hc h.1⟩

/-- **write then read of a column is the identity**, every key count up to 256 (in particular 1..18) -/
theorem column_roundtrip (c k : Int) (hk : 0 < k) (hk' : k ≤ 256) (hc0 : 0 ≤ c) (hc : c < k) :
    xToCol (colToX c k) k = c ∧ IsColumn (colToX c k) k c := ⟨xToCol_colToX c k hk hk' hc0 hc, (colToX_isColumn c k hk hk' hc0 hc).1⟩

example : xToCol (colToX 5 10) 10 = 5 ∧ xToCol 256 10 = 5 := by decide

/-! ## resolution: Python `int()` and no drift -/

/-- **times move by less than 1 ms** when written -/
theorem qHit_close (h : Hit) : |(qHit h).offset - h.offset| < 1 ∧ (qHit h).column = h.column :=
  ⟨pyTrunc_abs_lt_one _, rfl⟩

/-- both end points of a hold move by less than 1 ms -/
theorem qHold_close (h : Hold) :
    |(qHold h).offset - h.offset| < 1 ∧ |((qHold h).offset + (qHold h).length) - (h.offset + h.length)| < 1 := by
  refine ⟨pyTrunc_abs_lt_one _, ?_⟩
  have : (qHold h).offset + (qHold h).length = (pyTrunc (h.offset + h.length) : Rat) := by
    simp only [qHold]; ring
  rw [this]; exact pyTrunc_abs_lt_one _

/-- **no drift**: quantizing a quantized note / hold / sample changes nothing, so every later generation equals
the first written one -/
theorem qHit_idem (h : Hit) : qHit (qHit h) = qHit h := by
  simp only [qHit, pyTrunc_intCast]

theorem qHold_idem (h : Hold) : qHold (qHold h) = qHold h := by
  have e : ((pyTrunc h.offset : Int) : Rat) + (((pyTrunc (h.offset + h.length) : Int) : Rat) - ((pyTrunc h.offset : Int) : Rat))
      = ((pyTrunc (h.offset + h.length) : Int) : Rat) := by ring
  simp only [qHold, pyTrunc_intCast, e]

theorem qSample_idem (s : Sample) : qSample (qSample s) = qSample s := by
  simp only [qSample, pyTrunc_intCast]

theorem qBpm_idem (b : Bpm) : qBpm (qBpm b) = qBpm b := by
  simp only [qBpm, pyTrunc_intCast]

/-! ## value ↔ code -/

/-- **bpm ↔ beat length and SV ↔ code are involutions** on non-zero values: what is written reads back exactly -/
theorem code_value (v : Rat) (hv : v ≠ 0) :
    bpmCode (bpmCode v) = v ∧ svCode (svCode v) = v ∧ bpmCode v ≠ 0 ∧ svCode v ≠ 0 :=
  ⟨bpmCode_bpmCode v hv, svCode_svCode v hv, bpmCode_ne_zero v hv, svCode_ne_zero v hv⟩

/-! ## the classifier by counting agrees with the type bits -/

/-- **for every line of the dialect (`wfObjLine`), counting `:` and `,` classifies exactly as the type bits do**:
`is_hit` ⇔ bit 0, `is_hold` ⇔ bit 7, never both -/
theorem classify_eq_typeBits (line : Str) (h : wfObjLine line = true) :
    ∃ fx fy ft fty fhs fex ty, splitOn ',' line = [fx, fy, ft, fty, fhs, fex] ∧ readInt fty = .ok ty ∧
      isHit line = bit ty 0 ∧ isHold line = bit ty 7 ∧ bit ty 0 ≠ bit ty 7 := by
  unfold wfObjLine at h
  split at h
  · next fx fy ft fty fhs fex hs =>
    simp only [Bool.and_eq_true, decide_eq_true_eq] at h
    obtain ⟨⟨⟨⟨⟨h0, h1⟩, h2⟩, h3⟩, h4⟩, h5⟩ := h
    have hcnt := classify_fields line fx fy ft fty fhs fex hs (by simpa using h0) (by simpa using h1)
      (by simpa using h2) (by simpa using h3) (by simpa using h4)
    cases hty : readInt fty with
    | error e => rw [hty] at h5; simp at h5
    | ok ty =>
      rw [hty] at h5
      refine ⟨fx, fy, ft, fty, fhs, fex, ty, hs, hty, ?_⟩
      simp only [Bool.or_eq_true, Bool.and_eq_true, Bool.not_eq_true', decide_eq_true_eq] at h5
      unfold isHit isHold
      rcases h5 with ⟨⟨b0, b7⟩, hl⟩ | ⟨⟨b0, b7⟩, hl⟩
      · have hc : countC ':' line = 4 := by omega
        simp [hc, hcnt.1, b0, b7]
      · have hc : countC ':' line = 5 := by omega
        simp [hc, hcnt.1, b0, b7]
  · simp at h

example : wfObjLine "307,0,1000.75,132,0,2000.5:0:0:0:0:".toList = true := by decide +kernel

/-! ## `Key:Value` — the first colon only (D01) -/

/-- **every metadata value survives, whatever it contains** (further colons included): the line `key ++ ":" ++ value`
is split at the first colon and the value reaches the attribute trimmed.  Shown for the seven text attributes. -/
theorem meta_value_any (m : Meta) (v : Str) (rest : List Str) :
    metaStep m ("Title".toList ++ ':' :: v) rest = .ok { m with title := strip v } ∧
    metaStep m ("TitleUnicode".toList ++ ':' :: v) rest = .ok { m with titleUnicode := strip v } ∧
    metaStep m ("Artist".toList ++ ':' :: v) rest = .ok { m with artist := strip v } ∧
    metaStep m ("ArtistUnicode".toList ++ ':' :: v) rest = .ok { m with artistUnicode := strip v } ∧
    metaStep m ("Creator".toList ++ ':' :: v) rest = .ok { m with creator := strip v } ∧
    metaStep m ("Version".toList ++ ':' :: v) rest = .ok { m with version := strip v } ∧
    metaStep m ("Source".toList ++ ':' :: v) rest = .ok { m with source := strip v } := by
  refine ⟨?_, ?_, ?_, ?_, ?_, ?_, ?_⟩ <;>
    (apply metaStep_key_value
     · decide +kernel
     · decide +kernel
     · decide +kernel
     · unfold metaAssign; simp [mStr])

/-- numeric and boolean keys: the value is parsed by `int()` / `float()` / `bool(int())` of everything after the
first colon -/
theorem meta_numeric_any (m : Meta) (v : Str) (rest : List Str) (q : Rat) (i : Int) :
    (readFloat v = .ok q → metaStep m ("CircleSize".toList ++ ':' :: v) rest = .ok { m with circleSize := q }) ∧
    (readInt v = .ok i → metaStep m ("AudioLeadIn".toList ++ ':' :: v) rest = .ok { m with audioLeadIn := (i : Rat) }) ∧
    (readInt v = .ok i → metaStep m ("BeatmapID".toList ++ ':' :: v) rest = .ok { m with beatmapId := i }) := by
  refine ⟨fun h => ?_, fun h => ?_, fun h => ?_⟩ <;>
    (apply metaStep_key_value
     · decide +kernel
     · decide +kernel
     · decide +kernel
     · unfold metaAssign; simp [mFloat, mInt, h, bind, Except.bind, pure, Except.pure])

/-- **numeric metadata round trip, no domain restriction** (after the repair of D30 the writer uses `_num`): the line
that `write_meta_string_list` emits for a numeric attribute reads back to exactly that number — for every integral
value with every renderer (the integer is printed by the model), for any other value under the assumption that
`repr` of *that* value reads back (`float(repr(x)) == x`).  Shown for the eight float-read attributes and the three
int-read ones (which hold integers). -/
theorem meta_numeric_roundtrip (R : Render) (m : Meta) (q : Rat) (n : Int) (rest : List Str)
    (hr : q.den ≠ 1 → readFloat (R.repr q) = .ok q) :
    metaStep m (R.line [L "HPDrainRate:", .num q]) rest = .ok { m with hpDrainRate := q } ∧
    metaStep m (R.line [L "CircleSize:", .num q]) rest = .ok { m with circleSize := q } ∧
    metaStep m (R.line [L "OverallDifficulty:", .num q]) rest = .ok { m with overallDifficulty := q } ∧
    metaStep m (R.line [L "ApproachRate:", .num q]) rest = .ok { m with approachRate := q } ∧
    metaStep m (R.line [L "SliderMultiplier:", .num q]) rest = .ok { m with sliderMultiplier := q } ∧
    metaStep m (R.line [L "SliderTickRate:", .num q]) rest = .ok { m with sliderTickRate := q } ∧
    metaStep m (R.line [L "DistanceSpacing: ", .num q]) rest = .ok { m with distanceSpacing := q } ∧
    metaStep m (R.line [L "TimelineZoom: ", .num q]) rest = .ok { m with timelineZoom := q } ∧
    metaStep m (R.line [L "AudioLeadIn: ", .num (n : Rat)]) rest = .ok { m with audioLeadIn := (n : Rat) } ∧
    metaStep m (R.line [L "BeatDivisor: ", .num (n : Rat)]) rest = .ok { m with beatDivisor := (n : Rat) } ∧
    metaStep m (R.line [L "GridSize: ", .num (n : Rat)]) rest = .ok { m with gridSize := (n : Rat) } := by
  have hf := readFloat_tok_num R q hr
  have hi := readInt_tok_num R n
  refine ⟨?_, ?_, ?_, ?_, ?_, ?_, ?_, ?_, ?_, ?_, ?_⟩
  · exact metaStep_lit_tok R m _ "HPDrainRate".toList [] _ _ rest (by decide +kernel) (by decide +kernel)
      (by decide +kernel) (by decide +kernel)
      (by unfold metaAssign; simp [mFloat, hf, bind, Except.bind, pure, Except.pure])
  · exact metaStep_lit_tok R m _ "CircleSize".toList [] _ _ rest (by decide +kernel) (by decide +kernel)
      (by decide +kernel) (by decide +kernel)
      (by unfold metaAssign; simp [mFloat, hf, bind, Except.bind, pure, Except.pure])
  · exact metaStep_lit_tok R m _ "OverallDifficulty".toList [] _ _ rest (by decide +kernel) (by decide +kernel)
      (by decide +kernel) (by decide +kernel)
      (by unfold metaAssign; simp [mFloat, hf, bind, Except.bind, pure, Except.pure])
  · exact metaStep_lit_tok R m _ "ApproachRate".toList [] _ _ rest (by decide +kernel) (by decide +kernel)
      (by decide +kernel) (by decide +kernel)
      (by unfold metaAssign; simp [mFloat, hf, bind, Except.bind, pure, Except.pure])
  · exact metaStep_lit_tok R m _ "SliderMultiplier".toList [] _ _ rest (by decide +kernel) (by decide +kernel)
      (by decide +kernel) (by decide +kernel)
      (by unfold metaAssign; simp [mFloat, hf, bind, Except.bind, pure, Except.pure])
  · exact metaStep_lit_tok R m _ "SliderTickRate".toList [] _ _ rest (by decide +kernel) (by decide +kernel)
      (by decide +kernel) (by decide +kernel)
      (by unfold metaAssign; simp [mFloat, hf, bind, Except.bind, pure, Except.pure])
  · exact metaStep_lit_tok R m _ "DistanceSpacing".toList [' '] _ _ rest (by decide +kernel) (by decide +kernel)
      (by decide +kernel) (by decide +kernel)
      (by unfold metaAssign; simp [mFloat, readFloat_cons_space, hf, bind, Except.bind, pure, Except.pure])
  · exact metaStep_lit_tok R m _ "TimelineZoom".toList [' '] _ _ rest (by decide +kernel) (by decide +kernel)
      (by decide +kernel) (by decide +kernel)
      (by unfold metaAssign; simp [mFloat, readFloat_cons_space, hf, bind, Except.bind, pure, Except.pure])
  · exact metaStep_lit_tok R m _ "AudioLeadIn".toList [' '] _ _ rest (by decide +kernel) (by decide +kernel)
      (by decide +kernel) (by decide +kernel)
      (by unfold metaAssign; simp [mInt, readInt_cons_space, hi, bind, Except.bind, pure, Except.pure])
  · exact metaStep_lit_tok R m _ "BeatDivisor".toList [' '] _ _ rest (by decide +kernel) (by decide +kernel)
      (by decide +kernel) (by decide +kernel)
      (by unfold metaAssign; simp [mInt, readInt_cons_space, hi, bind, Except.bind, pure, Except.pure])
  · exact metaStep_lit_tok R m _ "GridSize".toList [' '] _ _ rest (by decide +kernel) (by decide +kernel)
      (by decide +kernel) (by decide +kernel)
      (by unfold metaAssign; simp [mInt, readInt_cons_space, hi, bind, Except.bind, pure, Except.pure])

/-- non-vacuity: the two values of the former finding D30 come back exactly (an integer ≥ 10^6, with any renderer) -/
example : (metaStep {} (intRender.line [L "AudioLeadIn: ", .num 1000000]) []).toOption.map (·.audioLeadIn) = some 1000000 := by
  decide +kernel

example : (metaStep {} "Title:a:b: c".toList []).toOption.map (·.title) = some "a:b: c".toList := by decide +kernel

/-! ## read ∘ write, line by line, down to the characters -/

/-- **Reading what was written gives the quantized object, for every key count 1..256, every column, every time
(negative, fractional, large), every hitsound field, every file name without `,` `:`** — hit, hold and sample lines
(proved for every instantiation of the renderer: these lines contain integers only). -/
theorem line_roundtrip (R : Render) (k : Int) (hk : 0 < k) (hk' : k ≤ 256) :
    (∀ h : Hit, 0 ≤ h.column → h.column < k → ',' ∉ h.file → ':' ∉ h.file →
        readHit (R.line (writeHit h k)) k = .ok (qHit h)) ∧
    (∀ h : Hold, 0 ≤ h.column → h.column < k → ',' ∉ h.file → ':' ∉ h.file →
        readHold (R.line (writeHold h k)) k = .ok (qHold h)) ∧
    (∀ s : Sample, ',' ∉ s.file → readSample (R.line (writeSample s)) = .ok (qSample s)) :=
  ⟨fun h a b c d => readHit_writeHit R h k hk hk' a b c d, fun h a b c d => readHold_writeHold R h k hk hk' a b c d,
   fun s a => readSample_writeSample R s a⟩

/-- **no drift, at the text level**: writing and reading an object that has already been through one cycle
reproduces it exactly — generation n+1 = generation 1 -/
theorem line_no_drift (R : Render) (k : Int) (hk : 0 < k) (hk' : k ≤ 256) (h : Hit) (hd : Hold)
    (h1 : 0 ≤ h.column) (h2 : h.column < k) (h3 : ',' ∉ h.file) (h4 : ':' ∉ h.file)
    (d1 : 0 ≤ hd.column) (d2 : hd.column < k) (d3 : ',' ∉ hd.file) (d4 : ':' ∉ hd.file) :
    readHit (R.line (writeHit (qHit h) k)) k = .ok (qHit h) ∧
    readHold (R.line (writeHold (qHold hd) k)) k = .ok (qHold hd) := by
  constructor
  · have := readHit_writeHit R (qHit h) k hk hk' h1 h2 h3 h4
    rw [qHit_idem] at this; exact this
  · have := readHold_writeHold R (qHold hd) k hk hk' d1 d2 d3 d4
    rw [qHold_idem] at this; exact this

example : (readHold (intRender.line (writeHold { offset := -21/2, column := 3, length := 21/4 } 4)) 4).toOption =
    some { offset := -10, column := 3, length := 5 } := by decide +kernel

/-- tempo and scroll-velocity lines, parametric in the float renderer (hypotheses: `repr` reads back exactly and
contains no comma, for the numbers of this very line) -/
theorem timing_line_roundtrip (R : Render) :
    (∀ b : Bpm, b.bpm ≠ 0 → readFloat (R.repr b.offset) = .ok b.offset →
        readFloat (R.repr (bpmCode b.bpm)) = .ok (bpmCode b.bpm) → ',' ∉ R.repr b.offset →
        ',' ∉ R.repr (bpmCode b.bpm) → readBpm (R.line (writeBpm b)) = .ok (qBpm b)) ∧
    (∀ b : Sv, b.multiplier ≠ 0 → readFloat (R.repr b.offset) = .ok b.offset →
        readFloat (R.repr (svCode b.multiplier)) = .ok (svCode b.multiplier) → ',' ∉ R.repr b.offset →
        ',' ∉ R.repr (svCode b.multiplier) → readSv (R.line (writeSv b)) = .ok b) :=
  ⟨fun b a c d e f => readBpm_writeBpm R b a c d e f, fun b a c d e f => readSv_writeSv R b a c d e f⟩

/-! ## the whole `[HitObjects]` section of a written chart -/

/-- **Every chart, any number of notes, any interleaving, every key count 1..256**: the object lines that `write`
emits (holds and hits merged, sorted by time), classified by counting separators and read back, are exactly the hits
and holds of `quantize c` — columns kept, times truncated, nothing lost, nothing invented, nothing misclassified. -/
theorem objects_section_roundtrip (R : Render) (c : Chart)
    (hk : 0 < pyTrunc c.md.circleSize) (hk' : pyTrunc c.md.circleSize ≤ 256)
    (hhits : ∀ h ∈ c.hits, 0 ≤ h.column ∧ h.column < pyTrunc c.md.circleSize ∧ ',' ∉ h.file ∧ ':' ∉ h.file)
    (hholds : ∀ h ∈ c.holds, 0 ≤ h.column ∧ h.column < pyTrunc c.md.circleSize ∧ ',' ∉ h.file ∧ ':' ∉ h.file) :
    mapE (fun s => readHit s (pyTrunc c.md.circleSize))
        ((((sortedObjs c).map (writeObj (pyTrunc c.md.circleSize))).map R.line).filter isHit)
      = .ok (quantize R.uni c).hits ∧
    mapE (fun s => readHold s (pyTrunc c.md.circleSize))
        ((((sortedObjs c).map (writeObj (pyTrunc c.md.circleSize))).map R.line).filter isHold)
      = .ok (quantize R.uni c).holds := by
  apply readObjs_writeObjs R _ hk hk'
  intro o ho
  unfold sortedObjs at ho
  rw [mem_isort] at ho
  simp only [List.mem_append, List.mem_map] at ho
  rcases ho with ⟨h, hh, rfl⟩ | ⟨h, hh, rfl⟩
  · exact hholds h hh
  · exact hhits h hh

example : (mapE (fun s => readHit s 4) ((((sortedObjs { hits := [{ offset := 7/2, column := 1 }], holds := [{ offset := 1, column := 0, length := 3/2 }] }).map
    (writeObj 4)).map intRender.line).filter isHit)).toOption = some [{ offset := 3, column := 1 }] := by decide +kernel

/-! ## the `[TimingPoints]` section and the sample events of a written chart -/

/-- the timing lines of `write c`, classified and read back, are the tempo points and scroll velocities of
`quantize c` (bpm and SV values exactly, by `code_value`) — any number of points; hypotheses only on the renderer -/
theorem timing_section_roundtrip (R : Render) (c : Chart)
    (hb : ∀ b ∈ c.bpms, BpmOk R b) (hs : ∀ b ∈ c.svs, SvOk R b) :
    mapE readSv (((c.bpms.map writeBpm ++ c.svs.map writeSv).map R.line).filter isSliderVelocity)
      = .ok (quantize R.uni c).svs ∧
    mapE readBpm (((c.bpms.map writeBpm ++ c.svs.map writeSv).map R.line).filter isTimingPoint)
      = .ok (quantize R.uni c).bpms :=
  readTiming_writeTiming R c.bpms c.svs hb hs

/-! ## the whole text -/

/-- the header lines as the reader sees them -/
def headS (R : Render) (c : Chart) : List Str := (headLines R c).map strip

/-- what the whole-text theorem needs from the header (the metadata loop over the ~50 written lines) -/
def HeaderOk (R : Render) (c : Chart) : Prop :=
  (∀ l ∈ headLines R c, '\n' ∉ l) ∧ hTiming ∉ headS R c ∧ hObjects ∉ headS R c ∧
  readMeta {} (headS R c ++ [[]]) = .ok (qMeta R.uni c.md)

/-- **`read_file(write_file(c)) = quantize c`, modulo the header**: for every chart (any number of objects and
timing points, every key count 1..256), the text `"\n".join(write())` split at line breaks, trimmed line by line,
cut at the first `[TimingPoints]` / `[HitObjects]`, classified and parsed, is exactly `quantize c` — *provided* the
metadata loop over the written header yields `qMeta c.md` (`HeaderOk`; its per-key parts are `meta_value_any`,
`meta_numeric_roundtrip`, `samples_section_roundtrip`).  Hypotheses on the chart: columns inside the key count;
hitsound file names without `,` `:` line breaks or a trailing blank; non-zero bpm / SV; on the renderer: `repr` of
the floats of the timing lines reads back exactly and is free of commas and blanks. -/
theorem read_writeText_of_header (R : Render) (c : Chart)
    (hk : 0 < pyTrunc c.md.circleSize) (hk' : pyTrunc c.md.circleSize ≤ 256)
    (hhits : ∀ h ∈ c.hits, ObjOk2 (pyTrunc c.md.circleSize) (.hit h))
    (hholds : ∀ h ∈ c.holds, ObjOk2 (pyTrunc c.md.circleSize) (.hold h))
    (hb : ∀ b ∈ c.bpms, BpmOk2 R b) (hs : ∀ b ∈ c.svs, SvOk2 R b) (hH : HeaderOk R c) :
    readText (writeText R c) = .ok (quantize R.uni c) := by
  obtain ⟨hnl, hT, hO, hmeta⟩ := hH
  have hobj : ∀ o ∈ sortedObjs c, ObjOk2 (pyTrunc c.md.circleSize) o := by
    intro o ho
    unfold sortedObjs at ho
    rw [mem_isort] at ho
    simp only [List.mem_append, List.mem_map] at ho
    rcases ho with ⟨h, hh, rfl⟩ | ⟨h, hh, rfl⟩
    · exact hholds h hh
    · exact hhits h hh
  have hol : ∀ l ∈ objLines R c, strip l = l ∧ '\n' ∉ l := by
    intro l hl
    simp only [objLines, List.map_map, List.mem_map, Function.comp] at hl
    obtain ⟨o, ho, rfl⟩ := hl
    exact obj_line_ok R _ o (hobj o ho)
  have htl := tpLines_ok R c hb hs
  unfold readText
  rw [lines_writeText R c hnl (fun l hl => noWs_not_nl l (htl l hl).1) (fun l hl => (hol l hl).2)]
  have e0 : strip ([] : Str) = [] := rfl
  have e1 : strip hTiming = hTiming := by decide +kernel
  have e2 : strip hObjects = hObjects := by decide +kernel
  have sections := readTiming_writeTiming R c.bpms c.svs (fun b hb' => (hb b hb').toBpmOk) (fun b hs' => (hs b hs').toSvOk)
  have objs := readObjs_writeObjs R (pyTrunc c.md.circleSize) hk hk' (sortedObjs c) (fun o ho => (hobj o ho).toObjOk)
  have f1 : ([[], []] : List Str).filter isSliderVelocity = [] := by decide +kernel
  have f2 : ([[], []] : List Str).filter isTimingPoint = [] := by decide +kernel
  have hcs : (qMeta R.uni c.md).circleSize = c.md.circleSize := rfl
  apply read_sections _ (headS R c ++ [[]]) (tpLines R c ++ [[], []]) (objLines R c)
  · simp only [List.map_append, List.map_cons, List.map_nil, e0, e1, e2, headS,
      map_strip_of _ (fun l hl => strip_of_noWs l (htl l hl).1), map_strip_of _ (fun l hl => (hol l hl).1)]
    simp
  · simp only [List.mem_append, List.mem_singleton, not_or]
    exact ⟨hT, by decide +kernel⟩
  · simp only [List.mem_append, List.mem_singleton, not_or]
    exact ⟨hO, by decide +kernel⟩
  · simp only [List.mem_append, List.mem_cons, List.not_mem_nil, or_false, not_or]
    exact ⟨fun hm => (htl _ hm).2 rfl, by decide +kernel, by decide +kernel⟩
  · exact hmeta
  · rw [List.filter_append, f1, List.append_nil]; exact sections.1
  · rw [List.filter_append, f2, List.append_nil]; exact sections.2
  · rw [hcs]; exact objs.1
  · rw [hcs]; exact objs.2

/-- the header part of the whole-text theorem, discharged: `HeaderOk` follows from `MetaOk` (integers where the
reader uses `int()`, `repr` read-back for the non-integral numbers, comma-free sample file names) and from "no token of
the written header renders a line break" -/
theorem headerOk_of (R : Render) (c : Chart) (hm : MetaOk R c.md)
    (hnl : ∀ tl ∈ writeMeta c.md, ∀ t ∈ tl, '\n' ∉ R.tok t) : HeaderOk R c := by
  have hS : headS R c = hdrS R c.md ++ (c.md.samples.map writeSample).map R.line := headS_eq R c.md
  have hsl : ∀ l ∈ (c.md.samples.map writeSample).map R.line, l ≠ hTiming ∧ l ≠ hObjects := by
    intro l hl
    simp only [List.map_map, List.mem_map, Function.comp] at hl
    obtain ⟨s, _, rfl⟩ := hl
    exact sample_line_not_header R s
  refine ⟨?_, ?_, ?_, ?_⟩
  · intro l hl
    simp only [headLines, List.mem_map] at hl
    obtain ⟨tl, htl, rfl⟩ := hl
    exact line_no_nl R tl (hnl tl htl)
  · rw [hS, List.mem_append, not_or]
    exact ⟨(hdrS_not_header R c.md).1, fun h => (hsl _ h).1 rfl⟩
  · rw [hS, List.mem_append, not_or]
    exact ⟨(hdrS_not_header R c.md).2, fun h => (hsl _ h).2 rfl⟩
  · rw [hS, List.append_assoc]
    exact readMeta_header R c.md hm

/-- **`read_file(write_file(c)) = quantize c` — the whole text, header included.**  For every chart — any number of
hits, holds, tempo points, scroll velocities and sample events, every key count 1..256, every value of every one of
the 32 metadata attributes (colons, non-ASCII, any number) — the text `"\n".join(write())`, split at line breaks,
trimmed line by line, cut at the first `[TimingPoints]` / `[HitObjects]`, run through the metadata loop, the line
classifiers and the five `read_string`s, is exactly `quantize c`: times truncated toward zero (each moving by less than
1 ms, `qHit_close` / `qHold_close`), text attributes trimmed, everything else identical; and `quantize` is idempotent
(`q*_idem`), so every later generation equals the first.
Hypotheses — on the chart: columns inside the key count; hitsound file names without `,` `:` line break or trailing
blank; non-zero bpm / SV; AudioLeadIn / BeatDivisor / GridSize hold integers; sample file names without comma.
On the renderer (parameters of the model, DESIGN §5 K3): `repr` of each float that is actually written reads back
exactly and contains no comma / blank (`ReprOk`, `NumOk`); no token of the header renders a line break. -/
theorem read_writeText (R : Render) (c : Chart)
    (hk : 0 < pyTrunc c.md.circleSize) (hk' : pyTrunc c.md.circleSize ≤ 256)
    (hhits : ∀ h ∈ c.hits, ObjOk2 (pyTrunc c.md.circleSize) (.hit h))
    (hholds : ∀ h ∈ c.holds, ObjOk2 (pyTrunc c.md.circleSize) (.hold h))
    (hb : ∀ b ∈ c.bpms, BpmOk2 R b) (hs : ∀ b ∈ c.svs, SvOk2 R b)
    (hm : MetaOk R c.md) (hnl : ∀ tl ∈ writeMeta c.md, ∀ t ∈ tl, '\n' ∉ R.tok t) :
    readText (writeText R c) = .ok (quantize R.uni c) :=
  read_writeText_of_header R c hk hk' hhits hholds hb hs (headerOk_of R c hm hnl)

/-- non-vacuity of `read_writeText`: a 7K chart with a hit, a hold, a tempo point, a scroll velocity, a sample and
text metadata containing colons satisfies every hypothesis (renderer: integers as integers) -/
def demoChart : Chart :=
  { md := { stackLeniency := 1, timelineZoom := 2, sliderMultiplier := 3, circleSize := 7, audioLeadIn := 1000000,
            title := "a:b: c".toList, tags := ["x".toList, "y:z".toList], audioFileName := "a b.mp3".toList,
            samples := [{ offset := 25/2, file := "\"clap.wav\"".toList, volume := 70 }] },
    bpms := [{ offset := 0, bpm := 120, metronome := 4 }], svs := [{ offset := 10, multiplier := 2 }],
    hits := [{ offset := 7/2, column := 6, file := "hit normal.wav".toList }],
    holds := [{ offset := -21/2, column := 3, length := 21/4 }] }

example : readText (writeText intRender demoChart) = .ok (quantize id demoChart) :=
  read_writeText intRender demoChart (by decide +kernel) (by decide +kernel) (by decide +kernel) (by decide +kernel)
    (by decide +kernel) (by decide +kernel) (by decide +kernel) (by decide +kernel)

/-! ## the file entry point -/

theorem univNl_of_noCr (t : Str) (h : '\r' ∉ t) : univNl t = t := by
  induction t with
  | nil => rfl
  | cons c t ih =>
    have hc : c ≠ '\r' := fun e => h (by simp [e])
    have ht : '\r' ∉ t := fun e => h (by simp [e])
    unfold univNl
    split
    · next heq => cases heq
    · next heq => injection heq with h1 _; exact absurd h1 hc
    · next heq => injection heq with h1 _; exact absurd h1 hc
    · next heq => injection heq with h1 h2; subst h1; subst h2; rw [ih ht]

/-- **`read_file(write_file(c)) = quantize c`**: `read_file` is decode + universal newlines + `split("\n")` + `read`
(`readFile`); on a written text without carriage returns the newline translation is the identity.  Only `"\n"`
separates lines: U+2028, U+2029, U+0085, \x0b, \x0c, \x1c–\x1e inside a value stay inside it. -/
theorem readFile_writeText (R : Render) (c : Chart)
    (hk : 0 < pyTrunc c.md.circleSize) (hk' : pyTrunc c.md.circleSize ≤ 256)
    (hhits : ∀ h ∈ c.hits, ObjOk2 (pyTrunc c.md.circleSize) (.hit h))
    (hholds : ∀ h ∈ c.holds, ObjOk2 (pyTrunc c.md.circleSize) (.hold h))
    (hb : ∀ b ∈ c.bpms, BpmOk2 R b) (hs : ∀ b ∈ c.svs, SvOk2 R b)
    (hm : MetaOk R c.md) (hnl : ∀ tl ∈ writeMeta c.md, ∀ t ∈ tl, '\n' ∉ R.tok t)
    (hcr : '\r' ∉ writeText R c) :
    readFile (writeText R c) = .ok (quantize R.uni c) := by
  unfold readFile fileLines
  rw [univNl_of_noCr _ hcr]
  exact read_writeText R c hk hk' hhits hholds hb hs hm hnl

/-- a chart whose version, tags, audio and hitsound file names contain U+2028 / U+0085 / \x1c: still one line each -/
def oddChart : Chart :=
  { md := { stackLeniency := 1, timelineZoom := 2, sliderMultiplier := 3, version := ['v', '\u2028', '1'],
            tags := [['t', '\u0085', 'g']], audioFileName := ['a', '\u001c', 'b'] },
    hits := [{ offset := 5, column := 1, file := ['h', '\u2028', 'w'] }] }

example : readFile (writeText intRender oddChart) = .ok (quantize id oddChart) :=
  readFile_writeText intRender oddChart (by decide +kernel) (by decide +kernel) (by decide +kernel) (by decide +kernel)
    (by decide +kernel) (by decide +kernel) (by decide +kernel) (by decide +kernel) (by decide +kernel)

/-! ## the hypothesis "no header token renders a line break" is needed (finding D102) -/

/-- a renderer whose transliteration maps U+2028 to a line break — what `unidecode` does -/
def nlRender : Render :=
  { repr := fun q => showInt q.floor, uni := fun s => s.map (fun ch => if ch = '\u2028' then '\n' else ch) }

def nlChart : Chart := { md := { stackLeniency := 1, timelineZoom := 2, sliderMultiplier := 3, title := ['a', '\u2028', 'b'] } }

/-- with such a transliteration the written `Title:` line is broken in two and the title reads back cut:
`read (write c) ≠ quantize c` — the excluded point of `read_writeText` misbehaves in the real code as well (D102) -/
theorem uni_newline_counterexample :
    (readText (writeText nlRender nlChart)).toOption.map (·.md.title) = some ['a'] ∧
    (quantize nlRender.uni nlChart).md.title = ['a', '\n', 'b'] := by decide +kernel

/-! ## text → chart → text: the other direction -/

/-- **Whole file, text → chart** (restated from `Lemmas/OsuDialect.lean`): on every text whose trimmed lines form a
well-formed `Skeleton` (the formalised `dialect_ok`), `OsuMap.read` returns the chart `c` iff the by-the-book denotation
does (key count ≥ 1). -/
theorem read_text_iff_denote (s : Skeleton) (hwf : s.WF) (lines0 : List Str) (hl : lines0.map strip = s.lines)
    (c : Chart) (hk : 1 ≤ pyTrunc c.md.circleSize) : read lines0 = .ok c ↔ denote lines0 = .ok c :=
  read_iff_denote s hwf lines0 hl c hk

/-- **chart → text → chart, by the book**: the written text is a text of the dialect (`writtenSkeleton_wf`) and the
format reads it as `quantize c` — `denoteText (writeText R c) = quantize c`.  Hypotheses of `read_writeText` plus: the
background file name has no `"` and no `,` (by the book the background event is a comma-separated, quoted field). -/
theorem denote_writeText (R : Render) (c : Chart)
    (hk : 0 < pyTrunc c.md.circleSize) (hk' : pyTrunc c.md.circleSize ≤ 256)
    (hhits : ∀ h ∈ c.hits, ObjOk2 (pyTrunc c.md.circleSize) (.hit h))
    (hholds : ∀ h ∈ c.holds, ObjOk2 (pyTrunc c.md.circleSize) (.hold h))
    (hb : ∀ b ∈ c.bpms, BpmOk2 R b) (hs : ∀ b ∈ c.svs, SvOk2 R b)
    (hm : MetaOk R c.md) (hnl : ∀ tl ∈ writeMeta c.md, ∀ t ∈ tl, '\n' ∉ R.tok t)
    (hbq : '"' ∉ c.md.backgroundFileName) (hbc : ',' ∉ c.md.backgroundFileName) :
    denoteText (writeText R c) = .ok (quantize R.uni c) := by
  have hrw := read_writeText R c hk hk' hhits hholds hb hs hm hnl
  have hsf : ∀ s ∈ c.md.samples, ',' ∉ s.file := by
    unfold MetaOk at hm
    exact hm.2.2.2.2.2.2.2.2.2.2.2.2
  unfold readText at hrw
  unfold denoteText
  exact denote_eq_read (writtenSkeleton R c) (writtenSkeleton_wf R c hhits hholds hb hs hsf hbq hbc) _
    (strip_lines_written R c hhits hholds hb hs hnl) _ hrw (by show 1 ≤ pyTrunc c.md.circleSize; omega)

/-- the renderer assumptions for the numbers of the header (parameters of the model) -/
def MetaRenderOk (R : Render) (m : Meta) : Prop :=
  readFloat (R.repr m.stackLeniency) = .ok m.stackLeniency ∧ NumOk R m.distanceSpacing ∧ NumOk R m.timelineZoom ∧
  NumOk R m.hpDrainRate ∧ NumOk R m.circleSize ∧ NumOk R m.overallDifficulty ∧ NumOk R m.approachRate ∧
  NumOk R m.sliderMultiplier ∧ NumOk R m.sliderTickRate

/-- `denote (write (read t)) = quantize (denote t)`, with the `TailOk` facts about the hitsound file names still as a
hypothesis (discharged in `denote_write_read` below).
For every dialect text `t` (skeleton `s`, `s.WF`) that the format reads as `c` with a key count 1..256:
`read t = .ok c` and `denoteText (writeText R c) = .ok (quantize R.uni c)`.
DERIVED here from "`c` was read from a dialect text" (no longer hypotheses): columns inside the key count (clamp),
hitsound and sample file names free of `,` `:` (they are pieces of a split), bpm ≠ 0 and SV ≠ 0 (`60000 / code`,
`-100 / code` with `code ≠ 0`), AudioLeadIn / BeatDivisor / GridSize integral (read by `int()`, invariant of the
key/value loop), background name free of `"` `,` (`BgOk`).
STILL A HYPOTHESIS in this lemma: hitsound file names contain no line break and do not end in a blank (`TailOk`).
The renderer assumptions (`ReprOk`, `MetaRenderOk`, no line break in a header token) are parameters
of the model and remain hypotheses in any case. -/
theorem denote_write_read_of_tailOk (s : Skeleton) (hwf : s.WF) (lines0 : List Str) (hl : lines0.map strip = s.lines)
    (c : Chart) (hden : denote lines0 = .ok c) (R : Render)
    (hk : 1 ≤ pyTrunc c.md.circleSize) (hk' : pyTrunc c.md.circleSize ≤ 256)
    (htail : (∀ h ∈ c.hits, TailOk h.file) ∧ (∀ h ∈ c.holds, TailOk h.file))
    (hRb : ∀ b ∈ c.bpms, ReprOk R b.offset ∧ ReprOk R (bpmCode b.bpm))
    (hRs : ∀ b ∈ c.svs, ReprOk R b.offset ∧ ReprOk R (svCode b.multiplier))
    (hRm : MetaRenderOk R c.md) (hnl : ∀ tl ∈ writeMeta c.md, ∀ t ∈ tl, '\n' ∉ R.tok t) :
    read lines0 = .ok c ∧ denoteText (writeText R c) = .ok (quantize R.uni c) := by
  have hread := read_eq_denote s hwf lines0 hl c hden hk
  refine ⟨hread, ?_⟩
  -- the components of `c`
  rw [s.denote_eq hwf lines0 hl] at hden
  cases h0 : denoteKv {} (((s.G ++ s.E) ++ s.M) ++ s.D) with
  | error e => rw [h0] at hden; simp at hden
  | ok m0 =>
    rw [h0] at hden; simp only [] at hden
    cases hss : mapE readSample (s.S.filter (startsWith pSample)) with
    | error e => rw [hss] at hden; simp at hden
    | ok ss =>
      rw [hss] at hden; simp only [] at hden
      cases htp : filterMapE denoteTiming (s.T.filter nb) with
      | error e => rw [htp] at hden; simp at hden
      | ok tps =>
        rw [htp] at hden; simp only [] at hden
        cases hob : filterMapE (denoteObj (pyTrunc m0.circleSize)) (s.O.filter nb) with
        | error e => rw [hob] at hden; simp at hden
        | ok objs =>
          rw [hob] at hden
          simp only [Except.ok.injEq] at hden
          subst hden
          have hk0 : 1 ≤ pyTrunc m0.circleSize := hk
          -- objects
          have hobj : ∀ o ∈ objs, ObjOk (pyTrunc m0.circleSize) o := by
            intro o ho
            obtain ⟨l, _, hl'⟩ := filterMapE_mem _ _ _ hob o ho
            exact (denoteObj_facts _ hk0 l o hl').1
          have hhits : ∀ h ∈ objs.filterMap objHit, ObjOk2 (pyTrunc m0.circleSize) (.hit h) := by
            intro h hh
            obtain ⟨o, ho, hoh⟩ := List.mem_filterMap.mp hh
            cases o with
            | hit x =>
              simp only [objHit, Option.some.injEq] at hoh; subst hoh
              have := hobj _ ho
              exact ⟨this.1, this.2.1, this.2.2.1, this.2.2.2, htail.1 _ hh⟩
            | hold x => simp [objHit] at hoh
          have hholds : ∀ h ∈ objs.filterMap objHold, ObjOk2 (pyTrunc m0.circleSize) (.hold h) := by
            intro h hh
            obtain ⟨o, ho, hoh⟩ := List.mem_filterMap.mp hh
            cases o with
            | hit x => simp [objHold] at hoh
            | hold x =>
              simp only [objHold, Option.some.injEq] at hoh; subst hoh
              have := hobj _ ho
              exact ⟨this.1, this.2.1, this.2.2.1, this.2.2.2, htail.2 _ hh⟩
          -- timing points
          have hb : ∀ b ∈ tps.filterMap tpBpm, BpmOk2 R b := by
            intro b hbm
            obtain ⟨tp, htp', hbb⟩ := List.mem_filterMap.mp hbm
            cases tp with
            | bpm x =>
              simp only [tpBpm, Option.some.injEq] at hbb; subst hbb
              obtain ⟨l, _, hl'⟩ := filterMapE_mem _ _ _ htp _ htp'
              have := denoteTiming_facts l _ hl'
              exact ⟨this, (hRb _ hbm).1, (hRb _ hbm).2⟩
            | sv x => simp [tpBpm] at hbb
          have hs : ∀ b ∈ tps.filterMap tpSv, SvOk2 R b := by
            intro b hbm
            obtain ⟨tp, htp', hbb⟩ := List.mem_filterMap.mp hbm
            cases tp with
            | bpm x => simp [tpSv] at hbb
            | sv x =>
              simp only [tpSv, Option.some.injEq] at hbb; subst hbb
              obtain ⟨l, _, hl'⟩ := filterMapE_mem _ _ _ htp _ htp'
              have := denoteTiming_facts l _ hl'
              exact ⟨this, (hRs _ hbm).1, (hRs _ hbm).2⟩
          -- metadata
          obtain ⟨i1, i2, i3⟩ := denoteKv_intMeta {} m0 _ intMeta_default h0
          have hsf : ∀ x ∈ ss, ',' ∉ x.file := by
            intro x hx
            obtain ⟨l, _, hl'⟩ := mapE_mem _ _ _ hss x hx
            exact readSample_file l x hl'
          obtain ⟨r1, r2, r3, r4, r5, r6, r7, r8, r9⟩ := hRm
          have hm : MetaOk R { m0 with samples := ss, backgroundFileName := s.bgName } := by
            unfold MetaOk
            exact ⟨i1, r1, r2, i2, i3, r3, r4, r5, r6, r7, r8, r9, hsf⟩
          obtain ⟨tail, _, hq, hc, _, _⟩ := hwf.bg
          exact denote_writeText R _ (by show 0 < pyTrunc m0.circleSize; omega) hk' hhits hholds hb hs hm hnl hq hc

/-- every object of a chart that the format reads from a skeleton comes from one of its object lines -/
theorem objects_from_lines (s : Skeleton) (hwf : s.WF) (lines0 : List Str) (hl : lines0.map strip = s.lines)
    (c : Chart) (hden : denote lines0 = .ok c) :
    (∀ h ∈ c.hits, ∃ l ∈ s.O, denoteObj (pyTrunc c.md.circleSize) l = .ok (some (.hit h))) ∧
    (∀ h ∈ c.holds, ∃ l ∈ s.O, denoteObj (pyTrunc c.md.circleSize) l = .ok (some (.hold h))) := by
  rw [s.denote_eq hwf lines0 hl] at hden
  cases h0 : denoteKv {} (((s.G ++ s.E) ++ s.M) ++ s.D) with
  | error e => rw [h0] at hden; simp at hden
  | ok m0 =>
    rw [h0] at hden; simp only [] at hden
    cases hss : mapE readSample (s.S.filter (startsWith pSample)) with
    | error e => rw [hss] at hden; simp at hden
    | ok ss =>
      rw [hss] at hden; simp only [] at hden
      cases htp : filterMapE denoteTiming (s.T.filter nb) with
      | error e => rw [htp] at hden; simp at hden
      | ok tps =>
        rw [htp] at hden; simp only [] at hden
        cases hob : filterMapE (denoteObj (pyTrunc m0.circleSize)) (s.O.filter nb) with
        | error e => rw [hob] at hden; simp at hden
        | ok objs =>
          rw [hob] at hden
          simp only [Except.ok.injEq] at hden
          subst hden
          constructor
          · intro h hh
            obtain ⟨o, ho, hoh⟩ := List.mem_filterMap.mp hh
            cases o with
            | hit x =>
              simp only [objHit, Option.some.injEq] at hoh; subst hoh
              obtain ⟨l, hl1, hl2⟩ := filterMapE_mem _ _ _ hob _ ho
              exact ⟨l, List.mem_of_mem_filter hl1, hl2⟩
            | hold x => simp [objHit] at hoh
          · intro h hh
            obtain ⟨o, ho, hoh⟩ := List.mem_filterMap.mp hh
            cases o with
            | hit x => simp [objHold] at hoh
            | hold x =>
              simp only [objHold, Option.some.injEq] at hoh; subst hoh
              obtain ⟨l, hl1, hl2⟩ := filterMapE_mem _ _ _ hob _ ho
              exact ⟨l, List.mem_of_mem_filter hl1, hl2⟩

/-- **`denote (writeText (read t)) = quantize (denote t)` — text → chart → text, for every text of the dialect.**
If the trimmed lines of the text `t` form a well-formed skeleton and the format reads `t` as the chart `c` with a key
count 1..256, then `OsuMap.read_file`'s reader returns exactly `c` (`readText t = .ok c`), and the text that
`OsuMap.write` produces from `c` is again a text of the dialect which the format reads as `quantize c`.
The only hypotheses besides the skeleton are the parameters of the model (DESIGN §5 K3): `repr` of each float that is
written reads back exactly and has no comma / blank (`ReprOk`, `MetaRenderOk`), and no header token renders a line
break (`hnl`; finding D44 shows that `unidecode` violates it for U+2028 / U+2029 in Title / Artist).  Everything
about the chart — columns inside the key count, separator-free and blank-free file names, non-zero bpm / SV, integral
int-read attributes, quotable background name — is derived from "`c` was read from a dialect text". -/
theorem denote_write_read (s : Skeleton) (hwf : s.WF) (t : Str) (hl : (splitOn '\n' t).map strip = s.lines)
    (c : Chart) (hden : denoteText t = .ok c) (R : Render)
    (hk : 1 ≤ pyTrunc c.md.circleSize) (hk' : pyTrunc c.md.circleSize ≤ 256)
    (hRb : ∀ b ∈ c.bpms, ReprOk R b.offset ∧ ReprOk R (bpmCode b.bpm))
    (hRs : ∀ b ∈ c.svs, ReprOk R b.offset ∧ ReprOk R (svCode b.multiplier))
    (hRm : MetaRenderOk R c.md) (hnl : ∀ tl ∈ writeMeta c.md, ∀ t ∈ tl, '\n' ∉ R.tok t) :
    readText t = .ok c ∧ denoteText (writeText R c) = .ok (quantize R.uni c) := by
  unfold denoteText at hden
  obtain ⟨oh, od⟩ := objects_from_lines s hwf _ hl c hden
  have hline : ∀ l ∈ s.O, ∃ x, '\n' ∉ x ∧ l = strip x := by
    intro l hlO
    have hmem : l ∈ s.lines := by
      unfold Skeleton.lines
      simp only [List.mem_append, List.mem_cons]
      exact Or.inr (Or.inr (Or.inr (Or.inr hlO)))
    rw [← hl, List.mem_map] at hmem
    obtain ⟨x, hx, rfl⟩ := hmem
    exact ⟨x, (mem_splitOn '\n' t x hx).1, rfl⟩
  have htail : (∀ h ∈ c.hits, TailOk h.file) ∧ (∀ h ∈ c.holds, TailOk h.file) := by
    constructor
    · intro h hh
      obtain ⟨l, hlO, hd⟩ := oh h hh
      obtain ⟨x, hx, rfl⟩ := hline l hlO
      exact denoteObj_tailOk _ x hx _ hd
    · intro h hh
      obtain ⟨l, hlO, hd⟩ := od h hh
      obtain ⟨x, hx, rfl⟩ := hline l hlO
      exact denoteObj_tailOk _ x hx _ hd
  have := denote_write_read_of_tailOk s hwf _ hl c hden R hk hk' htail hRb hRs hRm hnl
  exact ⟨by unfold readText; exact this.1, this.2⟩

/-- non-vacuity: the 7K demo chart written and read by the book -/
example : denoteText (writeText intRender demoChart) = .ok (quantize id demoChart) :=
  denote_writeText intRender demoChart (by decide +kernel) (by decide +kernel) (by decide +kernel) (by decide +kernel)
    (by decide +kernel) (by decide +kernel) (by decide +kernel) (by decide +kernel) (by decide +kernel)
    (by decide +kernel)

/-! ## "the same chart with times moved by less than 1 ms", as ONE statement about whole charts -/

/-- **the object lines `OsuMap.write` emits are the chart's hits and holds, each exactly once, in time order**: the
merge `sorted([*holds, *hits], key=offset)` is a permutation (nothing lost, invented or duplicated) and ascending -/
theorem written_objects_perm (c : Chart) :
    ((sortedObjs c).filterMap objHit).Perm c.hits ∧ ((sortedObjs c).filterMap objHold).Perm c.holds ∧
    TimeOrdered (sortedObjs c) :=
  ⟨(sortedObjs_perm c).1, (sortedObjs_perm c).2, sortedObjs_timeOrdered c⟩

/-- **`quantize c` is `c` with times moved by less than 1 ms** (`SameChart1ms`, stated without `quantize`): its hits
(holds) are a permutation of the hits (holds) of `c`, each at a time less than 1 ms away — for a hold both ends — and
equal in every other field; tempo points: same points, same order, time and bpm exactly; scroll velocities identical;
sample events in order, less than 1 ms away; metadata trimmed. -/
theorem quantize_same_chart (uni : Str → Str) (c : Chart) : SameChart1ms uni c (quantize uni c) :=
  quantize_sameChart uni c

/-- **Writing any chart yields a well-formed .osu text that denotes the same chart with times moved by less than
1 ms — one theorem about whole charts.**  For every chart `c` (hypotheses of `denote_writeText`: key count 1..256,
columns inside it, separator-free file names, non-zero bpm / SV, int-read attributes integral; renderer parameters) there
is a chart `c'` such that
* the written text is a text of the dialect (`Skeleton.WF`) — well-formed;
* the format (by the book) reads the written text as `c'`, and so does `OsuMap.read` (the reader as written);
* `c'` is `c` at millisecond resolution: `SameChart1ms` — hits and holds a permutation of those of `c`, every time
  (both ends of a hold) less than 1 ms away, all other fields equal; tempo points and scroll velocities exactly;
* writing `c'` again moves nothing any more at the object level (`q*_idem`: no drift). -/
theorem write_denotes_same_chart (R : Render) (c : Chart)
    (hk : 0 < pyTrunc c.md.circleSize) (hk' : pyTrunc c.md.circleSize ≤ 256)
    (hhits : ∀ h ∈ c.hits, ObjOk2 (pyTrunc c.md.circleSize) (.hit h))
    (hholds : ∀ h ∈ c.holds, ObjOk2 (pyTrunc c.md.circleSize) (.hold h))
    (hb : ∀ b ∈ c.bpms, BpmOk2 R b) (hs : ∀ b ∈ c.svs, SvOk2 R b)
    (hm : MetaOk R c.md) (hnl : ∀ tl ∈ writeMeta c.md, ∀ t ∈ tl, '\n' ∉ R.tok t)
    (hbq : '"' ∉ c.md.backgroundFileName) (hbc : ',' ∉ c.md.backgroundFileName) :
    ∃ c', (writtenSkeleton R c).WF ∧ denoteText (writeText R c) = .ok c' ∧ readText (writeText R c) = .ok c' ∧
      SameChart1ms R.uni c c' ∧
      c'.hits.map qHit = c'.hits ∧ c'.holds.map qHold = c'.holds ∧ c'.bpms.map qBpm = c'.bpms := by
  have hsf : ∀ s ∈ c.md.samples, ',' ∉ s.file := by
    unfold MetaOk at hm
    exact hm.2.2.2.2.2.2.2.2.2.2.2.2
  refine ⟨quantize R.uni c, writtenSkeleton_wf R c hhits hholds hb hs hsf hbq hbc,
    denote_writeText R c hk hk' hhits hholds hb hs hm hnl hbq hbc, read_writeText R c hk hk' hhits hholds hb hs hm hnl,
    quantize_sameChart R.uni c, ?_, ?_, ?_⟩
  · simp only [quantize, List.map_map]
    exact List.map_congr_left (fun h _ => qHit_idem h)
  · simp only [quantize, List.map_map]
    exact List.map_congr_left (fun h _ => qHold_idem h)
  · simp only [quantize, List.map_map]
    exact List.map_congr_left (fun h _ => qBpm_idem h)

/-- non-vacuity: the 7K demo chart -/
example :=
  write_denotes_same_chart intRender demoChart (by decide +kernel) (by decide +kernel) (by decide +kernel)
    (by decide +kernel) (by decide +kernel) (by decide +kernel) (by decide +kernel) (by decide +kernel)
    (by decide +kernel) (by decide +kernel)

/-! ## `int()` / `float()` as Python implements them: the wider dialect

`readInt` / `readFloat` (Model/OsuLex.lean) accept what CPython accepts: non-ASCII decimal digits and white space,
underscores between digits, a leading `+`, `.5`, `5.`, exponents.  All text → chart theorems above (`readObj_eq_denoteObj`,
`readTiming_eq_denote`, `read_text_iff_denote`, `denote_write_read`) are stated for arbitrary field texts, so they hold on
this wider dialect as they stand: reader and by-the-book denotation apply the same number reader to the same fields.
The theorems below say where three notions part ways. -/

/-- on plain ASCII tokens the wide readers are the grammar `[+-]?digits` / `[+-]?digits[.digits][e[+-]digits]` -/
theorem wide_number_plain (s : Str) (h : Plain s) : readInt s = readIntA s ∧ readFloat s = readFloatA s :=
  read_plain s h

/-- `str.strip()` removes \x1c–\x1f, `int()` / `float()` do not: a field containing one is rejected -/
theorem wide_number_rejects_sep (s : Str) (h : s.any isSep = true) :
    readInt s = .error .value ∧ readFloat s = .error .value ∧ floatNonFinite s = none :=
  number_rejects_sep s h

/-- on the tokens `[+-]?(inf|infinity|nan)` (any case) Python's `float()` returns a non-finite double where the model
answers ValueError: these tokens are outside the dialect and outside the model's value domain (observed on the real
reader by the check, claim `lex`) -/
theorem wide_float_nonfinite (s : Str) (x : NonFin) (h : floatNonFinite s = some x) : readFloat s = .error .value :=
  floatNonFinite_rejected s x h

/-- the wider dialect on examples: Arabic-Indic and full-width digits, underscores, `+`, exponent, U+2003 / NBSP padding -/
example : readInt "\u00a0+١_٢３\u2003".toList = .ok 123 ∧ readFloat " -1_0.5e0_1\t".toList = .ok (-105) ∧
    readInt "1__0".toList = .error .value ∧ readFloat "1_.5".toList = .error .value ∧
    readInt "\x1c5".toList = .error .value ∧ floatNonFinite " -iNfInItY ".toList = some .negInf ∧
    floatNonFinite "nan_".toList = none := by decide +kernel

/-- the value-level theorem on a line of the wider dialect (non-vacuity of `wfObjLine` there) -/
example : wfObjLine "٣٠٧ ,0, +1_000.5e0,１ ,0,0:0:0:0:".toList = true ∧
    (readHit "٣٠٧ ,0, +1_000.5e0,１ ,0,0:0:0:0:".toList 4).toOption.map (fun h => (h.offset, h.column)) = some (2001/2, 2) := by
  decide +kernel

/-- **where the reader and the format part ways in the wider dialect** (dialect fact "uninherited literally 0 or 1"):
`is_timing_point` compares the seventh field with the *text* `"1"`, the format reads it as a number.  A timing line whose
flag is written `01` (or `+1`, ` 1`, `１`) is a tempo point by the book and is dropped by the reader. -/
theorem flag_literal_counterexample :
    (denoteTiming "0,500,4,0,0,50,01,0".toList).toOption.map (·.isSome) = some true ∧
    isTimingPoint "0,500,4,0,0,50,01,0".toList = false ∧ isSliderVelocity "0,500,4,0,0,50,01,0".toList = false ∧
    wfTimingLine "0,500,4,0,0,50,01,0".toList = false := by decide +kernel

end Reamber.Osu
