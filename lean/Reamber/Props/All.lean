-- every property module, so that `lake build` (setup_cmd) checks all theorems
import Reamber.Props.C10
