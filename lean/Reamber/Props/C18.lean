/-
C18 — Hitsound copy moves sounds, never notes, and loses nothing it promises to keep.

Property theorems about the executable model `Reamber/Model/Hitsound.lean` (`copyWith σs σt src tgt`), stated
against the declarative clauses of `Reamber/Spec/Hitsound.lean` — the same definitions whose `Bool` forms the
driver evaluates on the implementation's output (`*_iff` below ties the two forms).  All theorems hold for
*every* pair of charts and *every* pair of sorting permutations (numpy's quicksort is not stable).

  notes_preserved      domain hypothesis: every target hold has a length — zero and negative lengths included;
                       a NaN length is not a hold of a chart (`nan_hold_counterexample` documents what happens there)
  counts_le            no hypothesis
  all_placed_if_room   no hypothesis
  no_invention         hypothesis: no source file name contains ';'  (counterexample without it: D19c)
  samples_conserved    same hypothesis; proved as an exact balance (`file_balance`)

"Neither input is modified" is not a statement about a pure function; it is observed by the harness.
-/
import Reamber.Lemmas.Hitsound
import Reamber.Generated.Hitsound

namespace Reamber.Hitsound

open Reamber.Timing (gather IsPerm)

/-- Tie to the source: the constants of the model are the ones the translator read from
`hitsound_copy.py` (`HS_CLAP/FINISH/WHISTLE`, the join and split separators) and from
`OsuMap.reset_samples` / `OsuSampleSet.AUTO`. Re-checked whenever the source changes. -/
theorem consts_tie :
    hsClap = Generated.hsClap ∧ hsFinish = Generated.hsFinish ∧ hsWhistle = Generated.hsWhistle ∧
    [sep] = Generated.joinSep ∧ [sep] = Generated.splitSep ∧
    resetSet = Generated.resetHitsoundSet ∧ resetSet = Generated.resetSampleSet ∧
    resetSet = Generated.resetAdditionSet ∧ resetCustom = Generated.resetCustomSet ∧
    resetFile = Generated.resetHitsoundFile ∧
    Generated.filterColumns = ["addition_set", "custom_set", "hitsound_set", "sample_set", "hitsound_file"] ∧
    Generated.resetBeforeStack = true ∧ Generated.overflowKeepsGoing = true := by decide

/-- `σs`, `σt` are permutations of the row positions of the (filtered) source frame and of the target frame —
what `sort_values` returns, for any tie order -/
structure PermsOk (σs σt : List Nat) (src tgt : Chart) : Prop where
  hs : IsPerm σs
  ls : σs.length = ((concatNotes src).filter active).length
  ht : IsPerm σt
  lt : σt.length = (concatNotes tgt).length

/-! ### the shape of the result -/

def df0 (σt : List Nat) (tgt : Chart) : List Note := gather (concatNotes (resetSamples tgt)) σt

def finalDf (σs σt : List Nat) (src tgt : Chart) : List Note :=
  (keysRat ((srcSorted σs src).map (·.offset))).foldl
    (fun d t => fillRows t d (queue (srcSorted σs src) t)) (df0 σt tgt)

def finalEvs (σs σt : List Nat) (src tgt : Chart) : List Ev :=
  (keysRat ((srcSorted σs src).map (·.offset))).flatMap
    (fun t => evsOf t ((queue (srcSorted σs src) t).drop (((df0 σt tgt).map (·.offset)).countP (· == t))))

theorem copyWith_eq (σs σt : List Nat) (src tgt : Chart) :
    copyWith σs σt src tgt
      = ⟨(finalDf σs σt src tgt).filter (fun n => n.length.isNone),
         (finalDf σs σt src tgt).filter (fun n => n.length.isSome), finalEvs σs σt src tgt⟩ := by
  have hoff : ((srcSorted σs src).map toSRow).map (fun r => r.offset) = (srcSorted σs src).map (fun n => n.offset) := by
    rw [List.map_map]; rfl
  have h0 : copyWith σs σt src tgt =
      ⟨(keysLoop ((srcSorted σs src).map toSRow) ((df0 σt tgt).map (·.offset))
          (keysRat (((srcSorted σs src).map toSRow).map (fun r => r.offset))) (df0 σt tgt, [])).1.filter (fun n => n.length.isNone),
       (keysLoop ((srcSorted σs src).map toSRow) ((df0 σt tgt).map (·.offset))
          (keysRat (((srcSorted σs src).map toSRow).map (fun r => r.offset))) (df0 σt tgt, [])).1.filter (fun n => n.length.isSome),
       (keysLoop ((srcSorted σs src).map toSRow) ((df0 σt tgt).map (·.offset))
          (keysRat (((srcSorted σs src).map toSRow).map (fun r => r.offset))) (df0 σt tgt, [])).2⟩ := rfl
  rw [h0, hoff, keysLoop_eq (srcSorted σs src) ((df0 σt tgt).map (·.offset))
    (keysRat ((srcSorted σs src).map (fun n => n.offset))) (df0 σt tgt, []) rfl]
  simp [finalDf, finalEvs]

theorem notesOf_copyWith_perm (σs σt : List Nat) (src tgt : Chart) :
    (notesOf (copyWith σs σt src tgt)).Perm (finalDf σs σt src tgt) := by
  rw [copyWith_eq]
  have : (fun n : Note => n.length.isSome) = (fun n => !(fun n : Note => n.length.isNone) n) := by
    funext n; cases h : n.length <;> simp [h]
  simp only [notesOf, this]
  exact List.filter_append_perm _ _

theorem count_offsets (df : List Note) (t : Rat) :
    (df.map (·.offset)).countP (· == t) = (df.filter (fun n => n.offset == t)).length := by
  rw [List.countP_map, List.countP_eq_length_filter]; rfl

theorem finalDf_at (σs σt : List Nat) (src tgt : Chart) (u : Rat) :
    (finalDf σs σt src tgt).filter (fun n => n.offset == u)
      = zipApply (queue (srcSorted σs src) u) ((df0 σt tgt).filter (fun n => n.offset == u)) := by
  unfold finalDf
  rw [foldl_fill_filter _ _ (nodup_keysRat _)]
  split
  · rfl
  · rename_i h
    rw [mem_keysRat] at h
    have : (srcSorted σs src).filter (fun n => n.offset == u) = [] := by
      rw [List.filter_eq_nil_iff]
      intro n hn hc
      apply h
      simp only [beq_iff_eq] at hc
      exact List.mem_map.mpr ⟨n, hn, hc⟩
    rw [queue_nil _ _ this, zipApply_nil]

theorem finalEvs_at (σs σt : List Nat) (src tgt : Chart) (u : Rat) :
    (finalEvs σs σt src tgt).filter (fun e => e.offset == u)
      = evsOf u ((queue (srcSorted σs src) u).drop ((df0 σt tgt).filter (fun n => n.offset == u)).length) := by
  unfold finalEvs
  rw [filter_flatMap_key (fun e : Ev => e.offset) _ (fun t e he => evsOf_offset t _ e he) _ (nodup_keysRat _) u]
  split
  · rw [count_offsets]
  · rename_i h
    rw [mem_keysRat] at h
    have : (srcSorted σs src).filter (fun n => n.offset == u) = [] := by
      rw [List.filter_eq_nil_iff]
      intro n hn hc
      apply h
      simp only [beq_iff_eq] at hc
      exact List.mem_map.mpr ⟨n, hn, hc⟩
    rw [queue_nil _ _ this]; simp [evsOf]

theorem countP_at (p : Note → Bool) (u : Rat) (l : List Note) :
    l.countP (fun n => n.offset == u && p n) = (l.filter (fun n => n.offset == u)).countP p := by
  rw [List.countP_filter]
  apply List.countP_congr
  intro n _
  simp [Bool.and_comm]

/-- counting result notes at a time = counting over the reset rows of that time with the queue applied -/
theorem cnt_out (σs σt : List Nat) (src tgt : Chart) (p : Note → Bool) (u : Rat) :
    cnt p u (copyWith σs σt src tgt)
      = (zipApply (queue (srcSorted σs src) u) ((df0 σt tgt).filter (fun n => n.offset == u))).countP p := by
  unfold cnt
  rw [(notesOf_copyWith_perm σs σt src tgt).countP_eq, countP_at, finalDf_at]

theorem isReset_resetNote (n : Note) : isReset (resetNote n) := by
  simp [isReset, resetNote, resetSet, resetCustom, resetFile]

theorem df0_reset (σs σt : List Nat) (src tgt : Chart) (h : PermsOk σs σt src tgt) : ∀ r ∈ df0 σt tgt, isReset r := by
  intro r hr
  have hl : σt.length = (concatNotes (resetSamples tgt)).length := by
    rw [h.lt]; simp [concatNotes, resetSamples]
  rw [df0, (gather_perm _ _ h.ht hl).mem_iff] at hr
  simp only [concatNotes, resetSamples, List.map_map, List.mem_append, List.mem_map] at hr
  rcases hr with ⟨n, _, rfl⟩ | ⟨n, _, rfl⟩
  · exact isReset_resetNote n
  · exact isReset_resetNote n

theorem df0_at_reset (σs σt : List Nat) (src tgt : Chart) (h : PermsOk σs σt src tgt) (u : Rat) :
    ∀ r ∈ (df0 σt tgt).filter (fun n => n.offset == u), isReset r :=
  fun r hr => df0_reset σs σt src tgt h r (List.mem_filter.mp hr).1

/-- counting over the sorted, filtered source rows of a time = counting over the source chart, for every
predicate that only holds on rows the filter keeps and does not look at the length -/
theorem src_count (σs σt : List Nat) (src tgt : Chart) (h : PermsOk σs σt src tgt) (p : Note → Bool)
    (hact : ∀ n, p n = true → active n = true) (hlen : ∀ n : Note, p { n with length := none } = p n) (u : Rat) :
    ((srcSorted σs src).filter (fun n => n.offset == u)).countP p = cnt p u src := by
  rw [← countP_at, srcSorted, (gather_perm _ _ h.hs h.ls).countP_eq, List.countP_filter]
  have h1 : (concatNotes src).countP (fun a => (a.offset == u && p a) && active a)
      = (concatNotes src).countP (fun a => a.offset == u && p a) := by
    apply List.countP_congr
    intro n _
    simp only [Bool.and_eq_true]
    exact ⟨fun hh => hh.1, fun hh => ⟨hh, hact n hh.2⟩⟩
  rw [h1]
  simp only [cnt, notesOf, concatNotes, List.countP_append, List.countP_map]
  congr 1
  apply List.countP_congr
  intro n _
  simp only [Function.comp, hlen]

theorem bit_active (m : Nat) (hm : hasBit 0 m = false) (n : Note) (h : hasBit n.hs m = true) : active n = true := by
  have : n.hs ≠ 0 := by
    intro h0; rw [h0, hm] at h; exact absurd h (by simp)
  simp [active, this]

theorem hasBit_zero_clap : hasBit 0 hsClap = false := by decide
theorem hasBit_zero_finish : hasBit 0 hsFinish = false := by decide
theorem hasBit_zero_whistle : hasBit 0 hsWhistle = false := by decide

/-- result count of one of the three bits at a time -/
theorem out_bit (σs σt : List Nat) (src tgt : Chart) (h : PermsOk σs σt src tgt) (m : Nat) (hm : hasBit 0 m = false)
    (u : Rat) :
    cnt (fun n => hasBit n.hs m) u (copyWith σs σt src tgt)
      = ((queue (srcSorted σs src) u).take ((df0 σt tgt).filter (fun n => n.offset == u)).length).countP (pBit m) := by
  rw [cnt_out, zipApply_bit m hm _ _ (df0_at_reset σs σt src tgt h u)]

/-- source count of a bit at a time = what the queue of that time carries -/
theorem queue_bit (σs σt : List Nat) (src tgt : Chart) (h : PermsOk σs σt src tgt) (m : Nat) (hm : hasBit 0 m = false)
    (hq : ∀ (G : List Note) (v : Int), (queueG G v).countP (pBit m) = G.countP (fun n => hasBit n.hs m)) (u : Rat) :
    (queue (srcSorted σs src) u).countP (pBit m) = cnt (fun n => hasBit n.hs m) u src := by
  rw [queue_count _ u (pBit m) (fun n => hasBit n.hs m) (fun G v _ => hq G v)]
  exact src_count σs σt src tgt h _ (bit_active m hm) (fun _ => rfl) u

theorem bit_le (σs σt : List Nat) (src tgt : Chart) (h : PermsOk σs σt src tgt) (m : Nat) (hm : hasBit 0 m = false)
    (hq : ∀ (G : List Note) (v : Int), (queueG G v).countP (pBit m) = G.countP (fun n => hasBit n.hs m)) (u : Rat) :
    cnt (fun n => hasBit n.hs m) u (copyWith σs σt src tgt) ≤ cnt (fun n => hasBit n.hs m) u src := by
  rw [out_bit σs σt src tgt h m hm, ← queue_bit σs σt src tgt h m hm hq]
  exact (List.take_sublist _ _).countP_le

/-! ### the property theorems -/

/-- **[M] no more claps, finishes or whistles per time than the source had** — for all charts, all
multiplicities, all volume groupings, all tie orders. -/
theorem counts_le (σs σt : List Nat) (src tgt : Chart) (h : PermsOk σs σt src tgt) :
    CountsLe src (copyWith σs σt src tgt) := by
  intro t
  simp only [countsLeAt, Bool.and_eq_true, decide_eq_true_eq]
  exact ⟨⟨bit_le σs σt src tgt h hsClap hasBit_zero_clap queueG_clap t,
          bit_le σs σt src tgt h hsFinish hasBit_zero_finish queueG_finish t⟩,
         bit_le σs σt src tgt h hsWhistle hasBit_zero_whistle queueG_whistle t⟩

theorem mem_out_at (σs σt : List Nat) (src tgt : Chart) (n : Note) (hn : n ∈ notesOf (copyWith σs σt src tgt)) :
    n ∈ zipApply (queue (srcSorted σs src) n.offset) ((df0 σt tgt).filter (fun r => r.offset == n.offset)) := by
  rw [(notesOf_copyWith_perm σs σt src tgt).mem_iff] at hn
  rw [← finalDf_at]
  exact List.mem_filter.mpr ⟨hn, by simp⟩

/-- **[M] as many as the target's notes at that time can hold**: while a result note of time `t` is left
without a sound, every clap, finish and whistle of the source at `t` is on a result note and no named sample of
`t` was pushed to the event samples. -/
theorem all_placed_if_room (σs σt : List Nat) (src tgt : Chart) (h : PermsOk σs σt src tgt) :
    AllPlacedIfRoom src (copyWith σs σt src tgt) := by
  intro n hn hu
  have hmem := mem_out_at σs σt src tgt n hn
  have hroom := zipApply_room _ _ (queue_used _ _) n hmem hu
  have htake : (queue (srcSorted σs src) n.offset).take ((df0 σt tgt).filter (fun r => r.offset == n.offset)).length
      = queue (srcSorted σs src) n.offset := List.take_of_length_le (by omega)
  have hbit : ∀ (m : Nat) (hm : hasBit 0 m = false)
      (_ : ∀ (G : List Note) (v : Int), (queueG G v).countP (pBit m) = G.countP (fun n => hasBit n.hs m)),
      cnt (fun n => hasBit n.hs m) n.offset src ≤ cnt (fun n => hasBit n.hs m) n.offset (copyWith σs σt src tgt) := by
    intro m hm hq
    rw [out_bit σs σt src tgt h m hm, htake, queue_bit σs σt src tgt h m hm hq]
    exact Nat.le_refl _
  simp only [allPlacedAt, Bool.and_eq_true, decide_eq_true_eq, List.all_eq_true, bne_iff_ne, ne_eq]
  refine ⟨⟨⟨hbit hsClap hasBit_zero_clap queueG_clap, hbit hsFinish hasBit_zero_finish queueG_finish⟩,
           hbit hsWhistle hasBit_zero_whistle queueG_whistle⟩, ?_⟩
  intro e he heq
  have he' : e ∈ (copyWith σs σt src tgt).samples.filter (fun e => e.offset == n.offset) :=
    List.mem_filter.mpr ⟨he, by simp [heq]⟩
  rw [copyWith_eq] at he'
  simp only [finalEvs_at] at he'
  rw [List.drop_of_length_le (by omega)] at he'
  simp [evsOf] at he'

theorem noSepL_srcSorted (σs σt : List Nat) (src tgt : Chart) (h : PermsOk σs σt src tgt) (hsep : noSep src = true) :
    NoSepL (srcSorted σs src) := by
  intro n hn
  rw [srcSorted, (gather_perm _ _ h.hs h.ls).mem_iff, List.mem_filter] at hn
  have hn := hn.1
  simp only [noSep, notesOf, List.all_eq_true, List.mem_append, Bool.not_eq_true', List.contains_eq_mem,
    decide_eq_false_iff_not] at hsep
  simp only [concatNotes, List.mem_append, List.mem_map] at hn
  rcases hn with ⟨x, hx, rfl⟩ | hn
  · exact hsep x (Or.inl hx)
  · exact hsep n (Or.inr hn)

theorem file_active (f : File) (hf : f ≠ []) (n : Note) (h : (n.file == f) = true) : active n = true := by
  have : n.file ≠ [] := by
    intro h0; rw [h0] at h; simp only [beq_iff_eq] at h; exact hf h.symm
  simp [active, this]

theorem countP_ev_at (f : File) (u : Rat) (l : List Ev) :
    l.countP (fun e => e.offset == u && e.file == f) = (l.filter (fun e => e.offset == u)).countP (fun e => e.file == f) := by
  rw [List.countP_filter]
  apply List.countP_congr
  intro n _
  simp [Bool.and_comm]

/-- **the exact balance of named samples per time**: what the source has at `t` under the name `f` is what the
result carries on notes at `t` plus what it carries as event samples at `t`. -/
theorem file_balance (σs σt : List Nat) (src tgt : Chart) (h : PermsOk σs σt src tgt) (hsep : noSep src = true)
    (t : Rat) (f : File) (hf : f ≠ []) :
    fileCntNotes src t f
      = fileCntNotes (copyWith σs σt src tgt) t f + fileCntEvs (copyWith σs σt src tgt) t f := by
  have hS := noSepL_srcSorted σs σt src tgt h hsep
  have h1 : fileCntNotes (copyWith σs σt src tgt) t f
      = ((queue (srcSorted σs src) t).take ((df0 σt tgt).filter (fun n => n.offset == t)).length).countP (pFile f) := by
    show cnt (fun n => n.file == f) t _ = _
    rw [cnt_out, zipApply_file f hf _ _ (df0_at_reset σs σt src tgt h t)]
  have h2 : fileCntEvs (copyWith σs σt src tgt) t f
      = ((queue (srcSorted σs src) t).drop ((df0 σt tgt).filter (fun n => n.offset == t)).length).countP (pFile f) := by
    unfold fileCntEvs
    rw [countP_ev_at, copyWith_eq]
    simp only [finalEvs_at, evsOf_countP]
  have h3 : (queue (srcSorted σs src) t).countP (pFile f) = fileCntNotes src t f := by
    rw [queue_count _ t (pFile f) (fun n => n.file == f)
      (fun G v hG => queueG_file G v (fun n hn => hS n (hG n hn)) f hf)]
    exact src_count σs σt src tgt h _ (file_active f hf) (fun _ => rfl) t
  rw [h1, h2, ← List.countP_append, List.take_append_drop, h3]

/-- **[M] every named sample of the source ends up on a result note at that time or as an event sample at
that time** (with multiplicity), provided no name contains `;`. -/
theorem samples_conserved (σs σt : List Nat) (src tgt : Chart) (h : PermsOk σs σt src tgt) (hsep : noSep src = true) :
    SamplesConserved src (copyWith σs σt src tgt) := by
  intro t f hf
  exact Nat.le_of_eq (file_balance σs σt src tgt h hsep t f hf)

theorem srcHas_of_cnt (src : Chart) (t : Rat) (p : Note → Bool) (h : 0 < cnt p t src) : srcHas src t p = true := by
  unfold cnt at h
  rw [List.countP_pos_iff] at h
  obtain ⟨n, hn, hp⟩ := h
  simp only [srcHas, List.any_eq_true]
  exact ⟨n, hn, hp⟩

theorem cnt_pos_of_mem (c : Chart) (p : Note → Bool) (n : Note) (hn : n ∈ notesOf c) (hp : p n = true) :
    0 < cnt p n.offset c := by
  unfold cnt
  rw [List.countP_pos_iff]
  exact ⟨n, hn, by simp [hp]⟩

/-- **[M] every hitsound the result carries was present in the source at the same time**: each clap, finish,
whistle and named sample on a result note, and each event sample, has a source note of that time with the same
bit / name; the sample-set fields are the reset value. Provided no source name contains `;`. -/
theorem no_invention (σs σt : List Nat) (src tgt : Chart) (h : PermsOk σs σt src tgt) (hsep : noSep src = true) :
    NoInvention src (copyWith σs σt src tgt) := by
  have hcl := counts_le σs σt src tgt h
  constructor
  · intro n hn
    have hc := hcl n.offset
    simp only [countsLeAt, Bool.and_eq_true, decide_eq_true_eq] at hc
    -- the sample-set fields and the shape of the note
    have hmem := mem_out_at σs σt src tgt n hn
    have hsets : n.sampleSet = 0 ∧ n.additionSet = 0 ∧ n.customSet = 0 := by
      rcases zipApply_mem _ _ n hmem with hr | ⟨p, _, r, hr, rfl⟩
      · have := df0_at_reset σs σt src tgt h n.offset n hr
        exact ⟨this.2.2.1, this.2.2.2.1, this.2.2.2.2⟩
      · have := df0_at_reset σs σt src tgt h _ r hr
        cases p <;> exact ⟨this.2.2.1, this.2.2.2.1, this.2.2.2.2⟩
    have hbit : ∀ (p : Note → Bool), cnt p n.offset (copyWith σs σt src tgt) ≤ cnt p n.offset src →
        (!p n || srcHas src n.offset p) = true := by
      intro p hle
      cases hp : p n with
      | false => rfl
      | true =>
        have := cnt_pos_of_mem _ p n hn hp
        simp [srcHas_of_cnt src n.offset p (by omega)]
    have hfile : (n.file == [] || srcHas src n.offset (fun s => s.file == n.file)) = true := by
      by_cases hf : n.file = []
      · simp [hf]
      · have hb := file_balance σs σt src tgt h hsep n.offset n.file hf
        have hpos : 0 < fileCntNotes (copyWith σs σt src tgt) n.offset n.file :=
          cnt_pos_of_mem _ (fun s => s.file == n.file) n hn (by simp)
        have : 0 < cnt (fun s => s.file == n.file) n.offset src := by
          show 0 < fileCntNotes src n.offset n.file
          omega
        simp [srcHas_of_cnt src n.offset _ this]
    simp only [noteFromSrc, Bool.and_eq_true]
    refine ⟨⟨⟨⟨⟨⟨hbit isClap hc.1.1, hbit isFinish hc.1.2⟩, hbit isWhistle hc.2⟩, hfile⟩, ?_⟩, ?_⟩, ?_⟩
    · simp [hsets.1]
    · simp [hsets.2.1]
    · simp [hsets.2.2]
  · intro e he
    -- an event sample comes from a named payload of its time
    have he' : e ∈ (copyWith σs σt src tgt).samples.filter (fun x => x.offset == e.offset) :=
      List.mem_filter.mpr ⟨he, by simp⟩
    rw [copyWith_eq] at he'
    simp only [finalEvs_at] at he'
    obtain ⟨vol, hp⟩ := evsOf_mem _ _ e he'
    have hused := queue_used _ _ _ (List.mem_of_mem_drop hp)
    have hf : e.file ≠ [] := by simpa [pUsed] using hused
    have hb := file_balance σs σt src tgt h hsep e.offset e.file hf
    have hpos : 0 < fileCntEvs (copyWith σs σt src tgt) e.offset e.file := by
      unfold fileCntEvs
      rw [List.countP_pos_iff]
      exact ⟨e, he, by simp⟩
    have : 0 < cnt (fun s => s.file == e.file) e.offset src := by
      show 0 < fileCntNotes src e.offset e.file
      omega
    exact srcHas_of_cnt src e.offset _ this

/-- (time, column, length, is-hold) read off a stacked row -/
def rowKey (n : Note) : NoteKey := (n.offset, n.column, n.length, n.length.isSome)

theorem rowKey_eq_core (l : List Note) (l' : List Note) (h : l.map core = l'.map core) : l.map rowKey = l'.map rowKey := by
  have : rowKey = (fun c : Rat × Int × Option Rat => (c.1, c.2.1, c.2.2, c.2.2.isSome)) ∘ core := rfl
  rw [this, ← List.map_map, ← List.map_map, h]

/-- **[M] the result has exactly the target's notes** (time, column, length, kind), provided every target hold
has a length. -/
theorem notes_preserved (σs σt : List Nat) (src tgt : Chart) (h : PermsOk σs σt src tgt)
    (hl : holdsHaveLength tgt = true) : NotesPreserved tgt (copyWith σs σt src tgt) := by
  unfold NotesPreserved
  rw [copyWith_eq]
  simp only [noteKeys]
  -- result keys are the row keys of the final frame
  have h1 : ((finalDf σs σt src tgt).filter (fun n => n.length.isNone)).map hitKey
      = ((finalDf σs σt src tgt).filter (fun n => n.length.isNone)).map rowKey := by
    apply List.map_congr_left
    intro n hn
    have := (List.mem_filter.mp hn).2
    cases hlen : n.length with
    | none => simp [hitKey, rowKey, hlen]
    | some x => simp [hlen] at this
  have h2 : ((finalDf σs σt src tgt).filter (fun n => n.length.isSome)).map holdKey
      = ((finalDf σs σt src tgt).filter (fun n => n.length.isSome)).map rowKey := by
    apply List.map_congr_left
    intro n hn
    have := (List.mem_filter.mp hn).2
    cases hlen : n.length with
    | none => simp [hlen] at this
    | some x => simp [holdKey, rowKey, hlen]
  rw [h1, h2, ← List.map_append]
  have hsome : (fun n : Note => n.length.isSome) = (fun n => !(fun n : Note => n.length.isNone) n) := by
    funext n; cases h : n.length <;> simp [h]
  have hperm : ((finalDf σs σt src tgt).filter (fun n => n.length.isNone)
      ++ (finalDf σs σt src tgt).filter (fun n => n.length.isSome)).Perm (finalDf σs σt src tgt) := by
    rw [hsome]; exact List.filter_append_perm _ _
  refine (hperm.map rowKey).trans ?_
  have hc : (finalDf σs σt src tgt).map rowKey = (df0 σt tgt).map rowKey :=
    rowKey_eq_core _ _ (foldl_fill_core _ _ _)
  rw [hc]
  unfold df0
  have hlen : σt.length = (concatNotes (resetSamples tgt)).length := by
    rw [h.lt]; simp [concatNotes, resetSamples]
  refine ((gather_perm _ _ h.ht hlen).map rowKey).trans ?_
  simp only [concatNotes, resetSamples, List.map_append, List.map_map]
  have e1 : tgt.hits.map (rowKey ∘ (fun n => { n with length := none }) ∘ resetNote) = tgt.hits.map hitKey := by
    apply List.map_congr_left; intro n _; rfl
  have e2 : tgt.holds.map (rowKey ∘ resetNote) = tgt.holds.map holdKey := by
    apply List.map_congr_left
    intro n hn
    simp only [holdsHaveLength, List.all_eq_true] at hl
    have := hl n hn
    simp only [Function.comp, rowKey, resetNote, holdKey, this]
  rw [e1, e2]

/-! ### `Bool` forms evaluated by the driver = `Prop` forms of the theorems -/

theorem notesPreservedB_iff (tgt out : Chart) : notesPreservedB tgt out = true ↔ NotesPreserved tgt out :=
  List.isPerm_iff

theorem countsLeB_iff (src out : Chart) : countsLeB src out = true ↔ CountsLe src out := by
  constructor
  · intro h t
    by_cases ht : ∃ n ∈ notesOf out, n.offset = t
    · obtain ⟨n, hn, rfl⟩ := ht
      exact List.all_eq_true.mp h n hn
    · have hz : ∀ p, cnt p t out = 0 := by
        intro p
        unfold cnt
        rw [List.countP_eq_zero]
        intro n hn hc
        simp only [Bool.and_eq_true, beq_iff_eq] at hc
        exact ht ⟨n, hn, hc.1⟩
      simp [countsLeAt, hz]
  · intro h
    exact List.all_eq_true.mpr (fun n _ => h n.offset)

theorem noInventionB_iff (src out : Chart) : noInventionB src out = true ↔ NoInvention src out := by
  simp [noInventionB, NoInvention, List.all_eq_true]

theorem allPlacedIfRoomB_iff (src out : Chart) : allPlacedIfRoomB src out = true ↔ AllPlacedIfRoom src out := by
  simp only [allPlacedIfRoomB, AllPlacedIfRoom, List.all_eq_true, Bool.or_eq_true, Bool.not_eq_true']
  constructor
  · intro h n hn hu
    rcases h n hn with h' | h'
    · rw [hu] at h'; exact absurd h' (by simp)
    · exact h'
  · intro h n hn
    cases hu : unused n with
    | false => exact Or.inl rfl
    | true => exact Or.inr (h n hn hu)

theorem samplesConservedB_iff (src out : Chart) : samplesConservedB src out = true ↔ SamplesConserved src out := by
  constructor
  · intro h t f hf
    by_cases hs : ∃ s ∈ notesOf src, s.offset = t ∧ s.file = f
    · obtain ⟨s, hs, rfl, rfl⟩ := hs
      have := List.all_eq_true.mp h s hs
      simp only [Bool.or_eq_true, beq_iff_eq, decide_eq_true_eq] at this
      rcases this with h0 | h0
      · exact absurd h0 hf
      · exact h0
    · have : fileCntNotes src t f = 0 := by
        unfold fileCntNotes
        rw [List.countP_eq_zero]
        intro n hn hc
        simp only [Bool.and_eq_true, beq_iff_eq] at hc
        exact hs ⟨n, hn, hc.1, hc.2⟩
      omega
  · intro h
    apply List.all_eq_true.mpr
    intro s _
    by_cases hf : s.file = []
    · simp [hf]
    · simp only [Bool.or_eq_true, beq_iff_eq, decide_eq_true_eq]
      exact Or.inr (h s.offset s.file hf)

/-! ### the hypotheses are needed: counterexamples on the model (known finding D19c; domain boundary of
`notes_preserved`) -/

/-- source: one hit at time 0 with the named sample `a;b`; target: one hit at time 0 -/
def semiSrc : Chart := ⟨[⟨0, 0, none, 0, 0, 0, 0, 5, [97, 59, 98]⟩], [], []⟩
def semiTgt : Chart := ⟨[⟨0, 0, none, 0, 0, 0, 0, 0, []⟩], [], []⟩

/-- **D19c** — a `;` inside a name: the result carries `a` on the note and `b` as an event sample; the named
sample `a;b` is on no note and in no event sample, and two names the source never had appear. -/
theorem semicolon_counterexample :
    ¬ SamplesConserved semiSrc (copy semiSrc semiTgt) ∧ ¬ NoInvention semiSrc (copy semiSrc semiTgt) := by
  constructor
  · rw [← samplesConservedB_iff]; decide +kernel
  · rw [← noInventionB_iff]; decide +kernel

/-- target: one hold whose length is NaN -/
def nanTgt : Chart := ⟨[], [⟨0, 1, none, 0, 0, 0, 0, 0, []⟩], []⟩

/-- outside the domain (documentation, not a finding): a row of the hold list with a NaN length comes back as a
hit, because the tail re-splits the stacked frame by `isnan(length)`. Holds of length 0 or of negative length
are inside the domain and keep their kind (`notes_preserved`; example below). -/
theorem nan_hold_counterexample : ¬ NotesPreserved nanTgt (copy ⟨[], [], []⟩ nanTgt) := by
  rw [← notesPreservedB_iff]; decide +kernel

/-- zero-length and negative-length holds keep their kind and length -/
example : (copy ⟨[⟨0, 0, none, 2, 0, 0, 0, 20, []⟩], [], []⟩
      ⟨[⟨0, 1, none, 0, 0, 0, 0, 0, []⟩], [⟨0, 0, some 0, 0, 0, 0, 0, 0, []⟩, ⟨5, 0, some (-20), 0, 0, 0, 0, 0, []⟩], []⟩).holds
    = [⟨0, 0, some 0, 0, 0, 0, 0, 0, []⟩, ⟨5, 0, some (-20), 0, 0, 0, 0, 0, []⟩] := by decide +kernel

/-! ### non-vacuity: the hypotheses are satisfiable on a non-trivial pair, and the model computes -/

def exSrc : Chart :=
  ⟨[⟨0, 0, none, 2, 0, 0, 0, 20, []⟩, ⟨0, 1, none, 4, 0, 0, 0, 20, [97]⟩, ⟨0, 2, none, 8, 0, 0, 0, 30, [98]⟩],
   [⟨0, 3, some 100, 14, 0, 0, 0, 20, [99]⟩], []⟩
def exTgt : Chart :=
  ⟨[⟨0, 0, none, 8, 1, 0, 0, 77, [111]⟩, ⟨0, 1, none, 0, 0, 0, 0, 0, []⟩, ⟨5, 1, none, 2, 0, 0, 0, 0, []⟩],
   [⟨0, 3, some 50, 0, 0, 0, 0, 0, []⟩], [⟨3, [111], 10⟩]⟩

example : PermsOk [0, 1, 2, 3] [0, 1, 3, 2] exSrc exTgt :=
  ⟨by unfold IsPerm; decide, by decide +kernel, by unfold IsPerm; decide, by decide +kernel⟩
example : noSep exSrc = true ∧ holdsHaveLength exTgt = true := by decide +kernel
/-- two volume groups (20: C C / F F / W + `a`, `c`; 30: W + `b`), three target notes at time 0: the defaults of
group 20 take two notes, `a` the third, `c` and `b` overflow, the whistle of group 30 is dropped -/
example : copy exSrc exTgt =
    ⟨[⟨0, 0, none, 14, 0, 0, 0, 20, []⟩, ⟨0, 1, none, 6, 0, 0, 0, 20, []⟩, ⟨5, 1, none, 0, 0, 0, 0, 0, []⟩],
     [⟨0, 3, some 50, 0, 0, 0, 0, 20, [97]⟩], [⟨0, [99], 20⟩, ⟨0, [98], 30⟩]⟩ := by decide +kernel
example : allPlacedIfRoomB exSrc (copy exSrc exTgt) = true ∧ countsLeB exSrc (copy exSrc exTgt) = true := by
  decide +kernel

end Reamber.Hitsound
