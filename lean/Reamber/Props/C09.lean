/-
C09 — read → convert → write yields a valid target file with the source's timeline.

FULL STATEMENT (the property; evaluated on every generated case by the harness through `c09.abs` / `c09.close`; proved as
one theorem for the pairs osu → Quaver, Quaver → osu, O2Jam → osu, O2Jam → Quaver: `osu_to_qua_end_to_end`,
`qua_to_osu_end_to_end`, `o2j_to_osu_end_to_end`, `o2j_to_qua_end_to_end`; osu → StepMania for the objects in the exact
regime: `osu_to_sm_objects_partial`; every source into osu / Quaver from the reader's output on:
`from_abstract_to_osu_partial`, `from_abstract_to_qua_partial`; osu / Quaver / any source → StepMania about the text
`SMMapSet.write` returns, tempo timeline and `#OFFSET` included, in the exact regime: `osu_to_sm_end_to_end_partial`,
`qua_to_sm_end_to_end_partial`, `from_abstract_to_sm_partial`; StepMania → osu / Quaver from one `#NOTES` value and the
parsed header values: `sm_to_osu_end_to_end_partial`, `sm_to_qua_end_to_end_partial`; BMS → osu / Quaver, objects, from the
file's lines: `bms_to_osu_objects_partial`, `bms_to_qua_objects_partial`; what each `_partial` lacks is spelled out at the
theorem; osu / Quaver / any source → BMS, objects in the exact regime, shift parameter included:
`osu_to_bms_objects_partial`, `qua_to_bms_objects_partial`, `convert_write_bms_objects_partial`; O2Jam → StepMania / BMS:
`o2j_to_sm_end_to_end_partial`, `o2j_to_bms_objects_partial`; StepMania → BMS, BMS → StepMania: `sm_to_bms_objects_partial`,
`bms_to_sm_objects_partial` — every one of the 16 pairs now has a theorem from the source (file / `#NOTES` value) to the
written file; the off-grid regime into
StepMania / BMS and the tempo timeline into BMS are NOT proved as one theorem):  for every source file `t` of format A inside the domain of A's reader property, every legal
target B and key count B supports,
    `CloseTo eps (res B) (gridExact a) shift a (abs_B (denote_B (write_B (convert_AB (read_A t)))))`   with `a = abs_A (denote_A t)`,
`res osu = res qua = ms`, `res sm = beat (1/96) (1/192)`, `res bms = beat (1/192) (1/192)`.

What is proved here, for all inputs:
* `closeTo_sound`        the decidable `closeTo` the driver evaluates implies the declarative `CloseTo` (a perfect pairing of
                         the hits, of the holds and of the two tempo timelines within the resolution);
* key-count lookups      over the tables regenerated from the source: `sm_keys_roundtrip`, `sm_supported_exactly`,
                         `sm_unsupported_refused`, `qua_mode_roundtrip`, `qua_supported_exactly`, `bms_layout_columns`;
* converter ties         `sm_offset_rules`, `osu_circle_size_rules`, `qua_mode_rules`, `sm_chart_type_rules`: what every
                         converter assigns to `#OFFSET`'s source, `circle_size`, `mode`, `chart_type` — the hypotheses the
                         writers need (`#OFFSET` = first tempo point: D14; key count from the chart type: D15) are read off
                         the generated converter table, so a source change breaks a proof obligation;
* `offset_established_*` the writer hypothesis "`#OFFSET` = first tempo point" follows for the rule of `OsuToSM`
                         and `QuaToSM` unconditionally, for the rule `0.0` of `BMSToSM` / `O2JToSM` when the source's first tempo point is
                         at 0 ms (`o2j_first_tempo_at_zero`: always so for an O2Jam level), and NOT for the
                         pre-D42 minimum over all rows (`minAll_offset_counterexample`; `QuaToSM` now uses the first rule);
* `content_carried`      (link 2, from C08) for each of the 17 generated converter entries a successful conversion returns
                         one chart per source chart with the same hits / holds / tempo rows, columns shifted by the argument;
* `contentOk_abstract`, `convert_write_qua_objects_partial`  links 2 + 3 chained over `AChart` for Quaver targets (all 17
                         converter entries): the written document carries the SOURCE chart's hits and holds;
* `into_qua_objects_partial`  (link 3 for Quaver, from C06 `qua_write_denotes`) the written document's denotation has the
                         chart's hits and holds, every head and tail within the `ms` resolution.  `_partial`: the tempo
                         timeline of the written document is `quantize`d too (C06), but that the *normalised* timelines pair
                         off needs "no two tempo points within 1 ms" and is only evaluated on every case.
The links for osu (C01 `line_roundtrip`, `qHit_close`, `qHold_close`), StepMania (C03 `row_exact`, `row_error_lt_one`) and
BMS (C05 `slot_exact`, `slot_roundtrip`) targets and for the five readers (C01/C02/C04/C06/C07: reader = denotation) are
the parts' theorems; they are stated over the parts' own model types and are not re-assembled here over `AChart`
(the embedding of each format's chart into C08's frames is the missing glue).
-/
import Reamber.Lemmas.Pipeline
import Reamber.Lemmas.PipelineConv
import Reamber.Lemmas.PipelineOsuQua
import Reamber.Lemmas.PipelineQuaOsu
import Reamber.Lemmas.PipelineGeneric
import Reamber.Lemmas.PipelineSMRead
import Reamber.Lemmas.PipelineBMS
import Reamber.Props.C04
import Reamber.Props.C05
import Reamber.Props.C07
import Reamber.Props.C03
import Reamber.Props.C01
import Reamber.Lemmas.OsuDialect
import Reamber.Generated.SMTables
import Reamber.Generated.PipelineTables
import Reamber.Generated.Converters
import Reamber.Props.C06
import Reamber.Props.C08

namespace Reamber.Pipeline

open Reamber.Timing

/-! ## the evaluated statement is sound for the declarative one -/

/-- **`closeTo` is sound**: whenever the driver's decidable check succeeds, the hits, the holds and the two tempo
timelines can be paired off within the resolution (for every tolerance, resolution, shift and pair of charts). -/
theorem closeTo_sound (eps : Rat) (res : Res) (exact : Bool) (shift : Int) (src tgt : AChart)
    (h : closeTo eps res exact shift src tgt = true) : CloseTo eps res exact shift src tgt := by
  simp only [closeTo, Verdict.all, closeVerdict, Bool.and_eq_true] at h
  obtain ⟨⟨hh, hl⟩, hb⟩ := h
  exact ⟨matchUp_paired _ _ _ _ _ hh, matchUp_paired _ _ _ _ _ hl, matchUp_paired_id _ _ _ hb⟩

/-- non-vacuity: a 4K chart written 0.4 ms late and one column to the right -/
example : closeTo 0 .ms false 1 ⟨[(1000, 0), (1500, 3)], [(2000, 2, 500)], [(0, 120)]⟩
    ⟨[(1500, 4), ((10004 : Rat) / 10, 1)], [(2000, 3, (5004 : Rat) / 10)], [(0, 120), (4000, 120)]⟩ = true := by decide +kernel

/-- ties: of two tempo points at one time the LATER row is in force — the source's timeline `120, then (100, 150) at
2000 ms` is the target's `120, then 150 at 2000 ms`, and not `120, then 100` -/
example : closeTo 0 .ms false 0 ⟨[(2400, 0)], [], [(0, 120), (2000, 100), (2000, 150)]⟩ ⟨[(2400, 0)], [], [(0, 120), (2000, 150)]⟩ = true ∧
    closeTo 0 .ms false 0 ⟨[(2400, 0)], [], [(0, 120), (2000, 100), (2000, 150)]⟩ ⟨[(2400, 0)], [], [(0, 120), (2000, 100)]⟩ = false ∧
    bpmAt [(0, 120), (2000, 100), (2000, 150)] 2400 = some 150 := by decide +kernel

/-! ## key-count lookups (generated tables) -/

def smTypeOf (k : Nat) : List Char := (Generated.SM.typeOfKeys.lookup k).getD []
def smKeysOf (t : List Char) : Option Nat := Generated.SM.keyTable.lookup t
def smSupported : List Nat := [3, 4, 6, 7, 8]

/-- `get_keys (get_type k) = k` for every key count StepMania charts can take -/
theorem sm_keys_roundtrip : ∀ k ∈ smSupported, smKeysOf (smTypeOf k) = some k := by decide +kernel

/-- `get_type` names a chart type exactly for 3, 4, 6, 7, 8 keys (0..18 probed) -/
theorem sm_supported_exactly : ∀ p ∈ Generated.SM.typeOfKeys, (p.2 = [] ↔ p.1 ∉ smSupported) := by decide +kernel

/-- an unsupported key count gives the type `""`, which has no key count: the writer refuses (`range(None)`) -/
theorem sm_unsupported_refused : smKeysOf [] = none := by decide +kernel

def quaModeOf (k : Nat) : String := (Generated.Pipeline.quaModeOfKeys.lookup k).getD ""
def quaKeysOf (m : String) : Option Int := Generated.Pipeline.quaKeysOfMode.lookup m
def quaSupported : List Nat := [4, 7, 8]

/-- `QuaMapMode.get_keys (get_mode k) = k` for 4, 7, 8 keys -/
theorem qua_mode_roundtrip : ∀ k ∈ quaSupported, quaKeysOf (quaModeOf k) = some (k : Int) := by decide +kernel

theorem qua_supported_exactly : ∀ p ∈ Generated.Pipeline.quaModeOfKeys, (p.2 = "" ↔ p.1 ∉ quaSupported) := by decide +kernel

/-- every mode constant has a key count that maps back to it -/
theorem qua_modes_roundtrip : ∀ m ∈ Generated.Pipeline.quaModes,
    ∃ k ∈ quaSupported, quaKeysOf m = some (k : Int) ∧ quaModeOf k = m := by decide +kernel

/-- every BMS layout maps its lane channels onto the columns `0 … n-1` -/
theorem bms_layout_columns : ∀ p ∈ Generated.Pipeline.bmsLayoutColumns, p.2 = List.range p.2.length := by decide +kernel

/-! ## what the converters assign (generated converter table) -/

open Reamber.Convert in
/-- the last assignment to `level.attr` in every converter that makes one -/
def metaExprs (level attr : String) : List (String × Convert.MetaExpr) :=
  Generated.converters.filterMap fun c =>
    (c.metas.reverse.find? fun m => m.level == level && m.attr == attr).map fun m => (c.name, m.expr)

/-- where the StepMania offset (the source of `#OFFSET`) comes from -/
inductive OffsetRule where
  | firstTempo | zero | minAll
deriving DecidableEq, Repr

def offsetRuleOf : Convert.MetaExpr → Option OffsetRule
  | .opaque "sm.bpms.first_offset()" => some .firstTempo
  | .opaque "0.0" => some .zero
  | .opaque "qua.stack().offset.min()" => some .minAll
  | _ => none

/-- **every converter into StepMania sets the offset, and by which rule** (D14: `OsuToSM` had `0.0`; D42: `QuaToSM`
had the minimum over all stacked rows) -/
theorem sm_offset_rules :
    (metaExprs "set" "offset").map (fun p => (p.1, offsetRuleOf p.2)) =
      [("BMSToSM.convert", some .zero), ("O2JToSM.convert", some .zero), ("O2JToSM.convert_merge", some .zero),
       ("OsuToSM.convert", some .firstTempo), ("QuaToSM.convert", some .firstTempo)] ∧
    (Generated.converters.filter (·.tgtGame == "sm")).map (·.name) = (metaExprs "set" "offset").map (·.1) := by
  decide +kernel

/-- **every converter into osu sets `circle_size`** (D15: `SMToOsu` did not), and from what -/
theorem osu_circle_size_rules :
    metaExprs "map" "circle_size" =
      [("BMSToOsu.convert", .opaque "bms.stack().column.max() + 1"), ("O2JToOsu.convert", .opaque "7"),
       ("QuaToOsu.convert", .opaque "QuaMapMode.get_keys(qua.mode)"),
       ("SMToOsu.convert", .opaque "SMMapChartTypes.get_keys(sm.chart_type)")] ∧
    (Generated.converters.filter (·.tgtGame == "osu")).map (·.name) = (metaExprs "map" "circle_size").map (·.1) := by
  decide +kernel

theorem qua_mode_rules :
    metaExprs "map" "mode" =
      [("BMSToQua.convert", .opaque "QuaMapMode.get_mode(int(bms.stack().column.max() + 1))"),
       ("O2JToQua.convert", .opaque "QuaMapMode.KEYS_7"),
       ("OsuToQua.convert", .opaque "QuaMapMode.get_mode(int(osu.circle_size))"),
       ("SMToQua.convert", .opaque "QuaMapMode.get_mode(int(SMMapChartTypes.get_keys(sm.chart_type)))")] ∧
    (Generated.converters.filter (·.tgtGame == "qua")).map (·.name) = (metaExprs "map" "mode").map (·.1) := by
  decide +kernel

/-- every per-chart converter into StepMania infers the chart type from the largest column (`convert_merge` leaves the
default `dance-single`) -/
theorem sm_chart_type_rules :
    metaExprs "map" "chart_type" =
      [("BMSToSM.convert", .opaque "SMMapChartTypes.get_type(bms.stack().column.max() + 1)"),
       ("O2JToSM.convert", .opaque "SMMapChartTypes.get_type(o2j.stack().column.max() + 1)"),
       ("OsuToSM.convert", .opaque "SMMapChartTypes.get_type(osu.stack().column.max() + 1)"),
       ("QuaToSM.convert", .opaque "SMMapChartTypes.get_type(qua.stack().column.max() + 1)")] := by
  decide +kernel

/-! ## the writer's hypothesis "`#OFFSET` = first tempo point" -/

/-- the offset a rule gives for a chart (`svs`: times of the scroll velocities, which Quaver's `stack()` also sees) -/
def offsetBy (r : OffsetRule) (a : AChart) (svs : List Rat) : Option Rat :=
  match r with
  | .firstTempo => firstTempo a
  | .zero => some 0
  | .minAll => minTime a svs

/-- the hypothesis of the StepMania writer link (C03's domain): the set's offset is the first tempo point -/
def OffsetOk (r : OffsetRule) (a : AChart) (svs : List Rat) : Prop := offsetBy r a svs = firstTempo a

instance (r : OffsetRule) (a : AChart) (svs : List Rat) : Decidable (OffsetOk r a svs) := by
  unfold OffsetOk; infer_instance

/-- `OsuToSM` and `QuaToSM` (rule `first_offset()`, D14 and D42 repaired): established for every chart -/
theorem offset_established_first (a : AChart) (svs : List Rat) : OffsetOk .firstTempo a svs := rfl

/-- `BMSToSM`, `O2JToSM` (rule `0.0`): established when the source's first tempo point is at 0 ms -/
theorem offset_established_zero (a : AChart) (svs : List Rat) (h : firstTempo a = some 0) : OffsetOk .zero a svs := by
  unfold OffsetOk offsetBy; rw [h]

example : OffsetOk .zero ⟨[(500, 1)], [], [(0, 120), (2000, 60)]⟩ [] := by decide +kernel

/-- the rule `stack().offset.min()` that `QuaToSM` had before D42 was repaired (no shipped converter uses it any more:
`sm_offset_rules`): established only when nothing precedes the first tempo point … -/
theorem offset_established_min (a : AChart) (svs : List Rat) (h : minTime a svs = firstTempo a) : OffsetOk .minAll a svs := h

example : OffsetOk .minAll ⟨[(1000, 0)], [], [(1000, 120)]⟩ [1000, 1500] := by decide +kernel

/-- … and fails as soon as a scroll velocity (or a note) does: **finding D42 (repaired)** — a Quaver chart with a scroll
velocity at 0 ms and its tempo point and first note at 1000 ms gets `#OFFSET` 0 while the writer counts beats from the
tempo point: everything is written 1000 ms early. -/
theorem minAll_offset_counterexample : ¬ OffsetOk .minAll ⟨[(1000, 0), (1500, 3)], [], [(1000, 120)]⟩ [0] := by
  decide +kernel

/-- an O2Jam level's tempo list starts with the header tempo at 0 ms: the rule `0.0` of `O2JToSM` names its first point -/
theorem o2j_first_tempo_at_zero (init : Rat) (pkgs : List O2J.RawPkg) (l : O2J.LevelOut)
    (h : O2J.Spec.specLevel init pkgs = .ok l) : (ofO2J l).bpms.head? = some (0, init) := by
  unfold O2J.Spec.specLevel at h
  simp only [bind, Except.bind] at h
  split at h
  · cases h
  · simp only [Except.ok.injEq] at h
    subst h
    rfl

/-! ## link 2: the converters carry the content (C08, re-exported for all 17 entries) -/

/-- for every generated converter entry, every well-formed source and shift: one chart per source chart, each holding
the source chart's hits `(offset, column)`, holds `(offset, column, length)` and tempo points `(offset, bpm)` as
multisets, the column shifted by the shift argument only — exactly the rows `AChart` abstracts. -/
theorem content_carried : ∀ c ∈ Generated.converters, ∀ (src : Convert.Src) (k : Int) (out : Convert.Out),
    (∀ m ∈ src.maps, Convert.srcMapOk m = true) → Convert.convert Convert.tables c src k = .ok out →
    (Convert.specAll Convert.tables c.srcGame c.tgtGame c.tgtMapClass src (Convert.effShift c k) out).content = true ∧
    (Convert.specAll Convert.tables c.srcGame c.tgtGame c.tgtMapClass src (Convert.effShift c k) out).onePer = true :=
  Convert.converters_content_and_count

/-! ## link 3 for Quaver: the written document denotes the chart's objects within 1 ms -/

/-- the object part of `CloseTo` -/
def ObjectsClose (eps : Rat) (res : Res) (exact : Bool) (shift : Int) (src tgt : AChart) : Prop :=
  Paired (fun a b => closeHit eps res exact shift src a b = true) src.hits tgt.hits ∧
  Paired (fun a b => closeHold eps res exact shift src a b = true) src.holds tgt.holds

/-- **Into Quaver** (`_partial`: objects; the tempo timeline is only evaluated): for every chart with well-formed
metadata and list-valued key sounds (what a converter produces since D08 is repaired) that the writer accepts, the
written document has a denotation, and that denotation holds the chart's hits and holds — same lanes, every head and
tail less than 1 ms away, no float slack. -/
theorem into_qua_objects_partial (c : Qua.Chart) (d : Qua.Doc) (hm : Qua.MetaOk c.info)
    (hk : Qua.Spec.ksLists c = true) (hw : Qua.write c = .ok d) :
    ∃ c', Qua.Spec.denote d = .ok c' ∧ ObjectsClose 0 .ms false 0 (ofQua c) (ofQua c') := by
  obtain ⟨hden, _⟩ := Qua.qua_write_denotes c d hm hk hw
  refine ⟨Qua.Spec.quantize c, hden, ?_, ?_⟩
  · refine ⟨_, _, List.Perm.refl _, List.Perm.refl _, ?_⟩
    show Zipped _ (c.hits.map fun h => (h.offset, h.column)) ((c.hits.map Qua.Spec.qHit).map fun h => (h.offset, h.column))
    apply zipped_map
    intro h
    simp [closeHit, Qua.Spec.qHit, closeTime_ms_trunc]
  · refine ⟨_, _, List.Perm.refl _, List.Perm.refl _, ?_⟩
    show Zipped _ (c.holds.map fun h => (h.offset, h.column, h.length))
      ((c.holds.map Qua.Spec.qHold).map fun h => (h.offset, h.column, h.length))
    apply zipped_map
    intro h
    have ht : (Qua.truncI h.offset : Rat) + ((Qua.truncI (h.offset + h.length) : Rat) - (Qua.truncI h.offset : Rat)) =
        (Qua.truncI (h.offset + h.length) : Rat) := by linarith
    simp [closeHold, Qua.Spec.qHold, closeTime_ms_trunc, ht]

/-! ## links 2 + 3 chained: convert, then write as Quaver (all converters, all sources) -/

theorem paired_of_perm_left {α β} (R : α → β → Prop) (as as₂ : List α) (bs : List β) (hp : as.Perm as₂)
    (h : Paired R as bs) : Paired R as₂ bs := by
  obtain ⟨as', bs', h1, h2, hz⟩ := h
  exact ⟨as', bs', h1.trans hp, h2, hz⟩

/-- non-vacuity of the content link on abstract charts: a two-hit, one-hold source map and its conversion shifted by 1 -/
example :
    let fh : Convert.Frame := ⟨[5, 2], [("offset", [.num 10, .num 20]), ("column", [.num 0, .num 3])]⟩
    let fl : Convert.Frame := ⟨[0], [("offset", [.num 30]), ("column", [.num 1]), ("length", [.num 500])]⟩
    let fb : Convert.Frame := ⟨[0], [("offset", [.num 0]), ("bpm", [.num 120])]⟩
    let th : Convert.Frame := ⟨[0, 1], [("offset", [.num 20, .num 10]), ("column", [.num 4, .num 1])]⟩
    let tl : Convert.Frame := ⟨[0], [("offset", [.num 30]), ("column", [.num 2]), ("length", [.num 500])]⟩
    Convert.contentOk 1 ⟨[("hits", fh), ("holds", fl), ("bpms", fb)], [], ""⟩ ⟨th, tl, fb, none, []⟩ = true ∧
    (ofTChart ⟨th, tl, fb, none, []⟩).hits = [(20, 4), (10, 1)] := by decide +kernel

/-- the in-memory Quaver chart holds exactly the hit and hold rows of the converted frames (the representation glue
between C08's frames and C06's chart type: the reader side of a `QuaMap` is its list frames) -/
def Represents (qc : Qua.Chart) (t : Convert.TChart) : Prop :=
  (ofQua qc).hits = (ofTChart t).hits ∧ (ofQua qc).holds = (ofTChart t).holds

/-- **convert, then write as Quaver** (C08 `converters_spec` + C06 `qua_write_denotes`, chained over `AChart`): for each
of the 17 generated converter entries, every well-formed source (any row labels, any number of charts) and shift
argument, every source chart `m` with its converted chart `t`, and every Quaver chart `qc` that holds `t`'s rows and is
written successfully: the written document has a denotation, and that denotation carries the hits and holds of the
SOURCE chart `m` — columns moved by the shift argument only, every head and tail less than 1 ms away.
`_partial`: objects only (tempo timeline evaluated, not proved), and the reader link (file → `m`) and the
frames ↔ chart representation (`Represents`) are hypotheses. -/
theorem convert_write_qua_objects_partial : ∀ c ∈ Generated.converters,
    ∀ (src : Convert.Src) (k : Int) (out : Convert.Out),
    Convert.srcOk Convert.tables c src = true → Convert.convert Convert.tables c src k = .ok out →
    ∀ p ∈ src.maps.zip out.pairs, ∀ (qc : Qua.Chart) (d : Qua.Doc),
      Represents qc p.2.2 → Qua.MetaOk qc.info → Qua.Spec.ksLists qc = true → Qua.write qc = .ok d →
      ∃ c', Qua.Spec.denote d = .ok c' ∧
        ObjectsClose 0 .ms false 0 (shiftCols (Convert.effShift c k) (ofSrcMap p.1)) (ofQua c') := by
  intro c hc src k out hsrc hconv p hp qc d hrep hm hk hw
  have hcontent : (src.maps.zip out.pairs).all (fun p => Convert.contentOk (Convert.effShift c k) p.1 p.2.2) = true :=
    (Convert.converters_spec c hc src k out hsrc hconv).2.1
  have hp' := List.all_eq_true.mp hcontent p hp
  obtain ⟨hh, hl, _⟩ := contentOk_abstract _ _ _ hp'
  obtain ⟨c', hden, hobj⟩ := into_qua_objects_partial qc d hm hk hw
  refine ⟨c', hden, ?_, ?_⟩
  · have := paired_of_perm_left _ _ _ _ (hrep.1 ▸ hh) hobj.1
    exact this
  · have := paired_of_perm_left _ _ _ _ (hrep.2 ▸ hl) hobj.2
    exact this

/-! ## one pair end to end: osu → Quaver, file to file -/

def osuToQua : Convert.Conv := Convert.conv! "OsuToQua.convert"

/-- the generated entry of `OsuToQua.convert`: in the table, statically well formed, no shift parameter, one map in /
one map out -/
theorem osuToQua_entry : osuToQua ∈ Generated.converters ∧ osuToQua.name = "OsuToQua.convert" ∧
    Convert.staticOk Convert.tables osuToQua = true ∧ osuToQua.shiftParam = none ∧ osuToQua.shape = .single := by
  decide +kernel

theorem zipped_refl {α} (R : α → α → Prop) (hR : ∀ a, R a a) : ∀ l : List α, Zipped R l l
  | [] => Zipped.nil
  | a :: t => Zipped.cons (hR a) (zipped_refl R hR t)

theorem closeBpm_ms_refl (exact : Bool) (src : AChart) (a : ABpm) : closeBpm 0 .ms exact src a a = true := by
  have hz : ∀ x : Rat, slack 0 x x = 0 := by
    intro x; unfold slack; rw [Rat.zero_mul, Rat.add_zero]
  have h0 : ∀ x : Rat, rabs (x - x) = 0 := by
    intro x; unfold rabs; rw [Rat.sub_self]; simp
  simp only [closeBpm, closeTime, eqUpTo, Bool.and_eq_true, decide_eq_true_eq, hz, h0]
  constructor
  · decide +kernel
  · exact Rat.le_refl

/-- every tempo point of the chart sits on a whole millisecond (so writing whole milliseconds does not move it) -/
def TempoWholeMs (a : AChart) : Prop := ∀ b ∈ a.bpms, ((Qua.truncI b.1 : Int) : Rat) = b.1

/-- non-vacuity of the converter hypothesis: on the frames of a small osu chart (two tempo points on whole
milliseconds, a scroll velocity) the converter model succeeds, and the chart it returns holds the chart's tempo rows -/
example :
    let c : Osu.Chart := { bpms := [⟨0, 120, 4, 0, 0, 0, false⟩, ⟨2000, 150, 4, 0, 0, 0, false⟩], svs := [⟨500, 2, 0, 0, 0, false⟩] }
    (match Convert.convert Convert.tables osuToQua ⟨[], [embOsu c]⟩ 0 with
     | .ok out => out.charts.map (fun t => (ofTChart t).bpms) == [[(0, 120), (2000, 150)]]
     | .error _ => false) = true ∧
    (ofOsu c).bpms.all (fun b => decide (((Qua.truncI b.1 : Int) : Rat) = b.1)) = true := by decide +kernel

/-- **osu → Quaver, end to end** (file text to written document; reader C01, converter C08, writer C06 chained):
let `lines` be an osu text of the dialect (a well-formed skeleton) that the by-the-book denotation reads as the chart
`c0` with a key count ≥ 1.  Then
1. the reader as written returns exactly `c0` (C01 `read_eq_denote`);
2. whenever the converter model's `OsuToQua.convert` succeeds on the list frames of `c0` (`embOsu c0`: the key columns,
   fresh row labels), it returns one chart `t`, and
3. whenever the Quaver writer accepts the chart held by `t`'s frames (`quaOfT t info svs`, any well-formed metadata
   record `info`, any scroll velocities), the written document has a by-the-book denotation `c'` with
   `CloseTo 0 ms false 0 (ofOsu c0) (ofQua c')`: the hits, the holds and the normalised tempo timeline of the SOURCE FILE
   pair off with those of the WRITTEN DOCUMENT — same columns, every head and tail less than 1 ms away, same tempos —
   with no float slack.
Hypotheses that remain (named): the tempo points of the source lie on whole milliseconds (`TempoWholeMs`; otherwise two
tempo points less than 1 ms apart may collapse when written, which the harness treats as `tempo_crowded`); success of the
converter model and of the writer model; `MetaOk info` (metadata is not part of the abstract chart; its provenance is C08
`converters_spec_all`).  Modelling glue that is definition, not theorem: `embOsu` (an in-memory `OsuMap` IS its list
frames) and `quaOfT` (an in-memory `QuaMap` IS its list frames, `keysounds` cells `[]`); both are proved to commute with
the abstraction (`ofSrcMap_embOsu`, `ofQua_quaOfT`) and are tied to the code by the harness's links 1 and 2 on every case. -/
theorem osu_to_qua_end_to_end (s : Osu.Skeleton) (hwf : s.WF) (lines : List Osu.Str)
    (hl : lines.map Osu.strip = s.lines) (c0 : Osu.Chart) (hden : Osu.denote lines = .ok c0)
    (hk : 1 ≤ Osu.pyTrunc c0.md.circleSize) (hms : TempoWholeMs (ofOsu c0))
    (k : Int) (out : Convert.Out)
    (hconv : Convert.convert Convert.tables osuToQua ⟨[], [embOsu c0]⟩ k = .ok out)
    (info : Qua.Rec) (hm : Qua.MetaOk info) (svs : List Qua.Sv) (d : Qua.Doc) :
    Osu.read lines = .ok c0 ∧
    ∃ t, out = ⟨false, [⟨[], [t]⟩]⟩ ∧
      (Qua.write (quaOfT t info svs) = .ok d →
        ∃ c', Qua.Spec.denote d = .ok c' ∧ CloseTo 0 .ms false 0 (ofOsu c0) (ofQua c')) := by
  obtain ⟨_, _, hst, hns, hshape⟩ := osuToQua_entry
  refine ⟨Osu.read_eq_denote s hwf lines hl c0 hden hk, ?_⟩
  obtain ⟨m, t, hmaps, hone, hout⟩ := convert_single_inv _ _ _ _ _ hshape hconv
  have hmeq : m = embOsu c0 := by
    simp only [List.cons.injEq, and_true] at hmaps
    exact hmaps.symm
  subst hmeq
  have habs : ofTChart t = ofOsu c0 := by
    rw [convOne_abstract_eq _ _ _ _ _ _ hst hns (srcMapOk_embOsu c0) hone, ofSrcMap_embOsu]
  refine ⟨t, hout, ?_⟩
  intro hw
  have hq : ofQua (quaOfT t info svs) = ofOsu c0 := by rw [ofQua_quaOfT, habs]
  obtain ⟨hden', _⟩ := Qua.qua_write_denotes _ d hm (ksLists_quaOfT t info svs) hw
  obtain ⟨c', hc', hobj⟩ := into_qua_objects_partial _ d hm (ksLists_quaOfT t info svs) hw
  have hceq : c' = Qua.Spec.quantize (quaOfT t info svs) := by
    rw [hden'] at hc'
    exact (Except.ok.inj hc').symm
  refine ⟨c', hc', ?_, ?_, ?_⟩
  · exact hq ▸ hobj.1
  · exact hq ▸ hobj.2
  · -- tempo timeline: on whole milliseconds the written tempo rows are the source's rows
    have hb : (ofQua c').bpms = (ofOsu c0).bpms := by
      rw [hceq, ← hq]
      simp only [ofQua, Qua.Spec.quantize, List.map_map]
      apply List.map_congr_left
      intro b hbm
      have hmem : (b.offset, b.bpm) ∈ (ofOsu c0).bpms := by
        rw [← hq]
        exact List.mem_map.mpr ⟨b, hbm, rfl⟩
      have := hms _ hmem
      simp only [Function.comp, Qua.Spec.qBpm]
      rw [this]
    rw [hb]
    exact ⟨_, _, List.Perm.refl _, List.Perm.refl _, zipped_refl _ (closeBpm_ms_refl false (ofOsu c0)) _⟩

/-! ## a second pair end to end: Quaver → osu, document to written text -/

def quaToOsu : Convert.Conv := Convert.conv! "QuaToOsu.convert"

theorem quaToOsu_entry : quaToOsu ∈ Generated.converters ∧ quaToOsu.name = "QuaToOsu.convert" ∧
    Convert.staticOk Convert.tables quaToOsu = true ∧ quaToOsu.shiftParam = none ∧ quaToOsu.shape = .single := by
  decide +kernel

/-- the hypotheses of C01 `denote_writeText` on the chart that is written (columns inside the key count 1..256, file
names without separators, non-zero tempos / scroll velocities that the float renderer `R` reads back exactly,
well-formed metadata, no line break rendered in the header, background name without `"` and `,`) -/
structure OsuWritable (R : Osu.Render) (c : Osu.Chart) : Prop where
  hk : 0 < Osu.pyTrunc c.md.circleSize
  hk' : Osu.pyTrunc c.md.circleSize ≤ 256
  hhits : ∀ h ∈ c.hits, Osu.ObjOk2 (Osu.pyTrunc c.md.circleSize) (.hit h)
  hholds : ∀ h ∈ c.holds, Osu.ObjOk2 (Osu.pyTrunc c.md.circleSize) (.hold h)
  hb : ∀ b ∈ c.bpms, Osu.BpmOk2 R b
  hs : ∀ b ∈ c.svs, Osu.SvOk2 R b
  hm : Osu.MetaOk R c.md
  hnl : ∀ tl ∈ Osu.writeMeta c.md, ∀ t ∈ tl, '\n' ∉ R.tok t
  hbq : '"' ∉ c.md.backgroundFileName
  hbc : ',' ∉ c.md.backgroundFileName

/-- **Quaver → osu, end to end** (parsed document to written text; reader C06, converter C08, writer C01 chained):
let `d` be a Quaver document whose objects declare numeric times, an integer lane and their key sounds, and that the
by-the-book denotation reads as the chart `c0`.  Then
1. the reader as written returns exactly `c0` (C06 `qua_read_defaults`);
2. whenever the converter model's `QuaToOsu.convert` succeeds on the list frames of `c0` (`embQua c0`), it returns one
   chart `t`, and
3. whenever the chart held by `t`'s frames (`osuOfT t md svs`: any metadata `md`, any scroll velocities) satisfies the
   hypotheses of C01's writer theorem (`OsuWritable`), the written text `"\n".join(write())` has a by-the-book
   denotation `c'` with `CloseTo 0 ms false 0 (ofQua c0) (ofOsu c')`: hits and holds of the SOURCE DOCUMENT pair off with
   those of the WRITTEN TEXT (same column, head and tail less than 1 ms away), and the tempo timelines are equal (osu
   timing points keep fractional times: no hypothesis on the tempo points is needed) — no float slack.
Hypotheses that remain (named): success of the converter model; `OsuWritable` (in particular every column inside the
written key count — the key count comes from `QuaMapMode.get_keys(qua.mode)`, opaque to the converter table:
`osu_circle_size_rules`, `qua_mode_roundtrip`); the float renderer `R` is a parameter (Python `repr`).  Modelling glue by
definition: `embQua`, `osuOfT` (both proved to commute with the abstraction: `ofSrcMap_embQua`, `ofOsu_osuOfT`). -/
theorem qua_to_osu_end_to_end (d : Qua.Doc) (hdecl : Qua.Spec.objsDeclared d = true) (c0 : Qua.Chart)
    (hden : Qua.Spec.denote d = .ok c0) (k : Int) (out : Convert.Out)
    (hconv : Convert.convert Convert.tables quaToOsu ⟨[], [embQua c0]⟩ k = .ok out)
    (R : Osu.Render) (md : Osu.Meta) (svs : List Osu.Sv) :
    Qua.read d = .ok c0 ∧
    ∃ t, out = ⟨false, [⟨[], [t]⟩]⟩ ∧
      (OsuWritable R (osuOfT t md svs) →
        ∃ c', Osu.denoteText (Osu.writeText R (osuOfT t md svs)) = .ok c' ∧
          CloseTo 0 .ms false 0 (ofQua c0) (ofOsu c')) := by
  obtain ⟨_, _, hst, hns, hshape⟩ := quaToOsu_entry
  refine ⟨by rw [Qua.qua_read_defaults d hdecl]; exact hden, ?_⟩
  obtain ⟨m, t, hmaps, hone, hout⟩ := convert_single_inv _ _ _ _ _ hshape hconv
  have hmeq : m = embQua c0 := by
    simp only [List.cons.injEq, and_true] at hmaps
    exact hmaps.symm
  subst hmeq
  have habs : ofTChart t = ofQua c0 := by
    rw [convOne_abstract_eq _ _ _ _ _ _ hst hns (srcMapOk_embQua c0) hone, ofSrcMap_embQua]
  refine ⟨t, hout, ?_⟩
  intro hw
  have hq : ofOsu (osuOfT t md svs) = ofQua c0 := by rw [ofOsu_osuOfT, habs]
  have hdw := Osu.denote_writeText R (osuOfT t md svs) hw.hk hw.hk' hw.hhits hw.hholds hw.hb hw.hs hw.hm hw.hnl hw.hbq hw.hbc
  obtain ⟨h1, h2, h3⟩ := quantize_osu_close R.uni (osuOfT t md svs) (ofQua c0)
  refine ⟨_, hdw, ?_, ?_, ?_⟩
  · exact hq ▸ h1
  · exact hq ▸ h2
  · rw [h3, hq]
    exact ⟨_, _, List.Perm.refl _, List.Perm.refl _, zipped_refl _ (closeBpm_ms_refl false (ofQua c0)) _⟩

/-! ## links 2 + 3 for EVERY converter into osu / into Quaver without a shift parameter, from any source frames -/

/-- writer link into osu over `AChart` (C01 `denote_writeText` + `quantize_osu_close`) -/
theorem write_osu_close (R : Osu.Render) (t : Convert.TChart) (md : Osu.Meta) (svs : List Osu.Sv) (a : AChart)
    (ha : ofTChart t = a) (hw : OsuWritable R (osuOfT t md svs)) :
    ∃ c', Osu.denoteText (Osu.writeText R (osuOfT t md svs)) = .ok c' ∧ CloseTo 0 .ms false 0 a (ofOsu c') := by
  have hq : ofOsu (osuOfT t md svs) = a := by rw [ofOsu_osuOfT, ha]
  have hdw := Osu.denote_writeText R (osuOfT t md svs) hw.hk hw.hk' hw.hhits hw.hholds hw.hb hw.hs hw.hm hw.hnl hw.hbq hw.hbc
  obtain ⟨h1, h2, h3⟩ := quantize_osu_close R.uni (osuOfT t md svs) a
  refine ⟨_, hdw, hq ▸ h1, hq ▸ h2, ?_⟩
  rw [h3, hq]
  exact ⟨_, _, List.Perm.refl _, List.Perm.refl _, zipped_refl _ (closeBpm_ms_refl false a) _⟩

/-- writer link into Quaver over `AChart` (C06 `qua_write_denotes`), tempo points on whole milliseconds -/
theorem write_qua_close (t : Convert.TChart) (info : Qua.Rec) (svs : List Qua.Sv) (d : Qua.Doc) (a : AChart)
    (ha : ofTChart t = a) (hm : Qua.MetaOk info) (hms : TempoWholeMs a)
    (hw : Qua.write (quaOfT t info svs) = .ok d) :
    ∃ c', Qua.Spec.denote d = .ok c' ∧ CloseTo 0 .ms false 0 a (ofQua c') := by
  have hq : ofQua (quaOfT t info svs) = a := by rw [ofQua_quaOfT, ha]
  obtain ⟨hden', _⟩ := Qua.qua_write_denotes _ d hm (ksLists_quaOfT t info svs) hw
  obtain ⟨c', hc', hobj⟩ := into_qua_objects_partial _ d hm (ksLists_quaOfT t info svs) hw
  have hceq : c' = Qua.Spec.quantize (quaOfT t info svs) := by
    rw [hden'] at hc'
    exact (Except.ok.inj hc').symm
  refine ⟨c', hc', hq ▸ hobj.1, hq ▸ hobj.2, ?_⟩
  have hb : (ofQua c').bpms = a.bpms := by
    rw [hceq, ← hq]
    simp only [ofQua, Qua.Spec.quantize, List.map_map]
    apply List.map_congr_left
    intro b hbm
    have hmem : (b.offset, b.bpm) ∈ a.bpms := by
      rw [← hq]
      exact List.mem_map.mpr ⟨b, hbm, rfl⟩
    have := hms _ hmem
    simp only [Function.comp, Qua.Spec.qBpm]
    rw [this]
  rw [hb]
  exact ⟨_, _, List.Perm.refl _, List.Perm.refl _, zipped_refl _ (closeBpm_ms_refl false a) _⟩

/-- **convert, then write as osu — every converter entry without a shift parameter** (the four converters into osu, and
formally any other entry of that kind): for every well-formed source (any number of charts, any row labels) and every
(source map, converted chart) pair, the text written for the chart held by the converted frames denotes the SOURCE MAP's
abstract chart: hits and holds within 1 ms, tempo timeline equal. -/
theorem convert_write_osu : ∀ c ∈ Generated.converters, c.shiftParam = none →
    ∀ (src : Convert.Src) (k : Int) (out : Convert.Out), (∀ m ∈ src.maps, Convert.srcMapOk m = true) →
    Convert.convert Convert.tables c src k = .ok out →
    ∀ p ∈ src.maps.zip out.pairs, ∀ (R : Osu.Render) (md : Osu.Meta) (svs : List Osu.Sv),
      OsuWritable R (osuOfT p.2.2 md svs) →
      ∃ c', Osu.denoteText (Osu.writeText R (osuOfT p.2.2 md svs)) = .ok c' ∧
        CloseTo 0 .ms false 0 (ofSrcMap p.1) (ofOsu c') := by
  intro c hc hns src k out hsrc hconv p hp R md svs hw
  exact write_osu_close R _ md svs _
    (convert_abstract_eq _ c src k out (Convert.table_static_ok c hc) hns hsrc hconv p hp) hw

/-- **convert, then write as Quaver — every converter entry without a shift parameter**: as `convert_write_osu`, with the
source map's tempo points on whole milliseconds. -/
theorem convert_write_qua : ∀ c ∈ Generated.converters, c.shiftParam = none →
    ∀ (src : Convert.Src) (k : Int) (out : Convert.Out), (∀ m ∈ src.maps, Convert.srcMapOk m = true) →
    Convert.convert Convert.tables c src k = .ok out →
    ∀ p ∈ src.maps.zip out.pairs, ∀ (info : Qua.Rec) (svs : List Qua.Sv) (d : Qua.Doc),
      Qua.MetaOk info → TempoWholeMs (ofSrcMap p.1) → Qua.write (quaOfT p.2.2 info svs) = .ok d →
      ∃ c', Qua.Spec.denote d = .ok c' ∧ CloseTo 0 .ms false 0 (ofSrcMap p.1) (ofQua c') := by
  intro c hc hns src k out hsrc hconv p hp info svs d hm hms hw
  exact write_qua_close _ info svs d _
    (convert_abstract_eq _ c src k out (Convert.table_static_ok c hc) hns hsrc hconv p hp) hm hms hw

/-! ## O2Jam → osu and O2Jam → Quaver, bytes to written file -/

def o2jToOsu : Convert.Conv := Convert.conv! "O2JToOsu.convert"
def o2jToQua : Convert.Conv := Convert.conv! "O2JToQua.convert"

theorem o2j_entries : o2jToOsu ∈ Generated.converters ∧ o2jToOsu.name = "O2JToOsu.convert" ∧ o2jToOsu.shiftParam = none ∧
    o2jToQua ∈ Generated.converters ∧ o2jToQua.name = "O2JToQua.convert" ∧ o2jToQua.shiftParam = none := by
  decide +kernel

/-- the in-memory `O2JMapSet` as the converters read it: one map per level (the list frames holding the level's
abstract rows, fresh labels), the set's text attributes as placeholders -/
def o2jSrc (f : O2J.FileOut) : Convert.Src :=
  ⟨[("title", "<title>"), ("artist", "<artist>"), ("creator", "<creator>")],
   f.levels.map (fun l => embA (ofO2J l) none [] "<level>")⟩

theorem o2jSrc_ok (f : O2J.FileOut) : ∀ m ∈ (o2jSrc f).maps, Convert.srcMapOk m = true := by
  intro m hm
  simp only [o2jSrc, List.mem_map] at hm
  obtain ⟨l, _, rfl⟩ := hm
  exact srcMapOk_embA _ _ _ _

theorem o2jSrc_zip (f : O2J.FileOut) (ps : List (Convert.TGroup × Convert.TChart)) (p : O2J.LevelOut × Convert.TGroup × Convert.TChart)
    (hp : p ∈ f.levels.zip ps) : (embA (ofO2J p.1) none [] "<level>", p.2) ∈ (o2jSrc f).maps.zip ps := by
  simp only [o2jSrc, List.zip_map_left]
  exact List.mem_map.mpr ⟨p, hp, rfl⟩

/-- non-vacuity of the converter hypotheses: on the frames of a two-level set both converter models succeed and return
one chart per level holding the level's tempo rows -/
example :
    let lv : O2J.LevelOut := ⟨[], [⟨0, 120, 0⟩, ⟨1, 150, 2000⟩]⟩
    let f : O2J.FileOut := ⟨[], [lv, lv]⟩
    (match Convert.convert Convert.tables o2jToOsu (o2jSrc f) 0 with
     | .ok out => out.charts.map (fun t => (ofTChart t).bpms) == [[(0, 120), (2000, 150)], [(0, 120), (2000, 150)]]
     | .error _ => false) = true ∧
    (match Convert.convert Convert.tables o2jToQua (o2jSrc f) 0 with
     | .ok out => out.charts.map (fun t => (ofTChart t).bpms) == [[(0, 120), (2000, 150)], [(0, 120), (2000, 150)]]
     | .error _ => false) = true := by decide +kernel

/-- **O2Jam → osu, end to end** (bytes of the .ojn to written .osu text; reader C07, converter C08, writer C01): for
every well-formed byte string `bs` that the format's specification reads as `f` (header + one level per package count):
1. the reader as written returns exactly `f` (C07 `read_spec`);
2. whenever the converter model's `O2JToOsu.convert` succeeds on the set's frames it returns one chart per level;
3. for every level `l` and its converted chart `t`: whenever the chart held by `t`'s frames is `OsuWritable`, the written
   text has a by-the-book denotation `c'` with `CloseTo 0 ms false 0 (ofO2J l) (ofOsu c')` — hits and holds of the level
   within 1 ms, tempo timeline equal.
Remaining hypotheses: success of the converter model; `OsuWritable` (C01's writer hypotheses; the written key count 7 is
`osu_circle_size_rules`); renderer `R` a parameter.  Glue by definition: `o2jSrc` / `embA`, `osuOfT`. -/
theorem o2j_to_osu_end_to_end (bs : List Nat) (hwf : O2J.Spec.wellFormed bs = true) (f : O2J.FileOut)
    (hspec : O2J.Spec.specSet bs = .ok f) (k : Int) (out : Convert.Out)
    (hconv : Convert.convert Convert.tables o2jToOsu (o2jSrc f) k = .ok out) :
    O2J.readFile bs = .ok f ∧ out.charts.length = f.levels.length ∧
    ∀ p ∈ f.levels.zip out.pairs, ∀ (R : Osu.Render) (md : Osu.Meta) (svs : List Osu.Sv),
      OsuWritable R (osuOfT p.2.2 md svs) →
      ∃ c', Osu.denoteText (Osu.writeText R (osuOfT p.2.2 md svs)) = .ok c' ∧
        CloseTo 0 .ms false 0 (ofO2J p.1) (ofOsu c') := by
  obtain ⟨hc, _, hns, _, _, _⟩ := o2j_entries
  refine ⟨by rw [O2J.read_spec bs hwf]; exact hspec, ?_, ?_⟩
  · have := Convert.one_per_source _ _ _ _ _ (Convert.table_shapes _ hc) hconv
    simpa [Convert.onePerSource, o2jSrc] using this
  · intro p hp R md svs hw
    have := convert_write_osu _ hc hns _ k out (o2jSrc_ok f) hconv _ (o2jSrc_zip f _ p hp) R md svs hw
    simpa [ofSrcMap_embA] using this

/-- **O2Jam → Quaver, end to end**: as `o2j_to_osu_end_to_end` with the Quaver writer (C06); additionally the level's
tempo points lie on whole milliseconds (`TempoWholeMs`), the metadata record is `MetaOk`, the writer model accepts. -/
theorem o2j_to_qua_end_to_end (bs : List Nat) (hwf : O2J.Spec.wellFormed bs = true) (f : O2J.FileOut)
    (hspec : O2J.Spec.specSet bs = .ok f) (k : Int) (out : Convert.Out)
    (hconv : Convert.convert Convert.tables o2jToQua (o2jSrc f) k = .ok out) :
    O2J.readFile bs = .ok f ∧ out.charts.length = f.levels.length ∧
    ∀ p ∈ f.levels.zip out.pairs, ∀ (info : Qua.Rec) (svs : List Qua.Sv) (d : Qua.Doc),
      Qua.MetaOk info → TempoWholeMs (ofO2J p.1) → Qua.write (quaOfT p.2.2 info svs) = .ok d →
      ∃ c', Qua.Spec.denote d = .ok c' ∧ CloseTo 0 .ms false 0 (ofO2J p.1) (ofQua c') := by
  obtain ⟨_, _, _, hc, _, hns⟩ := o2j_entries
  refine ⟨by rw [O2J.read_spec bs hwf]; exact hspec, ?_, ?_⟩
  · have := Convert.one_per_source _ _ _ _ _ (Convert.table_shapes _ hc) hconv
    simpa [Convert.onePerSource, o2jSrc] using this
  · intro p hp info svs d hm hms hw
    have := convert_write_qua _ hc hns _ k out (o2jSrc_ok f) hconv _ (o2jSrc_zip f _ p hp) info svs d hm
      (by simpa [ofSrcMap_embA] using hms) hw
    simpa [ofSrcMap_embA] using this

/-! ## every source format into osu / Quaver, from the reader's output on (`_partial`: reader link as hypothesis) -/

/-- the in-memory set whose maps hold the abstract charts `as` -/
def srcOfAbstract (as : List AChart) (svs : Option (List (Rat × Rat))) (setAttrs mapAttrs : List (String × String))
    (lv : String) : Convert.Src :=
  ⟨setAttrs, as.map (fun a => embA a svs mapAttrs lv)⟩

/-- **any source → osu** (`_partial`: covers StepMania → osu — composed with the reader in `sm_to_osu_end_to_end_partial` —
but NOT `BMSToOsu.convert`, whose model reads the `sample` column that `embA`'s frames do not have, so its conversion of
`srcOfAbstract` fails and the statement is empty for it: BMS → osu is `bms_to_osu_objects_partial` over `embBMS`; where the readers' whole-file theorems — C02
`reader_notes_eq_spec` / `sm_times`, C04 `read_eq_denote` — are stated over their own chart types and the statement "the
in-memory set is the frames of the denotation's abstract charts `as`" is the hypothesis carried by `srcOfAbstract`):
for every converter entry without a shift parameter, whenever the converter model succeeds on that set, the file written
for chart `i` denotes the abstract chart `as[i]` — hits and holds within 1 ms, tempo timeline equal. -/
theorem from_abstract_to_osu_partial : ∀ c ∈ Generated.converters, c.shiftParam = none →
    ∀ (as : List AChart) (svs : Option (List (Rat × Rat))) (setAttrs mapAttrs : List (String × String)) (lv : String)
      (k : Int) (out : Convert.Out),
    Convert.convert Convert.tables c (srcOfAbstract as svs setAttrs mapAttrs lv) k = .ok out →
    ∀ p ∈ as.zip out.pairs, ∀ (R : Osu.Render) (md : Osu.Meta) (osvs : List Osu.Sv),
      OsuWritable R (osuOfT p.2.2 md osvs) →
      ∃ c', Osu.denoteText (Osu.writeText R (osuOfT p.2.2 md osvs)) = .ok c' ∧ CloseTo 0 .ms false 0 p.1 (ofOsu c') := by
  intro c hc hns as svs sa ma lv k out hconv p hp R md osvs hw
  have hsrc : ∀ m ∈ (srcOfAbstract as svs sa ma lv).maps, Convert.srcMapOk m = true := by
    intro m hm
    simp only [srcOfAbstract, List.mem_map] at hm
    obtain ⟨a, _, rfl⟩ := hm
    exact srcMapOk_embA _ _ _ _
  have hmem : (embA p.1 svs ma lv, p.2) ∈ (srcOfAbstract as svs sa ma lv).maps.zip out.pairs := by
    simp only [srcOfAbstract, List.zip_map_left]
    exact List.mem_map.mpr ⟨p, hp, rfl⟩
  have := convert_write_osu c hc hns _ k out hsrc hconv _ hmem R md osvs hw
  simpa [ofSrcMap_embA] using this

/-- **any source → Quaver** (`_partial` as above; tempo points of the chart on whole milliseconds) -/
theorem from_abstract_to_qua_partial : ∀ c ∈ Generated.converters, c.shiftParam = none →
    ∀ (as : List AChart) (svs : Option (List (Rat × Rat))) (setAttrs mapAttrs : List (String × String)) (lv : String)
      (k : Int) (out : Convert.Out),
    Convert.convert Convert.tables c (srcOfAbstract as svs setAttrs mapAttrs lv) k = .ok out →
    ∀ p ∈ as.zip out.pairs, ∀ (info : Qua.Rec) (qsvs : List Qua.Sv) (d : Qua.Doc),
      Qua.MetaOk info → TempoWholeMs p.1 → Qua.write (quaOfT p.2.2 info qsvs) = .ok d →
      ∃ c', Qua.Spec.denote d = .ok c' ∧ CloseTo 0 .ms false 0 p.1 (ofQua c') := by
  intro c hc hns as svs sa ma lv k out hconv p hp info qsvs d hm hms hw
  have hsrc : ∀ m ∈ (srcOfAbstract as svs sa ma lv).maps, Convert.srcMapOk m = true := by
    intro m hm
    simp only [srcOfAbstract, List.mem_map] at hm
    obtain ⟨a, _, rfl⟩ := hm
    exact srcMapOk_embA _ _ _ _
  have hmem : (embA p.1 svs ma lv, p.2) ∈ (srcOfAbstract as svs sa ma lv).maps.zip out.pairs := by
    simp only [srcOfAbstract, List.zip_map_left]
    exact List.mem_map.mpr ⟨p, hp, rfl⟩
  have := convert_write_qua c hc hns _ k out hsrc hconv _ hmem info qsvs d hm (by simpa [ofSrcMap_embA] using hms) hw
  simpa [ofSrcMap_embA] using this

/-! ## osu → StepMania (objects, exact regime) -/

def osuToSM : Convert.Conv := Convert.conv! "OsuToSM.convert"

theorem osuToSM_entry : osuToSM ∈ Generated.converters ∧ osuToSM.name = "OsuToSM.convert" ∧ osuToSM.shiftParam = none := by
  decide +kernel

/-- the in-memory `SMMap` whose list frames are `t`'s, as the writer model sees it: hits and holds of the frames (no
mines / rolls / lifts / fakes / key sounds: no converter produces them), the tempo rows, the given chart header -/
def smOfT (t : Convert.TChart) (ty desc diff : SM.Str) (dv : Int) (groove : List Rat) : SM.WChart :=
  { chartType := ty, description := desc, difficulty := diff, difficultyVal := dv, groove := groove
    bpms := (ofTChart t).bpms
    notes := (ofTChart t).hits.map (fun h => ⟨.hit, h.2.toNat, h.1, 0⟩) ++
             (ofTChart t).holds.map (fun h => ⟨.hold, h.2.1.toNat, h.1, h.2.2⟩) }

theorem filter_map_all {α β} (l : List α) (f : α → β) (p : β → Bool) (h : ∀ a, p (f a) = true) :
    (l.map f).filter p = l.map f := by
  induction l with
  | nil => rfl
  | cons a t ih => simp [List.filter_cons, h a, ih]

theorem filter_map_none {α β} (l : List α) (f : α → β) (p : β → Bool) (h : ∀ a, p (f a) = false) :
    (l.map f).filter p = [] := by
  induction l with
  | nil => rfl
  | cons a t ih => simp [List.filter_cons, h a, ih]

/-- columns of the abstract chart are not negative (true of every denoted chart; kept as a hypothesis) -/
def ColsNonneg (a : AChart) : Prop := (∀ h ∈ a.hits, 0 ≤ h.2) ∧ (∀ h ∈ a.holds, 0 ≤ h.2.1)

/-- a denoted StepMania chart whose timed notes are those of `smOfT t …` has, as abstract chart, the hits and holds of
`t`'s frames (as multisets) -/
theorem ofSMChart_objects (t : Convert.TChart) (ty desc diff : SM.Str) (dv : Int) (groove : List Rat)
    (offsetSec : Rat) (bpms : List (Rat × Rat)) (dc : SM.DChart) (hc : ColsNonneg (ofTChart t))
    (hp : (SM.timedNotes offsetSec bpms dc).Perm ((smOfT t ty desc diff dv groove).notes.map SM.timedOfW)) :
    (ofSMChart offsetSec bpms dc).hits.Perm (ofTChart t).hits ∧
    (ofSMChart offsetSec bpms dc).holds.Perm (ofTChart t).holds := by
  constructor
  · have h1 := (hp.filter (fun n => decide (n.kind = SM.Kind.hit))).map (fun n => (n.time, (n.col : Int)))
    refine h1.trans (List.Perm.of_eq ?_)
    simp only [smOfT, List.map_append, List.map_map, List.filter_append]
    rw [filter_map_all _ _ _ (fun a => by simp [SM.timedOfW, Function.comp]),
        filter_map_none _ _ _ (fun a => by simp [SM.timedOfW, Function.comp])]
    simp only [List.map_nil, List.append_nil, List.map_map]
    have : ∀ h ∈ (ofTChart t).hits, ((fun n : SM.TNote => (n.time, (n.col : Int))) ∘ (SM.timedOfW ∘ fun h : AHit => (⟨.hit, h.2.toNat, h.1, 0⟩ : SM.Note))) h = h := by
      intro h hh
      simp [Function.comp, SM.timedOfW, Int.toNat_of_nonneg (hc.1 h hh)]
    rw [List.map_congr_left this, List.map_id']
  · have h1 := (hp.filter (fun n => decide (n.kind = SM.Kind.hold))).map (fun n => (n.time, (n.col : Int), n.length))
    refine h1.trans (List.Perm.of_eq ?_)
    simp only [smOfT, List.map_append, List.map_map, List.filter_append]
    rw [filter_map_none _ _ _ (fun a => by simp [SM.timedOfW, Function.comp]),
        filter_map_all _ _ _ (fun a => by simp [SM.timedOfW, Function.comp])]
    simp only [List.map_nil, List.nil_append, List.map_map]
    have : ∀ h ∈ (ofTChart t).holds, ((fun n : SM.TNote => (n.time, (n.col : Int), n.length)) ∘ (SM.timedOfW ∘ fun h : AHold => (⟨.hold, h.2.1.toNat, h.1, h.2.2⟩ : SM.Note))) h = h := by
      intro h hh
      simp [Function.comp, SM.timedOfW, Int.toNat_of_nonneg (hc.2 h hh)]
    rw [List.map_congr_left this, List.map_id']

theorem closeHit_exact_refl (res : Res) (src : AChart) (a : AHit) (f g : Rat) (hres : res = .beat f g) :
    closeHit 0 res true 0 src a a = true := by
  subst hres
  have hz : slack 0 a.1 a.1 = 0 := by unfold slack; rw [Rat.zero_mul, Rat.add_zero]
  have h0 : rabs (a.1 - a.1) = 0 := by unfold rabs; rw [Rat.sub_self]; simp
  have r0 : rabs (0 : Rat) ≤ 0 := by decide +kernel
  simp [closeHit, closeTime, eqUpTo, hz, h0, r0]

theorem closeHold_exact_refl (src : AChart) (a : AHold) (f g : Rat) :
    closeHold 0 (.beat f g) true 0 src a a = true := by
  have hz : ∀ x : Rat, slack 0 x x = 0 := by intro x; unfold slack; rw [Rat.zero_mul, Rat.add_zero]
  have h0 : ∀ x : Rat, rabs (x - x) = 0 := by intro x; unfold rabs; rw [Rat.sub_self]; simp
  have r0 : rabs (0 : Rat) ≤ 0 := by decide +kernel
  simp [closeHold, closeTime, eqUpTo, hz, h0, r0]

theorem paired_of_perm_exact {α} (R : α → α → Prop) (hR : ∀ a, R a a) (as bs : List α) (h : bs.Perm as) : Paired R as bs :=
  ⟨as, as, List.Perm.refl _, h.symm, zipped_refl R hR as⟩

/-- **osu → StepMania, objects, exact regime** (`_partial`): let an osu text of the dialect denote `c0` (key count ≥ 1,
columns not negative).  Then the reader returns `c0` (C01); whenever the converter model's `OsuToSM.convert` succeeds on
the frames of `c0`, every converted chart `t` holds exactly `c0`'s abstract chart; and whenever a `.sm` file `items`
whose only `#NOTES` value is the note data `SMMap.write` emits for the chart held by `t`'s frames satisfies the hypotheses
of C03 `write_read_exact` (C10's domain for the tempo list `cs` with `−1000·#OFFSET = t0`, objects on the snap grid,
`EventsOK`, non-overlapping holds: `C03.ChartWritten`), the StepMania denotation of that file exists, has one chart, and
its hits and holds are EXACTLY those of the source file (`ObjectsClose` in the exact regime: same column, same time).
`_partial` because: (1) the tempo timeline of the written file is not compared here (C03 carries `changesOf bpms = cs`
as a hypothesis); (2) that the text `SMMapSet.write` produces is `renderItems items` is C03's open `render_items_partial`;
(3) the off-grid case (1/96 beat) has no writer theorem in C03.  That `#OFFSET` is the first tempo point — which
`C03.ChartWritten`'s `toTimingMap c.bpms = tmOf t0 cs` together with `−1000·offsetSec = t0` demands — is what
`sm_offset_rules` + `offset_established_first` establish for this converter (D14). -/
theorem osu_to_sm_objects_partial (s : Osu.Skeleton) (hwf : s.WF) (lines : List Osu.Str)
    (hl : lines.map Osu.strip = s.lines) (c0 : Osu.Chart) (hden : Osu.denote lines = .ok c0)
    (hk : 1 ≤ Osu.pyTrunc c0.md.circleSize) (hcols : ColsNonneg (ofOsu c0))
    (k : Int) (out : Convert.Out)
    (hconv : Convert.convert Convert.tables osuToSM ⟨[], [embOsu c0]⟩ k = .ok out) :
    Osu.read lines = .ok c0 ∧
    ∀ p ∈ [embOsu c0].zip out.pairs, ofTChart p.2.2 = ofOsu c0 ∧
      ∀ (ty desc diff : SM.Str) (dv : Int) (groove : List Rat) (rows : List (List SM.Str))
        (params : SM.Str × SM.Str × SM.Str × SM.Str × SM.Str)
        (t0 : Rat) (cs : List Timing.BcSnap)
        (_ : Timing.wfChanges cs = true) (_ : Timing.sortedSnaps cs = true) (_ : Timing.firstAtZero cs = true)
        (_ : Timing.gridCompatible (Timing.grid Timing.defaultMaxDiv) cs = true) (_ : Timing.metronomeOk cs = true)
        (_ : ∀ c ∈ cs, c.met = 4)
        (items : List SM.Item) (_ : ∀ it ∈ items, SM.ItemOk it)
        (_ : C03.ChartWritten t0 cs (smOfT p.2.2 ty desc diff dv groove) rows)
        (_ : (SM.valuesOf items).filter (SM.tagIs SM.tagNotes) =
              [C03.notesValue (smOfT p.2.2 ty desc diff dv groove, rows, params)])
        (offT bpmT : SM.Str) (offsetSec : Rat) (bpms : List (Rat × Rat))
        (_ : SM.firstParam (SM.valuesOf items) SM.tagOffsetS = some offT) (_ : SM.parseFloat offT = .ok offsetSec)
        (_ : SM.firstParam (SM.valuesOf items) SM.tagBpmsS = some bpmT) (_ : SM.parsePairs bpmT = some bpms)
        (_ : -(1000 * offsetSec) = t0) (_ : SM.changesOf bpms = cs),
        ∃ d, SM.denote (SM.renderItems items) = some d ∧ d.offsetSec = some offsetSec ∧ d.bpms = some bpms ∧
          d.charts.length = 1 ∧
          ∀ (hd : 0 < d.charts.length),
            ObjectsClose 0 (.beat (1 / 96) (1 / 192)) true 0 (ofOsu c0) (ofSMChart offsetSec bpms d.charts[0]) := by
  obtain ⟨hc, _, hns⟩ := osuToSM_entry
  refine ⟨Osu.read_eq_denote s hwf lines hl c0 hden hk, ?_⟩
  intro p hp
  have hsrc : ∀ m ∈ (⟨[], [embOsu c0]⟩ : Convert.Src).maps, Convert.srcMapOk m = true := by
    intro m hm
    simp only [List.mem_singleton] at hm
    subst hm
    exact srcMapOk_embOsu c0
  have hp1 : p.1 = embOsu c0 := by
    have := (List.of_mem_zip hp).1
    simpa using this
  have habs : ofTChart p.2.2 = ofOsu c0 := by
    rw [convert_abstract_eq _ _ _ k out (Convert.table_static_ok _ hc) hns hsrc hconv p hp, hp1, ofSrcMap_embOsu]
  refine ⟨habs, ?_⟩
  intro ty desc diff dv groove rows params t0 cs h1 h2 h3 h4 h5 h6 items hok hcw hnotes offT bpmT offsetSec bpms
    hoffv hoff hbpmv hbpm ho hbp
  obtain ⟨d, hd, hdo, hdb, _, hlen, hall⟩ := C03.write_read_exact t0 cs h1 h2 h3 h4 h5 h6 items hok
    [(smOfT p.2.2 ty desc diff dv groove, rows, params)]
    (by intro x hx; simp only [List.mem_singleton] at hx; subst hx; exact hcw)
    (by simpa using hnotes) offT bpmT offsetSec bpms hoffv hoff hbpmv hbpm ho hbp
  refine ⟨d, hd, hdo, hdb, by simpa using hlen, ?_⟩
  intro hd0
  obtain ⟨_, _, hperm⟩ := hall 0 (by simp) hd0
  obtain ⟨hh, hl'⟩ := ofSMChart_objects p.2.2 ty desc diff dv groove offsetSec bpms d.charts[0]
    (habs ▸ hcols) (by simpa using hperm)
  rw [habs] at hh hl'
  exact ⟨paired_of_perm_exact _ (fun a => closeHit_exact_refl _ _ a _ _ rfl) _ _ hh,
         paired_of_perm_exact _ (fun a => closeHold_exact_refl _ a _ _) _ _ hl'⟩

/-! ## … → StepMania, file to file with the tempo timeline and `#OFFSET` (exact regime) -/

theorem tmTail_bpms' (T : Rat) (cur : BcSnap) (rest : List BcSnap) : (tmTail T cur rest).map (·.bpm) = rest.map (·.bpm) := by
  induction rest generalizing T cur with
  | nil => rfl
  | cons n r ih => simp [tmTail, ih]

theorem tmOf_bpms' (t0 : Rat) (cs : List BcSnap) : (tmOf t0 cs).map (·.bpm) = cs.map (·.bpm) := by
  cases cs with
  | nil => rfl
  | cons c rest => simp [tmOf, tmTail_bpms']

/-- **the written `#OFFSET` / `#BPMS` denote the chart's own tempo rows**: when the chart's tempo list `cb` is the
stored form of the tempo-change list `cs` from `t0` (`C03.ChartWritten`'s `toTimingMap c.bpms = tmOf t0 cs`) and the
written header denotes `t0` and `cs` (`−1000·#OFFSET = t0`, `changesOf #BPMS = cs`, pairs in beat order), then the tempo
points of the file's denotation — every `#BPMS` beat integrated over the `#BPMS` segments from `−1000·#OFFSET` — are
exactly the rows `(time, bpm)` of `cb`, in order. -/
theorem written_tempo_rows (t0 : Rat) (cs : List BcSnap) (hwf : wfChanges cs = true) (hs : sortedSnaps cs = true)
    (cb : List (Rat × Rat)) (hb : SM.toTimingMap cb = tmOf t0 cs)
    (offsetSec : Rat) (wb : List (Rat × Rat)) (ho : -(1000 * offsetSec) = t0) (hbp : SM.changesOf wb = cs)
    (hsorted : wb.Pairwise (fun x y => decide (x.1 ≤ y.1) = true)) (dc : SM.DChart) :
    (ofSMChart offsetSec wb dc).bpms = cb := by
  have hcs : cs = wb.map (fun p => (⟨p.2, 4, SM.snapOfBeat p.1⟩ : BcSnap)) := by
    rw [← hbp]; unfold SM.changesOf; rw [isort_eq_self _ hsorted]
  have h1 : cb.map (·.1) = changeTimes t0 cs := by
    rw [← stored_times_eq_changeTimes t0 cs hwf hs, ← hb]; simp [SM.toTimingMap]
  have h2 : cb.map (·.2) = cs.map (·.bpm) := by
    rw [← tmOf_bpms' t0 cs, ← hb]; simp [SM.toTimingMap]
  have key : ∀ L : List BcSnap, L = wb.map (fun p => (⟨p.2, 4, SM.snapOfBeat p.1⟩ : BcSnap)) →
      L.map (fun c => timeAt t0 cs c.snap) = wb.map (fun p => timeAt t0 cs (SM.snapOfBeat p.1)) ∧
      L.map (·.bpm) = wb.map (·.2) := by
    intro L hL
    subst hL
    simp [List.map_map, Function.comp]
  obtain ⟨k1, k2⟩ := key cs hcs
  rw [← zip_map_fst_snd cb, h1, h2]
  show (SM.tempoTimes offsetSec wb).zip (wb.map (·.2)) = _
  unfold SM.tempoTimes SM.timeOfBeat changeTimes
  rw [ho, hbp, k1, k2]

/-- non-vacuity: two tempo points on measure lines, `#OFFSET:-0.5` -/
example :
    let cs : List BcSnap := [⟨120, 4, ⟨0, 0, some 4⟩⟩, ⟨60, 4, ⟨2, 0, some 4⟩⟩]
    let wb : List (Rat × Rat) := [(0, 120), (8, 60)]
    wfChanges cs = true ∧ sortedSnaps cs = true ∧ SM.toTimingMap [(500, 120), (4500, 60)] = tmOf 500 cs ∧
    -(1000 * (-1/2 : Rat)) = 500 ∧ SM.changesOf wb = cs ∧ wb.Pairwise (fun x y => decide (x.1 ≤ y.1) = true) := by
  decide +kernel

theorem closeBpm_exact_refl (src : AChart) (a : ABpm) (f g : Rat) :
    closeBpm 0 (.beat f g) true src a a = true := by
  have hz : ∀ x : Rat, slack 0 x x = 0 := by intro x; unfold slack; rw [Rat.zero_mul, Rat.add_zero]
  have h0 : ∀ x : Rat, rabs (x - x) = 0 := by intro x; unfold rabs; rw [Rat.sub_self]; simp
  have r0 : rabs (0 : Rat) ≤ 0 := by decide +kernel
  simp [closeBpm, closeTime, eqUpTo, hz, r0]

/-- everything C03 `write_read_exact_show` asks of the one-chart set `[c]` written under the header `h`, plus what ties
the written header to the chart's tempo list: the header's offset is the time `t0` of the chart's first tempo point
(`C03.ChartWritten`'s `toTimingMap c.bpms = tmOf t0 cs` puts the first stored point at `t0`; that a converter assigns
exactly this is `sm_offset_rules` + `offset_established_*`, D14 / D42), the written `#BPMS` pairs denote `cs` and are in
beat order.  `sh` is Python's number rendering (parameter). -/
structure SMWritable (sh : SM.Shows) (t0 : Rat) (cs : List BcSnap) (h : SM.WHeader) (c : SM.WChart) (w : SM.Written) :
    Prop where
  hsh : SM.ShowsOK sh
  hsp : SM.ShowsParse sh
  hwf : wfChanges cs = true
  hs : sortedSnaps cs = true
  h0 : firstAtZero cs = true
  hgc : gridCompatible (grid defaultMaxDiv) cs = true
  hm : metronomeOk cs = true
  hM : ∀ c ∈ cs, c.met = 4
  hw : SM.write h [c] = .ok w
  hL : ∃ out, C03.ChartWritten t0 cs c out
  hstr : ∀ ta ∈ SM.stringTags, SM.CleanParam ((h.strs.lookup ta.2).getD [])
  hch : SM.CleanParam c.chartType ∧ SM.CleanParam c.description ∧ SM.CleanParam c.difficulty ∧
    '\n' ∉ c.chartType ∧ '\n' ∉ c.difficulty
  ho : h.offset = t0
  hbp : SM.changesOf w.bpms = cs
  hsorted : w.bpms.Pairwise (fun x y => decide (x.1 ≤ y.1) = true)

theorem write_offsetSec (h : SM.WHeader) (charts : List SM.WChart) (w : SM.Written) (hw : SM.write h charts = .ok w) :
    -(1000 * w.offsetSec) = h.offset := by
  unfold SM.write at hw
  cases charts with
  | nil => cases hw
  | cons c0 rest =>
    simp only [bind, Except.bind] at hw
    split at hw
    · cases hw
    · split at hw
      · cases hw
      · cases hw
        simp only [SM.secToMsec]
        ring

/-- **writer link into StepMania over `AChart`, exact regime** (C03 `write_read_exact_show` + `written_tempo_rows`):
the text `SMMapSet.write` returns for the chart held by the converted frames `t` has a by-the-book denotation with the
written `#OFFSET` (= −header offset / 1000) and `#BPMS`, exactly one chart, and that chart's hits, holds AND tempo points
are exactly those of `t`'s abstract chart. -/
theorem write_sm_close (sh : SM.Shows) (t0 : Rat) (cs : List BcSnap) (t : Convert.TChart) (a : AChart)
    (ha : ofTChart t = a) (hcols : ColsNonneg a) (h : SM.WHeader) (ty desc diff : SM.Str) (dv : Int)
    (groove : List Rat) (w : SM.Written) (H : SMWritable sh t0 cs h (smOfT t ty desc diff dv groove) w) :
    ∃ d, SM.denote (SM.renderWritten sh w) = some d ∧ d.offsetSec = some w.offsetSec ∧ d.bpms = some w.bpms ∧
      -(1000 * w.offsetSec) = h.offset ∧ d.chartsWellFormed = true ∧ d.charts.length = 1 ∧
      ∀ (hd : 0 < d.charts.length),
        CloseTo 0 (.beat (1 / 96) (1 / 192)) true 0 a (ofSMChart w.offsetSec w.bpms d.charts[0]) := by
  have hoff := write_offsetSec h _ w H.hw
  obtain ⟨d, hd, hdo, hdb, hdwf, hlen, hall⟩ := C03.write_read_exact_show sh H.hsh H.hsp t0 cs H.hwf H.hs H.h0 H.hgc
    H.hm H.hM h [smOfT t ty desc diff dv groove] w H.hw
    (by intro c hc; simp only [List.mem_singleton] at hc; subst hc; exact H.hL) H.hstr
    (by intro c hc; simp only [List.mem_singleton] at hc; subst hc; exact H.hch)
    (by rw [hoff]; exact H.ho) H.hbp
  refine ⟨d, hd, hdo, hdb, hoff, hdwf, by simpa using hlen, ?_⟩
  intro hd0
  obtain ⟨_, hperm⟩ := hall 0 (by simp) hd0
  obtain ⟨hh, hl'⟩ := ofSMChart_objects t ty desc diff dv groove w.offsetSec w.bpms d.charts[0]
    (ha ▸ hcols) (by simpa using hperm)
  obtain ⟨out, keys, _, _, _, hb, _⟩ := H.hL
  have hbp' : (ofSMChart w.offsetSec w.bpms d.charts[0]).bpms = a.bpms := by
    rw [written_tempo_rows t0 cs H.hwf H.hs _ hb w.offsetSec w.bpms (by rw [hoff]; exact H.ho) H.hbp H.hsorted]
    rw [← ha]; rfl
  rw [ha] at hh hl'
  refine ⟨paired_of_perm_exact _ (fun x => closeHit_exact_refl _ _ x _ _ rfl) _ _ hh,
          paired_of_perm_exact _ (fun x => closeHold_exact_refl _ x _ _) _ _ hl', ?_⟩
  rw [hbp']
  exact ⟨_, _, List.Perm.refl _, List.Perm.refl _, zipped_refl _ (fun x => closeBpm_exact_refl a x _ _) _⟩

/-- non-vacuity of the hypotheses on the chart side: the chart held by converted frames (two hits, a hold, two tempo points
on measure lines from 500 ms) has the stored tempo list of `cs` from `t0 = 500` = its first tempo point, a 4-key type,
nothing before `t0`, and the `#BPMS` pairs the writer emits for it (C15 `write_sm_perm`'s formula) are `0=120, 8=60` —
the pairs of the example above -/
example :
    let th : Convert.Frame := ⟨[0, 1], [("offset", [.num 500, .num 1000]), ("column", [.num 0, .num 3])]⟩
    let tl : Convert.Frame := ⟨[0], [("offset", [.num 1500]), ("column", [.num 1]), ("length", [.num 500])]⟩
    let fb : Convert.Frame := ⟨[0, 1], [("offset", [.num 500, .num 4500]), ("bpm", [.num 120, .num 60])]⟩
    let t : Convert.TChart := ⟨th, tl, fb, none, []⟩
    let c := smOfT t ['d','a','n','c','e','-','s','i','n','g','l','e'] [] [] 1 []
    let cs : List BcSnap := [⟨120, 4, ⟨0, 0, some 4⟩⟩, ⟨60, 4, ⟨2, 0, some 4⟩⟩]
    SM.toTimingMap c.bpms = tmOf 500 cs ∧ firstTempo (ofTChart t) = some 500 ∧
    c.notes = [⟨.hit, 0, 500, 0⟩, ⟨.hit, 3, 1000, 0⟩, ⟨.hold, 1, 1500, 500⟩] ∧
    SM.getKeys c.chartType = some 4 ∧
    (c.notes.all fun n => decide (500 ≤ n.time) && decide (0 ≤ n.length)) = true ∧
    (c.bpms.map (fun p => (SM.round6 (beatAt 500 cs p.1), p.2)) = [(0, 120), (8, 60)]) := by
  decide +kernel

/-- **convert, then write as StepMania — every converter entry without a shift parameter** (`_partial`: exact regime):
for every well-formed source and every (source map, converted chart) pair whose columns are not negative, the text
`SMMapSet.write` returns for the one-chart set held by the converted frames (`SMWritable`: C03's hypotheses — objects on
the snap grid — and the header tie) denotes EXACTLY the source map's abstract chart: hits, holds and tempo points. -/
theorem convert_write_sm_partial : ∀ c ∈ Generated.converters, c.shiftParam = none →
    ∀ (src : Convert.Src) (k : Int) (out : Convert.Out), (∀ m ∈ src.maps, Convert.srcMapOk m = true) →
    Convert.convert Convert.tables c src k = .ok out →
    ∀ p ∈ src.maps.zip out.pairs, ColsNonneg (ofSrcMap p.1) →
    ∀ (sh : SM.Shows) (t0 : Rat) (cs : List BcSnap) (h : SM.WHeader) (ty desc diff : SM.Str) (dv : Int)
      (groove : List Rat) (w : SM.Written), SMWritable sh t0 cs h (smOfT p.2.2 ty desc diff dv groove) w →
      ∃ d, SM.denote (SM.renderWritten sh w) = some d ∧ d.offsetSec = some w.offsetSec ∧ d.bpms = some w.bpms ∧
        -(1000 * w.offsetSec) = h.offset ∧ d.chartsWellFormed = true ∧ d.charts.length = 1 ∧
        ∀ (hd : 0 < d.charts.length),
          CloseTo 0 (.beat (1 / 96) (1 / 192)) true 0 (ofSrcMap p.1) (ofSMChart w.offsetSec w.bpms d.charts[0]) := by
  intro c hc hns src k out hsrc hconv p hp hcols sh t0 cs h ty desc diff dv groove w H
  exact write_sm_close sh t0 cs _ _
    (convert_abstract_eq _ c src k out (Convert.table_static_ok c hc) hns hsrc hconv p hp) hcols h ty desc diff dv groove w H

def quaToSM : Convert.Conv := Convert.conv! "QuaToSM.convert"

theorem quaToSM_entry : quaToSM ∈ Generated.converters ∧ quaToSM.name = "QuaToSM.convert" ∧ quaToSM.shiftParam = none := by
  decide +kernel

/-- **osu → StepMania, end to end, exact regime** (`_partial`; osu text to the text `SMMapSet.write` returns; reader C01,
converter C08, writer C03 `write_read_exact_show`): let an osu text of the dialect denote `c0` (key count ≥ 1, columns
not negative).  Then the reader returns `c0`; whenever the converter model's `OsuToSM.convert` succeeds on the frames of
`c0`, for every converted chart `t` and every header `h`, chart header, renderer `sh` and written structure `w` with
`SMWritable` (C03's hypotheses on the chart held by `t`'s frames — C10's domain for the tempo list `cs` from `t0`, every
object on the snap grid, `EventsOK`, non-overlapping holds, clean header strings, the per-number renderer assumption —
plus: `h.offset = t0`, i.e. the set's offset is the chart's first tempo point, which is what `sm_offset_rules` +
`offset_established_first` establish for this converter since D14; the written `#BPMS` denote `cs`, in beat order):
the text `renderWritten sh w` has a StepMania denotation `d` with `#OFFSET` = −`h.offset`/1000, the written `#BPMS`, one
well-formed chart, and `CloseTo 0 (beat 1/96 1/192) exact 0 (ofOsu c0) (ofSMChart #OFFSET #BPMS d.charts[0])`: the hits,
the holds AND the normalised tempo timeline (times included) of the SOURCE FILE are exactly those of the WRITTEN FILE.
`_partial` because the off-grid regime (`exact = false`, 1/96 beat + 1/192 beat per tempo change) has no writer theorem
in C03; the full statement is the one in the file header with `exact = gridExact a`. -/
theorem osu_to_sm_end_to_end_partial (s : Osu.Skeleton) (hwf : s.WF) (lines : List Osu.Str)
    (hl : lines.map Osu.strip = s.lines) (c0 : Osu.Chart) (hden : Osu.denote lines = .ok c0)
    (hk : 1 ≤ Osu.pyTrunc c0.md.circleSize) (hcols : ColsNonneg (ofOsu c0))
    (k : Int) (out : Convert.Out)
    (hconv : Convert.convert Convert.tables osuToSM ⟨[], [embOsu c0]⟩ k = .ok out) :
    Osu.read lines = .ok c0 ∧
    ∀ p ∈ [embOsu c0].zip out.pairs,
      ∀ (sh : SM.Shows) (t0 : Rat) (cs : List BcSnap) (h : SM.WHeader) (ty desc diff : SM.Str) (dv : Int)
        (groove : List Rat) (w : SM.Written), SMWritable sh t0 cs h (smOfT p.2.2 ty desc diff dv groove) w →
        ∃ d, SM.denote (SM.renderWritten sh w) = some d ∧ d.offsetSec = some w.offsetSec ∧ d.bpms = some w.bpms ∧
          -(1000 * w.offsetSec) = h.offset ∧ d.chartsWellFormed = true ∧ d.charts.length = 1 ∧
          ∀ (hd : 0 < d.charts.length),
            CloseTo 0 (.beat (1 / 96) (1 / 192)) true 0 (ofOsu c0) (ofSMChart w.offsetSec w.bpms d.charts[0]) := by
  obtain ⟨hc, _, hns⟩ := osuToSM_entry
  refine ⟨Osu.read_eq_denote s hwf lines hl c0 hden hk, ?_⟩
  intro p hp sh t0 cs h ty desc diff dv groove w H
  have hsrc : ∀ m ∈ (⟨[], [embOsu c0]⟩ : Convert.Src).maps, Convert.srcMapOk m = true := by
    intro m hm
    simp only [List.mem_singleton] at hm
    subst hm
    exact srcMapOk_embOsu c0
  have hp1 : p.1 = embOsu c0 := by
    have := (List.of_mem_zip hp).1
    simpa using this
  have := convert_write_sm_partial _ hc hns _ k out hsrc hconv p hp (by rw [hp1, ofSrcMap_embOsu]; exact hcols)
    sh t0 cs h ty desc diff dv groove w H
  rw [hp1, ofSrcMap_embOsu] at this
  exact this

/-- **Quaver → StepMania, end to end, exact regime** (`_partial` as `osu_to_sm_end_to_end_partial`; reader C06
`qua_read_defaults`; the offset rule of `QuaToSM` is the first tempo point since D42). -/
theorem qua_to_sm_end_to_end_partial (d0 : Qua.Doc) (hdecl : Qua.Spec.objsDeclared d0 = true) (c0 : Qua.Chart)
    (hden : Qua.Spec.denote d0 = .ok c0) (hcols : ColsNonneg (ofQua c0)) (k : Int) (out : Convert.Out)
    (hconv : Convert.convert Convert.tables quaToSM ⟨[], [embQua c0]⟩ k = .ok out) :
    Qua.read d0 = .ok c0 ∧
    ∀ p ∈ [embQua c0].zip out.pairs,
      ∀ (sh : SM.Shows) (t0 : Rat) (cs : List BcSnap) (h : SM.WHeader) (ty desc diff : SM.Str) (dv : Int)
        (groove : List Rat) (w : SM.Written), SMWritable sh t0 cs h (smOfT p.2.2 ty desc diff dv groove) w →
        ∃ d, SM.denote (SM.renderWritten sh w) = some d ∧ d.offsetSec = some w.offsetSec ∧ d.bpms = some w.bpms ∧
          -(1000 * w.offsetSec) = h.offset ∧ d.chartsWellFormed = true ∧ d.charts.length = 1 ∧
          ∀ (hd : 0 < d.charts.length),
            CloseTo 0 (.beat (1 / 96) (1 / 192)) true 0 (ofQua c0) (ofSMChart w.offsetSec w.bpms d.charts[0]) := by
  obtain ⟨hc, _, hns⟩ := quaToSM_entry
  refine ⟨by rw [Qua.qua_read_defaults d0 hdecl]; exact hden, ?_⟩
  intro p hp sh t0 cs h ty desc diff dv groove w H
  have hsrc : ∀ m ∈ (⟨[], [embQua c0]⟩ : Convert.Src).maps, Convert.srcMapOk m = true := by
    intro m hm
    simp only [List.mem_singleton] at hm
    subst hm
    exact srcMapOk_embQua c0
  have hp1 : p.1 = embQua c0 := by
    have := (List.of_mem_zip hp).1
    simpa using this
  have := convert_write_sm_partial _ hc hns _ k out hsrc hconv p hp (by rw [hp1, ofSrcMap_embQua]; exact hcols)
    sh t0 cs h ty desc diff dv groove w H
  rw [hp1, ofSrcMap_embQua] at this
  exact this

/-- **any source → StepMania** (`_partial`: exact regime, and the reader link "the in-memory set is the frames of the
abstract charts `as`" is the hypothesis carried by `srcOfAbstract`; covers BMS → StepMania, and O2Jam → StepMania
together with `o2j_first_tempo_at_zero` for the rule `0.0`) -/
theorem from_abstract_to_sm_partial : ∀ c ∈ Generated.converters, c.shiftParam = none →
    ∀ (as : List AChart) (svs : Option (List (Rat × Rat))) (setAttrs mapAttrs : List (String × String)) (lv : String)
      (k : Int) (out : Convert.Out),
    Convert.convert Convert.tables c (srcOfAbstract as svs setAttrs mapAttrs lv) k = .ok out →
    ∀ p ∈ as.zip out.pairs, ColsNonneg p.1 →
    ∀ (sh : SM.Shows) (t0 : Rat) (cs : List BcSnap) (h : SM.WHeader) (ty desc diff : SM.Str) (dv : Int)
      (groove : List Rat) (w : SM.Written), SMWritable sh t0 cs h (smOfT p.2.2 ty desc diff dv groove) w →
      ∃ d, SM.denote (SM.renderWritten sh w) = some d ∧ d.offsetSec = some w.offsetSec ∧ d.bpms = some w.bpms ∧
        -(1000 * w.offsetSec) = h.offset ∧ d.chartsWellFormed = true ∧ d.charts.length = 1 ∧
        ∀ (hd : 0 < d.charts.length),
          CloseTo 0 (.beat (1 / 96) (1 / 192)) true 0 p.1 (ofSMChart w.offsetSec w.bpms d.charts[0]) := by
  intro c hc hns as svs sa ma lv k out hconv p hp hcols sh t0 cs h ty desc diff dv groove w H
  have hsrc : ∀ m ∈ (srcOfAbstract as svs sa ma lv).maps, Convert.srcMapOk m = true := by
    intro m hm
    simp only [srcOfAbstract, List.mem_map] at hm
    obtain ⟨a, _, rfl⟩ := hm
    exact srcMapOk_embA _ _ _ _
  have hmem : (embA p.1 svs ma lv, p.2) ∈ (srcOfAbstract as svs sa ma lv).maps.zip out.pairs := by
    simp only [srcOfAbstract, List.zip_map_left]
    exact List.mem_map.mpr ⟨p, hp, rfl⟩
  have := convert_write_sm_partial c hc hns _ k out hsrc hconv _ hmem (by simpa [ofSrcMap_embA] using hcols)
    sh t0 cs h ty desc diff dv groove w H
  simpa [ofSrcMap_embA] using this

/-! ## StepMania → osu / Quaver: note data to written file (reader C02, converter C08, writer C01 / C06) -/

def smToOsu : Convert.Conv := Convert.conv! "SMToOsu.convert"
def smToQua : Convert.Conv := Convert.conv! "SMToQua.convert"

theorem sm_entries : smToOsu ∈ Generated.converters ∧ smToOsu.name = "SMToOsu.convert" ∧ smToOsu.shiftParam = none ∧
    smToQua ∈ Generated.converters ∧ smToQua.name = "SMToQua.convert" ∧ smToQua.shiftParam = none := by
  decide +kernel

/-- at millisecond resolution the statement does not look at the source chart except through its rows: a source with
the same hits and holds (as multisets) and the same tempo rows is carried by the same target -/
theorem closeTo_ms_of_perm (a a' tgt : AChart) (hh : a.hits.Perm a'.hits) (hl : a.holds.Perm a'.holds)
    (hb : a.bpms = a'.bpms) (h : CloseTo 0 .ms false 0 a tgt) : CloseTo 0 .ms false 0 a' tgt := by
  obtain ⟨h1, h2, h3⟩ := h
  refine ⟨paired_of_perm_left _ _ _ _ hh h1, paired_of_perm_left _ _ _ _ hl h2, ?_⟩
  rw [← hb]
  exact h3

/-- the domain of C02's chart-level reader theorems for one `#NOTES` value with the file's `#OFFSET` / `#BPMS`: C10's
hypotheses on the tempo-change list `cs` from `t0`, every change on a measure line (`hline`: mid-measure changes are
re-seated by the reader, C11 — the in-memory tempo values then differ from the file's by design), the header values
`offsetSec`, `b` (pairs in beat order) denoting `t0` and `cs`; the reader's splitter and the specification's scanner see
the same measures `ms` (C02 `measuresOf_eq_scanRows` proves it for writer-shaped data; open finding D32 is where they
differ), rows a multiple of 4 per measure, rows no longer than `MAX_KEYS`, well-bracketed columns. -/
structure SMChartDom (data : SM.Str) (t0 : Rat) (cs : List BcSnap) (offsetSec : Rat) (b : List (Rat × Rat))
    (ms : List (List SM.Str)) : Prop where
  hwf : wfChanges cs = true
  hs : sortedSnaps cs = true
  h0 : firstAtZero cs = true
  hgc : gridCompatible (grid defaultMaxDiv) cs = true
  hm : metronomeOk cs = true
  hline : ∀ c ∈ cs, c.snap.beat = 0
  ho : -(1000 * offsetSec) = t0
  hb : SM.changesOf b = cs
  hsorted : b.Pairwise (fun x y => decide (x.1 ≤ y.1) = true)
  hms : SM.measuresOf data = ms
  hsc : SM.scanRows data = ms
  h4 : ∀ rows ∈ ms, 4 ∣ rows.length
  hcol : ∀ e ∈ SM.eventsOf ms, e.col < SM.maxKeys
  hok : (SM.pairAll (SM.events ms)).ok = true
  hclosed : (SM.pairAll (SM.events ms)).opened = []

/-- non-vacuity: the sample note data of `Lemmas/PipelineSMRead.lean` (four taps and a hold over two measures) at
`#OFFSET:-0.5`, `#BPMS:0=120` -/
example : SMChartDom sampleData 500 [⟨120, 4, ⟨0, 0, some 4⟩⟩] (-1 / 2) [(0, 120)] (SM.measuresOf sampleData) := by
  refine ⟨by decide +kernel, by decide +kernel, by decide +kernel, by decide +kernel, by decide +kernel, by decide +kernel,
    by decide +kernel, by decide +kernel, by decide +kernel, rfl, by decide +kernel, by decide +kernel, by decide +kernel,
    by decide +kernel, by decide +kernel⟩

/-- **StepMania → osu, end to end** (`_partial`; one `#NOTES` value with the file's `#OFFSET` / `#BPMS` to the written
.osu text; reader C02 `sm_times` + `reader_notes_eq_spec` + `tempo_list_keeps_times_partial` assembled in
`sm_read_abstract`, converter C08, writer C01): inside `SMChartDom`, whenever `SMMap._read_notes` (any permutation
`np.argsort` may return) gives the tempo list `rb` and the notes `notes`, then
1. reader = denotation: the in-memory chart's hits and holds are — as multisets — those of the by-the-book denotation of
   the `#NOTES` value (`denoteChart ps`, times by integrating the `#BPMS` segments from `−1000·#OFFSET`), and its tempo
   list is the denotation's `(time, bpm)` list;
2. whenever the converter model's `SMToOsu.convert` succeeds on the set holding that chart's rows, every converted chart
   `t` whose osu chart is `OsuWritable` is written to a text with a by-the-book denotation `c'` and
   `CloseTo 0 ms false 0 (ofSMChart #OFFSET #BPMS (denoteChart ps)) (ofOsu c')`: hits and holds of the SOURCE's denotation
   within 1 ms of the WRITTEN FILE's, tempo timelines equal.
`_partial` because (1) the file-level lexing (the `;` / `:` tokeniser of `SMMapSet.read` — C02 `read_charts_each`,
`chart_own_header` — against the MSD scanner of `SM.denote`) is not composed: the statement starts at the `#NOTES` value and
the parsed header values; (2) tempo changes on measure lines only.  Glue by definition: `srcOfAbstract` / `embA` (the
in-memory `SMMap` as the list frames of its hit, hold and tempo rows — mines, rolls, lifts, fakes, key sounds are not
read by any converter: C08), `osuOfT`. -/
theorem sm_to_osu_end_to_end_partial (σf : List Snap → List Nat) (hσ : ∀ qs, SortsAsc (σf qs) qs)
    (data : SM.Str) (t0 : Rat) (cs : List BcSnap) (offsetSec : Rat) (b : List (Rat × Rat)) (ms : List (List SM.Str))
    (D : SMChartDom data t0 cs offsetSec b ms) (ss : Bool) (rb : List (Rat × Rat)) (notes : List SM.Note)
    (h : SM.readNotesWith σf data (some t0) (some cs) ss = .ok (rb, notes))
    (ps : List SM.Str) (hps : ps.getD 5 [] = data)
    (svs : Option (List (Rat × Rat))) (setAttrs mapAttrs : List (String × String)) (lv : String) (k : Int)
    (out : Convert.Out)
    (hconv : Convert.convert Convert.tables smToOsu (srcOfAbstract [ofSMRead rb notes] svs setAttrs mapAttrs lv) k = .ok out) :
    ((ofSMRead rb notes).hits.Perm (ofSMChart offsetSec b (SM.denoteChart ps)).hits ∧
     (ofSMRead rb notes).holds.Perm (ofSMChart offsetSec b (SM.denoteChart ps)).holds ∧
     (ofSMRead rb notes).bpms = (ofSMChart offsetSec b (SM.denoteChart ps)).bpms) ∧
    ∀ p ∈ [ofSMRead rb notes].zip out.pairs, ∀ (R : Osu.Render) (md : Osu.Meta) (osvs : List Osu.Sv),
      OsuWritable R (osuOfT p.2.2 md osvs) →
      ∃ c', Osu.denoteText (Osu.writeText R (osuOfT p.2.2 md osvs)) = .ok c' ∧
        CloseTo 0 .ms false 0 (ofSMChart offsetSec b (SM.denoteChart ps)) (ofOsu c') := by
  have hr := sm_read_abstract σf hσ data t0 cs ss D.hwf D.hs D.h0 D.hgc D.hm D.hline offsetSec b D.ho D.hb D.hsorted ms
    D.hms D.hsc D.h4 D.hcol D.hok D.hclosed rb notes h ps hps
  refine ⟨hr, ?_⟩
  intro p hp R md osvs hw
  obtain ⟨hc, _, hns, _, _, _⟩ := sm_entries
  obtain ⟨c', hc', hclose⟩ := from_abstract_to_osu_partial _ hc hns _ svs setAttrs mapAttrs lv k out hconv p hp R md osvs hw
  have hp1 : p.1 = ofSMRead rb notes := by
    have := (List.of_mem_zip hp).1
    simpa using this
  rw [hp1] at hclose
  exact ⟨c', hc', closeTo_ms_of_perm _ _ _ hr.1 hr.2.1 hr.2.2 hclose⟩

/-- **StepMania → Quaver, end to end** (`_partial` as `sm_to_osu_end_to_end_partial`; writer C06; additionally the tempo
points of the source lie on whole milliseconds, the metadata record is `MetaOk`, the writer model accepts) -/
theorem sm_to_qua_end_to_end_partial (σf : List Snap → List Nat) (hσ : ∀ qs, SortsAsc (σf qs) qs)
    (data : SM.Str) (t0 : Rat) (cs : List BcSnap) (offsetSec : Rat) (b : List (Rat × Rat)) (ms : List (List SM.Str))
    (D : SMChartDom data t0 cs offsetSec b ms) (ss : Bool) (rb : List (Rat × Rat)) (notes : List SM.Note)
    (h : SM.readNotesWith σf data (some t0) (some cs) ss = .ok (rb, notes))
    (ps : List SM.Str) (hps : ps.getD 5 [] = data)
    (svs : Option (List (Rat × Rat))) (setAttrs mapAttrs : List (String × String)) (lv : String) (k : Int)
    (out : Convert.Out)
    (hconv : Convert.convert Convert.tables smToQua (srcOfAbstract [ofSMRead rb notes] svs setAttrs mapAttrs lv) k = .ok out) :
    ((ofSMRead rb notes).hits.Perm (ofSMChart offsetSec b (SM.denoteChart ps)).hits ∧
     (ofSMRead rb notes).holds.Perm (ofSMChart offsetSec b (SM.denoteChart ps)).holds ∧
     (ofSMRead rb notes).bpms = (ofSMChart offsetSec b (SM.denoteChart ps)).bpms) ∧
    ∀ p ∈ [ofSMRead rb notes].zip out.pairs, ∀ (info : Qua.Rec) (qsvs : List Qua.Sv) (d : Qua.Doc),
      Qua.MetaOk info → TempoWholeMs (ofSMChart offsetSec b (SM.denoteChart ps)) →
      Qua.write (quaOfT p.2.2 info qsvs) = .ok d →
      ∃ c', Qua.Spec.denote d = .ok c' ∧
        CloseTo 0 .ms false 0 (ofSMChart offsetSec b (SM.denoteChart ps)) (ofQua c') := by
  have hr := sm_read_abstract σf hσ data t0 cs ss D.hwf D.hs D.h0 D.hgc D.hm D.hline offsetSec b D.ho D.hb D.hsorted ms
    D.hms D.hsc D.h4 D.hcol D.hok D.hclosed rb notes h ps hps
  refine ⟨hr, ?_⟩
  intro p hp info qsvs d hm hms hw
  obtain ⟨_, _, _, hc, _, hns⟩ := sm_entries
  have hp1 : p.1 = ofSMRead rb notes := by
    have := (List.of_mem_zip hp).1
    simpa using this
  have hms' : TempoWholeMs p.1 := by
    rw [hp1]
    intro x hx
    exact hms x (hr.2.2 ▸ hx)
  obtain ⟨c', hc', hclose⟩ := from_abstract_to_qua_partial _ hc hns _ svs setAttrs mapAttrs lv k out hconv p hp info qsvs d
    hm hms' hw
  rw [hp1] at hclose
  exact ⟨c', hc', closeTo_ms_of_perm _ _ _ hr.1 hr.2.1 hr.2.2 hclose⟩

/-- non-vacuity of the converter hypothesis: on the frames of the sample chart both converter models succeed and return
one chart holding the chart's rows -/
example :
    let a : AChart := ⟨[(500, 0), (1000, 1), (1500, 2), (2000, 3)], [(2500, 0, 1000)], [(500, 120)]⟩
    let sa : List (String × String) := [("background", "b"), ("title", "t"), ("title_translit", "t"), ("artist", "a"),
      ("artist_translit", "a"), ("music", "m"), ("credit", "c"), ("sample_start", "0")]
    let ma : List (String × String) := [("difficulty", "Hard"), ("chart_type", "dance-single"), ("difficulty_val", "1")]
    (match Convert.convert Convert.tables smToOsu (srcOfAbstract [a] none sa ma "<d>") 0 with
     | .ok out => out.charts.map ofTChart == [a]
     | .error _ => false) = true ∧
    (match Convert.convert Convert.tables smToQua (srcOfAbstract [a] none sa ma "<d>") 0 with
     | .ok out => out.charts.map ofTChart == [a]
     | .error _ => false) = true := by decide +kernel

/-! ## BMS → osu / Quaver: file lines to written file, objects (reader C04 `read_eq_denote`, converter C08, writer C01 / C06) -/

def bmsToOsu : Convert.Conv := Convert.conv! "BMSToOsu.convert"
def bmsToQua : Convert.Conv := Convert.conv! "BMSToQua.convert"

theorem bms_entries : bmsToOsu ∈ Generated.converters ∧ bmsToOsu.name = "BMSToOsu.convert" ∧ bmsToOsu.shiftParam = none ∧
    bmsToQua ∈ Generated.converters ∧ bmsToQua.name = "BMSToQua.convert" ∧ bmsToQua.shiftParam = none := by
  decide +kernel

/-- **BMS reader = denotation on the abstract chart** (objects; from C04 `read_eq_denote`): whatever chart `read`
returns holds, as multisets, exactly the hits and holds of the by-the-book denotation (stated over the shared lexer
`denote`; C04 `denoteText_eq_denote` relates it to the specification's own text layer). -/
theorem bms_read_abstract (lay : BMS.Layout) (hlay : BMS.LayoutOK lay) (lines : List BMS.Bytes) (d : BMS.Denotation)
    (hden : BMS.denote lay lines = some d)
    (hord : ∀ doc, BMS.parseDoc lines = .ok doc → BMS.LanesInOrder lay doc.notes)
    (hgc : gridCompatible (grid defaultMaxDiv) d.tempo = true) (c : BMS.Chart)
    (hr : BMS.read defaultGrid lay lines = .ok c) :
    (ofBMSRead c).hits.Perm (ofBMS d).hits ∧ (ofBMSRead c).holds.Perm (ofBMS d).holds := by
  obtain ⟨c', hc', hh, hl, _⟩ := BMS.read_eq_denote_shared lay hlay lines d hden hord hgc
  rw [hr] at hc'
  cases hc'
  constructor
  · have := hh.map (fun h : BMS.DHit => (h.offset, (h.col : Int)))
    rw [List.map_map] at this
    simp only [ofBMSRead, ofBMS]
    exact this
  · have := hl.map (fun h : BMS.DHold => (h.offset, (h.col : Int), h.length))
    rw [List.map_map] at this
    simp only [ofBMSRead, ofBMS]
    exact this

theorem objectsClose_ms_of_perm (a a' tgt : AChart) (hh : a.hits.Perm a'.hits) (hl : a.holds.Perm a'.holds)
    (h : CloseTo 0 .ms false 0 a tgt) : ObjectsClose 0 .ms false 0 a' tgt :=
  ⟨paired_of_perm_left _ _ _ _ hh h.1, paired_of_perm_left _ _ _ _ hl h.2.1⟩

/-- **BMS → osu, end to end, objects** (`_partial`; lines of the .bms to the written .osu text): for every injective
layout (`LayoutOK`; the five generated layouts: C04 `layouts_ok`) and every text with a by-the-book meaning `d` whose lanes
are in position order (¬D05) and whose tempo list is grid-compatible (¬D22), whenever the reader returns a chart `c`:
1. `c` holds exactly `d`'s hits and holds (C04 `read_eq_denote`);
2. whenever the converter model's `BMSToOsu.convert` succeeds on the set holding `c`'s rows, for every converted chart
   whose osu chart is `OsuWritable` the written text has a by-the-book denotation `c'` with the hits and holds of the
   SOURCE's denotation `d` within 1 ms (`ObjectsClose … (ofBMS d) (ofOsu c')`), and the whole in-memory chart — its
   stored tempo list included — carried (`CloseTo … (ofBMSRead c) (ofOsu c')`, tempo timelines equal).
`_partial` because the tempo timeline is compared with the reader's stored list, not with `d.tempo`: `read` re-seats the
tempo changes (`tm.reseat()`, C11 `reseat_spec`: times and tempos kept, at most one inserted point per interval, which
repeats the tempo in force), and that the *normalised* timelines of `c.bpms` and `d.tempo` coincide is not composed here.
Glue by definition: `embBMS` (the in-memory `BMSMap` as its list frames: key columns + the `sample` column the
converter reads, codec `dec` a parameter), `osuOfT`. -/
theorem bms_to_osu_objects_partial (lay : BMS.Layout) (hlay : BMS.LayoutOK lay) (lines : List BMS.Bytes)
    (d : BMS.Denotation) (hden : BMS.denote lay lines = some d)
    (hord : ∀ doc, BMS.parseDoc lines = .ok doc → BMS.LanesInOrder lay doc.notes)
    (hgc : gridCompatible (grid defaultMaxDiv) d.tempo = true) (c : BMS.Chart)
    (hr : BMS.read defaultGrid lay lines = .ok c)
    (dec : BMS.Bytes → String) (setAttrs mapAttrs : List (String × String)) (lv : String) (k : Int)
    (out : Convert.Out)
    (hconv : Convert.convert Convert.tables bmsToOsu ⟨setAttrs, [embBMS dec c mapAttrs lv]⟩ k = .ok out) :
    ((ofBMSRead c).hits.Perm (ofBMS d).hits ∧ (ofBMSRead c).holds.Perm (ofBMS d).holds) ∧
    ∀ p ∈ [embBMS dec c mapAttrs lv].zip out.pairs, ∀ (R : Osu.Render) (md : Osu.Meta) (osvs : List Osu.Sv),
      OsuWritable R (osuOfT p.2.2 md osvs) →
      ∃ c', Osu.denoteText (Osu.writeText R (osuOfT p.2.2 md osvs)) = .ok c' ∧
        ObjectsClose 0 .ms false 0 (ofBMS d) (ofOsu c') ∧ CloseTo 0 .ms false 0 (ofBMSRead c) (ofOsu c') := by
  have hra := bms_read_abstract lay hlay lines d hden hord hgc c hr
  refine ⟨hra, ?_⟩
  intro p hp R md osvs hw
  obtain ⟨hc, _, hns, _, _, _⟩ := bms_entries
  have hsrc : ∀ m ∈ (⟨setAttrs, [embBMS dec c mapAttrs lv]⟩ : Convert.Src).maps, Convert.srcMapOk m = true := by
    intro m hm
    simp only [List.mem_singleton] at hm
    subst hm
    exact srcMapOk_embBMS dec c mapAttrs lv
  obtain ⟨c', hc', hclose⟩ := convert_write_osu _ hc hns _ k out hsrc hconv p hp R md osvs hw
  have hp1 : p.1 = embBMS dec c mapAttrs lv := by
    have := (List.of_mem_zip hp).1
    simpa using this
  rw [hp1, ofSrcMap_embBMS] at hclose
  exact ⟨c', hc', objectsClose_ms_of_perm _ _ _ hra.1 hra.2 hclose, hclose⟩

/-- **BMS → Quaver, end to end, objects** (`_partial` as `bms_to_osu_objects_partial`; writer C06: the stored tempo points
on whole milliseconds, `MetaOk`, the writer model accepts) -/
theorem bms_to_qua_objects_partial (lay : BMS.Layout) (hlay : BMS.LayoutOK lay) (lines : List BMS.Bytes)
    (d : BMS.Denotation) (hden : BMS.denote lay lines = some d)
    (hord : ∀ doc, BMS.parseDoc lines = .ok doc → BMS.LanesInOrder lay doc.notes)
    (hgc : gridCompatible (grid defaultMaxDiv) d.tempo = true) (c : BMS.Chart)
    (hr : BMS.read defaultGrid lay lines = .ok c)
    (dec : BMS.Bytes → String) (setAttrs mapAttrs : List (String × String)) (lv : String) (k : Int)
    (out : Convert.Out)
    (hconv : Convert.convert Convert.tables bmsToQua ⟨setAttrs, [embBMS dec c mapAttrs lv]⟩ k = .ok out) :
    ((ofBMSRead c).hits.Perm (ofBMS d).hits ∧ (ofBMSRead c).holds.Perm (ofBMS d).holds) ∧
    ∀ p ∈ [embBMS dec c mapAttrs lv].zip out.pairs, ∀ (info : Qua.Rec) (qsvs : List Qua.Sv) (dq : Qua.Doc),
      Qua.MetaOk info → TempoWholeMs (ofBMSRead c) → Qua.write (quaOfT p.2.2 info qsvs) = .ok dq →
      ∃ c', Qua.Spec.denote dq = .ok c' ∧
        ObjectsClose 0 .ms false 0 (ofBMS d) (ofQua c') ∧ CloseTo 0 .ms false 0 (ofBMSRead c) (ofQua c') := by
  have hra := bms_read_abstract lay hlay lines d hden hord hgc c hr
  refine ⟨hra, ?_⟩
  intro p hp info qsvs dq hm hms hw
  obtain ⟨_, _, _, hc, _, hns⟩ := bms_entries
  have hsrc : ∀ m ∈ (⟨setAttrs, [embBMS dec c mapAttrs lv]⟩ : Convert.Src).maps, Convert.srcMapOk m = true := by
    intro m hm
    simp only [List.mem_singleton] at hm
    subst hm
    exact srcMapOk_embBMS dec c mapAttrs lv
  have hp1 : p.1 = embBMS dec c mapAttrs lv := by
    have := (List.of_mem_zip hp).1
    simpa using this
  obtain ⟨c', hc', hclose⟩ := convert_write_qua _ hc hns _ k out hsrc hconv p hp info qsvs dq
    hm (by rw [hp1, ofSrcMap_embBMS]; exact hms) hw
  rw [hp1, ofSrcMap_embBMS] at hclose
  exact ⟨c', hc', objectsClose_ms_of_perm _ _ _ hra.1 hra.2 hclose, hclose⟩

/-- non-vacuity of the converter hypotheses: on the frames of a read chart (two hits with samples, a hold, two stored
tempo points) both converter models succeed and return one chart holding the chart's rows -/
example :
    let c : BMS.Chart := ⟨⟨[], [], [], [], [], [], 120, []⟩, [⟨0, ['0', '1'], 0⟩, ⟨3, [], 500⟩], [⟨1, ['0', '2'], 1000, 500⟩],
      [⟨120, 4, 0⟩, ⟨150, 4, 2000⟩], []⟩
    let ma : List (String × String) := [("title", "t"), ("artist", "a"), ("version", "v")]
    (match Convert.convert Convert.tables bmsToOsu ⟨[], [embBMS (fun _ => "s.wav") c ma "<d>"]⟩ 0 with
     | .ok out => out.charts.map ofTChart == [ofBMSRead c]
     | .error _ => false) = true ∧
    (match Convert.convert Convert.tables bmsToQua ⟨[], [embBMS (fun _ => "s.wav") c ma "<d>"]⟩ 0 with
     | .ok out => out.charts.map ofTChart == [ofBMSRead c]
     | .error _ => false) = true := by decide +kernel

/-! ## the written `#BPMS` of a measure-line tempo list -/

theorem zip_map_self' {α β} (l : List α) (f : α → β) : (l.map f).zip l = l.map (fun a => (f a, a)) := by
  induction l with
  | nil => rfl
  | cons a t ih => simp [ih]

/-- **the `#BPMS` pairs `SMMapSet.write` emits for a measure-line tempo list**: when the first chart's tempo list is the
stored form of `cs` from `t0` (C10's domain, 4-beat metronome), every change of `cs` sits on a measure line and the stored
times are on the snap grid, the written pairs are `round6 (4·measure) = bpm` in the order of `cs` — so they denote `cs`
(C03 `changesOf_written_measure_lines`) and are in beat order. -/
theorem written_bpms_measure_lines (t0 : Rat) (cs : List BcSnap)
    (hwf : wfChanges cs = true) (hs : sortedSnaps cs = true) (h0 : firstAtZero cs = true)
    (hgc : gridCompatible (grid defaultMaxDiv) cs = true) (hm : metronomeOk cs = true)
    (hl : ∀ c ∈ cs, c.snap.beat = 0 ∧ c.met = 4 ∧ c.snap.met = some 4)
    (h : SM.WHeader) (c0 : SM.WChart) (rest : List SM.WChart) (w : SM.Written)
    (hb : SM.toTimingMap c0.bpms = tmOf t0 cs)
    (htb : ∀ t ∈ c0.bpms.map (·.1), OnGridAt (grid defaultMaxDiv) t0 cs t)
    (hw : SM.write h (c0 :: rest) = .ok w) :
    w.bpms = cs.map (fun c => (SM.round6 (4 * (c.snap.measure : Rat)), c.bpm)) ∧
    SM.changesOf w.bpms = cs ∧ w.bpms.Pairwise (fun x y => decide (x.1 ≤ y.1) = true) := by
  have hM : ∀ c ∈ cs, c.met = 4 := fun c hc => (hl c hc).2.1
  have hg : defaultGrid.toList = grid defaultMaxDiv := by simp [defaultGrid]
  have hbeats : beats defaultGrid (SM.toTimingMap c0.bpms) (c0.bpms.map (·.1)) =
      .ok ((c0.bpms.map (·.1)).map (beatAt t0 cs)) := by
    rw [hb]
    exact beats_run_exact defaultGrid (gridOK_grid (by decide)) t0 cs hwf hs h0 (by rw [hg]; exact hgc) hm 4 hM _
      (by rw [hg]; exact htb)
  have e : w.bpms = c0.bpms.map (fun p => (SM.round6 (beatAt t0 cs p.1), p.2)) := by
    unfold SM.write at hw
    simp only [hbeats, bind, Except.bind] at hw
    split at hw
    · cases hw
    · cases hw
      simp only [List.map_map, zip_map_self']
      rfl
  have h1 : c0.bpms.map (·.1) = changeTimes t0 cs := by
    rw [← stored_times_eq_changeTimes t0 cs hwf hs, ← hb]; simp [SM.toTimingMap]
  have h2 : c0.bpms.map (·.2) = cs.map (·.bpm) := by
    rw [← tmOf_bpms' t0 cs, ← hb]; simp [SM.toTimingMap]
  have hc0 : c0.bpms = cs.map (fun c => (timeAt t0 cs c.snap, c.bpm)) := by
    rw [← zip_map_fst_snd c0.bpms, h1, h2]
    unfold changeTimes
    rw [List.zip_map']
  have hnn : ∀ c ∈ cs, 0 ≤ c.snap.measure := by
    cases cs with
    | nil => intro c hc; cases hc
    | cons f rest' =>
      simp only [firstAtZero, Bool.and_eq_true, decide_eq_true_eq] at h0
      intro c hc
      rcases List.mem_cons.mp hc with rfl | hc'
      · exact le_of_eq h0.1.symm
      · have hle := sortedSnaps_head_le hs c hc'
        have hcb := (hl c hc).1
        simp only [Snap.le, Snap.lt, Snap.eqv, h0.1, h0.2, hcb, Bool.or_eq_true, Bool.and_eq_true,
          decide_eq_true_eq] at hle
        rcases hle with (h' | h') | h'
        · exact le_of_lt h'
        · exact le_of_eq h'.1
        · exact le_of_eq h'.1
  have hw' : w.bpms = cs.map (fun c => (SM.round6 (4 * (c.snap.measure : Rat)), c.bpm)) := by
    rw [e, hc0, List.map_map]
    apply List.map_congr_left
    intro c hc
    have hcb := (hl c hc).1
    have hq : queryOk cs c.snap = true := C02.queryOk_of_nonneg cs h0 c.snap (hnn c hc) (by rw [hcb])
    have := beatAt_timeAt_absBeat t0 cs c.snap hwf hs h0 hM hq (by rw [hcb]; decide)
    simp only [Function.comp, this, SM.absBeat, hcb, Rat.add_zero]
  refine ⟨hw', ?_, ?_⟩
  · rw [hw']; exact C03.changesOf_written_measure_lines cs hs hl
  · rw [hw']
    have hr : ∀ m : Int, SM.round6 (4 * (m : Rat)) = 4 * (m : Rat) := by
      intro m
      have := C03.round6_exact (4000000 * m)
      have e' : ((4000000 * m : Int) : Rat) / 1000000 = 4 * (m : Rat) := by push_cast; ring
      rw [e'] at this; exact this
    rw [List.pairwise_map]
    refine (sortedSnaps_pairwise hs).imp_of_mem ?_
    intro a b ha hb' hab
    simp only [hr, decide_eq_true_eq]
    have hba := (hl b hb').1
    have haa := (hl a ha).1
    simp only [Snap.le, Snap.lt, Snap.eqv, haa, hba, Bool.or_eq_true, Bool.and_eq_true, decide_eq_true_eq] at hab
    have : a.snap.measure ≤ b.snap.measure := by
      rcases hab with (h' | h') | h'
      · exact le_of_lt h'
      · exact le_of_eq h'.1
      · exact le_of_eq h'.1
    have : (a.snap.measure : Rat) ≤ (b.snap.measure : Rat) := by exact_mod_cast this
    linarith

/-- **for measure-line tempo lists the two ties of `SMWritable` to the written header are theorems**: the exact regime
demands tempo points on measure lines anyway (`gridExact`'s `onMeasureLines`); then `changesOf w.bpms = cs` and the beat
order of `w.bpms` follow from the chart side (`written_bpms_measure_lines`), given that the stored tempo times are on the
snap grid (`htb`).  All hypotheses left are about the renderer, the tempo list `cs`, the header `h` and the chart `c`. -/
theorem smWritable_of_measure_lines (sh : SM.Shows) (t0 : Rat) (cs : List BcSnap) (h : SM.WHeader) (c : SM.WChart)
    (w : SM.Written) (hsh : SM.ShowsOK sh) (hsp : SM.ShowsParse sh)
    (hwf : wfChanges cs = true) (hs : sortedSnaps cs = true) (h0 : firstAtZero cs = true)
    (hgc : gridCompatible (grid defaultMaxDiv) cs = true) (hm : metronomeOk cs = true)
    (hl : ∀ c ∈ cs, c.snap.beat = 0 ∧ c.met = 4 ∧ c.snap.met = some 4)
    (hw : SM.write h [c] = .ok w) (hL : ∃ out, C03.ChartWritten t0 cs c out)
    (hstr : ∀ ta ∈ SM.stringTags, SM.CleanParam ((h.strs.lookup ta.2).getD []))
    (hch : SM.CleanParam c.chartType ∧ SM.CleanParam c.description ∧ SM.CleanParam c.difficulty ∧
      '\n' ∉ c.chartType ∧ '\n' ∉ c.difficulty)
    (ho : h.offset = t0) (htb : ∀ t ∈ c.bpms.map (·.1), OnGridAt (grid defaultMaxDiv) t0 cs t) :
    SMWritable sh t0 cs h c w := by
  obtain ⟨out, keys, a1, a2, a3, hb, a5⟩ := hL
  obtain ⟨_, hbp, hsorted⟩ := written_bpms_measure_lines t0 cs hwf hs h0 hgc hm hl h c [] w hb htb hw
  exact ⟨hsh, hsp, hwf, hs, h0, hgc, hm, fun c hc => (hl c hc).2.1, hw, ⟨out, keys, a1, a2, a3, hb, a5⟩, hstr, hch, ho,
    hbp, hsorted⟩

/-- non-vacuity of `hl` / `htb` on the tempo list of the examples above -/
example :
    let cs : List BcSnap := [⟨120, 4, ⟨0, 0, some 4⟩⟩, ⟨60, 4, ⟨2, 0, some 4⟩⟩]
    (∀ c ∈ cs, c.snap.beat = 0 ∧ c.met = 4 ∧ c.snap.met = some 4) ∧
    (∀ t ∈ [(500 : Rat), 4500], OnGridAt (grid defaultMaxDiv) 500 cs t) := by
  have hz : (0 : Rat) ∈ grid defaultMaxDiv := by
    have := (gridOK_grid (by decide) : GridOK defaultGrid).zero_mem
    simpa [defaultGrid] using this
  have e1 : (500 + snapDist (⟨0, 0, some 4⟩ : Snap) ⟨2, 0, some 4⟩ 4 * beatLen 120 : Rat) = 4500 := by decide +kernel
  have f1 : frac (((500 : Rat) - 500) / beatLen 120) = 0 := by decide +kernel
  have f2 : frac (((4500 : Rat) - 4500) / beatLen 60) = 0 := by decide +kernel
  refine ⟨by decide +kernel, ?_⟩
  intro t ht
  simp only [List.mem_cons, List.not_mem_nil, or_false] at ht
  rcases ht with rfl | rfl
  · refine ⟨by decide +kernel, ?_⟩
    simp only [onGridAux, e1]
    rw [if_neg (by decide +kernel), f1]
    exact hz
  · refine ⟨by decide +kernel, ?_⟩
    simp only [onGridAux, e1]
    rw [if_pos (by decide +kernel), f2]
    exact hz

/-! ## … → BMS: convert, then write, objects in the exact regime (C08 + C05 chained over `AChart`) -/

theorem flatMap_filter_perm {α} (key : α → Nat) (ks : List Nat) (hnd : ks.Nodup) (l : List α)
    (hmem : ∀ a ∈ l, key a ∈ ks) : (ks.flatMap (fun k => l.filter (fun a => decide (key a = k)))).Perm l := by
  induction ks generalizing l with
  | nil =>
    cases l with
    | nil => simp
    | cons a t => exact absurd (hmem a (by simp)) (by simp)
  | cons k ks' ih =>
    have hk : k ∉ ks' := (List.nodup_cons.mp hnd).1
    have hnd' : ks'.Nodup := (List.nodup_cons.mp hnd).2
    rw [List.flatMap_cons]
    have htail : ks'.flatMap (fun k' => l.filter (fun a => decide (key a = k'))) =
        ks'.flatMap (fun k' => (l.filter (fun a => !decide (key a = k))).filter (fun a => decide (key a = k'))) := by
      apply List.flatMap_congr
      intro k' hk'
      rw [List.filter_filter]
      apply List.filter_congr
      intro a _
      by_cases h : key a = k'
      · have : k' ≠ k := by rintro rfl; exact hk hk'
        simp [h, this]
      · simp [h]
    rw [htail]
    have ih' := ih hnd' (l.filter (fun a => !decide (key a = k))) (by
      intro a ha
      obtain ⟨hal, hne⟩ := List.mem_filter.mp ha
      have := hmem a hal
      simp only [Bool.not_eq_true', decide_eq_false_iff_not] at hne
      rcases List.mem_cons.mp this with h | h
      · exact absurd h hne
      · exact h)
    exact (List.Perm.append_left _ ih').trans (List.filter_append_perm _ l)

open Reamber.BMS Reamber.PermInv in
theorem col_mem_of_channelOf (lay : BMS.Layout) (col : Nat) (h : (BMS.channelOf lay col).isSome = true) :
    col ∈ lay.lanes.map (·.2) := by
  unfold BMS.channelOf at h
  rw [Option.isSome_map, List.find?_isSome] at h
  obtain ⟨p, hp, hpc⟩ := h
  simp only [decide_eq_true_eq] at hpc
  exact List.mem_map.mpr ⟨p, List.mem_reverse.mp hp, hpc⟩

open Reamber.BMS Reamber.PermInv in
theorem atoms_hits_of_hits {α} (F : Rat → Snap) (ln : BMS.Bytes) (so : BMS.Bytes → BMS.Bytes) (col : Nat) (l : List α)
    (f : α → Rat) (g : α → BMS.Bytes) :
    ((l.map (fun h => TAtom.hit (f h) (g h))).map (TAtom.toAtom F ln)).flatMap (Atom.hits so col) =
      l.map (fun h => (⟨col, so (g h), posOf (F (f h))⟩ : SHit)) := by
  induction l with
  | nil => rfl
  | cons a t ih => simp only [List.map_cons, List.flatMap_cons, TAtom.toAtom, Atom.hits, ih, List.cons_append, List.nil_append]

open Reamber.BMS Reamber.PermInv in
theorem atoms_hits_of_holds {α} (F : Rat → Snap) (ln : BMS.Bytes) (so : BMS.Bytes → BMS.Bytes) (col : Nat) (l : List α)
    (f f' : α → Rat) (g : α → BMS.Bytes) :
    ((l.map (fun h => TAtom.hold (f h) (f' h) (g h))).map (TAtom.toAtom F ln)).flatMap (Atom.hits so col) = [] := by
  induction l with
  | nil => rfl
  | cons a t ih => simp only [List.map_cons, List.flatMap_cons, TAtom.toAtom, Atom.hits, ih, List.cons_append, List.nil_append]

open Reamber.BMS Reamber.PermInv in
theorem atoms_holds_of_hits {α} (F : Rat → Snap) (ln : BMS.Bytes) (so : BMS.Bytes → BMS.Bytes) (col : Nat) (l : List α)
    (f : α → Rat) (g : α → BMS.Bytes) :
    ((l.map (fun h => TAtom.hit (f h) (g h))).map (TAtom.toAtom F ln)).flatMap (Atom.holds so col) = [] := by
  induction l with
  | nil => rfl
  | cons a t ih => simp only [List.map_cons, List.flatMap_cons, TAtom.toAtom, Atom.holds, ih, List.cons_append, List.nil_append]

open Reamber.BMS Reamber.PermInv in
theorem atoms_holds_of_holds {α} (F : Rat → Snap) (ln : BMS.Bytes) (so : BMS.Bytes → BMS.Bytes) (col : Nat) (l : List α)
    (f f' : α → Rat) (g : α → BMS.Bytes) :
    ((l.map (fun h => TAtom.hold (f h) (f' h) (g h))).map (TAtom.toAtom F ln)).flatMap (Atom.holds so col) =
      l.map (fun h => (⟨col, so (g h), posOf (F (f h)), posOf (F (f' h))⟩ : SHold)) := by
  induction l with
  | nil => rfl
  | cons a t ih => simp only [List.map_cons, List.flatMap_cons, TAtom.toAtom, Atom.holds, ih, List.cons_append, List.nil_append]

open Reamber.BMS Reamber.PermInv in
/-- **the written BMS file's denotation holds the chart's objects (exact regime)** — the lane-by-lane conclusion of C05
`bms_write_read` read on the abstract chart: when every written position is read back at its own time (`hexact`: what
`bms_write_read` gives for times on the snap grid), the denotation's hits and holds are, as multisets, exactly the
chart's `(time, column)` / `(time, column, tail − time)` rows. -/
theorem bms_denoted_objects_exact (cs : List BcSnap) (lay : BMS.Layout) (hnd : (lay.lanes.map (·.2)).Nodup)
    (dflt : BMS.Bytes) (c : BMS.WChart)
    (hcolH : ∀ h ∈ c.hits, h.col ∈ lay.lanes.map (·.2)) (hcolL : ∀ h ∈ c.holds, h.col ∈ lay.lanes.map (·.2))
    (items : BMS.Bytes × Nat → List TAtom)
    (hitems : ∀ lane ∈ lay.lanes, (items lane).Perm (laneItems c dflt lane.2))
    (d : BMS.Denotation) (so : BMS.Bytes → BMS.Bytes)
    (hsh : d.shits = lay.lanes.flatMap (fun lane => ((items lane).map (TAtom.toAtom (posFn cs) c.lnEnd)).flatMap
      (Atom.hits so lane.2)))
    (hsl : d.sholds = lay.lanes.flatMap (fun lane => ((items lane).map (TAtom.toAtom (posFn cs) c.lnEnd)).flatMap
      (Atom.holds so lane.2)))
    (hh : d.hits = d.shits.map (fun h => ⟨h.col, h.sample, timeAt 0 d.tempo h.snap⟩))
    (hl : d.holds = d.sholds.map (fun h => ⟨h.col, h.sample, timeAt 0 d.tempo h.head,
      timeAt 0 d.tempo h.tail - timeAt 0 d.tempo h.head⟩))
    (hexact : ∀ lane ∈ lay.lanes, ∀ a ∈ items lane, ∀ t ∈ a.times, timeAt 0 d.tempo (posOf (posFn cs t)) = t) :
    (ofBMS d).hits.Perm (c.hits.map (fun h => (h.offset, (h.col : Int)))) ∧
    (ofBMS d).holds.Perm (c.holds.map (fun h => (h.offset, (h.col : Int), h.tail - h.offset))) := by
  constructor
  · -- hits
    have e1 : (ofBMS d).hits = lay.lanes.flatMap (fun lane =>
        (((items lane).map (TAtom.toAtom (posFn cs) c.lnEnd)).flatMap (Atom.hits so lane.2)).map
          (fun h => (timeAt 0 d.tempo h.snap, (h.col : Int)))) := by
      rw [show (ofBMS d).hits = d.hits.map (fun h => (h.offset, (h.col : Int))) from rfl, hh, hsh, List.map_map,
        List.map_flatMap]
      rfl
    rw [e1]
    have hlane : ∀ lane ∈ lay.lanes,
        ((((items lane).map (TAtom.toAtom (posFn cs) c.lnEnd)).flatMap (Atom.hits so lane.2)).map
          (fun h => (timeAt 0 d.tempo h.snap, (h.col : Int)))).Perm
        ((c.hits.filter (fun h => decide (h.col = lane.2))).map (fun h => (h.offset, (h.col : Int)))) := by
      intro lane hlane
      have hp := ((((hitems lane hlane).map (TAtom.toAtom (posFn cs) c.lnEnd)).flatMap_right
        (Atom.hits so lane.2))).map (fun h : SHit => (timeAt 0 d.tempo h.snap, (h.col : Int)))
      refine hp.trans (List.Perm.of_eq ?_)
      simp only [laneItems, List.map_append, List.flatMap_append, atoms_hits_of_hits, atoms_hits_of_holds,
        List.append_nil, List.map_nil]
      rw [List.map_map]
      apply List.map_congr_left
      intro h hmem
      obtain ⟨hc, hcol⟩ := List.mem_filter.mp hmem
      simp only [decide_eq_true_eq] at hcol
      have hin : TAtom.hit h.offset (sampleId c.samples dflt h.sample) ∈ items lane := by
        refine (hitems lane hlane).mem_iff.mpr ?_
        simp only [laneItems, List.mem_append, List.mem_map]
        exact Or.inl ⟨h, List.mem_filter.mpr ⟨hc, by simpa using hcol⟩, rfl⟩
      have := hexact lane hlane _ hin h.offset (by simp [TAtom.times])
      simp only [Function.comp, this, hcol]
    refine (List.Perm.flatMap_left _ hlane).trans ?_
    have e2 : lay.lanes.flatMap (fun lane => (c.hits.filter (fun h => decide (h.col = lane.2))).map
        (fun h => (h.offset, (h.col : Int)))) =
        ((lay.lanes.map (·.2)).flatMap (fun k => c.hits.filter (fun h => decide (h.col = k)))).map
          (fun h => (h.offset, (h.col : Int))) := by
      simp only [List.map_flatMap, List.flatMap_map]
    rw [e2]
    exact (flatMap_filter_perm (fun h : HitOut => h.col) _ hnd c.hits hcolH).map _
  · -- holds
    have e1 : (ofBMS d).holds = lay.lanes.flatMap (fun lane =>
        (((items lane).map (TAtom.toAtom (posFn cs) c.lnEnd)).flatMap (Atom.holds so lane.2)).map
          (fun h => (timeAt 0 d.tempo h.head, (h.col : Int), timeAt 0 d.tempo h.tail - timeAt 0 d.tempo h.head))) := by
      rw [show (ofBMS d).holds = d.holds.map (fun h => (h.offset, (h.col : Int), h.length)) from rfl, hl, hsl,
        List.map_map, List.map_flatMap]
      rfl
    rw [e1]
    have hlane : ∀ lane ∈ lay.lanes,
        ((((items lane).map (TAtom.toAtom (posFn cs) c.lnEnd)).flatMap (Atom.holds so lane.2)).map
          (fun h => (timeAt 0 d.tempo h.head, (h.col : Int), timeAt 0 d.tempo h.tail - timeAt 0 d.tempo h.head))).Perm
        ((c.holds.filter (fun h => decide (h.col = lane.2))).map
          (fun h => (h.offset, (h.col : Int), h.tail - h.offset))) := by
      intro lane hlane
      have hp := ((((hitems lane hlane).map (TAtom.toAtom (posFn cs) c.lnEnd)).flatMap_right
        (Atom.holds so lane.2))).map
          (fun h : SHold => (timeAt 0 d.tempo h.head, (h.col : Int), timeAt 0 d.tempo h.tail - timeAt 0 d.tempo h.head))
      refine hp.trans (List.Perm.of_eq ?_)
      simp only [laneItems, List.map_append, List.flatMap_append, atoms_holds_of_hits, atoms_holds_of_holds,
        List.nil_append, List.map_nil]
      rw [List.map_map]
      apply List.map_congr_left
      intro h hmem
      obtain ⟨hc, hcol⟩ := List.mem_filter.mp hmem
      simp only [decide_eq_true_eq] at hcol
      have hin : TAtom.hold h.offset h.tail (sampleId c.samples dflt h.sample) ∈ items lane := by
        refine (hitems lane hlane).mem_iff.mpr ?_
        simp only [laneItems, List.mem_append, List.mem_map]
        exact Or.inr ⟨h, List.mem_filter.mpr ⟨hc, by simpa using hcol⟩, rfl⟩
      have t1 := hexact lane hlane _ hin h.offset (by simp [TAtom.times])
      have t2 := hexact lane hlane _ hin h.tail (by simp [TAtom.times])
      simp only [Function.comp, t1, t2, hcol]
    refine (List.Perm.flatMap_left _ hlane).trans ?_
    have e2 : lay.lanes.flatMap (fun lane => (c.holds.filter (fun h => decide (h.col = lane.2))).map
        (fun h => (h.offset, (h.col : Int), h.tail - h.offset))) =
        ((lay.lanes.map (·.2)).flatMap (fun k => c.holds.filter (fun h => decide (h.col = k)))).map
          (fun h => (h.offset, (h.col : Int), h.tail - h.offset)) := by
      simp only [List.map_flatMap, List.flatMap_map]
    rw [e2]
    exact (flatMap_filter_perm (fun h : WHold => h.col) _ hnd c.holds hcolL).map _

open Reamber.BMS Reamber.PermInv in
/-- the hypotheses of C05 `bms_write_read` on the chart `c` that is written (the open findings D06 / D35 / D36 / D37 are
excluded by `hdec` / `hp` / `hR` / `hitems`+`hasc`), plus the exact regime: every object time on the snap grid -/
structure BMSWritable (cs : List BcSnap) (lay : BMS.Layout) (dflt : BMS.Bytes) (c : BMS.WChart)
    (items : BMS.Bytes × Nat → List TAtom) : Prop where
  hwf : wfChanges cs = true
  hs : strictSnaps cs = true
  h0 : firstAtZero cs = true
  hgc : gridCompatible (grid defaultMaxDiv) cs = true
  hm : metronomeOk cs = true
  hlay : LayoutOK lay
  hts : lay.exbpmCh ≠ lay.timeSig ∧ ∀ lane ∈ lay.lanes, lane.1 ≠ lay.timeSig
  hp : c.bpms.Perm (tmOf 0 cs)
  hok : BmsOk cs lay c
  hR : RowsOK (bmsNoteRows cs lay dflt c ++ bmsTempoRows cs lay c)
  hv : ∀ r ∈ bmsNoteRows cs lay dflt c, r.value ≠ ['0', '0']
  hH : HeaderOK c
  hdec : ∀ b ∈ c.bpms, roundDec 3 b.bpm = b.bpm
  hhdr : ∃ hl, writeHeader c = .ok hl
  hitems : ∀ lane ∈ lay.lanes, (items lane).Perm (laneItems c dflt lane.2) ∧ (∀ a ∈ items lane, a.idOk c.lnEnd)
  hasc : ∀ lane ∈ lay.lanes, ((items lane).flatMap TAtom.times).Pairwise (fun a b => a ≤ b)
  hgrid : ∀ lane ∈ lay.lanes, ∀ a ∈ items lane, ∀ t ∈ a.times, OnGridAt (grid defaultMaxDiv) 0 cs t

open Reamber.BMS Reamber.PermInv in
/-- **writer link into BMS over the abstract chart, exact regime** (C05 `bms_write_read` + `bms_denoted_objects_exact`):
the writer succeeds, the written lines have a by-the-book meaning, and its hits and holds are exactly the chart's. -/
theorem bms_written_objects_exact (cs : List BcSnap) (lay : BMS.Layout) (dflt : BMS.Bytes) (c : BMS.WChart)
    (items : BMS.Bytes × Nat → List TAtom) (H : BMSWritable cs lay dflt c items) :
    ∃ lines d, BMS.write defaultGrid lay dflt c = .ok lines ∧ BMS.denote lay lines = some d ∧
      (ofBMS d).hits.Perm (c.hits.map (fun h => (h.offset, (h.col : Int)))) ∧
      (ofBMS d).holds.Perm (c.holds.map (fun h => (h.offset, (h.col : Int), h.tail - h.offset))) := by
  obtain ⟨hl, hhdr⟩ := H.hhdr
  obtain ⟨lines, d, b0, hw, hd, _, _, hsh, hsl, hh, hlh, htimes⟩ := bms_write_read cs H.hwf H.hs H.h0 H.hgc H.hm lay H.hlay
    H.hts dflt c H.hp H.hok H.hR H.hv H.hH H.hdec hl hhdr items H.hitems H.hasc
  obtain ⟨r1, r2⟩ := bms_denoted_objects_exact cs lay H.hlay.cols_nodup dflt c
    (fun h hh' => col_mem_of_channelOf lay h.col (H.hok.cols.1 h hh'))
    (fun h hh' => col_mem_of_channelOf lay h.col (H.hok.cols.2 h hh'))
    items (fun lane hlane => (H.hitems lane hlane).1) d _ hsh hsl hh hlh
    (fun lane hlane a ha t ht => (htimes lane hlane a ha t ht).2 (H.hgrid lane hlane a ha t ht))
  exact ⟨lines, d, hw, hd, r1, r2⟩

/-- the in-memory `BMSMap` that is written holds exactly the hit and hold rows of the converted frames (the
representation glue between C08's frames and C05's chart type; a hold's `length` is `tail − offset`) -/
def RepresentsBMS (wc : BMS.WChart) (t : Convert.TChart) : Prop :=
  wc.hits.map (fun h => (h.offset, (h.col : Int))) = (ofTChart t).hits ∧
  wc.holds.map (fun h => (h.offset, (h.col : Int), h.tail - h.offset)) = (ofTChart t).holds

open Reamber.BMS Reamber.PermInv in
/-- **convert, then write as BMS — all 17 converter entries, shift parameter included** (`_partial`: objects, exact
regime; C08 `converters_spec` + C05 `bms_write_read` chained over `AChart`): for every well-formed source, shift argument
`k`, source map `m` with its converted chart `t`, and every BMS chart `wc` that holds `t`'s rows and satisfies C05's
hypotheses with all object times on the snap grid (`BMSWritable`): the writer succeeds, the written lines have a
by-the-book meaning `d`, and `d`'s hits and holds are EXACTLY those of the source map `m` with the columns moved by the
shift argument (`ObjectsClose` in the exact regime).  `_partial`: the tempo timeline (C05 gives `d.tempo` = header tempo ::
`cs`; that its normalised timeline is the chart's is not composed), the off-grid regime (C05's bound
`1/192·activeBeatLen` is not yet related to `tolAt`), the reader link and `RepresentsBMS` are hypotheses. -/
theorem convert_write_bms_objects_partial : ∀ cv ∈ Generated.converters,
    ∀ (src : Convert.Src) (k : Int) (out : Convert.Out),
    (∀ m ∈ src.maps, Convert.srcMapOk m = true) → Convert.convert Convert.tables cv src k = .ok out →
    ∀ p ∈ src.maps.zip out.pairs, ∀ (cs : List BcSnap) (lay : BMS.Layout) (dflt : BMS.Bytes) (wc : BMS.WChart)
      (items : BMS.Bytes × Nat → List TAtom), RepresentsBMS wc p.2.2 → BMSWritable cs lay dflt wc items →
      ∃ lines d, BMS.write defaultGrid lay dflt wc = .ok lines ∧ BMS.denote lay lines = some d ∧
        ObjectsClose 0 (.beat (1 / 192) (1 / 192)) true 0 (shiftCols (Convert.effShift cv k) (ofSrcMap p.1)) (ofBMS d) := by
  intro cv hc src k out hsrc hconv p hp cs lay dflt wc items hrep H
  have hcontent : (src.maps.zip out.pairs).all (fun p => Convert.contentOk (Convert.effShift cv k) p.1 p.2.2) = true :=
    Convert.convert_content Convert.tables cv src k out (Convert.table_static_ok cv hc) hsrc hconv
  have hp' := List.all_eq_true.mp hcontent p hp
  obtain ⟨hh, hl, _⟩ := contentOk_abstract _ _ _ hp'
  obtain ⟨lines, d, hw, hd, r1, r2⟩ := bms_written_objects_exact cs lay dflt wc items H
  refine ⟨lines, d, hw, hd, ?_, ?_⟩
  · exact paired_of_perm_exact _ (fun x => closeHit_exact_refl _ _ x _ _ rfl) _ _ ((r1.trans (List.Perm.of_eq hrep.1)).trans hh)
  · exact paired_of_perm_exact _ (fun x => closeHold_exact_refl _ x _ _) _ _ ((r2.trans (List.Perm.of_eq hrep.2)).trans hl)

open Reamber.BMS Reamber.PermInv in
/-- non-vacuity of `BMSWritable`: the chart of C05's own example (two tempo rows in reverse order, a hit and a hold whose
times 0 and 2000 ms lie on measure lines, layout `PMS_5B`) satisfies every hypothesis, the exact regime included -/
example : BMSWritable wrExCs wrExLay "01".toList wrExChart (fun lane => laneItems wrExChart "01".toList lane.2) := by
  have hlay := layouts_ok "PMS_5B" (by decide) wrExLay wrExLay_eq
  have hts := layouts_timeSig "PMS_5B" (by decide) wrExLay wrExLay_eq
  have hp : wrExChart.bpms.Perm (tmOf 0 wrExCs) := by rw [wrExCs_tm]; exact List.Perm.swap _ _ _
  have hok : BmsOk wrExCs wrExLay wrExChart := by
    refine ⟨by decide +kernel, by decide +kernel, by decide +kernel, by decide +kernel⟩
  have hR : RowsOK (bmsNoteRows wrExCs wrExLay "01".toList wrExChart ++ bmsTempoRows wrExCs wrExLay wrExChart) := by
    rw [wrExRows_eq]; exact wrExRowsOK
  have hv : ∀ r ∈ bmsNoteRows wrExCs wrExLay "01".toList wrExChart, r.value ≠ ['0', '0'] := by
    intro r hr
    have : r ∈ wrExRows := by rw [← wrExRows_eq]; exact List.mem_append_left _ hr
    have hall : ∀ r ∈ wrExRows, r.value ≠ ['0', '0'] := by decide +kernel
    exact hall r this
  have hH : HeaderOK wrExChart :=
    ⟨by intro kv hkv; simp [wrExChart] at hkv, by intro kv hkv; simp [wrExChart] at hkv, by decide +kernel, by decide +kernel, by decide +kernel⟩
  have hdec : ∀ b ∈ wrExChart.bpms, roundDec 3 b.bpm = b.bpm := by decide +kernel
  have hhdr : ∃ hl, writeHeader wrExChart = .ok hl := by
    have h : (writeHeader wrExChart).toOption.isSome = true := by decide +kernel
    cases hw : writeHeader wrExChart with
    | ok hl => exact ⟨hl, rfl⟩
    | error e => rw [hw] at h; cases h
  have hitems : ∀ lane ∈ wrExLay.lanes, (laneItems wrExChart "01".toList lane.2).Perm (laneItems wrExChart "01".toList lane.2) ∧
      (∀ a ∈ laneItems wrExChart "01".toList lane.2, a.idOk wrExChart.lnEnd) := by
    intro lane _
    refine ⟨List.Perm.refl _, ?_⟩
    intro a ha
    simp only [laneItems, List.mem_append, List.mem_map] at ha
    rcases ha with ⟨h, _, rfl⟩ | ⟨h, _, rfl⟩
    · simp only [TAtom.idOk, wrExChart, sampleId, List.reverse_nil, List.find?_nil, Option.map_none, Option.getD_none]; decide
    · simp only [TAtom.idOk, wrExChart, sampleId, List.reverse_nil, List.find?_nil, Option.map_none, Option.getD_none]; decide
  have hasc : ∀ lane ∈ wrExLay.lanes,
      ((laneItems wrExChart "01".toList lane.2).flatMap TAtom.times).Pairwise (fun a b => a ≤ b) := by decide +kernel
  have hz : (0 : Rat) ∈ grid defaultMaxDiv := by
    have := (gridOK_grid (by decide) : GridOK defaultGrid).zero_mem
    simpa [defaultGrid] using this
  have e1 : (0 + snapDist (⟨0, 0, some 4⟩ : Snap) ⟨1, 0, some 4⟩ 4 * beatLen 120 : Rat) = 2000 := by decide +kernel
  have f1 : frac (((0 : Rat) - 0) / beatLen 120) = 0 := by decide +kernel
  have f2 : frac (((2000 : Rat) - 2000) / beatLen 60) = 0 := by decide +kernel
  have g0 : OnGridAt (grid defaultMaxDiv) 0 wrExCs 0 := by
    refine ⟨by decide +kernel, ?_⟩
    simp only [onGridAux, e1]
    rw [if_neg (by decide +kernel), f1]
    exact hz
  have g1 : OnGridAt (grid defaultMaxDiv) 0 wrExCs 2000 := by
    refine ⟨by decide +kernel, ?_⟩
    simp only [onGridAux, e1]
    rw [if_pos (by decide +kernel), f2]
    exact hz
  have hgrid : ∀ lane ∈ wrExLay.lanes, ∀ a ∈ laneItems wrExChart "01".toList lane.2, ∀ t ∈ a.times,
      OnGridAt (grid defaultMaxDiv) 0 wrExCs t := by
    intro lane _ a ha t ht
    have hts' : t = 0 ∨ t = 2000 := by
      simp only [laneItems, wrExChart, List.mem_append, List.mem_map, List.mem_filter] at ha
      rcases ha with ⟨h, ⟨hm, _⟩, rfl⟩ | ⟨h, ⟨hm, _⟩, rfl⟩
      · simp only [List.mem_cons, List.not_mem_nil, or_false] at hm
        subst hm
        simp [TAtom.times] at ht
        exact Or.inl ht
      · simp only [List.mem_cons, List.not_mem_nil, or_false] at hm
        subst hm
        simp [TAtom.times] at ht
        exact ht
    rcases hts' with rfl | rfl
    · exact g0
    · exact g1
  exact ⟨wrExCs_ok.1, wrExCs_ok.2.1, wrExCs_ok.2.2.1, wrExCs_gc, wrExCs_ok.2.2.2, hlay, hts, hp, hok, hR, hv, hH, hdec, hhdr,
    hitems, hasc, hgrid⟩

def osuToBMS : Convert.Conv := Convert.conv! "OsuToBMS.convert"
def quaToBMS : Convert.Conv := Convert.conv! "QuaToBMS.convert"

theorem toBMS_entries : osuToBMS ∈ Generated.converters ∧ osuToBMS.name = "OsuToBMS.convert" ∧
    quaToBMS ∈ Generated.converters ∧ quaToBMS.name = "QuaToBMS.convert" := by
  decide +kernel

open Reamber.BMS Reamber.PermInv in
/-- **osu → BMS, end to end, objects, exact regime** (`_partial`; osu text to the written BMS lines; reader C01, converter
C08 with its `move_right_by` shift, writer C05): let an osu text of the dialect denote `c0` (key count ≥ 1).  Then the
reader returns `c0`; whenever the converter model's `OsuToBMS.convert` succeeds on the frames of `c0` with shift argument
`k`, for every converted chart `t` and every BMS chart `wc` that holds `t`'s rows (`RepresentsBMS`) inside C05's domain with
all object times on the snap grid (`BMSWritable`): the writer succeeds, the written lines have a by-the-book meaning `d`,
and `d`'s hits and holds are EXACTLY those of the source file with the columns moved by the shift.
`_partial`: see `convert_write_bms_objects_partial` (tempo timeline, off-grid regime, `RepresentsBMS`). -/
theorem osu_to_bms_objects_partial (s : Osu.Skeleton) (hwf : s.WF) (lines : List Osu.Str)
    (hl : lines.map Osu.strip = s.lines) (c0 : Osu.Chart) (hden : Osu.denote lines = .ok c0)
    (hk : 1 ≤ Osu.pyTrunc c0.md.circleSize) (k : Int) (out : Convert.Out)
    (hconv : Convert.convert Convert.tables osuToBMS ⟨[], [embOsu c0]⟩ k = .ok out) :
    Osu.read lines = .ok c0 ∧
    ∀ p ∈ [embOsu c0].zip out.pairs, ∀ (cs : List BcSnap) (lay : BMS.Layout) (dflt : BMS.Bytes) (wc : BMS.WChart)
      (items : BMS.Bytes × Nat → List TAtom), RepresentsBMS wc p.2.2 → BMSWritable cs lay dflt wc items →
      ∃ blines d, BMS.write defaultGrid lay dflt wc = .ok blines ∧ BMS.denote lay blines = some d ∧
        ObjectsClose 0 (.beat (1 / 192) (1 / 192)) true 0 (shiftCols (Convert.effShift osuToBMS k) (ofOsu c0)) (ofBMS d) := by
  obtain ⟨hc, _, _, _⟩ := toBMS_entries
  refine ⟨Osu.read_eq_denote s hwf lines hl c0 hden hk, ?_⟩
  intro p hp cs lay dflt wc items hrep H
  have hsrc : ∀ m ∈ (⟨[], [embOsu c0]⟩ : Convert.Src).maps, Convert.srcMapOk m = true := by
    intro m hm
    simp only [List.mem_singleton] at hm
    subst hm
    exact srcMapOk_embOsu c0
  have hp1 : p.1 = embOsu c0 := by
    have := (List.of_mem_zip hp).1
    simpa using this
  have := convert_write_bms_objects_partial _ hc _ k out hsrc hconv p hp cs lay dflt wc items hrep H
  rw [hp1, ofSrcMap_embOsu] at this
  exact this

open Reamber.BMS Reamber.PermInv in
/-- **Quaver → BMS, end to end, objects, exact regime** (`_partial` as `osu_to_bms_objects_partial`; reader C06) -/
theorem qua_to_bms_objects_partial (d0 : Qua.Doc) (hdecl : Qua.Spec.objsDeclared d0 = true) (c0 : Qua.Chart)
    (hden : Qua.Spec.denote d0 = .ok c0) (k : Int) (out : Convert.Out)
    (hconv : Convert.convert Convert.tables quaToBMS ⟨[], [embQua c0]⟩ k = .ok out) :
    Qua.read d0 = .ok c0 ∧
    ∀ p ∈ [embQua c0].zip out.pairs, ∀ (cs : List BcSnap) (lay : BMS.Layout) (dflt : BMS.Bytes) (wc : BMS.WChart)
      (items : BMS.Bytes × Nat → List TAtom), RepresentsBMS wc p.2.2 → BMSWritable cs lay dflt wc items →
      ∃ blines d, BMS.write defaultGrid lay dflt wc = .ok blines ∧ BMS.denote lay blines = some d ∧
        ObjectsClose 0 (.beat (1 / 192) (1 / 192)) true 0 (shiftCols (Convert.effShift quaToBMS k) (ofQua c0)) (ofBMS d) := by
  obtain ⟨_, _, hc, _⟩ := toBMS_entries
  refine ⟨by rw [Qua.qua_read_defaults d0 hdecl]; exact hden, ?_⟩
  intro p hp cs lay dflt wc items hrep H
  have hsrc : ∀ m ∈ (⟨[], [embQua c0]⟩ : Convert.Src).maps, Convert.srcMapOk m = true := by
    intro m hm
    simp only [List.mem_singleton] at hm
    subst hm
    exact srcMapOk_embQua c0
  have hp1 : p.1 = embQua c0 := by
    have := (List.of_mem_zip hp).1
    simpa using this
  have := convert_write_bms_objects_partial _ hc _ k out hsrc hconv p hp cs lay dflt wc items hrep H
  rw [hp1, ofSrcMap_embQua] at this
  exact this

/-- non-vacuity of the converter hypotheses: on the frames of a small osu chart `OsuToBMS.convert` (shift 1) succeeds and
the converted chart holds the chart's rows one column to the right -/
example :
    let c : Osu.Chart := { hits := [{ offset := 0, column := 0 }], bpms := [⟨0, 120, 4, 0, 0, 0, false⟩] }
    (match Convert.convert Convert.tables osuToBMS ⟨[], [embOsu c]⟩ 1 with
     | .ok out => out.charts.map (fun t => (ofTChart t).hits) == [[(0, 1)]]
     | .error _ => false) = true := by decide +kernel

/-! ## O2Jam → StepMania / BMS, bytes to written file -/

def o2jToSM : Convert.Conv := Convert.conv! "O2JToSM.convert"
def o2jToBMS : Convert.Conv := Convert.conv! "O2JToBMS.convert"

theorem o2j_entries2 : o2jToSM ∈ Generated.converters ∧ o2jToSM.name = "O2JToSM.convert" ∧ o2jToSM.shiftParam = none ∧
    o2jToBMS ∈ Generated.converters ∧ o2jToBMS.name = "O2JToBMS.convert" := by
  decide +kernel

/-- **O2Jam → StepMania, end to end, exact regime** (`_partial` as `osu_to_sm_end_to_end_partial`; bytes of the .ojn to the
text `SMMapSet.write` returns for each level; reader C07 `read_spec`): one converted chart per level, and for every level
`l` (columns not negative) with its converted chart `t` and every `SMWritable` header / renderer / written structure, the
written text's denotation has `#OFFSET` = −`h.offset`/1000 and exactly `l`'s hits, holds and tempo points.  The rule of
`O2JToSM` is offset `0.0` (`sm_offset_rules`), and an O2Jam level's first tempo point is at 0 ms
(`o2j_first_tempo_at_zero`), so `SMWritable`'s `h.offset = t0` is met with `t0 = 0`. -/
theorem o2j_to_sm_end_to_end_partial (bs : List Nat) (hwf : O2J.Spec.wellFormed bs = true) (f : O2J.FileOut)
    (hspec : O2J.Spec.specSet bs = .ok f) (k : Int) (out : Convert.Out)
    (hconv : Convert.convert Convert.tables o2jToSM (o2jSrc f) k = .ok out) :
    O2J.readFile bs = .ok f ∧ out.charts.length = f.levels.length ∧
    ∀ p ∈ f.levels.zip out.pairs, ColsNonneg (ofO2J p.1) →
      ∀ (sh : SM.Shows) (t0 : Rat) (cs : List BcSnap) (h : SM.WHeader) (ty desc diff : SM.Str) (dv : Int)
        (groove : List Rat) (w : SM.Written), SMWritable sh t0 cs h (smOfT p.2.2 ty desc diff dv groove) w →
        ∃ d, SM.denote (SM.renderWritten sh w) = some d ∧ d.offsetSec = some w.offsetSec ∧ d.bpms = some w.bpms ∧
          -(1000 * w.offsetSec) = h.offset ∧ d.chartsWellFormed = true ∧ d.charts.length = 1 ∧
          ∀ (hd : 0 < d.charts.length),
            CloseTo 0 (.beat (1 / 96) (1 / 192)) true 0 (ofO2J p.1) (ofSMChart w.offsetSec w.bpms d.charts[0]) := by
  obtain ⟨hc, _, hns, _, _⟩ := o2j_entries2
  refine ⟨by rw [O2J.read_spec bs hwf]; exact hspec, ?_, ?_⟩
  · have := Convert.one_per_source _ _ _ _ _ (Convert.table_shapes _ hc) hconv
    simpa [Convert.onePerSource, o2jSrc] using this
  · intro p hp hcols sh t0 cs h ty desc diff dv groove w H
    have := convert_write_sm_partial _ hc hns _ k out (o2jSrc_ok f) hconv _ (o2jSrc_zip f _ p hp)
      (by simpa [ofSrcMap_embA] using hcols) sh t0 cs h ty desc diff dv groove w H
    simpa [ofSrcMap_embA] using this

open Reamber.BMS Reamber.PermInv in
/-- **O2Jam → BMS, end to end, objects, exact regime** (`_partial` as `osu_to_bms_objects_partial`; reader C07) -/
theorem o2j_to_bms_objects_partial (bs : List Nat) (hwf : O2J.Spec.wellFormed bs = true) (f : O2J.FileOut)
    (hspec : O2J.Spec.specSet bs = .ok f) (k : Int) (out : Convert.Out)
    (hconv : Convert.convert Convert.tables o2jToBMS (o2jSrc f) k = .ok out) :
    O2J.readFile bs = .ok f ∧ out.charts.length = f.levels.length ∧
    ∀ p ∈ f.levels.zip out.pairs, ∀ (cs : List BcSnap) (lay : BMS.Layout) (dflt : BMS.Bytes) (wc : BMS.WChart)
      (items : BMS.Bytes × Nat → List TAtom), RepresentsBMS wc p.2.2 → BMSWritable cs lay dflt wc items →
      ∃ blines d, BMS.write defaultGrid lay dflt wc = .ok blines ∧ BMS.denote lay blines = some d ∧
        ObjectsClose 0 (.beat (1 / 192) (1 / 192)) true 0 (shiftCols (Convert.effShift o2jToBMS k) (ofO2J p.1)) (ofBMS d) := by
  obtain ⟨_, _, _, hc, _⟩ := o2j_entries2
  refine ⟨by rw [O2J.read_spec bs hwf]; exact hspec, ?_, ?_⟩
  · have := Convert.one_per_source _ _ _ _ _ (Convert.table_shapes _ hc) hconv
    simpa [Convert.onePerSource, o2jSrc] using this
  · intro p hp cs lay dflt wc items hrep H
    have := convert_write_bms_objects_partial _ hc _ k out (o2jSrc_ok f) hconv _ (o2jSrc_zip f _ p hp) cs lay dflt wc items
      hrep H
    simpa [ofSrcMap_embA] using this

/-- non-vacuity of the converter hypotheses: on the frames of a one-level set both converter models succeed -/
example :
    let lv : O2J.LevelOut := ⟨[], [⟨0, 120, 0⟩, ⟨1, 150, 2000⟩]⟩
    let f : O2J.FileOut := ⟨[], [lv]⟩
    (match Convert.convert Convert.tables o2jToSM (o2jSrc f) 0 with
     | .ok out => out.charts.map (fun t => (ofTChart t).bpms) == [[(0, 120), (2000, 150)]]
     | .error _ => false) = true ∧
    (match Convert.convert Convert.tables o2jToBMS (o2jSrc f) 0 with
     | .ok out => out.charts.map (fun t => (ofTChart t).bpms) == [[(0, 120), (2000, 150)]]
     | .error _ => false) = true := by decide +kernel

/-! ## the two remaining pairs: StepMania → BMS and BMS → StepMania (objects, exact regime) -/

def smToBMS : Convert.Conv := Convert.conv! "SMToBMS.convert"
def bmsToSM : Convert.Conv := Convert.conv! "BMSToSM.convert"

theorem sm_bms_entries : smToBMS ∈ Generated.converters ∧ smToBMS.name = "SMToBMS.convert" ∧
    bmsToSM ∈ Generated.converters ∧ bmsToSM.name = "BMSToSM.convert" ∧ bmsToSM.shiftParam = none := by
  decide +kernel

/-- in the exact regime the object part of the statement depends on the source only through its rows -/
theorem objectsClose_exact_of_perm (f g : Rat) (a a' tgt : AChart) (hh : a.hits.Perm a'.hits) (hl : a.holds.Perm a'.holds)
    (h : ObjectsClose 0 (.beat f g) true 0 a tgt) : ObjectsClose 0 (.beat f g) true 0 a' tgt :=
  ⟨paired_of_perm_left _ _ _ _ hh h.1, paired_of_perm_left _ _ _ _ hl h.2⟩

theorem objectsClose_exact_shift_of_perm (f g : Rat) (k : Int) (a a' tgt : AChart) (hh : a.hits.Perm a'.hits)
    (hl : a.holds.Perm a'.holds) (h : ObjectsClose 0 (.beat f g) true 0 (shiftCols k a) tgt) :
    ObjectsClose 0 (.beat f g) true 0 (shiftCols k a') tgt :=
  objectsClose_exact_of_perm f g _ _ _ (hh.map _) (hl.map _) h

open Reamber.BMS Reamber.PermInv in
/-- **StepMania → BMS, end to end, objects, exact regime** (`_partial`: as `sm_to_osu_end_to_end_partial` on the reader
side — one `#NOTES` value, measure-line tempo changes — and as `convert_write_bms_objects_partial` on the writer side) -/
theorem sm_to_bms_objects_partial (σf : List Snap → List Nat) (hσ : ∀ qs, SortsAsc (σf qs) qs)
    (data : SM.Str) (t0 : Rat) (cs0 : List BcSnap) (offsetSec : Rat) (b : List (Rat × Rat)) (ms : List (List SM.Str))
    (D : SMChartDom data t0 cs0 offsetSec b ms) (ss : Bool) (rb : List (Rat × Rat)) (notes : List SM.Note)
    (h : SM.readNotesWith σf data (some t0) (some cs0) ss = .ok (rb, notes))
    (ps : List SM.Str) (hps : ps.getD 5 [] = data)
    (svs : Option (List (Rat × Rat))) (setAttrs mapAttrs : List (String × String)) (lv : String) (k : Int)
    (out : Convert.Out)
    (hconv : Convert.convert Convert.tables smToBMS (srcOfAbstract [ofSMRead rb notes] svs setAttrs mapAttrs lv) k = .ok out) :
    ∀ p ∈ [ofSMRead rb notes].zip out.pairs, ∀ (cs : List BcSnap) (lay : BMS.Layout) (dflt : BMS.Bytes) (wc : BMS.WChart)
      (items : BMS.Bytes × Nat → List TAtom), RepresentsBMS wc p.2.2 → BMSWritable cs lay dflt wc items →
      ∃ blines d, BMS.write defaultGrid lay dflt wc = .ok blines ∧ BMS.denote lay blines = some d ∧
        ObjectsClose 0 (.beat (1 / 192) (1 / 192)) true 0
          (shiftCols (Convert.effShift smToBMS k) (ofSMChart offsetSec b (SM.denoteChart ps))) (ofBMS d) := by
  have hr := sm_read_abstract σf hσ data t0 cs0 ss D.hwf D.hs D.h0 D.hgc D.hm D.hline offsetSec b D.ho D.hb D.hsorted ms
    D.hms D.hsc D.h4 D.hcol D.hok D.hclosed rb notes h ps hps
  obtain ⟨hc, _, _, _, _⟩ := sm_bms_entries
  intro p hp cs lay dflt wc items hrep H
  have hsrc : ∀ m ∈ (srcOfAbstract [ofSMRead rb notes] svs setAttrs mapAttrs lv).maps, Convert.srcMapOk m = true := by
    intro m hm
    simp only [srcOfAbstract, List.mem_map] at hm
    obtain ⟨a, _, rfl⟩ := hm
    exact srcMapOk_embA _ _ _ _
  have hmem : (embA p.1 svs mapAttrs lv, p.2) ∈ (srcOfAbstract [ofSMRead rb notes] svs setAttrs mapAttrs lv).maps.zip out.pairs := by
    simp only [srcOfAbstract, List.zip_map_left]
    exact List.mem_map.mpr ⟨p, hp, rfl⟩
  obtain ⟨blines, d, hw, hd, hobj⟩ := convert_write_bms_objects_partial _ hc _ k out hsrc hconv _ hmem cs lay dflt wc items
    hrep H
  have hp1 : p.1 = ofSMRead rb notes := by
    have := (List.of_mem_zip hp).1
    simpa using this
  rw [ofSrcMap_embA, hp1] at hobj
  exact ⟨blines, d, hw, hd, objectsClose_exact_shift_of_perm _ _ _ _ _ _ hr.1 hr.2.1 hobj⟩

/-- **BMS → StepMania, end to end, objects, exact regime** (`_partial`: reader side as `bms_to_osu_objects_partial` — the
tempo timeline is that of the reader's stored list —, writer side as `osu_to_sm_end_to_end_partial`): the written .sm
text's denotation holds exactly the hits and holds of the SOURCE's denotation `d`, and exactly the in-memory chart incl.
its stored tempo list. -/
theorem bms_to_sm_objects_partial (lay : BMS.Layout) (hlay : BMS.LayoutOK lay) (lines : List BMS.Bytes)
    (d : BMS.Denotation) (hden : BMS.denote lay lines = some d)
    (hord : ∀ doc, BMS.parseDoc lines = .ok doc → BMS.LanesInOrder lay doc.notes)
    (hgc : gridCompatible (grid defaultMaxDiv) d.tempo = true) (c : BMS.Chart)
    (hr : BMS.read defaultGrid lay lines = .ok c)
    (dec : BMS.Bytes → String) (setAttrs mapAttrs : List (String × String)) (lv : String) (k : Int)
    (out : Convert.Out)
    (hconv : Convert.convert Convert.tables bmsToSM ⟨setAttrs, [embBMS dec c mapAttrs lv]⟩ k = .ok out) :
    ∀ p ∈ [embBMS dec c mapAttrs lv].zip out.pairs,
      ∀ (sh : SM.Shows) (t0 : Rat) (cs : List BcSnap) (h : SM.WHeader) (ty desc diff : SM.Str) (dv : Int)
        (groove : List Rat) (w : SM.Written), SMWritable sh t0 cs h (smOfT p.2.2 ty desc diff dv groove) w →
        ∃ ds, SM.denote (SM.renderWritten sh w) = some ds ∧ ds.offsetSec = some w.offsetSec ∧ ds.bpms = some w.bpms ∧
          -(1000 * w.offsetSec) = h.offset ∧ ds.chartsWellFormed = true ∧ ds.charts.length = 1 ∧
          ∀ (hd : 0 < ds.charts.length),
            ObjectsClose 0 (.beat (1 / 96) (1 / 192)) true 0 (ofBMS d) (ofSMChart w.offsetSec w.bpms ds.charts[0]) ∧
            CloseTo 0 (.beat (1 / 96) (1 / 192)) true 0 (ofBMSRead c) (ofSMChart w.offsetSec w.bpms ds.charts[0]) := by
  have hra := bms_read_abstract lay hlay lines d hden hord hgc c hr
  obtain ⟨_, _, hc, _, hns⟩ := sm_bms_entries
  intro p hp sh t0 cs h ty desc diff dv groove w H
  have hsrc : ∀ m ∈ (⟨setAttrs, [embBMS dec c mapAttrs lv]⟩ : Convert.Src).maps, Convert.srcMapOk m = true := by
    intro m hm
    simp only [List.mem_singleton] at hm
    subst hm
    exact srcMapOk_embBMS dec c mapAttrs lv
  have hp1 : p.1 = embBMS dec c mapAttrs lv := by
    have := (List.of_mem_zip hp).1
    simpa using this
  have hcols : ColsNonneg (ofSrcMap p.1) := by
    rw [hp1, ofSrcMap_embBMS]
    constructor
    · intro x hx
      simp only [ofBMSRead, List.mem_map] at hx
      obtain ⟨y, _, rfl⟩ := hx
      exact Int.natCast_nonneg _
    · intro x hx
      simp only [ofBMSRead, List.mem_map] at hx
      obtain ⟨y, _, rfl⟩ := hx
      exact Int.natCast_nonneg _
  obtain ⟨ds, h1, h2, h3, h4, h5, h6, h7⟩ := convert_write_sm_partial _ hc hns _ k out hsrc hconv p hp hcols
    sh t0 cs h ty desc diff dv groove w H
  refine ⟨ds, h1, h2, h3, h4, h5, h6, ?_⟩
  intro hd
  have hcl := h7 hd
  rw [hp1, ofSrcMap_embBMS] at hcl
  exact ⟨objectsClose_exact_of_perm _ _ _ _ _ hra.1 hra.2 ⟨hcl.1, hcl.2.1⟩, hcl⟩

/-- non-vacuity of the converter hypotheses of the two theorems above -/
example :
    let a : AChart := ⟨[(500, 0), (1000, 1)], [(2500, 0, 1000)], [(500, 120)]⟩
    let sa : List (String × String) := [("background", "b"), ("title", "t"), ("title_translit", "t"), ("artist", "a"),
      ("artist_translit", "a"), ("music", "m"), ("credit", "c"), ("sample_start", "0")]
    let ma : List (String × String) := [("difficulty", "Hard"), ("chart_type", "dance-single"), ("difficulty_val", "1")]
    let c : BMS.Chart := ⟨⟨[], [], [], [], [], [], 120, []⟩, [⟨0, ['0', '1'], 0⟩, ⟨3, [], 500⟩], [⟨1, ['0', '2'], 1000, 500⟩],
      [⟨120, 4, 0⟩, ⟨150, 4, 2000⟩], []⟩
    (match Convert.convert Convert.tables smToBMS (srcOfAbstract [a] none sa ma "<d>") 0 with
     | .ok out => out.charts.map (fun t => (ofTChart t).hits) == [[(500, 0), (1000, 1)]]
     | .error _ => false) = true ∧
    (match Convert.convert Convert.tables bmsToSM ⟨[], [embBMS (fun _ => "s.wav") c [("title", "t"), ("artist", "a"), ("version", "v")] "<d>"]⟩ 0 with
     | .ok out => out.charts.map ofTChart == [ofBMSRead c]
     | .error _ => false) = true := by decide +kernel

end Reamber.Pipeline
