/-
C19 — Dominant bpm, scroll speed and SV normalisation follow their definitions.
Property theorems (helper lemmas: `Reamber/Lemmas/Analysis.lean`).  Statements are about the executable model
`Reamber/Model/Analysis.lean`, which the correspondence check ties to
reamber/algorithms/{utils/dominant_bpm.py, analysis/scroll_speed.py, generate/sv_normalize.py} on every run,
against the declarative `Reamber/Spec/Analysis.lean` (the same definitions the driver evaluates on the
implementation's output).
-/
import Reamber.Lemmas.AnalysisSpeed
import Reamber.Generated.Analysis

namespace Reamber.Analysis

/-- Tie to the source: the literals of scroll_speed.py's helper frames, the `override_bpm` defaults, the set of
games with SVs and the fact that `stack()` ranges over the tempo/SV lists are what the translator read from
the code. Re-checked whenever they change. -/
theorem consts_tie :
    resetMult = Generated.Analysis.resetMult ∧
    headTailMult = Generated.Analysis.headTailMult ∧
    headTailBpm = Generated.Analysis.headTailBpm ∧
    overrideDefault = Generated.Analysis.overrideDefault ∧
    gamesWithSv = Generated.Analysis.gamesWithSv ∧
    sortKinds = Generated.Analysis.sortKinds ∧
    Generated.Analysis.stackCoversTempoAndSv = true := by decide +kernel

/-! ### dominant bpm -/

/-- The rows `dominant_bpm` groups: after both sorts and the positional pairing, each tempo point (in time
order) carries exactly its own active span — for tempo rows in any order. -/
theorem dominantRows_eq (bpms : List Tp) (L : Rat) (hd : (bpms.map (·.time)).Nodup) (hL : ∀ p ∈ bpms, p.time ≤ L) :
    dominantRows bpms L = (sortTp bpms).map (fun p => (p.bpm, span (bpms.map (·.time)) L p.time)) := by
  have hperm : (sortTp bpms).Perm bpms := sortTp_perm bpms
  have hsorted := sortTp_sorted bpms
  have hnd : ((sortTp bpms).map (·.time)).Nodup := (hperm.map _).nodup_iff.mpr hd
  have hstrict : ((sortTp bpms).map (·.time)).Pairwise (· < ·) := by
    have h1 : ((sortTp bpms).map (·.time)).Pairwise (· ≤ ·) := List.pairwise_map.mpr hsorted
    exact (h1.and hnd).imp (fun h => lt_of_le_of_ne h.1 h.2)
  have hLs : ∀ p ∈ sortTp bpms, p.time ≤ L := fun p hp => hL p (hperm.mem_iff.mp hp)
  have hsortid : sortRat ((sortTp bpms).map (·.time) ++ [L]) = (sortTp bpms).map (·.time) ++ [L] := by
    apply isort_eq_self
    rw [List.pairwise_append]
    refine ⟨hstrict.imp (fun h => by simpa using le_of_lt h), by simp, ?_⟩
    intro x hx y hy
    simp only [List.mem_singleton] at hy
    subst hy
    obtain ⟨p, hp, rfl⟩ := List.mem_map.mp hx
    simpa using hLs p hp
  unfold dominantRows
  simp only []
  rw [hsortid, rows_sorted (sortTp bpms) L [] hstrict (by simp) hLs]
  simp only [List.nil_append]
  apply List.map_congr_left
  intro p _
  rw [span_perm (hperm.map _)]

/-- `groupby(level=0).sum()` of those rows is the declarative total of every bpm value -/
theorem groupSum_dominantRows (bpms : List Tp) (L : Rat) (hd : (bpms.map (·.time)).Nodup)
    (hL : ∀ p ∈ bpms, p.time ≤ L) :
    groupSum (dominantRows bpms L)
      = (groupKeys ((sortTp bpms).map (·.bpm))).map (fun k => (k, totalTime bpms L k)) := by
  have hperm : (sortTp bpms).Perm bpms := sortTp_perm bpms
  unfold groupSum
  rw [dominantRows_eq bpms L hd hL]
  have hk : ((sortTp bpms).map (fun p => (p.bpm, span (bpms.map (·.time)) L p.time))).map (·.1)
      = (sortTp bpms).map (·.bpm) := by simp [List.map_map, Function.comp_def]
  rw [hk]
  apply List.map_congr_left
  intro k _
  rw [filter_rows (fun p => span (bpms.map (·.time)) L p.time) k (sortTp bpms)]
  rw [sumRat_perm ((hperm.filter _).map _)]
  rfl

/-- **dominant_is_max.** For every chart with at least one tempo point, no two tempo points at the same
time, tempo rows in *any* order, and `last` at or after every tempo point (it is `stack().offset.max()`),
`dominant_bpm` returns a bpm value of the chart whose total active time between the first tempo point and
the last object is maximal. (Ties: the value returned is one of the maximisers.) -/
theorem dominant_is_max (bpms : List Tp) (L : Rat) (hne : bpms ≠ [])
    (hd : (bpms.map (·.time)).Nodup) (hL : ∀ p ∈ bpms, p.time ≤ L) :
    ∃ v, dominantBpm bpms L = some v ∧ IsDominant bpms L v := by
  have hperm : (sortTp bpms).Perm bpms := sortTp_perm bpms
  have hmemk : ∀ k, k ∈ groupKeys ((sortTp bpms).map (·.bpm)) ↔ ∃ p ∈ bpms, p.bpm = k := by
    intro k
    rw [mem_groupKeys, List.mem_map]
    constructor
    · rintro ⟨p, hp, rfl⟩; exact ⟨p, hperm.mem_iff.mp hp, rfl⟩
    · rintro ⟨p, hp, rfl⟩; exact ⟨p, hperm.mem_iff.mpr hp, rfl⟩
  have hgs := groupSum_dominantRows bpms L hd hL
  obtain ⟨p0, hp0⟩ := List.exists_mem_of_ne_nil bpms hne
  have hne' : groupSum (dominantRows bpms L) ≠ [] := by
    rw [hgs]
    apply List.ne_nil_of_mem (a := (p0.bpm, totalTime bpms L p0.bpm))
    exact List.mem_map.mpr ⟨p0.bpm, (hmemk _).mpr ⟨p0, hp0, rfl⟩, rfl⟩
  obtain ⟨q, hq, hidx, hmax⟩ := idxmax_spec hne'
  rw [hgs] at hq hmax
  obtain ⟨k, hk, rfl⟩ := List.mem_map.mp hq
  refine ⟨k, hidx, (hmemk k).mp hk, ?_⟩
  intro p hp
  exact hmax (p.bpm, totalTime bpms L p.bpm)
    (List.mem_map.mpr ⟨p.bpm, (hmemk _).mpr ⟨p, hp, rfl⟩, rfl⟩)

/-- the decidable form the driver evaluates on implementation output is the stated relation -/
theorem isDominantB_iff (bpms : List Tp) (L v : Rat) : isDominantB bpms L v = true ↔ IsDominant bpms L v := by
  simp [isDominantB, IsDominant]

/-! non-vacuity: unsorted rows, a repeated bpm value, an exact tie (both 100 and 200 total 1500 ms; the code returns 100) -/
example : dominantBpm [⟨1000, 200⟩, ⟨0, 100⟩, ⟨1500, 100⟩, ⟨2000, 200⟩] 3000 = some 100 := by decide +kernel
example : IsDominant [⟨1000, 200⟩, ⟨0, 100⟩, ⟨1500, 100⟩, ⟨2000, 200⟩] 3000 200 := by
  rw [← isDominantB_iff]; decide +kernel
example : ¬ IsDominant [⟨1000, 200⟩, ⟨0, 100⟩] 1500 200 := by
  rw [← isDominantB_iff]; decide +kernel

/-- the error branch is covered, not totalised: with no tempo point `idxmax` raises (model: `none`) -/
theorem dominant_empty (L : Rat) : dominantBpm [] L = none := rfl

/-! ### reference bpm: an override replaces the dominant bpm -/

theorem refBpm_override (bpms : List Tp) (L b : Rat) (hb : b ≠ 0) : refBpm bpms L (some b) = some b := by
  simp [refBpm, hb]

theorem refBpm_default (bpms : List Tp) (L : Rat) : refBpm bpms L overrideDefault = dominantBpm bpms L := rfl

/-- the reference is the override when one is given (non-zero), else a dominant bpm -/
theorem refBpm_spec (bpms : List Tp) (L : Rat) (ov : Option Rat) (hne : bpms ≠ [])
    (hd : (bpms.map (·.time)).Nodup) (hL : ∀ p ∈ bpms, p.time ≤ L) (hov : ∀ b, ov = some b → b ≠ 0) :
    ∃ ref, refBpm bpms L ov = some ref ∧ IsRef bpms L ov ref := by
  cases ov with
  | none => exact dominant_is_max bpms L hne hd hL
  | some b => exact ⟨b, refBpm_override bpms L b (hov b (by simp)), rfl⟩

/-! ### SV normalisation -/

/-- **sv_normalize_spec.** One SV per tempo point (row by row), at its time, whose multiplier times that bpm
is the reference — for any reference, any number and order of tempo points, bpm ≠ 0. -/
theorem sv_normalize_spec (bpms : List Tp) (ref : Rat) (hb : ∀ p ∈ bpms, p.bpm ≠ 0) :
    SvNormOk bpms ref (svNormalizeWith bpms ref) := by
  refine ⟨by simp [svNormalizeWith], ?_⟩
  intro i h h'
  simp only [svNormalizeWith, List.getElem_map]
  exact ⟨trivial, div_mul_cancel₀ ref (hb _ (List.getElem_mem h))⟩

/-- `sv_normalize(m, override)`: the reference is the override or a dominant bpm, and the result normalises
every tempo point to it -/
theorem sv_normalize_correct (bpms : List Tp) (L : Rat) (ov : Option Rat) (hne : bpms ≠ [])
    (hd : (bpms.map (·.time)).Nodup) (hL : ∀ p ∈ bpms, p.time ≤ L) (hb : ∀ p ∈ bpms, p.bpm ≠ 0)
    (hov : ∀ b, ov = some b → b ≠ 0) :
    ∃ ref out, svNormalize bpms L ov = some out ∧ IsRef bpms L ov ref ∧ SvNormOk bpms ref out := by
  obtain ⟨ref, href, hspec⟩ := refBpm_spec bpms L ov hne hd hL hov
  exact ⟨ref, svNormalizeWith bpms ref, by simp [svNormalize, href], hspec, sv_normalize_spec bpms ref hb⟩

theorem svNormOkB_sound (bpms : List Tp) (ref : Rat) (out : List Sv) :
    svNormOkB bpms ref out = true → SvNormOk bpms ref out := by
  intro h
  simp only [svNormOkB, Bool.and_eq_true, decide_eq_true_eq, List.all_eq_true] at h
  refine ⟨h.1, ?_⟩
  intro i hi hi'
  have := h.2 (bpms[i], out[i]) (by
    rw [List.mem_iff_getElem]
    exact ⟨i, by simp [List.length_zip, hi, hi'], by simp⟩)
  simpa using this

example : svNormalize [⟨1000, 200⟩, ⟨0, 100⟩] 1500 none = some [⟨1000, 1/2⟩, ⟨0, 1⟩] := by decide +kernel
example : svNormalize [⟨1000, 200⟩, ⟨0, 100⟩] 1500 (some 300) = some [⟨1000, 3/2⟩, ⟨0, 3⟩] := by decide +kernel

/-! ### scroll speed

Full statement (DESIGN §6 `scroll_speed_spec`), kept visible:

    theorem scroll_speed_spec (hasSv bpms svs omin omax ov) (tempo points distinct, one exists, bpm ≠ 0,
        omax at or after every tempo point, no marker/tempo tie at omax — D28) :
      ∃ ref out, scrollSpeed hasSv bpms svs omin omax ov = some out ∧ IsRef bpms omax ov ref ∧
        speedOkB hasSv bpms svs omin omax ref out = true

i.e. the offsets of the result are exactly the breakpoints and every value at or after the first tempo point is
`active bpm / ref · active multiplier`.  Proved below: the reference part (`scroll_speed_ref_partial`), the row
formula, the step-function mechanism (`ffill_last_valid`, for every frame), the whole tempo side
(`ffill_active`, `sorted_bpmRows_ok`, `bpm_frame_spec`) and from it the statement for games without SVs up to
the set of offsets (`scroll_speed_nosv_spec_partial`).  NOT proved: (a) that the result's offsets are exactly
the breakpoints, (b) the SV side (`groupLast`, `mergeOuter`, the fills of the merged frame = the SV in force of
`Spec.activeMults`); (a) and (b) rest on the executable check of `speedOkB` on the model's and the
implementation's output. -/

/-- the reference of `scroll_speed` is the override when one is given, else a dominant bpm; the result is the
filled frame mapped row by row through `speedOf ref` -/
theorem scroll_speed_ref_partial (hasSv : Bool) (bpms : List Tp) (svs : List Sv) (omin omax : Rat)
    (ov : Option Rat) (hne : bpms ≠ []) (hd : (bpms.map (·.time)).Nodup) (hL : ∀ p ∈ bpms, p.time ≤ omax)
    (hov : ∀ b, ov = some b → b ≠ 0) :
    ∃ ref, IsRef bpms omax ov ref ∧
      scrollSpeed hasSv bpms svs omin omax ov = some ((speedFrame hasSv bpms svs omin omax).map (speedOf ref)) := by
  obtain ⟨ref, href, hspec⟩ := refBpm_spec bpms omax ov hne hd hL hov
  exact ⟨ref, hspec, by simp [scrollSpeed, href]⟩

/-- speed = bpm / reference · multiplier, row by row -/
theorem speedOf_formula (ref t b m : Rat) : speedOf ref ⟨t, some b, some m⟩ = (t, some (b / ref * m)) := rfl

/-- games without SVs: the multiplier column is the constant 1 -/
theorem speedFrame_noSv (bpms : List Tp) (svs : List Sv) (omin omax : Rat) :
    speedFrame false bpms svs omin omax = (bpmFrame bpms omin omax).map (fun r => ⟨r.1, r.2, some 1⟩) := rfl

/- `ffill_last_valid`, `ffill_value_source` (the step-function mechanism, for every frame) live in
`Lemmas/AnalysisSpeed.lean`. -/

/-- **ffill_active** — the forward fill of a tempo frame is the active-tempo step function. For every list of
tempo points with distinct times and *every* arrangement `l` of the frame's rows that is sorted by offset and
never puts a valueless row before a valued row of the same offset: each row of `l.ffill()` carries the bpm of
the tempo point in force at its offset, or nothing when it lies strictly before every tempo point. -/
theorem ffill_active (bpms : List Tp) (l : List Row)
    (hs : l.Pairwise (fun a b => a.1 ≤ b.1)) (hf : FrameOf bpms l) (hv : ValuedFirst l)
    (x : Row) (hx : x ∈ ffill l) :
    (∃ p, IsActiveTp bpms x.1 p ∧ x.2 = some p.bpm) ∨ (x.2 = none ∧ ∀ p ∈ bpms, x.1 < p.time) := by
  obtain ⟨a, r, b, hl, rfl⟩ := ffill_last_valid l x hx
  obtain ⟨t, rv⟩ := r
  rw [List.map_append, List.map_cons, List.map_nil, lastSome_snoc]
  rw [hl] at hs
  obtain ⟨hsa, hsrb, hab⟩ := List.pairwise_append.mp hs
  have hrb := (List.pairwise_cons.mp hsrb).1
  cases rv with
  | some v' =>
    left
    refine ⟨⟨t, v'⟩, ⟨hf.1 t v' (by rw [hl]; simp), le_refl _, fun q _ hq => hq⟩, rfl⟩
  | none =>
    simp only [pick]
    -- a tempo row can neither be the marker row itself nor follow it at the same offset
    have hnotb : ∀ q ∈ bpms, (q.time, some q.bpm) ∈ b → t < q.time := by
      intro q _ hqb
      have h1 : t ≤ q.time := hrb _ hqb
      rcases lt_or_eq_of_le h1 with h | h
      · exact h
      · have := hv a b t hl _ hqb h.symm
        simp at this
    cases hls : lastSome (a.map (·.2)) with
    | none =>
      right
      refine ⟨rfl, ?_⟩
      intro q hq
      have hrow : (q.time, some q.bpm) ∈ l := hf.2 q hq
      rw [hl] at hrow
      rcases List.mem_append.mp hrow with h | h
      · have := lastSome_eq_none hls (some q.bpm) (List.mem_map.mpr ⟨_, h, rfl⟩)
        simp at this
      · rcases List.mem_cons.mp h with h | h
        · simp at h
        · exact hnotb q hq h
    | some v =>
      left
      obtain ⟨v1, v2, hsplit, hnone⟩ := lastSome_eq_some hls
      obtain ⟨P1, P2', hP, hP1, hP2'⟩ := List.map_eq_append_iff.mp hsplit
      obtain ⟨w, P2, hP2, hw, hP2m⟩ := List.map_eq_cons_iff.mp hP2'
      subst hP2
      obtain ⟨wt, wv⟩ := w
      simp only at hw
      subst hw
      have hwa : (wt, some v) ∈ a := by rw [hP]; simp
      have hP2none : ∀ y ∈ P2, y.2 = none := by
        intro y hy
        exact hnone _ (by rw [← hP2m]; exact List.mem_map.mpr ⟨y, hy, rfl⟩)
      rw [hP] at hsa
      obtain ⟨_, _, hP1w⟩ := List.pairwise_append.mp hsa
      refine ⟨⟨wt, v⟩, ⟨hf.1 wt v (by rw [hl]; exact List.mem_append_left _ hwa), ?_, ?_⟩, rfl⟩
      · exact hab _ hwa (t, none) (by simp)
      · intro q hq hqt
        have hrow : (q.time, some q.bpm) ∈ l := hf.2 q hq
        rw [hl] at hrow
        rcases List.mem_append.mp hrow with h | h
        · rw [hP] at h
          rcases List.mem_append.mp h with h | h
          · exact hP1w _ h (wt, some v) (by simp)
          · rcases List.mem_cons.mp h with h | h
            · simp only [Prod.mk.injEq] at h
              exact le_of_eq h.1
            · have := hP2none _ h
              simp at this
        · rcases List.mem_cons.mp h with h | h
          · simp at h
          · exact absurd hqt (not_le.mpr (hnotb q hq h))

/-- the stable arrangement the model sorts into satisfies the three hypotheses of `ffill_active` -/
theorem sorted_bpmRows_ok (bpms : List Tp) (omin omax : Rat) :
    (sortRow (bpmRows bpms omin omax)).Pairwise (fun a b => a.1 ≤ b.1) ∧
    FrameOf bpms (sortRow (bpmRows bpms omin omax)) ∧ ValuedFirst (sortRow (bpmRows bpms omin omax)) := by
  refine ⟨sortRow_sorted _, ⟨?_, ?_⟩, ?_⟩
  · intro t b h
    have h' := (isort_perm _ _).mem_iff.mp h
    simp only [bpmRows, headTailBpm, List.zip_cons_cons, List.zip_nil_right, List.mem_append, List.mem_map,
      List.mem_cons, Prod.mk.injEq, List.not_mem_nil, or_false] at h'
    rcases h' with ⟨p, hp, rfl, hb⟩ | h' | h'
    · simp only [Option.some.injEq] at hb
      subst hb
      exact hp
    · simp at h'
    · simp at h'
  · intro p hp
    apply (isort_perm _ _).mem_iff.mpr
    simp only [bpmRows, List.mem_append, List.mem_map]
    exact Or.inl ⟨p, hp, rfl⟩
  · apply VF_valuedFirst
    unfold bpmRows
    apply VF_sortRow
    · intro r hr
      obtain ⟨p, _, rfl⟩ := List.mem_map.mp hr
      simp
    · intro r hr
      simp only [headTailBpm, List.zip_cons_cons, List.zip_nil_right, List.mem_cons, List.not_mem_nil, or_false] at hr
      rcases hr with rfl | rfl <;> rfl

/-- **bpm_frame_spec** — the tempo step function of `scroll_speed` (sort, ffill, bfill, drop_duplicates), for
every tempo list in any row order and any first / last stacked offset: each row of the frame carries the bpm
of a tempo point in force at its offset, or lies strictly before every tempo point (where the statement is
silent). -/
theorem bpm_frame_spec (bpms : List Tp) (omin omax : Rat) (x : Row) (hx : x ∈ bpmFrame bpms omin omax) :
    (∃ p, IsActiveTp bpms x.1 p ∧ x.2 = some p.bpm) ∨ (∀ p ∈ bpms, x.1 < p.time) := by
  obtain ⟨hs, hf, hv⟩ := sorted_bpmRows_ok bpms omin omax
  have hx' := mem_dropDup (by simpa [bpmFrame, bpmFrameOf] using hx)
  rcases mem_bfill hx' with h | h
  · rcases ffill_active bpms _ hs hf hv x h with h1 | h1
    · exact Or.inl h1
    · exact Or.inr h1.2
  · rcases ffill_active bpms _ hs hf hv (x.1, none) h with ⟨p, _, hp⟩ | h1
    · simp at hp
    · exact Or.inr h1.2

/-- **scroll_speed_nosv_spec_partial** — games without SVs: the reference is the override or a dominant bpm,
and every result row at or after some tempo point is `active bpm / reference` (· 1). Missing for the full
`scroll_speed_spec`: that the result's offsets are exactly the breakpoints, and the SV side. -/
theorem scroll_speed_nosv_spec_partial (bpms : List Tp) (svs : List Sv) (omin omax : Rat) (ov : Option Rat)
    (hne : bpms ≠ []) (hd : (bpms.map (·.time)).Nodup) (hL : ∀ p ∈ bpms, p.time ≤ omax)
    (hov : ∀ b, ov = some b → b ≠ 0) :
    ∃ ref out, scrollSpeed false bpms svs omin omax ov = some out ∧ IsRef bpms omax ov ref ∧
      ∀ y ∈ out, (∃ p, IsActiveTp bpms y.1 p ∧ y.2 = some (p.bpm / ref * 1)) ∨ (∀ p ∈ bpms, y.1 < p.time) := by
  obtain ⟨ref, href, hout⟩ := scroll_speed_ref_partial false bpms svs omin omax ov hne hd hL hov
  refine ⟨ref, _, hout, href, ?_⟩
  intro y hy
  rw [speedFrame_noSv, List.map_map] at hy
  obtain ⟨x, hx, rfl⟩ := List.mem_map.mp hy
  rcases bpm_frame_spec bpms omin omax x hx with ⟨p, hp, hv⟩ | h
  · left
    refine ⟨p, hp, ?_⟩
    simp [speedOf, optMul, hv]
  · right
    simpa [speedOf] using h

/-- a row that carries `active bpm / ref` (or lies before every tempo point) passes the executable row check -/
theorem rowOkB_noSv_of (bpms : List Tp) (svs : List Sv) (ref : Rat) (y : Rat × Option Rat)
    (h : (∃ p, IsActiveTp bpms y.1 p ∧ y.2 = some (p.bpm / ref * 1)) ∨ (∀ p ∈ bpms, y.1 < p.time)) :
    rowOkB false bpms svs ref y = true := by
  unfold rowOkB
  rcases h with ⟨p, hp, hv⟩ | h
  · rw [hv, Bool.or_eq_true]
    right
    simp only [allowedSpeeds, List.contains_iff_mem, List.mem_flatMap]
    exact ⟨p, mem_activeTps.mpr hp, by simp⟩
  · rw [activeTps_nil_of_before h]
    rfl

/-- **scroll_speed_nosv_spec** — games without SVs, in full: the reference is the override or a dominant bpm,
the result's offsets are exactly the breakpoints (tempo times ∪ {first, last stacked offset}) and every value
at or after a tempo point is `active bpm / reference`: the executable specification `speedOkB` — the one the
driver evaluates on the implementation's output — holds on the model's output, for every chart. -/
theorem scroll_speed_nosv_spec (bpms : List Tp) (svs : List Sv) (omin omax : Rat) (ov : Option Rat)
    (hne : bpms ≠ []) (hd : (bpms.map (·.time)).Nodup) (hL : ∀ p ∈ bpms, p.time ≤ omax)
    (hov : ∀ b, ov = some b → b ≠ 0) :
    ∃ ref out, scrollSpeed false bpms svs omin omax ov = some out ∧ IsRef bpms omax ov ref ∧
      speedOkB false bpms svs omin omax ref out = true := by
  obtain ⟨ref, out, hout, href, hrows⟩ := scroll_speed_nosv_spec_partial bpms svs omin omax ov hne hd hL hov
  refine ⟨ref, out, hout, href, ?_⟩
  obtain ⟨ref', _, hout'⟩ := scroll_speed_ref_partial false bpms svs omin omax ov hne hd hL hov
  rw [hout'] at hout
  simp only [Option.some.injEq] at hout
  simp only [speedOkB, Bool.and_eq_true, decide_eq_true_eq, List.all_eq_true]
  refine ⟨?_, fun y hy => rowOkB_noSv_of bpms svs ref y (hrows y hy)⟩
  unfold breakpoints
  apply groupKeys_congr
  intro t
  have hfst : out.map (·.1) = (bpmFrame bpms omin omax).map (·.1) := by
    rw [← hout, speedFrame_noSv]
    simp [List.map_map, Function.comp_def, speedOf]
  rw [hfst, mem_fst_bpmFrame]
  simp

/-- D28 on the model: the tempo frame of `[(0, 100), (1000, 200)]` with the last stacked offset at 1000. The
arrangement `arr` is a permutation of the frame's rows and is sorted by offset — a legitimate result of an
unstable sort — yet filling it produces the row (1000, 100), which the specification rejects (at 1000 the
active bpm is 200); the stable arrangement the model uses does not. -/
theorem sort_tie_counterexample :
    let bpms : List Tp := [⟨0, 100⟩, ⟨1000, 200⟩]
    let arr : List Row := [(0, some 100), (0, none), (1000, none), (1000, some 200)]
    arr.Perm (bpmRows bpms 0 1000) ∧ arr.Pairwise (fun a b => a.1 ≤ b.1) ∧
      (1000, some 100) ∈ bpmFrameOf arr ∧
      rowOkB false bpms [] 100 (speedOf 100 ⟨1000, some 100, some 1⟩) = false ∧
      tieAtMaxB bpms 1000 = true ∧
      (1000, some 100) ∉ bpmFrame bpms 0 1000 := by decide +kernel

/-! non-vacuity / worked instances: SV before the first tempo point, coinciding SVs, SV on a tempo point, tempo
point after the last note; the model's output satisfies the executable specification -/
example : scrollSpeed true [⟨0, 100⟩, ⟨1000, 200⟩] [⟨-500, 1/2⟩, ⟨1500, 2⟩, ⟨1500, 3⟩] (-500) 3000 none
    = some [(-500, some (1/4)), (0, some (1/2)), (1000, some 1), (1500, some 3), (3000, some 3)] := by decide +kernel
example : speedOkB true [⟨0, 100⟩, ⟨1000, 200⟩] [⟨-500, 1/2⟩, ⟨1500, 2⟩, ⟨1500, 3⟩] (-500) 3000 200
    [(-500, some (1/4)), (0, some (1/2)), (1000, some 1), (1500, some 3), (3000, some 3)] = true := by decide +kernel
example : scrollSpeed false [⟨1000, 200⟩, ⟨0, 100⟩] [] 0 1500 (some 50)
    = some [(0, some 2), (1000, some 4), (1500, some 4)] := by decide +kernel

end Reamber.Analysis
