/-
C19 — Dominant bpm, scroll speed and SV normalisation follow their definitions.
Property theorems (helper lemmas: `Reamber/Lemmas/Analysis.lean`).  Statements are about the executable model
`Reamber/Model/Analysis.lean`, which the correspondence check ties to
reamber/algorithms/{utils/dominant_bpm.py, analysis/scroll_speed.py, generate/sv_normalize.py} on every run,
against the declarative `Reamber/Spec/Analysis.lean` (the same definitions the driver evaluates on the
implementation's output).
-/
import Reamber.Lemmas.AnalysisSpeed
import Reamber.Lemmas.AnalysisChart
import Reamber.Generated.Analysis

namespace Reamber.Analysis

/-- Tie to the source: the literals of scroll_speed.py's helper frames, the `override_bpm` defaults, the set of
games with SVs and the fact that `stack()` ranges over the tempo/SV lists are what the translator read from
the code. Re-checked whenever they change. -/
theorem consts_tie :
    resetMult = Generated.Analysis.resetMult ∧
    headTailMult = Generated.Analysis.headTailMult ∧
    headTailBpm = Generated.Analysis.headTailBpm ∧
    overrideDefault = Generated.Analysis.overrideDefault ∧
    gamesWithSv = Generated.Analysis.gamesWithSv ∧
    sortKinds = Generated.Analysis.sortKinds ∧
    Generated.Analysis.stackCoversTempoAndSv = true := by decide +kernel

/-! ### dominant bpm -/

/-- The rows `dominant_bpm` groups: after both sorts and the positional pairing, each tempo point (in time
order) carries exactly its own active span — for tempo rows in any order. -/
theorem dominantRows_eq (bpms : List Tp) (L : Rat) (hd : (bpms.map (·.time)).Nodup) (hL : ∀ p ∈ bpms, p.time ≤ L) :
    dominantRows bpms L = (sortTp bpms).map (fun p => (p.bpm, span (bpms.map (·.time)) L p.time)) := by
  have hperm : (sortTp bpms).Perm bpms := sortTp_perm bpms
  have hsorted := sortTp_sorted bpms
  have hnd : ((sortTp bpms).map (·.time)).Nodup := (hperm.map _).nodup_iff.mpr hd
  have hstrict : ((sortTp bpms).map (·.time)).Pairwise (· < ·) := by
    have h1 : ((sortTp bpms).map (·.time)).Pairwise (· ≤ ·) := List.pairwise_map.mpr hsorted
    exact (h1.and hnd).imp (fun h => lt_of_le_of_ne h.1 h.2)
  have hLs : ∀ p ∈ sortTp bpms, p.time ≤ L := fun p hp => hL p (hperm.mem_iff.mp hp)
  have hsortid : sortRat ((sortTp bpms).map (·.time) ++ [L]) = (sortTp bpms).map (·.time) ++ [L] := by
    apply isort_eq_self
    rw [List.pairwise_append]
    refine ⟨hstrict.imp (fun h => by simpa using le_of_lt h), by simp, ?_⟩
    intro x hx y hy
    simp only [List.mem_singleton] at hy
    subst hy
    obtain ⟨p, hp, rfl⟩ := List.mem_map.mp hx
    simpa using hLs p hp
  unfold dominantRows
  simp only []
  rw [hsortid, rows_sorted (sortTp bpms) L [] hstrict (by simp) hLs]
  simp only [List.nil_append]
  apply List.map_congr_left
  intro p _
  rw [span_perm (hperm.map _)]

/-- `groupby(level=0).sum()` of those rows is the declarative total of every bpm value -/
theorem groupSum_dominantRows (bpms : List Tp) (L : Rat) (hd : (bpms.map (·.time)).Nodup)
    (hL : ∀ p ∈ bpms, p.time ≤ L) :
    groupSum (dominantRows bpms L)
      = (groupKeys ((sortTp bpms).map (·.bpm))).map (fun k => (k, totalTime bpms L k)) := by
  have hperm : (sortTp bpms).Perm bpms := sortTp_perm bpms
  unfold groupSum
  rw [dominantRows_eq bpms L hd hL]
  have hk : ((sortTp bpms).map (fun p => (p.bpm, span (bpms.map (·.time)) L p.time))).map (·.1)
      = (sortTp bpms).map (·.bpm) := by simp [List.map_map, Function.comp_def]
  rw [hk]
  apply List.map_congr_left
  intro k _
  rw [filter_rows (fun p => span (bpms.map (·.time)) L p.time) k (sortTp bpms)]
  rw [sumRat_perm ((hperm.filter _).map _)]
  rfl

/-- **dominant_is_max.** For every chart with at least one tempo point, no two tempo points at the same
time, tempo rows in *any* order, and `last` at or after every tempo point (it is `stack().offset.max()`),
`dominant_bpm` returns a bpm value of the chart whose total active time between the first tempo point and
the last object is maximal. (Ties: the value returned is one of the maximisers.) -/
theorem dominant_is_max (bpms : List Tp) (L : Rat) (hne : bpms ≠ [])
    (hd : (bpms.map (·.time)).Nodup) (hL : ∀ p ∈ bpms, p.time ≤ L) :
    ∃ v, dominantBpm bpms L = some v ∧ IsDominant bpms L v := by
  have hperm : (sortTp bpms).Perm bpms := sortTp_perm bpms
  have hmemk : ∀ k, k ∈ groupKeys ((sortTp bpms).map (·.bpm)) ↔ ∃ p ∈ bpms, p.bpm = k := by
    intro k
    rw [mem_groupKeys, List.mem_map]
    constructor
    · rintro ⟨p, hp, rfl⟩; exact ⟨p, hperm.mem_iff.mp hp, rfl⟩
    · rintro ⟨p, hp, rfl⟩; exact ⟨p, hperm.mem_iff.mpr hp, rfl⟩
  have hgs := groupSum_dominantRows bpms L hd hL
  obtain ⟨p0, hp0⟩ := List.exists_mem_of_ne_nil bpms hne
  have hne' : groupSum (dominantRows bpms L) ≠ [] := by
    rw [hgs]
    apply List.ne_nil_of_mem (a := (p0.bpm, totalTime bpms L p0.bpm))
    exact List.mem_map.mpr ⟨p0.bpm, (hmemk _).mpr ⟨p0, hp0, rfl⟩, rfl⟩
  obtain ⟨q, hq, hidx, hmax⟩ := idxmax_spec hne'
  rw [hgs] at hq hmax
  obtain ⟨k, hk, rfl⟩ := List.mem_map.mp hq
  refine ⟨k, hidx, (hmemk k).mp hk, ?_⟩
  intro p hp
  exact hmax (p.bpm, totalTime bpms L p.bpm)
    (List.mem_map.mpr ⟨p.bpm, (hmemk _).mpr ⟨p, hp, rfl⟩, rfl⟩)

/-- the decidable form the driver evaluates on implementation output is the stated relation -/
theorem isDominantB_iff (bpms : List Tp) (L v : Rat) : isDominantB bpms L v = true ↔ IsDominant bpms L v := by
  simp [isDominantB, IsDominant]

/-! non-vacuity: unsorted rows, a repeated bpm value, an exact tie (both 100 and 200 total 1500 ms; the code returns 100) -/
example : dominantBpm [⟨1000, 200⟩, ⟨0, 100⟩, ⟨1500, 100⟩, ⟨2000, 200⟩] 3000 = some 100 := by decide +kernel
example : IsDominant [⟨1000, 200⟩, ⟨0, 100⟩, ⟨1500, 100⟩, ⟨2000, 200⟩] 3000 200 := by
  rw [← isDominantB_iff]; decide +kernel
example : ¬ IsDominant [⟨1000, 200⟩, ⟨0, 100⟩] 1500 200 := by
  rw [← isDominantB_iff]; decide +kernel

/-- the error branch is covered, not totalised: with no tempo point `idxmax` raises (model: `none`) -/
theorem dominant_empty (L : Rat) : dominantBpm [] L = none := rfl

/-! ### reference bpm: an override replaces the dominant bpm -/

theorem refBpm_override (bpms : List Tp) (L b : Rat) (hb : b ≠ 0) : refBpm bpms L (some b) = some b := by
  simp [refBpm, hb]

theorem refBpm_default (bpms : List Tp) (L : Rat) : refBpm bpms L overrideDefault = dominantBpm bpms L := rfl

/-- the reference is the override when one is given (non-zero), else a dominant bpm -/
theorem refBpm_spec (bpms : List Tp) (L : Rat) (ov : Option Rat) (hne : bpms ≠ [])
    (hd : (bpms.map (·.time)).Nodup) (hL : ∀ p ∈ bpms, p.time ≤ L) (hov : ∀ b, ov = some b → b ≠ 0) :
    ∃ ref, refBpm bpms L ov = some ref ∧ IsRef bpms L ov ref := by
  cases ov with
  | none => exact dominant_is_max bpms L hne hd hL
  | some b => exact ⟨b, refBpm_override bpms L b (hov b (by simp)), rfl⟩

/-! ### SV normalisation -/

/-- **sv_normalize_spec.** One SV per tempo point (row by row), at its time, whose multiplier times that bpm
is the reference — for any reference, any number and order of tempo points, bpm ≠ 0. -/
theorem sv_normalize_spec (bpms : List Tp) (ref : Rat) (hb : ∀ p ∈ bpms, p.bpm ≠ 0) :
    SvNormOk bpms ref (svNormalizeWith bpms ref) := by
  refine ⟨by simp [svNormalizeWith], ?_⟩
  intro i h h'
  simp only [svNormalizeWith, List.getElem_map]
  exact ⟨trivial, div_mul_cancel₀ ref (hb _ (List.getElem_mem h))⟩

/-- `sv_normalize(m, override)`: the reference is the override or a dominant bpm, and the result normalises
every tempo point to it -/
theorem sv_normalize_correct (bpms : List Tp) (L : Rat) (ov : Option Rat) (hne : bpms ≠ [])
    (hd : (bpms.map (·.time)).Nodup) (hL : ∀ p ∈ bpms, p.time ≤ L) (hb : ∀ p ∈ bpms, p.bpm ≠ 0)
    (hov : ∀ b, ov = some b → b ≠ 0) :
    ∃ ref out, svNormalize bpms L ov = some out ∧ IsRef bpms L ov ref ∧ SvNormOk bpms ref out := by
  obtain ⟨ref, href, hspec⟩ := refBpm_spec bpms L ov hne hd hL hov
  exact ⟨ref, svNormalizeWith bpms ref, by simp [svNormalize, href], hspec, sv_normalize_spec bpms ref hb⟩

theorem svNormOkB_sound (bpms : List Tp) (ref : Rat) (out : List Sv) :
    svNormOkB bpms ref out = true → SvNormOk bpms ref out := by
  intro h
  simp only [svNormOkB, Bool.and_eq_true, decide_eq_true_eq, List.all_eq_true] at h
  refine ⟨h.1, ?_⟩
  intro i hi hi'
  have := h.2 (bpms[i], out[i]) (by
    rw [List.mem_iff_getElem]
    exact ⟨i, by simp [List.length_zip, hi, hi'], by simp⟩)
  simpa using this

example : svNormalize [⟨1000, 200⟩, ⟨0, 100⟩] 1500 none = some [⟨1000, 1/2⟩, ⟨0, 1⟩] := by decide +kernel
example : svNormalize [⟨1000, 200⟩, ⟨0, 100⟩] 1500 (some 300) = some [⟨1000, 3/2⟩, ⟨0, 3⟩] := by decide +kernel

/-! ### scroll speed

The full statement is `scroll_speed_spec` (below, proved): for every chart in the domain the model's result
satisfies the executable specification `speedOkB` - its offsets are exactly the breakpoints and every value at
or after the first tempo point is `active bpm / ref · active multiplier` - for a reference that is the override
or a dominant bpm.  Pieces: the reference (`scroll_speed_ref_partial`), the step-function mechanism
(`ffill_last_valid`, `ffill_sorted_some/none`), the tempo side (`ffill_active`, `sorted_bpmRows_ok`,
`bpm_frame_spec`), games without SVs (`scroll_speed_nosv_spec`), the SV side (`svFrame_spec`: concat +
groupby.last + ffill; `merged_bpm_col`, `merged_mult_col`: the outer merge; `filled_frame_spec`: sort + fills of
the merged frame), games with SVs (`scroll_speed_sv_spec`).  The theorems named `…_partial` are the earlier,
weaker statements; they are kept because the full ones are built on them. -/

/-- the reference of `scroll_speed` is the override when one is given, else a dominant bpm; the result is the
filled frame mapped row by row through `speedOf ref` -/
theorem scroll_speed_ref_partial (hasSv : Bool) (bpms : List Tp) (svs : List Sv) (omin omax : Rat)
    (ov : Option Rat) (hne : bpms ≠ []) (hd : (bpms.map (·.time)).Nodup) (hL : ∀ p ∈ bpms, p.time ≤ omax)
    (hov : ∀ b, ov = some b → b ≠ 0) :
    ∃ ref, IsRef bpms omax ov ref ∧
      scrollSpeed hasSv bpms svs omin omax ov = some ((speedFrame hasSv bpms svs omin omax).map (speedOf ref)) := by
  obtain ⟨ref, href, hspec⟩ := refBpm_spec bpms omax ov hne hd hL hov
  exact ⟨ref, hspec, by simp [scrollSpeed, href]⟩

/-- speed = bpm / reference · multiplier, row by row -/
theorem speedOf_formula (ref t b m : Rat) : speedOf ref ⟨t, some b, some m⟩ = (t, some (b / ref * m)) := rfl

/-- games without SVs: the multiplier column is the constant 1 -/
theorem speedFrame_noSv (bpms : List Tp) (svs : List Sv) (omin omax : Rat) :
    speedFrame false bpms svs omin omax = (bpmFrame bpms omin omax).map (fun r => ⟨r.1, r.2, some 1⟩) := rfl

/- `ffill_last_valid`, `ffill_value_source` (the step-function mechanism, for every frame) live in
`Lemmas/AnalysisSpeed.lean`. -/

/-- **ffill_active** — the forward fill of a tempo frame is the active-tempo step function. For every list of
tempo points with distinct times and *every* arrangement `l` of the frame's rows that is sorted by offset and
never puts a valueless row before a valued row of the same offset: each row of `l.ffill()` carries the bpm of
the tempo point in force at its offset, or nothing when it lies strictly before every tempo point. -/
theorem ffill_active (bpms : List Tp) (l : List Row)
    (hs : l.Pairwise (fun a b => a.1 ≤ b.1)) (hf : FrameOf bpms l) (hv : ValuedFirst l)
    (x : Row) (hx : x ∈ ffill l) :
    (∃ p, IsActiveTp bpms x.1 p ∧ x.2 = some p.bpm) ∨ (x.2 = none ∧ ∀ p ∈ bpms, x.1 < p.time) := by
  obtain ⟨a, r, b, hl, rfl⟩ := ffill_last_valid l x hx
  obtain ⟨t, rv⟩ := r
  rw [List.map_append, List.map_cons, List.map_nil, lastSome_snoc]
  rw [hl] at hs
  obtain ⟨hsa, hsrb, hab⟩ := List.pairwise_append.mp hs
  have hrb := (List.pairwise_cons.mp hsrb).1
  cases rv with
  | some v' =>
    left
    refine ⟨⟨t, v'⟩, ⟨hf.1 t v' (by rw [hl]; simp), le_refl _, fun q _ hq => hq⟩, rfl⟩
  | none =>
    simp only [pick]
    -- a tempo row can neither be the marker row itself nor follow it at the same offset
    have hnotb : ∀ q ∈ bpms, (q.time, some q.bpm) ∈ b → t < q.time := by
      intro q _ hqb
      have h1 : t ≤ q.time := hrb _ hqb
      rcases lt_or_eq_of_le h1 with h | h
      · exact h
      · have := hv a b t hl _ hqb h.symm
        simp at this
    cases hls : lastSome (a.map (·.2)) with
    | none =>
      right
      refine ⟨rfl, ?_⟩
      intro q hq
      have hrow : (q.time, some q.bpm) ∈ l := hf.2 q hq
      rw [hl] at hrow
      rcases List.mem_append.mp hrow with h | h
      · have := lastSome_eq_none hls (some q.bpm) (List.mem_map.mpr ⟨_, h, rfl⟩)
        simp at this
      · rcases List.mem_cons.mp h with h | h
        · simp at h
        · exact hnotb q hq h
    | some v =>
      left
      obtain ⟨v1, v2, hsplit, hnone⟩ := lastSome_eq_some hls
      obtain ⟨P1, P2', hP, hP1, hP2'⟩ := List.map_eq_append_iff.mp hsplit
      obtain ⟨w, P2, hP2, hw, hP2m⟩ := List.map_eq_cons_iff.mp hP2'
      subst hP2
      obtain ⟨wt, wv⟩ := w
      simp only at hw
      subst hw
      have hwa : (wt, some v) ∈ a := by rw [hP]; simp
      have hP2none : ∀ y ∈ P2, y.2 = none := by
        intro y hy
        exact hnone _ (by rw [← hP2m]; exact List.mem_map.mpr ⟨y, hy, rfl⟩)
      rw [hP] at hsa
      obtain ⟨_, _, hP1w⟩ := List.pairwise_append.mp hsa
      refine ⟨⟨wt, v⟩, ⟨hf.1 wt v (by rw [hl]; exact List.mem_append_left _ hwa), ?_, ?_⟩, rfl⟩
      · exact hab _ hwa (t, none) (by simp)
      · intro q hq hqt
        have hrow : (q.time, some q.bpm) ∈ l := hf.2 q hq
        rw [hl] at hrow
        rcases List.mem_append.mp hrow with h | h
        · rw [hP] at h
          rcases List.mem_append.mp h with h | h
          · exact hP1w _ h (wt, some v) (by simp)
          · rcases List.mem_cons.mp h with h | h
            · simp only [Prod.mk.injEq] at h
              exact le_of_eq h.1
            · have := hP2none _ h
              simp at this
        · rcases List.mem_cons.mp h with h | h
          · simp at h
          · exact absurd hqt (not_le.mpr (hnotb q hq h))

/-- the stable arrangement the model sorts into satisfies the three hypotheses of `ffill_active` -/
theorem sorted_bpmRows_ok (bpms : List Tp) (omin omax : Rat) :
    (sortRow (bpmRows bpms omin omax)).Pairwise (fun a b => a.1 ≤ b.1) ∧
    FrameOf bpms (sortRow (bpmRows bpms omin omax)) ∧ ValuedFirst (sortRow (bpmRows bpms omin omax)) := by
  refine ⟨sortRow_sorted _, ⟨?_, ?_⟩, ?_⟩
  · intro t b h
    have h' := (isort_perm _ _).mem_iff.mp h
    simp only [bpmRows, headTailBpm, List.zip_cons_cons, List.zip_nil_right, List.mem_append, List.mem_map,
      List.mem_cons, Prod.mk.injEq, List.not_mem_nil, or_false] at h'
    rcases h' with ⟨p, hp, rfl, hb⟩ | h' | h'
    · simp only [Option.some.injEq] at hb
      subst hb
      exact hp
    · simp at h'
    · simp at h'
  · intro p hp
    apply (isort_perm _ _).mem_iff.mpr
    simp only [bpmRows, List.mem_append, List.mem_map]
    exact Or.inl ⟨p, hp, rfl⟩
  · apply VF_valuedFirst
    unfold bpmRows
    apply VF_sortRow
    · intro r hr
      obtain ⟨p, _, rfl⟩ := List.mem_map.mp hr
      simp
    · intro r hr
      simp only [headTailBpm, List.zip_cons_cons, List.zip_nil_right, List.mem_cons, List.not_mem_nil, or_false] at hr
      rcases hr with rfl | rfl <;> rfl

/-- **bpm_frame_spec** — the tempo step function of `scroll_speed` (sort, ffill, bfill, drop_duplicates), for
every tempo list in any row order and any first / last stacked offset: each row of the frame carries the bpm
of a tempo point in force at its offset, or lies strictly before every tempo point (where the statement is
silent). -/
theorem bpm_frame_spec (bpms : List Tp) (omin omax : Rat) (x : Row) (hx : x ∈ bpmFrame bpms omin omax) :
    (∃ p, IsActiveTp bpms x.1 p ∧ x.2 = some p.bpm) ∨ (∀ p ∈ bpms, x.1 < p.time) := by
  obtain ⟨hs, hf, hv⟩ := sorted_bpmRows_ok bpms omin omax
  have hx' := mem_dropDup (by simpa [bpmFrame, bpmFrameOf] using hx)
  rcases mem_bfill hx' with h | h
  · rcases ffill_active bpms _ hs hf hv x h with h1 | h1
    · exact Or.inl h1
    · exact Or.inr h1.2
  · rcases ffill_active bpms _ hs hf hv (x.1, none) h with ⟨p, _, hp⟩ | h1
    · simp at hp
    · exact Or.inr h1.2

/-- **scroll_speed_nosv_spec_partial** — games without SVs: the reference is the override or a dominant bpm,
and every result row at or after some tempo point is `active bpm / reference` (· 1). Missing for the full
`scroll_speed_spec`: that the result's offsets are exactly the breakpoints, and the SV side. -/
theorem scroll_speed_nosv_spec_partial (bpms : List Tp) (svs : List Sv) (omin omax : Rat) (ov : Option Rat)
    (hne : bpms ≠ []) (hd : (bpms.map (·.time)).Nodup) (hL : ∀ p ∈ bpms, p.time ≤ omax)
    (hov : ∀ b, ov = some b → b ≠ 0) :
    ∃ ref out, scrollSpeed false bpms svs omin omax ov = some out ∧ IsRef bpms omax ov ref ∧
      ∀ y ∈ out, (∃ p, IsActiveTp bpms y.1 p ∧ y.2 = some (p.bpm / ref * 1)) ∨ (∀ p ∈ bpms, y.1 < p.time) := by
  obtain ⟨ref, href, hout⟩ := scroll_speed_ref_partial false bpms svs omin omax ov hne hd hL hov
  refine ⟨ref, _, hout, href, ?_⟩
  intro y hy
  rw [speedFrame_noSv, List.map_map] at hy
  obtain ⟨x, hx, rfl⟩ := List.mem_map.mp hy
  rcases bpm_frame_spec bpms omin omax x hx with ⟨p, hp, hv⟩ | h
  · left
    refine ⟨p, hp, ?_⟩
    simp [speedOf, optMul, hv]
  · right
    simpa [speedOf] using h

/-- a row that carries `active bpm / ref` (or lies before every tempo point) passes the executable row check -/
theorem rowOkB_noSv_of (bpms : List Tp) (svs : List Sv) (ref : Rat) (y : Rat × Option Rat)
    (h : (∃ p, IsActiveTp bpms y.1 p ∧ y.2 = some (p.bpm / ref * 1)) ∨ (∀ p ∈ bpms, y.1 < p.time)) :
    rowOkB false bpms svs ref y = true := by
  unfold rowOkB
  rcases h with ⟨p, hp, hv⟩ | h
  · rw [hv, Bool.or_eq_true]
    right
    simp only [allowedSpeeds, List.contains_iff_mem, List.mem_flatMap]
    exact ⟨p, mem_activeTps.mpr hp, by simp⟩
  · rw [activeTps_nil_of_before h]
    rfl

/-- **scroll_speed_nosv_spec** — games without SVs, in full: the reference is the override or a dominant bpm,
the result's offsets are exactly the breakpoints (tempo times ∪ {first, last stacked offset}) and every value
at or after a tempo point is `active bpm / reference`: the executable specification `speedOkB` — the one the
driver evaluates on the implementation's output — holds on the model's output, for every chart. -/
theorem scroll_speed_nosv_spec (bpms : List Tp) (svs : List Sv) (omin omax : Rat) (ov : Option Rat)
    (hne : bpms ≠ []) (hd : (bpms.map (·.time)).Nodup) (hL : ∀ p ∈ bpms, p.time ≤ omax)
    (hov : ∀ b, ov = some b → b ≠ 0) :
    ∃ ref out, scrollSpeed false bpms svs omin omax ov = some out ∧ IsRef bpms omax ov ref ∧
      speedOkB false bpms svs omin omax ref out = true := by
  obtain ⟨ref, out, hout, href, hrows⟩ := scroll_speed_nosv_spec_partial bpms svs omin omax ov hne hd hL hov
  refine ⟨ref, out, hout, href, ?_⟩
  obtain ⟨ref', _, hout'⟩ := scroll_speed_ref_partial false bpms svs omin omax ov hne hd hL hov
  rw [hout'] at hout
  simp only [Option.some.injEq] at hout
  simp only [speedOkB, Bool.and_eq_true, decide_eq_true_eq, List.all_eq_true]
  refine ⟨?_, fun y hy => rowOkB_noSv_of bpms svs ref y (hrows y hy)⟩
  unfold breakpoints
  apply groupKeys_congr
  intro t
  have hfst : out.map (·.1) = (bpmFrame bpms omin omax).map (·.1) := by
    rw [← hout, speedFrame_noSv]
    simp [List.map_map, Function.comp_def, speedOf]
  rw [hfst, mem_fst_bpmFrame]
  simp

/-! #### games with SVs -/

theorem tp_eq_of_time {bpms : List Tp} (hd : (bpms.map (·.time)).Nodup) {p q : Tp} (hp : p ∈ bpms) (hq : q ∈ bpms)
    (h : p.time = q.time) : p = q := by
  induction bpms with
  | nil => simp at hp
  | cons a t ih =>
    simp only [List.map_cons, List.nodup_cons, List.mem_map, not_exists, not_and] at hd
    rcases List.mem_cons.mp hp with rfl | hp' <;> rcases List.mem_cons.mp hq with rfl | hq'
    · rfl
    · exact absurd h.symm (hd.1 q hq')
    · exact absurd h (hd.1 p hp')
    · exact ih hd.2 hp' hq'

/-- every offset of the tempo frame is an offset of the SV frame -/
theorem fst_bpmFrame_sub_svFrame (bpms : List Tp) (svs : List Sv) (omin omax t : Rat)
    (h : t ∈ (bpmFrame bpms omin omax).map (·.1)) : t ∈ (svFrame bpms svs omin omax).map (·.1) := by
  unfold svFrame
  rw [map_fst_ffill, map_fst_groupLast, mem_groupKeys, mem_fst_svRows]
  rcases (mem_fst_bpmFrame bpms omin omax t).mp h with h | h | h
  · exact Or.inl h
  · exact Or.inr (Or.inl h)
  · exact Or.inr (Or.inr (Or.inl h))

/-- the bpm column of the merged frame: a value is the bpm in force at the row's offset (or the row lies before
every tempo point); at a tempo time the value is never empty -/
theorem merged_bpm_col (bpms : List Tp) (svs : List Sv) (omin omax : Rat) (q : MRow)
    (hq : q ∈ mergeOuter (bpmFrame bpms omin omax) (svFrame bpms svs omin omax)) :
    (∀ v, q.bpm = some v → (∃ p, IsActiveTp bpms q.t p ∧ v = p.bpm) ∨ (∀ p ∈ bpms, q.t < p.time)) ∧
    (∀ p ∈ bpms, q.t = p.time → q.bpm ≠ none) := by
  obtain ⟨hb, _⟩ := mem_mergeOuter hq
  constructor
  · intro v hv
    rcases hb with ⟨x, hx, hxt, hxv⟩ | ⟨hn, _⟩
    · rw [← hxt]
      rcases bpm_frame_spec bpms omin omax x hx with ⟨p, hp, hpv⟩ | h
      · left
        refine ⟨p, hp, ?_⟩
        rw [hv, hpv] at hxv
        exact Option.some.inj hxv
      · exact Or.inr h
    · rw [hn] at hv; simp at hv
  · intro p hp hqt
    rcases hb with ⟨x, hx, hxt, hxv⟩ | ⟨_, hno⟩
    · rw [hxv]
      rcases bpm_frame_spec bpms omin omax x hx with ⟨p', _, hpv⟩ | h
      · rw [hpv]; simp
      · have := h p hp
        rw [hxt, hqt] at this
        exact absurd this (lt_irrefl _)
    · exfalso
      have hmem : q.t ∈ (bpmFrame bpms omin omax).map (·.1) :=
        (mem_fst_bpmFrame ..).mpr (Or.inl (List.mem_map.mpr ⟨p, hp, hqt.symm⟩))
      obtain ⟨x, hx, hxt⟩ := List.mem_map.mp hmem
      exact hno x hx hxt

/-- the multiplier column of the merged frame: where a tempo point is in force the value is a multiplier the
specification admits -/
theorem merged_mult_col (bpms : List Tp) (svs : List Sv) (omin omax : Rat) (hmins : ∀ s ∈ svs, omin ≤ s.time)
    (q : MRow) (hq : q ∈ mergeOuter (bpmFrame bpms omin omax) (svFrame bpms svs omin omax))
    (p : Tp) (hp : IsActiveTp bpms q.t p) :
    ∃ m, q.mult = some m ∧ m ∈ activeMults svs p.time q.t := by
  obtain ⟨_, hm⟩ := mem_mergeOuter hq
  have hqt : q.t ∈ (svFrame bpms svs omin omax).map (·.1) := by
    rcases mem_t_mergeOuter.mp (List.mem_map.mpr ⟨q, hq, rfl⟩) with h | h
    · exact fst_bpmFrame_sub_svFrame bpms svs omin omax q.t h
    · exact h
  rcases hm with ⟨y, hy, hyt, hyv⟩ | ⟨_, hno⟩
  · rw [hyv]
    have := svFrame_spec bpms svs omin omax hmins y hy p (by rw [hyt]; exact hp)
    rw [hyt] at this
    exact this
  · exfalso
    obtain ⟨y, hy, hyt⟩ := List.mem_map.mp hqt
    exact hno y hy hyt

/-- **the merged, sorted and filled frame**: at every row where a tempo point `p` is in force, the bpm column
holds `p.bpm` and the multiplier column a multiplier the specification admits -/
theorem filled_frame_spec (bpms : List Tp) (svs : List Sv) (omin omax : Rat)
    (hd : (bpms.map (·.time)).Nodup) (hmins : ∀ s ∈ svs, omin ≤ s.time)
    (q : MRow) (hq : q ∈ speedFrame true bpms svs omin omax) (p : Tp) (hp : IsActiveTp bpms q.t p) :
    q.bpm = some p.bpm ∧ ∃ m, q.mult = some m ∧ m ∈ activeMults svs p.time q.t := by
  simp only [speedFrame, if_true] at hq
  -- the sorted merged frame
  have hperm := isort_perm (fun a b : MRow => decide (a.t ≤ b.t))
    (mergeOuter (bpmFrame bpms omin omax) (svFrame bpms svs omin omax))
  have hsorted : (sortMRow (mergeOuter (bpmFrame bpms omin omax) (svFrame bpms svs omin omax))).Pairwise
      (fun a b => a.t ≤ b.t) := by
    have := isort_pairwise (fun a b : MRow => decide (a.t ≤ b.t))
      (by intro a b; simp only [decide_eq_true_eq]; exact le_total _ _)
      (by intro a b c; simp only [decide_eq_true_eq]; exact le_trans)
      (mergeOuter (bpmFrame bpms omin omax) (svFrame bpms svs omin omax))
    simpa [sortMRow] using this
  have hmemS : ∀ q', q' ∈ sortMRow (mergeOuter (bpmFrame bpms omin omax) (svFrame bpms svs omin omax)) →
      q' ∈ mergeOuter (bpmFrame bpms omin omax) (svFrame bpms svs omin omax) := fun q' h => hperm.mem_iff.mp h
  have hmemS' : ∀ q', q' ∈ mergeOuter (bpmFrame bpms omin omax) (svFrame bpms svs omin omax) →
      q' ∈ sortMRow (mergeOuter (bpmFrame bpms omin omax) (svFrame bpms svs omin omax)) := fun q' h => hperm.mem_iff.mpr h
  generalize hS : sortMRow (mergeOuter (bpmFrame bpms omin omax) (svFrame bpms svs omin omax)) = S at *
  obtain ⟨pb, hpb, pm, hpm, hpbt, hpmt, hpbv, hpmv⟩ := mem_fillMerged hq
  have hsB : (S.map fun r => (r.t, r.bpm)).Pairwise (fun a b => a.1 ≤ b.1) := List.pairwise_map.mpr hsorted
  -- facts about the bpm column
  have hBval : ∀ u ∈ S.map (fun r => (r.t, r.bpm)), ∀ v, u.2 = some v →
      (∃ p', IsActiveTp bpms u.1 p' ∧ v = p'.bpm) ∨ (∀ p' ∈ bpms, u.1 < p'.time) := by
    intro u hu v hv
    obtain ⟨q', hq', rfl⟩ := List.mem_map.mp hu
    exact (merged_bpm_col bpms svs omin omax q' (hmemS q' hq')).1 v hv
  have hBtempo : ∀ p' ∈ bpms, ∀ u ∈ S.map (fun r => (r.t, r.bpm)), u.1 = p'.time → u.2 ≠ none := by
    intro p' hp' u hu hut
    obtain ⟨q', hq', rfl⟩ := List.mem_map.mp hu
    exact (merged_bpm_col bpms svs omin omax q' (hmemS q' hq')).2 p' hp' hut
  have hBexists : ∀ p' ∈ bpms, ∃ u ∈ S.map (fun r => (r.t, r.bpm)), u.1 = p'.time := by
    intro p' hp'
    have : p'.time ∈ (mergeOuter (bpmFrame bpms omin omax) (svFrame bpms svs omin omax)).map (·.t) :=
      mem_t_mergeOuter.mpr (Or.inl ((mem_fst_bpmFrame ..).mpr (Or.inl (List.mem_map.mpr ⟨p', hp', rfl⟩))))
    obtain ⟨q', hq', hqt⟩ := List.mem_map.mp this
    exact ⟨(q'.t, q'.bpm), List.mem_map.mpr ⟨q', hmemS' q' hq', rfl⟩, hqt⟩
  -- an empty filled value at this offset is impossible
  have hnone : ∀ x ∈ ffill (S.map fun r => (r.t, r.bpm)), x.1 = q.t → x.2 = none → False := by
    intro x hx hxt hxv
    obtain ⟨⟨r, hr, hr1, hr2⟩, hge⟩ := ffill_sorted_none hsB hx hxv
    obtain ⟨u, hu, hut⟩ := hBexists p hp.1
    have h1 : x.1 ≤ u.1 := hge u hu (hBtempo p hp.1 u hu hut)
    have heq : q.t = p.time := le_antisymm (by rw [← hxt, ← hut]; exact h1) hp.2.1
    exact hBtempo p hp.1 r hr (by rw [hr1, hxt, heq]) hr2
  constructor
  · -- the bpm column
    rw [← hpbv]
    rcases mem_bfill hpb with h | h
    · cases hv : pb.2 with
      | none => exact absurd hv (fun hv => hnone pb h hpbt hv)
      | some B =>
        obtain ⟨w, hw, hwv, hwle, hlt, hself⟩ := ffill_sorted_some hsB h hv
        rw [hpbt] at hwle hlt hself
        -- the tempo point in force lies at or before the source row
        have hpw : p.time ≤ w.1 := by
          obtain ⟨u, hu, hut⟩ := hBexists p hp.1
          rcases lt_or_eq_of_le hp.2.1 with h' | h'
          · rw [← hut]; exact hlt u hu (hBtempo p hp.1 u hu hut) (by rw [hut]; exact h')
          · rcases lt_or_eq_of_le hwle with h'' | h''
            · obtain ⟨r, hr, hr1, hr2⟩ := hself h''
              exact absurd hr2 (hBtempo p hp.1 r hr (by rw [hr1, h']))
            · rw [h', h'']
        rcases hBval w hw B hwv with ⟨p', hp', hB⟩ | hbefore
        · have h1 : p'.time ≤ p.time := hp.2.2 p' hp'.1 (le_trans hp'.2.1 hwle)
          have h2 : p.time ≤ p'.time := hp'.2.2 p hp.1 hpw
          have := tp_eq_of_time hd hp'.1 hp.1 (le_antisymm h1 h2)
          rw [hB, this]
        · exact absurd (hbefore p hp.1) (not_lt.mpr hpw)
    · exact absurd rfl (fun hv : ((pb.1, none) : Row).2 = none => hnone (pb.1, none) h hpbt hv)
  · -- the multiplier column
    have hMrows : ∀ u ∈ S.map (fun r => (r.t, r.mult)), u.1 = q.t →
        ∃ m, u.2 = some m ∧ m ∈ activeMults svs p.time q.t := by
      intro u hu hut
      obtain ⟨q', hq', rfl⟩ := List.mem_map.mp hu
      have hp' : IsActiveTp bpms q'.t p := by
        have : q'.t = q.t := hut
        rw [this]; exact hp
      have := merged_mult_col bpms svs omin omax hmins q' (hmemS q' hq') p hp'
      have hqt : q'.t = q.t := hut
      rw [hqt] at this
      exact this
    rw [← hpmv]
    rcases mem_bfill hpm with h | h
    · obtain ⟨r, hr, hr1, hr2, _⟩ := ffill_source h
      obtain ⟨m, hm, hmem⟩ := hMrows r hr (by rw [hr1, hpmt])
      exact ⟨m, hr2 m hm, hmem⟩
    · exfalso
      obtain ⟨r, hr, hr1, _, hr3⟩ := ffill_source h
      obtain ⟨m, hm, _⟩ := hMrows r hr (by rw [hr1]; exact hpmt)
      rw [hr3 rfl] at hm
      simp at hm

/-- a frame row that is right where a tempo point is in force passes the executable row check -/
theorem rowOkB_sv_of (bpms : List Tp) (svs : List Sv) (ref : Rat) (q : MRow)
    (h : ∀ p, IsActiveTp bpms q.t p →
      q.bpm = some p.bpm ∧ ∃ m, q.mult = some m ∧ m ∈ activeMults svs p.time q.t) :
    rowOkB true bpms svs ref (speedOf ref q) = true := by
  unfold rowOkB
  rw [Bool.or_eq_true]
  by_cases he : activeTps bpms q.t = []
  · left
    show (activeTps bpms q.t).isEmpty = true
    rw [he]; rfl
  · right
    obtain ⟨p, hp⟩ := List.exists_mem_of_ne_nil _ he
    obtain ⟨hb, m, hm, hmem⟩ := h p (mem_activeTps.mp hp)
    have hval : (speedOf ref q).2 = some (p.bpm / ref * m) := by simp [speedOf, optMul, hb, hm]
    rw [hval]
    simp only [List.contains_iff_mem]
    show p.bpm / ref * m ∈ allowedSpeeds true bpms svs ref q.t
    simp only [allowedSpeeds, List.mem_flatMap, if_true, List.mem_map]
    exact ⟨p, hp, m, hmem, rfl⟩

theorem speedFrame_sv (bpms : List Tp) (svs : List Sv) (omin omax : Rat) :
    speedFrame true bpms svs omin omax
      = fillMerged (sortMRow (mergeOuter (bpmFrame bpms omin omax) (svFrame bpms svs omin omax))) := rfl

theorem mem_fst_svFrame (bpms : List Tp) (svs : List Sv) (omin omax t : Rat) :
    t ∈ (svFrame bpms svs omin omax).map (·.1) ↔
      t ∈ bpms.map (·.time) ∨ t = omin ∨ t = omax ∨ t ∈ svs.map (·.time) := by
  unfold svFrame
  rw [map_fst_ffill, map_fst_groupLast, mem_groupKeys, mem_fst_svRows]

/-- the offsets of the merged frame are exactly the breakpoints -/
theorem mem_t_speedFrame_sv (bpms : List Tp) (svs : List Sv) (omin omax t : Rat) :
    t ∈ (speedFrame true bpms svs omin omax).map (·.t) ↔
      (t ∈ bpms.map (·.time) ∨ t ∈ svs.map (·.time)) ∨ t = omin ∨ t = omax := by
  rw [speedFrame_sv, map_t_fillMerged]
  have hperm := (isort_perm (fun a b : MRow => decide (a.t ≤ b.t))
    (mergeOuter (bpmFrame bpms omin omax) (svFrame bpms svs omin omax))).map (·.t)
  have h1 : t ∈ (sortMRow (mergeOuter (bpmFrame bpms omin omax) (svFrame bpms svs omin omax))).map (·.t)
      ↔ t ∈ (mergeOuter (bpmFrame bpms omin omax) (svFrame bpms svs omin omax)).map (·.t) := hperm.mem_iff
  rw [h1, mem_t_mergeOuter, mem_fst_bpmFrame, mem_fst_svFrame]
  constructor
  · rintro ((h | h | h) | (h | h | h | h))
    · exact Or.inl (Or.inl h)
    · exact Or.inr (Or.inl h)
    · exact Or.inr (Or.inr h)
    · exact Or.inl (Or.inl h)
    · exact Or.inr (Or.inl h)
    · exact Or.inr (Or.inr h)
    · exact Or.inl (Or.inr h)
  · rintro ((h | h) | h | h)
    · exact Or.inl (Or.inl h)
    · exact Or.inr (Or.inr (Or.inr (Or.inr h)))
    · exact Or.inl (Or.inr (Or.inl h))
    · exact Or.inl (Or.inr (Or.inr h))

/-- **scroll_speed_sv_spec** — osu / Quaver charts, in full: the reference is the override or a dominant bpm, the
result's offsets are exactly the breakpoints (tempo times ∪ SV times ∪ {first, last stacked offset}), and every
value at or after a tempo point is `active bpm / reference · active SV multiplier` (an SV lasts until the next
SV or tempo point; an SV on a tempo point wins over the reset; coinciding SVs: one of them). Hypothesis beyond
those of `dominant_is_max`: no SV before the first stacked offset (it is the minimum over the SVs too). -/
theorem scroll_speed_sv_spec (bpms : List Tp) (svs : List Sv) (omin omax : Rat) (ov : Option Rat)
    (hne : bpms ≠ []) (hd : (bpms.map (·.time)).Nodup) (hL : ∀ p ∈ bpms, p.time ≤ omax)
    (hov : ∀ b, ov = some b → b ≠ 0) (hmins : ∀ s ∈ svs, omin ≤ s.time) :
    ∃ ref out, scrollSpeed true bpms svs omin omax ov = some out ∧ IsRef bpms omax ov ref ∧
      speedOkB true bpms svs omin omax ref out = true := by
  obtain ⟨ref, href, hout⟩ := scroll_speed_ref_partial true bpms svs omin omax ov hne hd hL hov
  refine ⟨ref, _, hout, href, ?_⟩
  simp only [speedOkB, Bool.and_eq_true, decide_eq_true_eq, List.all_eq_true]
  constructor
  · unfold breakpoints
    apply groupKeys_congr
    intro t
    have hfst : ((speedFrame true bpms svs omin omax).map (speedOf ref)).map (·.1)
        = (speedFrame true bpms svs omin omax).map (·.t) := by
      simp [List.map_map, Function.comp_def, speedOf]
    rw [hfst, mem_t_speedFrame_sv]
    simp [or_assoc]
  · intro y hy
    obtain ⟨q, hq, rfl⟩ := List.mem_map.mp hy
    exact rowOkB_sv_of bpms svs ref q (fun p hp => filled_frame_spec bpms svs omin omax hd hmins q hq p hp)

/-- **scroll_speed_spec** — the statement of the property for `scroll_speed`, all games: for every chart with at
least one tempo point, no two tempo points at one time, the last stacked offset at or after every tempo point,
no SV before the first stacked offset, and any override ≠ 0, the model's result satisfies the executable
specification `speedOkB` (the same definition the driver evaluates on the implementation's output) for a
reference that is the override or a dominant bpm. -/
theorem scroll_speed_spec (hasSv : Bool) (bpms : List Tp) (svs : List Sv) (omin omax : Rat) (ov : Option Rat)
    (hne : bpms ≠ []) (hd : (bpms.map (·.time)).Nodup) (hL : ∀ p ∈ bpms, p.time ≤ omax)
    (hov : ∀ b, ov = some b → b ≠ 0) (hmins : hasSv = true → ∀ s ∈ svs, omin ≤ s.time) :
    ∃ ref out, scrollSpeed hasSv bpms svs omin omax ov = some out ∧ IsRef bpms omax ov ref ∧
      speedOkB hasSv bpms svs omin omax ref out = true := by
  cases hasSv with
  | false => exact scroll_speed_nosv_spec bpms svs omin omax ov hne hd hL hov
  | true => exact scroll_speed_sv_spec bpms svs omin omax ov hne hd hL hov (hmins rfl)

/-- D28 on the model: the tempo frame of `[(0, 100), (1000, 200)]` with the last stacked offset at 1000. The
arrangement `arr` is a permutation of the frame's rows and is sorted by offset — a legitimate result of an
unstable sort — yet filling it produces the row (1000, 100), which the specification rejects (at 1000 the
active bpm is 200); the stable arrangement the model uses does not. -/
theorem sort_tie_counterexample :
    let bpms : List Tp := [⟨0, 100⟩, ⟨1000, 200⟩]
    let arr : List Row := [(0, some 100), (0, none), (1000, none), (1000, some 200)]
    arr.Perm (bpmRows bpms 0 1000) ∧ arr.Pairwise (fun a b => a.1 ≤ b.1) ∧
      (1000, some 100) ∈ bpmFrameOf arr ∧
      rowOkB false bpms [] 100 (speedOf 100 ⟨1000, some 100, some 1⟩) = false ∧
      tieAtMaxB bpms 1000 = true ∧
      (1000, some 100) ∉ bpmFrame bpms 0 1000 := by decide +kernel

/-! non-vacuity / worked instances: SV before the first tempo point, coinciding SVs, SV on a tempo point, tempo
point after the last note; the model's output satisfies the executable specification -/
example : scrollSpeed true [⟨0, 100⟩, ⟨1000, 200⟩] [⟨-500, 1/2⟩, ⟨1500, 2⟩, ⟨1500, 3⟩] (-500) 3000 none
    = some [(-500, some (1/4)), (0, some (1/2)), (1000, some 1), (1500, some 3), (3000, some 3)] := by decide +kernel
example : speedOkB true [⟨0, 100⟩, ⟨1000, 200⟩] [⟨-500, 1/2⟩, ⟨1500, 2⟩, ⟨1500, 3⟩] (-500) 3000 200
    [(-500, some (1/4)), (0, some (1/2)), (1000, some 1), (1500, some 3), (3000, some 3)] = true := by decide +kernel
example : scrollSpeed false [⟨1000, 200⟩, ⟨0, 100⟩] [] 0 1500 (some 50)
    = some [(0, some 2), (1000, some 4), (1500, some 4)] := by decide +kernel

/-! ### ties: which maximiser the code returns -/

/-- **dominant_least.** Among the bpm values with maximal total active time `dominant_bpm` returns the LEAST one
(`groupby` orders its keys ascending, `idxmax` takes the first maximum) - so the result is determined by the
chart's content, ties included. -/
theorem dominant_least (bpms : List Tp) (L : Rat) (hd : (bpms.map (·.time)).Nodup) (hL : ∀ p ∈ bpms, p.time ≤ L)
    (v : Rat) (hv : dominantBpm bpms L = some v) : ∀ w, IsDominant bpms L w → v ≤ w := by
  intro w hw
  have hperm : (sortTp bpms).Perm bpms := sortTp_perm bpms
  have hgs := groupSum_dominantRows bpms L hd hL
  unfold dominantBpm at hv
  rw [hgs] at hv
  have hsorted : ((groupKeys ((sortTp bpms).map (·.bpm))).map (fun k => (k, totalTime bpms L k))).Pairwise
      (fun a b => a.1 ≤ b.1) := by
    rw [List.pairwise_map]
    exact sortRat_sorted _
  obtain ⟨⟨p, hp, hpw⟩, hmax⟩ := hw
  have hwk : w ∈ groupKeys ((sortTp bpms).map (·.bpm)) := by
    rw [mem_groupKeys, List.mem_map]
    exact ⟨p, hperm.mem_iff.mpr hp, hpw⟩
  refine idxmax_least hsorted hv (w, totalTime bpms L w) (List.mem_map.mpr ⟨w, hwk, rfl⟩) ?_
  intro r hr
  obtain ⟨k, hk, rfl⟩ := List.mem_map.mp hr
  rw [mem_groupKeys, List.mem_map] at hk
  obtain ⟨q, hq, rfl⟩ := hk
  exact hmax q (hperm.mem_iff.mp hq)

/-- when one value has the strictly greatest total, that value is the result -/
theorem dominant_unique (bpms : List Tp) (L : Rat) (hne : bpms ≠ []) (hd : (bpms.map (·.time)).Nodup)
    (hL : ∀ p ∈ bpms, p.time ≤ L) (v : Rat) (huniq : ∀ w, IsDominant bpms L w → w = v) :
    dominantBpm bpms L = some v := by
  obtain ⟨u, hu, hdom⟩ := dominant_is_max bpms L hne hd hL
  rw [hu, huniq u hdom]

example : dominantBpm [⟨1000, 200⟩, ⟨0, 100⟩, ⟨1500, 100⟩, ⟨2000, 200⟩] 3000 = some 100 ∧
    IsDominant [⟨1000, 200⟩, ⟨0, 100⟩, ⟨1500, 100⟩, ⟨2000, 200⟩] 3000 200 := by
  constructor
  · decide +kernel
  · rw [← isDominantB_iff]; decide +kernel

/-! ### the order of the tempo rows never matters -/

theorem totalTime_perm {b b' : List Tp} (h : b.Perm b') (L v : Rat) : totalTime b L v = totalTime b' L v := by
  unfold totalTime
  have hts : (b.map (·.time)).Perm (b'.map (·.time)) := h.map _
  have hf : (fun p : Tp => span (b.map (·.time)) L p.time) = fun p => span (b'.map (·.time)) L p.time := by
    funext p; exact span_perm hts L p.time
  rw [hf]
  exact sumRat_perm ((h.filter _).map _)

theorem isDominant_perm {b b' : List Tp} (h : b.Perm b') (L v : Rat) : IsDominant b L v ↔ IsDominant b' L v := by
  unfold IsDominant
  simp only [totalTime_perm h]
  constructor
  · rintro ⟨⟨p, hp, e⟩, hm⟩
    exact ⟨⟨p, h.mem_iff.mp hp, e⟩, fun q hq => hm q (h.mem_iff.mpr hq)⟩
  · rintro ⟨⟨p, hp, e⟩, hm⟩
    exact ⟨⟨p, h.mem_iff.mpr hp, e⟩, fun q hq => hm q (h.mem_iff.mp hq)⟩

/-- **dominant_perm_invariant.** `dominant_bpm` depends on the tempo points as a SET: any two row orders of the
same tempo points give the same result (ties included: the least maximiser either way). -/
theorem dominant_perm_invariant {b b' : List Tp} (h : b.Perm b') (L : Rat) (hd : (b.map (·.time)).Nodup)
    (hL : ∀ p ∈ b, p.time ≤ L) : dominantBpm b L = dominantBpm b' L := by
  have hd' : (b'.map (·.time)).Nodup := (h.map (·.time)).nodup_iff.mp hd
  have hL' : ∀ p ∈ b', p.time ≤ L := fun p hp => hL p (h.mem_iff.mpr hp)
  by_cases hne : b = []
  · subst hne
    rw [List.nil_perm.mp h]
  · have hne' : b' ≠ [] := fun e => hne (by subst e; exact List.perm_nil.mp h)
    obtain ⟨v, hv, hdom⟩ := dominant_is_max b L hne hd hL
    obtain ⟨v', hv', hdom'⟩ := dominant_is_max b' L hne' hd' hL'
    have h1 : v ≤ v' := dominant_least b L hd hL v hv v' ((isDominant_perm h L v').mpr hdom')
    have h2 : v' ≤ v := dominant_least b' L hd' hL' v' hv' v ((isDominant_perm h L v).mp hdom)
    rw [hv, hv', le_antisymm h1 h2]

/-! ### chart level: first / last object are the bounds of `m.stack().offset` - the hypotheses about `last` and
about SVs before the first object are theorems, not assumptions -/

/-- the bounds are the least / greatest stacked offset -/
theorem chart_bounds_spec (c : Chart) (lo hi : Rat) (h : c.bounds = some (lo, hi)) :
    (∀ x ∈ c.stackOffsets, lo ≤ x ∧ x ≤ hi) ∧ lo ∈ c.stackOffsets ∧ hi ∈ c.stackOffsets := by
  unfold Chart.bounds at h
  generalize c.stackOffsets = l at h
  cases l with
  | nil => simp at h
  | cons a t =>
    simp only [Option.some.injEq, Prod.mk.injEq] at h
    obtain ⟨rfl, rfl⟩ := h
    exact ⟨fun x hx => ⟨(foldl_rmin_spec t a).1 x hx, (foldl_rmax_spec t a).1 x hx⟩,
      (foldl_rmin_spec t a).2, (foldl_rmax_spec t a).2⟩

/-- a chart with a tempo point has bounds; every tempo point is at or before the last object, and (games with
SVs) no SV is before the first object -/
theorem chart_bounds_cover (c : Chart) (hne : c.bpms ≠ []) :
    ∃ lo hi, c.bounds = some (lo, hi) ∧ (∀ p ∈ c.bpms, p.time ≤ hi) ∧
      (c.hasSv = true → ∀ s ∈ c.svs, lo ≤ s.time) := by
  obtain ⟨p0, hp0⟩ := List.exists_mem_of_ne_nil c.bpms hne
  have hmem0 : p0.time ∈ c.stackOffsets := by
    unfold Chart.stackOffsets
    exact List.mem_append_left _ (List.mem_append_right _ (List.mem_map_of_mem hp0))
  cases hb : c.bounds with
  | none =>
    unfold Chart.bounds at hb
    generalize c.stackOffsets = l at hb hmem0
    cases l with
    | nil => simp at hmem0
    | cons a t => simp at hb
  | some b =>
    obtain ⟨lo, hi⟩ := b
    obtain ⟨hall, _, _⟩ := chart_bounds_spec c lo hi hb
    refine ⟨lo, hi, rfl, ?_, ?_⟩
    · intro p hp
      refine (hall p.time ?_).2
      unfold Chart.stackOffsets
      exact List.mem_append_left _ (List.mem_append_right _ (List.mem_map_of_mem hp))
    · intro hsv s hs
      refine (hall s.time ?_).1
      unfold Chart.stackOffsets
      rw [hsv]
      exact List.mem_append_right _ (List.mem_map_of_mem hs)

/-- the tempo list is inside the quantifier of the property: one tempo point, no two at one time, bpm ≠ 0 -/
theorem tempoOkB_iff (bpms : List Tp) :
    tempoOkB bpms = true ↔ bpms ≠ [] ∧ (bpms.map (·.time)).Nodup ∧ ∀ p ∈ bpms, p.bpm ≠ 0 := by
  cases bpms <;> simp [tempoOkB]

/-- **chart_answer_spec.** For EVERY chart with a valid tempo list (notes, SVs anywhere; no further hypothesis)
and every call (dominant bpm / scroll speed / SV normalisation, override absent or ≠ 0) the model's answer is
right for that chart, with first / last object = the least / greatest offset `m.stack()` ranges over. -/
theorem chart_answer_spec (c : Chart) (q : Call) (hok : tempoOkB c.bpms = true)
    (hov : ∀ b, q.override = some b → b ≠ 0) : AnswerOk c q (c.answer q) := by
  obtain ⟨hne, hd, hb⟩ := (tempoOkB_iff c.bpms).mp hok
  obtain ⟨lo, hi, hbd, hL, hmins⟩ := chart_bounds_cover c hne
  refine ⟨lo, hi, hbd, ?_⟩
  cases q with
  | dominant =>
    obtain ⟨v, hv, hdom⟩ := dominant_is_max c.bpms hi hne hd hL
    exact ⟨v, by simp [Chart.answer, Chart.dominantBpm, hbd, hv], hdom⟩
  | speed ov =>
    obtain ⟨ref, out, hout, href, hspec⟩ := scroll_speed_spec c.hasSv c.bpms c.svs lo hi ov hne hd hL hov hmins
    exact ⟨ref, out, by simp [Chart.answer, Chart.scrollSpeed, hbd, hout], href, hspec⟩
  | normalize ov =>
    obtain ⟨ref, out, hout, href, hspec⟩ := sv_normalize_correct c.bpms hi ov hne hd hL hb hov
    exact ⟨ref, out, by simp [Chart.answer, Chart.svNormalize, hbd, hout], href, hspec⟩

/-- **session_spec.** Results depend on the chart's CURRENT content, not on what an earlier call saw: in a session
of any number of calls on one chart with arbitrary edits in between, every answer is the answer for the chart as
it is at the time of that call, and it is right for that chart whenever that chart is inside the quantifier. -/
theorem session_spec (steps : List (Call × (Chart → Chart))) : ∀ (c : Chart),
    ∀ x ∈ runSession c steps, x.2.2 = x.1.answer x.2.1 ∧
      (tempoOkB x.1.bpms = true → (∀ b, x.2.1.override = some b → b ≠ 0) → AnswerOk x.1 x.2.1 x.2.2) := by
  induction steps with
  | nil => intro c x hx; simp [runSession] at hx
  | cons s rest ih =>
    intro c x hx
    obtain ⟨q, e⟩ := s
    simp only [runSession, List.mem_cons] at hx
    rcases hx with rfl | hx
    · exact ⟨rfl, fun hok hov => chart_answer_spec c q hok hov⟩
    · exact ih (e c) x hx

/-- the charts a session passes through are the edits applied in turn (nothing else feeds into a call) -/
theorem session_charts (steps : List (Call × (Chart → Chart))) : ∀ (c : Chart),
    (runSession c steps).map (·.1) = (List.range steps.length).map
      (fun i => ((steps.take i).map (·.2)).foldl (fun acc e => e acc) c) := by
  induction steps with
  | nil => intro c; simp [runSession]
  | cons s rest ih =>
    intro c
    obtain ⟨q, e⟩ := s
    simp only [runSession, List.map_cons, List.length_cons, List.range_succ_eq_map, List.map_map, ih (e c)]
    simp [Function.comp_def]

/-! non-vacuity: the stale-state shape of a session (call, move the last note from 1500 to 5000, call again): the
dominant bpm changes from 100 to 200 with the content -/
example : (runSession ⟨true, [⟨0, 100⟩, ⟨1000, 200⟩], [⟨250, 2⟩], [0, 1500]⟩
      [(.dominant, fun c => { c with notes := [0, 5000] }), (.dominant, id)]).map (·.2.2)
    = [.bpm (some 100), .bpm (some 200)] := by decide +kernel
example : (⟨true, [⟨-3000, 100⟩, ⟨-2000, 200⟩], [], [-3000, 0]⟩ : Chart).bounds = some (-3000, 0) ∧
    (⟨true, [⟨-3000, 100⟩, ⟨-2000, 200⟩], [], [-3000, 0]⟩ : Chart).dominantBpm = some 200 := by decide +kernel

end Reamber.Analysis
