/-
C08 — Converting between games preserves chart content exactly, from any source state.

Property theorems about the executable model `Model/Convert.lean` (tied to reamber/algorithms/convert/*.py,
TimedList.empty, Map.stack by the correspondence check) and about the table `Generated/Converters.lean` that the
translator re-extracts from the source on every run.  Specification: `Spec/Convert.lean` (the same definitions the
driver evaluates on the implementation's output).

Full statement (property text): for all 16 converters and the merge variant, all source charts and all histories,
the result's hits / holds / tempo points are exactly the source's (column shifted only by the shift argument), SVs
are carried when both games have them, title/artist/creator/difficulty name come from the source, only the target's
fields and no missing value, one target chart per source chart, source untouched.

What is proved here:
* `cast_exact`, `cast_col_exact`, `cast_unmapped_default`, `cast_fields`  — `ConvertBase.cast` for *every* row
  labelling of the source (history independence: `cast_label_independent`);
* `convert_svs`, `convert_fields`, `converters_spec` — the same for the SV and the fields/no-NaN clauses;
* `roleOk_of_static`, `convert_meta`, `converters_spec_all` — the metadata clause, and all five clauses of `specAll`
  together for the 17 generated entry points;
* `convOne_content`, `convert_content`, `converters_content_and_count` — a converter whose table entry passes
  `staticOk` yields, chart by chart, exactly the source's rows (shift `k` only through the shift parameter), for
  every source with arbitrary labels and any number of maps, through all five loop shapes;
* `one_per_source`    — every good loop shape returns one chart per source map;
* `table_*`           — by `decide` over the generated table: every entry passes `staticOk` (hits←hits, holds←holds,
  bpms←bpms with the identity column mapping, the declared target class, svs for osu↔Quaver), metadata provenance,
  loop shapes, shift parameters, no label-aligned entry (D27 repaired), no NaN among the defaults `empty` writes
  (D08 repaired), the `[]` defaults;
* counterexample theorems for D08 (a hand-written pre-fix `empty`), D27 / D11 (the label-aligned assignment, on a
  hand-written entry), D13 (shape).
`untouched` is not a theorem: the model is functional; aliasing is runtime behaviour checked by (S) on every case.
-/
import Reamber.Lemmas.Convert
import Reamber.Generated.Converters

namespace Reamber.Convert

open Reamber.Generated

def tables : Tables := ⟨listClasses, mapClasses⟩

/-! ## `cast` -/

/-- **`cast` is exact for every row labelling.**  With positional entries only (`to="from"`), whatever the row
labels of the source are (fresh `0..n-1`, gaps after a filter, reversed after a sort, offset after a stack edit,
duplicated), the result has labels `0..n-1`, exactly the target's declared columns in order, and each column holds
what the assignments of `mapping`, run in order over the replicated default, leave in it. -/
theorem cast_exact (lists : List (String × Frame)) (src : Frame) (hwf : src.WF)
    (schema : List (String × Cell)) (mapping : List (String × MapFrom)) (hp : PosOnly src mapping) :
    cast lists src schema mapping
      = .ok ⟨rangeIdx src.nrows,
             schema.map fun p => (p.1, valAfter src mapping p.1 (List.replicate src.nrows p.2))⟩ := by
  unfold cast empty
  exact castGo_exact lists src hwf schema mapping (fun p => List.replicate src.nrows p.2) hp

/-- a column named once in the mapping receives the source column, value for value, position for position -/
theorem cast_col_exact (src : Frame) (mapping : List (String × MapFrom)) (to c : String) (d : Cell)
    (hnd : (mapping.map (·.1)).Nodup) (hmem : (to, MapFrom.attr c) ∈ mapping) (v : List Cell)
    (hv : src.col? c = some v) :
    valAfter src mapping to (List.replicate src.nrows d) = v := by
  rw [valAfter_nodup src to c mapping _ hnd hmem, hv]; rfl

/-- a declared column the mapping does not name keeps the replicated default -/
theorem cast_unmapped_default (src : Frame) (mapping : List (String × MapFrom)) (name : String) (d : Cell)
    (h : name ∉ mapping.map (·.1)) :
    valAfter src mapping name (List.replicate src.nrows d) = List.replicate src.nrows d :=
  valAfter_not_mem src name mapping _ h

/-- **History independence of `cast`**: two sources with the same columns and the same number of rows give the
same result — the row labels (all that filter / sort / append / stack / rate / deepcopy can change besides the
values) are irrelevant, and so are the other lists of the map. -/
theorem cast_label_independent (lists lists' : List (String × Frame)) (i1 i2 : List Int)
    (cols : List (String × List Cell)) (schema : List (String × Cell)) (mapping : List (String × MapFrom))
    (hlen : i1.length = i2.length) (hp : ∀ p ∈ mapping, ∃ c, p.2 = MapFrom.attr c) :
    cast lists ⟨i1, cols⟩ schema mapping = cast lists' ⟨i2, cols⟩ schema mapping := by
  unfold cast
  have : (⟨i1, cols⟩ : Frame).nrows = (⟨i2, cols⟩ : Frame).nrows := by simp [Frame.nrows, hlen]
  rw [this]
  exact castGo_index_irrelevant lists lists' i1 i2 cols mapping _ hp

theorem valAfter_noNan (src : Frame) (hsrc : ∀ p ∈ src.cols, ∀ x ∈ p.2, x ≠ Cell.nan) (name : String) :
    ∀ (mapping : List (String × MapFrom)) (v0 : List Cell), PosOnly src mapping → (∀ x ∈ v0, x ≠ Cell.nan) →
      ∀ x ∈ valAfter src mapping name v0, x ≠ Cell.nan
  | [], v0, _, h0 => by simpa [valAfter] using h0
  | (to, fr) :: rest, v0, hp, h0 => by
    obtain ⟨c, hfr, hc⟩ := hp (to, fr) (by simp)
    simp only at hfr
    subst hfr
    simp only [valAfter]
    apply valAfter_noNan src hsrc name rest _ (fun p hp' => hp p (List.mem_cons_of_mem _ hp'))
    split
    · obtain ⟨v, hv⟩ := Option.isSome_iff_exists.mp hc
      simp only [colOf, hv, Option.getD_some]
      exact hsrc (c, v) (lookup_mem c v src.cols hv)
    · exact h0

/-- **Only the target's fields, no missing value** (`fields_complete` at the level of one cast): positional
entries, no NaN in the source, no NaN among the defaults (`table_defaults_no_nan`: true of every generated list
class now that `empty` writes one list per row for a `[]` default; see `cast_fields_generated`) ⇒ the result has exactly the declared column names and contains no NaN. -/
theorem cast_fields (lists : List (String × Frame)) (src : Frame) (hwf : src.WF)
    (schema : List (String × Cell)) (mapping : List (String × MapFrom)) (hp : PosOnly src mapping)
    (hsrc : ∀ p ∈ src.cols, ∀ x ∈ p.2, x ≠ Cell.nan) (hd : ∀ p ∈ schema, p.2 ≠ Cell.nan) :
    ∃ out, cast lists src schema mapping = .ok out ∧ out.names = schema.map (·.1) ∧ noNan out = true ∧
      out.index = rangeIdx src.nrows := by
  refine ⟨_, cast_exact lists src hwf schema mapping hp, ?_, ?_, rfl⟩
  · simp [Frame.names, List.map_map, Function.comp]
  · simp only [noNan, List.all_eq_true, List.mem_map]
    rintro q ⟨p, hpm, rfl⟩
    simp only [bne_iff_ne, ne_eq]
    intro x hx
    refine valAfter_noNan src hsrc p.1 mapping _ hp ?_ x hx
    intro y hy
    rw [List.mem_replicate] at hy
    rw [hy.2]
    exact hd p hpm

/-! non-vacuity -/

def exSrc : Frame := ⟨[7, 3, 5], [("offset", [.num 10, .num 20, .num 30]), ("column", [.num 0, .num 1, .num 2]),
                                   ("sample", [.str "a", .str "b", .str "c"])]⟩

example : exSrc.WF ∧ PosOnly exSrc [("offset", .attr "offset"), ("column", .attr "column")] := by
  refine ⟨by intro p hp; simp [exSrc] at hp; rcases hp with rfl | rfl | rfl <;> rfl, ?_⟩
  intro p hp
  simp at hp
  rcases hp with rfl | rfl
  · exact ⟨"offset", rfl, rfl⟩
  · exact ⟨"column", rfl, rfl⟩

example : (cast [] exSrc [("column", .num 0), ("offset", .num 0), ("volume", .num 5)]
      [("offset", .attr "offset"), ("column", .attr "column")]).toOption
    = some ⟨[0, 1, 2], [("column", [.num 0, .num 1, .num 2]), ("offset", [.num 10, .num 20, .num 30]),
                       ("volume", [.num 5, .num 5, .num 5])]⟩ := by decide +kernel

/-! ## loop shapes -/

theorem charts_singletons (ts : List TChart) :
    (Out.mk true (ts.map fun t => ⟨[], [t]⟩)).charts.length = ts.length := by
  induction ts with
  | nil => rfl
  | cons a t ih => simpa [Out.charts, List.flatMap_cons] using ih

theorem convSet_charts (T : Tables) (c : Conv) (src : Src) (k : Int) (m : SrcMap) (g : TGroup)
    (h : convSet T c src k m = .ok g) : g.charts.length = 1 := by
  unfold convSet at h
  split at h
  · cases h
  · split at h
    · cases h
    · simp only [Except.ok.injEq] at h
      subst h; rfl

theorem mapE_convSet_charts (T : Tables) (c : Conv) (src : Src) (k : Int) :
    ∀ (ms : List SrcMap) (gs : List TGroup), mapE (convSet T c src k) ms = .ok gs →
      (gs.flatMap (·.charts)).length = ms.length
  | [], gs, h => by
    simp only [mapE, Except.ok.injEq] at h
    subst h; rfl
  | m :: t, gs, h => by
    simp only [mapE] at h
    split at h
    · cases h
    · rename_i g hg
      split at h
      · cases h
      · rename_i r hr
        simp only [Except.ok.injEq] at h
        subst h
        simp [List.flatMap_cons, convSet_charts T c src k m g hg, mapE_convSet_charts T c src k t r hr]
        omega

/-- **One target chart per source chart**: whenever the converter's loop has one of the five shapes the shipped
converters use, a successful conversion returns exactly as many charts as the source has maps — for every source,
every length.  (`mergedSetInLoop`, the shape of D13, is excluded by `goodShape`; see `d13_shape_counterexample`.) -/
theorem one_per_source (T : Tables) (c : Conv) (src : Src) (k : Int) (out : Out)
    (hs : goodShape c.shape = true) (h : convert T c src k = .ok out) :
    onePerSource src out = true := by
  unfold onePerSource
  simp only [beq_iff_eq]
  unfold convert at h
  split at h
  · -- single
    split at h
    · split at h
      · cases h
      · simp only [Except.ok.injEq] at h
        subst h
        simp_all [Out.charts]
    · cases h
  · -- singleSet
    split at h
    · split at h
      · cases h
      · rename_i g hg
        simp only [Except.ok.injEq] at h
        subst h
        have := convSet_charts T c src k _ g hg
        simp_all [Out.charts]
    · cases h
  · -- listOfMaps
    split at h
    · cases h
    · rename_i ts hts
      simp only [Except.ok.injEq] at h
      subst h
      rw [charts_singletons, mapE_length _ _ _ hts]
  · -- listOfSets
    split at h
    · cases h
    · rename_i gs hgs
      simp only [Except.ok.injEq] at h
      subst h
      exact mapE_convSet_charts T c src k _ gs hgs
  · -- mergedSet
    split at h
    · cases h
    · rename_i ts hts
      split at h
      · cases h
      · simp only [Except.ok.injEq] at h
        subst h
        simp [Out.charts, mapE_length _ _ _ hts]
  · simp [goodShape, *] at hs
  · cases h
  · cases h

/-! ## the generated table -/

/-- **Tie to the source, content**: every `convert*` classmethod found under reamber/algorithms/convert/ was read
completely (`unparsed = []`), has a good loop shape, and its *last* cast into hits / holds / bpms reads the current
source map's hits / holds / bpms, builds the list class the target map declares for that attribute, names only
declared columns, each once, and maps `offset`,`column`(,`length`) / `offset`,`bpm` to themselves; SVs are cast
(`offset`,`multiplier`) exactly when both games have an `svs` list (osu ↔ Quaver: D12 is the failure of this). -/
theorem table_static_ok : ∀ c ∈ converters, staticOk tables c = true := by decide +kernel

/-- 16 converters and the merge variant -/
theorem table_entries : converters.map (·.name) =
    ["BMSToOsu.convert", "BMSToQua.convert", "BMSToSM.convert", "O2JToBMS.convert", "O2JToOsu.convert",
     "O2JToQua.convert", "O2JToSM.convert", "O2JToSM.convert_merge", "OsuToBMS.convert", "OsuToQua.convert",
     "OsuToSM.convert", "QuaToBMS.convert", "QuaToOsu.convert", "QuaToSM.convert", "SMToBMS.convert",
     "SMToOsu.convert", "SMToQua.convert"] := by decide +kernel

/-- **SVs carried for the osu ↔ Quaver pair** -/
theorem table_svs_carried : ∀ c ∈ converters,
    (c.name = "OsuToQua.convert" ∨ c.name = "QuaToOsu.convert") → castStaticOk tables c "svs" keysSvs = true := by
  decide +kernel

/-- **Metadata provenance**: for each of title / artist / creator / difficulty name that both games have, the last
assignment to the target's attribute is built from the source's attribute (through the codec only); the
difficulty name may carry a literal prefix. -/
theorem table_meta_provenance : ∀ c ∈ converters, metaStaticOk c = true := by decide +kernel

/-- **Loop shapes** (with `one_per_source`: one output per input for every shipped entry point) -/
theorem table_shapes : ∀ c ∈ converters, goodShape c.shape = true := by decide +kernel

/-- columns are shifted only through a declared parameter: exactly the three converters into BMS have one, with
defaults 1 (O2Jam: column 0 is the scratch lane), 0, 0 -/
theorem table_shift_params : (converters.filter (·.shiftParam.isSome)).map (fun c => (c.name, c.shiftParam, c.shiftDefault)) =
    [("O2JToBMS.convert", some "move_right_by", some 1), ("OsuToBMS.convert", some "move_right_by", some 0),
     ("QuaToBMS.convert", some "move_right_by", some 0)] := by decide +kernel

/-- no mapping entry of any of the 17 entry points is assigned by row label (D27, `BMSToOsu`'s `hitsound_file`,
is repaired: a Series-valued entry reappearing anywhere breaks this obligation) -/
theorem table_labels_free : ∀ c ∈ converters, labelsFree c = true := by decide +kernel

/-- a `[]` default (one fresh list per row; NaN before D08 was repaired) is declared exactly by the list classes the
five converters into Quaver build -/
theorem table_list_defaults : ∀ c ∈ converters, tgtHasListDefault tables c = (c.tgtGame == "qua") := by decide +kernel

/-! ## counterexamples: where the hypotheses fail, the model (= the code) breaks the specification -/

def conv! (name : String) : Conv := (converters.find? (·.name == name)).getD default

def exBmsMap (hitLabels : List Int) : SrcMap :=
  ⟨[("hits", ⟨hitLabels, [("offset", [.num 100, .num 500]), ("column", [.num 0, .num 1]),
                          ("sample", [.str "01", .str "02"])]⟩),
    ("holds", ⟨[], [("length", []), ("offset", []), ("column", []), ("sample", [])]⟩),
    ("bpms", ⟨[0], [("offset", [.num 0]), ("bpm", [.num 120]), ("metronome", [.num 4])]⟩)],
   [("title", "t"), ("artist", "a"), ("version", "v")], ""⟩

def verdictOf (name : String) (src : Src) (k : Int) : Option Verdict :=
  let c := conv! name
  (convert tables c src k).toOption.map (specAll tables c.srcGame c.tgtGame c.tgtMapClass src k)

/-- all clauses hold for a fresh BMS chart converted to StepMania and (shift 2) for an osu-less example … -/
example : verdictOf "BMSToSM.convert" ⟨[], [exBmsMap [0, 1]]⟩ 0 = some ⟨true, true, true, true, true⟩ := by
  decide +kernel

/-- `TimedList.empty` as it was before D08 was repaired, written out by hand: the one-row default frame replicated —
a `[]` default is an *empty* Series there, so the row holds NaN -/
def emptyPreFix (props : List (String × Dflt)) (n : Nat) : Frame :=
  ⟨rangeIdx n, props.map fun p => (p.1, List.replicate n (match p.2 with | .scalar c => c | .emptyList => Cell.nan))⟩

/-- **D08** (repaired): for the columns of a Quaver hit list (hand-written: `column=0, offset=0.0, keysounds=[]`)
the pre-fix `empty` holds NaN `keysounds` — the `fields` clause of every conversion into Quaver failed; the
repaired `empty` holds one list per row and no NaN. -/
theorem d08_counterexample :
    let props : List (String × Dflt) := [("column", .scalar (.num 0)), ("offset", .scalar (.num 0)), ("keysounds", .emptyList)]
    noNan (emptyPreFix props 2) = false ∧
    noNan (empty (props.map fun p => (p.1, defaultCell p.2)) 2) = true := by decide +kernel

/-- all clauses hold for a BMS chart converted into Quaver (the `fields` clause failed here before D08 was repaired) -/
theorem d08_repaired_ok :
    verdictOf "BMSToQua.convert" ⟨[], [exBmsMap [0, 1]]⟩ 0 = some ⟨true, true, true, true, true⟩ ∧
    verdictOf "BMSToQua.convert" ⟨[], [exBmsMap [5, 2]]⟩ 0 = some ⟨true, true, true, true, true⟩ := by
  decide +kernel

/-- `BMSToOsu` as it was before D27 was repaired, written out by hand (not taken from the generated table):
`hitsound_file` is the pandas Series `bms.<list>.sample.apply(str, args={"ascii"})`, assigned by row label -/
def alignedBmsToOsu : Conv :=
  { name := "BMSToOsu.convert (label-aligned hitsound_file)", srcGame := "bms", tgtGame := "osu",
    param := "bms", loopVar := none, tgtMapClass := "OsuMap", shape := .single,
    casts := [
      ⟨"osu", "hits", "bms", "hits", "OsuHitList",
        [("offset", .attr "offset"), ("column", .attr "column"), ("hitsound_file", .seriesStr "hits" "sample")]⟩,
      ⟨"osu", "holds", "bms", "holds", "OsuHoldList",
        [("offset", .attr "offset"), ("column", .attr "column"), ("length", .attr "length"),
         ("hitsound_file", .seriesStr "holds" "sample")]⟩,
      ⟨"osu", "bpms", "bms", "bpms", "OsuBpmList", [("offset", .attr "offset"), ("bpm", .attr "bpm")]⟩],
    shiftParam := none, shiftDefault := none,
    metas := [⟨"map", "title", .decoded (.attr "bms" "title")⟩, ⟨"map", "version", .decoded (.attr "bms" "version")⟩,
              ⟨"map", "artist", .decoded (.attr "bms" "artist")⟩],
    unparsed := [] }

def verdictOfConv (c : Conv) (src : Src) (k : Int) : Option Verdict :=
  (convert tables c src k).toOption.map (specAll tables c.srcGame c.tgtGame c.tgtMapClass src k)

/-- **D27** (repaired; mechanism of D11): a mapping entry that is a pandas Series is assigned by row label.
The entry passes every static content check (`staticOk`) — only `labelsFree` tells it apart … -/
theorem d27_static : staticOk tables alignedBmsToOsu = true ∧ labelsFree alignedBmsToOsu = false := by
  decide +kernel

/-- … with fresh labels all clauses hold … -/
theorem d27_fresh_ok :
    verdictOfConv alignedBmsToOsu ⟨[], [exBmsMap [0, 1]]⟩ 0 = some ⟨true, true, true, true, true⟩ := by
  decide +kernel

/-- … labels `1, 2` (the chart after `hits.after(0)` dropped its first row): a NaN appears … -/
theorem d27_counterexample :
    verdictOfConv alignedBmsToOsu ⟨[], [exBmsMap [1, 2]]⟩ 0 = some ⟨true, true, true, false, true⟩ := by
  decide +kernel

/-- … duplicate labels: the conversion raises (`ValueError`), no chart is produced. -/
theorem d27_duplicate_labels_raise :
    verdictOfConv alignedBmsToOsu ⟨[], [exBmsMap [3, 3]]⟩ 0 = none := by
  decide +kernel

/-- the repaired converter (generated table) is exact on all three labellings -/
theorem d27_repaired_ok :
    verdictOf "BMSToOsu.convert" ⟨[], [exBmsMap [0, 1]]⟩ 0 = some ⟨true, true, true, true, true⟩ ∧
    verdictOf "BMSToOsu.convert" ⟨[], [exBmsMap [1, 2]]⟩ 0 = some ⟨true, true, true, true, true⟩ ∧
    verdictOf "BMSToOsu.convert" ⟨[], [exBmsMap [3, 3]]⟩ 0 = some ⟨true, true, true, true, true⟩ := by
  decide +kernel

/-- the mechanism of **D11** / **D27** (both repaired): label alignment of
values labelled `1, 2` into a buffer labelled `0, 1` -/
theorem label_alignment_counterexample :
    (alignTo [0, 1] [1, 2] [.str "a", .str "b"]).toOption = some [.nan, .str "a"] := by decide +kernel

/-- **D13** (repaired): with the set created inside the loop only the last chart survives -/
theorem d13_shape_counterexample :
    let c := { conv! "O2JToSM.convert_merge" with shape := Shape.mergedSetInLoop }
    let src : Src := ⟨[("title", "t"), ("artist", "a"), ("creator", "c")],
                      [exBmsMap [0, 1], exBmsMap [0, 1], exBmsMap [0, 1]]⟩
    (convert tables c src 0).toOption.map (onePerSource src) = some false := by
  decide +kernel

/-- **D12** (repaired): assigning the cast to `qua.sv` leaves no cast into `svs` — the static check fails -/
theorem d12_static_counterexample :
    let c := conv! "OsuToQua.convert"
    let c' := { c with casts := c.casts.map fun cc => if cc.tgtAttr == "svs" then { cc with tgtAttr := "sv" } else cc }
    staticOk tables c' = false := by
  decide +kernel

/-- **No default is a missing value** (D08 repaired): what `empty` writes for any declared default of any
generated list class is not NaN. -/
theorem table_defaults_no_nan : ∀ lc ∈ listClasses, ∀ p ∈ schemaOf lc, p.2 ≠ Cell.nan := by decide +kernel

/-- `cast_fields` for every generated list class — Quaver included — with no hypothesis about defaults -/
theorem cast_fields_generated (lc : ListClass) (hlc : lc ∈ listClasses) (lists : List (String × Frame)) (src : Frame)
    (hwf : src.WF) (mapping : List (String × MapFrom)) (hp : PosOnly src mapping)
    (hsrc : ∀ p ∈ src.cols, ∀ x ∈ p.2, x ≠ Cell.nan) :
    ∃ out, cast lists src (schemaOf lc) mapping = .ok out ∧ out.names = lc.props.map (·.1) ∧ noNan out = true ∧
      out.index = rangeIdx src.nrows := by
  obtain ⟨out, h1, h2, h3, h4⟩ := cast_fields lists src hwf (schemaOf lc) mapping hp hsrc (table_defaults_no_nan lc hlc)
  refine ⟨out, h1, ?_, h3, h4⟩
  rw [h2, schemaOf, List.map_map]
  rfl

/-! ## one pass of a converter body preserves the content -/

theorem castStaticOk_unpack (T : Tables) (c : Conv) (attr : String) (keys : List String)
    (h : castStaticOk T c attr keys = true) :
    ∃ cc lc, declaredCls T.mcs c attr = some cc.cls ∧ lastCast c attr = some cc ∧
      (cc.srcVar == curVar c) = true ∧ cc.srcAttr = attr ∧ findClass T.lcs cc.cls = some lc ∧
      ∀ k ∈ keys, lastFrom cc.mapping k none = some (MapFrom.attr k) ∧ k ∈ (schemaOf lc).map (·.1) := by
  unfold castStaticOk at h
  split at h
  · rename_i cls cc hd hl
    simp only [Bool.and_eq_true, beq_iff_eq] at h
    obtain ⟨⟨⟨h1, h2⟩, h3⟩, h4⟩ := h
    subst h1
    split at h4
    · rename_i lc hf
      simp only [Bool.and_eq_true, beq_iff_eq, List.all_eq_true, List.contains_iff_mem] at h4
      obtain ⟨⟨h5, h6⟩, _⟩ := h4
      exact ⟨cc, lc, hd, hl, by simpa using h2, h3, hf, fun k hk => ⟨h5 k hk, h6 k hk⟩⟩
    · cases h4
  · cases h

theorem castGo_index (lists : List (String × Frame)) (sf : Frame) :
    ∀ (m : List (String × MapFrom)) (b o : Frame), castGo lists sf m b = .ok o → o.index = b.index
  | [], b, o, ho => by simp only [castGo, Except.ok.injEq] at ho; subst ho; rfl
  | (t, fr) :: rest, b, o, ho => by
    simp only [castGo] at ho
    split at ho
    · cases ho
    · rename_i v hv
      have := castGo_index lists sf rest ⟨b.index, setCol b.cols t v⟩ o ho
      exact this

theorem runCast_key_cols (T : Tables) (c : Conv) (cur : SrcMap) (cc : CastCall) (sf f : Frame) (lc : ListClass)
    (keys : List String)
    (hsrc : cur.lists.lookup cc.srcAttr = some sf) (hvar : (cc.srcVar == curVar c) = true)
    (hcls : findClass T.lcs cc.cls = some lc) (h : runCast T c cur cc = .ok f)
    (hk : ∀ k ∈ keys, lastFrom cc.mapping k none = some (MapFrom.attr k) ∧ k ∈ (schemaOf lc).map (·.1)) :
    (∀ k ∈ keys, f.col? k = sf.col? k) ∧ f.nrows = sf.nrows := by
  simp only [runCast, srcFrame, hvar, if_true, hsrc, hcls, cast] at h
  constructor
  · intro k hkm
    obtain ⟨hl, hmem⟩ := hk k hkm
    have := (castGo_col cur.lists sf k cc.mapping _ f none h
      (by simpa [empty, Frame.names, List.map_map, Function.comp] using hmem) trivial).1
    rw [hl] at this
    exact this
  · have hidx := castGo_index cur.lists sf cc.mapping _ f h
    simp [Frame.nrows, hidx, empty, rangeIdx]

theorem colsOf_congr (f g : Frame) : ∀ (ks : List String), (∀ k ∈ ks, f.col? k = g.col? k) → colsOf f ks = colsOf g ks
  | [], _ => rfl
  | k :: t, h => by
    simp only [colsOf]
    rw [h k (by simp), colsOf_congr f g t (fun k' hk' => h k' (by simp [hk']))]

theorem projRows_congr (f g : Frame) (ks : List String) (hc : ∀ k ∈ ks, f.col? k = g.col? k)
    (hn : f.nrows = g.nrows) : projRows f ks = projRows g ks := by
  simp only [projRows, colsOf_congr f g ks hc, hn]

theorem shiftRow_zero (r : List Cell) : shiftRow 0 r = r := by
  match r with
  | [] => rfl
  | [_] => rfl
  | o :: c :: rest =>
    cases c <;> simp [shiftRow, addCell, Rat.add_zero]

theorem sameRows_of_eq (t s : Frame) (ks : List String) (h : projRows t ks = projRows s ks)
    (hs : (colsOf s ks).isSome = true) : sameRows t s ks 0 = true := by
  unfold sameRows
  rw [h]
  obtain ⟨cs, hcs⟩ := Option.isSome_iff_exists.mp hs
  simp only [projRows, hcs, Option.map_some]
  have : (rowsOf cs s.nrows).map (shiftRow 0) = rowsOf cs s.nrows := by
    rw [List.map_congr_left (g := id) (fun r _ => shiftRow_zero r)]; simp
  rw [this]
  exact List.isPerm_iff.mpr (List.Perm.refl _)

theorem listFor_of_static (T : Tables) (c : Conv) (cur : SrcMap) (attr : String) (keys : List String) (f sf : Frame)
    (hst : castStaticOk T c attr keys = true) (hsrc : cur.lists.lookup attr = some sf)
    (h : req (listFor T c cur attr) = .ok f) :
    (∀ k ∈ keys, f.col? k = sf.col? k) ∧ f.nrows = sf.nrows := by
  obtain ⟨cc, lc, hd, hl, hvar, hattr, hcls, hk⟩ := castStaticOk_unpack T c attr keys hst
  simp only [listFor, hd, hl] at h
  split at h
  · simp [req] at h
  · rename_i f' hf'
    simp only [req, Except.ok.injEq] at h
    subst h
    exact runCast_key_cols T c cur cc sf f' lc keys (by rw [hattr]; exact hsrc) hvar hcls hf' hk

/-- **Content preserved by one pass of a converter body** (model ⊨ `contentOk`).  For a table entry that passes
`staticOk` and has no shift parameter, and a source map with *arbitrary row labels* whose lists are well formed:
if the pass succeeds, the target chart's hits `(offset, column)`, holds `(offset, column, length)` and tempo points
`(offset, bpm)` are exactly the source's.  With `table_static_ok` this covers 14 of the 17 entry points; for the
three converters into BMS (`stack().column += k`) see `convOne_content` below. -/
theorem convOne_content_noshift (T : Tables) (c : Conv) (src : Src) (cur : SrcMap) (k : Int) (t : TChart)
    (hst : staticOk T c = true) (hns : c.shiftParam = none) (hok : srcMapOk cur = true)
    (h : convOne T c src cur k = .ok t) : contentOk 0 cur t = true := by
  simp only [staticOk, Bool.and_eq_true] at hst
  obtain ⟨⟨⟨⟨⟨⟨_, _⟩, hH⟩, hL⟩, hB⟩, _⟩, _⟩ := hst
  simp only [srcMapOk, Bool.and_eq_true] at hok
  obtain ⟨_, hlists⟩ := hok
  unfold contentOk
  split at hlists
  · rename_i sh sl sb eh el eb
    simp only [Bool.and_eq_true] at hlists
    obtain ⟨⟨kh, kl⟩, kb⟩ := hlists
    try simp only [eh, el, eb]
    unfold convOne at h
    split at h
    · cases h
    · split at h
      · rename_i fh fl fb fs me rh rl rb _ _
        simp only [hns, Except.ok.injEq] at h
        subst h
        obtain ⟨ch, nh⟩ := listFor_of_static T c cur "hits" keysHits fh sh hH eh rh
        obtain ⟨cl, nl⟩ := listFor_of_static T c cur "holds" keysHolds fl sl hL el rl
        obtain ⟨cb, nb⟩ := listFor_of_static T c cur "bpms" keysBpms fb sb hB eb rb
        simp only [Bool.and_eq_true]
        exact ⟨⟨sameRows_of_eq _ _ _ (projRows_congr _ _ _ ch nh) kh,
                sameRows_of_eq _ _ _ (projRows_congr _ _ _ cl nl) kl⟩,
               sameRows_of_eq _ _ _ (projRows_congr _ _ _ cb nb) kb⟩
      all_goals cases h
  · cases hlists

/-- non-vacuity: a StepMania chart with shuffled, gapped labels (as after a filter and a reverse sort) satisfies the
hypotheses, the pass succeeds, and all clauses of the specification hold -/
example :
    let m : SrcMap := ⟨[("hits", ⟨[9, 4], [("offset", [.num 100, .num 50]), ("column", [.num 0, .num 3])]⟩),
                        ("holds", ⟨[2], [("length", [.num 25]), ("offset", [.num 10]), ("column", [.num 1])]⟩),
                        ("bpms", ⟨[7], [("bpm", [.num 120]), ("metronome", [.num 4]), ("offset", [.num 0])]⟩)],
                       [("difficulty", "Hard"), ("difficulty_val", "9")], ""⟩
    let src : Src := ⟨[("title", "t"), ("artist", "a"), ("credit", "c"), ("title_translit", "t"),
                       ("artist_translit", "a"), ("music", "m"), ("background", "b")], [m]⟩
    srcMapOk m = true ∧ (conv! "SMToOsu.convert").shiftParam = none ∧
    verdictOf "SMToOsu.convert" src 0 = some ⟨true, true, true, true, true⟩ := by decide +kernel

/-- the shifted case on an instance: Quaver → BMS with `move_right_by = 2` -/
example :
    let m : SrcMap := ⟨[("svs", ⟨[], [("multiplier", []), ("offset", [])]⟩),
                        ("hits", ⟨[9, 4], [("column", [.num 0, .num 3]), ("offset", [.num 100, .num 50]),
                                           ("keysounds", [.other "list", .other "list"])]⟩),
                        ("holds", ⟨[2], [("keysounds", [.other "list"]), ("length", [.num 25]), ("column", [.num 1]),
                                         ("offset", [.num 10])]⟩),
                        ("bpms", ⟨[7], [("bpm", [.num 120]), ("metronome", [.num 4]), ("offset", [.num 0])]⟩)],
                       [("title", "t"), ("artist", "a"), ("creator", "c"), ("difficulty_name", "d")], ""⟩
    verdictOf "QuaToBMS.convert" ⟨[], [m]⟩ 2 = some ⟨true, true, true, true, true⟩ ∧
    verdictOf "QuaToBMS.convert" ⟨[], [m]⟩ 0 = some ⟨true, true, true, true, true⟩ := by decide +kernel

/-! ## the shifted case (`stack().column += k`) and all loop shapes -/

theorem addCol_lookup (k : Int) (name : String) :
    ∀ (cols : List (String × List Cell)),
      List.lookup name (cols.map fun p => if p.1 == "column" then (p.1, p.2.map (addCell k)) else p)
        = if name == "column" then (cols.lookup name).map (List.map (addCell k)) else cols.lookup name
  | [] => by simp [List.lookup]
  | (c, v) :: rest => by
    have ih := addCol_lookup k name rest
    by_cases h3 : (c == "column") = true
    · have hc3 : c = "column" := by simpa using h3
      have hhead : (((c, v) :: rest).map fun p => if p.1 == "column" then (p.1, p.2.map (addCell k)) else p)
          = (c, v.map (addCell k)) :: rest.map (fun p => if p.1 == "column" then (p.1, p.2.map (addCell k)) else p) := by
        simp
        exact fun h => absurd hc3 h
      rw [hhead]
      by_cases hc : (name == c) = true
      · have hn : name = c := by simpa using hc
        have hn3 : (name == "column") = true := by rw [hn]; exact h3
        rw [lookup_cons_eq name c _ _ hc, lookup_cons_eq name c _ _ hc, if_pos hn3]; rfl
      · have hc' : (name == c) = false := by simpa using hc
        rw [lookup_cons_ne name c _ _ hc', lookup_cons_ne name c _ _ hc']
        exact ih
    · have h3' : (c == "column") = false := by simpa using h3
      have hhead : (((c, v) :: rest).map fun p => if p.1 == "column" then (p.1, p.2.map (addCell k)) else p)
          = (c, v) :: rest.map (fun p => if p.1 == "column" then (p.1, p.2.map (addCell k)) else p) := by
        simp
        exact fun h => absurd h (by simpa using h3')
      rw [hhead]
      by_cases hc : (name == c) = true
      · have hn : name = c := by simpa using hc
        have hn3 : (name == "column") = false := by rw [hn]; exact h3'
        rw [lookup_cons_eq name c _ _ hc, lookup_cons_eq name c _ _ hc, if_neg (by simp [hn3])]
      · have hc' : (name == c) = false := by simpa using hc
        rw [lookup_cons_ne name c _ _ hc', lookup_cons_ne name c _ _ hc']
        exact ih

/-- a column of a list after `stack().column += k` and the relabelling -/
theorem restacked_col (k : Int) (s0 : Nat) (f : Frame) (name : String) :
    (relabel s0 (addCol k f)).col? name
      = if name == "column" then (f.col? name).map (List.map (addCell k)) else f.col? name := by
  simp only [Frame.col?, relabel, addCol]
  exact addCol_lookup k name f.cols

theorem restacked_nrows (k : Int) (s0 : Nat) (f : Frame) : (relabel s0 (addCol k f)).nrows = f.nrows := by
  simp [relabel, Frame.nrows, addCol]

theorem getD_map_addCell (k : Int) (c : List Cell) (i : Nat) :
    (c.map (addCell k)).getD i .nan = addCell k (c.getD i .nan) := by
  simp only [List.getD_eq_getElem?_getD, List.getElem?_map]
  cases c[i]? <;> rfl

theorem projRows_restacked_hits (k : Int) (s0 : Nat) (f : Frame) (h : (colsOf f keysHits).isSome = true) :
    projRows (relabel s0 (addCol k f)) keysHits = (projRows f keysHits).map (List.map (shiftRow k)) := by
  have e1 : ("offset" == "column") = false := by decide
  have e2 : ("column" == "column") = true := by decide
  unfold projRows
  rw [restacked_nrows]
  simp only [keysHits, colsOf, restacked_col, e1, e2] at h ⊢
  cases ho : f.col? "offset" with
  | none => simp [ho] at h
  | some co =>
    cases hc : f.col? "column" with
    | none => simp [ho, hc] at h
    | some cc =>
      simp [rowsOf, shiftRow]
      intro a _
      cases cc[a]? <;> rfl

theorem projRows_restacked_holds (k : Int) (s0 : Nat) (f : Frame) (h : (colsOf f keysHolds).isSome = true) :
    projRows (relabel s0 (addCol k f)) keysHolds = (projRows f keysHolds).map (List.map (shiftRow k)) := by
  have e1 : ("offset" == "column") = false := by decide
  have e2 : ("column" == "column") = true := by decide
  have e3 : ("length" == "column") = false := by decide
  unfold projRows
  rw [restacked_nrows]
  simp only [keysHolds, colsOf, restacked_col, e1, e2, e3] at h ⊢
  cases ho : f.col? "offset" with
  | none => simp [ho] at h
  | some co =>
    cases hc : f.col? "column" with
    | none => simp [ho, hc] at h
    | some cc =>
      cases hl : f.col? "length" with
      | none => simp [ho, hc, hl] at h
      | some cl =>
        simp [rowsOf, shiftRow]
        intro a _
        cases cc[a]? <;> rfl

theorem projRows_restacked_bpms (k : Int) (s0 : Nat) (f : Frame) :
    projRows (relabel s0 (addCol k f)) keysBpms = projRows f keysBpms := by
  have e1 : ("offset" == "column") = false := by decide
  have e4 : ("bpm" == "column") = false := by decide
  unfold projRows
  rw [restacked_nrows]
  simp only [keysBpms, colsOf, restacked_col, e1, e4]
  simp

theorem sameRows_of_shift (t s : Frame) (ks : List String) (k : Int)
    (h : projRows t ks = (projRows s ks).map (List.map (shiftRow k)))
    (hs : (colsOf s ks).isSome = true) : sameRows t s ks k = true := by
  unfold sameRows
  rw [h]
  obtain ⟨cs, hcs⟩ := Option.isSome_iff_exists.mp hs
  simp only [projRows, hcs, Option.map_some]
  exact List.isPerm_iff.mpr (List.Perm.refl _)

theorem restacked_congr (k : Int) (s0 s1 : Nat) (f g : Frame) (ks : List String)
    (hc : ∀ key ∈ ks, f.col? key = g.col? key) (hn : f.nrows = g.nrows) :
    projRows (relabel s0 (addCol k f)) ks = projRows (relabel s1 (addCol k g)) ks := by
  apply projRows_congr
  · intro key hk
    rw [restacked_col, restacked_col, hc key hk]
  · rw [restacked_nrows, restacked_nrows, hn]

/-- the shift a converter applies: its argument when it has a shift parameter, else none -/
def effShift (c : Conv) (k : Int) : Int := if c.shiftParam.isSome then k else 0

/-- **Content preserved by one pass of a converter body** (model ⊨ `contentOk`), all 17 entry points. -/
theorem convOne_content (T : Tables) (c : Conv) (src : Src) (cur : SrcMap) (k : Int) (t : TChart)
    (hst : staticOk T c = true) (hok : srcMapOk cur = true)
    (h : convOne T c src cur k = .ok t) : contentOk (effShift c k) cur t = true := by
  cases hsp : c.shiftParam with
  | none =>
    have : effShift c k = 0 := by simp [effShift, hsp]
    rw [this]
    exact convOne_content_noshift T c src cur k t hst hsp hok h
  | some p =>
    have hk : effShift c k = k := by simp [effShift, hsp]
    rw [hk]
    simp only [staticOk, Bool.and_eq_true] at hst
    obtain ⟨⟨⟨⟨⟨⟨_, _⟩, hH⟩, hL⟩, hB⟩, _⟩, _⟩ := hst
    simp only [srcMapOk, Bool.and_eq_true] at hok
    obtain ⟨_, hlists⟩ := hok
    unfold contentOk
    split at hlists
    · rename_i sh sl sb eh el eb
      simp only [Bool.and_eq_true] at hlists
      obtain ⟨⟨kh, kl⟩, kb⟩ := hlists
      try simp only [eh, el, eb]
      unfold convOne at h
      split at h
      · cases h
      · split at h
        · rename_i fh fl fb fs me rh rl rb _ _
          simp only [hsp, Except.ok.injEq] at h
          subst h
          obtain ⟨ch, nh⟩ := listFor_of_static T c cur "hits" keysHits fh sh hH eh rh
          obtain ⟨cl, nl⟩ := listFor_of_static T c cur "holds" keysHolds fl sl hL el rl
          obtain ⟨cb, nb⟩ := listFor_of_static T c cur "bpms" keysBpms fb sb hB eb rb
          simp only [Bool.and_eq_true]
          refine ⟨⟨sameRows_of_shift _ _ _ _ ?_ kh, sameRows_of_shift _ _ _ _ ?_ kl⟩, sameRows_of_eq _ _ _ ?_ kb⟩
          · rw [restacked_congr k _ 0 fh sh keysHits ch nh]
            exact projRows_restacked_hits k 0 sh kh
          · rw [restacked_congr k _ 0 fl sl keysHolds cl nl]
            exact projRows_restacked_holds k 0 sl kl
          · rw [projRows_restacked_bpms]
            exact projRows_congr _ _ _ cb nb
        all_goals cases h
    · cases hlists

/-! ### lifting through the loop shapes -/

theorem mapE_zip_all {α β γ} (f : α → Except Err β) (Q : α → β → Bool) (G : β → γ) :
    ∀ (l : List α) (r : List β), mapE f l = .ok r → (∀ a ∈ l, ∀ b, f a = .ok b → Q a b = true) →
      (l.zip (r.map fun t => (G t, t))).all (fun p => Q p.1 p.2.2) = true
  | [], r, h, _ => by simp
  | a :: t, r, h, hq => by
    simp only [mapE] at h
    split at h
    · cases h
    · rename_i b hb
      split at h
      · cases h
      · rename_i r' hr
        simp only [Except.ok.injEq] at h
        subst h
        simp only [List.map_cons, List.zip_cons_cons, List.all_cons, Bool.and_eq_true]
        exact ⟨hq a (by simp) b hb, mapE_zip_all f Q G t r' hr (fun a' ha' => hq a' (by simp [ha']))⟩

theorem pairs_singletons (il : Bool) (ts : List TChart) :
    (Out.mk il (ts.map fun t => ⟨[], [t]⟩)).pairs = ts.map fun t => ((⟨[], [t]⟩ : TGroup), t) := by
  induction ts with
  | nil => rfl
  | cons a t ih => simpa [Out.pairs, List.flatMap_cons] using ih

theorem pairs_merged (il : Bool) (sm : List (String × String)) (ts : List TChart) :
    (Out.mk il [⟨sm, ts⟩]).pairs = ts.map fun t => ((⟨sm, ts⟩ : TGroup), t) := by
  simp [Out.pairs]

theorem convSet_inv (T : Tables) (c : Conv) (src : Src) (k : Int) (m : SrcMap) (g : TGroup)
    (h : convSet T c src k m = .ok g) : ∃ t sm, g = ⟨sm, [t]⟩ ∧ convOne T c src m k = .ok t := by
  unfold convSet at h
  split at h
  · cases h
  · rename_i t ht
    split at h
    · cases h
    · rename_i sm _
      simp only [Except.ok.injEq] at h
      exact ⟨t, sm, h.symm, ht⟩

theorem mapE_convSet_zip_all (T : Tables) (c : Conv) (src : Src) (k : Int) (Q : SrcMap → TChart → Bool) :
    ∀ (ms : List SrcMap) (gs : List TGroup), mapE (convSet T c src k) ms = .ok gs →
      (∀ m ∈ ms, ∀ t, convOne T c src m k = .ok t → Q m t = true) →
      (ms.zip (gs.flatMap fun g => g.charts.map fun t => (g, t))).all (fun p => Q p.1 p.2.2) = true
  | [], gs, h, _ => by simp
  | m :: rest, gs, h, hq => by
    simp only [mapE] at h
    split at h
    · cases h
    · rename_i g hg
      split at h
      · cases h
      · rename_i r hr
        simp only [Except.ok.injEq] at h
        subst h
        obtain ⟨t, sm, rfl, ht⟩ := convSet_inv T c src k m g hg
        simp only [List.flatMap_cons, List.map_cons, List.map_nil, List.singleton_append, List.zip_cons_cons,
          List.all_cons, Bool.and_eq_true]
        exact ⟨hq m (by simp) t ht,
          mapE_convSet_zip_all T c src k Q rest r hr (fun m' hm' => hq m' (by simp [hm']))⟩

/-- **Content preserved by every converter** (model ⊨ `specAll.content`): for a table entry that passes `staticOk`
(all 17 do: `table_static_ok`), every source whose maps are well formed — arbitrary row labels, any number of maps —
and every shift argument: if the conversion succeeds, chart `i` of the result holds exactly the hits, holds and
tempo points of source map `i`, the column shifted by the shift argument only where the converter has one. -/
theorem convert_content (T : Tables) (c : Conv) (src : Src) (k : Int) (out : Out)
    (hst : staticOk T c = true) (hsrc : ∀ m ∈ src.maps, srcMapOk m = true)
    (h : convert T c src k = .ok out) :
    (specAll T c.srcGame c.tgtGame c.tgtMapClass src (effShift c k) out).content = true := by
  show (src.maps.zip out.pairs).all (fun p => contentOk (effShift c k) p.1 p.2.2) = true
  have hq : ∀ m ∈ src.maps, ∀ t, convOne T c src m k = .ok t → contentOk (effShift c k) m t = true :=
    fun m hm t ht => convOne_content T c src m k t hst (hsrc m hm) ht
  unfold convert at h
  split at h
  · -- single
    split at h
    · rename_i m hm
      split at h
      · cases h
      · rename_i t ht
        simp only [Except.ok.injEq] at h
        subst h
        simp only [hm, Out.pairs, List.flatMap_cons, List.flatMap_nil, List.map_cons, List.map_nil, List.append_nil,
          List.zip_cons_cons, List.zip_nil_right, List.all_cons, List.all_nil, Bool.and_true]
        exact hq m (by simp [hm]) t ht
    · cases h
  · -- singleSet
    split at h
    · rename_i m hm
      split at h
      · cases h
      · rename_i g hg
        simp only [Except.ok.injEq] at h
        subst h
        obtain ⟨t, sm, rfl, ht⟩ := convSet_inv T c src k m g hg
        simp only [hm, Out.pairs, List.flatMap_cons, List.flatMap_nil, List.map_cons, List.map_nil, List.append_nil,
          List.zip_cons_cons, List.zip_nil_right, List.all_cons, List.all_nil, Bool.and_true]
        exact hq m (by simp [hm]) t ht
    · cases h
  · -- listOfMaps
    split at h
    · cases h
    · rename_i ts hts
      simp only [Except.ok.injEq] at h
      subst h
      rw [pairs_singletons]
      exact mapE_zip_all _ _ _ _ ts hts hq
  · -- listOfSets
    split at h
    · cases h
    · rename_i gs hgs
      simp only [Except.ok.injEq] at h
      subst h
      exact mapE_convSet_zip_all T c src k _ _ gs hgs hq
  · -- mergedSet
    split at h
    · cases h
    · rename_i ts hts
      split at h
      · cases h
      · rename_i sm _
        simp only [Except.ok.injEq] at h
        subst h
        rw [pairs_merged]
        exact mapE_zip_all _ _ _ _ ts hts hq
  · -- mergedSetInLoop: excluded by staticOk
    simp only [staticOk, Bool.and_eq_true] at hst
    simp_all [goodShape]
  · cases h
  · cases h

/-- **The shipped converters**: for each of the 17 generated entries, every well-formed source (any labels, any
number of maps), every shift argument: a successful conversion returns one chart per source map, and chart `i`
holds exactly the hits / holds / tempo points of source map `i` (column shifted by the shift argument only). -/
theorem converters_content_and_count : ∀ c ∈ converters, ∀ (src : Src) (k : Int) (out : Out),
    (∀ m ∈ src.maps, srcMapOk m = true) → convert tables c src k = .ok out →
    (specAll tables c.srcGame c.tgtGame c.tgtMapClass src (effShift c k) out).content = true ∧
    (specAll tables c.srcGame c.tgtGame c.tgtMapClass src (effShift c k) out).onePer = true := by
  intro c hc src k out hsrc h
  exact ⟨convert_content tables c src k out (table_static_ok c hc) hsrc h,
         one_per_source tables c src k out (table_shapes c hc) h⟩

/-! ## SVs and fields of a whole conversion -/

/-- the restack step of `convOne` on one list -/
def restackOf (c : Conv) (k : Int) (s0 : Nat) (f : Frame) : Frame :=
  match c.shiftParam with
  | none => f
  | some _ => relabel s0 (addCol k f)

theorem convOne_inv (T : Tables) (c : Conv) (src : Src) (cur : SrcMap) (k : Int) (t : TChart)
    (h : convOne T c src cur k = .ok t) :
    ∃ fh fl fb fs me a b d, req (listFor T c cur "hits") = .ok fh ∧ req (listFor T c cur "holds") = .ok fl ∧
      req (listFor T c cur "bpms") = .ok fb ∧ listFor T c cur "svs" = .ok fs ∧
      metasAt c src (some cur) "map" c.metas [] = .ok me ∧
      t = ⟨restackOf c k a fh, restackOf c k b fl, restackOf c k d fb, fs.map (restackOf c k 0), me⟩ := by
  unfold convOne at h
  split at h
  · cases h
  · split at h
    · rename_i fh fl fb fs me rh rl rb rs rm
      cases hsp : c.shiftParam with
      | none =>
        simp only [hsp, Except.ok.injEq] at h
        subst h
        refine ⟨fh, fl, fb, fs, me, 0, 0, 0, rh, rl, rb, rs, rm, ?_⟩
        cases fs <;> simp [restackOf, hsp]
      | some p =>
        simp only [hsp, Except.ok.injEq] at h
        subst h
        refine ⟨fh, fl, fb, fs, me, (fs.map (·.nrows)).getD 0, (fs.map (·.nrows)).getD 0 + fh.nrows,
          (fs.map (·.nrows)).getD 0 + fh.nrows + fl.nrows, rh, rl, rb, rs, rm, ?_⟩
        have e : (fun f => relabel 0 (addCol k f)) = restackOf c k 0 := by
          funext f; simp [restackOf, hsp]
        simp [restackOf, hsp, e]
    all_goals cases h

theorem projRows_restacked_svs (k : Int) (s0 : Nat) (f : Frame) :
    projRows (relabel s0 (addCol k f)) keysSvs = projRows f keysSvs := by
  have e1 : ("offset" == "column") = false := by decide
  have e4 : ("multiplier" == "column") = false := by decide
  unfold projRows
  rw [restacked_nrows]
  simp only [keysSvs, colsOf, restacked_col, e1, e4]
  simp

theorem projRows_restackOf_svs (c : Conv) (k : Int) (s0 : Nat) (f : Frame) :
    projRows (restackOf c k s0 f) keysSvs = projRows f keysSvs := by
  unfold restackOf
  split
  · rfl
  · exact projRows_restacked_svs k s0 f

/-- **SVs carried by one pass** (model ⊨ `svsOk`) -/
theorem convOne_svs (T : Tables) (c : Conv) (src : Src) (cur : SrcMap) (k : Int) (t : TChart)
    (hst : staticOk T c = true) (hsv : srcSvsOk T c cur = true)
    (h : convOne T c src cur k = .ok t) : svsOk T.mcs c.srcGame c.tgtGame cur t = true := by
  unfold svsOk
  by_cases hh : (hasSvs T.mcs c.srcGame && hasSvs T.mcs c.tgtGame) = true
  · simp only [hh, if_true]
    simp only [srcSvsOk, hh, if_true] at hsv
    simp only [staticOk, Bool.and_eq_true] at hst
    obtain ⟨⟨_, hS⟩, _⟩ := hst
    simp only [svsStaticOk, hh, if_true] at hS
    split at hsv
    · rename_i s es
      obtain ⟨fh, fl, fb, fs, me, a, b, d, _, _, _, rs, _, rfl⟩ := convOne_inv T c src cur k t h
      obtain ⟨cc, lc, hd, hl, _, _, _, _⟩ := castStaticOk_unpack T c "svs" keysSvs hS
      -- the list exists in the target: `listFor` returned `some`
      have hsome : ∃ f, fs = some f := by
        simp only [listFor, hd, hl] at rs
        split at rs
        · cases rs
        · simp only [Except.ok.injEq] at rs
          exact ⟨_, rs.symm⟩
      obtain ⟨f, rfl⟩ := hsome
      have hreq : req (listFor T c cur "svs") = .ok f := by rw [rs]; rfl
      obtain ⟨cs, ns⟩ := listFor_of_static T c cur "svs" keysSvs f s hS es hreq
      simp only [es, Option.map_some]
      apply sameRows_of_eq _ _ _ _ hsv
      rw [projRows_restackOf_svs]
      exact projRows_congr _ _ _ cs ns
    · cases hsv
  · simp [hh]

/-! ### fields -/

def FieldsInv (names : List String) (b : Frame) : Prop :=
  b.names = names ∧ (∀ p ∈ b.cols, p.2.length = b.index.length) ∧ (∀ p ∈ b.cols, ∀ x ∈ p.2, x ≠ Cell.nan)

theorem setCol_mem (cols : List (String × List Cell)) (t : String) (v : List Cell) (p : String × List Cell)
    (hp : p ∈ setCol cols t v) : p.2 = v ∨ p ∈ cols := by
  simp only [setCol, List.mem_map] at hp
  obtain ⟨q, hq, rfl⟩ := hp
  split
  · left; rfl
  · right; exact hq

theorem mapE_strCell_noNan : ∀ (v v' : List Cell), mapE strCell v = .ok v' → ∀ x ∈ v', x ≠ Cell.nan
  | [], v', h => by
    simp only [mapE, Except.ok.injEq] at h
    subst h; simp
  | a :: t, v', h => by
    simp only [mapE] at h
    split at h
    · cases h
    · rename_i b hb
      split at h
      · cases h
      · rename_i r hr
        simp only [Except.ok.injEq] at h
        subst h
        intro x hx
        simp only [List.mem_cons] at hx
        rcases hx with rfl | hx
        · cases a <;> simp [strCell] at hb
          subst hb; simp
        · exact mapE_strCell_noNan t r hr x hx

theorem evalFrom_ok_props (lists : List (String × Frame)) (src : Frame) (bufIdx : List Int) (fr : MapFrom)
    (v : List Cell) (hfr : isAttr fr = true) (hsrc : ∀ p ∈ src.cols, ∀ x ∈ p.2, x ≠ Cell.nan)
    (h : evalFrom lists src bufIdx fr = .ok v) : v.length = bufIdx.length ∧ ∀ x ∈ v, x ≠ Cell.nan := by
  cases fr with
  | attr c =>
    simp only [evalFrom] at h
    split at h
    · rename_i v0 hv0
      split at h
      · rename_i hl
        simp only [Except.ok.injEq] at h
        subst h
        exact ⟨hl, hsrc (c, v0) (lookup_mem c v0 src.cols hv0)⟩
      · cases h
    · cases h
  | seriesStr _ _ => simp [isAttr] at hfr
  | arrayStr l c =>
    simp only [evalFrom] at h
    split at h
    · cases h
    · split at h
      · cases h
      · split at h
        · cases h
        · rename_i v1 hv1
          split at h
          · rename_i hl
            simp only [Except.ok.injEq] at h
            subst h
            exact ⟨hl, mapE_strCell_noNan _ _ hv1⟩
          · cases h
  | «opaque» _ => simp [isAttr] at hfr

theorem castGo_fields (lists : List (String × Frame)) (src : Frame) (names : List String)
    (hsrc : ∀ p ∈ src.cols, ∀ x ∈ p.2, x ≠ Cell.nan) :
    ∀ (mapping : List (String × MapFrom)) (b out : Frame), (∀ p ∈ mapping, isAttr p.2 = true) →
      FieldsInv names b → castGo lists src mapping b = .ok out → FieldsInv names out
  | [], b, out, _, hb, h => by
    simp only [castGo, Except.ok.injEq] at h
    subst h; exact hb
  | (t, fr) :: rest, b, out, hm, hb, h => by
    simp only [castGo] at h
    split at h
    · cases h
    · rename_i v hv
      obtain ⟨hl, hn⟩ := evalFrom_ok_props lists src b.index fr v (hm (t, fr) (by simp)) hsrc hv
      obtain ⟨b1, b2, b3⟩ := hb
      refine castGo_fields lists src names hsrc rest _ out (fun p hp => hm p (by simp [hp])) ?_ h
      refine ⟨?_, ?_, ?_⟩
      · simpa [Frame.names, setCol_names] using b1
      · intro p hp
        rcases setCol_mem b.cols t v p hp with e | e
        · rw [e]; exact hl
        · exact b2 p e
      · intro p hp
        rcases setCol_mem b.cols t v p hp with e | e
        · rw [e]; exact hn
        · exact b3 p e

theorem empty_fields (lc : ListClass) (n : Nat) (hd : ∀ p ∈ schemaOf lc, p.2 ≠ Cell.nan) :
    FieldsInv (lc.props.map (·.1)) (empty (schemaOf lc) n) := by
  refine ⟨?_, ?_, ?_⟩
  · simp [empty, Frame.names, schemaOf, List.map_map, Function.comp]
  · intro p hp
    simp only [empty, List.mem_map] at hp
    obtain ⟨q, _, rfl⟩ := hp
    simp [rangeIdx, empty]
  · intro p hp x hx
    simp only [empty, List.mem_map] at hp
    obtain ⟨q, hq, rfl⟩ := hp
    rw [List.mem_replicate] at hx
    rw [hx.2]; exact hd q hq

theorem frameFieldsOk_of_inv (lc : ListClass) (f : Frame) (h : FieldsInv (lc.props.map (·.1)) f) :
    frameFieldsOk lc f = true := by
  obtain ⟨h1, h2, h3⟩ := h
  simp only [frameFieldsOk, Bool.and_eq_true, List.all_eq_true, beq_iff_eq, noNan, bne_iff_ne, ne_eq]
  refine ⟨⟨?_, fun p hp => h2 p hp⟩, fun p hp x hx => h3 p hp x hx⟩
  rw [h1]
  exact List.isPerm_iff.mpr (List.Perm.refl _)

theorem restackOf_inv (c : Conv) (k : Int) (s0 : Nat) (names : List String) (f : Frame) (h : FieldsInv names f) :
    FieldsInv names (restackOf c k s0 f) := by
  unfold restackOf
  split
  · exact h
  · obtain ⟨h1, h2, h3⟩ := h
    refine ⟨?_, ?_, ?_⟩
    · rw [← h1]
      simp only [Frame.names, relabel, addCol, List.map_map]
      apply List.map_congr_left
      intro p _
      simp only [Function.comp]
      split <;> rfl
    · intro p hp
      simp only [relabel, addCol, List.mem_map] at hp
      obtain ⟨q, hq, rfl⟩ := hp
      have := h2 q hq
      simp only [relabel, addCol, Frame.nrows, List.length_map, List.length_range]
      split <;> simp [this]
    · intro p hp x hx
      simp only [relabel, addCol, List.mem_map] at hp
      obtain ⟨q, hq, rfl⟩ := hp
      split at hx
      · simp only [List.mem_map] at hx
        obtain ⟨y, hy, rfl⟩ := hx
        have := h3 q hq y hy
        cases y <;> simp_all [addCell]
      · exact h3 q hq x hx

theorem lastCast_mem (c : Conv) (attr : String) (cc : CastCall) (h : lastCast c attr = some cc) : cc ∈ c.casts := by
  unfold lastCast at h
  have := List.mem_of_find?_eq_some h
  simpa using this

theorem findClass_mem (lcs : List ListClass) (name : String) (lc : ListClass) (h : findClass lcs name = some lc) :
    lc ∈ lcs := List.mem_of_find?_eq_some h

theorem runCast_fields (T : Tables) (c : Conv) (cur : SrcMap) (cc : CastCall) (f : Frame) (lc : ListClass)
    (hcls : findClass T.lcs cc.cls = some lc) (hlf : ∀ p ∈ cc.mapping, isAttr p.2 = true)
    (hnn : srcNoNan cur = true) (hdef : ∀ lc ∈ T.lcs, ∀ p ∈ schemaOf lc, p.2 ≠ Cell.nan)
    (h : runCast T c cur cc = .ok f) : FieldsInv (lc.props.map (·.1)) f := by
  unfold runCast at h
  split at h
  · cases h
  · rename_i sf hsf
    simp only [hcls, cast] at h
    have hmem : (cc.srcAttr, sf) ∈ cur.lists := by
      unfold srcFrame at hsf
      split at hsf
      · split at hsf
        · rename_i f' hf'
          simp only [Except.ok.injEq] at hsf
          subst hsf
          exact lookup_mem _ _ _ hf'
        · cases hsf
      · cases hsf
    have hsrc : ∀ p ∈ sf.cols, ∀ x ∈ p.2, x ≠ Cell.nan := by
      simp only [srcNoNan, List.all_eq_true, Bool.and_eq_true] at hnn
      have := (hnn _ hmem).1
      simp only [noNan, List.all_eq_true, bne_iff_ne, ne_eq] at this
      exact this
    exact castGo_fields cur.lists sf _ hsrc cc.mapping _ f hlf
      (empty_fields lc sf.nrows (hdef lc (findClass_mem _ _ _ hcls))) h

/-- the list `attr` of the target after the body ran has exactly the declared fields and no NaN -/
theorem listFor_fields (T : Tables) (c : Conv) (cur : SrcMap) (attr : String) (f : Frame)
    (hdecl : ∀ cc, lastCast c attr = some cc → declaredCls T.mcs c attr = some cc.cls)
    (hlf : labelsFree c = true) (hnn : srcNoNan cur = true)
    (hdef : ∀ lc ∈ T.lcs, ∀ p ∈ schemaOf lc, p.2 ≠ Cell.nan)
    (h : listFor T c cur attr = .ok (some f)) :
    ∃ lc, (declaredCls T.mcs c attr).bind (findClass T.lcs) = some lc ∧ FieldsInv (lc.props.map (·.1)) f := by
  unfold listFor at h
  split at h
  · cases h
  · rename_i clsName hd
    split at h
    · rename_i cc hl
      split at h
      · cases h
      · rename_i f' hf'
        simp only [Except.ok.injEq, Option.some.injEq] at h
        subst h
        have hd' := hdecl cc hl
        rw [hd] at hd'
        simp only [Option.some.injEq] at hd'
        subst hd'
        -- the class exists (else `runCast` fails)
        cases hc : findClass T.lcs cc.cls with
        | none =>
          simp only [runCast, hc] at hf'
          split at hf' <;> cases hf'
        | some lc =>
          refine ⟨lc, by simp [hd, hc], ?_⟩
          have hmap : ∀ p ∈ cc.mapping, isAttr p.2 = true := by
            simp only [labelsFree, List.all_eq_true] at hlf
            exact hlf cc (lastCast_mem c attr cc hl)
          exact runCast_fields T c cur cc f' lc hc hmap hnn hdef hf'
    · split at h
      · rename_i lc hc
        simp only [Except.ok.injEq, Option.some.injEq] at h
        subst h
        exact ⟨lc, by simp [hd, hc], empty_fields lc 0 (hdef lc (findClass_mem _ _ _ hc))⟩
      · cases h

theorem listFieldsOk_of (T : Tables) (c : Conv) (attr : String) (f : Frame) (lc : ListClass)
    (h1 : (declaredCls T.mcs c attr).bind (findClass T.lcs) = some lc) (h2 : FieldsInv (lc.props.map (·.1)) f) :
    listFieldsOk T c.tgtMapClass attr f = true := by
  unfold listFieldsOk
  unfold declaredCls at h1
  cases hd : ((T.mcs.find? (·.name == c.tgtMapClass)).bind (·.lists.lookup attr)) with
  | none => simp [hd] at h1
  | some cls =>
    simp only [hd, Option.bind_some] at h1
    simp only [h1]
    exact frameFieldsOk_of_inv lc f h2

theorem req_ok (o : Except Err (Option Frame)) (f : Frame) (h : req o = .ok f) : o = .ok (some f) := by
  unfold req at h
  split at h
  · cases h
  · cases h
  · simp only [Except.ok.injEq] at h
    subst h; rfl

theorem hdecl_of_static (T : Tables) (c : Conv) (attr : String) (keys : List String)
    (h : castStaticOk T c attr keys = true) :
    ∀ cc, lastCast c attr = some cc → declaredCls T.mcs c attr = some cc.cls := by
  obtain ⟨cc0, _, hd, hl, _⟩ := castStaticOk_unpack T c attr keys h
  intro cc hcc
  rw [hl] at hcc
  simp only [Option.some.injEq] at hcc
  subst hcc
  exact hd

theorem listFor_none (T : Tables) (c : Conv) (cur : SrcMap) (attr : String)
    (h : listFor T c cur attr = .ok none) : declaredCls T.mcs c attr = none := by
  unfold listFor at h
  split at h
  · assumption
  · split at h
    · split at h <;> cases h
    · split at h <;> cases h

/-- **Only the target's fields, no missing value, after one pass** (model ⊨ `fieldsOk`): every list of the target
chart has exactly the columns its class declares, full length, no NaN — for every target game (Quaver included). -/
theorem convOne_fields (T : Tables) (c : Conv) (src : Src) (cur : SrcMap) (k : Int) (t : TChart)
    (hst : staticOk T c = true) (hlf : labelsFree c = true) (hnn : srcNoNan cur = true)
    (hdef : ∀ lc ∈ T.lcs, ∀ p ∈ schemaOf lc, p.2 ≠ Cell.nan)
    (h : convOne T c src cur k = .ok t) : fieldsOk T c.tgtMapClass t = true := by
  obtain ⟨fh, fl, fb, fs, me, a, b, d, rh, rl, rb, rs, _, rfl⟩ := convOne_inv T c src cur k t h
  simp only [staticOk, Bool.and_eq_true] at hst
  obtain ⟨⟨⟨⟨⟨⟨_, _⟩, hH⟩, hL⟩, hB⟩, hS⟩, _⟩ := hst
  have one : ∀ (attr : String) (keys : List String) (f : Frame) (s0 : Nat), castStaticOk T c attr keys = true →
      req (listFor T c cur attr) = .ok f → listFieldsOk T c.tgtMapClass attr (restackOf c k s0 f) = true := by
    intro attr keys f s0 hs hr
    obtain ⟨lc, h1, h2⟩ := listFor_fields T c cur attr f (hdecl_of_static T c attr keys hs) hlf hnn hdef (req_ok _ _ hr)
    exact listFieldsOk_of T c attr _ lc h1 (restackOf_inv c k s0 _ f h2)
  simp only [fieldsOk, Bool.and_eq_true]
  refine ⟨⟨⟨one "hits" keysHits fh a hH rh, one "holds" keysHolds fl b hL rl⟩, one "bpms" keysBpms fb d hB rb⟩, ?_⟩
  cases fs with
  | none =>
    have := listFor_none T c cur "svs" rs
    simp only [Option.map_none]
    unfold declaredCls at this
    simp [this]
  | some f =>
    simp only [Option.map_some]
    have hdecl : ∀ cc, lastCast c "svs" = some cc → declaredCls T.mcs c "svs" = some cc.cls := by
      unfold svsStaticOk at hS
      split at hS
      · exact hdecl_of_static T c "svs" keysSvs hS
      · intro cc hcc
        rw [hcc] at hS
        simp at hS
    obtain ⟨lc, h1, h2⟩ := listFor_fields T c cur "svs" f hdecl hlf hnn hdef rs
    exact listFieldsOk_of T c "svs" _ lc h1 (restackOf_inv c k 0 _ f h2)

/-- a statement about every pass of the body holds for every (source map, target chart) pair of the result -/
theorem convert_zip_all (T : Tables) (c : Conv) (src : Src) (k : Int) (out : Out) (Q : SrcMap → TChart → Bool)
    (hst : staticOk T c = true)
    (hq : ∀ m ∈ src.maps, ∀ t, convOne T c src m k = .ok t → Q m t = true)
    (h : convert T c src k = .ok out) :
    (src.maps.zip out.pairs).all (fun p => Q p.1 p.2.2) = true := by
  unfold convert at h
  split at h
  · -- single
    split at h
    · rename_i m hm
      split at h
      · cases h
      · rename_i t ht
        simp only [Except.ok.injEq] at h
        subst h
        simp only [hm, Out.pairs, List.flatMap_cons, List.flatMap_nil, List.map_cons, List.map_nil, List.append_nil,
          List.zip_cons_cons, List.zip_nil_right, List.all_cons, List.all_nil, Bool.and_true]
        exact hq m (by simp [hm]) t ht
    · cases h
  · -- singleSet
    split at h
    · rename_i m hm
      split at h
      · cases h
      · rename_i g hg
        simp only [Except.ok.injEq] at h
        subst h
        obtain ⟨t, sm, rfl, ht⟩ := convSet_inv T c src k m g hg
        simp only [hm, Out.pairs, List.flatMap_cons, List.flatMap_nil, List.map_cons, List.map_nil, List.append_nil,
          List.zip_cons_cons, List.zip_nil_right, List.all_cons, List.all_nil, Bool.and_true]
        exact hq m (by simp [hm]) t ht
    · cases h
  · -- listOfMaps
    split at h
    · cases h
    · rename_i ts hts
      simp only [Except.ok.injEq] at h
      subst h
      rw [pairs_singletons]
      exact mapE_zip_all _ _ _ _ ts hts hq
  · -- listOfSets
    split at h
    · cases h
    · rename_i gs hgs
      simp only [Except.ok.injEq] at h
      subst h
      exact mapE_convSet_zip_all T c src k _ _ gs hgs hq
  · -- mergedSet
    split at h
    · cases h
    · rename_i ts hts
      split at h
      · cases h
      · rename_i sm _
        simp only [Except.ok.injEq] at h
        subst h
        rw [pairs_merged]
        exact mapE_zip_all _ _ _ _ ts hts hq
  · -- mergedSetInLoop: excluded by staticOk
    simp only [staticOk, Bool.and_eq_true] at hst
    simp_all [goodShape]
  · cases h
  · cases h


theorem zip_all_snd {α β} (P : β → Bool) : ∀ (l : List α) (r : List β), l.length = r.length →
    (l.zip r).all (fun p => P p.2) = true → r.all P = true
  | [], [], _, _ => rfl
  | [], _ :: _, h, _ => by simp at h
  | _ :: _, [], h, _ => by simp at h
  | a :: l, b :: r, h, hz => by
    simp only [List.zip_cons_cons, List.all_cons, Bool.and_eq_true] at hz ⊢
    exact ⟨hz.1, zip_all_snd P l r (by simpa using h) hz.2⟩

theorem pairs_length (o : Out) : o.pairs.length = o.charts.length := by
  obtain ⟨il, gs⟩ := o
  simp only [Out.pairs, Out.charts]
  induction gs with
  | nil => rfl
  | cons g t ih => simp [List.flatMap_cons, ih]

/-- **SVs carried by every converter** (model ⊨ `specAll.svs`) -/
theorem convert_svs (T : Tables) (c : Conv) (src : Src) (k k' : Int) (out : Out)
    (hst : staticOk T c = true) (hsrc : ∀ m ∈ src.maps, srcSvsOk T c m = true)
    (h : convert T c src k = .ok out) :
    (specAll T c.srcGame c.tgtGame c.tgtMapClass src k' out).svs = true :=
  convert_zip_all T c src k out (fun m t => svsOk T.mcs c.srcGame c.tgtGame m t) hst
    (fun m hm t ht => convOne_svs T c src m k t hst (hsrc m hm) ht) h

/-- a statement about every produced chart -/
theorem convert_all_charts (T : Tables) (c : Conv) (src : Src) (k : Int) (out : Out) (F : TChart → Bool)
    (hst : staticOk T c = true)
    (hq : ∀ m ∈ src.maps, ∀ t, convOne T c src m k = .ok t → F t = true)
    (h : convert T c src k = .ok out) : out.pairs.all (fun p => F p.2) = true := by
  have hz := convert_zip_all T c src k out (fun _ t => F t) hst hq h
  have hshape : goodShape c.shape = true := by
    simp only [staticOk, Bool.and_eq_true] at hst
    exact hst.1.1.1.1.1.2
  have hone := one_per_source T c src k out hshape h
  simp only [onePerSource, beq_iff_eq] at hone
  exact zip_all_snd (fun p : TGroup × TChart => F p.2) src.maps out.pairs (by rw [pairs_length, hone]) hz

/-- **Only the target's fields, no missing value, for every converter** (model ⊨ `specAll.fields`) -/
theorem convert_fields (T : Tables) (c : Conv) (src : Src) (k k' : Int) (out : Out)
    (hst : staticOk T c = true) (hlf : labelsFree c = true)
    (hdef : ∀ lc ∈ T.lcs, ∀ p ∈ schemaOf lc, p.2 ≠ Cell.nan)
    (hsrc : ∀ m ∈ src.maps, srcNoNan m = true)
    (h : convert T c src k = .ok out) :
    (specAll T c.srcGame c.tgtGame c.tgtMapClass src k' out).fields = true :=
  convert_all_charts T c src k out (fieldsOk T c.tgtMapClass) hst
    (fun m hm t ht => convOne_fields T c src m k t hst hlf (hsrc m hm) hdef ht) h

/-- **The shipped converters, all clauses but metadata**: for each of the 17 generated entries, every well-formed
source without missing values (any row labels, any number of maps), every shift argument: a successful conversion
returns one chart per source map; chart `i` holds exactly the hits / holds / tempo points of source map `i` (column
shifted by the shift argument only) and its SVs when both games have them; every list of every chart has exactly
the declared fields and no NaN. -/
theorem converters_spec : ∀ c ∈ converters, ∀ (src : Src) (k : Int) (out : Out),
    srcOk tables c src = true → convert tables c src k = .ok out →
    let v := specAll tables c.srcGame c.tgtGame c.tgtMapClass src (effShift c k) out
    v.onePer = true ∧ v.content = true ∧ v.svs = true ∧ v.fields = true := by
  intro c hc src k out hsrc h
  simp only [srcOk, List.all_eq_true, Bool.and_eq_true] at hsrc
  have hst := table_static_ok c hc
  exact ⟨one_per_source tables c src k out (table_shapes c hc) h,
         convert_content tables c src k out hst (fun m hm => (hsrc m hm).1.1) h,
         convert_svs tables c src k _ out hst (fun m hm => (hsrc m hm).1.2) h,
         convert_fields tables c src k _ out hst (table_labels_free c hc) table_defaults_no_nan
           (fun m hm => (hsrc m hm).2) h⟩

/-! ## metadata of a whole conversion -/

/-! ### atoms -/

theorem abstractAtom_eval (c : Conv) (src : Src) (m : SrcMap) (x : Atom) (y : RAtom)
    (h : abstractAtom c x = some y) : evalAtom c src (some m) x = evalRAtom src m y := by
  cases x with
  | lit s =>
    simp only [abstractAtom, Option.some.injEq] at h
    subst h; rfl
  | attr o a =>
    simp only [abstractAtom] at h
    simp only [evalAtom]
    split at h
    · rename_i ho
      simp only [ho, if_true]
      split at h
      · rename_i hl
        simp only [Option.some.injEq] at h
        subst h
        simp [hl, evalRAtom]
      · rename_i hl
        simp only [Option.some.injEq] at h
        subst h
        simp [hl, evalRAtom]
    · rename_i ho
      simp only [ho]
      split at h
      · rename_i hl
        simp only [Option.some.injEq] at h
        subst h
        simp [hl, evalRAtom]
      · cases h
  | levelName s mm =>
    simp only [abstractAtom] at h
    simp only [evalAtom]
    split at h
    · rename_i hc
      simp only [Option.some.injEq] at h
      subst h
      simp [hc, evalRAtom]
    · cases h

/-- an atom that refers to the source *set* (or a literal) does not depend on the current map at all -/
theorem abstractAtom_eval_setOnly (c : Conv) (src : Src) (cur : Option SrcMap) (m : SrcMap) (x : Atom) (y : RAtom)
    (h : abstractAtom c x = some y) (hs : setOnly y = true) : evalAtom c src cur x = evalRAtom src m y := by
  cases x with
  | lit s =>
    simp only [abstractAtom, Option.some.injEq] at h
    subst h; rfl
  | attr o a =>
    simp only [abstractAtom] at h
    simp only [evalAtom]
    split at h
    · rename_i ho
      simp only [ho, if_true]
      split at h
      · rename_i hl
        simp only [Option.some.injEq] at h
        subst h
        simp [hl, evalRAtom]
      · simp only [Option.some.injEq] at h
        subst h
        simp [setOnly] at hs
    · split at h
      · simp only [Option.some.injEq] at h
        subst h
        simp [setOnly] at hs
      · cases h
  | levelName s mm =>
    simp only [abstractAtom] at h
    split at h
    · simp only [Option.some.injEq] at h
      subst h
      simp [setOnly] at hs
    · cases h

theorem absAtoms_eval (c : Conv) (src : Src) (m : SrcMap) :
    ∀ (ps : List Atom) (rs : List RAtom), absAtoms c ps = some rs →
      evalAtoms c src (some m) ps = evalRAtoms src m rs
  | [], rs, h => by
    simp only [absAtoms, Option.some.injEq] at h
    subst h; rfl
  | x :: t, rs, h => by
    simp only [absAtoms] at h
    split at h
    · rename_i y ys hy hys
      simp only [Option.some.injEq] at h
      subst h
      simp only [evalAtoms, evalRAtoms, abstractAtom_eval c src m x y hy, absAtoms_eval c src m t ys hys]
      cases evalRAtom src m y <;> cases evalRAtoms src m ys <;> rfl
    · cases h

theorem absAtoms_eval_setOnly (c : Conv) (src : Src) (cur : Option SrcMap) (m : SrcMap) :
    ∀ (ps : List Atom) (rs : List RAtom), absAtoms c ps = some rs → rs.all setOnly = true →
      evalAtoms c src cur ps = evalRAtoms src m rs
  | [], rs, h, _ => by
    simp only [absAtoms, Option.some.injEq] at h
    subst h; rfl
  | x :: t, rs, h, hs => by
    simp only [absAtoms] at h
    split at h
    · rename_i y ys hy hys
      simp only [Option.some.injEq] at h
      subst h
      simp only [List.all_cons, Bool.and_eq_true] at hs
      simp only [evalAtoms, evalRAtoms, abstractAtom_eval_setOnly c src cur m x y hy hs.1,
        absAtoms_eval_setOnly c src cur m t ys hys hs.2]
      cases evalRAtom src m y <;> cases evalRAtoms src m ys <;> rfl
    · cases h

theorem evalRAtoms_append (src : Src) (m : SrcMap) :
    ∀ (pre want : List RAtom) (w v : String), evalRAtoms src m (pre ++ want) = some w →
      evalRAtoms src m want = some v → ∃ wp, w = wp ++ v
  | [], want, w, v, h1, h2 => by
    simp only [List.nil_append] at h1
    rw [h1] at h2
    simp only [Option.some.injEq] at h2
    exact ⟨"", by simp [h2]⟩
  | a :: pre, want, w, v, h1, h2 => by
    simp only [List.cons_append, evalRAtoms] at h1
    split at h1
    · rename_i x y hx hy
      simp only [Option.some.injEq] at h1
      obtain ⟨wp, hwp⟩ := evalRAtoms_append src m pre want y v hy h2
      exact ⟨x ++ wp, by rw [← h1, hwp, String.append_assoc]⟩
    · cases h1

/-! ### the assigned attributes -/

/-- what the attribute list holds for `a`, given the last assignment to it seen so far -/
def MetaInv (c : Conv) (src : Src) (cur : Option SrcMap) (a : String) (acc : List (String × String)) :
    Option MetaAssign → Prop
  | some m0 => ∀ ps, exprAtoms m0.expr = some ps → ∃ w, acc.lookup a = some w ∧ evalAtoms c src cur ps = some w
  | none => True

theorem evalMeta_atoms (c : Conv) (src : Src) (cur : Option SrcMap) (e : MetaExpr) (v : String) (ps : List Atom)
    (h : evalMeta c src cur e = some (some v)) (hp : exprAtoms e = some ps) : evalAtoms c src cur ps = some v := by
  cases e with
  | fmt qs =>
    simp only [exprAtoms, Option.some.injEq] at hp
    subst hp
    simpa [evalMeta] using h
  | decoded x =>
    simp only [exprAtoms, Option.some.injEq] at hp
    subst hp
    simp only [evalMeta, Option.some.injEq] at h
    simp [evalAtoms, h]
  | encoded qs =>
    simp only [exprAtoms, Option.some.injEq] at hp
    subst hp
    simpa [evalMeta] using h
  | «opaque» _ => simp [exprAtoms] at hp

theorem metasAt_inv (c : Conv) (src : Src) (cur : Option SrcMap) (lvl a : String) :
    ∀ (metas : List MetaAssign) (acc me : List (String × String)) (last : Option MetaAssign),
      metasAt c src cur lvl metas acc = .ok me → MetaInv c src cur a acc last →
      MetaInv c src cur a me (lastAssign metas lvl a last)
  | [], acc, me, last, h, hinv => by
    simp only [metasAt, Except.ok.injEq] at h
    subst h
    exact hinv
  | m :: t, acc, me, last, h, hinv => by
    simp only [metasAt] at h
    simp only [lastAssign]
    by_cases hl : (m.level == lvl) = true
    · simp only [hl, if_true] at h
      simp only [hl, Bool.true_and]
      cases he : evalMeta c src cur m.expr with
      | none =>
        simp only [he] at h
        refine metasAt_inv c src cur lvl a t acc me _ h ?_
        by_cases ha : (m.attr == a) = true
        · simp only [ha, if_true]
          intro ps hps
          cases hm : m.expr <;> simp [hm, evalMeta, exprAtoms] at he hps
        · have ha' : (m.attr == a) = false := by simpa using ha
          simp only [ha']
          exact hinv
      | some ov =>
        cases ov with
        | none => simp [he] at h
        | some v =>
          simp only [he] at h
          refine metasAt_inv c src cur lvl a t _ me _ h ?_
          by_cases ha : (m.attr == a) = true
          · have hae : m.attr = a := by simpa using ha
            simp only [ha, if_true]
            intro ps hps
            refine ⟨v, ?_, evalMeta_atoms c src cur m.expr v ps he hps⟩
            rw [hae]
            exact lookup_cons_eq a a v acc (by simp)
          · have ha' : (m.attr == a) = false := by simpa using ha
            have ha2 : (a == m.attr) = false := by
              have : m.attr ≠ a := by simpa using ha'
              simpa using (fun e : a = m.attr => this e.symm)
            simp only [ha']
            cases last with
            | none => trivial
            | some m0 =>
              intro ps hps
              obtain ⟨w, hw, he'⟩ := hinv ps hps
              exact ⟨w, by rw [lookup_cons_ne a m.attr v acc ha2]; exact hw, he'⟩
    · have hl' : (m.level == lvl) = false := by simpa using hl
      simp only [hl'] at h
      simp only [hl', Bool.false_and]
      exact metasAt_inv c src cur lvl a t acc me last h hinv

theorem roleStaticOk_unpack (c : Conv) (r : Role) (lvl a : String) (want : List RAtom)
    (htr : tgtRole c.tgtGame r = some (lvl, a)) (hrs : roleSpec c.srcGame r = some want)
    (hst : roleStaticOk c r = true) :
    ∃ m0 ps rs, lastAssign c.metas lvl a none = some m0 ∧ exprAtoms m0.expr = some ps ∧ absAtoms c ps = some rs ∧
      (if r = .diff then want.isSuffixOf rs else rs == want) = true ∧
      (lvl == "map" || (lvl == "set" && hasSet c.shape)) = true ∧
      (!(lvl == "set" && c.shape == Shape.mergedSet) || rs.all setOnly) = true := by
  unfold roleStaticOk at hst
  simp only [htr, hrs] at hst
  split at hst
  · rename_i m0 hm0
    split at hst
    · rename_i ps hps
      split at hst
      · rename_i rs hrs'
        simp only [Bool.and_eq_true] at hst
        exact ⟨m0, ps, rs, hm0, hps, hrs', hst.1.1, hst.1.2, hst.2⟩
      · cases hst
    · cases hst
  · cases hst

/-- **One role of one chart** (model ⊨ `roleOk`): given the static check of the table entry, the attributes the
pass assigned to the map (`t.attrs`) and — where the target keeps the role on the set — the attributes assigned to
the set, evaluated at the current map or, in the merged shape, after the loop. -/
theorem roleOk_of_static (c : Conv) (r : Role) (src : Src) (m : SrcMap) (g : TGroup) (t : TChart)
    (curS : Option SrcMap) (hst : roleStaticOk c r = true)
    (hmap : metasAt c src (some m) "map" c.metas [] = .ok t.attrs)
    (hset : hasSet c.shape = true → metasAt c src curS "set" c.metas [] = .ok g.setMeta)
    (hcur : (c.shape == Shape.mergedSet) = false → curS = some m) :
    roleOk c.srcGame c.tgtGame r src m g t = true := by
  unfold roleOk srcRole
  cases htr : tgtRole c.tgtGame r with
  | none => rfl
  | some la =>
    obtain ⟨lvl, a⟩ := la
    cases hrs : roleSpec c.srcGame r with
    | none => rfl
    | some want =>
      simp only [Option.bind_some]
      cases hv : evalRAtoms src m want with
      | none => rfl
      | some v =>
        obtain ⟨m0, ps, rs, hm0, hps, hrs', h1, h2, h3⟩ := roleStaticOk_unpack c r lvl a want htr hrs hst
        -- the value stored under `a` and what it evaluates to
        have key : ∃ w, (if lvl == "set" then g.setMeta else t.attrs).lookup a = some w ∧
            evalRAtoms src m rs = some w := by
          by_cases hl : (lvl == "set") = true
          · have hls : lvl = "set" := by simpa using hl
            subst hls
            have hhs : hasSet c.shape = true := by simpa using h2
            have inv := metasAt_inv c src curS "set" a c.metas [] g.setMeta none (hset hhs) trivial
            rw [hm0] at inv
            obtain ⟨w, hw, he⟩ := inv ps hps
            refine ⟨w, by simpa using hw, ?_⟩
            by_cases hmg : (c.shape == Shape.mergedSet) = true
            · have hso : rs.all setOnly = true := by simpa [hmg] using h3
              rw [← absAtoms_eval_setOnly c src curS m ps rs hrs' hso]; exact he
            · have hmg' : (c.shape == Shape.mergedSet) = false := by simpa using hmg
              rw [hcur hmg'] at he
              rw [← absAtoms_eval c src m ps rs hrs']; exact he
          · have hl' : (lvl == "set") = false := by simpa using hl
            have hlm : lvl = "map" := by simpa [hl'] using h2
            subst hlm
            have inv := metasAt_inv c src (some m) "map" a c.metas [] t.attrs none hmap trivial
            rw [hm0] at inv
            obtain ⟨w, hw, he⟩ := inv ps hps
            refine ⟨w, by simpa [hl'] using hw, ?_⟩
            rw [← absAtoms_eval c src m ps rs hrs']; exact he
        obtain ⟨w, hw, hew⟩ := key
        simp only [hw]
        by_cases hd : r = Role.diff
        · simp only [hd, if_true] at h1 ⊢
          obtain ⟨pre, rfl⟩ := List.isSuffixOf_iff_suffix.mp h1
          obtain ⟨wp, rfl⟩ := evalRAtoms_append src m pre want w v hew hv
          rw [List.isSuffixOf_iff_suffix, String.toList_append]
          exact List.suffix_append _ _
        · simp only [hd, if_false] at h1 ⊢
          have : rs = want := by simpa using h1
          subst this
          rw [hv] at hew
          simp only [Option.some.injEq] at hew
          simp [hew]

/-! ### every (source map, group, chart) triple of a result -/

/-- the map the set's attributes are evaluated at: the current one, or — merged shape — the last one (after the loop) -/
def curSet (c : Conv) (src : Src) (m : SrcMap) : Option SrcMap :=
  if c.shape == Shape.mergedSet then src.maps.getLast? else some m

theorem mapE_zip_forall {α β γ} (f : α → Except Err β) (P : α → β → Prop) (G : β → γ) :
    ∀ (l : List α) (r : List β), mapE f l = .ok r → (∀ a ∈ l, ∀ b, f a = .ok b → P a b) →
      ∀ p ∈ l.zip (r.map fun t => (G t, t)), P p.1 p.2.2 ∧ p.2.1 = G p.2.2
  | [], r, _, _ => by simp
  | a :: t, r, h, hq => by
    simp only [mapE] at h
    split at h
    · cases h
    · rename_i b hb
      split at h
      · cases h
      · rename_i r' hr
        simp only [Except.ok.injEq] at h
        subst h
        intro p hp
        simp only [List.map_cons, List.zip_cons_cons, List.mem_cons] at hp
        rcases hp with rfl | hp
        · exact ⟨hq a (by simp) b hb, rfl⟩
        · exact mapE_zip_forall f P G t r' hr (fun a' ha' => hq a' (by simp [ha'])) p hp

theorem convSet_inv2 (T : Tables) (c : Conv) (src : Src) (k : Int) (m : SrcMap) (g : TGroup)
    (h : convSet T c src k m = .ok g) :
    ∃ t, g.charts = [t] ∧ convOne T c src m k = .ok t ∧ setMetaOf c src (some m) = .ok g.setMeta := by
  unfold convSet at h
  split at h
  · cases h
  · rename_i t ht
    split at h
    · cases h
    · rename_i sm hsm
      simp only [Except.ok.injEq] at h
      subst h
      exact ⟨t, rfl, ht, hsm⟩

theorem mapE_convSet_forall (T : Tables) (c : Conv) (src : Src) (k : Int) :
    ∀ (ms : List SrcMap) (gs : List TGroup), mapE (convSet T c src k) ms = .ok gs →
      ∀ p ∈ ms.zip (gs.flatMap fun g => g.charts.map fun t => (g, t)),
        convOne T c src p.1 k = .ok p.2.2 ∧ setMetaOf c src (some p.1) = .ok p.2.1.setMeta
  | [], gs, _ => by simp
  | m :: rest, gs, h => by
    simp only [mapE] at h
    split at h
    · cases h
    · rename_i g hg
      split at h
      · cases h
      · rename_i r hr
        simp only [Except.ok.injEq] at h
        subst h
        obtain ⟨t, hc, ht, hs⟩ := convSet_inv2 T c src k m g hg
        intro p hp
        simp only [List.flatMap_cons, hc, List.map_cons, List.map_nil, List.singleton_append, List.zip_cons_cons,
          List.mem_cons] at hp
        rcases hp with rfl | hp
        · exact ⟨ht, hs⟩
        · exact mapE_convSet_forall T c src k rest r hr p hp

/-- what every (source map, group, chart) triple of a successful conversion satisfies -/
theorem convert_pairs_inv (T : Tables) (c : Conv) (src : Src) (k : Int) (out : Out)
    (hgs : goodShape c.shape = true) (h : convert T c src k = .ok out) :
    ∀ p ∈ src.maps.zip out.pairs, convOne T c src p.1 k = .ok p.2.2 ∧
      (hasSet c.shape = true → setMetaOf c src (curSet c src p.1) = .ok p.2.1.setMeta) := by
  unfold convert at h
  split at h
  · -- single
    rename_i hsh
    split at h
    · rename_i m hm
      split at h
      · cases h
      · rename_i t ht
        simp only [Except.ok.injEq] at h
        subst h
        intro p hp
        simp only [hm, Out.pairs, List.flatMap_cons, List.flatMap_nil, List.map_cons, List.map_nil, List.append_nil,
          List.zip_cons_cons, List.zip_nil_right, List.mem_singleton] at hp
        subst hp
        exact ⟨ht, by simp [hsh, hasSet]⟩
    · cases h
  · -- singleSet
    rename_i hsh
    split at h
    · rename_i m hm
      split at h
      · cases h
      · rename_i g hg
        simp only [Except.ok.injEq] at h
        subst h
        obtain ⟨t, hc, ht, hs⟩ := convSet_inv2 T c src k m g hg
        intro p hp
        simp only [hm, Out.pairs, List.flatMap_cons, List.flatMap_nil, hc, List.map_cons, List.map_nil, List.append_nil,
          List.zip_cons_cons, List.zip_nil_right, List.mem_singleton] at hp
        subst hp
        exact ⟨ht, fun _ => by simpa [curSet, hsh] using hs⟩
    · cases h
  · -- listOfMaps
    rename_i hsh
    split at h
    · cases h
    · rename_i ts hts
      simp only [Except.ok.injEq] at h
      subst h
      rw [pairs_singletons]
      intro p hp
      exact ⟨(mapE_zip_forall _ (fun m t => convOne T c src m k = .ok t) _ _ ts hts (fun _ _ _ hb => hb) p hp).1,
             by simp [hsh, hasSet]⟩
  · -- listOfSets
    rename_i hsh
    split at h
    · cases h
    · rename_i gs hgs
      simp only [Except.ok.injEq] at h
      subst h
      intro p hp
      obtain ⟨h1, h2⟩ := mapE_convSet_forall T c src k _ gs hgs p hp
      exact ⟨h1, fun _ => by simpa [curSet, hsh] using h2⟩
  · -- mergedSet
    rename_i hsh
    split at h
    · cases h
    · rename_i ts hts
      split at h
      · cases h
      · rename_i sm hsm
        simp only [Except.ok.injEq] at h
        subst h
        rw [pairs_merged]
        intro p hp
        obtain ⟨h1, h2⟩ := mapE_zip_forall _ (fun m t => convOne T c src m k = .ok t)
          (fun _ => (⟨sm, ts⟩ : TGroup)) _ ts hts (fun _ _ _ hb => hb) p hp
        refine ⟨h1, fun _ => ?_⟩
        rw [h2]
        simpa [curSet, hsh] using hsm
  · -- mergedSetInLoop
    rename_i hsh
    simp [goodShape, hsh] at hgs
  · cases h
  · cases h

/-- **Metadata of every converter** (model ⊨ `specAll.metas`): for a table entry that passes `staticOk` and
`metaStaticOk`, every source and every shift argument: in a successful conversion title / artist / creator of chart
`i` (or of the set it sits in) equal those of source map `i` (of the source set), and its difficulty name ends with
the source's — each role where both games have it.  The codecs are parameters (identity on the abstract text). -/
theorem convert_meta (T : Tables) (c : Conv) (src : Src) (k k' : Int) (out : Out)
    (hst : staticOk T c = true) (hms : metaStaticOk c = true)
    (h : convert T c src k = .ok out) :
    (specAll T c.srcGame c.tgtGame c.tgtMapClass src k' out).metas = true := by
  show (src.maps.zip out.pairs).all (fun p => metaOk c.srcGame c.tgtGame src p.1 p.2.1 p.2.2) = true
  have hshape : goodShape c.shape = true := by
    simp only [staticOk, Bool.and_eq_true] at hst
    exact hst.1.1.1.1.1.2
  rw [List.all_eq_true]
  intro p hp
  obtain ⟨hone, hset⟩ := convert_pairs_inv T c src k out hshape h p hp
  obtain ⟨fh, fl, fb, fs, me, a, b, d, _, _, _, _, hme, ht⟩ := convOne_inv T c src p.1 k p.2.2 hone
  have hmap : metasAt c src (some p.1) "map" c.metas [] = .ok p.2.2.attrs := by rw [ht]; exact hme
  have hcur : (c.shape == Shape.mergedSet) = false → curSet c src p.1 = some p.1 := by
    intro hm; simp [curSet, hm]
  simp only [metaStaticOk, Bool.and_eq_true] at hms
  obtain ⟨⟨⟨r1, r2⟩, r3⟩, r4⟩ := hms
  simp only [metaOk, Bool.and_eq_true]
  exact ⟨⟨⟨roleOk_of_static c .title src p.1 p.2.1 p.2.2 _ r1 hmap hset hcur,
           roleOk_of_static c .artist src p.1 p.2.1 p.2.2 _ r2 hmap hset hcur⟩,
          roleOk_of_static c .creator src p.1 p.2.1 p.2.2 _ r3 hmap hset hcur⟩,
         roleOk_of_static c .diff src p.1 p.2.1 p.2.2 _ r4 hmap hset hcur⟩

/-- **The shipped converters satisfy the specification** (all five clauses of `specAll`): for each of the 17
generated entry points, every source satisfying `srcOk` (well-formed lists, key columns, no missing value; any row
labels, any number of maps) and every shift argument, a successful conversion yields one chart per source map, with
exactly the source's hits / holds / tempo points (column shifted by the shift argument only), its SVs when both
games have them, exactly the target's declared fields without NaN, and title / artist / creator / difficulty name
from the source.  (`source untouched` is runtime behaviour, checked on every case; the codecs are parameters.) -/
theorem converters_spec_all : ∀ c ∈ converters, ∀ (src : Src) (k : Int) (out : Out),
    srcOk tables c src = true → convert tables c src k = .ok out →
    (specAll tables c.srcGame c.tgtGame c.tgtMapClass src (effShift c k) out).all = true := by
  intro c hc src k out hsrc h
  obtain ⟨h1, h2, h3, h4⟩ := converters_spec c hc src k out hsrc h
  have h5 := convert_meta tables c src k (effShift c k) out (table_static_ok c hc) (table_meta_provenance c hc) h
  simp only [Verdict.all, Bool.and_eq_true]
  exact ⟨⟨⟨⟨h1, h2⟩, h3⟩, h4⟩, h5⟩

end Reamber.Convert
